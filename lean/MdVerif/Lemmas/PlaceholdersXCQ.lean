/-
C10c × C10X: copy of `Lemmas/PlaceholdersXQ.lean` (worker x1) with the invariants of `Props/C10c.lean` (`AdjC true`: simple regions
behind `](` and `![`) in place of `Adj3`; namespace `MdVerif.NoCtlXC`.

Helper lemmas for C10 on the extension model, part 0: the string property that excludes BLANK wikilink labels.

`WikiLinksInlineProcessor.handleMatch` returns the EMPTY string for `[[   ]]`; the empty string in the stash joins the
texts on both sides of the placeholder, which can form a new `BACKTICK_RE` match over an escape token on the second
pass (a real leak: `*x __`[[ ]]`` \* ```__ y*`).  The exclusion: no `[` immediately followed by a blank, `Qw true`.
It is closed under infixes and newline-joins (block parser), under replacing a stretch by a placeholder-like string
(`Tok`), and every string the inline engine makes is cut out of such a string: this file carries it through
`processPlaceholders` and through the core patterns (emphasis, reference links).  `Qw false` is trivially true, so the
same lemmas serve the tables without the wikilink pattern.  Core Lean only.
-/
import MdVerif.Lemmas.PlaceholdersCFM

namespace MdVerif.NoCtlXC
open MdVerif.NoCtl Py Inline

/-! ### vocabulary -/

/-- with wikilinks: no `[` immediately followed by a blank -/
def Qw (wl : Bool) (s : Str) : Prop := wl = true → NoPair '[' ' ' s

instance (wl : Bool) (s : Str) : Decidable (Qw wl s) := by unfold Qw; infer_instance

/-- a string that may stand for a placeholder: not empty, no `[`, not starting with a blank -/
def Tok (T : Str) : Prop := T ≠ [] ∧ '[' ∉ T ∧ T.head? ≠ some ' '

/-- the non-atomic strings of an element -/
def QN (wl : Bool) (n : Node) : Prop := (n.textAtomic = false → Qw wl (n.text.getD [])) ∧ Qw wl (n.tail.getD [])

def QItem (wl : Bool) : StashItem → Prop
  | .str s => Tok s
  | .node n => n.Forall (QN wl)

def QSt (wl : Bool) (stash : List StashItem) : Prop := ∀ (i : Nat) (it : StashItem), stash[i]? = some it → QItem wl it

/-- what a pattern returns -/
def FoundQ (wl : Bool) (f : Found) : Prop :=
  match f.node with
  | .none => True
  | .str s => Tok s
  | .el n => n.Forall (QN wl)

/-! ### closure -/

theorem qw_nil (wl : Bool) : Qw wl [] := fun _ => noPair_nil _ _

theorem Qw.infix {wl : Bool} {s t : Str} (h : Qw wl s) (ht : t <:+: s) : Qw wl t := fun hw => (h hw).infix ht

theorem qw_none (wl : Bool) : Qw wl ((none : Option Str).getD []) := qw_nil wl

theorem tok_last {T : Str} (h : Tok T) (X : Str) : (X ++ T).getLast? ≠ some '[' := by
  rw [List.getLast?_append]
  cases hg : T.getLast? with
  | none =>
    have : T = [] := by
      cases T with
      | nil => rfl
      | cons c r => simp at hg
    exact absurd this h.1
  | some c =>
    simp only [Option.some_or, ne_eq, Option.some.injEq]
    rintro rfl
    exact h.2.1 (List.mem_of_mem_getLast? hg)

/-- a placeholder-like string between two good strings -/
theorem qw_splice {wl : Bool} {X Y T : Str} (hX : Qw wl X) (hY : Qw wl Y) (hT : Tok T) : Qw wl (X ++ T ++ Y) := by
  intro hw
  have h1 : NoPair '[' ' ' (X ++ T) := noPair_append (hX hw) (noPair_of_not_mem_left hT.2.1) (.inr hT.2.2)
  exact noPair_append h1 (hY hw) (.inl (tok_last hT X))

/-- replacing a stretch -/
theorem qw_replace {wl : Bool} {X M Y T : Str} (h : Qw wl (X ++ M ++ Y)) (hT : Tok T) : Qw wl (X ++ T ++ Y) :=
  qw_splice (h.infix ⟨[], M ++ Y, by simp⟩) (h.infix ⟨X ++ M, [], by simp⟩) hT

theorem qw_joinNl {wl : Bool} {s t : Str} (hs : Qw wl s) (ht : Qw wl t) : Qw wl (s ++ '\n' :: t) :=
  fun hw => noPair_joinNl (by decide) (by decide) (hs hw) (ht hw)

theorem tok_placeholder (i : Nat) : Tok (placeholder i) :=
  ⟨(sepOK3_placeholder i).1.1, (sepOK3_placeholder i).2.2.1, by
    have := placeholder_head i []
    rw [List.append_nil] at this
    rw [this]; decide⟩

theorem tok_escToken (v : Nat) : Tok (escToken v) :=
  ⟨(sepOK3_escToken v).1.1, (sepOK3_escToken v).2.2.1, by simp [escToken]; decide⟩

theorem QSt.push {wl : Bool} {stash : List StashItem} (h : QSt wl stash) {it : StashItem} (hit : QItem wl it) :
    QSt wl (stash ++ [it]) := by
  intro i x hx
  rcases Nat.lt_or_ge i stash.length with hlt | hge
  · rw [List.getElem?_append_left hlt] at hx
    exact h i x hx
  · rw [List.getElem?_append_right hge] at hx
    rcases Nat.eq_zero_or_pos (i - stash.length) with h0 | hpos
    · rw [h0] at hx
      simp only [List.getElem?_cons_zero, Option.some.injEq] at hx
      subst hx
      exact hit
    · rw [List.getElem?_eq_none (by simp only [List.length_cons, List.length_nil]; omega)] at hx; cases hx

theorem qst_nil (wl : Bool) : QSt wl [] := by intro i it h; simp at h

theorem pyDrop_suffix (s : Str) (i : Int) : pyDrop s i <:+ s := List.drop_suffix _ _

/-- the data after a match has been replaced by a placeholder -/
theorem qw_splice_data {wl : Bool} {data : Str} (h : Qw wl data) (start : Nat) (stop : Int) (i : Nat) :
    Qw wl (data.take start ++ placeholder i ++ pyDrop data stop) :=
  qw_splice (h.infix (List.take_prefix _ _).isInfix) (h.infix (pyDrop_suffix _ _).isInfix) (tok_placeholder i)

/-! ### `linkText`, `ppLoop` -/

/-- a produced element whose tail is still being written -/
def HeadQ (wl : Bool) (n : Node) : Prop :=
  (n.textAtomic = false → Qw wl (n.text.getD [])) ∧ ∀ c ∈ n.children, c.Forall (QN wl)

theorem headQ_of_forall {wl : Bool} {n : Node} (h : n.Forall (QN wl)) : HeadQ wl n := by
  rw [Node.forall_iff] at h
  exact ⟨h.1.1, h.2⟩

theorem HeadQ.close {wl : Bool} {n : Node} (h : HeadQ wl n) (ht : Qw wl (n.tail.getD [])) : n.Forall (QN wl) := by
  rw [Node.forall_iff]
  exact ⟨⟨h.1, ht⟩, h.2⟩

/-- state of the loop; `rest` is the part of the data that is still to be read -/
structure PPInvQ (wl : Bool) (isText : Bool) (result : List Node) (parent : Node) (rest : Str) : Prop where
  heads : ∀ n ∈ result, HeadQ wl n
  tails : ∀ n ∈ result.tail, Qw wl (n.tail.getD [])
  pslot : result ≠ [] → Qw wl ((slot isText parent).getD [])
  joint : Qw wl ((curOf isText result parent).getD [] ++ rest)

theorem linkTextQ_spec {wl : Bool} {isText : Bool} {parent : Node} {result : List Node} {text rest : Str}
    (inv : PPInvQ wl isText result parent (text ++ rest)) :
    PPInvQ wl isText (linkText text false isText result parent).1
      (linkText text false isText result parent).2 rest := by
  have hcur := linkText_cur text false isText result parent
  obtain ⟨-, -, f3, f4⟩ := linkText_frame text isText result parent
  refine ⟨?_, ?_, ?_, ?_⟩
  · cases result with
    | nil => rw [(f3 rfl).1]; intro n hn; cases hn
    | cons l r =>
      obtain ⟨-, l', e1, e2, -⟩ := f4 l r rfl
      rw [e1]
      intro n hn
      rcases List.mem_cons.1 hn with rfl | hn
      · have hl := inv.heads l (by simp)
        have et : n.text = l.text := congrArg (·.text) e2
        have ea : n.textAtomic = l.textAtomic := congrArg (·.textAtomic) e2
        have ec : n.children = l.children := congrArg (·.children) e2
        exact ⟨by rw [et, ea]; exact hl.1, by rw [ec]; exact hl.2⟩
      · exact inv.heads n (by simp [hn])
  · cases result with
    | nil => rw [(f3 rfl).1]; intro n hn; cases hn
    | cons l r =>
      obtain ⟨-, l', e1, -, -⟩ := f4 l r rfl
      rw [e1]; exact inv.tails
  · cases result with
    | nil => rw [(f3 rfl).1]; intro h; exact absurd rfl h
    | cons l r => intro _; rw [(f4 l r rfl).1]; exact inv.pslot (by simp)
  · rw [hcur, List.append_assoc]
    exact inv.joint

/-- the final state of the loop -/
def PPOutQ (wl : Bool) (isText : Bool) (parent' : Node) (res : List Node) : Prop :=
  Qw wl ((slot isText parent').getD []) ∧ ∀ n ∈ res, n.Forall (QN wl)

theorem PPInvQ.finish {wl : Bool} {isText : Bool} {parent : Node} {result : List Node}
    (inv : PPInvQ wl isText result parent []) : PPOutQ wl isText parent result.reverse := by
  have hcur : Qw wl ((curOf isText result parent).getD []) := by
    have := inv.joint
    simpa using this
  refine ⟨?_, ?_⟩
  · cases result with
    | nil => exact hcur
    | cons l r => exact inv.pslot (by simp)
  · intro n hn
    have hn' := List.mem_reverse.1 hn
    cases result with
    | nil => cases hn'
    | cons l r =>
      rcases List.mem_cons.1 hn' with rfl | hr
      · exact (inv.heads n (by simp)).close hcur
      · exact (inv.heads n hn').close (inv.tails n hr)

/-- what `nested` must do with a stashed element -/
def NestedQ (wl : Bool) (stash : List StashItem) (nested : Node → Option Node) : Prop :=
  ∀ (i : Nat) (n n' : Node), stash[i]? = some (StashItem.node n) → nested n = some n' → n'.Forall (QN wl)

theorem ppLoopQ_spec {wl : Bool} {stash : List StashItem} {nested : Node → Option Node} {data : Str} {isText : Bool}
    (hq : QSt wl stash) (hn : NestedOKC stash nested) (hnq : NestedQ wl stash nested) :
    ∀ (g start : Nat) (result : List Node) (parent : Node) (out : List Node × Node),
      start ≤ data.length → WF true stash.length (data.drop start) →
      PPInvQ wl isText result parent (data.drop start) →
      ppLoop stash nested data false isText g start result parent = some out →
      PPOutQ wl isText out.2 out.1 := by
  intro g
  induction g with
  | zero => intro start result parent out _ _ _ h; simp [ppLoop] at h
  | succ g ih =>
    intro start result parent out hle hwf inv h
    have hgt : ¬ start > data.length := by omega
    rw [ppLoop] at h
    simp only [hgt, if_false] at h
    rcases find_ph_wf hwf with ⟨hnone, hw0⟩ | ⟨pre, i, rest, hsplit, hfind, hpre, hi, hrest⟩
    · rw [hnone] at h
      simp only [Option.some.injEq] at h
      subst h
      have inv' : PPInvQ wl isText result parent (data.drop start ++ []) := by
        simpa using inv
      exact (linkTextQ_spec inv').finish
    · rw [hfind] at h
      simp only [] at h
      have hdrop : data.drop (start + pre.length) = placeholder i ++ rest := by
        rw [← List.drop_drop, hsplit, List.drop_left]
      rw [findPh_placeholder hdrop] at h
      simp only [Option.bind_some, stashGet_pad4] at h
      obtain ⟨item, hitem⟩ : ∃ item, stash[i]? = some item := ⟨stash[i], by simp [hi]⟩
      rw [hitem] at h
      simp only [] at h
      have hslice : slice data start (start + pre.length) = pre := by
        simp only [slice]
        rw [List.drop_take]
        have : start + pre.length - start = pre.length := by omega
        rw [this, hsplit, List.take_left]
      have inv0 : PPInvQ wl isText result parent (pre ++ (placeholder i ++ rest)) := by
        rw [← hsplit]; exact inv
      have inv1 : PPInvQ wl isText
          (if start + pre.length > 0 then linkText (slice data start (start + pre.length)) false isText result parent
            else (result, parent)).1
          (if start + pre.length > 0 then linkText (slice data start (start + pre.length)) false isText result parent
            else (result, parent)).2 (placeholder i ++ rest) := by
        split
        · rw [hslice]; exact linkTextQ_spec inv0
        · rename_i hz
          have : pre = [] := List.length_eq_zero_iff.1 (by omega)
          subst this
          simpa using inv0
      have hlen : start + pre.length + (placeholder i).length ≤ data.length := by
        have := congrArg List.length hsplit
        simp only [List.length_drop, List.length_append] at this
        omega
      have hrest' : data.drop (start + pre.length + (placeholder i).length) = rest := by
        rw [← List.drop_drop, hdrop, List.drop_left]
      have hitemQ := hq i item hitem
      revert h
      generalize (if start + pre.length > 0 then linkText (slice data start (start + pre.length)) false isText result parent
            else (result, parent)) = st1 at inv1
      obtain ⟨res1, par1⟩ := st1
      simp only at inv1
      intro h
      cases item with
      | node n =>
        simp only [] at h
        cases hnn : nested n with
        | none => simp [hnn] at h
        | some n' =>
          simp only [hnn] at h
          obtain ⟨-, htail⟩ := hn i n n' hitem hnn
          have hout := hnq i n n' hitem hnn
          have hcurQ : Qw wl ((curOf isText res1 par1).getD []) :=
            inv1.joint.infix ⟨[], placeholder i ++ rest, by simp⟩
          have inv2 : PPInvQ wl isText (n' :: res1) par1 rest := by
            refine ⟨?_, ?_, ?_, ?_⟩
            · intro m hm
              rcases List.mem_cons.1 hm with rfl | hm
              · exact headQ_of_forall hout
              · exact inv1.heads m hm
            · intro m hm
              simp only [List.tail_cons] at hm
              cases res1 with
              | nil => cases hm
              | cons l r =>
                rcases List.mem_cons.1 hm with rfl | hr
                · exact hcurQ
                · exact inv1.tails m hr
            · intro _
              cases res1 with
              | nil => exact hcurQ
              | cons l r => exact inv1.pslot (by simp)
            · simp only [curOf, htail, Option.getD_none, List.nil_append]
              exact inv1.joint.infix ⟨(curOf isText res1 par1).getD [] ++ placeholder i, [], by simp⟩
          exact ih _ _ _ out hlen (by rw [hrest']; exact hrest) (by rw [hrest']; exact inv2) h
      | str s =>
        simp only [] at h
        have inv2 : PPInvQ wl isText res1 par1 (s ++ rest) := by
          refine ⟨inv1.heads, inv1.tails, inv1.pslot, ?_⟩
          have hj := inv1.joint
          rw [← List.append_assoc] at hj
          rw [← List.append_assoc]
          exact qw_replace hj hitemQ
        exact ih _ _ _ out hlen (by rw [hrest']; exact hrest) (by rw [hrest']; exact linkTextQ_spec inv2) h

/-! ### `procNode`, `processPlaceholders` -/

/-- the contract of `processPlaceholders` -/
def PPSpecQ (wl : Bool) (stash : List StashItem) (pp : PP) : Prop :=
  ∀ (data : Str) (parent : Node) (isText : Bool) (res : List Node) (parent' : Node),
    StrC stash.length (some data) → Qw wl data → slot isText parent = none →
    pp data false parent isText = some (res, parent') → PPOutQ wl isText parent' res

theorem petTailQ_spec {wl : Bool} {stash : List StashItem} {pp : PP} (hq : PPSpecQ wl stash pp) {c c1 : Node}
    {res : List Node} (ht : StrC stash.length c.tail) (hf : c.tailAtomic = false) (htq : Qw wl (c.tail.getD []))
    (h : petTail pp c = some (c1, res)) :
    Qw wl (c1.tail.getD []) ∧ ∀ n ∈ res, n.Forall (QN wl) := by
  unfold petTail at h
  split at h
  · cases hp : pp (c.tail.getD []) c.tailAtomic { c with tail := none, tailAtomic := false } false with
    | none => simp [hp] at h
    | some r =>
      obtain ⟨res', c'⟩ := r
      simp only [hp, Option.some.injEq, Prod.mk.injEq] at h
      obtain ⟨rfl, rfl⟩ := h
      rw [hf] at hp
      have ht' : StrC stash.length (some (c.tail.getD [])) := by
        cases hx : c.tail with
        | none => rw [hx] at ht; exact ht
        | some s => rw [hx] at ht; exact ht
      exact hq _ { c with tail := none, tailAtomic := false } false _ _ ht' htq rfl hp
  · simp only [Option.some.injEq, Prod.mk.injEq] at h
    obtain ⟨rfl, rfl⟩ := h
    exact ⟨htq, by simp⟩

theorem petTextQ_spec {wl : Bool} {stash : List StashItem} {pp : PP} (hb : PPSpecC stash pp)
    (hq : PPSpecQ wl stash pp) {c c2 : Node}
    (ht : StrC stash.length c.text) (hf : c.textAtomic = false) (htq : Qw wl (c.text.getD []))
    (h : petText pp c = some c2) :
    Qw wl (c2.text.getD []) ∧ ∀ g ∈ c2.children, g ∈ c.children ∨ g.Forall (QN wl) := by
  unfold petText at h
  split at h
  · cases hp : pp (c.text.getD []) c.textAtomic { c with text := none, textAtomic := false } true with
    | none => simp [hp] at h
    | some r =>
      obtain ⟨res', c'⟩ := r
      simp only [hp, Option.some.injEq] at h
      subst h
      rw [hf] at hp
      have ht' : StrC stash.length (some (c.text.getD [])) := by
        cases hx : c.text with
        | none => rw [hx] at ht; exact ht
        | some s => rw [hx] at ht; exact ht
      have o := hq _ { c with text := none, textAtomic := false } true _ _ ht' htq rfl hp
      have ob := hb.plain _ { c with text := none, textAtomic := false } true _ _ ht' rfl rfl hp
      refine ⟨o.1, ?_⟩
      intro g hg
      simp only [List.mem_append] at hg
      rcases hg with hg | hg
      · exact .inr (o.2 g hg)
      · left
        have : c'.children = c.children := ob.frame.2.2.symm
        rw [this] at hg; exact hg
  · simp only [Option.some.injEq] at h
    subst h
    exact ⟨htq, fun g hg => .inl hg⟩

/-- tail then text of one element made by a pattern -/
theorem pet_bothQ {wl : Bool} {stash : List StashItem} {pp : PP} (hb : PPSpecC stash pp) (hq : PPSpecQ wl stash pp)
    {i : Nat} (hi : i ≤ stash.length) {c c1 c2 : Node} {resT : List Node} (hc : SNodeC i c) (hcq : QN wl c)
    (h1 : petTail pp c = some (c1, resT)) (h2 : petText pp c1 = some c2) :
    QN wl c2 ∧ (∀ n ∈ resT, n.Forall (QN wl)) ∧ ∀ g ∈ c2.children, g ∈ c.children ∨ g.Forall (QN wl) := by
  obtain ⟨t1, t2, t3, t4, t5⟩ := hc
  obtain ⟨f1, e1, e2, s1, fl, -⟩ := petTailC_spec hb (t4.mono hi) t3 h1
  obtain ⟨q1, q2⟩ := petTailQ_spec hq (t4.mono hi) t3 hcq.2 h1
  by_cases hcode : isCode c = true
  · rw [if_pos hcode] at t5
    obtain ⟨a1, a2, a3, a4⟩ := t5
    have hc2 : c2 = c1 := petText_codeC hb (by rw [e2]; exact a1) (by rw [e1]; exact a2) h2
    subst hc2
    refine ⟨⟨fun ha => ?_, q1⟩, q2, fun g hg => .inl ?_⟩
    · rw [e2, a1] at ha; cases ha
    · rw [← f1.2.2] at hg; exact hg
  · rw [if_neg hcode] at t5
    obtain ⟨g1, g2, g3, g4, -, fl2, -⟩ :=
      petTextC_spec hb (c := c1) (by rw [e1]; exact t5.2.mono hi) (by rw [e2]; exact t5.1) h2
    obtain ⟨p1, p2⟩ := petTextQ_spec hb hq (c := c1) (by rw [e1]; exact t5.2.mono hi) (by rw [e2]; exact t5.1)
      (by rw [e1]; exact hcq.1 t5.1) h2
    refine ⟨⟨fun _ => p1, by rw [g3]; exact q1⟩, q2, ?_⟩
    intro g hg
    rcases p2 g hg with hg | hg
    · left; rw [← f1.2.2] at hg; exact hg
    · exact .inr hg

theorem procKidsQ_spec {wl : Bool} {stash : List StashItem} {pp : PP} (hb : PPSpecC stash pp)
    (hq : PPSpecQ wl stash pp) {i : Nat} (hi : i ≤ stash.length) :
    ∀ (kids out : List Node), (∀ c ∈ kids, c.Forall (SNodeC i)) → (∀ c ∈ kids, c.Forall (QN wl)) →
      procKids pp kids = some out → ∀ m ∈ out, m.Forall (QN wl) := by
  intro kids
  induction kids with
  | nil => intro out _ _ h; simp [procKids] at h; subst h; simp
  | cons c r ih =>
    intro out hk hkq h
    rw [procKids] at h
    cases h1 : petTail pp c with
    | none => simp [h1] at h
    | some p1 =>
      obtain ⟨c1, resT⟩ := p1
      simp only [h1] at h
      cases h2 : petText pp c1 with
      | none => simp [h2] at h
      | some c2 =>
        simp only [h2] at h
        cases h3 : procKids pp r with
        | none => simp [h3] at h
        | some r' =>
          simp only [h3, Option.some.injEq] at h
          subst h
          have hc := hk c (by simp)
          have hcq := hkq c (by simp)
          rw [Node.forall_iff] at hc hcq
          obtain ⟨w, rT, rX⟩ := pet_bothQ hb hq hi hc.1 hcq.1 h1 h2
          intro m hm
          simp only [List.mem_cons, List.mem_append] at hm
          rcases hm with (rfl | hm) | hm
          · rw [Node.forall_iff]
            refine ⟨w, ?_⟩
            intro g hg
            rcases rX g hg with hg | hg
            · exact hcq.2 g hg
            · exact hg
          · exact rT m hm
          · exact ih r' (fun d hd => hk d (by simp [hd])) (fun d hd => hkq d (by simp [hd])) h3 m hm

theorem procNodeQ_spec {wl : Bool} {stash : List StashItem} {pp : PP} (hb : PPSpecC stash pp)
    (hq : PPSpecQ wl stash pp) {i : Nat} (hi : i ≤ stash.length) {n n' : Node} (hn : ItemOKC i (.node n))
    (hnq : n.Forall (QN wl)) (h : procNode pp n = some n') : n'.Forall (QN wl) := by
  obtain ⟨hs, htl⟩ := hn
  rw [Node.forall_iff] at hs hnq
  unfold procNode at h
  simp only [] at h
  cases h1 : petTail pp { n with children := [] } with
  | none => simp [h1] at h
  | some p1 =>
    obtain ⟨n1, tailRes⟩ := p1
    simp only [h1] at h
    cases h2 : petText pp n1 with
    | none => simp [h2] at h
    | some n2 =>
      simp only [h2] at h
      cases h3 : procKids pp n.children with
      | none => simp [h3] at h
      | some kids =>
        simp only [h3, Option.some.injEq] at h
        subst h
        have hs' : SNodeC i { n with children := [] } := by
          obtain ⟨a1, a2, a3, a4, a5⟩ := hs.1
          refine ⟨a1, a2, a3, a4, ?_⟩
          by_cases hc : isCode n = true
          · have hc' : isCode ({ n with children := [] } : Node) = true := hc
            rw [if_pos hc] at a5; rw [if_pos hc']
            exact ⟨a5.1, a5.2.1, rfl, a5.2.2.2⟩
          · have hc' : ¬ isCode ({ n with children := [] } : Node) = true := hc
            rw [if_neg hc] at a5; rw [if_neg hc']; exact a5
        have hq' : QN wl { n with children := [] } := hnq.1
        obtain ⟨w, rT, rX⟩ := pet_bothQ hb hq hi hs' hq' h1 h2
        have hk := procKidsQ_spec hb hq hi n.children kids hs.2 hnq.2 h3
        rw [Node.forall_iff]
        refine ⟨w, ?_⟩
        intro g hg
        simp only [List.mem_append] at hg
        rcases hg with (hg | hg) | hg
        · rcases rX g hg with hg | hg
          · cases hg
          · exact hg
        · exact rT g hg
        · exact hk g hg

theorem processPlaceholdersQ_spec {wl : Bool} {stash : List StashItem} (hst : StOKC stash) (hqs : QSt wl stash) :
    ∀ f, PPSpecQ wl stash (fun d a p t => processPlaceholders stash f d a p t) := by
  intro f
  induction f with
  | zero => intro _ _ _ _ _ _ _ _ h; simp [processPlaceholders] at h
  | succ f ih =>
    have hb := processPlaceholdersC_spec hst f
    have hnestB : NestedOKC stash (procNode (fun d a p t => processPlaceholders stash f d a p t)) := by
      intro i n n' hi hp
      have hlt : i < stash.length := by
        rcases Nat.lt_or_ge i stash.length with h | h
        · exact h
        · rw [List.getElem?_eq_none h] at hi; cases hi
      exact procNodeC_spec hb (Nat.le_of_lt hlt) (hst i _ hi) hp
    have hnestQ : NestedQ wl stash (procNode (fun d a p t => processPlaceholders stash f d a p t)) := by
      intro i n n' hi hp
      have hlt : i < stash.length := by
        rcases Nat.lt_or_ge i stash.length with h | h
        · exact h
        · rw [List.getElem?_eq_none h] at hi; cases hi
      exact procNodeQ_spec hb ih (Nat.le_of_lt hlt) (hst i _ hi) (hqs i _ hi) hp
    intro data parent isText res parent' hs hsq hslot h
    simp only [processPlaceholders] at h
    split at h
    · simp only [Option.some.injEq, Prod.mk.injEq] at h
      obtain ⟨rfl, rfl⟩ := h
      exact ⟨by rw [hslot]; exact qw_nil wl, by simp⟩
    · have inv0 : PPInvQ wl isText [] parent (data.drop 0) := by
        refine ⟨by simp, by simp, fun h => absurd rfl h, ?_⟩
        simp only [curOf, hslot, Option.getD_none, List.nil_append, List.drop_zero]
        exact hsq
      exact ppLoopQ_spec hqs hnestB hnestQ _ 0 [] parent (res, parent') (Nat.zero_le _) (by simpa using hs.1) inv0 h

theorem ppTopQ_spec {wl : Bool} {st : St} (hst : StOKC st.stash) (hqs : QSt wl st.stash) {data : Str} {isText : Bool}
    {parent parent' : Node} {res : List Node} (hs : StrC st.stash.length (some data)) (hsq : Qw wl data)
    (hslot : slot isText parent = none)
    (h : ppTop st data false parent isText = some (res, parent')) :
    Qw wl ((slot isText parent').getD []) ∧ ∀ n ∈ res, n.Forall (QN wl) :=
  processPlaceholdersQ_spec hst hqs _ data parent isText res parent' hs hsq hslot h

/-! ### the emphasis patterns: every string of the built element is cut out of the data -/

theorem seqMatch_groups_infix {c : Char} {steps : List Step} (hs2 : GoodSteps steps = true) {data : Str}
    {pos e : Nat} {groups : List Str} (h : seqMatch data pos c steps = some (e, groups)) :
    ∀ g ∈ groups, g <:+: data := by
  unfold seqMatch at h
  split at h
  · cases h
  · obtain ⟨gs', rest, h1, h2, -⟩ := seqGo_spec c _ _ _ _ _ _ _ h
    simp only [List.reverse_nil, List.nil_append] at h1
    subst h1
    intro g hgm
    obtain ⟨X, t', hX⟩ := seqDecomp_cut h2 hs2 g hgm
    refine ⟨data.take pos ++ X, c :: t', ?_⟩
    rw [List.append_assoc, List.append_assoc, ← List.append_assoc X, ← hX, List.take_append_drop]

theorem qn_mkEl (wl : Bool) (tag : String) : (mkEl tag).Forall (QN wl) := by
  rw [Node.forall_iff]
  exact ⟨⟨fun _ => qw_nil wl, qw_nil wl⟩, by simp [mkEl]⟩

theorem qn_append {wl : Bool} {p el : Node} (hp : p.Forall (QN wl)) (he : el.Forall (QN wl)) :
    (p.append el).Forall (QN wl) := by
  rw [Node.forall_iff] at hp ⊢
  refine ⟨hp.1, ?_⟩
  intro c hc
  simp only [Node.append, List.mem_append, List.mem_singleton] at hc
  rcases hc with hc | rfl
  · exact hp.2 c hc
  · exact he

theorem qn_setTextOrTail {wl : Bool} {p : Node} (hp : p.Forall (QN wl)) (hasLast : Bool) {text : Str}
    (ht : Qw wl text) : (setTextOrTail p hasLast text).Forall (QN wl) := by
  unfold setTextOrTail
  split
  · exact hp
  · split
    · split
      · rename_i l hl
        rw [Node.forall_iff] at hp ⊢
        refine ⟨hp.1, ?_⟩
        intro c hc
        simp only [Node.setLast, List.mem_append, List.mem_singleton] at hc
        rcases hc with hc | rfl
        · exact hp.2 c (List.dropLast_subset _ hc)
        · have hlm := hp.2 l (List.mem_of_mem_getLast? hl)
          rw [Node.forall_iff] at hlm ⊢
          exact ⟨⟨hlm.1.1, ht⟩, hlm.2⟩
      · exact hp
    · rw [Node.forall_iff] at hp ⊢
      exact ⟨⟨fun _ => ht, hp.1.2⟩, hp.2⟩

/-- the contract of the nested `build_element` -/
def BuildQ (wl : Bool) (b : List Str → EmItem → Nat → Option Node) : Prop :=
  ∀ (groups : List Str) (item : EmItem) (idx : Nat) (el : Node), (∀ g ∈ groups, Qw wl g) → ItemGoodB item →
    b groups item idx = some el → el.Forall (QN wl)

theorem subTryQ_spec {wl : Bool} {c : Char} {b : List Str → EmItem → Nat → Option Node}
    (hb : BuildQ wl b) {data : Str} (hd : Qw wl data) (idx : Nat) :
    ∀ (items : List EmItem) (index : Nat) (s s' : SubSt), (∀ item ∈ items, ItemGoodB item) →
      s.parent.Forall (QN wl) → subTry b data c idx items index s = some s' → s'.parent.Forall (QN wl) := by
  intro items
  induction items with
  | nil =>
    intro index s s' _ hs h
    simp only [subTry, Option.some.injEq] at h
    subst h; exact hs
  | cons item rest ih =>
    intro index s s' hgood hs h
    have hrest : ∀ it ∈ rest, ItemGoodB it := fun it hit => hgood it (by simp [hit])
    simp only [subTry] at h
    split at h
    · exact ih _ _ _ hrest hs h
    · cases hm : seqMatch data s.pos c item.steps with
      | none => simp only [hm] at h; exact ih _ _ _ hrest hs h
      | some r =>
        obtain ⟨e, groups⟩ := r
        simp only [hm] at h
        cases hbd : b groups item index with
        | none => simp [hbd] at h
        | some el =>
          simp only [hbd] at h
          have hig := hgood item (by simp)
          have hgr := seqMatch_groups_infix hig.1.2.1 hm
          have hel := hb groups item index el (fun g hg => hd.infix (hgr g hg)) hig hbd
          have hpiece : Qw wl (slice data s.offset s.pos) := by
            refine hd.infix ?_
            simp only [slice]
            exact (List.drop_suffix _ _).isInfix.trans (List.take_prefix _ _).isInfix
          exact ih _ _ _ hrest (qn_append (qn_setTextOrTail hs s.hasLast hpiece) hel) h

theorem subLoopQ_spec {wl : Bool} {c : Char} {b : List Str → EmItem → Nat → Option Node}
    (hb : BuildQ wl b) {data : Str} (hd : Qw wl data) (idx : Nat) :
    ∀ (g : Nat) (s s' : SubSt), s.parent.Forall (QN wl) → subLoop b data c idx g s = some s' →
      s'.parent.Forall (QN wl) := by
  intro g
  induction g with
  | zero => intro s s' _ h; simp [subLoop] at h
  | succ g ih =>
    intro s s' hs h
    simp only [subLoop] at h
    split at h
    · split at h
      · cases ht : subTry b data c idx (emPatterns c) 0 { s with matched := false } with
        | none => simp [ht] at h
        | some s1 =>
          simp only [ht] at h
          have hs1 := subTryQ_spec hb hd idx (emPatterns c) 0 { s with matched := false } s1 (emPatterns_goodB c) hs ht
          refine ih _ _ ?_ h
          split
          · exact hs1
          · exact hs1
      · exact ih { s with pos := s.pos + 1 } _ hs h
    · simp only [Option.some.injEq] at h
      subst h; exact hs

theorem parseSubQ_spec {wl : Bool} {c : Char} {b : List Str → EmItem → Nat → Option Node}
    (hb : BuildQ wl b) {data : Str} (hs : Qw wl data) {parent : Node} (hp : parent.Forall (QN wl))
    (hasLast : Bool) (idx : Nat) {el : Node}
    (h : parseSub b data parent hasLast idx c = some el) : el.Forall (QN wl) := by
  unfold parseSub at h
  cases hl : subLoop b data c idx (data.length + 1) ⟨0, 0, parent, hasLast, false⟩ with
  | none => simp [hl] at h
  | some s =>
    simp only [hl, Option.some.injEq] at h
    subst h
    have := subLoopQ_spec hb hs idx _ _ _ hp hl
    exact qn_setTextOrTail this s.hasLast (hs.infix (List.drop_suffix _ _).isInfix)

theorem buildQ_spec {wl : Bool} {c : Char} : ∀ f, BuildQ wl (build c f) := by
  intro f
  induction f with
  | zero => intro groups item idx el _ _ h; simp [build] at h
  | succ f ih =>
    intro groups item idx el hg hig h
    have hg0 : Qw wl (groups.headD []) := by
      cases groups with
      | nil => exact qw_nil wl
      | cons g r => exact hg g (by simp)
    have hsub : ∀ (d : Str) (p : Node) (hl : Bool) (r : Node), Qw wl d → p.Forall (QN wl) →
        parseSub (fun g i j => build c f g i j) d p hl idx c = some r → r.Forall (QN wl) :=
      fun d p hl r hd hp hr => parseSubQ_spec ih hd hp hl idx hr
    have t1 := qn_mkEl wl item.tag1
    have t2 := qn_mkEl wl item.tag2
    simp only [build] at h
    split at h
    · exact hsub _ _ _ _ hg0 t1 h
    · split at h
      · cases h
      · rename_i el2 h2
        have hel2 := hsub _ _ _ _ hg0 t2 h2
        have hel1 := qn_append t1 hel2
        split at h
        · rename_i x g1
          exact hsub _ _ _ _ (hg g1 (by simp)) hel1 h
        · simp only [Option.some.injEq] at h
          subst h; exact hel1
    · split at h
      · rename_i el1 el2 h1 h2
        simp only [Option.some.injEq] at h
        subst h
        have hg1 : Qw wl (groups.getD 1 []) := by
          cases hx : groups[1]? with
          | none => simp [List.getD, hx]; exact qw_nil wl
          | some g => simp [List.getD, hx]; exact hg g (List.mem_of_getElem? hx)
        exact qn_append (hsub _ _ _ _ hg0 t1 h1) (hsub _ _ _ _ hg1 t2 h2)
      · cases h

theorem emHandleQ_spec {wl : Bool} {c : Char} {data : Str} (hd : Qw wl data) (i : Nat) :
    ∀ (items : List EmItem) (idx : Nat) (el : Node) (e : Nat), (∀ item ∈ items, ItemGoodB item) →
      emHandle data i c items idx = some (some (el, e)) → el.Forall (QN wl) := by
  intro items
  induction items with
  | nil => intro idx el e _ h; simp [emHandle] at h
  | cons item rest ih =>
    intro idx el e hgood h
    simp only [emHandle] at h
    cases hm : seqMatch data i c item.steps with
    | none => simp only [hm] at h; exact ih _ _ _ (fun it hit => hgood it (by simp [hit])) h
    | some r =>
      obtain ⟨e', groups⟩ := r
      simp only [hm] at h
      cases hb : build c (data.length + 2) groups item idx with
      | none => simp [hb] at h
      | some el' =>
        simp only [hb, Option.some.injEq, Prod.mk.injEq] at h
        obtain ⟨rfl, rfl⟩ := h
        have hig := hgood item (by simp)
        have hgr := seqMatch_groups_infix hig.1.2.1 hm
        exact buildQ_spec _ groups item idx el' (fun g hg => hd.infix (hgr g hg)) hig hb

theorem emScanQ_spec {wl : Bool} {c : Char} {data : Str} (hd : Qw wl data) :
    ∀ (suf : Str) (i : Nat) (el : Node) (s e : Nat), emScan data c suf i = some (some (el, s, e)) →
      el.Forall (QN wl) := by
  intro suf
  induction suf with
  | nil => intro i el s e h; simp [emScan] at h
  | cons ch r ih =>
    intro i el s e h
    simp only [emScan] at h
    split at h
    · cases hh : emHandle data i c (emPatterns c) 0 with
      | none => simp [hh] at h
      | some x =>
        cases x with
        | none => simp only [hh] at h; exact ih _ _ _ _ h
        | some p =>
          obtain ⟨el', e'⟩ := p
          simp only [hh, Option.some.injEq, Prod.mk.injEq] at h
          obtain ⟨rfl, rfl, rfl⟩ := h
          exact emHandleQ_spec hd i _ _ _ _ (emPatterns_goodB c) hh
    · exact ih _ _ _ _ h

/-! ### the reference patterns -/

theorem linkHandle_refQ {wl : Bool} (cfg : Cfg) (stash : List StashItem) {pi : Nat} (hpi : pi = 2 ∨ pi = 6)
    {data : Str} (hd : Qw wl data) {i : Nat} {f : Found} (h : linkHandle cfg stash pi data i (i + 1) = some f) :
    FoundQ wl f := by
  rw [linkHandle_ref_eq cfg stash hpi] at h
  rcases hgt : getText data (i + 1) with ⟨text, index, handled⟩
  simp only [hgt] at h
  cases handled with
  | false => simp at h
  | true =>
    simp only [Bool.not_true, Bool.false_eq_true, if_false] at h
    obtain ⟨restT, ht1, -⟩ := getText_spec hgt
    have htext : Qw wl text := by
      refine hd.infix ⟨data.take (i + 1), ']' :: restT, ?_⟩
      rw [List.append_assoc, ← ht1, List.take_append_drop]
    have hfinal : ∀ (id : Str) (e2 : Nat),
        (match cfg.refs.find? (fun x => x.1 = wsClean id) with
          | none => some (⟨.none, i, e2⟩ : Found)
          | some (_, href, title) => some ⟨.el { refEl href title with text := some text }, i, e2⟩) = some f →
        FoundQ wl f := by
      intro id e2 hm
      cases hfind : cfg.refs.find? (fun x => x.1 = wsClean id) with
      | none =>
        simp only [hfind, Option.some.injEq] at hm
        subst hm
        trivial
      | some x =>
        obtain ⟨xid, href, title⟩ := x
        simp only [hfind, Option.some.injEq] at hm
        subst hm
        show ({ refEl href title with text := some text } : Node).Forall (QN wl)
        have hk : (refEl href title).children = [] ∧ (refEl href title).tail = none := by
          unfold refEl
          split
          · obtain ⟨-, -, -, f4, f5, -⟩ := setAttr_frame (mkEl "a") "href".toList href
            obtain ⟨-, -, -, g4, g5, -⟩ := setAttr_frame ((mkEl "a").setAttr "href".toList href) "title".toList (title.getD [])
            exact ⟨by rw [g4, f4]; rfl, by rw [g5, f5]; rfl⟩
          · obtain ⟨-, -, -, f4, f5, -⟩ := setAttr_frame (mkEl "a") "href".toList href
            exact ⟨by rw [f4]; rfl, by rw [f5]; rfl⟩
        rw [Node.forall_iff]
        refine ⟨⟨fun _ => htext, ?_⟩, ?_⟩
        · show Qw wl ((refEl href title).tail.getD [])
          rw [hk.2]; exact qw_nil wl
        · show ∀ c ∈ (refEl href title).children, _
          rw [hk.1]; intro c hc; cases hc
    rcases hpi with rfl | rfl
    · simp only [show ¬ ((2 : Nat) = 6) by decide, if_false] at h
      cases hev : evalId data index text with
      | none => simp [hev] at h
      | some r =>
        obtain ⟨id, e2⟩ := r
        simp only [hev] at h
        exact hfinal id e2 h
    · simp only [if_true] at h
      exact hfinal (lower text) index h


/-! ### the inline link and the image patterns (C10c) -/

theorem qn_setAttr {wl : Bool} {n : Node} (h : n.Forall (QN wl)) (k v : Str) : (n.setAttr k v).Forall (QN wl) := by
  obtain ⟨f1, f2, f3, f4, f5, f6⟩ := setAttr_frame n k v
  rw [Node.forall_iff] at h ⊢
  exact ⟨⟨by rw [f3, f2]; exact h.1.1, by rw [f5]; exact h.1.2⟩, by rw [f4]; exact h.2⟩

theorem linkHandle_linkQ {wl : Bool} (cfg : Cfg) (stash : List StashItem) {data : Str} (hd : Qw wl data) {i : Nat}
    {f : Found} (h : linkHandle cfg stash 3 data i (i + 1) = some f) : FoundQ wl f := by
  rw [linkHandle_link_eq] at h
  rcases hgt : getText data (i + 1) with ⟨text, index, handled⟩
  simp only [hgt] at h
  cases handled with
  | false => simp at h
  | true =>
    simp only [Bool.not_true, Bool.false_eq_true, if_false] at h
    obtain ⟨restT, ht1, -⟩ := getText_spec hgt
    have htext : Qw wl text := by
      refine hd.infix ⟨data.take (i + 1), ']' :: restT, ?_⟩
      rw [List.append_assoc, ← ht1, List.take_append_drop]
    have ha : ({ mkEl "a" with text := some text } : Node).Forall (QN wl) := by
      rw [Node.forall_iff]
      exact ⟨⟨fun _ => htext, qw_nil wl⟩, by intro c hc; simp [mkEl] at hc⟩
    split at h
    · cases h
    · simp only [Option.some.injEq] at h
      subst h
      show Node.Forall (QN wl) _
      split
      · exact qn_setAttr (qn_setAttr ha _ _) _ _
      · exact qn_setAttr ha _ _

theorem linkHandle_imageQ {wl : Bool} (cfg : Cfg) (stash : List StashItem) {data : Str} {i : Nat}
    {f : Found} (h : linkHandle cfg stash 4 data i (i + 2) = some f) : FoundQ wl f := by
  rw [linkHandle_image_eq] at h
  split at h
  · cases h
  · split at h
    · cases h
    · simp only [Option.some.injEq] at h
      subst h
      show Node.Forall (QN wl) _
      refine qn_setAttr ?_ _ _
      split
      · exact qn_setAttr (qn_setAttr (qn_mkEl wl "img") _ _) _ _
      · exact qn_setAttr (qn_mkEl wl "img") _ _

theorem linkHandle_imgrefQ {wl : Bool} (cfg : Cfg) (stash : List StashItem) {pi : Nat} (hpi : pi = 5 ∨ pi = 7)
    {data : Str} {i : Nat} {f : Found} (h : linkHandle cfg stash pi data i (i + 2) = some f) : FoundQ wl f := by
  rw [linkHandle_imgref_eq cfg stash hpi] at h
  split at h
  · cases h
  · split at h
    · cases h
    · split at h
      · simp only [Option.some.injEq] at h
        subst h
        trivial
      · simp only [Option.some.injEq] at h
        subst h
        show Node.Forall (QN wl) _
        refine qn_setAttr ?_ _ _
        split
        · exact qn_setAttr (qn_setAttr (qn_mkEl wl "img") _ _) _ _
        · exact qn_setAttr (qn_mkEl wl "img") _ _

/-! ### the core patterns -/

theorem tok_of_chars {s : Str} (hne : s ≠ []) (h : ∀ c ∈ s, c ≠ '[' ∧ c ≠ ' ') : Tok s :=
  ⟨hne, fun hm => (h _ hm).1 rfl, fun hh => (h _ (List.mem_of_mem_head? hh)).2 rfl⟩

/-- what the core patterns return on a good text, while pattern `i` of the B chain is at work -/
theorem findMatchQ {wl : Bool} {cfg : Cfg} {i : Nat} (hi : i < patternCount) {data : Str} {si : Nat} {st : St}
    {k : Nat} (hd : DataC i k data) (hsi : i = 0 → si = 0) (hq : Qw wl data) {f : Found} {st' : St}
    (h : findMatch cfg i data si st = some (some f, st')) : FoundQ wl f := by
  unfold findMatch at h
  simp only at h
  split at h
  · cases h
  · have hpi' : i = 0 ∨ i = 1 ∨ i = 2 ∨ i = 3 ∨ i = 4 ∨ i = 5 ∨ i = 6 ∨ i = 7 ∨ i = 8 ∨ i = 9 ∨ i = 10 ∨
        i = 11 ∨ i = 12 ∨ i = 13 ∨ i = 14 ∨ i = 15 := by
      unfold patternCount at hi; omega
    have hlnk : ∀ p, p = 3 ∨ p = 4 ∨ p = 5 ∨ p = 7 →
        some (linkScan cfg st.stash p data (if si = 0 then none else data[si - 1]?) (data.drop si) si, st) =
          some (some f, st') → FoundQ wl f := by
      intro p hp hx
      simp only [Option.some.injEq, Prod.mk.injEq] at hx
      rcases hp with rfl | rfl | rfl | rfl
      · obtain ⟨j, t, -, hl⟩ := linkScan_plain_someC cfg st.stash (pi := 3) (by decide) data _ _ _ f rfl hx.1
        exact linkHandle_linkQ cfg st.stash hq hl
      · obtain ⟨j, t, -, hl⟩ := linkScan_image_someC cfg st.stash (pi := 4) (by decide) data _ _ _ f rfl hx.1
        exact linkHandle_imageQ cfg st.stash hl
      · obtain ⟨j, t, -, hl⟩ := linkScan_image_someC cfg st.stash (pi := 5) (by decide) data _ _ _ f rfl hx.1
        exact linkHandle_imgrefQ cfg st.stash (.inl rfl) hl
      · obtain ⟨j, t, -, hl⟩ := linkScan_image_someC cfg st.stash (pi := 7) (by decide) data _ _ _ f rfl hx.1
        exact linkHandle_imgrefQ cfg st.stash (.inr rfl) hl
    have href : ∀ p, p = 2 ∨ p = 6 →
        some (linkScan cfg st.stash p data (if si = 0 then none else data[si - 1]?) (data.drop si) si, st) =
          some (some f, st') → FoundQ wl f := by
      intro p hp hx
      simp only [Option.some.injEq, Prod.mk.injEq] at hx
      obtain ⟨j, t, -, hl⟩ := linkScan_ref_some cfg st.stash hp data _ _ _ f rfl hx.1
      exact linkHandle_refQ cfg st.stash hp hq hl
    rcases hpi' with rfl | rfl | rfl | rfl | rfl | rfl | rfl | rfl | rfl | rfl | rfl | rfl | rfl | rfl | rfl | rfl
    · -- backtick: a `code` element with an atomic text
      have hs0 : si = 0 := hsi rfl
      subst hs0
      simp only at h
      cases hb : btFind data 0 with
      | none => simp [hb] at h
      | some m =>
        simp only [hb] at h
        obtain ⟨hk, -⟩ := backtick_stash_okC hd hb
        simp only [hk, Option.some.injEq, Prod.mk.injEq] at h
        obtain ⟨rfl, -⟩ := h
        show Node.Forall (QN wl) _
        rw [Node.forall_iff]
        exact ⟨⟨fun ha => (by cases ha), qw_nil wl⟩, by simp [mkEl]⟩
    · -- escape
      simp only at h
      cases he : escScan (data.drop si) si with
      | none => simp [he] at h
      | some r =>
        obtain ⟨j, ch⟩ := r
        simp only [he, Option.some.injEq, Prod.mk.injEq] at h
        obtain ⟨rfl, -⟩ := h
        unfold FoundQ
        simp only
        split
        · trivial
        · rename_i s hn
          split at hn
          · simp only [PNode.str.injEq] at hn
            subst hn
            exact tok_escToken _
          · cases hn
        · rename_i n hn
          split at hn <;> cases hn
    · exact href 2 (.inl rfl) h
    · exact hlnk 3 (.inl rfl) h
    · exact hlnk 4 (.inr (.inl rfl)) h
    · exact hlnk 5 (.inr (.inr (.inl rfl))) h
    · exact href 6 (.inr rfl) h
    · exact hlnk 7 (.inr (.inr (.inr rfl))) h
    · cases h
    · cases h
    · -- line break
      simp only at h
      cases hf : find [' ', ' ', '\n'] (data.drop si) with
      | none => simp [hf] at h
      | some off =>
        simp only [hf, Option.some.injEq, Prod.mk.injEq] at h
        obtain ⟨rfl, -⟩ := h
        exact qn_mkEl wl "br"
    · cases h
    · simp only [entityFind_none (domB_no_amp hd.dom)] at h
      cases h
    · -- not_strong
      simp only at h
      cases hf : nsFind data si with
      | none => simp [hf] at h
      | some r =>
        obtain ⟨s, e⟩ := r
        simp only [hf, Option.some.injEq, Prod.mk.injEq] at h
        obtain ⟨rfl, -⟩ := h
        show Tok (slice data s e)
        unfold nsFind at hf
        split at hf
        · cases hf
        · obtain ⟨pre, M, post, h1, rfl, rfl, h4, h5⟩ := nsScan_spec _ _ _ _ _ hf
          obtain ⟨-, -, hsl, -⟩ := span_of_suffix h1 h4
          rw [hsl]
          exact tok_of_chars h4 (fun x hx => by rcases h5 x hx with rfl | rfl <;> decide)
    · -- em_strong
      simp only at h
      rw [if_pos True.intro] at h
      cases hf : emScan data '*' (data.drop si) si with
      | none => simp [hf] at h
      | some r =>
        cases r with
        | none => simp [hf] at h
        | some p =>
          obtain ⟨el, s, e⟩ := p
          simp only [hf, Option.some.injEq, Prod.mk.injEq] at h
          obtain ⟨rfl, -⟩ := h
          exact emScanQ_spec hq _ _ _ _ _ hf
    · -- em_strong2
      simp only at h
      have e15 : (if (15 : Nat) = 14 then '*' else '_') = '_' := by decide
      rw [e15] at h
      cases hf : emScan data '_' (data.drop si) si with
      | none => simp [hf] at h
      | some r =>
        cases r with
        | none => simp [hf] at h
        | some p =>
          obtain ⟨el, s, e⟩ := p
          simp only [hf, Option.some.injEq, Prod.mk.injEq] at h
          obtain ⟨rfl, -⟩ := h
          exact emScanQ_spec hq _ _ _ _ _ hf

end MdVerif.NoCtlXC
