/-
Helper lemmas for `Props/C02Big.lean`, section 9 (wikilinks): the extension pipeline on the provably sufficient fuel WITH
wikilinks, for sources in whose normalised text no `[` is immediately followed by a blank (c10x's `C10DomainW` clause
`Qw`): then no wiki label is blank and the wikilink pattern never stashes the empty string.

* `bsep_w`  — "no `[` before a blank" is a `BSep` class (c10x's block-stage framework): kept by the preprocessors
              (fenced_code, raw-HTML re-spelling), the extended block parser and the footnote tree processor;
* `blockStageX_okw` — so every text and tail of the tree handed to the inline stage is of the class;
* `convertXBig_ne_oof_wiki` — `convertXBig` never answers `oof` (no fenced_code).
Core Lean only.
-/
import MdVerif.Lemmas.C02BigXAll
import MdVerif.Lemmas.C02BigWRun
import MdVerif.Lemmas.PipelineXInertWiki2

namespace MdVerif.InlineX
open Py Inline BlockExt

/-- `NoPair a b` through a character-wise replacement that writes `a` only for `a`, `b` only for `b`, and never the
    empty string -/
theorem noPair_flatMap {a b : Char} (f : Char → Str) (ha : f a = [a]) (hb : f b = [b])
    (hfa : ∀ d, d ≠ a → a ∉ f d) (hfb : ∀ d, d ≠ b → b ∉ f d) (hne : ∀ d, f d ≠ []) :
    ∀ s : Str, NoCtl.NoPair a b s → NoCtl.NoPair a b (s.flatMap f) := by
  have hsingle : ∀ c : Char, NoCtl.NoPair a b [c] := by
    intro c
    rw [NoCtl.noPair_iff]
    intro x y e
    have := congrArg List.length e
    simp at this
    omega
  have hpiece : ∀ c, NoCtl.NoPair a b (f c) := by
    intro c
    by_cases hca : c = a
    · rw [hca, ha]; exact hsingle a
    · exact NoCtl.noPair_of_not_mem_left (hfa c hca)
  intro s
  induction s with
  | nil => intro _; exact NoCtl.noPair_nil _ _
  | cons c r ih =>
    intro h
    have hr : NoCtl.NoPair a b r := NoCtl.NoPair.infix h (List.suffix_cons c r).isInfix
    rw [List.flatMap_cons]
    refine NoCtl.noPair_append (hpiece c) (ih hr) ?_
    by_cases hca : c = a
    · right
      cases r with
      | nil => simp
      | cons d r' =>
        intro hh
        rw [List.flatMap_cons] at hh
        have hdb : d = b := by
          by_cases hd : d = b
          · exact hd
          · exfalso
            cases hfd : f d with
            | nil => exact hne d hfd
            | cons y t =>
              rw [hfd] at hh
              simp only [List.cons_append, List.head?_cons, Option.some.injEq] at hh
              exact hfb d hd (by rw [hfd, hh]; exact List.mem_cons_self)
        subst hca; subst hdb
        exact (NoCtl.noPair_iff.1 h) [] r' rfl
    · left
      intro hl
      exact hfa c hca (List.mem_of_getLast? hl)

theorem lowerChar_space_ascii : ∀ n, n < 128 → Char.ofNat n ≠ ' ' → ' ' ∉ lowerChar (Char.ofNat n) := by
  decide +kernel

theorem lowerTable_space :
    Generated.Chars.lowerNonAscii.all (fun p => p.2.all (fun n => Char.ofNat n != ' ')) = true := by
  decide +kernel

theorem lowerChar_space (c : Char) (h : c ≠ ' ') : ' ' ∉ lowerChar c := by
  by_cases hc : c.toNat < 128
  · exact RefDef.char_of_ascii (fun c => c ≠ ' ' → ' ' ∉ lowerChar c) lowerChar_space_ascii c hc h
  · simp only [lowerChar, hc, if_false]
    cases hf : Generated.Chars.lowerNonAscii.find? (fun p => p.1 = c.toNat) with
    | none => simp [h.symm]
    | some p =>
      have hp := List.mem_of_find?_eq_some hf
      have := List.all_eq_true.mp lowerTable_space p hp
      simp only [List.all_eq_true, bne_iff_ne, ne_eq] at this
      simp only [List.mem_map, not_exists, not_and]
      intro n hn he
      exact this n hn he

theorem okW_lower {s : Str} (h : OkW s) : OkW (lower s) :=
  noPair_flatMap lowerChar (by decide) (by decide) lowerChar_bracket lowerChar_space lowerChar_ne_nil s h

theorem lower_head_space {r : Str} (h : (lower r).head? = some ' ') : r.head? = some ' ' := by
  cases r with
  | nil => simp [lower] at h
  | cons d r' =>
    by_cases hd : d = ' '
    · simp [hd]
    · exfalso
      simp only [lower, List.flatMap_cons] at h
      cases hfd : lowerChar d with
      | nil => exact lowerChar_ne_nil d hfd
      | cons y t =>
        rw [hfd] at h
        simp only [List.cons_append, List.head?_cons, Option.some.injEq] at h
        exact lowerChar_space d hd (by rw [hfd, h]; exact List.mem_cons_self)

theorem okW_collapseSp : ∀ (s : Str), OkW s → OkW (collapseSp s) := by
  intro s
  induction s with
  | nil => intro _; exact NoCtl.noPair_nil _ _
  | cons c r ih =>
    intro h
    have hr : OkW r := NoCtl.NoPair.infix h (List.suffix_cons c r).isInfix
    cases r with
    | nil =>
      simp only [collapseSp]
      exact h
    | cons d r' =>
      rw [collapseSp_cons2]
      split
      · exact ih hr
      · have e : c :: collapseSp (d :: r') = [c] ++ collapseSp (d :: r') := rfl
        rw [e]
        refine NoCtl.noPair_append ?_ (ih hr) ?_
        · unfold OkW at *
          rw [NoCtl.noPair_iff]
          intro x y e'
          have := congrArg List.length e'
          simp at this
          omega
        · by_cases hc : c = '['
          · right
            rw [collapseSp_head]
            intro hh
            simp only [List.head?_cons, Option.some.injEq] at hh
            subst hc; subst hh
            exact (NoCtl.noPair_iff.1 h) [] r' rfl
          · left
            simpa using hc

theorem okW_capitalize {s : Str} (h : OkW s) : OkW (capitalize s) := by
  cases s with
  | nil => exact NoCtl.noPair_nil _ _
  | cons c r =>
    have hr : OkW r := NoCtl.NoPair.infix h (List.suffix_cons c r).isInfix
    simp only [capitalize]
    have e : ∀ x : Char, x :: lower r = [x] ++ lower r := fun _ => rfl
    rw [e]
    refine NoCtl.noPair_append (okW_single _) (okW_lower hr) ?_
    · by_cases hc : (if isAsciiLower c = true then Char.ofNat (c.toNat - 32) else c) = '['
      · right
        intro hh
        have hrs := lower_head_space hh
        have hcc : c = '[' := by
          split at hc
          · next hl => exact absurd hc (PipelineX.blockSafe_bracket.upper c hl)
          · exact hc
        cases r with
        | nil => simp at hrs
        | cons d r' =>
          simp only [List.head?_cons, Option.some.injEq] at hrs
          subst hcc; subst hrs
          exact (NoCtl.noPair_iff.1 h) [] r' rfl
      · left
        simpa using hc

/-- **"no `[` before a blank" for the block stage** -/
theorem bsep_w : BSep OkW NW where
  sep := sep_w
  nl := by unfold NW; decide
  none_ := by
    intro c hc
    simp only [List.mem_cons, List.not_mem_nil, or_false] at hc
    rcases hc with rfl | rfl | rfl | rfl <;> (unfold NW; decide)
  fn1 := by
    intro c hc
    constructor <;> (rintro rfl; revert hc; decide)
  fn2 := by
    intro c hc
    constructor <;> (rintro rfl; revert hc; decide)
  lowerOk := okW_lower
  collapseOk := fun h => okW_collapseSp _ h
  capOk := okW_capitalize

end MdVerif.InlineX

namespace MdVerif.C02BigX
open Py Pipeline PipelineX NoCtl InlineX

/-- the source condition: in the normalised text no `[` is immediately followed by a blank -/
def WikiSrc (cfg : Cfg) (src : Str) : Prop := OkW (Normalize.normalize cfg.tab src)

instance (cfg : Cfg) (src : Str) : Decidable (WikiSrc cfg src) := by unfold WikiSrc OkW; infer_instance

theorem prep_w : PrepClosed OkW :=
  prepClosed_noSub ['[', ' '] (by decide) '[' (by decide) (by decide)

theorem blockStageX_eq_blockStage (x : Exts) (cfg : Cfg) (src : Str) :
    blockStageX x cfg src =
      match prepareX x cfg src with
      | .oof => .oof
      | .ood => .ood
      | .ok (text, stash) =>
        match blockStage x.tables x.footnotes x.blockCfg cfg text with
        | .oof => .oof
        | .ood => .ood
        | .ok (root, log) => .ok (root, log, stash) := by
  have e : parseChunkX x cfg = parseChunkB x.tables x.blockCfg cfg := rfl
  simp only [blockStageX, blockStage, fnStageX, e]
  cases prepareX x cfg src with
  | oof => rfl
  | ood => rfl
  | ok ts =>
    obtain ⟨text, stash⟩ := ts
    simp only
    cases BlockExt.parseDocumentXT x.tables x.blockCfg cfg.tab text with
    | none => rfl
    | some rl =>
      obtain ⟨root, log⟩ := rl
      simp only
      cases x.footnotes with
      | false => rfl
      | true =>
        simp only [if_true]
        cases FootnotesTree.makeDiv _ fnCount (BlockExt.footnotesOf log) log with
        | oof => rfl
        | ood => rfl
        | ok dl =>
          obtain ⟨d, log'⟩ := dl
          cases d <;> rfl

/-- **every text and tail of the tree handed to the inline stage is of the class** (every flag set) -/
theorem blockStageX_okw {x : Exts} {cfg : Cfg} {src : Str} (hs : WikiSrc cfg src) {root : Node} {log : Block.Refs}
    {stash : List Str} (h : blockStageX x cfg src = .ok (root, log, stash)) : DeepP OkW root := by
  rw [blockStageX_eq_blockStage] at h
  cases hp : prepareX x cfg src with
  | oof => rw [hp] at h; cases h
  | ood => rw [hp] at h; cases h
  | ok ts =>
    obtain ⟨text, stash'⟩ := ts
    rw [hp] at h
    simp only at h
    have htext : OkW text := prepareX_ok bsep_w.closed prep_w x cfg src hp hs
    cases hb : blockStage x.tables x.footnotes x.blockCfg cfg text with
    | oof => rw [hb] at h; cases h
    | ood => rw [hb] at h; cases h
    | ok rl =>
      obtain ⟨root', log'⟩ := rl
      rw [hb] at h
      simp only [FootnotesTree.R.ok.injEq, Prod.mk.injEq] at h
      obtain ⟨rfl, _, _⟩ := h
      exact blockStage_treeP bsep_w _ _ _ cfg htext hb

/-- with the wikilink pattern: `runXBig` answers on every tree without inline placeholders of the class -/
theorem runXBig_total_wiki {x : Exts} (cfg : Cfg) (log : Block.Refs) {tree : Node} (html : List Str)
    (h : InlineN.Deep (Inline.IdsLt 0) tree) (hw : DeepP OkW tree) :
    ∃ r, runXBig (inlineCfgX x cfg log) tree html = some r := by
  have hc : 0 < (inlineCfgX x cfg log).table.length := by
    simp only [inlineCfgX]
    cases x.footnotes <;> cases x.wikilinks <;> cases x.nl2br <;> decide
  exact Option.isSome_iff_exists.1
    (InlineN.runX_total_bigW (inlineCfgX x cfg log) hc tree { st := { html := html } } rfl h hw (Inline.runFuel tree)
      (by unfold Inline.runFuel; omega) (C08Src.bigRunFuel tree) (by unfold C08Src.bigRunFuel; omega))

/-- **`convertXBig` never answers `oof`, wikilinks on or off**, for sources without `[` before a blank (no fenced_code;
    `0 < tab_length` when admonition is on) -/
theorem convertXBig_ne_oof_wiki {x : Exts} {cfg : Cfg} (src : Str) (hs : WikiSrc cfg src)
    (hf : x.fencedCode = false) (htab : x.admonition = true → 0 < cfg.tab) : convertXBig x cfg src ≠ .oof := by
  unfold convertXBig
  split
  · intro h; cases h
  · split
    · intro h; cases h
    · split
      · intro h; cases h
      · unfold treeXBig
        cases hb : blockStageX x cfg src with
        | oof => exact absurd hb (blockStageX_ne_oof x cfg src htab)
        | ood => intro h; cases h
        | ok r =>
          obtain ⟨root, log, stash⟩ := r
          obtain ⟨hdeep, rfl⟩ := blockStageX_deep hf hb
          have hw := blockStageX_okw hs hb
          obtain ⟨⟨t, xs⟩, hr⟩ := runXBig_total_wiki (x := x) cfg log [] hdeep hw
          have hent := runXBig_html_nil hr
          simp only [hr]
          cases hl : lateStageX x cfg log t xs with
          | oof =>
            exfalso
            obtain ⟨-, t', -, -, s, hs'⟩ := lateStageX_oof hl
            exact rawHtml_ne_none hent s hs'
          | err => intro h; cases h
          | ood => intro h; cases h
          | ok u html =>
            have := lateStageX_ok hl
            subst this
            simp only [finishX]
            split
            · intro h; cases h
            · next s0 _ =>
              cases hp : postX x cfg xs.st.html s0 with
              | none => exact absurd hp (postX_ne_none x cfg hent s0)
              | some r => intro h; cases h

end MdVerif.C02BigX
