/-
Helper lemmas for `Props/C02Fn.lean`, part 1: the extension pipeline WITH FOOTNOTES (toc off) never answers `err`.

* `forallS_of_full`      — the STX-token invariant of `Lemmas/C02BigStr.lean` implies the one of `Lemmas/C02FnStr.lean`
                           (the letters `q`, `z` may follow an STX as well);
* `blockStageX_tokG`     — the tree handed to the inline stage has the invariant, footnotes on or off, fenced_code on or
                           off: the block parser's tree (`C02BigX.blockStageX_tokF`, `parseDocumentXT_strs`), the footnote
                           `div` (`TokG.makeDiv_S`: footnote bodies hold no STX/ETX, the back-link text and
                           `NBSP_PLACEHOLDER` are `STX z…` / `STX q…`), `placeDiv`;
* `xokG_inlineCfgX`      — reference definitions and footnote ids hold no STX;
* `lateStageX_fn`        — the tree processors behind the inline stage when toc is off;
* `lateStageX_ne_err_fn` — they do not raise when `FootnotePostTreeprocessor` does not (`hdup`): `duplicates`, prettify
                           keep the invariant, attr_list and abbr write no bad token, unescape meets none;
* `lateStageX_shell_fn`  — the root stays the bare `div`;
* `treeXBig_ne_err_fn`, `treeXBig_rootDiv_fn`, `convertXBig_ne_err_fn`.
Core Lean only.
-/
import MdVerif.Lemmas.C02FnFn
import MdVerif.Lemmas.C02BigAttrAll

namespace MdVerif.C02Fn
open Py Pipeline PipelineX NoCtl C02BigSh C02BigNB C02BigX

/-! ### the invariant with two letters implies the invariant with four -/

theorem tokTail_eq : ∀ (r : Str) (v : Nat), TokG.tokTail v r = TokFull.tokTail v r := by
  intro r
  induction r with
  | nil => intro v; rfl
  | cons c r ih =>
    intro v
    simp only [TokG.tokTail, TokFull.tokTail, ih]

theorem tok_eq (r : Str) : TokG.tok r = TokFull.tok r := by
  cases r with
  | nil => rfl
  | cons c r => simp only [TokG.tok, TokFull.tok, tokTail_eq]

theorem gl_of_kw {c : Char} (h : (c == 'k' || c == 'w') = true) : TokG.gl c = true := by
  simp only [Bool.or_eq_true, beq_iff_eq] at h
  rcases h with rfl | rfl <;> rfl

theorem fol_of_full {r : Str} (h : TokFull.fol r = true) : TokG.fol r = true := by
  cases r with
  | nil => cases h
  | cons c r =>
    rw [TokFull.fol_cons] at h
    rw [TokG.fol_cons, tok_eq]
    simp only [Bool.or_eq_true] at h ⊢
    rcases h with h | h
    · exact Or.inl (gl_of_kw (by simpa using h))
    · exact Or.inr h

theorem folA_of_full {r : Str} (h : TokFull.folA r = true) : TokG.folA r = true := by
  cases r with
  | nil => rfl
  | cons c r =>
    rw [TokFull.folA_cons] at h
    rw [TokG.folA_cons, tok_eq]
    simp only [Bool.or_eq_true] at h ⊢
    rcases h with (h | h) | h
    · exact Or.inl (Or.inl (gl_of_kw (by simpa using h)))
    · exact Or.inl (Or.inr h)
    · exact Or.inr h

theorem SOk_of_full {s : Str} (h : TokFull.SOk s = true) : TokG.SOk s = true := by
  induction s with
  | nil => rfl
  | cons c r ih =>
    simp only [TokFull.SOk, Bool.and_eq_true, Bool.or_eq_true] at h
    simp only [TokG.SOk, Bool.and_eq_true, Bool.or_eq_true]
    refine ⟨?_, ih h.2⟩
    rcases h.1 with h1 | h1
    · exact Or.inl h1
    · exact Or.inr (fol_of_full h1)

theorem SOkA_of_full {s : Str} (h : TokFull.SOkA s = true) : TokG.SOkA s = true := by
  induction s with
  | nil => rfl
  | cons c r ih =>
    simp only [TokFull.SOkA, Bool.and_eq_true, Bool.or_eq_true] at h
    simp only [TokG.SOkA, Bool.and_eq_true, Bool.or_eq_true]
    refine ⟨?_, ih h.2⟩
    rcases h.1 with h1 | h1
    · exact Or.inl h1
    · exact Or.inr (folA_of_full h1)

theorem nodeS_of_full {n : Node} (h : TokFull.NodeS n) : TokG.NodeS n :=
  ⟨SOk_of_full h.1, SOk_of_full h.2.1, fun kv hkv => SOkA_of_full (h.2.2 kv hkv)⟩

theorem forallS_of_full {t : Node} (h : t.Forall TokFull.NodeS) : t.Forall TokG.NodeS :=
  Node.Forall.mono (fun _ hn => nodeS_of_full hn) t h

/-! ### no bad token -/

theorem nb_of_sokA {s : Str} (h : TokG.SOkA s = true) : NB s := by
  intro hb
  have := TokG.unescapeText_sokA h
  rw [(TreeProc.C02_unescape_raises_iff s).2 hb] at this
  cases this

theorem nodeNB_of_nodeS {n : Node} (h : TokG.NodeS n) : NodeNB n :=
  ⟨nb_of_sokA (TokG.SOkA_of_SOk h.1), nb_of_sokA (TokG.SOkA_of_SOk h.2.1), fun kv hkv => nb_of_sokA (h.2.2 kv hkv)⟩

theorem forallNB_of_S {t : Node} (h : t.Forall TokG.NodeS) : t.Forall NodeNB :=
  Node.Forall.mono (fun _ hn => nodeNB_of_nodeS hn) t h

/-! ### the block stage -/

/-- the log's class, abbreviated -/
abbrev LogOk (log : Block.Refs) : Prop := BlkX.LogC Blk.okc (Blk.AllC Blk.okc) log

/-- the block parser on a footnote body (no STX/ETX): a tree without STX/ETX -/
theorem parseChunkX_S (x : Exts) (cfg : Cfg) (log : Block.Refs) (text : Str) (sur : Node) (log' : Block.Refs)
    (hl : LogOk log) (ht : Blk.AllC Blk.okc text) (h : parseChunkX x cfg log text = some (sur, log')) :
    sur.Forall TokG.NodeS ∧ LogOk log' := by
  obtain ⟨h1, h2⟩ := BlkX.parseChunkXT_strs strDomX_okc x.tables x.blockCfg cfg.tab _ log hl text ht h
  exact ⟨TokG.forallS_of_noCtl (Node.Forall.mono (fun _ hn => nodeNoCtl_of_bnodeXP hn) sur h1), h2⟩

/-- **`FootnoteTreeprocessor` keeps the invariant** -/
theorem fnStageX_S {x : Exts} {cfg : Cfg} {root0 root : Node} {log0 log : Block.Refs}
    (hr0 : root0.Forall TokG.NodeS) (hl0 : LogOk log0) (h : fnStageX x cfg root0 log0 = .ok (root, log)) :
    root.Forall TokG.NodeS ∧ LogOk log := by
  unfold fnStageX at h
  split at h
  · cases hm : FootnotesTree.makeDiv (parseChunkX x cfg) fnCount (BlockExt.footnotesOf log0) log0 with
    | oof => rw [hm] at h; cases h
    | ood => rw [hm] at h; cases h
    | ok r =>
      obtain ⟨div, log1⟩ := r
      rw [hm] at h
      have hf : ∀ kv ∈ BlockExt.footnotesOf log0, TokG.STX ∉ kv.1 ∧ Blk.AllC Blk.okc kv.2 := fun kv hkv =>
        ⟨(allC_okc (BlkX.footnotesOf_c hl0 kv hkv).1).1, (BlkX.footnotesOf_c hl0 kv hkv).2⟩
      obtain ⟨hd, hl1⟩ := TokG.makeDiv_S (L := LogOk) (T := Blk.AllC Blk.okc) fnCount (parseChunkX_S x cfg) hf hl0 hm
      cases div with
      | none =>
        simp only [FootnotesTree.R.ok.injEq, Prod.mk.injEq] at h
        obtain ⟨rfl, rfl⟩ := h
        exact ⟨hr0, hl1⟩
      | some d =>
        simp only [FootnotesTree.R.ok.injEq, Prod.mk.injEq] at h
        obtain ⟨rfl, rfl⟩ := h
        exact ⟨TokG.placeDiv_S hr0 (hd d rfl), hl1⟩
  · simp only [FootnotesTree.R.ok.injEq, Prod.mk.injEq] at h
    obtain ⟨rfl, rfl⟩ := h
    exact ⟨hr0, hl0⟩

/-- **the tree and the log of the block stage are in the domain of the STX-token invariant** — every flag set
    (`tab_length ≥ 1` with fenced_code), footnotes on or off -/
theorem blockStageX_tokG {x : Exts} {cfg : Cfg} {src : Str} (htab : x.fencedCode = true → 0 < cfg.tab)
    {root : Node} {log : Block.Refs} {stash : List Str} (h : blockStageX x cfg src = .ok (root, log, stash)) :
    root.Forall TokG.NodeS ∧ LogOk log := by
  simp only [blockStageX] at h
  split at h
  · cases h
  · cases h
  · next text stash' hp =>
    split at h
    · cases h
    · next root0 log0 hpd =>
      have h0 : root0.Forall TokG.NodeS ∧ LogOk log0 := by
        cases hf : x.fencedCode with
        | true =>
          obtain ⟨hown, _, _⟩ := prepareX_fenced hf hp
          letI : NoCtlF.HtmlBound := ⟨stash'.length, false, false⟩
          obtain ⟨hroot0, hlog0⟩ := NoCtlXF.XT.block_stage_own_s x.tables x.blockCfg (htab hf) hown hpd
          exact ⟨forallS_of_full (Node.Forall.mono (fun _ hn => nodeS_of_xinv hn) root0 hroot0), hlog0⟩
        | false =>
          obtain ⟨e1, _⟩ := prepareX_nofence hf hp
          subst e1
          have hok : Blk.AllC Blk.okc (Pipeline.prepare cfg src) := fun c hc => by
            have := noCtl_iff.1 (prepare_noctl cfg src) c hc
            simp [Blk.okc, this.1, this.2]
          obtain ⟨h1, h2⟩ := BlkX.parseDocumentXT_strs strDomX_okc x.tables x.blockCfg cfg.tab _ hok hpd
          exact ⟨TokG.forallS_of_noCtl (Node.Forall.mono (fun _ hn => nodeNoCtl_of_bnodeXP hn) _ h1), h2⟩
      split at h
      · cases h
      · cases h
      · next root1 log1 hfn =>
        simp only [FootnotesTree.R.ok.injEq, Prod.mk.injEq] at h
        obtain ⟨rfl, rfl, rfl⟩ := h
        exact fnStageX_S h0.1 h0.2 hfn

/-- the configuration of the inline stage: reference definitions and footnote ids without STX -/
theorem xokG_inlineCfgX (x : Exts) (cfg : Cfg) {log : Block.Refs} (hlog : LogOk log) :
    TokG.XOK (inlineCfgX x cfg log) where
  refs := by
    intro r hr
    simp only [inlineCfgX, List.mem_reverse] at hr
    have hmem : r ∈ log := by
      unfold refsX at hr
      split at hr
      · exact (List.mem_filter.1 hr).1
      · exact hr
    have := hlog r hmem
    exact ⟨TokG.SOkA_of_noSTX (allC_okc this.2.1).1, TokG.SOkA_of_noSTX (allC_okc this.2.2.1).1⟩
  keys := by
    intro id hid
    simp only [inlineCfgX, List.mem_map] at hid
    obtain ⟨kv, hkv, rfl⟩ := hid
    exact allC_okc (BlkX.footnotesOf_c hlog kv hkv).1

/-! ### the tree processors behind the inline stage, toc off -/

/-- footnote-duplicate 15 -/
def dupStage (x : Exts) (t : Node) (fn : Footnotes.State) : Option Node :=
  if x.footnotes then FootnotesTree.duplicates fn t else some t

theorem lateStageX_fn {x : Exts} (htoc : x.toc = false) (cfg : Cfg) (log : Block.Refs) (t : Node) (xs : InlineX.XSt) :
    lateStageX x cfg log t xs =
      match dupStage x t xs.fn with
      | none => .err
      | some t1 =>
        match TreeProc.unescapeTree (late3 x cfg log t1) with
        | none => .err
        | some u => .ok u xs.st.html := by
  simp only [lateStageX, midStageX, tocStageX, htoc, Bool.false_eq_true, if_false, late3, dupStage]
  cases (if x.footnotes = true then FootnotesTree.duplicates xs.fn t else some t) with
  | none => rfl
  | some t1 =>
    simp only
    cases TreeProc.unescapeTree (if x.abbr = true then AbbrTree.run (BlockExt.abbrsOf log)
        (if x.attrList = true then AttrListTree.run cfg.blockLevel (TreeProc.prettify t1 cfg.blockLevel)
          else TreeProc.prettify t1 cfg.blockLevel)
      else (if x.attrList = true then AttrListTree.run cfg.blockLevel (TreeProc.prettify t1 cfg.blockLevel)
          else TreeProc.prettify t1 cfg.blockLevel)) <;> rfl

theorem dupStage_S {x : Exts} {t t1 : Node} {fn : Footnotes.State} (hS : t.Forall TokG.NodeS)
    (h : dupStage x t fn = some t1) : t1.Forall TokG.NodeS := by
  unfold dupStage at h
  split at h
  · exact TokG.duplicates_S t t1 hS h
  · simp only [Option.some.injEq] at h; subst h; exact hS

/-- prettify, attr_list, abbr on a tree with the invariant: no bad token -/
theorem late3_NB_G {x : Exts} (cfg : Cfg) {log : Block.Refs} (hlog : LogOk log) {t : Node}
    (hS : t.Forall TokG.NodeS) : (late3 x cfg log t).Forall NodeNB := by
  have hp : (TreeProc.prettify t cfg.blockLevel).Forall NodeNB := forallNB_of_S (TokG.prettify_S hS cfg.blockLevel)
  have h2 : (if x.attrList then AttrListTree.run cfg.blockLevel (TreeProc.prettify t cfg.blockLevel)
      else TreeProc.prettify t cfg.blockLevel).Forall NodeNB := by
    split
    · exact attrRun_NB _ hp
    · exact hp
  unfold late3
  simp only
  split
  · exact abbrRun_NB (abbrsOf_NB hlog) h2
  · exact h2

/-- behind the inline stage (toc off): no `err` when `FootnotePostTreeprocessor` does not raise -/
theorem lateStageX_ne_err_fn {x : Exts} (htoc : x.toc = false) (cfg : Cfg) {log : Block.Refs} (hlog : LogOk log)
    {t : Node} (hS : t.Forall TokG.NodeS) (xs : InlineX.XSt) (hdup : dupStage x t xs.fn ≠ none) :
    lateStageX x cfg log t xs ≠ .err := by
  rw [lateStageX_fn htoc]
  cases hd : dupStage x t xs.fn with
  | none => exact absurd hd hdup
  | some t1 =>
    simp only
    have hu := unescapeTree_NB (late3_NB_G (x := x) cfg hlog (dupStage_S hS hd))
    cases hun : TreeProc.unescapeTree (late3 x cfg log t1) with
    | none => exact absurd hun hu
    | some u => intro h; cases h

/-! ### the root -/

mutual
theorem dupFirstOl_shell (fn : Footnotes.State) : (n : Node) → (r : Node × Bool) →
    FootnotesTree.dupFirstOl fn n = some r → r.1.tag = n.tag ∧ r.1.attrs = n.attrs
  | ⟨tag, attrs, text, ta, children, tail, tla⟩, r, h => by
    simp only [FootnotesTree.dupFirstOl] at h
    split at h
    · split at h
      · simp only [Option.some.injEq] at h; subst h; exact ⟨rfl, rfl⟩
      · cases h
    · split at h
      · simp only [Option.some.injEq] at h; subst h; exact ⟨rfl, rfl⟩
      · cases h
end

theorem duplicates_shell (fn : Footnotes.State) {n n' : Node} (h : FootnotesTree.duplicates fn n = some n') :
    n'.tag = n.tag ∧ n'.attrs = n.attrs := by
  obtain ⟨tag, attrs, text, ta, children, tail, tla⟩ := n
  simp only [FootnotesTree.duplicates] at h
  split at h
  · cases h
  · split at h
    · simp only [Option.map_eq_some_iff] at h
      obtain ⟨p, hp, rfl⟩ := h
      have := dupFirstOl_shell fn _ p hp
      exact this
    · simp only [Option.some.injEq] at h; subst h; exact ⟨rfl, rfl⟩

theorem dupStage_root0 {x : Exts} {t t1 : Node} {fn : Footnotes.State} (h0 : Root0 t)
    (h : dupStage x t fn = some t1) : Root0 t1 := by
  unfold dupStage at h
  split at h
  · obtain ⟨hs, hnt, htx, htl⟩ := h0
    obtain ⟨e1, e2⟩ := duplicates_shell fn h
    obtain ⟨n1, n2, n3⟩ := VocabXWF.duplicates_NT fn h hnt
    exact ⟨⟨e1.trans hs.1, e2.trans hs.2⟩, n1, by rw [n2]; exact htx, by rw [n3]; exact htl⟩
  · simp only [Option.some.injEq] at h; subst h; exact h0

theorem placeNode_shell {div n n' : Node} (h : FootnotesTree.placeNode div n = some n') :
    n'.tag = n.tag ∧ n'.attrs = n.attrs := by
  obtain ⟨tag, attrs, text, ta, children, tail, tla⟩ := n
  simp only [FootnotesTree.placeNode] at h
  split at h
  · simp only [Option.some.injEq] at h; subst h; exact ⟨rfl, rfl⟩
  · cases h

theorem placeDiv_shell (root div : Node) :
    (FootnotesTree.placeDiv root div).tag = root.tag ∧ (FootnotesTree.placeDiv root div).attrs = root.attrs := by
  unfold FootnotesTree.placeDiv
  split
  · next r h => exact placeNode_shell h
  · exact ⟨rfl, rfl⟩

/-- the root of the block stage, footnotes on or off: the bare `div`, no truthy text or tail, no top-level child with a
    truthy tail -/
theorem blockStageX_root0_fn {x : Exts} {cfg : Cfg} {src : Str} {root : Node}
    {log : Block.Refs} {stash : List Str} (h : blockStageX x cfg src = .ok (root, log, stash)) : Root0 root := by
  simp only [blockStageX] at h
  split at h
  · cases h
  · cases h
  · split at h
    · cases h
    · next root' log' hpd =>
      obtain ⟨e1, e2⟩ := VocabXWF.parseDocumentXT_text hpd
      have h0 : Root0 root' :=
        ⟨parseDocumentXT_shell hpd, VocabXWF.parseDocumentXT_tails hpd, by rw [e1]; rfl, by rw [e2]; rfl⟩
      split at h
      · cases h
      · cases h
      · next root1 log1 hfn =>
        simp only [FootnotesTree.R.ok.injEq, Prod.mk.injEq] at h
        obtain ⟨rfl, _, _⟩ := h
        unfold fnStageX at hfn
        split at hfn
        · cases hm : FootnotesTree.makeDiv (parseChunkX x cfg) fnCount (BlockExt.footnotesOf log') log' with
          | oof => rw [hm] at hfn; cases hfn
          | ood => rw [hm] at hfn; cases hfn
          | ok r =>
            obtain ⟨div, log2⟩ := r
            rw [hm] at hfn
            cases div with
            | none =>
              simp only [FootnotesTree.R.ok.injEq, Prod.mk.injEq] at hfn
              obtain ⟨rfl, _⟩ := hfn
              exact h0
            | some d =>
              simp only [FootnotesTree.R.ok.injEq, Prod.mk.injEq] at hfn
              obtain ⟨rfl, _⟩ := hfn
              obtain ⟨hs, hnt, htx, htl⟩ := h0
              have hdt : Node.truthy d.tail = false := by rw [VocabXWF.makeDiv_tail hm]; rfl
              obtain ⟨p1, p2, p3⟩ := VocabXWF.placeDiv_NT (div := d) hnt hdt
              obtain ⟨s1, s2⟩ := placeDiv_shell root' d
              exact ⟨⟨s1.trans hs.1, s2.trans hs.2⟩, p1, by rw [p2]; exact htx, by rw [p3]; exact htl⟩
        · simp only [FootnotesTree.R.ok.injEq, Prod.mk.injEq] at hfn
          obtain ⟨rfl, _⟩ := hfn
          exact h0

theorem lateStageX_shell_fn {x : Exts} (htoc : x.toc = false) (cfg : Cfg) (log : Block.Refs) {t : Node}
    (ht : Root0 t) (xs : InlineX.XSt) {u : Node} {html : List Str} (h : lateStageX x cfg log t xs = .ok u html) :
    Shell u := by
  rw [lateStageX_fn htoc] at h
  cases hd : dupStage x t xs.fn with
  | none => rw [hd] at h; cases h
  | some t1 =>
    rw [hd] at h
    simp only at h
    have hq := late3_shell (x := x) cfg log (dupStage_root0 ht hd)
    cases hun : TreeProc.unescapeTree (late3 x cfg log t1) with
    | none => rw [hun] at h; cases h
    | some u' =>
      rw [hun] at h
      simp only [TreeResult.ok.injEq] at h
      obtain ⟨rfl, _⟩ := h
      exact unescapeTree_shell hun hq

/-! ### the pipeline -/

/-- what is assumed of `FootnotePostTreeprocessor` (proved in `Lemmas/C02FnDup.lean`) -/
def DupOk (x : Exts) (cfg : Cfg) (src : Str) : Prop :=
  ∀ root log stash t xs, blockStageX x cfg src = .ok (root, log, stash) →
    runXBig (inlineCfgX x cfg log) root stash = some (t, xs) → dupStage x t xs.fn ≠ none

/-- **the tree handed to the serializer has the bare `div` as its root** — toc off, everything else on or off -/
theorem treeXBig_rootDiv_fn {x : Exts} (htoc : x.toc = false) {cfg : Cfg} {src : Str}
    {u : Node} {html : List Str} (h : treeXBig x cfg src = .ok u html) : C14X.rootDiv u = true := by
  unfold treeXBig at h
  cases hb : blockStageX x cfg src with
  | oof => rw [hb] at h; cases h
  | ood => rw [hb] at h; cases h
  | ok r =>
    obtain ⟨root, log, stash⟩ := r
    rw [hb] at h
    simp only at h
    have h0 := blockStageX_root0_fn hb
    cases hr : runXBig (inlineCfgX x cfg log) root stash with
    | none => rw [hr] at h; cases h
    | some ts =>
      obtain ⟨t, xs⟩ := ts
      rw [hr] at h
      simp only at h
      obtain ⟨e1, e2⟩ := lateStageX_shell_fn htoc cfg log (runXBig_root0 hr h0) xs h
      simp [C14X.rootDiv, e1, e2]

/-- **no tree processor raises** — toc off, everything else on or off (`tab_length ≥ 1` with fenced_code) -/
theorem treeXBig_ne_err_fn {x : Exts} (htoc : x.toc = false) (cfg : Cfg) (src : Str)
    (htab : x.fencedCode = true → 0 < cfg.tab) (hdup : DupOk x cfg src) : treeXBig x cfg src ≠ .err := by
  unfold treeXBig
  cases hb : blockStageX x cfg src with
  | oof => intro h; cases h
  | ood => intro h; cases h
  | ok r =>
    obtain ⟨root, log, stash⟩ := r
    obtain ⟨hS0, hlog⟩ := blockStageX_tokG htab hb
    simp only
    cases hr : runXBig (inlineCfgX x cfg log) root stash with
    | none => intro h; cases h
    | some ts =>
      obtain ⟨t, xs⟩ := ts
      simp only
      have hS : t.Forall TokG.NodeS :=
        TokG.runLoopX_S (xokG_inlineCfgX x cfg hlog) _ _ _ _ _ _ _ hr hS0 TokG.stashS_nil
      exact lateStageX_ne_err_fn htoc cfg hlog hS xs (hdup root log stash t xs hb hr)

/-- **`Markdown.convert` does not raise** — toc off, everything else on or off -/
theorem convertXBig_ne_err_fn {x : Exts} (htoc : x.toc = false) (cfg : Cfg) (src : Str)
    (htab : x.fencedCode = true → 0 < cfg.tab) (hdup : DupOk x cfg src) : convertXBig x cfg src ≠ .err := by
  intro h
  rcases convertXBig_err_cases h with ht | ⟨u, html, ht, hs⟩
  · exact treeXBig_ne_err_fn htoc cfg src htab hdup ht
  · rw [C14X.topLevelStrip_div _ u (treeXBig_rootDiv_fn htoc ht)] at hs
    cases hs

end MdVerif.C02Fn
