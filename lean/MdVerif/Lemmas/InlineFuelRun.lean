/-
Helper lemmas for C02 (inline part), `InlineProcessor.run`: termination of the two loops of `run` from a LOCAL
contract on one visit of a child.  Core Lean only.

Potential of an element: `npot own n = own n + Σ npot own c` over its children, with `own n ≥ 1` not looking at the
children.  Contract (`VisitOK`): one `visitChild` succeeds, keeps the invariants, and the potential of the rebuilt child
plus that of the elements made from its tail is at most the potential of the child.  Then

* the live loop over the children ends within `Σ npot (todo) + 1` turns (`visitLoop_total`);
* the stack loop ends within `(Π+1)^(Π+2) + 1` turns, `Π ≥ npot root` (`runLoop_total`): every pop replaces one path by
  fewer than `Π + 1` strictly longer paths, and no path is longer than `Π + 1`, so `Σ_{q ∈ stack} (Π+1)^(Π+2-|q|)`
  decreases.  Nothing is needed about which elements re-addressed paths point to.
-/
import MdVerif.Lemmas.InlineFuel
import MdVerif.Lemmas.PlaceholdersRun

namespace MdVerif.Inline
open Py NoCtl

/-! ### potential -/

mutual
/-- `own n + Σ npot c` -/
def npot (own : Node → Nat) : Node → Nat
  | ⟨tag, attrs, text, ta, children, tail, tla⟩ => own ⟨tag, attrs, text, ta, children, tail, tla⟩ + lpot own children
def lpot (own : Node → Nat) : List Node → Nat
  | [] => 0
  | c :: r => npot own c + lpot own r
end

theorem npot_def (own : Node → Nat) (n : Node) : npot own n = own n + lpot own n.children := by
  cases n; simp [npot]

@[simp] theorem lpot_nil (own : Node → Nat) : lpot own [] = 0 := by simp [lpot]
@[simp] theorem lpot_cons (own : Node → Nat) (c : Node) (r : List Node) :
    lpot own (c :: r) = npot own c + lpot own r := by simp [lpot]

theorem lpot_append (own : Node → Nat) (a b : List Node) : lpot own (a ++ b) = lpot own a + lpot own b := by
  induction a with
  | nil => simp
  | cons c r ih => simp [ih]; omega

theorem lpot_reverse (own : Node → Nat) (a : List Node) : lpot own a.reverse = lpot own a := by
  induction a with
  | nil => simp
  | cons c r ih => simp [lpot_append, ih]; omega

theorem lpot_map_fst (own : Node → Nat) (l : List Node) :
    lpot own ((l.map (fun n => ((n, none) : Node × Option Nat))).map (·.1)) = lpot own l := by
  rw [List.map_map]
  have : ((fun x : Node × Option Nat => x.1) ∘ fun n => ((n, none) : Node × Option Nat)) = id := rfl
  rw [this, List.map_id]

/-- with `own ≥ 1` an element weighs more than it has children -/
theorem length_le_potL {own : Node → Nat} (h1 : ∀ n, 1 ≤ own n) (l : List Node) : l.length ≤ lpot own l := by
  induction l with
  | nil => simp
  | cons c r ih =>
    have := h1 c
    rw [lpot_cons, npot_def]
    simp only [List.length_cons]
    omega

theorem children_lt_pot {own : Node → Nat} (h1 : ∀ n, 1 ≤ own n) (n : Node) : n.children.length + 1 ≤ npot own n := by
  rw [npot_def]
  have := h1 n
  have := length_le_potL h1 n.children
  omega

theorem npot_mem_le (own : Node → Nat) {c : Node} {l : List Node} (h : c ∈ l) : npot own c ≤ lpot own l := by
  induction l with
  | nil => cases h
  | cons d r ih =>
    rw [lpot_cons]
    rcases List.mem_cons.1 h with rfl | h
    · omega
    · have := ih h; omega

/-- two `own`s that agree on every element of the tree give the same potential -/
theorem npot_congr {own own' : Node → Nat} :
    ∀ (n : Node), n.Forall (fun m => own' m = own m) → npot own' n = npot own n
  | ⟨tag, attrs, text, ta, children, tail, tla⟩ => by
    intro h
    rw [Node.forall_def] at h
    rw [npot_def, npot_def, h.1, lpot_congr children h.2]
where
  lpot_congr {own own' : Node → Nat} : ∀ (l : List Node), Node.ForallL (fun m => own' m = own m) l →
      lpot own' l = lpot own l
    | [], _ => by simp
    | c :: r, h => by
      simp only [Node.ForallL] at h
      rw [lpot_cons, lpot_cons, npot_congr c h.1, lpot_congr r h.2]

/-- going down a path costs at least one unit per step -/
theorem getAt_pot {own : Node → Nat} (h1 : ∀ n, 1 ≤ own n) : ∀ (p : Path) {root cur : Node},
    getAt root p = some cur → p.length + npot own cur ≤ npot own root := by
  intro p
  induction p with
  | nil => intro root cur h; rw [getAt_nil] at h; cases h; simp
  | cons i p ih =>
    intro root cur h
    rw [getAt_cons] at h
    cases hc : root.children[i]? with
    | none => simp [hc] at h
    | some c =>
      simp only [hc] at h
      have := ih h
      have hm := npot_mem_le own (List.mem_of_getElem? hc)
      have h0 := h1 root
      rw [npot_def own root]
      simp only [List.length_cons]
      omega

theorem lpot_set (own : Node → Nat) {l : List Node} {i : Nat} {c new : Node} (hc : l[i]? = some c) :
    lpot own (l.set i new) + npot own c = lpot own l + npot own new := by
  induction l generalizing i with
  | nil => simp at hc
  | cons d r ih =>
    cases i with
    | zero =>
      simp only [List.getElem?_cons_zero, Option.some.injEq] at hc
      subst hc
      simp only [List.set_cons_zero, lpot_cons]; omega
    | succ i =>
      simp only [List.getElem?_cons_succ] at hc
      have := ih hc
      simp only [List.set_cons_succ, lpot_cons]; omega

/-- replacing a subtree by a lighter one makes the tree lighter; `own` must not look at the children -/
theorem npot_setAt {own : Node → Nat} (hown : ∀ (n : Node) (l : List Node), own { n with children := l } = own n) :
    ∀ (p : Path) {root cur new : Node}, getAt root p = some cur →
      npot own (setAt root p new) + npot own cur = npot own root + npot own new := by
  intro p
  induction p with
  | nil => intro root cur new h; rw [getAt_nil] at h; cases h; rw [setAt_nil]; omega
  | cons i p ih =>
    intro root cur new h
    rw [getAt_cons] at h
    rw [setAt_cons]
    cases hc : root.children[i]? with
    | none => simp [hc] at h
    | some c =>
      simp only [hc] at h ⊢
      have h2 := ih (new := new) h
      have h3 := lpot_set own (new := setAt c p new) hc
      rw [npot_def own root, npot_def own { root with children := root.children.set i (setAt c p new) }, hown]
      simp only
      omega

/-! ### the contract on one visit, and the live loop over the children -/

/-- what `visitChild` does to the bookkeeping of the loop, whatever the inline engine did -/
theorem visitChild_shape {cfg : Cfg} {child : Node} {v : Visit} {c : Node} {tr : List Node} {v' : Visit}
    (h : visitChild cfg child v = some (c, tr, v')) :
    v'.done = v.done ∧ v'.posmap = v.posmap ∧
      ∃ new, v'.pushes = new ++ v.pushes ∧ new.length ≤ c.children.length + 1 ∧
        ∀ q ∈ new, 1 ≤ q.length ∧ q.length ≤ 2 := by
  rw [visitChild_eq] at h
  split at h
  · cases h
  · next c1 lst st1 _ =>
    split at h
    · cases h
    · next c2 tr' st2 _ =>
      simp only [Option.some.injEq, Prod.mk.injEq] at h
      obtain ⟨rfl, rfl, rfl⟩ := h
      refine ⟨rfl, rfl, ?_⟩
      have hR : ∀ q ∈ ((List.range lst.length).map (fun k => [v.done.length, k])).reverse, 1 ≤ q.length ∧ q.length ≤ 2 := by
        intro q hq
        simp only [List.mem_reverse, List.mem_map, List.mem_range] at hq
        obtain ⟨k, _, rfl⟩ := hq
        simp
      by_cases he : child.children.isEmpty = true
      · refine ⟨((List.range lst.length).map (fun k => [v.done.length, k])).reverse, by simp [he], ?_, hR⟩
        simp
        omega
      · refine ⟨[v.done.length] :: ((List.range lst.length).map (fun k => [v.done.length, k])).reverse,
          by simp [he], ?_, ?_⟩
        · simp
        · intro q hq
          rcases List.mem_cons.1 hq with rfl | hq
          · simp
          · exact hR q hq

/-- **the contract**: potential and invariants of the elements (`own`, `ok`: local, they do not look at the
    children) and of the state (`sok`, `ext`), and what one visit of a child guarantees -/
structure VisitOK (cfg : Cfg) (own : St → Node → Nat) (ok : St → Node → Prop) (sok : St → Prop)
    (ext : St → St → Prop) : Prop where
  own_pos : ∀ st n, 1 ≤ own st n
  own_children : ∀ st (n : Node) (l : List Node), own st { n with children := l } = own st n
  ok_children : ∀ st (n : Node) (l : List Node), ok st n → ok st { n with children := l }
  ext_refl : ∀ st, ext st st
  ext_trans : ∀ a b c, ext a b → ext b c → ext a c
  frame : ∀ st st' n, ext st st' → ok st n → ok st' n ∧ own st' n = own st n
  visit : ∀ (child : Node) (v : Visit), sok v.st → child.Forall (ok v.st) →
    ∃ c tr v', visitChild cfg child v = some (c, tr, v') ∧ sok v'.st ∧ ext v.st v'.st ∧ c.Forall (ok v'.st) ∧
      (∀ t ∈ tr, t.Forall (ok v'.st)) ∧
      npot (own v'.st) c + lpot (own v'.st) tr ≤ npot (own v.st) child

section contract
variable {cfg : Cfg} {own : St → Node → Nat} {ok : St → Node → Prop} {sok : St → Prop} {ext : St → St → Prop}

theorem VisitOK.frame_tree (C : VisitOK cfg own ok sok ext) {st st' : St} (he : ext st st') {n : Node}
    (h : n.Forall (ok st)) : n.Forall (ok st') ∧ npot (own st') n = npot (own st) n :=
  ⟨Node.Forall.mono (fun m hm => (C.frame st st' m he hm).1) n h,
   npot_congr n (Node.Forall.mono (fun m hm => (C.frame st st' m he hm).2) n h)⟩

theorem VisitOK.frame_list (C : VisitOK cfg own ok sok ext) {st st' : St} (he : ext st st') :
    ∀ (l : List Node), (∀ d ∈ l, d.Forall (ok st)) →
      (∀ d ∈ l, d.Forall (ok st')) ∧ lpot (own st') l = lpot (own st) l := by
  intro l
  induction l with
  | nil => intro _; exact ⟨(by intro d hd; cases hd), (by simp)⟩
  | cons c r ih =>
    intro h
    obtain ⟨a1, a2⟩ := C.frame_tree he (h c (List.mem_cons_self ..))
    obtain ⟨b1, b2⟩ := ih (fun d hd => h d (List.mem_cons_of_mem _ hd))
    refine ⟨?_, by simp [a2, b2]⟩
    intro d hd
    rcases List.mem_cons.1 hd with rfl | hd
    · exact a1
    · exact b1 d hd

/-- **the live loop over the children terminates** within `Σ pot(todo) + 1` turns, conserves the potential, and
    pushes fewer paths than the potential of the elements it finishes -/
theorem visitLoop_total (C : VisitOK cfg own ok sok ext) :
    ∀ (g : Nat) (todo : List (Node × Option Nat)) (v : Visit), sok v.st →
      (∀ x ∈ todo, x.1.Forall (ok v.st)) → (∀ d ∈ v.done, d.Forall (ok v.st)) →
      lpot (own v.st) (todo.map (·.1)) < g →
      ∃ r, visitLoop cfg g todo v = some r ∧ sok r.st ∧ ext v.st r.st ∧ (∀ d ∈ r.done, d.Forall (ok r.st)) ∧
        lpot (own r.st) r.done ≤ lpot (own v.st) v.done + lpot (own v.st) (todo.map (·.1)) ∧
        ∃ new, r.pushes = new ++ v.pushes ∧ new.length + lpot (own v.st) v.done ≤ lpot (own r.st) r.done ∧
          ∀ q ∈ new, 1 ≤ q.length ∧ q.length ≤ 2 := by
  intro g
  induction g with
  | zero => intro todo v _ _ _ h; omega
  | succ g ih =>
    intro todo v hs htodo hdone hg
    cases todo with
    | nil =>
      refine ⟨v, by simp [visitLoop], hs, C.ext_refl _, hdone, by simp, [], by simp, by simp, by intro q hq; cases hq⟩
    | cons x rest =>
      obtain ⟨child, orig⟩ := x
      cases orig
      all_goals (
        obtain ⟨c, tr, v1, hv, s1, e1, okc, oktr, hpot⟩ := C.visit child v hs (htodo _ (List.mem_cons_self ..))
        obtain ⟨sh1, sh2, new1, sh3, sh4, sh5⟩ := visitChild_shape hv
        simp only [visitLoop, hv]
        -- the rest of the worklist and the finished children, seen from the new state
        obtain ⟨r1, r2⟩ := C.frame_list e1 (rest.map (·.1)) (by
          intro d hd
          obtain ⟨y, hy, rfl⟩ := List.mem_map.1 hd
          exact htodo y (List.mem_cons_of_mem _ hy))
        obtain ⟨d1, d2⟩ := C.frame_list e1 v.done hdone
        have hpc : 1 ≤ npot (own v1.st) c := by
          rw [npot_def]; have := C.own_pos v1.st c; omega
        simp only [List.map_cons, lpot_cons] at hg
        obtain ⟨r, hr, s2, e2, okd, hcons, new2, p1, p2, p3⟩ := ih
          (tr.map (fun n => (n, none)) ++ rest)
          { v1 with done := c :: v1.done, posmap := _ }
          s1
          (by
            intro y hy
            rcases List.mem_append.1 hy with hy | hy
            · obtain ⟨n, hn, rfl⟩ := List.mem_map.1 hy
              exact oktr n hn
            · exact r1 _ (List.mem_map.2 ⟨y, hy, rfl⟩))
          (by
            intro d hd
            simp only [sh1] at hd
            rcases List.mem_cons.1 hd with rfl | hd
            · exact okc
            · exact d1 d hd)
          (by
            simp only [List.map_append, lpot_append, lpot_map_fst, r2]
            omega)
        refine ⟨r, hr, s2, C.ext_trans _ _ _ e1 e2, okd, ?_, new2 ++ new1, ?_, ?_, ?_⟩
        · simp only [sh1, lpot_cons, List.map_append, lpot_append, lpot_map_fst, r2, d2, List.map_cons] at hcons ⊢
          omega
        · simp only [p1, sh3, List.append_assoc]
        · simp only [sh1, lpot_cons, d2, List.length_append] at p2 ⊢
          have := children_lt_pot (C.own_pos v1.st) c
          omega
        · intro q hq
          rcases List.mem_append.1 hq with hq | hq
          · exact p3 q hq
          · exact sh5 q hq
      )

/-! ### the stack loop -/

theorem remap_length (p : Path) (pm : List (Nat × Nat)) (q : Path) : (remap p pm q).length = q.length := by
  unfold remap
  split
  · next hsw =>
    have hpre : p <+: q := (startsWithPath_iff q p).1 hsw
    obtain ⟨t, rfl⟩ := hpre
    simp only [List.drop_left]
    split
    · split
      · simp
      · rfl
    · rfl
  · rfl

/-- `Σ_{q ∈ stack} B^(D - |q|)` -/
def phi (B D : Nat) : List Path → Nat
  | [] => 0
  | q :: r => B ^ (D - q.length) + phi B D r

theorem phi_append (B D : Nat) (a b : List Path) : phi B D (a ++ b) = phi B D a + phi B D b := by
  induction a with
  | nil => simp [phi]
  | cons q r ih => simp [phi, ih]; omega

theorem phi_map_remap (B D : Nat) (p : Path) (pm : List (Nat × Nat)) (l : List Path) :
    phi B D (l.map (remap p pm)) = phi B D l := by
  induction l with
  | nil => rfl
  | cons q r ih => simp [phi, ih, remap_length]

theorem phi_pushes {B D : Nat} (hB : 1 ≤ B) (p : Path) (new : List Path) (h : ∀ q ∈ new, 1 ≤ q.length) :
    phi B D (new.map (p ++ ·)) ≤ new.length * B ^ (D - p.length - 1) := by
  induction new with
  | nil => simp [phi]
  | cons q r ih =>
    have h1 := h q (List.mem_cons_self ..)
    have ih' := ih (fun x hx => h x (List.mem_cons_of_mem _ hx))
    simp only [List.map_cons, phi, List.length_append, List.length_cons, Nat.add_mul, Nat.one_mul]
    have : B ^ (D - (p.length + q.length)) ≤ B ^ (D - p.length - 1) :=
      Nat.pow_le_pow_right hB (by omega)
    omega

theorem withIdx_map_fst : ∀ (l : List Node) (i : Nat), (withIdx l i).map (·.1) = l
  | [], _ => rfl
  | c :: r, i => by simp [withIdx, withIdx_map_fst r (i + 1)]

theorem withIdx_mem {l : List Node} {i : Nat} {x : Node × Option Nat} (h : x ∈ withIdx l i) : x.1 ∈ l := by
  have : x.1 ∈ (withIdx l i).map (·.1) := List.mem_map.2 ⟨x, h, rfl⟩
  rwa [withIdx_map_fst] at this

/-- **the stack loop terminates**: with inner fuel above `N ≥ pot root` and outer fuel above
    `Σ_{q ∈ stack} (N+1)^(N+2-|q|)` -/
theorem runLoop_total (C : VisitOK cfg own ok sok ext) (N g2 : Nat) (hg2 : N < g2) :
    ∀ (g : Nat) (root : Node) (stack : List Path) (st : St), sok st → root.Forall (ok st) →
      npot (own st) root ≤ N → (∀ q ∈ stack, q.length ≤ N + 1) → phi (N + 1) (N + 2) stack < g →
      (runLoop cfg g2 g root stack st).isSome = true := by
  intro g
  induction g with
  | zero => intro root stack st _ _ _ _ h; omega
  | succ g ih =>
    intro root stack st hs hok hpot hlen hphi
    cases stack with
    | nil => simp [runLoop]
    | cons p stack =>
      have hB : 1 ≤ (N + 1) ^ (N + 2 - p.length) := Nat.pow_pos (by omega)
      simp only [phi] at hphi
      have hlen' : ∀ q ∈ stack, q.length ≤ N + 1 := fun q hq => hlen q (List.mem_cons_of_mem _ hq)
      simp only [runLoop]
      cases hget : getAt root p with
      | none => exact ih root stack st hs hok hpot hlen' (by omega)
      | some cur =>
        simp only
        have hcur : cur.Forall (ok st) := forall_getAt hok hget
        have hdepth := getAt_pot (C.own_pos st) p hget
        have hcs : lpot (own st) cur.children + 1 ≤ npot (own st) cur := by
          rw [npot_def]; have := C.own_pos st cur; omega
        obtain ⟨r, hr, s2, e2, okd, hcons, new, p1, p2, p3⟩ := visitLoop_total C g2 (withIdx cur.children 0)
          { st := st } hs
          (by
            intro x hx
            have := withIdx_mem hx
            exact ((Node.forall_iff _ _).1 hcur).2 _ this)
          (by intro d hd; cases hd)
          (by rw [withIdx_map_fst]; simp only; omega)
        rw [hr]
        simp only
        have hcons' : lpot (own r.st) r.done ≤ lpot (own st) cur.children := by
          simpa [withIdx_map_fst] using hcons
        have p1' : r.pushes = new := by simpa using p1
        have p2' : new.length ≤ lpot (own r.st) r.done := by simpa using p2
        -- the rebuilt tree
        have e2' : ext st r.st := e2
        obtain ⟨rok, rpot⟩ := C.frame_tree e2' hok
        obtain ⟨cok, cpot⟩ := C.frame_tree e2' hcur
        have hnewok : ({ cur with children := r.done.reverse } : Node).Forall (ok r.st) := by
          rw [Node.forall_iff]
          refine ⟨C.ok_children _ _ _ ((Node.forall_iff _ _).1 cok).1, ?_⟩
          intro d hd
          exact okd d (List.mem_reverse.1 hd)
        have hnewpot : npot (own r.st) { cur with children := r.done.reverse } ≤ npot (own r.st) cur := by
          rw [npot_def, npot_def (own r.st) cur, C.own_children]
          simp only [lpot_reverse]
          have : lpot (own r.st) cur.children = lpot (own st) cur.children := by
            have h1 := npot_def (own r.st) cur
            have h2 := npot_def (own st) cur
            have h3 := (C.frame st r.st cur e2' ((Node.forall_iff _ _).1 hcur).1).2
            omega
          omega
        have hset := npot_setAt (own := own r.st) (C.own_children r.st) p (new := { cur with children := r.done.reverse }) hget
        apply ih
        · exact s2
        · exact forall_setAt (C.ok_children r.st) rok hnewok hget
        · omega
        · intro q hq
          rcases List.mem_append.1 hq with hq | hq
          · obtain ⟨x, hx, rfl⟩ := List.mem_map.1 hq
            rw [p1'] at hx
            have := (p3 x hx).2
            have hp1 : 1 ≤ npot (own st) cur := by omega
            simp only [List.length_append]
            omega
          · obtain ⟨x, hx, rfl⟩ := List.mem_map.1 hq
            rw [remap_length]; exact hlen' x hx
        · rw [phi_append, phi_map_remap, p1']
          have hpush := phi_pushes (B := N + 1) (D := N + 2) (by omega) p new (fun q hq => (p3 q hq).1)
          have hnew : new.length ≤ N := by omega
          have hp : p.length + 1 ≤ N := by omega
          have hstep : new.length * (N + 1) ^ (N + 2 - p.length - 1) < (N + 1) ^ (N + 2 - p.length) := by
            have : N + 2 - p.length = (N + 2 - p.length - 1) + 1 := by omega
            rw [this, Nat.pow_succ]
            have hpos : 0 < (N + 1) ^ (N + 2 - p.length - 1) := Nat.pow_pos (by omega)
            calc new.length * (N + 1) ^ (N + 2 - p.length - 1 + 1 - 1)
                = new.length * (N + 1) ^ (N + 2 - p.length - 1) := by simp
              _ ≤ N * (N + 1) ^ (N + 2 - p.length - 1) := Nat.mul_le_mul_right _ hnew
              _ < (N + 1) * (N + 1) ^ (N + 2 - p.length - 1) := Nat.mul_lt_mul_of_pos_right (by omega) hpos
              _ = (N + 1) ^ (N + 2 - p.length - 1) * (N + 1) := Nat.mul_comm _ _
          omega

end contract

end MdVerif.Inline
