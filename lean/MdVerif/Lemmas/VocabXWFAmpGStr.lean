/-
C05 on the extension pipeline, removal of the residual hypothesis `hamp` of `C05X_partial`: the STRING invariant of
`Lemmas/AmpFullStr.lean`, generalised for the footnotes extension.

With footnotes the tree handed to the inline stage holds `FN_BACKLINK_TEXT = STX zz1337820767766393qq ETX` (text of the
back-link) and `NBSP_PLACEHOLDER = STX qq3936677670287331zz ETX` (appended to the text of the last paragraph of a
footnote): an STX followed by `z` or `q`, which `AmpFull.SOk` excludes.  This file is `Lemmas/AmpFullStr.lean` with the
letters that may follow an STX extended from `k`, `w` to `k`, `w`, `q`, `z` (`gl`); no inline pattern cuts in front of
one of them, and none is `a`.  Everything else is unchanged:

* `SOk s`   — every STX is followed by `k`, `w`, `q`, `z` or by a non-zero digit and a second digit;
* `SOkA s`  — the same up to truncation (attribute values; pieces cut by the abbr tree processor);
* `SQ s`    — no STX is followed by `a`.

Core Lean only.
-/
import MdVerif.Lemmas.PlaceholdersB
import MdVerif.Lemmas.Code
import MdVerif.Lemmas.StashEntities

set_option autoImplicit false

namespace MdVerif.VocabXAmp.G
open Py

abbrev STX : Char := Inline.STX
abbrev ETX : Char := Inline.ETX

/-- a non-zero ASCII digit -/
def isNZ (c : Char) : Bool := '1' ≤ c && c ≤ '9'

def digit2 : Str → Bool
  | d :: _ => isAsciiDigit d
  | [] => false

def digit2A : Str → Bool
  | d :: _ => isAsciiDigit d
  | [] => true

/-- a letter that may follow an STX: inline placeholder `k`, raw-HTML placeholder `w`, the two footnote tokens `q`, `z` -/
def gl (c : Char) : Bool := c == 'k' || c == 'w' || c == 'q' || c == 'z'

/-- what follows an STX in a text -/
def fol : Str → Bool
  | c :: r => gl c || (isNZ c && digit2 r)
  | [] => false

/-- what follows an STX in an attribute value: the same, possibly cut short -/
def folA : Str → Bool
  | c :: r => gl c || (isNZ c && digit2A r)
  | [] => true

/-- every STX is followed by `k`, `w`, or a non-zero digit and a digit -/
def SOk : Str → Bool
  | [] => true
  | c :: r => (c != STX || fol r) && SOk r

/-- the same up to truncation -/
def SOkA : Str → Bool
  | [] => true
  | c :: r => (c != STX || folA r) && SOkA r

/-- no STX is followed by `a` -/
def SQ : Str → Bool
  | [] => true
  | c :: r => (c != STX || r.head? != some 'a') && SQ r

/-- a character in front of which a text may be cut: it continues no STX -/
def cutOk (c : Char) : Bool := !gl c && !isAsciiDigit c

theorem gl_iff {c : Char} : gl c = true ↔ c = 'k' ∨ c = 'w' ∨ c = 'q' ∨ c = 'z' := by
  simp [gl, or_assoc]

theorem gl_not_digit {c : Char} (h : gl c = true) : isAsciiDigit c = false := by
  rcases gl_iff.1 h with rfl | rfl | rfl | rfl <;> decide

theorem gl_not_nz {c : Char} (h : gl c = true) : isNZ c = false := by
  rcases gl_iff.1 h with rfl | rfl | rfl | rfl <;> decide

theorem gl_ne_stx {c : Char} (h : gl c = true) : c ≠ Inline.STX := by
  rcases gl_iff.1 h with rfl | rfl | rfl | rfl <;> decide

theorem gl_ne_a {c : Char} (h : gl c = true) : c ≠ 'a' := by
  rcases gl_iff.1 h with rfl | rfl | rfl | rfl <;> decide

theorem isNZ_digit {c : Char} (h : isNZ c = true) : isAsciiDigit c = true := by
  simp only [isNZ, isAsciiDigit, Bool.and_eq_true, decide_eq_true_eq] at h ⊢
  refine ⟨?_, h.2⟩
  have : ('0' : Char) ≤ '1' := by decide
  exact Char.le_trans this h.1

theorem cutOk_space {c : Char} (h : isSpace c = true) : cutOk c = true := by
  have hi := (NoCtl.space_not_inner h).1
  simp only [NoCtl.inner, Bool.or_eq_false_iff] at hi
  obtain ⟨h1, _⟩ := hi
  have hg : gl c = false := by
    cases hg : gl c with
    | false => rfl
    | true =>
      exfalso
      rcases gl_iff.1 hg with rfl | rfl | rfl | rfl <;> revert h <;> decide
  simp [cutOk, h1, hg]

theorem cutOk_stx : cutOk STX = true := by decide

/-! ### `fol`, `folA` -/

theorem fol_append {r : Str} (h : fol r = true) (b : Str) : fol (r ++ b) = true := by
  cases r with
  | nil => cases h
  | cons c r =>
    cases r with
    | nil => simp only [fol, digit2, Bool.and_false, Bool.or_false] at h; simp [fol, h]
    | cons d r => simpa [fol, digit2] using h

theorem fol_folA {r : Str} (h : fol r = true) : folA r = true := by
  cases r with
  | nil => rfl
  | cons c r =>
    cases r with
    | nil => simp only [fol, digit2, Bool.and_false, Bool.or_false] at h; simp [folA, h]
    | cons d r => simpa [fol, folA, digit2, digit2A] using h

theorem folA_take {r : Str} (h : folA r = true) (n : Nat) : folA (r.take n) = true := by
  cases n with
  | zero => rfl
  | succ n =>
    cases r with
    | nil => rfl
    | cons c r =>
      cases n with
      | zero =>
        simp only [List.take_succ_cons, List.take_zero, folA, digit2A, Bool.and_true, Bool.or_eq_true]
        simp only [folA, Bool.or_eq_true, Bool.and_eq_true] at h
        rcases h with h | h
        · exact Or.inl h
        · exact Or.inr h.1
      | succ n =>
        cases r with
        | nil => simpa using h
        | cons d r => simpa [folA, digit2A] using h

theorem folA_append_left {a : Str} (h : fol a = true) (b : Str) : folA (a ++ b) = true :=
  fol_folA (fol_append h b)

/-- cutting in front of a character that continues no STX keeps the left part complete -/
theorem fol_left {a b : Str} (h : fol (a ++ b) = true) (hb : ∀ c, b.head? = some c → cutOk c = true) :
    fol a = true := by
  cases a with
  | nil =>
    cases b with
    | nil => cases h
    | cons c r =>
      have hc := hb c rfl
      simp only [cutOk, Bool.and_eq_true, Bool.not_eq_true'] at hc
      simp only [List.nil_append, fol, Bool.or_eq_true, Bool.and_eq_true] at h
      rcases h with h | h
      · rw [h] at hc; cases hc.1
      · rw [isNZ_digit h.1] at hc; cases hc.2
  | cons c a =>
    cases a with
    | nil =>
      simp only [List.cons_append, List.nil_append, fol, Bool.or_eq_true, Bool.and_eq_true] at h
      simp only [fol, digit2, Bool.and_false, Bool.or_false]
      rcases h with h | h
      · exact h
      · exfalso
        cases b with
        | nil => cases h.2
        | cons d r =>
          have hd := hb d rfl
          simp only [digit2] at h
          simp only [cutOk, h.2, Bool.not_true, Bool.and_false] at hd
          cases hd
    | cons d a => simpa [fol, digit2] using h

/-! ### `SOk` -/

theorem SOk_nil : SOk [] = true := rfl

theorem SOk_cons (c : Char) (r : Str) : SOk (c :: r) = ((c != STX || fol r) && SOk r) := rfl

theorem SOk_cons_ne {c : Char} (hc : c ≠ STX) (r : Str) : SOk (c :: r) = SOk r := by
  simp [SOk, hc]

theorem SOk_append {a b : Str} (ha : SOk a = true) (hb : SOk b = true) : SOk (a ++ b) = true := by
  induction a with
  | nil => exact hb
  | cons c r ih =>
    simp only [SOk, Bool.and_eq_true, Bool.or_eq_true] at ha
    simp only [List.cons_append, SOk, Bool.and_eq_true, Bool.or_eq_true]
    refine ⟨?_, ih ha.2⟩
    rcases ha.1 with h | h
    · exact Or.inl h
    · exact Or.inr (fol_append h b)

theorem SOk_right {a b : Str} (h : SOk (a ++ b) = true) : SOk b = true := by
  induction a with
  | nil => exact h
  | cons c r ih =>
    simp only [List.cons_append, SOk, Bool.and_eq_true] at h
    exact ih h.2

theorem SOk_left {a b : Str} (h : SOk (a ++ b) = true) (hb : ∀ c, b.head? = some c → cutOk c = true) :
    SOk a = true := by
  induction a with
  | nil => rfl
  | cons c r ih =>
    simp only [List.cons_append, SOk, Bool.and_eq_true, Bool.or_eq_true] at h
    simp only [SOk, Bool.and_eq_true, Bool.or_eq_true]
    refine ⟨?_, ih h.2⟩
    rcases h.1 with h1 | h1
    · exact Or.inl h1
    · exact Or.inr (fol_left h1 hb)

theorem SOk_left_nil {a : Str} (h : SOk a = true) : SOk a = true := h

theorem SOk_drop {s : Str} (h : SOk s = true) (n : Nat) : SOk (s.drop n) = true := by
  have := List.take_append_drop n s
  rw [← this] at h
  exact SOk_right h

theorem SOk_suffix {a s : Str} (h : SOk s = true) (hs : a <:+ s) : SOk a = true := by
  obtain ⟨p, rfl⟩ := hs
  exact SOk_right h

/-- a prefix that ends in front of a character which continues no STX (or at the end) -/
theorem SOk_take {s : Str} (h : SOk s = true) (n : Nat) (hn : ∀ c, s[n]? = some c → cutOk c = true) :
    SOk (s.take n) = true := by
  have e := List.take_append_drop n s
  rw [← e] at h
  refine SOk_left h ?_
  intro c hc
  apply hn c
  rw [List.head?_drop] at hc
  exact hc

theorem SOk_slice {s : Str} (h : SOk s = true) (a b : Nat) (hb : ∀ c, s[b]? = some c → cutOk c = true) :
    SOk (Inline.slice s a b) = true := by
  unfold Inline.slice
  exact SOk_drop (SOk_take h b hb) a

theorem SOk_of_noSTX {s : Str} (h : STX ∉ s) : SOk s = true := by
  induction s with
  | nil => rfl
  | cons c r ih =>
    have hc : c ≠ STX := fun e => h (by rw [e]; exact List.mem_cons_self)
    rw [SOk_cons_ne hc]
    exact ih (fun hm => h (List.mem_cons_of_mem _ hm))

theorem SOk_of_noCtl {s : Str} (h : NoCtl.NoCtl s) : SOk s = true := SOk_of_noSTX h.1

/-- `STX k…` / `STX w…` -/
theorem SOk_stx_letter {c : Char} (hc : c = 'k' ∨ c = 'w') {r : Str} (hr : STX ∉ r) :
    SOk (STX :: c :: r) = true := by
  have hc' : c ≠ STX := by rcases hc with rfl | rfl <;> decide
  rw [SOk_cons, SOk_cons_ne hc', SOk_of_noSTX hr]
  rcases hc with rfl | rfl <;> simp [fol, gl]

/-- `STX q…` / `STX z…` as well -/
theorem SOk_stx_gl {c : Char} (hc : gl c = true) {r : Str} (hr : STX ∉ r) :
    SOk (STX :: c :: r) = true := by
  rw [SOk_cons, SOk_cons_ne (gl_ne_stx hc), SOk_of_noSTX hr]
  simp [fol, hc]

theorem SOk_lstrip {s : Str} (h : SOk s = true) : SOk (lstripP isSpace s) = true :=
  SOk_suffix h (lstripP_suffix _ _)

theorem SOk_rstrip {s : Str} (h : SOk s = true) : SOk (rstripP isSpace s) = true := by
  obtain ⟨w, hw, hall⟩ := rstripP_decomp isSpace s
  rw [hw] at h
  refine SOk_left h ?_
  intro c hc
  cases w with
  | nil => cases hc
  | cons d w =>
    simp only [List.head?_cons, Option.some.injEq] at hc; subst hc
    simp only [List.all_cons, Bool.and_eq_true] at hall
    exact cutOk_space hall.1

theorem SOk_strip {s : Str} (h : SOk s = true) : SOk (strip s) = true := SOk_rstrip (SOk_lstrip h)

/-! ### character-wise substitutions (`code_escape`) -/

/-- `f` leaves STX and the characters that may follow it alone and writes no STX -/
structure CharSub (f : Char → Str) : Prop where
  stx : f STX = [STX]
  fix : ∀ c, cutOk c = false → f c = [c]
  clean : ∀ c, c ≠ STX → STX ∉ f c

theorem cutOk_false_of_letter {c : Char} (h : c = 'k' ∨ c = 'w') : cutOk c = false := by
  rcases h with rfl | rfl <;> decide

theorem cutOk_false_of_gl {c : Char} (h : gl c = true) : cutOk c = false := by
  simp [cutOk, h]

theorem cutOk_false_of_digit {c : Char} (h : isAsciiDigit c = true) : cutOk c = false := by
  simp [cutOk, h]

theorem SOk_noSTX_append {a : Str} (ha : STX ∉ a) (b : Str) : SOk (a ++ b) = SOk b := by
  induction a with
  | nil => rfl
  | cons c r ih =>
    have hc : c ≠ STX := fun e => ha (by rw [e]; exact List.mem_cons_self)
    rw [List.cons_append, SOk_cons_ne hc]
    exact ih (fun hm => ha (List.mem_cons_of_mem _ hm))

theorem fol_flatMap {f : Char → Str} (hf : CharSub f) {r : Str} (h : fol r = true) : fol (r.flatMap f) = true := by
  cases r with
  | nil => cases h
  | cons c r =>
    simp only [fol, Bool.or_eq_true, Bool.and_eq_true] at h
    rcases h with h | h
    · rw [List.flatMap_cons, hf.fix c (cutOk_false_of_gl h)]; simp [fol, h]
    · cases r with
      | nil => cases h.2
      | cons d r =>
        simp only [digit2] at h
        rw [List.flatMap_cons, List.flatMap_cons, hf.fix c (cutOk_false_of_digit (isNZ_digit h.1)),
          hf.fix d (cutOk_false_of_digit h.2)]
        simp [fol, digit2, h.1, h.2]

theorem SOk_flatMap {f : Char → Str} (hf : CharSub f) {s : Str} (h : SOk s = true) : SOk (s.flatMap f) = true := by
  induction s with
  | nil => rfl
  | cons c r ih =>
    simp only [SOk, Bool.and_eq_true, Bool.or_eq_true, bne_iff_ne, ne_eq] at h
    rw [List.flatMap_cons]
    by_cases hc : c = STX
    · subst hc
      rw [hf.stx]
      simp only [List.cons_append, List.nil_append, SOk, Bool.and_eq_true, Bool.or_eq_true]
      rcases h.1 with h1 | h1
      · exact absurd rfl h1
      · exact ⟨Or.inr (fol_flatMap hf h1), ih h.2⟩
    · rw [SOk_noSTX_append (hf.clean c hc)]
      exact ih h.2

theorem charSub_sub1 {a : Char} {b : Str} (ha : cutOk a = true) (ha' : a ≠ STX) (hb : STX ∉ b) :
    CharSub (Code.sub1 a b) where
  stx := by simp [Code.sub1, Ne.symm ha']
  fix := by
    intro c hc
    have : c ≠ a := by rintro rfl; rw [ha] at hc; cases hc
    simp [Code.sub1, this]
  clean := by
    intro c hc
    unfold Code.sub1
    split
    · exact hb
    · simpa using Ne.symm hc

theorem SOk_codeEscape {s : Str} (h : SOk s = true) : SOk (Inline.codeEscape s) = true := by
  unfold Inline.codeEscape
  rw [Code.replace_single, Code.replace_single, Code.replace_single]
  exact SOk_flatMap (charSub_sub1 (by decide) (by decide) (by decide))
    (SOk_flatMap (charSub_sub1 (by decide) (by decide) (by decide))
      (SOk_flatMap (charSub_sub1 (by decide) (by decide) (by decide)) h))

/-- `str.replace` in a text without STX, by a complete replacement -/
theorem SOk_replaceAux {pat b : Str} (hb : SOk b = true) : ∀ (s : Str) (k : Nat), STX ∉ s →
    SOk (replaceAux pat b k s) = true := by
  intro s
  induction s with
  | nil => intro k _; rw [replaceAux_nil]; rfl
  | cons c r ih =>
    intro k hs
    have hr : STX ∉ r := fun hm => hs (List.mem_cons_of_mem _ hm)
    have hc : c ≠ STX := fun e => hs (by rw [e]; exact List.mem_cons_self)
    cases k with
    | succ k => rw [replaceAux_succ_cons]; exact ih k hr
    | zero =>
      rw [replaceAux_zero_cons]
      split
      · exact SOk_append hb (ih _ hr)
      · rw [SOk_cons_ne hc]; exact ih _ hr

theorem SOk_replace {s pat b : Str} (hs : STX ∉ s) (hb : SOk b = true) : SOk (replace s pat b) = true := by
  unfold replace
  split
  · exact SOk_of_noSTX hs
  · exact SOk_replaceAux hb s 0 hs

/-! ### `SOkA` -/

theorem SOkA_cons (c : Char) (r : Str) : SOkA (c :: r) = ((c != STX || folA r) && SOkA r) := rfl

theorem SOkA_cons_ne {c : Char} (hc : c ≠ STX) (r : Str) : SOkA (c :: r) = SOkA r := by
  simp [SOkA, hc]

theorem SOkA_of_SOk {s : Str} (h : SOk s = true) : SOkA s = true := by
  induction s with
  | nil => rfl
  | cons c r ih =>
    simp only [SOk, Bool.and_eq_true, Bool.or_eq_true] at h
    simp only [SOkA, Bool.and_eq_true, Bool.or_eq_true]
    refine ⟨?_, ih h.2⟩
    rcases h.1 with h1 | h1
    · exact Or.inl h1
    · exact Or.inr (fol_folA h1)

theorem SOkA_take {s : Str} (h : SOkA s = true) (n : Nat) : SOkA (s.take n) = true := by
  induction s generalizing n with
  | nil => simp [SOkA]
  | cons c r ih =>
    cases n with
    | zero => rfl
    | succ n =>
      simp only [SOkA, Bool.and_eq_true, Bool.or_eq_true] at h
      simp only [List.take_succ_cons, SOkA, Bool.and_eq_true, Bool.or_eq_true]
      refine ⟨?_, ih h.2 n⟩
      rcases h.1 with h1 | h1
      · exact Or.inl h1
      · exact Or.inr (folA_take h1 n)

theorem SOkA_right {a b : Str} (h : SOkA (a ++ b) = true) : SOkA b = true := by
  induction a with
  | nil => exact h
  | cons c r ih =>
    simp only [List.cons_append, SOkA, Bool.and_eq_true] at h
    exact ih h.2

theorem SOkA_drop {s : Str} (h : SOkA s = true) (n : Nat) : SOkA (s.drop n) = true := by
  have := List.take_append_drop n s
  rw [← this] at h
  exact SOkA_right h

theorem SOkA_infix {a s : Str} (h : SOkA s = true) (hi : a <:+: s) : SOkA a = true := by
  obtain ⟨p, q, rfl⟩ := hi
  have h1 : SOkA (a ++ q) = true := by rw [List.append_assoc] at h; exact SOkA_right h
  have := SOkA_take h1 a.length
  simpa using this

theorem SOkA_strip {s : Str} (h : SOkA s = true) : SOkA (strip s) = true := SOkA_infix h (strip_infix s)

theorem SOkA_dropLast {s : Str} (h : SOkA s = true) : SOkA s.dropLast = true := by
  rw [List.dropLast_eq_take]; exact SOkA_take h _

/-- a complete text followed by a possibly truncated one -/
theorem SOkA_append {a b : Str} (ha : SOk a = true) (hb : SOkA b = true) : SOkA (a ++ b) = true := by
  induction a with
  | nil => exact hb
  | cons c r ih =>
    simp only [SOk, Bool.and_eq_true, Bool.or_eq_true] at ha
    simp only [List.cons_append, SOkA, Bool.and_eq_true, Bool.or_eq_true]
    refine ⟨?_, ih ha.2⟩
    rcases ha.1 with h | h
    · exact Or.inl h
    · exact Or.inr (folA_append_left h b)

theorem SOkA_of_noSTX {s : Str} (h : STX ∉ s) : SOkA s = true := SOkA_of_SOk (SOk_of_noSTX h)

/-- a character map that fixes STX and what may follow it (`\s` ↦ blank in a title) -/
theorem SOkA_map {g : Char → Char} (_h1 : g STX = STX) (h2 : ∀ c, cutOk c = false → g c = c)
    (h3 : ∀ c, c ≠ STX → g c ≠ STX) {s : Str} (h : SOkA s = true) : SOkA (s.map g) = true := by
  induction s with
  | nil => rfl
  | cons c r ih =>
    simp only [SOkA, Bool.and_eq_true, Bool.or_eq_true, bne_iff_ne, ne_eq] at h
    simp only [List.map_cons, SOkA, Bool.and_eq_true, Bool.or_eq_true, bne_iff_ne, ne_eq]
    refine ⟨?_, ih h.2⟩
    by_cases hc : c = STX
    · right
      rcases h.1 with h' | h'
      · exact absurd hc h'
      · cases r with
        | nil => rfl
        | cons d r =>
          simp only [folA, Bool.or_eq_true, Bool.and_eq_true] at h'
          simp only [List.map_cons, folA, Bool.or_eq_true, Bool.and_eq_true]
          rcases h' with h' | h'
          · rw [h2 d (cutOk_false_of_gl h')]; exact Or.inl h'
          · right
            rw [h2 d (cutOk_false_of_digit (isNZ_digit h'.1))]
            refine ⟨h'.1, ?_⟩
            cases r with
            | nil => rfl
            | cons e r =>
              simp only [digit2A] at h'
              simp only [List.map_cons, digit2A]
              rw [h2 e (cutOk_false_of_digit h'.2)]; exact h'.2
    · exact Or.inl (h3 c hc)

/-! ### `SQ` -/

theorem SQ_cons (c : Char) (r : Str) : SQ (c :: r) = ((c != STX || r.head? != some 'a') && SQ r) := rfl

theorem SQ_cons_ne {c : Char} (hc : c ≠ STX) (r : Str) : SQ (c :: r) = SQ r := by
  simp [SQ, hc]

theorem folA_head {r : Str} (h : folA r = true) : r.head? ≠ some 'a' := by
  cases r with
  | nil => simp
  | cons c r =>
    simp only [folA, Bool.or_eq_true, Bool.and_eq_true] at h
    simp only [List.head?_cons, ne_eq, Option.some.injEq]
    rintro rfl
    rcases h with h | h
    · revert h; decide
    · exact absurd h.1 (by decide)

theorem SQ_of_SOkA {s : Str} (h : SOkA s = true) : SQ s = true := by
  induction s with
  | nil => rfl
  | cons c r ih =>
    simp only [SOkA, Bool.and_eq_true, Bool.or_eq_true] at h
    simp only [SQ, Bool.and_eq_true, Bool.or_eq_true, bne_iff_ne]
    refine ⟨?_, ih h.2⟩
    rcases h.1 with h1 | h1
    · exact Or.inl (by simpa using h1)
    · exact Or.inr (folA_head h1)

theorem SQ_of_noSTX {s : Str} (h : STX ∉ s) : SQ s = true := SQ_of_SOkA (SOkA_of_noSTX h)

theorem SQ_append {a b : Str} (ha : SQ a = true) (hb : SQ b = true)
    (hab : a.getLast? ≠ some STX ∨ b.head? ≠ some 'a') : SQ (a ++ b) = true := by
  induction a with
  | nil => exact hb
  | cons c r ih =>
    simp only [SQ, Bool.and_eq_true, Bool.or_eq_true, bne_iff_ne] at ha
    simp only [List.cons_append, SQ, Bool.and_eq_true, Bool.or_eq_true, bne_iff_ne]
    cases r with
    | nil =>
      simp only [List.nil_append]
      refine ⟨?_, hb⟩
      rcases hab with h | h
      · left; simpa using h
      · exact Or.inr h
    | cons d r =>
      refine ⟨?_, ih ha.2 ?_⟩
      · simpa using ha.1
      · rcases hab with h | h
        · left; simpa [List.getLast?_cons_cons] using h
        · exact Or.inr h

/-- the ampersand substitute does not occur in a string without `STX a` -/
theorem no_amp_of_SQ {s : Str} (h : SQ s = true) : contains s Post.ampSubstitute = false := by
  induction s with
  | nil => rfl
  | cons c r ih =>
    simp only [SQ, Bool.and_eq_true, Bool.or_eq_true, bne_iff_ne] at h
    rw [Vocab2.contains_cons, ih h.2, Bool.or_false]
    cases hs : startsWith (c :: r) Post.ampSubstitute with
    | false => rfl
    | true =>
      exfalso
      simp only [Post.ampSubstitute] at hs
      cases r with
      | nil => simp at hs
      | cons d r =>
        simp only [startsWith_cons_cons, Bool.and_eq_true, decide_eq_true_eq] at hs
        rcases h.1 with h1 | h1
        · exact h1 hs.1
        · apply h1; simp [hs.2.1]

end MdVerif.VocabXAmp.G
