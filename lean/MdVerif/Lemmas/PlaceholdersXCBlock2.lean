/-
Helper lemmas for C10 on the extension model with inline links (block stage), part 2: `Lemmas/PlaceholdersXBlock2.lean`,
`…3.lean`, `…4.lean` (worker b1) re-proved from the weaker closure `StrDomXC` (`Lemmas/PlaceholdersXCBlock.lean`):

* the search combinators: `nlSearch` matches at position 0 or at a line feed (what precedes is a `Cut`), `lineSearch`
  at a line start (`BlkC.LineStart`);
* what the recognisers of the extension processors return: the definition text of `defAt`, the body of `fnAt` run to the
  end of their line (`Cut`); the title of an admonition is followed by `"`, blanks and the end of the line
  (`admTitleClose_cut`); its class group is made of literal characters (b1's `admSearch_groups`); ids and
  abbreviations only go to the log, where the character class is all that is asked (b1's `*_infix` lemmas);
* `defListP`, `footnoteP` / `detectTabbed`, `abbrP`, `admonitionP`, the dispatcher `tailRef` … `dispatchXT`;
* **`parseDocumentXT_strs`** for `tables = false` and every combination of admonition, def_list, footnotes, abbr,
  sane_lists.

TABLES ARE LEFT OUT: `Tables.splitRow` cuts a row at `|`; the rest of the row may hold `)` or `]` (a cell boundary inside
`[a](b | c)`), where `cutOK` fails.  No other site of the extended block parser cuts at a place where `cutOK` fails.
Core Lean only.
-/
import MdVerif.Lemmas.PlaceholdersXCBlock

namespace MdVerif.NoCtl.BlkXC
open Py Block Blk BlkB BlkC BlkX

/-! ### the search combinators -/

section search
variable {α : Type}

theorem nlSearchAux_cut {f : Str → Option α} : ∀ (s : Str) (i : Nat) {r : Nat × Nat × α},
    BlockExt.nlSearchAux f i s = some r → i ≤ r.1 ∧ cutOK (s.drop (r.1 - i)) = true
  | [], _, _, h => by simp [BlockExt.nlSearchAux] at h
  | c :: s, i, r, h => by
    have step : BlockExt.nlSearchAux f (i + 1) s = some r → i ≤ r.1 ∧ cutOK ((c :: s).drop (r.1 - i)) = true := by
      intro h'
      obtain ⟨h2, h3⟩ := nlSearchAux_cut s (i + 1) h'
      refine ⟨by omega, ?_⟩
      have e : r.1 - i = (r.1 - (i + 1)) + 1 := by omega
      rw [e, List.drop_succ_cons]; exact h3
    simp only [BlockExt.nlSearchAux] at h
    split at h
    · next hc =>
      split at h
      · cases h
        refine ⟨Nat.le_refl _, ?_⟩
        rw [Nat.sub_self, List.drop_zero, hc]; exact cutOK_nl _
      · exact step h
    · exact step h

/-- what precedes a match of `(?:^|\n)…` is a cut of the block -/
theorem nlSearch_cut {f : Str → Option α} {s : Str} {r : Nat × Nat × α} (h : BlockExt.nlSearch f s = some r) :
    Cut (s.take r.1) s := by
  simp only [BlockExt.nlSearch] at h
  split at h
  · cases h; exact cut_nil s
  · obtain ⟨_, h3⟩ := nlSearchAux_cut s 0 h
    exact cut_take (by simpa using h3)

theorem lineSearchAux_lineStart {f : Str → Option α} : ∀ (s : Str) (at0 : Bool) (i : Nat) {r : Nat × α},
    BlockExt.lineSearchAux f at0 i s = some r →
      i ≤ r.1 ∧ ((at0 = true ∧ r.1 = i) ∨ ∃ x, s.take (r.1 - i) = x ++ ['\n'])
  | [], at0, i, r, h => by
    simp only [BlockExt.lineSearchAux] at h
    split at h
    · next ha =>
      simp only [Option.map_eq_some_iff] at h
      obtain ⟨a, _, rfl⟩ := h
      exact ⟨Nat.le_refl _, .inl ⟨ha, rfl⟩⟩
    · cases h
  | c :: s, at0, i, r, h => by
    simp only [BlockExt.lineSearchAux] at h
    split at h
    · next a ha =>
      cases h
      split at ha
      · next hat => exact ⟨Nat.le_refl _, .inl ⟨hat, rfl⟩⟩
      · cases ha
    · obtain ⟨h1, h2⟩ := lineSearchAux_lineStart s _ (i + 1) h
      refine ⟨by omega, .inr ?_⟩
      have e : r.1 - i = (r.1 - (i + 1)) + 1 := by omega
      rcases h2 with ⟨hc, hj⟩ | ⟨x, hx⟩
      · have hc' : c = '\n' := by simpa using hc
        refine ⟨[], ?_⟩
        rw [e, hj, Nat.sub_self, hc']; rfl
      · exact ⟨c :: x, by rw [e, List.take_succ_cons, hx]; rfl⟩

/-- a match of a `^…` pattern under `re.MULTILINE` starts at a line start -/
theorem lineSearch_lineStart {f : Str → Option α} {s : Str} {r : Nat × α} (h : BlockExt.lineSearch f s = some r) :
    LineStart s r.1 := by
  obtain ⟨_, h2⟩ := lineSearchAux_lineStart s true 0 h
  rcases h2 with ⟨_, hj⟩ | ⟨x, hx⟩
  · left; rw [hj]; rfl
  · right; exact ⟨x, by simpa using hx⟩

end search

/-! ### the recognisers of the extension processors -/

theorem cut_takeWhile_drop (n : Nat) (s : Str) : Cut ((s.drop n).takeWhile notNl) s :=
  (cut_takeWhile_notNl _).trans (cut_drop s n)

theorem defAt_cut {s g : Str} {n : Nat} (h : BlockExt.defAt s = some (g, n)) : Cut g s := by
  simp only [BlockExt.defAt] at h
  split at h
  · next c r hr =>
    split at h
    · split at h
      · cases h
      · cases h
        have hr' : r <:+ s := (List.suffix_cons c r).trans (hr ▸ List.drop_suffix _ s)
        exact (cut_takeWhile_drop _ r).trans (cut_suffix hr')
    · cases h
  · cases h

/-- the definition text, and the text before the match, are cuts of the block -/
theorem defSearch_cut {b g : Str} {st en : Nat} (h : BlockExt.defSearch b = some (st, en, g)) :
    Cut g b ∧ Cut (b.take st) b := by
  simp only [BlockExt.defSearch] at h
  split at h
  · next st' o g' n hs =>
    cases h
    obtain ⟨t, ht, hf⟩ := nlSearch_some hs
    exact ⟨(defAt_cut hf).trans (cut_suffix ht), nlSearch_cut hs⟩
  · cases h

theorem fnAt_cut {s id g : Str} {n : Nat} (h : BlockExt.fnAt s = some (id, g, n)) : Cut g s := by
  simp only [BlockExt.fnAt] at h
  split at h
  · split at h
    · cases h
      exact (cut_takeWhile_drop _ _).trans
        (cut_suffix ((List.drop_suffix _ _).trans ((List.drop_suffix _ _).trans (List.drop_suffix _ _))))
    · cases h
  · cases h

/-- the first line of the body is a cut of the block; the match starts at a line start -/
theorem fnSearch_cut {b id g : Str} {st n : Nat} (h : BlockExt.fnSearch b = some (st, id, g, n)) :
    Cut g b ∧ LineStart b st := by
  obtain ⟨t, ht, hf⟩ := lineSearch_some h
  exact ⟨(fnAt_cut hf).trans (cut_suffix ht), lineSearch_lineStart h⟩

theorem abbrSearch_lineStart {b ab t : Str} {st n : Nat} (h : BlockExt.abbrSearch b = some (st, ab, t, n)) :
    LineStart b st := lineSearch_lineStart h

/-- `[ ]*(?:\n|$)`: what it matches may be cut off -/
theorem eolAfterSpaces_cutOK {s : Str} {k : Nat} (h : BlockExt.eolAfterSpaces s = some k) : cutOK s = true := by
  simp only [BlockExt.eolAfterSpaces, countSp] at h
  apply cutOK_of_countPrefix (ch := ' ') (by decide) (by decide) none
  split at h
  · next e => rw [e]; rfl
  · next c r e =>
    rw [e]
    split at h
    · next hc => subst hc; exact cutOK_nl _
    · cases h

/-- the title of an admonition is followed by `"`, blanks and the end of the line -/
theorem admTitleClose_cut : ∀ (s : Str) (j : Nat) {i k : Nat}, BlockExt.admTitleClose j s = some (i, k) →
    j ≤ i ∧ cutOK (s.drop (i - j)) = true
  | [], _, _, _, h => by simp [BlockExt.admTitleClose] at h
  | c :: r, j, i, k, h => by
    simp only [BlockExt.admTitleClose] at h
    split at h
    · cases h
    · split at h
      · next k' hk =>
        cases h
        refine ⟨Nat.le_refl _, ?_⟩
        rw [Nat.sub_self, List.drop_zero]
        split at hk
        · next hq =>
          subst hq
          exact BlkC.cutOK_cons (by decide) (by decide) (eolAfterSpaces_cutOK hk)
        · cases hk
      · obtain ⟨h1, h2⟩ := admTitleClose_cut r (j + 1) h
        refine ⟨by omega, ?_⟩
        have e : i - j = (i - (j + 1)) + 1 := by omega
        rw [e, List.drop_succ_cons]; exact h2

theorem admAt_cut {s g1 : Str} {g2 : Option Str} {n : Nat} (h : BlockExt.admAt s = some (g1, g2, n)) :
    ∀ t, g2 = some t → Cut t s := by
  simp only [BlockExt.admAt] at h
  split at h
  · generalize (if startsWith (s.drop 3) [' '] = true then 1 else 0) = o at h
    split at h
    · cases h
    · split at h
      · next i k hm =>
        cases h
        intro t ht
        cases ht
        split at hm
        · have hc := (admTitleClose_cut _ 0 hm).2
          exact (cut_take (by simpa using hc)).trans
            (cut_suffix ((List.drop_suffix _ _).trans ((List.drop_suffix _ _).trans
              ((List.drop_suffix _ _).trans (List.drop_suffix _ _)))))
        · cases hm
      · split at h
        · cases h
          exact fun t ht => by cases ht
        · cases h
  · cases h

/-- the title group, and the text before the match, are cuts of the block -/
theorem admSearch_cut {b g1 : Str} {g2 : Option Str} {st en : Nat}
    (h : BlockExt.admSearch b = some (st, en, g1, g2)) :
    (∀ t, g2 = some t → Cut t b) ∧ Cut (b.take st) b := by
  simp only [BlockExt.admSearch] at h
  split at h
  · next st' o g1' g2' n hs =>
    cases h
    obtain ⟨t, ht, hf⟩ := nlSearch_some hs
    exact ⟨fun u hu => (admAt_cut hf u hu).trans (cut_suffix ht), nlSearch_cut hs⟩
  · cases h

section procs
variable {p q : Char → Bool} {P : Str → Prop}

theorem stripC_p (h : StrDomC p q P) {s : Str} (hs : P s) {ch : Char} (h1 : ch ≠ ')') (h2 : ch ≠ ']') :
    P (stripC ch s) :=
  h.rstripP (f := (· = ch)) (h.lstripP hs _) ⟨by simpa using Ne.symm h1, by simpa using Ne.symm h2⟩

theorem rstripC_p (h : StrDomC p q P) {s : Str} (hs : P s) {ch : Char} (h1 : ch ≠ ')') (h2 : ch ≠ ']') :
    P (rstripC ch s) := h.ofCut hs (cut_rstripC h1 h2 s)

/-- joining with a blank line -/
theorem joinPara_xc (h : StrDomC p q P) : ∀ {l : List Str}, PL P l → P (join ['\n', '\n'] l)
  | [], _ => h.nil
  | [a], hl => hl a (by simp)
  | a :: b :: r, hl => by
    have h1 := pl_cons.1 hl
    have ih := joinPara_xc h h1.2
    rw [BlockExt.join_cons_cons]
    have : a ++ ['\n', '\n'] ++ join ['\n', '\n'] (b :: r) = a ++ '\n' :: ([] ++ '\n' :: join ['\n', '\n'] (b :: r)) := by
      simp
    rw [this]
    exact h.joinNl _ _ h1.1 (h.joinNl _ _ h.nil ih)

/-! ### definition lists -/

theorem defListP_xc (h : StrDomC p q P) {tab : Nat} {pb : PB} (hpb : PresX p q P pb) {state : List BState}
    {refs : Refs} {parent : Node} {b : Str} {rest : List Str} {m : Nat × Nat × Str}
    (hP : TX p q P parent) (hA : parent.textAtomic = false) (hR : LogC p P refs) (hb : P b)
    (hrest : PL P rest) (hm : BlockExt.defSearch b = some m) {r : Node × Refs × List Str}
    (hr : BlockExt.defListP tab pb state refs parent b rest m = some (some r)) : ResX p q P r := by
  obtain ⟨st, en, g2⟩ := m
  have hg : P g2 := h.ofCut hb (defSearch_cut hm).1
  have hterms0 : PL P (((lines (b.take st)).map strip).filter (fun t => !t.isEmpty)) :=
    (pl_map (h.lines (h.ofCut hb (defSearch_cut hm).2)) (fun s hs => h.strip hs)).mono
      (fun _ hx => (List.mem_filter.1 hx).1)
  -- the definition text and the rest
  have hdr : ∀ x : Str × Str, x = (if BlockExt.defNoIndent (b.drop en) then (b.drop en, []) else detab tab (b.drop en)) →
      P (if x.1.isEmpty then g2 else g2 ++ '\n' :: x.1) ∧ PL P (if x.2.isEmpty then rest else x.2 :: rest) := by
    intro x hx
    have hx12 : P x.1 ∧ P x.2 := by
      subst hx
      split
      · exact ⟨h.drop hb en, h.nil⟩
      · exact h.detab tab (h.drop hb en)
    refine ⟨?_, pl_consIf _ hx12.2 hrest⟩
    split
    · exact hg
    · exact h.joinNl _ _ hg hx12.1
  simp only [BlockExt.defListP] at hr
  generalize hxe : (if BlockExt.defNoIndent (b.drop en) then (b.drop en, []) else detab tab (b.drop en)) = x at hr
  obtain ⟨hd, hre⟩ := hdr x hxe.symm
  obtain ⟨x1, x2⟩ := x
  simp only [] at hr hd hre
  have hdd : TX p q P (Node.el "dd") := tx_el h.nil "dd" (by decide)
  have hdl : TX p q P (Node.el "dl") := tx_el h.nil "dl" (by decide)
  -- a fresh `dl` with the terms and the new `dd`
  have fresh : ∀ {terms : List Str} {dd : Node}, PL P terms → TX p q P dd → dd.textAtomic = false →
      TX p q P ((BlockExt.addTerms (Node.el "dl") terms).append dd) ∧
        ((BlockExt.addTerms (Node.el "dl") terms).append dd).textAtomic = false := by
    intro terms dd ht hdd' hna
    obtain ⟨a1, _, a3⟩ := addTerms_tx h.nil hdl ht
    exact ⟨a1.append hdd' hna, a3⟩
  split at hr
  · -- no sibling
    split at hr
    · cases hr
    · simp only [Option.some.injEq] at hr
      split at hr
      · next dd refs' hcall =>
        obtain ⟨o1, o2, o3⟩ := hpb _ _ _ _ _ hdd rfl hR (pl_one hd) hcall
        cases hr
        obtain ⟨f1, f2⟩ := fresh hterms0 o1 o2
        exact ⟨hP.append f1 f2, hA, o3, hre⟩
      · cases hr
  · next sibling hl =>
    simp only [Option.some.injEq] at hr
    have hsib := hP.last hl
    -- the terms and the parent after `if not terms and sibling.tag == 'p'`
    have hterms : PL P (if ((((lines (b.take st)).map strip).filter (fun t => !t.isEmpty)).isEmpty && sibling.isTag "p") = true
        then lines (sibling.text.getD []) else ((lines (b.take st)).map strip).filter (fun t => !t.isEmpty)) := by
      split
      · next hc =>
        simp only [Bool.and_eq_true] at hc
        have hna : sibling.textAtomic = false := by
          apply hsib.1.nx.notAtomic
          rw [isTag_iff.1 hc.2]; decide
        exact h.lines (hsib.1.nx.textP hna)
      · exact hterms0
    have hpar : TX p q P (if ((((lines (b.take st)).map strip).filter (fun t => !t.isEmpty)).isEmpty && sibling.isTag "p") = true
        then BlockExt.dropLastChild parent else parent) ∧
        (if ((((lines (b.take st)).map strip).filter (fun t => !t.isEmpty)).isEmpty && sibling.isTag "p") = true
        then BlockExt.dropLastChild parent else parent).textAtomic = false := by
      split
      · exact ⟨dropLastChild_tx hP, hA⟩
      · exact ⟨hP, hA⟩
    generalize (if ((((lines (b.take st)).map strip).filter (fun t => !t.isEmpty)).isEmpty && sibling.isTag "p") = true
        then lines (sibling.text.getD []) else ((lines (b.take st)).map strip).filter (fun t => !t.isEmpty)) = terms
        at hr hterms
    generalize (if ((((lines (b.take st)).map strip).filter (fun t => !t.isEmpty)).isEmpty && sibling.isTag "p") = true
        then BlockExt.dropLastChild parent else parent) = parent2 at hr hpar
    split at hr
    · next dl hs =>
      have hdl' : parent2.last? = some dl ∧ dl.isTag "dl" = true := by
        split at hs
        · next s hl' =>
          split at hs
          · next ht => cases hs; exact ⟨hl', ht⟩
          · cases hs
        · cases hs
      have hc := hpar.1.last hdl'.1
      have hdltag : dl.tag = .name "dl".toList := isTag_iff.1 hdl'.2
      split at hr
      · next dd refs' hcall =>
        obtain ⟨o1, o2, o3⟩ := hpb _ _ _ _ _ hdd rfl hR (pl_one hd) hcall
        cases hr
        obtain ⟨a1, a2, a3⟩ := addTerms_tx h.nil hc.1 hterms
        refine ⟨hpar.1.setLastNA (a1.append o1 o2) ?_, hpar.2, o3, hre⟩
        rw [append_textAtomic, a3]
        apply hc.1.nx.notAtomic
        rw [hdltag]; decide
      · cases hr
    · split at hr
      · next dd refs' hcall =>
        obtain ⟨o1, o2, o3⟩ := hpb _ _ _ _ _ hdd rfl hR (pl_one hd) hcall
        cases hr
        obtain ⟨f1, f2⟩ := fresh hterms o1 o2
        exact ⟨hpar.1.append f1 f2, hpar.2, o3, hre⟩
      · cases hr

/-! ### footnote and abbreviation definitions -/

theorem detectTabbed_xc (h : StrDomC p q P) : ∀ {l : List Str}, PL P l →
    PL P (BlockExt.detectTabbed l).1 ∧ PL P (BlockExt.detectTabbed l).2
  | [], _ => by simp [BlockExt.detectTabbed, pl_nil]
  | b :: r, hl => by
    have h1 := pl_cons.1 hl
    have ih := detectTabbed_xc h h1.2
    simp only [BlockExt.detectTabbed]
    split
    · split
      · next st x hs =>
        obtain ⟨id, g, n⟩ := x
        exact ⟨pl_one (h.looseDetab 4 (h.take_lineStart h1.1 (fnSearch_cut hs).2) 1),
          pl_cons.2 ⟨h.drop h1.1 _, h1.2⟩⟩
      · exact ⟨pl_cons.2 ⟨h.looseDetab 4 h1.1 1, ih.1⟩, ih.2⟩
    · exact ⟨pl_nil, hl⟩

theorem footnote_fin_xc (h : StrDomC p q P) {refs : Refs} (hR : LogC p P refs) {id b : Str} (hid : AllC p id)
    (hb : P b) {fb rest' : List Str} (hfb : PL P fb) (hrest' : PL P rest') {st : Nat} (hst : LineStart b st) :
    LogC p P (refs ++ [(BlockExt.fnKey id, (rstrip (join ['\n', '\n'] fb), none))]) ∧
      PL P (if isBlank (b.take st) = true then rest' else rstripC '\n' (b.take st) :: rest') := by
  have hbody : P (rstrip (join ['\n', '\n'] fb)) := h.rstripP (joinPara_xc h hfb) isSpace_paren
  refine ⟨hR.snoc ⟨?_, h.allc _ hbody, allC_nil, fun _ => hbody⟩, pl_consIf _ (h.take_lineStart hb hst) hrest'⟩
  rw [(keyOf_fn id _).1]; exact hid

theorem footnoteP_xc (h : StrDomC p q P) {refs : Refs} {b : Str} {rest : List Str} (hR : LogC p P refs) (hb : P b)
    (hrest : PL P rest) {r : Refs × List Str} (hr : BlockExt.footnoteP refs b rest = some r) :
    LogC p P r.1 ∧ PL P r.2 := by
  simp only [BlockExt.footnoteP] at hr
  split at hr
  · cases hr
  · next st id g2 n hs =>
    obtain ⟨hid, _⟩ := fnSearch_infix hs
    obtain ⟨hg, hst⟩ := fnSearch_cut hs
    have hg2 := h.ofCut hb hg
    have hidc : AllC p id := (h.allc _ hb).mono hid.subset
    have hther : P (lstripC '\n' (b.drop (st + n))) := h.lstripC (h.drop hb _) _
    split at hr
    · next st2 x hs2 =>
      obtain ⟨id2, g22, n2⟩ := x
      cases hr
      exact footnote_fin_xc h hR hidc hb
        (pl_one (h.lstripC (h.joinNl _ _ hg2 (h.looseDetab 4 (h.take_lineStart hther (fnSearch_cut hs2).2) 1)) '\n'))
        (pl_cons.2 ⟨h.drop hther st2, hrest⟩) hst
    · cases hr
      have hdt := detectTabbed_xc h hrest
      exact footnote_fin_xc h hR hidc hb
        (pl_cons.2 ⟨stripC_p h (h.joinNl _ _ hg2 (h.looseDetab 4 hther 1)) (by decide) (by decide), hdt.1⟩) hdt.2 hst

theorem abbrP_xc (h : StrDomC p q P) {refs : Refs} {b : Str} {rest : List Str} (hR : LogC p P refs) (hb : P b)
    (hrest : PL P rest) {r : Refs × List Str} (hr : BlockExt.abbrP refs b rest = .ok r) :
    LogC p P r.1 ∧ PL P r.2 := by
  simp only [BlockExt.abbrP] at hr
  split at hr
  · cases hr
  · next st abbr0 title0 n hs =>
    obtain ⟨hab, hti⟩ := abbrSearch_infix hs
    have hbc := h.allc _ hb
    have habc : AllC p (strip abbr0) := (hbc.mono hab.subset).strip
    have htic : AllC p (strip title0) := (hbc.mono hti.subset).strip
    have hre : PL P (if isBlank (b.take st) = true then
          (if isBlank (b.drop (st + n)) = true then rest else lstripC '\n' (b.drop (st + n)) :: rest)
        else rstripC '\n' (b.take st) ::
          (if isBlank (b.drop (st + n)) = true then rest else lstripC '\n' (b.drop (st + n)) :: rest)) :=
      pl_consIf _ (h.take_lineStart hb (abbrSearch_lineStart hs)) (pl_consIf _ (h.lstripC (h.drop hb _) '\n') hrest)
    split at hr
    · cases hr
    · split at hr
      · split at hr
        · cases hr
          refine ⟨hR.snoc ⟨?_, allC_nil, allC_nil, fun hf => ?_⟩, hre⟩
          · rw [(keyOf_ab _ _).1]; exact habc
          · rw [(keyOf_ab _ _).2] at hf; cases hf
        · cases hr
          exact ⟨hR, hre⟩
      · cases hr
        refine ⟨hR.snoc ⟨?_, htic, allC_nil, fun hf => ?_⟩, hre⟩
        · rw [(keyOf_ab _ _).1]; exact habc
        · rw [(keyOf_ab _ _).2] at hf; cases hf

end procs

/-! ### the dispatcher below the admonition test (tables off) -/

section dispatch
variable {p q : Char → Bool} {P : Str → Prop}

theorem tailRef_xc (h : StrDomXC p q P) {state : List BState} {refs : Refs} {parent : Node} {b : Str} {rest : List Str}
    (hP : TX p q P parent) (hA : parent.textAtomic = false) (hR : LogC p P refs) (hb : P b)
    (hrest : PL P rest) {r : Node × Refs × List Str}
    (hr : BlockExt.tailRef state refs parent b rest = some r) : ResX p q P r := by
  simp only [BlockExt.tailRef] at hr
  split at hr
  · next m hm => cases hr; exact referenceP_xc h hP hA hR hb hrest hm
  · cases hr; exact paraP_xc h.toStrDomC hP hA hR hb hrest

theorem tailAbbr_xc (h : StrDomXC p q P) {cfg : BlockExt.XCfg} {state : List BState} {refs : Refs} {parent : Node}
    {b : Str} {rest : List Str}
    (hP : TX p q P parent) (hA : parent.textAtomic = false) (hR : LogC p P refs) (hb : P b)
    (hrest : PL P rest) {r : Node × Refs × List Str}
    (hr : BlockExt.tailAbbr cfg state refs parent b rest = some r) : ResX p q P r := by
  simp only [BlockExt.tailAbbr] at hr
  split at hr
  · split at hr
    · next refs' rest' ha =>
      cases hr
      obtain ⟨a1, a2⟩ := abbrP_xc h.toStrDomC hR hb hrest ha
      exact ⟨hP, hA, a1, a2⟩
    · cases hr
    · exact tailRef_xc h hP hA hR hb hrest hr
  · exact tailRef_xc h hP hA hR hb hrest hr

theorem tailFootnote_xc (h : StrDomXC p q P) {cfg : BlockExt.XCfg} {state : List BState} {refs : Refs} {parent : Node}
    {b : Str} {rest : List Str}
    (hP : TX p q P parent) (hA : parent.textAtomic = false) (hR : LogC p P refs) (hb : P b)
    (hrest : PL P rest) {r : Node × Refs × List Str}
    (hr : BlockExt.tailFootnote cfg state refs parent b rest = some r) : ResX p q P r := by
  simp only [BlockExt.tailFootnote] at hr
  split at hr
  · split at hr
    · next refs' rest' hf =>
      cases hr
      obtain ⟨a1, a2⟩ := footnoteP_xc h.toStrDomC hR hb hrest hf
      exact ⟨hP, hA, a1, a2⟩
    · exact tailAbbr_xc h hP hA hR hb hrest hr
  · exact tailAbbr_xc h hP hA hR hb hrest hr

theorem tailQuote_xc (h : StrDomXC p q P) {cfg : BlockExt.XCfg} {pb : PB} (hpb : PresX p q P pb) {state : List BState}
    {refs : Refs} {parent : Node} {b : Str} {rest : List Str}
    (hP : TX p q P parent) (hA : parent.textAtomic = false) (hR : LogC p P refs) (hb : P b)
    (hrest : PL P rest) {r : Node × Refs × List Str}
    (hr : BlockExt.tailQuote cfg pb state refs parent b rest = some r) : ResX p q P r := by
  simp only [BlockExt.tailQuote] at hr
  split at hr
  · next q0 hq => exact quoteP_xc h.toStrDomC hpb hP hA hR hb hrest hq hr
  · exact tailFootnote_xc h hP hA hR hb hrest hr

theorem tailDef_xc (h : StrDomXC p q P) {cfg : BlockExt.XCfg} {tab : Nat} {pb : PB} (hpb : PresX p q P pb)
    {state : List BState} {refs : Refs} {parent : Node} {b : Str} {rest : List Str}
    (hP : TX p q P parent) (hA : parent.textAtomic = false) (hR : LogC p P refs) (hb : P b)
    (hrest : PL P rest) {r : Node × Refs × List Str}
    (hr : BlockExt.tailDef cfg tab pb state refs parent b rest = some r) : ResX p q P r := by
  simp only [BlockExt.tailDef] at hr
  split at hr
  · split at hr
    · next m hm =>
      split at hr
      · next r' hd =>
        subst hr
        exact defListP_xc h.toStrDomC hpb hP hA hR hb hrest hm hd
      · exact tailQuote_xc h hpb hP hA hR hb hrest hr
    · exact tailQuote_xc h hpb hP hA hR hb hrest hr
  · exact tailQuote_xc h hpb hP hA hR hb hrest hr

theorem tailList_xc (h : StrDomXC p q P) {cfg : BlockExt.XCfg} {tab : Nat} {pb : PB} (hpb : PresX p q P pb)
    {state : List BState} {refs : Refs} {parent : Node} {b : Str} {rest : List Str}
    (hP : TX p q P parent) (hA : parent.textAtomic = false) (hR : LogC p P refs) (hb : P b)
    (hrest : PL P rest) {r : Node × Refs × List Str}
    (hr : BlockExt.tailList cfg tab pb state refs parent b rest = some r) : ResX p q P r := by
  simp only [BlockExt.tailList] at hr
  split at hr
  · split at hr
    · exact listPX_xc h _ hpb (by decide) (by decide) hP hA hR hb hrest hr
    · exact listP_xc h hpb (by decide) (by decide) hP hA hR hb hrest hr
  · split at hr
    · split at hr
      · exact listPX_xc h _ hpb (by decide) (by decide) hP hA hR hb hrest hr
      · exact listP_xc h hpb (by decide) (by decide) hP hA hR hb hrest hr
    · exact tailDef_xc h hpb hP hA hR hb hrest hr

/-- the dispatcher below the admonition test, without the table processor -/
theorem tailEmptyT_xc (h : StrDomXC p q P) {cfg : BlockExt.XCfg} {tab : Nat} {pb : PB}
    (hpb : PresX p q P pb) {state : List BState} {refs : Refs} {parent : Node} {b : Str} {rest : List Str}
    (hP : TX p q P parent) (hA : parent.textAtomic = false) (hR : LogC p P refs) (hb : P b)
    (hrest : PL P rest) {r : Node × Refs × List Str}
    (hr : BlockExt.tailEmptyT false cfg tab pb state refs parent b rest = some r) : ResX p q P r := by
  have hd := h.toStrDomC
  rw [tailEmptyT_eq] at hr
  split at hr
  · cases hr; exact emptyP_xc hd hP hA hR hb hrest
  · split at hr
    · exact indentP_xc hd hpb hP hA hR hb hrest hr
    · split at hr
      · exact indentPX_xc hd (fun _ => isListTagD_ne_code) (fun _ => isItemTagD_ne_code) (by decide) hpb hP hA hR hb
          hrest hr
      · split at hr
        · cases hr; exact codeP_xc hd hP hA hR hb hrest
        · split at hr
          · next bs hbs => simp at hbs
          · split at hr
            · next m hm => exact hashP_xc hd hpb hP hA hR hb hrest hm hr
            · split at hr
              · cases hr; exact setextP_xc hd hP hA hR hb hrest
              · split at hr
                · next m hm => exact hrP_xc hd hpb hP hA hR hb hrest hm hr
                · exact tailList_xc h hpb hP hA hR hb hrest hr

end dispatch

/-! ### `AdmonitionProcessor.run` -/

section adm
variable {p q : Char → Bool} {P : Str → Prop}

/-- class and title of an admonition -/
theorem admClassTitle_xc (h : StrDomXC p q P) {b g1 : Str} {g2 : Option Str} (hb : P b)
    (hg1 : ∀ c ∈ g1, BlockExt.isWordDash c = true ∨ c = ' ') (hg2 : ∀ t, g2 = some t → Cut t b) :
    (∀ c ∈ (BlockExt.admClassTitle g1 g2).1, litChar c = true) ∧ P ((BlockExt.admClassTitle g1 g2).2.getD []) := by
  have hk : ∀ c ∈ BlockExt.collapseSp (Py.lower g1), litChar c = true :=
    fun c hc => lower_lit (fun x hx => wordDash_lit (hg1 x hx)) c (collapseSp_subset _ hc)
  unfold BlockExt.admClassTitle
  split
  · refine ⟨hk, ?_⟩
    exact h.lit _ (capitalize_lit (fun c hc => hk c (List.takeWhile_subset _ hc)))
  · exact ⟨hk, h.nil⟩
  · next t _ => exact ⟨hk, h.ofCut hb (hg2 t rfl)⟩

theorem admonitionP_xc (h : StrDomXC p q P) {tab : Nat} {pb : PB} (hpb : PresX p q P pb) {state : List BState}
    {refs : Refs} {parent : Node} {b : Str} {rest : List Str} {hit : BlockExt.AdmHit}
    (hP : TX p q P parent) (hA : parent.textAtomic = false) (hR : LogC p P refs) (hb : P b)
    (hrest : PL P rest) (ht : BlockExt.admTest tab parent b = some hit) {r : Node × Refs × List Str}
    (hr : BlockExt.admonitionP tab pb state refs parent b rest hit = some r) : ResX p q P r := by
  have hd := h.toStrDomC
  cases hit with
  | re st en g1 g2 =>
    have hs : BlockExt.admSearch b = some (st, en, g1, g2) := by
      simp only [BlockExt.admTest] at ht
      split at ht
      · next st' en' g1' g2' hs' => cases ht; exact hs'
      · split at ht <;> cases ht
    obtain ⟨hg1, _⟩ := admSearch_groups hs
    obtain ⟨hg2, hpre⟩ := admSearch_cut hs
    obtain ⟨hk, htitle⟩ := admClassTitle_xc h hb hg1 hg2
    simp only [BlockExt.admonitionP] at hr
    split at hr
    · cases hr
    · next parent' refs' hcall =>
      have hout : OutX p q P (parent', refs') := by
        split at hcall
        · exact hpb _ _ _ _ _ hP hA hR (pl_one (hd.ofCut hb hpre)) hcall
        · cases hcall; exact ⟨hP, hA, hR⟩
      obtain ⟨h1, h2, h3⟩ := hout
      have hdt := hd.detab tab (hd.drop hb en)
      generalize detab tab (b.drop en) = dt at hr hdt
      obtain ⟨block, theRest⟩ := dt
      generalize BlockExt.admClassTitle g1 g2 = kt at hr hk htitle
      obtain ⟨klass, title⟩ := kt
      simp only [] at hr hk htitle hdt
      -- the `div`
      have hdiv0 : TX p q P { Node.el "div" with attrs := [(BlockExt.strClass, BlockExt.strAdmonition ++ ' ' :: klass)] } := by
        refine tx_fresh (txt := none) h.nil (tagNoCtl_el "div" (by decide)) (by decide) (attrsC_one (h.litC lit_class) ?_)
          h.nil
        refine h.litC ?_
        intro c hc
        rw [List.mem_append, List.mem_cons] at hc
        rcases hc with hc | rfl | hc
        · exact lit_admonition c hc
        · decide
        · exact hk c hc
      have hdiv : TX p q P (if Node.truthy title = true then
            ({ Node.el "div" with attrs := [(BlockExt.strClass, BlockExt.strAdmonition ++ ' ' :: klass)] } : Node).append
              { mkText "p" (title.getD []) with attrs := [(BlockExt.strClass, "admonition-title".toList)] }
          else { Node.el "div" with attrs := [(BlockExt.strClass, BlockExt.strAdmonition ++ ' ' :: klass)] }) ∧
          (if Node.truthy title = true then
            ({ Node.el "div" with attrs := [(BlockExt.strClass, BlockExt.strAdmonition ++ ' ' :: klass)] } : Node).append
              { mkText "p" (title.getD []) with attrs := [(BlockExt.strClass, "admonition-title".toList)] }
          else { Node.el "div" with attrs := [(BlockExt.strClass, BlockExt.strAdmonition ++ ' ' :: klass)] }).textAtomic
            = false := by
        split
        · refine ⟨hdiv0.append ?_ rfl, rfl⟩
          exact tx_fresh (txt := some (title.getD [])) h.nil (tagNoCtl_el "p" (by decide)) (by decide)
            (attrsC_one (h.litC lit_class) (h.litC lit_admTitle)) htitle
        · exact ⟨hdiv0, rfl⟩
      split at hr
      · next div' refs'' hq =>
        obtain ⟨o1, o2, o3⟩ := parseChunk_xc hd hpb hdiv.1 hdiv.2 h3 hdt.1 hq
        cases hr
        exact ⟨h1.append o1 o2, h2, o3, pl_consIf _ hdt.2 hrest⟩
      · cases hr
  | sib steps indent =>
    have hc : BlockExt.admContent tab parent b = some (steps, indent) := by
      simp only [BlockExt.admTest] at ht
      split at ht
      · cases ht
      · split at ht
        · next k ind hc' => cases ht; exact hc'
        · cases ht
    have hna := admContent_na hc hP
    have hS := nodeAt_tx steps hP
    simp only [BlockExt.admonitionP] at hr
    have hdt := hd.detab indent hb
    generalize detab indent b = dt at hr hdt
    obtain ⟨block, theRest⟩ := dt
    simp only [] at hr hdt
    -- the sibling after `if sibling.tag in ('li', 'dd') and sibling.text`
    have hsib : ∀ s : Node, TX p q P s → s.textAtomic = false →
        TX p q P (if ((s.isTag "li" || s.isTag "dd") && Node.truthy s.text) = true then
          { s with text := some [], textAtomic := false,
                   children := s.children ++ [{ Node.el "p" with text := s.text, textAtomic := s.textAtomic }] }
          else s) ∧
        (if ((s.isTag "li" || s.isTag "dd") && Node.truthy s.text) = true then
          { s with text := some [], textAtomic := false,
                   children := s.children ++ [{ Node.el "p" with text := s.text, textAtomic := s.textAtomic }] }
          else s).textAtomic = false := by
      intro s hs hsa
      split
      · have hb' := hs.nx
        refine ⟨tx_iff.2 ⟨⟨hb'.tag, hb'.attrs, hb'.tailAt, hb'.tail, by simpa using h.nil, fun h' => (by cases h'),
          fun h' => by have := hb'.codeAtom h'; rw [hsa] at this; cases this⟩, ?_⟩, rfl⟩
        intro c hc
        simp only [List.mem_append, List.mem_singleton] at hc
        rcases hc with hc | rfl
        · exact hs.child hc
        · refine ⟨tx_leaf ⟨tagNoCtl_el "p" (by decide), attrsC_nil, rfl, h.nil, ?_, ?_,
            fun h' => absurd h' (show Tag.name "p".toList ≠ Tag.name "code".toList by decide)⟩ rfl, ?_⟩
          · simp only [hsa]; simpa using hb'.textP hsa
          · intro h'; simp only [hsa] at h'; cases h'
          · intro h'; simp only [hsa] at h'; cases h'
      · exact ⟨hs, hsa⟩
    obtain ⟨s1, s2⟩ := hsib _ hS hna
    split at hr
    · next div' refs' hq =>
      obtain ⟨o1, o2, o3⟩ := parseChunk_xc hd hpb s1 s2 hR hdt.1 hq
      cases hr
      obtain ⟨u1, u2⟩ := updPath_tx (fun _ => div') steps hP ⟨o1, o2.trans hna.symm⟩
      exact ⟨u1, u2.trans hA, o3, pl_consIf _ hdt.2 hrest⟩
    · cases hr

/-! ### the statements -/

/-- **one turn of the loop of the extended block parser (tables off) preserves the invariant** -/
theorem dispatchXT_xc (h : StrDomXC p q P) {cfg : BlockExt.XCfg} {tab : Nat} {pb : PB}
    (hpb : PresX p q P pb) {state : List BState} {refs : Refs} {parent : Node} {b : Str} {rest : List Str}
    (hP : TX p q P parent) (hA : parent.textAtomic = false) (hR : LogC p P refs) (hb : P b)
    (hrest : PL P rest) {r : Node × Refs × List Str}
    (hr : BlockExt.dispatchXT false cfg tab pb state refs parent b rest = some r) : ResX p q P r := by
  simp only [BlockExt.dispatchXT] at hr
  split at hr
  · next hit ht =>
    split at ht
    · exact admonitionP_xc h hpb hP hA hR hb hrest ht hr
    · cases ht
  · exact tailEmptyT_xc h hpb hP hA hR hb hrest hr

theorem parseBlocksXT_pres_xc (h : StrDomXC p q P) (cfg : BlockExt.XCfg) (tab : Nat) (f : Nat) :
    PresX p q P (BlockExt.parseBlocksXT false cfg tab f) :=
  parseBlocksXT_pres_of false cfg tab
    (fun _ hpb _ _ _ _ _ _ hP hA hR hb hrest hd => dispatchXT_xc h hpb hP hA hR hb hrest hd) f

/-- `parseBlocksXT` (tables off) preserves the invariant, from any tree that satisfies it -/
theorem parseBlocksXT_strs (h : StrDomXC p q P) (cfg : BlockExt.XCfg) (tab f : Nat) :
    ∀ state log parent blocks r, parent.Forall (XInv p q P) → parent.textAtomic = false → LogC p P log →
      (∀ b ∈ blocks, P b) → BlockExt.parseBlocksXT false cfg tab f state log parent blocks = some r →
      r.1.Forall (XInv p q P) ∧ r.1.textAtomic = false ∧ LogC p P r.2 :=
  parseBlocksXT_pres_xc h cfg tab f

/-- **the extended block stage without tables** (core processors, admonition, sane lists, definition lists, footnote
    and abbreviation definitions) **invents no STX/ETX and keeps every ordinary string inside a class of strings closed
    under dropping a prefix, cutting off an end without `)`/`]` before its first line feed, newline-joins, `lower` and
    literal strings**: every element is a `BNodeXP` (literal tag; attribute names and values, tail and text made of
    characters of `p` — `q` for the atomic text of a `code`; tail and non-atomic text satisfy `P`), and every string of
    the log is `AllC p`, footnote bodies satisfy `P`. -/
theorem parseDocumentXT_strs (h : StrDomXC p q P) (xc : BlockExt.XCfg) (tab : Nat) (text : Str)
    (hp : P text) {root : Node} {log : Block.Refs}
    (hr : BlockExt.parseDocumentXT false xc tab text = some (root, log)) :
    root.Forall (BNodeXP p q P) ∧ LogC p P log := by
  obtain ⟨o1, _, o3⟩ := parseChunk_xc h.toStrDomC (parseBlocksXT_pres_xc h xc tab _) (tx_el h.nil "div" (by decide))
    rfl logC_nil hp hr
  exact ⟨forall_mono (fun _ hn => nx_bnodeXP h.toStrDomC hn.1) root o1, o3⟩

/-- the same for a chunk parsed on an empty surrogate `div` with a given log (`PipelineX.parseChunkX`) -/
theorem parseChunkXT_strs (h : StrDomXC p q P) (xc : BlockExt.XCfg) (tab f : Nat) (log : Block.Refs)
    (hl : LogC p P log) (text : Str) (hp : P text) {root : Node} {log' : Block.Refs}
    (hr : Block.parseChunk (BlockExt.parseBlocksXT false xc tab f) [] log (Node.el "div") text = some (root, log')) :
    root.Forall (BNodeXP p q P) ∧ LogC p P log' := by
  obtain ⟨o1, _, o3⟩ := parseChunk_xc h.toStrDomC (parseBlocksXT_pres_xc h xc tab f) (tx_el h.nil "div" (by decide))
    rfl hl hp hr
  exact ⟨forall_mono (fun _ hn => nx_bnodeXP h.toStrDomC hn.1) root o1, o3⟩

end adm

end MdVerif.NoCtl.BlkXC
