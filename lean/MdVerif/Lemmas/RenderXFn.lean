/-
Helper lemmas for `Props/C16RenderX.lean`, part 8: footnotes — the block stage of `text[^id]` + `[^id]: note`, the
footnote `div` built before the inline stage, the footnote pattern of the table engine, and the later stages with the
footnote postprocessor.

Core Lean only.
-/
import MdVerif.Lemmas.RenderXAbbr
import MdVerif.Lemmas.RenderXNl

namespace MdVerif.RenderX
open Py Block BlockExt

/-! ### blocks that reach the footnote processor -/

/-- the characters the core block recognisers before `quote` react to, and `!` -/
def coreTrig : List Char := ['#', '-', '_', '*', '+', '.', '>', '!']

/-- none of these characters, a visible first character, no `=` underline as second line -/
structure CoreFree2 (b : Str) : Prop where
  esc : ∀ c ∈ b, c ∉ coreTrig
  vis : Escape.startsVisible b = true
  second : (match Escape.secondLine b with | some l => Escape.isEqUnderline l | none => false) = false

/-- such a block reaches the `footnote` processor when def_list is off (table processor off), under any parent -/
theorem dispatchXT_toFn (cfg : XCfg) (tab : Nat) (htab : tab > 0) (pb : PB)
    (state : List BState) (refs : Refs) (parent : Node) (b : Str) (rest : List Str) (h : CoreFree2 b)
    (hdef : defSearch b = none) :
    dispatchXT false cfg tab pb state refs parent b rest = tailFootnote cfg state refs parent b rest := by
  have hg : Escape.Guarded coreTrig b = true := guardedFrom_of_no_esc _ _ h.esc false
  have hl : Escape.LineStartsOk coreTrig b = true := by
    simp only [Escape.LineStartsOk, Bool.and_eq_true]
    exact ⟨startOk_of_no_esc _ _ h.esc, startsOkNl_of_no_esc _ _ h.esc⟩
  have hs : Escape.startOk coreTrig b = true := startOk_of_no_esc _ _ h.esc
  have hv := h.vis
  have hhead : ∀ c, b.head? = some c → c ≠ ' ' := by
    intro c hc e
    subst e
    cases b with
    | nil => simp at hc
    | cons a t =>
      simp only [List.head?_cons, Option.some.injEq] at hc
      subst hc
      simp [Escape.startsVisible, isSpace] at hv
  have hbang : '!' ∉ b := fun hm => h.esc _ hm (by decide)
  have hadm := admTest_plain tab htab parent b hbang hhead
  have hsp : startsWith b (spaces tab) = false := startsWith_spaces_false_of_head htab hhead
  cases b with
  | nil => simp [Escape.startsVisible] at hv
  | cons c t =>
    have hc : isSpace c = false := by simpa [Escape.startsVisible] using hv
    have hc1 : c ≠ '\n' := by intro e; subst e; exact absurd hc (by decide)
    have e1 : ((c :: t).isEmpty || startsWith (c :: t) ['\n']) = false := by simp [startsWith, hc1]
    simp only [dispatchXT, hadm, ite_self, tailEmptyT, e1, hsp, indentTestX, Bool.false_eq_true, if_false,
      Bool.false_and, Bool.and_false,
      Escape.hashSearch_eq_none (esc := coreTrig) (by decide) _ hl,
      Escape.setextMatch_eq_false (esc := coreTrig) (by decide) _ hg h.second,
      Escape.hrSearch_eq_none (esc := coreTrig) (by decide) (by decide) (by decide) _ hl,
      tailList,
      Escape.listItemMatch_eq_none (esc := coreTrig) (by decide) (by decide) (by decide) (by decide)
        tab _ _ _ hg hs, Option.isSome_none, tailDef, hdef, ite_self, tailQuote,
      Escape.quoteSearch_eq_none (esc := coreTrig) (by decide) _ hl]

/-! ### the two printed lines -/

/-- `[^id]` -/
def fnRefSrc (id : Str) : Str := '[' :: '^' :: id ++ [']']
/-- the paragraph line: text, then the reference -/
def fnLine1 (t id : Str) : Str := t ++ fnRefSrc id
/-- the definition line `[^id]: note` -/
def fnLine2 (id note : Str) : Str := '[' :: '^' :: id ++ ']' :: ':' :: ' ' :: note

/-- the block extensions of `{ footnotes := true }` -/
def fcfg : XCfg := { footnotes := true }

theorem mem_fnLine1 {t id : Str} {c : Char} (h : c ∈ fnLine1 t id) : c ∈ t ∨ c = '[' ∨ c = '^' ∨ c = ']' ∨ c ∈ id := by
  have h' : c ∈ t ++ ['[', '^'] ++ id ++ [']'] := by simpa [fnLine1, fnRefSrc] using h
  simp only [List.mem_append, List.mem_cons, List.mem_nil_iff, or_false] at h'
  rcases h' with ((h | h | h) | h) | h
  · exact Or.inl h
  · exact Or.inr (Or.inl h)
  · exact Or.inr (Or.inr (Or.inl h))
  · exact Or.inr (Or.inr (Or.inr (Or.inr h)))
  · exact Or.inr (Or.inr (Or.inr (Or.inl h)))

theorem mem_fnLine2 {id note : Str} {c : Char} (h : c ∈ fnLine2 id note) :
    c ∈ note ∨ c = '[' ∨ c = '^' ∨ c = ']' ∨ c = ':' ∨ c = ' ' ∨ c ∈ id := by
  have h' : c ∈ ['[', '^'] ++ id ++ [']', ':', ' '] ++ note := by simpa [fnLine2] using h
  simp only [List.mem_append, List.mem_cons, List.mem_nil_iff, or_false] at h'
  rcases h' with (((h | h) | h) | h | h | h) | h
  · exact Or.inr (Or.inl h)
  · exact Or.inr (Or.inr (Or.inl h))
  · exact Or.inr (Or.inr (Or.inr (Or.inr (Or.inr (Or.inr h)))))
  · exact Or.inr (Or.inr (Or.inr (Or.inl h)))
  · exact Or.inr (Or.inr (Or.inr (Or.inr (Or.inl h))))
  · exact Or.inr (Or.inr (Or.inr (Or.inr (Or.inr (Or.inl h)))))
  · exact Or.inl h

theorem coreFree2_line1 (t id : Str) (ht : PlainFacts t) (hid : WordFacts id) : CoreFree2 (fnLine1 t id) := by
  have hnl : '\n' ∉ fnLine1 t id := by
    intro hm
    rcases mem_fnLine1 hm with h | h | h | h | h
    · exact ht.noNl h
    · exact absurd h (by decide)
    · exact absurd h (by decide)
    · exact absurd h (by decide)
    · exact hid.plain.noNl h
  refine ⟨?_, ?_, ?_⟩
  · intro c hc hm
    have hall : ∀ x ∈ coreTrig, DocSpec.isAlnumSp x = false ∧ x ≠ '[' ∧ x ≠ '^' ∧ x ≠ ']' := by decide
    have hx := hall c hm
    rcases mem_fnLine1 hc with h | h | h | h | h
    · rw [ht.chars c h] at hx; exact absurd hx.1 (by decide)
    · exact hx.2.1 h
    · exact hx.2.2.1 h
    · exact hx.2.2.2 h
    · rw [hid.plain.chars c h] at hx; exact absurd hx.1 (by decide)
  · obtain ⟨a, b, rfl⟩ : ∃ a b, t = a :: b := by
      cases t with
      | nil => exact absurd rfl ht.ne
      | cons a b => exact ⟨a, b, rfl⟩
    have ha : isSpace a = false := by simpa [Escape.startsVisible] using ht.visible
    simp [fnLine1, Escape.startsVisible, ha]
  · unfold Escape.secondLine
    have := joinLines_lines (l := [fnLine1 t id]) (by simp) (by intro p hp; simp at hp; subst hp; exact hnl)
    rw [show joinLines [fnLine1 t id] = fnLine1 t id from rfl] at this
    rw [this]
    rfl

theorem coreFree2_line2 (id note : Str) (hid : WordFacts id) (hn : PlainFacts note) : CoreFree2 (fnLine2 id note) := by
  have hnl : '\n' ∉ fnLine2 id note := by
    intro hm
    rcases mem_fnLine2 hm with h | h | h | h | h | h | h
    · exact hn.noNl h
    · exact absurd h (by decide)
    · exact absurd h (by decide)
    · exact absurd h (by decide)
    · exact absurd h (by decide)
    · exact absurd h (by decide)
    · exact hid.plain.noNl h
  refine ⟨?_, ?_, ?_⟩
  · intro c hc hm
    have hall : ∀ x ∈ coreTrig, DocSpec.isAlnumSp x = false ∧ x ≠ '[' ∧ x ≠ '^' ∧ x ≠ ']' ∧ x ≠ ':' ∧ x ≠ ' ' := by decide
    have hx := hall c hm
    rcases mem_fnLine2 hc with h | h | h | h | h | h | h
    · rw [hn.chars c h] at hx; exact absurd hx.1 (by decide)
    · exact hx.2.1 h
    · exact hx.2.2.1 h
    · exact hx.2.2.2.1 h
    · exact hx.2.2.2.2.1 h
    · exact hx.2.2.2.2.2 h
    · rw [hid.plain.chars c h] at hx; exact absurd hx.1 (by decide)
  · simp [fnLine2, Escape.startsVisible, isSpace]
  · unfold Escape.secondLine
    have := joinLines_lines (l := [fnLine2 id note]) (by simp) (by intro p hp; simp at hp; subst hp; exact hnl)
    rw [show joinLines [fnLine2 id note] = fnLine2 id note from rfl] at this
    rw [this]
    rfl

/-- the paragraph line goes to `ParagraphProcessor` -/
theorem dispatch_fnLine1 (cfg : XCfg) (tab : Nat) (htab : tab > 0) (pb : PB) (refs : Refs)
    (parent : Node) (t id : Str)
    (rest : List Str) (ht : PlainFacts t) (hid : WordFacts id) :
    dispatchXT false cfg tab pb [] refs parent (fnLine1 t id) rest =
      some (parent.append (mkText "p" (fnLine1 t id)), refs, rest) := by
  have hfree := coreFree2_line1 t id ht hid
  obtain ⟨a, b, hab⟩ : ∃ a b, t = a :: b := by
    cases t with
    | nil => exact absurd rfl ht.ne
    | cons a b => exact ⟨a, b, rfl⟩
  have ha : isSpace a = false := by rw [hab] at ht; simpa [Escape.startsVisible] using ht.visible
  have hasp : a ≠ ' ' := by intro e; subst e; exact absurd ha (by decide)
  have habr : a ≠ '[' := by
    intro e; subst e
    have := ht.chars '[' (by rw [hab]; simp)
    exact absurd this (by decide)
  have hnl : '\n' ∉ fnLine1 t id := by
    intro hm
    rcases mem_fnLine1 hm with h | h | h | h | h
    · exact ht.noNl h
    · exact absurd h (by decide)
    · exact absurd h (by decide)
    · exact absurd h (by decide)
    · exact hid.plain.noNl h
  have hne : fnLine1 t id ≠ [] := by rw [hab]; simp [fnLine1]
  -- no footnote definition
  have hfnat : fnAt (fnLine1 t id) = none := by
    rw [hab]
    simp [fnLine1, fnAt, countPrefix, hasp, startsWith, habr]
  have hfn : fnSearch (fnLine1 t id) = none := lineSearch_line_none fnAt _ hnl hfnat hne
  -- no reference definition
  have href : refSearch (fnLine1 t id) = none := by
    apply Escape.refSearch_eq_none (esc := ['[']) (by decide)
    simp only [Escape.LineStartsOk, Bool.and_eq_true]
    constructor
    · rw [hab]
      simp [fnLine1, Escape.startOk, List.dropWhile, hasp, habr]
    · have : ∀ (s : Str), '\n' ∉ s → Escape.startsOkNl ['['] s = true := by
        intro s
        induction s with
        | nil => intro _; rfl
        | cons c r ih =>
          intro h
          have hc : c ≠ '\n' := fun e => h (e ▸ List.mem_cons_self)
          simp [Escape.startsOkNl, hc, ih (fun hm => h (List.mem_cons_of_mem _ hm))]
      exact this _ hnl
  have hnochar : ∀ x, x = ':' ∨ x = '*' → x ∉ fnLine1 t id := by
    intro x hx hm
    rcases mem_fnLine1 hm with h | h | h | h | h
    · rcases hx with rfl | rfl <;> exact absurd (ht.chars _ h) (by decide)
    · rcases hx with rfl | rfl <;> exact absurd h (by decide)
    · rcases hx with rfl | rfl <;> exact absurd h (by decide)
    · rcases hx with rfl | rfl <;> exact absurd h (by decide)
    · rcases hx with rfl | rfl <;> exact absurd (hid.plain.chars _ h) (by decide)
  have hdefs : defSearch (fnLine1 t id) = none :=
    defSearch_none (contains_false_of_head _ (hnochar ':' (Or.inl rfl)))
  have habs : abbrSearch (fnLine1 t id) = none :=
    abbrSearch_none (contains_false_of_head _ (hnochar '*' (Or.inr rfl)))
  rw [dispatchXT_toFn cfg tab htab pb [] refs parent _ rest hfree hdefs]
  have hv := hfree.vis
  simp only [tailFootnote, footnoteP, hfn, ite_self, tailAbbr, abbrP, habs, tailRef, href]
  simp [paraP, Escape.isBlank_of_visible hv, Escape.lstrip_of_visible hv, isstate]

theorem fnAt_line2 (id note : Str) (hid : WordFacts id) (hn : PlainFacts note) :
    fnAt (fnLine2 id note) = some (id, note, (fnLine2 id note).length) := by
  obtain ⟨a, t, rfl⟩ : ∃ a t, note = a :: t := by
    cases note with
    | nil => exact absurd rfl hn.ne
    | cons a t => exact ⟨a, t, rfl⟩
  have ha : a ≠ ' ' := hn.head a rfl
  have hnl : ∀ c ∈ a :: t, notNl c = true := by
    intro c hc
    simp only [notNl, bne_iff_ne, ne_eq]
    intro e; subst e; exact hn.noNl hc
  have htw : (a :: t).takeWhile notNl = a :: t := DocParse.takeWhile_all _ (List.all_eq_true.2 hnl)
  have hidc : id.all (fun c => c != ']') = true := by
    rw [List.all_eq_true]
    intro c hc
    simp only [bne_iff_ne, ne_eq]
    intro e; subst e; exact absurd (hid.chars _ hc) (by decide)
  have hspan : spanLen (fun c => c != ']') (id ++ ']' :: ':' :: ' ' :: a :: t) = id.length := by
    rw [spanLen_append_of_all hidc]; simp [spanLen]
  have hget1 : (id ++ ']' :: ':' :: ' ' :: a :: t)[id.length]? = some ']' := by simp
  have hget2 : (id ++ ']' :: ':' :: ' ' :: a :: t)[id.length + 1]? = some ':' := by
    rw [List.getElem?_append_right (by omega)]; simp
  have hdrop : (id ++ ']' :: ':' :: ' ' :: a :: t).drop (id.length + 2) = ' ' :: a :: t := by
    rw [show id ++ ']' :: ':' :: ' ' :: a :: t = (id ++ [']', ':']) ++ (' ' :: a :: t) by simp]
    exact List.drop_left' (by simp)
  have htake : (id ++ ']' :: ':' :: ' ' :: a :: t).take id.length = id := List.take_left' rfl
  have e : fnLine2 id (a :: t) = '[' :: '^' :: (id ++ ']' :: ':' :: ' ' :: a :: t) := rfl
  rw [e]
  simp only [fnAt, countPrefix, show ('[' : Char) ≠ ' ' by decide, if_false, List.drop_zero, startsWith, decide_true,
    Bool.true_and, if_true, List.drop_succ_cons, hspan, hget1, hget2, beq_self_eq_true, Bool.and_self, hdrop, htake]
  simp [countSp, countPrefix, ha, htw]
  omega

theorem stripC_nl_line (note : Str) (hn : PlainFacts note) : stripC '\n' (note ++ ['\n']) = note := by
  have hhead : ∀ c, (note ++ ['\n']).head? = some c → (decide (c = '\n')) = false := by
    intro c hc
    obtain ⟨a, t, rfl⟩ : ∃ a t, note = a :: t := by
      cases h : note with
      | nil => exact absurd h hn.ne
      | cons a t => exact ⟨a, t, rfl⟩
    simp only [List.cons_append, List.head?_cons, Option.some.injEq] at hc
    subst hc
    simp only [decide_eq_false_iff_not]
    intro e; exact hn.noNl (e ▸ List.mem_cons_self)
  unfold stripC
  rw [stripP_eq, (lstripP_eq_self_iff _ _).2 hhead, rstripP_append_of_all (by simp)]
  rw [(rstripP_eq_self_iff _ _).2]
  intro c hc
  simp only [decide_eq_false_iff_not]
  intro e; subst e; exact hn.noNl (List.mem_of_getLast? hc)

/-- the definition line is taken by the footnote processor: the table gets the entry, nothing is added to the tree -/
theorem dispatch_fnLine2 (cfg : XCfg) (hfo : cfg.footnotes = true) (tab : Nat) (htab : tab > 0) (pb : PB)
    (refs : Refs) (parent : Node) (id note : Str)
    (hid : WordFacts id) (hn : PlainFacts note) :
    dispatchXT false cfg tab pb [] refs parent (fnLine2 id note) [[]] =
      some (parent, refs ++ [(fnKey id, (note, none))], [[]]) := by
  have hfree := coreFree2_line2 id note hid hn
  have hat := fnAt_line2 id note hid hn
  have hne : fnLine2 id note ≠ [] := by simp [fnLine2]
  have hsearch : fnSearch (fnLine2 id note) = some (0, id, note, (fnLine2 id note).length) :=
    lineSearch_line_some fnAt _ _ hat hne
  have hfn0 : fnSearch [] = none := by decide
  have hdt : detectTabbed [[]] = ([], [[]]) := by
    simp [detectTabbed, startsWith, spaces, List.replicate]
  have hdetab : fnDetab [] = [] := by decide
  have hstrip := stripC_nl_line note hn
  have hrs : rstrip note = note := by
    unfold rstrip
    rw [(rstripP_eq_self_iff _ _).2]
    exact hn.lastVisible
  have hnl2 : '\n' ∉ fnLine2 id note := by
    intro hm
    rcases mem_fnLine2 hm with h | h | h | h | h | h | h
    · exact hn.noNl h
    · exact absurd h (by decide)
    · exact absurd h (by decide)
    · exact absurd h (by decide)
    · exact absurd h (by decide)
    · exact absurd h (by decide)
    · exact hid.plain.noNl h
  have hdefs : defSearch (fnLine2 id note) = none :=
    defSearch_line_none _ hnl2 (by simp [fnLine2, defAt, countPrefix])
  rw [dispatchXT_toFn cfg tab htab pb [] refs parent _ [[]] hfree hdefs]
  simp only [tailFootnote, hfo, if_true, footnoteP, hsearch, Nat.zero_add, List.drop_length, lstripC, lstripP, hfn0,
    hdt, hdetab, List.take_zero, Py.isBlank_nil]
  have hstrip' : stripC '\n' (note ++ ['\n']) = note := hstrip
  simp [hstrip', join, hrs]

/-! ### the block stage -/

/-- the source: the paragraph line, an empty line, the definition line -/
def fnSrc (t id note : Str) : Str := DocParse.joinChunks [fnLine1 t id, fnLine2 id note]

theorem fnSrc_lines (t id note : Str) : fnSrc t id note = joinLines [fnLine1 t id, [], fnLine2 id note] := by
  simp [fnSrc, DocParse.joinChunks, joinLines, join]

theorem nl_not_mem_fnLine1 (t id : Str) (ht : PlainFacts t) (hid : WordFacts id) : '\n' ∉ fnLine1 t id := by
  intro hm
  rcases mem_fnLine1 hm with h | h | h | h | h
  · exact ht.noNl h
  · exact absurd h (by decide)
  · exact absurd h (by decide)
  · exact absurd h (by decide)
  · exact hid.plain.noNl h

theorem nl_not_mem_fnLine2 (id note : Str) (hid : WordFacts id) (hn : PlainFacts note) : '\n' ∉ fnLine2 id note := by
  intro hm
  rcases mem_fnLine2 hm with h | h | h | h | h | h | h
  · exact hn.noNl h
  · exact absurd h (by decide)
  · exact absurd h (by decide)
  · exact absurd h (by decide)
  · exact absurd h (by decide)
  · exact absurd h (by decide)
  · exact hid.plain.noNl h

theorem parseDocumentXT_fn (cfg : XCfg) (hfo : cfg.footnotes = true) (tab : Nat) (htab : tab > 0) (t id note : Str)
    (ht : PlainFacts t) (hid : WordFacts id)
    (hn : PlainFacts note) :
    parseDocumentXT false cfg tab (fnSrc t id note ++ ['\n', '\n']) =
      some ((Node.el "div").append (mkText "p" (fnLine1 t id)), [(fnKey id, (note, none))]) := by
  have hnel1 : Escape.noEmptyLineFrom true (fnLine1 t id) = true :=
    DocParse.nel_line _ (by have := ht.ne; cases t <;> simp_all [fnLine1]) (nl_not_mem_fnLine1 t id ht hid)
  have hnel2 : Escape.noEmptyLineFrom true (fnLine2 id note) = true :=
    DocParse.nel_line _ (by simp [fnLine2]) (nl_not_mem_fnLine2 id note hid hn)
  have hsplit : splitS ['\n', '\n'] (fnSrc t id note ++ ['\n', '\n']) = [fnLine1 t id, fnLine2 id note, []] := by
    have := DocParse.splitS_chunks [fnLine1 t id, fnLine2 id note] (by simp)
      (by intro b hb; simp at hb; rcases hb with rfl | rfl <;> assumption)
    simpa [fnSrc] using this
  have hfuel : fuelForX (fnSrc t id note ++ ['\n', '\n']).length =
      (2 * (fnSrc t id note ++ ['\n', '\n']).length + 7) + 1 + 1 + 1 := by simp only [fuelForX]
  have h1 := fun pb rest => dispatch_fnLine1 cfg tab htab pb [] (Node.el "div") t id rest ht hid
  have h2 := fun pb => dispatch_fnLine2 cfg hfo tab htab pb [] ((Node.el "div").append (mkText "p" (fnLine1 t id))) id note hid hn
  have hpre : preCode (mkText "p" (fnLine1 t id)) = none := by
    have : (mkText "p" (fnLine1 t id)).isTag "pre" = false := by
      simp only [mkText, Node.isTag, Node.el]; decide
    simp [preCode, this]
  have h3 : ∀ pb, dispatchXT false cfg tab pb [] [(fnKey id, (note, none))]
      ((Node.el "div").append (mkText "p" (fnLine1 t id))) [] [] =
      some ((Node.el "div").append (mkText "p" (fnLine1 t id)), [(fnKey id, (note, none))], []) := by
    intro pb
    simp only [dispatchXT, admTest_plain tab htab _ [] (by simp) (by simp), ite_self, tailEmptyT, List.isEmpty_nil,
      Bool.true_or, if_true, emptyP, CodeLaw.last_append, hpre, List.drop_nil]
  simp only [parseDocumentXT, parseChunk, hsplit]
  rw [hfuel]
  simp only [parseBlocksXT, h1, h2, List.nil_append, h3]

/-! ### the footnote `div` (tree processor 50, before the inline stage) -/

/-- the extensions `{ footnotes := true }` -/
def fx : PipelineX.Exts := { footnotes := true }

/-- the back-link of footnote number 1 -/
def fnBack (id : Str) : Node := FootnotesTree.backlink id 1

/-- the paragraph of the footnote: the note, the no-break-space placeholder, the back-link -/
def fnP (id note : Str) : Node :=
  { tag := .name "p".toList, text := some (note ++ FootnotesTree.nbspPlaceholder), children := [fnBack id] }

def fnLi (id note : Str) : Node :=
  { tag := .name "li".toList, attrs := [("id".toList, Footnotes.footnoteId id)], children := [fnP id note] }

/-- `div.footnote > hr, ol > li` -/
def fnDiv (id note : Str) : Node :=
  { tag := .name "div".toList, attrs := [("class".toList, "footnote".toList)],
    children := [FootnotesTree.el "hr", { FootnotesTree.el "ol" with children := [fnLi id note] }] }

theorem footnotesOf_one (id note : Str) : footnotesOf [(fnKey id, (note, none))] = [(id, note)] := by
  simp only [footnotesOf, List.foldl, isFnEntry, fnKey, startsWith, decide_true, Bool.and_self, if_true, dictSet,
    List.any_nil, Bool.false_eq_true, if_false, List.drop_succ_cons, List.drop_zero, List.nil_append]

theorem makeDiv_one (x : PipelineX.Exts) (htb : x.tables = false) (cfg : Pipeline.Cfg) (htab : 0 < cfg.tab) (id note : Str)
    (hn : PlainFacts note) :
    FootnotesTree.makeDiv (PipelineX.parseChunkX x cfg) PipelineX.fnCount [(id, note)] [(fnKey id, (note, none))] =
      .ok (some (fnDiv id note), [(fnKey id, (note, none))]) := by
  have hpl : ∀ l ∈ [note], PlainFacts l := by intro l hl; simp at hl; subst hl; exact hn
  have hparse : PipelineX.parseChunkX x cfg [(fnKey id, (note, none))] note =
      some ((Node.el "div").append (mkText "p" note), [(fnKey id, (note, none))]) := by
    have := parseChunkXT_plain x.blockCfg cfg.tab htab (2 * note.length + 9) [] (by decide) [(fnKey id, (note, none))]
      (Node.el "div") note [] hpl
    simpa [PipelineX.parseChunkX, htb, fuelForX, joinLines, join] using this
  simp only [FootnotesTree.makeDiv, List.isEmpty_cons, Bool.false_eq_true, if_false, FootnotesTree.makeLis, hparse,
    bne_self_eq_false, Node.append, Node.el, List.nil_append]
  simp [FootnotesTree.addBacklink, Node.last?, Node.isTag, mkText, Node.el, Node.setLast, FootnotesTree.el, fnDiv,
    fnLi, fnP, fnBack]

theorem placeDiv_one (L1 : Str) (D : Node) (h : '/' ∉ L1) :
    FootnotesTree.placeDiv ((Node.el "div").append (mkText "p" L1)) D =
      { Node.el "div" with children := [mkText "p" L1, D] } := by
  have hm : contains L1 FootnotesTree.placeMarker = false := by
    have : FootnotesTree.placeMarker = '/' :: "//Footnotes Go Here///".toList := by decide
    rw [this]; exact contains_false_of_head _ h
  simp [FootnotesTree.placeDiv, FootnotesTree.placeNode, FootnotesTree.placeKids, FootnotesTree.hasMarker, Node.append,
    Node.el, mkText, Node.truthy, hm]

/-! ### the inline stage: the footnote pattern -/

section inline
open Inline InlineX

/-- the pattern table of `{ footnotes := true }`: `footnote` is entry 2 of 17 -/
theorem table_fn : (InlineX.table true false false)[0]? = some (PatK.core 0) ∧
    (InlineX.table true false false)[1]? = some (PatK.core 1) ∧
    (InlineX.table true false false)[2]? = some PatK.footnote ∧ (InlineX.table true false false).length = 17 ∧
    PatK.nl ∉ InlineX.table true false false := by decide

/-- the `sup` element of the first reference to footnote `id` when it is footnote number 1 -/
def supNode (id : Str) : Node := fnRefNode [id] id (Footnotes.fnref ++ ':' :: id)

/-- the bookkeeping after the first reference -/
def fnState1 (id : Str) : Footnotes.State :=
  ⟨[Footnotes.fnref ++ ':' :: id], [(Footnotes.fnref ++ ':' :: id, 1)]⟩

theorem footnoteRefId_first (id : Str) :
    Footnotes.footnoteRefId id true Footnotes.State.empty = (Footnotes.fnref ++ ':' :: id, fnState1 id) := by
  simp [Footnotes.footnoteRefId, Footnotes.uniqueRef, Footnotes.State.empty, Footnotes.uniqueRefLoop, Footnotes.incr,
    fnState1]

theorem fnRefAt_ref (id X : Str) (hid : ∀ c ∈ id, c ≠ ']') :
    fnRefAt (fnRefSrc id ++ X) = some (id, id.length + 3) := by
  have hall : id.all (fun c => c != ']') = true := by
    rw [List.all_eq_true]; intro c hc; simpa using hid c hc
  have hspan : spanLen (fun c => c != ']') (id ++ ']' :: X) = id.length := by
    rw [spanLen_append_of_all hall]; simp [spanLen]
  have e : fnRefSrc id ++ X = '[' :: '^' :: (id ++ ']' :: X) := by simp [fnRefSrc]
  rw [e]
  simp only [fnRefAt, hspan]
  simp

theorem fnRefScan_line1 (t id : Str) (ht : '[' ∉ t) (hid : ∀ c ∈ id, c ≠ ']') :
    ∀ i, fnRefScan [id] 0 (fnLine1 t id) i = some (id, i + t.length, i + t.length + (id.length + 3)) := by
  induction t with
  | nil =>
    intro i
    have := fnRefAt_ref id [] hid
    simp only [List.append_nil] at this
    simp only [fnLine1, List.nil_append]
    have e : fnRefSrc id = '[' :: ('^' :: id ++ [']']) := rfl
    rw [e] at this ⊢
    simp only [fnRefScan, this]
    simp
  | cons c t ih =>
    intro i
    have hc : c ≠ '[' := fun e => ht (e ▸ List.mem_cons_self)
    have hnone : fnRefAt (c :: (t ++ fnRefSrc id)) = none :=
      fnRefAt_none_of_head (by simpa using hc)
    simp only [fnLine1, List.cons_append, fnRefScan, hnone]
    have := ih (fun hm => ht (List.mem_cons_of_mem _ hm)) (i + 1)
    simp only [fnLine1] at this
    rw [this]
    simp only [List.length_cons]
    have e1 : i + 1 + t.length = i + (t.length + 1) := by omega
    rw [e1]

theorem noTickBs_line1 (t id : Str) (ht : PlainFacts t) (hid : WordFacts id) : CodeLaw.noTickBs (fnLine1 t id) := by
  intro c hc
  rcases mem_fnLine1 hc with h | h | h | h | h
  · have := ht.chars c h
    constructor <;> (intro e; subst e; exact absurd this (by decide))
  · subst h; decide
  · subst h; decide
  · subst h; decide
  · have := hid.plain.chars c h
    constructor <;> (intro e; subst e; exact absurd this (by decide))

/-- text of a plain line followed by an inline placeholder is quiet -/
theorem quietX_ph (t : Str) (ht : PlainFacts t) (n : Nat) : QuietX (t ++ placeholder n) := by
  have hch : ∀ c ∈ t ++ placeholder n, c ≠ '`' ∧ c ≠ '\\' ∧ c ≠ '[' ∧ c ≠ '!' ∧ c ≠ '&' ∧ c ≠ '*' ∧ c ≠ '_' ∧ c ≠ '\n' := by
    intro c hc
    rcases List.mem_append.1 hc with h | h
    · have hq := (alnumSp_quiet (ht.chars c h))
      have h1 := hq.1
      simp only [quietCh, Bool.and_eq_true, bne_iff_ne, ne_eq] at h1
      obtain ⟨⟨⟨⟨⟨⟨a, b⟩, c'⟩, d⟩, e⟩, f⟩, g⟩ := h1
      exact ⟨a, b, c', d, e, f, g, hq.2.1⟩
    · have hp := Escape.phChar_facts (Escape.phChar_of_mem_placeholder h)
      have hph := Escape.phChar_of_mem_placeholder h
      refine ⟨?_, hp.2.2.2.2.2.1, hp.1, hp.2.1, hp.2.2.1, hp.2.2.2.1, hp.2.2.2.2.1, hp.2.2.2.2.2.2.2⟩
      intro e; subst e; exact absurd hph (by decide)
  refine ⟨fun hm => (hch _ hm).1 rfl, fun hm => (hch _ hm).2.1 rfl, ?_, ?_⟩
  · intro c hc
    have := hch c hc
    exact ⟨this.2.2.1, this.2.2.2.1, this.2.2.2.2.1, this.2.2.2.2.2.1, this.2.2.2.2.2.2.1⟩
  · rw [find_none_iff]
    intro pre post e
    have : '\n' ∈ t ++ placeholder n := by rw [e]; simp
    exact (hch _ this).2.2.2.2.2.2.2 rfl

theorem quietX_one : QuietX ['1'] := by
  refine ⟨by decide, by decide, ?_, by decide⟩
  intro c hc
  have : c = '1' := by simpa using hc
  subst this; decide

/-- a match whose element has neither text nor tail and whose children the nested calls leave alone: the element is
    stashed as it is -/
theorem applyPatternX_el (xc : InlineX.XCfg) (hi : HIX) (pi : Nat) (k : PatK) (data : Str) (x x' : InlineX.XSt) (n : Node)
    (s : Nat) (e : Int) (hk : xc.table[pi]? = some k) (hf : findX xc k data 0 x = some (some ⟨.el n, s, e⟩, x'))
    (hn : n.text = none) (hnt : n.tail = none) (hkids : hiNodesX hi pi n.children x' = some (n.children, x')) :
    applyPatternX xc hi pi data 0 x =
      some (data.take s ++ placeholder x'.st.stash.length ++ pyDrop data e, true, 0,
        { x' with st := { x'.st with stash := x'.st.stash ++ [.node n] } }) := by
  obtain ⟨tag, attrs, text, ta, children, tail, tla⟩ := n
  simp only at hn hnt hkids
  subst hn; subst hnt
  simp only [applyPatternX, hk, hf, Option.isSome_none, Bool.false_and, Bool.false_eq_true, if_false, hiNodeX, hiOptX,
    Node.truthy, hkids, stashX, stashNode]

/-- the configuration of the inline stage with footnotes -/
def fnXc (ic : Inline.Cfg) (id : Str) : InlineX.XCfg := { cfg := ic, table := InlineX.table true false false, fnKeys := [id] }

/-- the `a` inside the `sup` -/
def refA (id : Str) : Node :=
  { tag := .name "a".toList, attrs := [("href".toList, '#' :: Footnotes.footnoteId id), ("class".toList, "footnote-ref".toList)],
    text := some ['1'] }

theorem supNode_eq (id : Str) :
    supNode id = { tag := .name "sup".toList, attrs := [("id".toList, Footnotes.fnref ++ ':' :: id)], children := [refA id] } := by
  have hidx : indexOf [id] id = 0 := by simp [indexOf]
  have h1 : natToDec 1 = ['1'] := by decide
  simp [supNode, fnRefNode, hidx, h1, mkEl, Node.setAttr, refA]

/-- `__handleInline` on the paragraph line: the reference becomes a stashed `sup` -/
theorem handleInlineTopX_fn (ic : Inline.Cfg) (t id : Str) (ht : PlainFacts t) (hid : WordFacts id) (st : Inline.St) :
    handleInlineTopX (fnXc ic id) (fnLine1 t id) { st := st, fn := Footnotes.State.empty } =
      some (t ++ placeholder st.stash.length,
        { st := { st with stash := st.stash ++ [.node (supNode id)] }, fn := fnState1 id }) := by
  obtain ⟨t0, t1, t2, tlen, tnl⟩ := table_fn
  have ht0 : (fnXc ic id).table[0]? = some (PatK.core 0) := t0
  have ht1 : (fnXc ic id).table[1]? = some (PatK.core 1) := t1
  have ht2 : (fnXc ic id).table[2]? = some PatK.footnote := t2
  have hlenT : (fnXc ic id).table.length = 17 := tlen
  have hnlT : PatK.nl ∉ (fnXc ic id).table := tnl
  have hnb := noTickBs_line1 t id ht hid
  have hbs : '\\' ∉ fnLine1 t id := fun hm => (hnb _ hm).2 rfl
  have hidc : ∀ c ∈ id, c ≠ ']' := by
    intro c hc e; subst e; exact absurd (hid.chars _ hc) (by decide)
  have htb : '[' ∉ t := by
    intro hm; exact absurd (ht.chars _ hm) (by decide)
  have hlen : (fnLine1 t id).length = t.length + (id.length + 3) := by simp [fnLine1, fnRefSrc]
  have hfuel := loopFuelX_ge2 17 (fnLine1 t id).length (by omega)
  obtain ⟨g, hg⟩ : ∃ g, loopFuelX 17 (fnLine1 t id).length = ((g + 16) + 1) + 2 :=
    ⟨loopFuelX 17 (fnLine1 t id).length - 19, by omega⟩
  unfold handleInlineTopX
  rw [hlenT, show (fnLine1 t id).length + 17 + 4 = ((fnLine1 t id).length + 17 + 2) + 1 + 1 from rfl]
  unfold handleInlineX
  rw [hlenT, hg]
  -- patterns 0 and 1 find nothing
  rw [hiLoopX_skip 17 _ _ _ 2 (by omega) (fun p hp => by
    have : p = 0 ∨ p = 1 := by omega
    rcases this with rfl | rfl
    · simp only [applyPatternX, ht0, findX, findMatch, show ¬ (0 > (fnLine1 t id).length) by omega, if_false, btFind,
        List.drop_zero, if_true, CodeLaw.btScan_plain _ hnb]
    · simp only [applyPatternX, ht1, findX, findMatch, show ¬ (0 > (fnLine1 t id).length) by omega, if_false,
        List.drop_zero, Escape.escScan_noBs _ hbs]) 2 0 _ (by omega)]
  -- the footnote pattern matches the reference
  have hscan := fnRefScan_line1 t id htb hidc 0
  have hfind : findX (fnXc ic id) PatK.footnote (fnLine1 t id) 0 { st := st, fn := Footnotes.State.empty } =
      some (some ⟨.el (supNode id), 0 + t.length, ((0 + t.length + (id.length + 3) : Nat) : Int)⟩,
        { st := st, fn := fnState1 id }) := by
    simp only [findX, show ¬ (0 > (fnLine1 t id).length) by omega, if_false, List.drop_zero, fnXc, hscan,
      footnoteRefId_first, supNode]
  have hinner : ∀ (x : InlineX.XSt), handleInlineX (fnXc ic id) ((fnLine1 t id).length + 17 + 2 + 1) ['1'] 3 x =
      some (['1'], x) := by
    intro x
    exact handleInlineX_quiet _ _ _ 3 x quietX_one (fun hm => absurd hm hnlT) (by rw [hlenT]; omega) (by rw [hlenT]; omega)
  have hkids : hiNodesX (fun d p s => handleInlineX (fnXc ic id) ((fnLine1 t id).length + 17 + 2 + 1) d p s) 2
      (supNode id).children { st := st, fn := fnState1 id } = some ((supNode id).children, { st := st, fn := fnState1 id }) := by
    rw [supNode_eq]
    simp only [hiNodesX, hiNodeX, hiOptX, refA, Node.truthy, Bool.not_false, Bool.and_self, if_true, Option.getD_some,
      hinner, Bool.false_and, Bool.false_eq_true, if_false]
  have hdrop : pyDrop (fnLine1 t id) ((0 + t.length + (id.length + 3) : Nat) : Int) = [] := by
    have := Escape.pyDrop_append (fnLine1 t id) []
    rw [List.append_nil, hlen] at this
    simpa using this
  have htake : (fnLine1 t id).take (0 + t.length) = t := by simp [fnLine1]
  have hstep := applyPatternX_el (fnXc ic id)
    (fun d p s => handleInlineX (fnXc ic id) ((fnLine1 t id).length + 17 + 2 + 1) d p s) 2 PatK.footnote (fnLine1 t id)
    { st := st, fn := Footnotes.State.empty } { st := st, fn := fnState1 id } (supNode id) _ _ ht2 hfind
    (by rw [supNode_eq]) (by rw [supNode_eq]) hkids
  rw [hdrop, htake, List.append_nil] at hstep
  rw [show g + 16 + 1 = (g + 16) + 1 from rfl]
  simp only [hiLoopX, show (2 : Nat) < 17 by omega, if_true, hstep]
  -- the remaining turns: nothing is left to match
  have hq := quietX_ph t ht st.stash.length
  exact hiLoopX_quiet 17 _ _ _ (fun p => by
    have := applyPatternX_quiet (fnXc ic id)
      (fun d p s => handleInlineX (fnXc ic id) ((fnLine1 t id).length + 17 + 2 + 1) d p s) p
      (t ++ placeholder st.stash.length) { st := { st with stash := st.stash ++ [.node (supNode id)] }, fn := fnState1 id }
      hq (fun hm => absurd hm hnlT)
    exact this) 15 2 (g + 16) (by omega) (by omega)

/-! ### `__processPlaceholders` puts the `sup` back; the visit of the paragraph -/

theorem processPlaceholders_noPh (S : List StashItem) (f : Nat) (data : Str) (parent : Node) (hne : data ≠ [])
    (hs : find phPrefix data = none) (hp1 : parent.text = none) (hp2 : parent.textAtomic = false) :
    processPlaceholders S (f + 1) data false parent true = some ([], { parent with text := some data }) := by
  obtain ⟨c, r, rfl⟩ : ∃ c r, data = c :: r := by cases data <;> simp_all
  unfold processPlaceholders
  simp only [List.isEmpty_cons, Bool.false_eq_true, if_false, List.length_cons]
  rw [show r.length + 1 + 2 = (r.length + 2) + 1 from rfl]
  unfold ppLoop
  simp only [List.drop_zero, hs]
  cases parent
  simp_all [linkText, Node.truthy]

theorem procNode_sup (S : List StashItem) (f : Nat) (id : Str) :
    procNode (fun d a p t => processPlaceholders S (f + 1) d a p t) (supNode id) = some (supNode id) := by
  have h1 := processPlaceholders_noPh S f ['1']
    { tag := .name "a".toList, attrs := [("href".toList, '#' :: Footnotes.footnoteId id), ("class".toList, "footnote-ref".toList)] }
    (by simp) (by decide) rfl rfl
  rw [supNode_eq]
  simp only [procNode, petTail, petText, procKids, refA, Node.truthy, blankOpt, Bool.false_and, Bool.false_eq_true,
    if_false, Option.getD_some, Option.getD_none, show isBlank ['1'] = false by decide, Bool.not_false, Bool.and_self,
    if_true, h1, List.append_nil, List.nil_append]

/-- `__processPlaceholders` on the text of the paragraph after the footnote pattern -/
theorem ppTop_fn (st : Inline.St) (t id : Str) (parent : Node) (n : Nat) (ht : t ≠ []) (hs : Inline.STX ∉ t)
    (hS : st.stash[n]? = some (.node (supNode id))) (hp1 : parent.text = none) (hp2 : parent.textAtomic = false) :
    ppTop st (t ++ placeholder n) false parent true = some ([supNode id], { parent with text := some t }) := by
  obtain ⟨c, r, rfl⟩ : ∃ c r, t = c :: r := by cases t <;> simp_all
  have hdata : (c :: r) ++ placeholder n = ([] ++ (c :: r)) ++ placeholder n ++ [] := by simp
  have h2 : find phPrefix (((c :: r) ++ placeholder n).drop 0) = some (c :: r).length := by
    rw [List.drop_zero, Escape.placeholder_eq]
    have := Escape.find_prefix_after (ph := STX) (pt := "klzzwxh:".toList) (c :: r) (pad4 n ++ [ETX]) hs
    rw [show (c :: r) ++ (phPrefix ++ (pad4 n ++ [ETX])) = (c :: r) ++ (STX :: "klzzwxh:".toList) ++ (pad4 n ++ [ETX]) by
      simp [phPrefix]]
    exact this
  have h3 : findPh ((c :: r) ++ placeholder n) (0 + (c :: r).length) =
      (some (pad4 n), ((c :: r) ++ placeholder n).length) := by
    have := Escape.findPh_placeholder (c :: r) n []
    simpa using this
  have h4 : stashGet st.stash (pad4 n) = some (.node (supNode id)) := by
    rw [Escape.stashGet_pad4]; exact hS
  have hn := procNode_sup st.stash st.stash.length id
  unfold ppTop
  rw [show st.stash.length + 2 = (st.stash.length + 1) + 1 from rfl]
  unfold processPlaceholders
  simp only [List.cons_append, List.isEmpty_cons, Bool.false_eq_true, if_false]
  rw [show (c :: (r ++ placeholder n)) = (c :: r) ++ placeholder n from rfl]
  rw [show ((c :: r) ++ placeholder n).length + 2 = (((c :: r) ++ placeholder n).length) + 1 + 1 from rfl]
  have step := DocParse2.ppLoop_stepNode st.stash
    (procNode fun d a p t_1 => processPlaceholders st.stash (st.stash.length + 1) d a p t_1)
    ((c :: r) ++ placeholder n) (((c :: r) ++ placeholder n).length + 1) 0 ([], parent) (c :: r).length
    (pad4 n) _ (supNode id) (by simp) h2 h3 h4 hn
  rw [step]
  have hsl : Inline.slice ((c :: r) ++ placeholder n) 0 (0 + (c :: r).length) = c :: r := by
    simp [Inline.slice]
  rw [hsl]
  have hend := DocParse2.ppLoop_endG st.stash
    (procNode fun d a p t_1 => processPlaceholders st.stash (st.stash.length + 1) d a p t_1)
    ((c :: r) ++ placeholder n) ((c :: r) ++ placeholder n).length ((c :: r) ++ placeholder n).length
    (supNode id :: (DocParse2.lt (c :: r) ([], parent)).1, (DocParse2.lt (c :: r) ([], parent)).2) (by simp)
    (by rw [List.drop_length]; decide)
  rw [hend]
  obtain ⟨tag, attrs, text, ta, children, tail, tla⟩ := parent
  simp only at hp1 hp2
  subst hp1; subst hp2
  simp [DocParse2.lt, linkText, Node.truthy]

/-- the paragraph visited as a child of the root -/
theorem visitChildX_fn (ic : Inline.Cfg) (t id : Str) (ht : PlainFacts t) (hid : WordFacts id) (v : VisitX)
    (hv : v.x.fn = Footnotes.State.empty) :
    visitChildX (fnXc ic id) (mkText "p" (fnLine1 t id)) v =
      some ({ mkText "p" t with children := [supNode id] }, [],
        { v with pushes := [[v.done.length, 0]] ++ v.pushes,
                 x := { st := { v.x.st with stash := v.x.st.stash ++ [.node (supNode id)] }, fn := fnState1 id } }) := by
  have hx : v.x = { st := v.x.st, fn := Footnotes.State.empty } := by
    cases hvx : v.x with
    | mk st fn => rw [hvx] at hv; simp only at hv; rw [hv]
  have h1 := handleInlineTopX_fn ic t id ht hid v.x.st
  rw [← hx] at h1
  have hne : fnLine1 t id ≠ [] := by
    intro e; have := congrArg List.length e; simp [fnLine1, fnRefSrc] at this
  have h2 := ppTop_fn { stash := v.x.st.stash ++ [.node (supNode id)], html := v.x.st.html } t id
    { mkText "p" (fnLine1 t id) with text := none, textAtomic := false } v.x.st.stash.length ht.ne ht.noStx
    (by simp) rfl rfl
  unfold visitChildX
  have htr : Node.truthy (mkText "p" (fnLine1 t id)).text = true := (CodeLaw.truthy_some_iff _).2 hne
  simp only [htr, show (mkText "p" (fnLine1 t id)).textAtomic = false from rfl, Bool.not_false, Bool.and_self, if_true,
    show (mkText "p" (fnLine1 t id)).text.getD [] = fnLine1 t id from rfl, h1, h2]
  simp [mkText, Node.el, Node.truthy]

theorem find_ph_nbsp (note : Str) (h : Inline.STX ∉ note) : find phPrefix (note ++ FootnotesTree.nbspPlaceholder) = none :=
  Escape.find_append_none STX _ note _ (fun a ha e => h (e ▸ ha)) (by decide)

theorem quietStr_nbsp (note : Str) (hn : PlainFacts note) : quietStr false (note ++ FootnotesTree.nbspPlaceholder) = true := by
  have hch : ∀ c ∈ note ++ FootnotesTree.nbspPlaceholder, quietCh c = true ∧ c ≠ '\n' := by
    intro c hc
    rcases List.mem_append.1 hc with h | h
    · exact ⟨(alnumSp_quiet (hn.chars c h)).1, (alnumSp_quiet (hn.chars c h)).2.1⟩
    · have : ∀ x ∈ FootnotesTree.nbspPlaceholder, quietCh x = true ∧ x ≠ '\n' := by decide
      exact this c h
  have hbr : find [' ', ' ', '\n'] (note ++ FootnotesTree.nbspPlaceholder) = none := by
    rw [find_none_iff]
    intro pre post e
    have : '\n' ∈ note ++ FootnotesTree.nbspPlaceholder := by rw [e]; simp
    exact (hch _ this).2 rfl
  simp only [quietStr, Bool.and_eq_true, List.all_eq_true, Option.isNone_iff_eq_none, Bool.not_false, Bool.true_or,
    and_true]
  exact ⟨⟨fun c hc => (hch c hc).1, hbr⟩, find_ph_nbsp note hn.noStx⟩

/-- the document handed to the inline stage -/
def fnDoc (t id note : Str) : Node :=
  { Node.el "div" with children := [mkText "p" (fnLine1 t id), fnDiv id note] }

/-- … and after the inline stage -/
def fnMid (t id note : Str) : Node :=
  { Node.el "div" with children := [{ mkText "p" t with children := [supNode id] }, fnDiv id note] }

theorem quietKids_fnDiv (id note : Str) (hn : PlainFacts note) : quietKids false (fnDiv id note).children = true := by
  have h1 := quietStr_nbsp note hn
  have h2 : quietStr false FootnotesTree.fnBacklinkText = true := by decide
  simp [fnDiv, fnLi, fnP, fnBack, FootnotesTree.backlink, FootnotesTree.el, quietKids, quietTree, Node.truthy, h1, h2]

theorem runX_fn (ic : Inline.Cfg) (t id note : Str) (ht : PlainFacts t) (hid : WordFacts id) (hn : PlainFacts note) :
    runX (fnXc ic id) (fnDoc t id note) [] =
      some (fnMid t id note, { st := { stash := [.node (supNode id)], html := [] }, fn := fnState1 id }) := by
  obtain ⟨_, _, _, tlen, tnl⟩ := table_fn
  have hlenT : (fnXc ic id).table.length = 17 := tlen
  have hnlT : PatK.nl ∈ (fnXc ic id).table → false = true := fun hm => absurd hm tnl
  obtain ⟨g, hg⟩ : ∃ g, runFuel (fnDoc t id note) = g + 3 := ⟨runFuel (fnDoc t id note) - 3, by simp [runFuel]⟩
  have hv1 := visitChildX_fn ic t id ht hid { x := { st := { html := [] } } } rfl
  have hqD : quietNode false (fnDiv id note) = true := by simp [quietNode, fnDiv, Node.truthy]
  have hrun := runX_root (fnXc ic id) false hnlT (by rw [hlenT]; omega) (fnDoc t id note) []
    { done := [fnDiv id note, { mkText "p" t with children := [supNode id] }], posmap := [(1, 1), (0, 0)],
      pushes := [[1], [0, 0]],
      x := { st := { stash := [.node (supNode id)], html := [] }, fn := fnState1 id } }
    (by
      rw [hg]
      simp only [fnDoc, Node.el, withIdx, visitLoopX, hv1, List.map_nil, List.nil_append]
      rw [visitChildX_quiet (fnXc ic id) false hnlT (by rw [hlenT]; omega) (fnDiv id note) _ hqD]
      simp [visitLoopX, fnDiv])
    (by
      intro q hq cur hcur
      simp only [List.mem_cons, List.mem_nil_iff, or_false] at hq
      rcases hq with rfl | rfl
      · simp only [getAt, List.reverse_cons, List.reverse_nil, List.nil_append, List.cons_append] at hcur
        have : cur = fnDiv id note := by simpa using hcur.symm
        subst this
        refine ⟨quietKids_fnDiv id note hn, ?_⟩
        have := CodeLaw.size_mem_le (fnDoc t id note).children (fnDiv id note) (by simp [fnDoc])
        have h2 := CodeLaw.sizeList_le_size (fnDoc t id note)
        simp only [runFuel]; omega
      · simp only [getAt, List.reverse_cons, List.reverse_nil, List.nil_append, List.cons_append] at hcur
        have : cur = supNode id := by simpa [mkText] using hcur.symm
        subst this
        refine ⟨?_, ?_⟩
        · rw [supNode_eq]
          have : quietStr false ['1'] = true := by decide
          simp [quietKids, quietTree, refA, Node.truthy, this]
        · rw [supNode_eq]
          simp [Inline.size, Inline.sizeList, refA, runFuel])
    (by
      have hb1 : CodeLaw.below (fnDiv id note) = 5 := by
        simp [fnDiv, fnLi, fnP, fnBack, FootnotesTree.backlink, FootnotesTree.el, CodeLaw.below, CodeLaw.belowKids]
      have hb2 : CodeLaw.below (supNode id) = 1 := by
        rw [supNode_eq]; simp [refA, CodeLaw.below, CodeLaw.belowKids]
      simp only [CodeLaw.mStack, List.map_cons, List.map_nil, List.sum_cons, List.sum_nil, CodeLaw.wPath, getAt,
        List.reverse_cons, List.reverse_nil, List.nil_append, List.cons_append]
      simp [mkText, hb1, hb2, runFuel])
  rw [hrun]
  rfl

end inline

/-! ### the duplicates tree processor: one reference, nothing to add -/

theorem splitFirst_fn (id : Str) : Footnotes.splitFirst ':' (Footnotes.footnoteId id) = some (['f', 'n'], id) := by
  simp [Footnotes.footnoteId, Footnotes.splitFirst]

theorem numDuplicates_one (id : Str) : Footnotes.numDuplicates (Footnotes.footnoteId id) (fnState1 id) = 1 := by
  simp [Footnotes.numDuplicates, splitFirst_fn, fnState1, Footnotes.lookup, Footnotes.fnref]

theorem dupLi_one (id note : Str) : FootnotesTree.dupLi (fnState1 id) (fnLi id note) = some (fnLi id note) := by
  have hid : (fnLi id note).getAttr "id".toList = some (Footnotes.footnoteId id) := by
    simp [fnLi, Node.getAttr]
  simp only [FootnotesTree.dupLi, hid, Option.getD_some, splitFirst_fn, numDuplicates_one, Nat.lt_irrefl, if_false]

theorem duplicates_fn (t id note : Str) :
    FootnotesTree.duplicates (fnState1 id) (fnMid t id note) = some (fnMid t id note) := by
  have hli := dupLi_one id note
  have hback : FootnotesTree.duplicates (fnState1 id) (fnBack id) = some (fnBack id) := by
    simp [fnBack, FootnotesTree.backlink, FootnotesTree.el, FootnotesTree.duplicates, FootnotesTree.duplicatesKids]
  have hp : FootnotesTree.duplicates (fnState1 id) (fnP id note) = some (fnP id note) := by
    simp [fnP, FootnotesTree.duplicates, FootnotesTree.duplicatesKids, hback]
  have hl : FootnotesTree.duplicates (fnState1 id) (fnLi id note) = some (fnLi id note) := by
    simp [fnLi, FootnotesTree.duplicates, FootnotesTree.duplicatesKids, hp]
  have hsup : FootnotesTree.duplicates (fnState1 id) (supNode id) = some (supNode id) := by
    rw [supNode_eq]
    simp [refA, FootnotesTree.duplicates, FootnotesTree.duplicatesKids]
  have hdiv : FootnotesTree.duplicates (fnState1 id) (fnDiv id note) = some (fnDiv id note) := by
    simp only [fnDiv, FootnotesTree.el, FootnotesTree.duplicates, FootnotesTree.duplicatesKids, hl]
    simp [FootnotesTree.dupFirstOl, FootnotesTree.dupFirstOlKids, FootnotesTree.dupLis, hli]
  simp only [fnMid, Node.el, mkText, FootnotesTree.duplicates, FootnotesTree.duplicatesKids, hsup, hdiv]
  simp

/-! ### prettify, unescape -/

/-- the document after prettify (and unescape) -/
def fnFin (t id note : Str) : Node :=
  { tag := .name "div".toList, text := some ['\n'], tail := some ['\n'],
    children := [
      { tag := .name "p".toList, text := some t, children := [supNode id], tail := some ['\n'] },
      { tag := .name "div".toList, attrs := [("class".toList, "footnote".toList)], text := some ['\n'], tail := some ['\n'],
        children := [
          { tag := .name "hr".toList, tail := some ['\n'] },
          { tag := .name "ol".toList, text := some ['\n'], tail := some ['\n'],
            children := [
              { tag := .name "li".toList, attrs := [("id".toList, Footnotes.footnoteId id)], text := some ['\n'],
                tail := some ['\n'],
                children := [
                  { tag := .name "p".toList, text := some (note ++ FootnotesTree.nbspPlaceholder),
                    children := [fnBack id], tail := some ['\n'] }] }] }] }] }

theorem prettify_fn (t id note : Str) : TreeProc.prettify (fnMid t id note) = fnFin t id note := by
  have bl_sup : TreeProc.isBlockLevel TreeProc.defaultBlockLevel (.name ['s', 'u', 'p']) = false := by decide
  have bl_a : TreeProc.isBlockLevel TreeProc.defaultBlockLevel (.name ['a']) = false := by decide
  have bl_hr : TreeProc.isBlockLevel TreeProc.defaultBlockLevel (.name ['h', 'r']) = true := by decide
  have bl_ol : TreeProc.isBlockLevel TreeProc.defaultBlockLevel (.name ['o', 'l']) = true := by decide
  have bl_li : TreeProc.isBlockLevel TreeProc.defaultBlockLevel (.name ['l', 'i']) = true := by decide
  rw [show fnMid t id note = { Node.el "div" with children := [{ mkText "p" t with children := [supNode id] }, fnDiv id note] }
    from rfl, supNode_eq]
  simp [TreeProc.prettify, fnFin, fnDiv, fnLi, fnP, fnBack, FootnotesTree.backlink, FootnotesTree.el, refA, mkText,
    Node.el, TreeProc.prettifyETree, TreeProc.prettifyKids, CodeLaw.bl_div, CodeLaw.bl_p, bl_sup, bl_a, bl_hr, bl_ol,
    bl_li, TreeProc.blankOrNone, Node.truthy, TreeProc.mapTree, TreeProc.mapKids, TreeProc.brRule, TreeProc.preRule,
    TreeProc.tagIs, supNode_eq]

theorem unescapeText_prefix (A X : Str) (hA : TreeProc.STX ∉ A) :
    TreeProc.unescapeText 0 (A ++ X) = (TreeProc.unescapeText 0 X).map (A ++ ·) := by
  induction A with
  | nil => cases h : TreeProc.unescapeText 0 X <;> simp [h]
  | cons c A ih =>
    have hc : c ≠ TreeProc.STX := fun e => hA (by simp [e])
    have ih' := ih (fun e => hA (List.mem_cons_of_mem _ e))
    simp only [List.cons_append, TreeProc.unescapeText, hc, if_false, ih']
    cases TreeProc.unescapeText 0 X <;> simp

theorem stx_fnref (id : Str) (h : TreeProc.STX ∉ id) : TreeProc.STX ∉ Footnotes.fnref ++ ':' :: id := by
  intro hm
  rcases List.mem_append.1 hm with h1 | h1
  · exact absurd h1 (by decide)
  · rcases List.mem_cons.1 h1 with h2 | h2
    · exact absurd h2 (by decide)
    · exact h h2

theorem stx_fnid (id : Str) (h : TreeProc.STX ∉ id) : TreeProc.STX ∉ Footnotes.footnoteId id := by
  intro hm
  simp only [Footnotes.footnoteId, List.mem_cons] at hm
  rcases hm with h1 | h1 | h1 | h1
  · exact absurd h1 (by decide)
  · exact absurd h1 (by decide)
  · exact absurd h1 (by decide)
  · exact h h1

theorem unescapeTree_fn (t id note : Str) (ht : PlainFacts t) (hid : WordFacts id) (hn : PlainFacts note) :
    TreeProc.unescapeTree (fnFin t id note) = some (fnFin t id note) := by
  have t3 : TreeProc.unescapeText 0 ['\n'] = some ['\n'] := by decide
  have hids : TreeProc.STX ∉ id := hid.plain.noStx
  have u1 := CodeLaw.unescapeText_id _ ht.noStx
  have u2 : TreeProc.unescapeText 0 ['1'] = some ['1'] := by decide
  have u3 : TreeProc.unescapeText 0 (note ++ FootnotesTree.nbspPlaceholder) = some (note ++ FootnotesTree.nbspPlaceholder) := by
    rw [unescapeText_prefix _ _ hn.noStx, show TreeProc.unescapeText 0 FootnotesTree.nbspPlaceholder =
      some FootnotesTree.nbspPlaceholder by decide]
    rfl
  have u4 : TreeProc.unescapeText 0 FootnotesTree.fnBacklinkText = some FootnotesTree.fnBacklinkText := by decide
  have a1 := CodeLaw.unescapeText_id _ (stx_fnref id hids)
  have a2 := CodeLaw.unescapeText_id _ (stx_fnid id hids)
  have a3 : TreeProc.unescapeText 0 ('#' :: Footnotes.footnoteId id) = some ('#' :: Footnotes.footnoteId id) :=
    CodeLaw.unescapeText_id _ (by
      intro hm
      rcases List.mem_cons.1 hm with h | h
      · exact absurd h (by decide)
      · exact stx_fnid id hids h)
  have a4 : TreeProc.unescapeText 0 ('#' :: (Footnotes.fnref ++ ':' :: id)) = some ('#' :: (Footnotes.fnref ++ ':' :: id)) :=
    CodeLaw.unescapeText_id _ (by
      intro hm
      rcases List.mem_cons.1 hm with h | h
      · exact absurd h (by decide)
      · exact stx_fnref id hids h)
  have a5 : TreeProc.unescapeText 0 "footnote-ref".toList = some "footnote-ref".toList := by decide
  have a6 : TreeProc.unescapeText 0 "footnote-backref".toList = some "footnote-backref".toList := by decide
  have a7 : TreeProc.unescapeText 0 "footnote".toList = some "footnote".toList := by decide
  have a8 : TreeProc.unescapeText 0 ("Jump back to footnote ".toList ++ natToDec 1 ++ " in the text".toList) =
      some ("Jump back to footnote ".toList ++ natToDec 1 ++ " in the text".toList) := by decide
  have href0 : (Footnotes.footnoteRefId id false Footnotes.State.empty).1 = Footnotes.fnref ++ ':' :: id := by
    simp [Footnotes.footnoteRefId, Footnotes.uniqueRef]
  obtain ⟨tc, tr, rfl⟩ : ∃ tc tr, t = tc :: tr := by
    cases t with
    | nil => exact absurd rfl ht.ne
    | cons a b => exact ⟨a, b, rfl⟩
  obtain ⟨nc, nr, rfl⟩ : ∃ nc nr, note = nc :: nr := by
    cases note with
    | nil => exact absurd rfl hn.ne
    | cons a b => exact ⟨a, b, rfl⟩
  rw [show fnFin (tc :: tr) id (nc :: nr) = fnFin (tc :: tr) id (nc :: nr) from rfl]
  simp only [fnFin, supNode_eq, refA, fnBack, FootnotesTree.backlink, FootnotesTree.el, href0]
  simp only [List.cons_append] at u3
  have hn1 : natToDec 1 = ['1'] := by decide
  rw [hn1] at a8
  simp only [String.reduceToList, List.cons_append, List.nil_append] at a5 a6 a7 a8
  simp [TreeProc.unescapeTree, TreeProc.unescapeKids, TreeProc.unescAttrs, Node.truthy, t3, u1, u2, u3, u4, a1, a2, a3,
    a4, a5, a6, a7, a8, hn1]

/-! ### serializer -/

/-- ` k="v"` for every attribute -/
def attrStr : List (Str × Str) → Str
  | [] => []
  | (k, v) :: r => ' ' :: k ++ '=' :: '"' :: v ++ '"' :: attrStr r

theorem writeAttrs_plain (fmt : Ser.Fmt) (as : List (Str × Str))
    (h : ∀ kv ∈ as, kv.1 ≠ kv.2 ∧ Ser.escAttrHtml kv.2 = kv.2) : Ser.writeAttrs fmt as = attrStr as := by
  induction as with
  | nil => rfl
  | cons kv as ih =>
    obtain ⟨k, v⟩ := kv
    obtain ⟨h1, h2⟩ := h (k, v) List.mem_cons_self
    simp only at h1 h2
    simp only [Ser.writeAttrs, h2, ih (fun x hx => h x (List.mem_cons_of_mem _ hx)), attrStr]
    simp [h1]

/-- the serialisation of an element with attributes whose tag is neither void nor raw-text -/
theorem serialize_elA (fmt : Ser.Fmt) (tag : Str) (attrs sorted : List (Str × Str)) (text : Option Str) (ta : Bool)
    (kids : List Node) (tail : Option Str) (tla : Bool) (hs : Ser.sortAttrs attrs = sorted)
    (h1 : Ser.isEmptyTag tag = false) (h2 : Ser.isRawTextTag tag = false)
    (ha : ∀ kv ∈ sorted, kv.1 ≠ kv.2 ∧ Ser.escAttrHtml kv.2 = kv.2) :
    Ser.serialize fmt ⟨.name tag, attrs, text, ta, kids, tail, tla⟩ =
      '<' :: tag ++ attrStr sorted ++ '>' :: (if Node.truthy text then Ser.escCdata (text.getD []) else []) ++
        Ser.serializeList fmt kids ++ "</".toList ++ tag ++ ['>'] ++
        (if Node.truthy tail then Ser.escCdata (tail.getD []) else []) := by
  simp [Ser.serialize, Ser.element, h1, h2, hs, writeAttrs_plain fmt sorted ha]

/-- `<hr />` / `<hr>` -/
def hrTag : Ser.Fmt → Str
  | .xhtml => "<hr />".toList
  | .html => "<hr>".toList

theorem serialize_hr (fmt : Ser.Fmt) :
    Ser.serialize fmt { tag := .name "hr".toList, tail := some ['\n'] } = hrTag fmt ++ ['\n'] := by
  have hempty : Ser.isEmptyTag ['h', 'r'] = true := by decide
  have e7 : Ser.escCdata ['\n'] = ['\n'] := by decide
  cases fmt <;>
    simp [Ser.serialize, Ser.element, Ser.writeAttrs, Ser.sortAttrs, hempty, Node.truthy, e7, hrTag, Ser.serializeList]

/-- the `sup` of the reference -/
def supHtml (id : Str) : Str :=
  "<sup id=\"fnref:".toList ++ id ++ "\"><a class=\"footnote-ref\" href=\"#fn:".toList ++ id ++
    "\">1</a></sup>".toList

/-- the rendering up to the no-break space -/
def fnA (fmt : Ser.Fmt) (t id note : Str) : Str :=
  "<p>".toList ++ t ++ supHtml id ++ "</p>\n<div class=\"footnote\">\n".toList ++ hrTag fmt ++
    "\n<ol>\n<li id=\"fn:".toList ++ id ++ "\">\n<p>".toList ++ note

/-- … between the no-break space and the back-link text -/
def fnB (id : Str) : Str :=
  "<a class=\"footnote-backref\" href=\"#fnref:".toList ++ id ++
    "\" title=\"Jump back to footnote 1 in the text\">".toList

/-- … and after the back-link text -/
def fnC : Str := "</a></p>\n</li>\n</ol>\n</div>".toList

/-- the rendering, with the no-break space `nb` and the back-link text `bl` as parameters -/
def fnRaw (fmt : Ser.Fmt) (t id note nb bl : Str) : Str := fnA fmt t id note ++ (nb ++ (fnB id ++ (bl ++ fnC)))

theorem escAttr_id (id : Str) (hid : WordFacts id) (pre : Str)
    (hpre : ∀ c ∈ pre, c ≠ '&' ∧ c ≠ '<' ∧ c ≠ '>' ∧ c ≠ '"') : Ser.escAttrHtml (pre ++ id) = pre ++ id := by
  apply escAttrHtml_plain
  intro c hc
  rcases List.mem_append.1 hc with h | h
  · exact hpre c h
  · have f := alnumSp_quiet (hid.plain.chars c h)
    exact ⟨f.2.2.2.1, f.2.2.2.2.1, f.2.2.2.2.2.1, f.2.2.2.2.2.2.1⟩

set_option maxRecDepth 10000 in
theorem serialize_fn (fmt : Ser.Fmt) (t id note : Str) (ht : PlainFacts t) (hid : WordFacts id) (hn : PlainFacts note) :
    Ser.serialize fmt (fnFin t id note) =
      "<div>".toList ++ ('\n' :: fnRaw fmt t id note FootnotesTree.nbspPlaceholder FootnotesTree.fnBacklinkText ++ ['\n']) ++
        "</div>\n".toList := by
  obtain ⟨tc, tr, rfl⟩ : ∃ tc tr, t = tc :: tr := by
    cases t with
    | nil => exact absurd rfl ht.ne
    | cons a b => exact ⟨a, b, rfl⟩
  obtain ⟨nc, nr, rfl⟩ : ∃ nc nr, note = nc :: nr := by
    cases note with
    | nil => exact absurd rfl hn.ne
    | cons a b => exact ⟨a, b, rfl⟩
  have e7 : Ser.escCdata ['\n'] = ['\n'] := by decide
  have et : Ser.escCdata (tc :: tr) = tc :: tr := CodeLaw.escCdata_plain _ ht.noMarkup
  have e1 : Ser.escCdata ['1'] = ['1'] := by decide
  have enote : Ser.escCdata ((nc :: nr) ++ FootnotesTree.nbspPlaceholder) = (nc :: nr) ++ FootnotesTree.nbspPlaceholder := by
    apply CodeLaw.escCdata_plain
    intro c hc
    rcases List.mem_append.1 hc with h | h
    · exact hn.noMarkup c h
    · have : ∀ x ∈ FootnotesTree.nbspPlaceholder, x ≠ '&' ∧ x ≠ '<' ∧ x ≠ '>' := by decide
      exact this c h
  have ebl : Ser.escCdata FootnotesTree.fnBacklinkText = FootnotesTree.fnBacklinkText := by decide
  have href0 : (Footnotes.footnoteRefId id false Footnotes.State.empty).1 = Footnotes.fnref ++ ':' :: id := by
    simp [Footnotes.footnoteRefId, Footnotes.uniqueRef]
  have hn1 : natToDec 1 = ['1'] := by decide
  -- attribute values
  have v1 : Ser.escAttrHtml (Footnotes.fnref ++ ':' :: id) = Footnotes.fnref ++ ':' :: id := by
    have := escAttr_id id hid "fnref:".toList (by decide)
    simpa [Footnotes.fnref] using this
  have v2 : Ser.escAttrHtml ('#' :: Footnotes.footnoteId id) = '#' :: Footnotes.footnoteId id := by
    have := escAttr_id id hid "#fn:".toList (by decide)
    simpa [Footnotes.footnoteId] using this
  have v3 : Ser.escAttrHtml (Footnotes.footnoteId id) = Footnotes.footnoteId id := by
    have := escAttr_id id hid "fn:".toList (by decide)
    simpa [Footnotes.footnoteId] using this
  have v4 : Ser.escAttrHtml ('#' :: (Footnotes.fnref ++ ':' :: id)) = '#' :: (Footnotes.fnref ++ ':' :: id) := by
    have := escAttr_id id hid "#fnref:".toList (by decide)
    simpa [Footnotes.fnref] using this
  have v5 : Ser.escAttrHtml "footnote-ref".toList = "footnote-ref".toList := by decide
  have v6 : Ser.escAttrHtml "footnote-backref".toList = "footnote-backref".toList := by decide
  have v7 : Ser.escAttrHtml "footnote".toList = "footnote".toList := by decide
  have v8 : Ser.escAttrHtml "Jump back to footnote 1 in the text".toList = "Jump back to footnote 1 in the text".toList := by
    decide
  -- keys differ from values
  have k1 : "id".toList ≠ Footnotes.fnref ++ ':' :: id := by
    intro e; have := congrArg List.head? e; simp [Footnotes.fnref] at this
  have k2 : "href".toList ≠ '#' :: Footnotes.footnoteId id := by
    intro e; have := congrArg List.head? e; simp at this
  have k3 : "id".toList ≠ Footnotes.footnoteId id := by
    intro e; have := congrArg List.head? e; simp [Footnotes.footnoteId] at this
  have k4 : "href".toList ≠ '#' :: (Footnotes.fnref ++ ':' :: id) := by
    intro e; have := congrArg List.head? e; simp at this
  simp only [fnFin, supNode_eq, refA, fnBack, FootnotesTree.backlink, FootnotesTree.el, href0, hn1]
  rw [CodeLaw.serialize_plain fmt _ _ _ _ _ _ (by decide) (by decide)]
  simp only [Ser.serializeList]
  -- the paragraph with the reference
  rw [CodeLaw.serialize_plain fmt _ _ _ _ _ _ (by decide) (by decide)]
  simp only [Ser.serializeList]
  rw [serialize_elA fmt "sup".toList _ [("id".toList, Footnotes.fnref ++ ':' :: id)] _ _ _ _ _ (by simp [Ser.sortAttrs, Ser.insAttr])
    (by decide) (by decide) (by intro kv hkv; simp at hkv; subst hkv; exact ⟨k1, v1⟩)]
  simp only [Ser.serializeList]
  rw [serialize_elA fmt "a".toList _ [("class".toList, "footnote-ref".toList), ("href".toList, '#' :: Footnotes.footnoteId id)]
    _ _ _ _ _ (by simp [Ser.sortAttrs, Ser.insAttr, Ser.strLt]) (by decide) (by decide)
    (by
      intro kv hkv
      simp only [List.mem_cons, List.mem_nil_iff, or_false] at hkv
      rcases hkv with rfl | rfl
      · exact ⟨by decide, v5⟩
      · exact ⟨k2, v2⟩)]
  -- the footnote div
  rw [serialize_elA fmt "div".toList _ [("class".toList, "footnote".toList)] _ _ _ _ _ (by simp [Ser.sortAttrs, Ser.insAttr])
    (by decide) (by decide) (by intro kv hkv; simp at hkv; subst hkv; exact ⟨by decide, v7⟩)]
  simp only [Ser.serializeList]
  rw [serialize_hr fmt, CodeLaw.serialize_plain fmt _ _ _ _ _ _ (by decide) (by decide)]
  simp only [Ser.serializeList]
  rw [serialize_elA fmt "li".toList _ [("id".toList, Footnotes.footnoteId id)] _ _ _ _ _ (by simp [Ser.sortAttrs, Ser.insAttr])
    (by decide) (by decide) (by intro kv hkv; simp at hkv; subst hkv; exact ⟨k3, v3⟩)]
  simp only [Ser.serializeList]
  rw [CodeLaw.serialize_plain fmt _ _ _ _ _ _ (by decide) (by decide)]
  simp only [Ser.serializeList]
  rw [serialize_elA fmt "a".toList _
    [("class".toList, "footnote-backref".toList), ("href".toList, '#' :: (Footnotes.fnref ++ ':' :: id)),
     ("title".toList, "Jump back to footnote 1 in the text".toList)]
    _ _ _ _ _ (by simp [Ser.sortAttrs, Ser.insAttr, Ser.strLt]) (by decide) (by decide)
    (by
      intro kv hkv
      simp only [List.mem_cons, List.mem_nil_iff, or_false] at hkv
      rcases hkv with rfl | rfl | rfl
      · exact ⟨by decide, v6⟩
      · exact ⟨k4, v4⟩
      · exact ⟨by decide, v8⟩)]
  simp only [List.cons_append] at enote
  have htb : Node.truthy (some FootnotesTree.fnBacklinkText) = true := by decide
  simp only [htb, if_true]
  simp only [List.cons_append, Node.truthy, if_true, Bool.false_eq_true, if_false, Option.getD_some, Option.getD_none,
    e7, et, e1, enote, ebl, Ser.serializeList, List.append_nil, attrStr]
  unfold fnRaw fnA fnB fnC supHtml Footnotes.fnref Footnotes.footnoteId
  simp only [String.reduceToList, List.cons_append, List.append_assoc, List.nil_append]

/-! ### the footnote postprocessor and the end of `convertX` -/

theorem replace_skip (X Y pat new : Str) (h : ∀ c ∈ X, some c ≠ pat.head?) :
    replace (X ++ Y) pat new = X ++ replace Y pat new := by
  cases pat with
  | nil => simp
  | cons p ps =>
    induction X with
    | nil => rfl
    | cons c X ih =>
      have hc : c ≠ p := by simpa using h c List.mem_cons_self
      have hsw : startsWith (c :: (X ++ Y)) (p :: ps) = false := by simp [startsWith, hc]
      rw [List.cons_append, replace_cons_of_not_startsWith hsw, ih (fun d hd => h d (List.mem_cons_of_mem _ hd))]
      rfl

theorem replace_at (pat Y new : Str) (hp : pat ≠ []) : replace (pat ++ Y) pat new = new ++ replace Y pat new := by
  rw [replace_of_startsWith hp (CodeLaw.startsWith_append_self _ _), List.drop_left' rfl]

theorem replace_none (Y pat new : Str) (h : ∀ c ∈ Y, some c ≠ pat.head?) : replace Y pat new = Y := by
  have := replace_skip Y [] pat new h
  simpa using this

theorem stx_supHtml (id : Str) (h : Post.STX ∉ id) : Post.STX ∉ supHtml id := by
  intro hm
  unfold supHtml at hm
  rcases List.mem_append.1 hm with hm | hm
  · rcases List.mem_append.1 hm with hm | hm
    · rcases List.mem_append.1 hm with hm | hm
      · rcases List.mem_append.1 hm with hm | hm
        · simp only [String.reduceToList] at hm; exact absurd hm (by decide)
        · exact h hm
      · simp only [String.reduceToList] at hm; exact absurd hm (by decide)
    · exact h hm
  · simp only [String.reduceToList] at hm; exact absurd hm (by decide)

theorem stx_fnA (fmt : Ser.Fmt) (t id note : Str) (ht : Post.STX ∉ t) (hid : Post.STX ∉ id) (hn : Post.STX ∉ note) :
    Post.STX ∉ fnA fmt t id note := by
  intro hm
  unfold fnA at hm
  rcases List.mem_append.1 hm with hm | hm
  · rcases List.mem_append.1 hm with hm | hm
    · rcases List.mem_append.1 hm with hm | hm
      · rcases List.mem_append.1 hm with hm | hm
        · rcases List.mem_append.1 hm with hm | hm
          · rcases List.mem_append.1 hm with hm | hm
            · rcases List.mem_append.1 hm with hm | hm
              · rcases List.mem_append.1 hm with hm | hm
                · simp only [String.reduceToList] at hm; exact absurd hm (by decide)
                · exact ht hm
              · exact stx_supHtml id hid hm
            · simp only [String.reduceToList] at hm; exact absurd hm (by decide)
          · cases fmt <;> (simp only [hrTag, String.reduceToList] at hm; exact absurd hm (by decide))
        · simp only [String.reduceToList] at hm; exact absurd hm (by decide)
      · exact hid hm
    · simp only [String.reduceToList] at hm; exact absurd hm (by decide)
  · exact hn hm

theorem stx_fnB (id : Str) (hid : Post.STX ∉ id) : Post.STX ∉ fnB id := by
  intro hm
  unfold fnB at hm
  rcases List.mem_append.1 hm with hm | hm
  · rcases List.mem_append.1 hm with hm | hm
    · simp only [String.reduceToList] at hm; exact absurd hm (by decide)
    · exact hid hm
  · simp only [String.reduceToList] at hm; exact absurd hm (by decide)

theorem stx_fnC : Post.STX ∉ fnC := by decide

/-- `FootnotePostprocessor.run` on the serialised document -/
theorem postprocess_fn (fmt : Ser.Fmt) (t id note : Str) (ht : Post.STX ∉ t) (hid : Post.STX ∉ id)
    (hn : Post.STX ∉ note) :
    FootnotesTree.postprocess (fnRaw fmt t id note FootnotesTree.nbspPlaceholder FootnotesTree.fnBacklinkText) =
      fnRaw fmt t id note "&#160;".toList "&#8617;".toList := by
  have hA := stx_fnA fmt t id note ht hid hn
  have hB := stx_fnB id hid
  have hbl : FootnotesTree.fnBacklinkText.head? = some Post.STX := by decide
  have hnb : FootnotesTree.nbspPlaceholder.head? = some Post.STX := by decide
  have free : ∀ (X : Str), Post.STX ∉ X → ∀ (pat : Str), pat.head? = some Post.STX → ∀ c ∈ X, some c ≠ pat.head? := by
    intro X hX pat hp c hc e
    rw [hp] at e
    exact hX ((Option.some.inj e) ▸ hc)
  have hnbrest : ∃ r, FootnotesTree.nbspPlaceholder = Post.STX :: r ∧ Post.STX ∉ r := by
    refine ⟨"qq3936677670287331zz".toList ++ [FootnotesTree.ETX], by decide, by decide⟩
  obtain ⟨nr, hnr, hnrs⟩ := hnbrest
  have hne : ∀ Z, startsWith (FootnotesTree.nbspPlaceholder ++ Z) FootnotesTree.fnBacklinkText = false := by
    intro Z
    have e1 : FootnotesTree.nbspPlaceholder = Post.STX :: 'q' :: ("q3936677670287331zz".toList ++ [FootnotesTree.ETX]) := by
      decide
    have e2 : FootnotesTree.fnBacklinkText = Post.STX :: 'z' :: ("z1337820767766393qq".toList ++ [FootnotesTree.ETX]) := by
      decide
    rw [e1, e2]
    simp [startsWith]
  unfold FootnotesTree.postprocess fnRaw
  -- first replacement: the back-link text
  have r1 : replace (fnA fmt t id note ++ (FootnotesTree.nbspPlaceholder ++ (fnB id ++ (FootnotesTree.fnBacklinkText ++ fnC))))
      FootnotesTree.fnBacklinkText "&#8617;".toList =
      fnA fmt t id note ++ (FootnotesTree.nbspPlaceholder ++ (fnB id ++ ("&#8617;".toList ++ fnC))) := by
    rw [replace_skip _ _ _ _ (free _ hA _ hbl)]
    have hstep : replace (FootnotesTree.nbspPlaceholder ++ (fnB id ++ (FootnotesTree.fnBacklinkText ++ fnC)))
        FootnotesTree.fnBacklinkText "&#8617;".toList =
        FootnotesTree.nbspPlaceholder ++ replace (fnB id ++ (FootnotesTree.fnBacklinkText ++ fnC))
          FootnotesTree.fnBacklinkText "&#8617;".toList := by
      have h0 := hne (fnB id ++ (FootnotesTree.fnBacklinkText ++ fnC))
      rw [hnr] at h0 ⊢
      rw [List.cons_append, replace_cons_of_not_startsWith (by simpa using h0),
        replace_skip _ _ _ _ (free _ hnrs _ hbl)]
      rfl
    rw [hstep, replace_skip _ _ _ _ (free _ hB _ hbl), replace_at _ _ _ (by decide),
      replace_none _ _ _ (free _ stx_fnC _ hbl)]
  rw [r1]
  -- second replacement: the no-break space
  rw [replace_skip _ _ _ _ (free _ hA _ hnb), replace_at _ _ _ (by decide)]
  have hrest : Post.STX ∉ fnB id ++ ("&#8617;".toList ++ fnC) := by
    intro hm
    rcases List.mem_append.1 hm with hm | hm
    · exact hB hm
    · rcases List.mem_append.1 hm with hm | hm
      · exact absurd hm (by decide)
      · exact stx_fnC hm
  rw [replace_none _ _ _ (free _ hrest _ hnb)]

theorem fnRaw_shape (fmt : Ser.Fmt) (t id note nb bl : Str) : ∃ M, fnRaw fmt t id note nb bl = '<' :: M ++ ['>'] := by
  refine ⟨"p>".toList ++ t ++ supHtml id ++ "</p>\n<div class=\"footnote\">\n".toList ++ hrTag fmt ++
    "\n<ol>\n<li id=\"fn:".toList ++ id ++ "\">\n<p>".toList ++ note ++
    (nb ++ (fnB id ++ (bl ++ "</a></p>\n</li>\n</ol>\n</div".toList))), ?_⟩
  unfold fnRaw fnA fnC
  simp only [String.reduceToList, List.cons_append, List.append_assoc, List.nil_append]

theorem stx_fnFinal (fmt : Ser.Fmt) (t id note : Str) (ht : Post.STX ∉ t) (hid : Post.STX ∉ id) (hn : Post.STX ∉ note) :
    Post.STX ∉ fnRaw fmt t id note "&#160;".toList "&#8617;".toList := by
  intro hm
  unfold fnRaw at hm
  rcases List.mem_append.1 hm with hm | hm
  · exact stx_fnA fmt t id note ht hid hn hm
  · rcases List.mem_append.1 hm with hm | hm
    · exact absurd hm (by decide)
    · rcases List.mem_append.1 hm with hm | hm
      · exact stx_fnB id hid hm
      · rcases List.mem_append.1 hm with hm | hm
        · exact absurd hm (by decide)
        · exact stx_fnC hm

/-- the end of `convertX` with footnotes on the serialised document -/
theorem finishX_fn (cfg : Pipeline.Cfg) (t id note : Str) (ht : Post.STX ∉ t) (hid : Post.STX ∉ id)
    (hn : Post.STX ∉ note) :
    PipelineX.finishX fx cfg []
      ("<div>".toList ++
        ('\n' :: fnRaw cfg.fmt t id note FootnotesTree.nbspPlaceholder FootnotesTree.fnBacklinkText ++ ['\n']) ++
        "</div>\n".toList) = .ok (fnRaw cfg.fmt t id note "&#160;".toList "&#8617;".toList) := by
  have visible : ∀ (nb bl : Str), strip (fnRaw cfg.fmt t id note nb bl) = fnRaw cfg.fmt t id note nb bl := by
    intro nb bl
    obtain ⟨M, hM⟩ := fnRaw_shape cfg.fmt t id note nb bl
    apply strip_eq_self
    · intro c hc
      rw [hM] at hc
      have : c = '<' := by simpa using hc.symm
      subst this; decide
    · intro c hc
      rw [hM, show '<' :: M ++ ['>'] = ('<' :: M) ++ ['>'] from rfl, List.getLast?_append] at hc
      have : c = '>' := by simpa using hc.symm
      subst this; decide
  have hs2 : strip ('\n' :: fnRaw cfg.fmt t id note FootnotesTree.nbspPlaceholder FootnotesTree.fnBacklinkText ++ ['\n']) =
      fnRaw cfg.fmt t id note FootnotesTree.nbspPlaceholder FootnotesTree.fnBacklinkText := by
    have := strip_append_of_blank (a := ['\n']) (b := ['\n']) (by decide) (by decide)
      (fnRaw cfg.fmt t id note FootnotesTree.nbspPlaceholder FootnotesTree.fnBacklinkText)
    have e : '\n' :: fnRaw cfg.fmt t id note FootnotesTree.nbspPlaceholder FootnotesTree.fnBacklinkText ++ ['\n'] =
        ['\n'] ++ fnRaw cfg.fmt t id note FootnotesTree.nbspPlaceholder FootnotesTree.fnBacklinkText ++ ['\n'] := by simp
    rw [e, this, visible]
  simp only [PipelineX.finishX, Escape.topLevelStrip_div, hs2, PipelineX.postX, Post.rawHtmlFuel, List.length_nil,
    Post.rawHtml, List.isEmpty_nil, if_true, Option.map_some, fx, postprocess_fn cfg.fmt t id note ht hid hn,
    Escape.ampSub_id _ (stx_fnFinal cfg.fmt t id note ht hid hn), visible]

/-! ### end to end -/

theorem safeLine_fnLine1 (t id : Str) (ht : PlainFacts t) (hid : WordFacts id) : SafeLine (fnLine1 t id) := by
  have hfacts : ∀ c ∈ fnLine1 t id, c.toNat < 128 ∧ c ≠ '<' ∧ c ≠ '&' ∧ c ≠ '\n' ∧ c ≠ Normalize.STX ∧
      c ≠ Normalize.ETX ∧ c ≠ '\r' ∧ c ≠ '\t' := by
    intro c hc
    have alnum : DocSpec.isAlnumSp c = true → c.toNat < 128 ∧ c ≠ '<' ∧ c ≠ '&' ∧ c ≠ '\n' ∧ c ≠ Normalize.STX ∧
        c ≠ Normalize.ETX ∧ c ≠ '\r' ∧ c ≠ '\t' := by
      intro h
      have f := alnumSp_quiet h
      refine ⟨f.2.2.2.2.2.2.2.2, f.2.2.2.2.1, f.2.2.2.1, f.2.1, ?_, ?_, ?_, ?_⟩ <;>
        (intro e; subst e; exact absurd h (by decide))
    rcases mem_fnLine1 hc with h | rfl | rfl | rfl | h
    · exact alnum (ht.chars c h)
    · decide
    · decide
    · decide
    · exact alnum (hid.plain.chars c h)
  refine ⟨?_, fun c hc => ⟨(hfacts c hc).1, (hfacts c hc).2.1, (hfacts c hc).2.2.1⟩⟩
  simp only [DocParse.lineSafe, Bool.and_eq_true, List.all_eq_true, Bool.or_eq_true, bne_iff_ne, ne_eq]
  refine ⟨fun c hc => ?_, Or.inr ?_⟩
  · have f := hfacts c hc
    exact ⟨⟨⟨⟨f.2.2.2.1, f.2.2.2.2.1⟩, f.2.2.2.2.2.1⟩, f.2.2.2.2.2.2.1⟩, f.2.2.2.2.2.2.2⟩
  · simp only [List.any_eq_true, bne_iff_ne, ne_eq]
    exact ⟨'[', by simp [fnLine1, fnRefSrc], by decide⟩

theorem safeLine_fnLine2 (id note : Str) (hid : WordFacts id) (hn : PlainFacts note) : SafeLine (fnLine2 id note) := by
  have hfacts : ∀ c ∈ fnLine2 id note, c.toNat < 128 ∧ c ≠ '<' ∧ c ≠ '&' ∧ c ≠ '\n' ∧ c ≠ Normalize.STX ∧
      c ≠ Normalize.ETX ∧ c ≠ '\r' ∧ c ≠ '\t' := by
    intro c hc
    have alnum : DocSpec.isAlnumSp c = true → c.toNat < 128 ∧ c ≠ '<' ∧ c ≠ '&' ∧ c ≠ '\n' ∧ c ≠ Normalize.STX ∧
        c ≠ Normalize.ETX ∧ c ≠ '\r' ∧ c ≠ '\t' := by
      intro h
      have f := alnumSp_quiet h
      refine ⟨f.2.2.2.2.2.2.2.2, f.2.2.2.2.1, f.2.2.2.1, f.2.1, ?_, ?_, ?_, ?_⟩ <;>
        (intro e; subst e; exact absurd h (by decide))
    rcases mem_fnLine2 hc with h | rfl | rfl | rfl | rfl | rfl | h
    · exact alnum (hn.chars c h)
    · decide
    · decide
    · decide
    · decide
    · decide
    · exact alnum (hid.plain.chars c h)
  refine ⟨?_, fun c hc => ⟨(hfacts c hc).1, (hfacts c hc).2.1, (hfacts c hc).2.2.1⟩⟩
  simp only [DocParse.lineSafe, Bool.and_eq_true, List.all_eq_true, Bool.or_eq_true, bne_iff_ne, ne_eq]
  refine ⟨fun c hc => ?_, Or.inr ?_⟩
  · have f := hfacts c hc
    exact ⟨⟨⟨⟨f.2.2.2.1, f.2.2.2.2.1⟩, f.2.2.2.2.2.1⟩, f.2.2.2.2.2.2.1⟩, f.2.2.2.2.2.2.2⟩
  · simp only [List.any_eq_true, bne_iff_ne, ne_eq]
    exact ⟨'[', by simp [fnLine2], by decide⟩

theorem refsOf_fn (id note : Str) : refsOf [(fnKey id, (note, none))] = [] := by
  simp [refsOf, isFnEntry, isAbEntry, fnKey, startsWith]

theorem convertX_fn (cfg : Pipeline.Cfg) (hbl : cfg.blockLevel = TreeProc.defaultBlockLevel) (htab : 0 < cfg.tab)
    (t id note : Str) (ht : PlainFacts t) (hid : WordFacts id) (hn : PlainFacts note) :
    PipelineX.convertX fx cfg (fnSrc t id note) = .ok (fnRaw cfg.fmt t id note "&#160;".toList "&#8617;".toList) := by
  -- the front
  obtain ⟨s1, s2, s3, _, s5⟩ := front_lines cfg.tab [fnLine1 t id, [], fnLine2 id note] (by simp)
    (by
      intro l hl
      simp only [List.mem_cons, List.mem_nil_iff, or_false] at hl
      rcases hl with rfl | rfl | rfl
      · exact safeLine_fnLine1 t id ht hid
      · exact ⟨by decide, by simp⟩
      · exact safeLine_fnLine2 id note hid hn)
    ⟨'[', by rw [← fnSrc_lines]; simp [fnSrc, DocParse.joinChunks, fnLine2], by decide⟩
  rw [← fnSrc_lines] at s1 s2 s3 s5
  -- the block stage and the footnote `div`
  have hblk := parseDocumentXT_fn fcfg rfl cfg.tab htab t id note ht hid hn
  have hmk := makeDiv_one fx rfl cfg htab id note hn
  have hslash : '/' ∉ fnLine1 t id := by
    intro hm
    rcases mem_fnLine1 hm with h | h | h | h | h
    · exact absurd (ht.chars _ h) (by decide)
    · exact absurd h (by decide)
    · exact absurd h (by decide)
    · exact absurd h (by decide)
    · exact absurd (hid.plain.chars _ h) (by decide)
  have hplace := placeDiv_one (fnLine1 t id) (fnDiv id note) hslash
  -- the inline stage
  have hrun := fun (ic : Inline.Cfg) => runX_fn ic t id note ht hid hn
  -- the tree stages
  have hdup := duplicates_fn t id note
  have hpre := prettify_fn t id note
  have hun := unescapeTree_fn t id note ht hid hn
  have hser := serialize_fn cfg.fmt t id note ht hid hn
  have hfin := finishX_fn cfg t id note ht.noStx hid.plain.noStx hn.noStx
  have hcfg : ({ admonition := false, defList := false, footnotes := true, abbr := false, saneLists := false } : XCfg) =
      fcfg := rfl
  simp only [PipelineX.convertX, s1, s2, PipelineX.Exts.unsupported, Bool.false_eq_true, if_false,
    PipelineX.treeX, PipelineX.prepareX, fx, s3, s5, Bool.false_and, PipelineX.Exts.blockCfg, hcfg, hblk, if_true,
    footnotesOf_one]
  rw [show ({ footnotes := true } : PipelineX.Exts) = fx from rfl, hmk]
  simp only [hplace, PipelineX.refsX, fx, Bool.true_or, if_true, refsOf_fn, List.map_cons, List.map_nil]
  rw [show ({ Node.el "div" with children := [mkText "p" (fnLine1 t id), fnDiv id note] } : Node) = fnDoc t id note from rfl]
  have hxc : ∀ ic : Inline.Cfg, (InlineX.XCfg.mk ic (InlineX.table true false false) [id]) = fnXc ic id := fun _ => rfl
  simp only [footnotesOf_one, List.map_cons, List.map_nil]
  rw [hxc, hrun]
  simp only [hdup, hbl, hpre, hun, hser]
  exact hfin

end MdVerif.RenderX
