/-
Lemmas for C05 on the extension model (`PipelineX.treeX`), well-formedness part 3c: **the root `div` keeps an empty
attribute list even when `attr_list` is on.**

`AttrListTree.run bl root = attrNode bl none root` visits the root too.  If `div` is block level in `bl` it applies
`blockRule (.name "div") [] root.text root.children`, which searches the tail of the LAST child (when truthy), else the
text of the root, for an attribute list at its end; otherwise it applies `INLINE_RE.match` to the root's own tail.
After `prettify` these strings are `"\n"` or falsy, and neither `BLOCK_RE.search("\n")` nor `INLINE_RE.match("\n")`
succeeds.  The chain:

* `placeDiv_NT`        footnote 50: `NT` (no top-level child has a truthy tail) is kept, text/tail of the root too
                       (needs: the footnote `div` has no truthy tail — `makeDiv_tail`);
* `duplicates_NT`      footnote-duplicate 15: every element keeps its tail and text (`duplicates_tails`), so `NT` is kept;
* `prettify_rootOK`    prettify 10: from `NT t`, `t.text`, `t.tail` falsy: `RootOK (prettify t bl)` — the text, the tail
                       and the tails of the top-level children are falsy or `"\n"`;
* `attrRun_root_attrs` attr_list 8: `t.tag = div`, `t.attrs = []`, `RootOK t` give `(AttrListTree.run bl t).attrs = []`.

Core Lean only.
-/
import MdVerif.Lemmas.VocabXWFTree
import MdVerif.Lemmas.VocabXWFBlock2

namespace MdVerif.VocabXWF
open Py

/-! ### footnote 50: `placeDiv` -/

section Place
open FootnotesTree

theorem placeNode_fields {div n n' : Node} (h : placeNode div n = some n') :
    n'.text = n.text ∧ n'.tail = n.tail ∧ placeKids div n.children = some n'.children := by
  obtain ⟨tag, attrs, text, ta, children, tail, tla⟩ := n
  simp only [placeNode] at h
  split at h
  · rename_i ks hk
    simp only [Option.some.injEq] at h; subst h
    exact ⟨rfl, rfl, hk⟩
  · cases h

theorem placeKids_NT {div : Node} (hd : Node.truthy div.tail = false) : ∀ (l l' : List Node),
    placeKids div l = some l' → (∀ c ∈ l, Node.truthy c.tail = false) → ∀ c ∈ l', Node.truthy c.tail = false := by
  intro l
  induction l with
  | nil => intro l' h; simp [placeKids] at h
  | cons c r ih =>
    intro l' h hl
    have hc := hl c List.mem_cons_self
    have hr : ∀ x ∈ r, Node.truthy x.tail = false := fun x hx => hl x (List.mem_cons_of_mem _ hx)
    have cons : ∀ {a : Node} {l : List Node}, Node.truthy a.tail = false → (∀ x ∈ l, Node.truthy x.tail = false) →
        ∀ x ∈ a :: l, Node.truthy x.tail = false := by
      intro a l ha hl x hx
      rcases List.mem_cons.1 hx with rfl | hx
      · exact ha
      · exact hl x hx
    simp only [placeKids] at h
    split at h
    · simp only [Option.some.injEq] at h; subst h
      exact cons hd hr
    · split at h
      · simp only [Option.some.injEq] at h; subst h
        exact cons rfl (cons hd hr)
      · split at h
        · rename_i c' hc'
          simp only [Option.some.injEq] at h; subst h
          exact cons (by rw [(placeNode_fields hc').2.1]; exact hc) hr
        · split at h
          · rename_i r' hr'
            simp only [Option.some.injEq] at h; subst h
            exact cons hc (ih r' hr' hr)
          · cases h

/-- **`FootnoteTreeprocessor.run`** keeps "no top-level child has a truthy tail", and the text and tail of the root -/
theorem placeDiv_NT {root div : Node} (hr : NT root) (hd : Node.truthy div.tail = false) :
    NT (placeDiv root div) ∧ (placeDiv root div).text = root.text ∧ (placeDiv root div).tail = root.tail := by
  unfold placeDiv
  split
  · rename_i r hp
    obtain ⟨h1, h2, h3⟩ := placeNode_fields hp
    exact ⟨placeKids_NT hd _ _ h3 hr, h1, h2⟩
  · exact ⟨NT_append hr hd, rfl, rfl⟩

/-- the footnote `div` has no tail -/
theorem makeDiv_tail {parse : Block.Refs → Str → Option (Node × Block.Refs)} {fnCount : Block.Refs → Nat}
    {fns : List (Str × Str)} {log : Block.Refs} {div : Node} {log' : Block.Refs}
    (h : makeDiv parse fnCount fns log = .ok (some div, log')) : div.tail = none := by
  unfold makeDiv at h
  split at h
  · cases h
  · split at h
    · simp only [R.ok.injEq, Prod.mk.injEq, Option.some.injEq] at h
      obtain ⟨rfl, _⟩ := h; rfl
    · cases h
    · cases h

end Place

/-! ### footnote-duplicate 15: every element keeps its text and tail -/

section Dup
open FootnotesTree

theorem dupLi_tail (fn : Footnotes.State) {li li' : Node} (h : dupLi fn li = some li') : li'.tail = li.tail := by
  unfold dupLi at h
  simp only at h
  split at h
  · cases h
  · split at h
    · split at h
      · simp only [Option.some.injEq] at h; subst h; rfl
      · split at h
        · cases h
        · split at h
          · simp only [Option.some.injEq] at h; subst h; rfl
          · cases h
    · simp only [Option.some.injEq] at h; subst h; rfl

theorem dupLis_tails (fn : Footnotes.State) : ∀ (l l' : List Node), dupLis fn l = some l' →
    l'.map Node.tail = l.map Node.tail := by
  intro l
  induction l with
  | nil => intro l' h; simp only [dupLis, Option.some.injEq] at h; subst h; rfl
  | cons c r ih =>
    intro l' h
    simp only [dupLis] at h
    split at h
    · rename_i c' r' e1 e2
      simp only [Option.some.injEq] at h; subst h
      simp only [List.map_cons, dupLi_tail fn e1, ih r' e2]
    · cases h

mutual
theorem dupFirstOl_tails (fn : Footnotes.State) : (n : Node) → (r : Node × Bool) → dupFirstOl fn n = some r →
    r.1.text = n.text ∧ r.1.tail = n.tail ∧ r.1.children.map Node.tail = n.children.map Node.tail
  | ⟨tag, attrs, text, ta, children, tail, tla⟩, r, h => by
    simp only [dupFirstOl] at h
    split at h
    · split at h
      · rename_i ks hks
        simp only [Option.some.injEq] at h; subst h
        exact ⟨rfl, rfl, dupLis_tails fn _ _ hks⟩
      · cases h
    · split at h
      · rename_i ks found hks
        simp only [Option.some.injEq] at h; subst h
        exact ⟨rfl, rfl, dupFirstOlKids_tails fn children (ks, found) hks⟩
      · cases h
theorem dupFirstOlKids_tails (fn : Footnotes.State) : (l : List Node) → (r : List Node × Bool) →
    dupFirstOlKids fn l = some r → r.1.map Node.tail = l.map Node.tail
  | [], r, h => by simp only [dupFirstOlKids, Option.some.injEq] at h; subst h; rfl
  | c :: rest, r, h => by
    simp only [dupFirstOlKids] at h
    split at h
    · cases h
    · rename_i c' hc'
      simp only [Option.some.injEq] at h; subst h
      have e : c'.tail = c.tail := (dupFirstOl_tails fn c (c', true) hc').2.1
      simp only [List.map_cons, e]
    · rename_i c' hc'
      split at h
      · rename_i r' found hr'
        simp only [Option.some.injEq] at h; subst h
        have e : c'.tail = c.tail := (dupFirstOl_tails fn c (c', false) hc').2.1
        have e2 : r'.map Node.tail = rest.map Node.tail := dupFirstOlKids_tails fn rest (r', found) hr'
        simp only [List.map_cons, e, e2]
      · cases h
end

mutual
/-- `FootnotePostTreeprocessor` changes no text and no tail (of the element, of its children) -/
theorem duplicates_tails (fn : Footnotes.State) : (n n' : Node) → duplicates fn n = some n' →
    n'.text = n.text ∧ n'.tail = n.tail ∧ n'.children.map Node.tail = n.children.map Node.tail
  | ⟨tag, attrs, text, ta, children, tail, tla⟩, n', h => by
    simp only [duplicates] at h
    split at h
    · cases h
    · rename_i ks hks
      have hks' := duplicatesKids_tails fn children ks hks
      split at h
      · simp only [Option.map_eq_some_iff] at h
        obtain ⟨r, hr, rfl⟩ := h
        have := dupFirstOl_tails fn ⟨tag, attrs, text, ta, ks, tail, tla⟩ r hr
        exact ⟨this.1, this.2.1, this.2.2.trans hks'⟩
      · simp only [Option.some.injEq] at h; subst h; exact ⟨rfl, rfl, hks'⟩
theorem duplicatesKids_tails (fn : Footnotes.State) : (l l' : List Node) → duplicatesKids fn l = some l' →
    l'.map Node.tail = l.map Node.tail
  | [], l', h => by simp only [duplicatesKids, Option.some.injEq] at h; subst h; rfl
  | c :: r, l', h => by
    simp only [duplicatesKids] at h
    split at h
    · rename_i c' r' e1 e2
      simp only [Option.some.injEq] at h; subst h
      have e : c'.tail = c.tail := (duplicates_tails fn c c' e1).2.1
      have e2 : r'.map Node.tail = r.map Node.tail := duplicatesKids_tails fn r r' e2
      simp only [List.map_cons, e, e2]
    · cases h
end

/-- **`FootnotePostTreeprocessor`** keeps `NT` and the text and tail of the root (no hypothesis on the attributes of
    the root is needed: also a `div.footnote` keeps the tails of its children) -/
theorem duplicates_NT (fn : Footnotes.State) {t t' : Node} (h : duplicates fn t = some t') (hn : NT t) :
    NT t' ∧ t'.text = t.text ∧ t'.tail = t.tail := by
  obtain ⟨h1, h2, h3⟩ := duplicates_tails fn t t' h
  refine ⟨?_, h1, h2⟩
  intro c hc
  have : c.tail ∈ t'.children.map Node.tail := List.mem_map_of_mem hc
  rw [h3] at this
  obtain ⟨y, hy, e⟩ := List.mem_map.1 this
  rw [← e]; exact hn y hy

end Dup

/-! ### prettify 10 -/

section Prettify
open TreeProc

/-- a text / tail that `attr_list` cannot match: falsy or a single line feed -/
def NLo (t : Option Str) : Prop := Node.truthy t = false ∨ t = some ['\n']

/-- the root after `prettify`: its text, its tail and the tails of its children are falsy or `"\n"` -/
def RootOK (t : Node) : Prop := NLo t.text ∧ NLo t.tail ∧ ∀ c ∈ t.children, NLo c.tail

theorem blankOrNone_NLo {t : Option Str} (h : NLo t) : blankOrNone t = true := by
  rcases h with h | h
  · simp [blankOrNone, h]
  · subst h; decide

theorem NLo_ite (c : Bool) {t : Option Str} (h : NLo t) : NLo (if c = true then some ['\n'] else t) := by
  cases c
  · exact h
  · exact Or.inr rfl

theorem prettifyETree_tail (bl : List Str) {n : Node} (h : NLo n.tail) : (prettifyETree bl n).tail = some ['\n'] := by
  obtain ⟨tag, attrs, text, ta, children, tail, tla⟩ := n
  unfold prettifyETree
  simp only [blankOrNone_NLo h, if_true]

theorem prettifyKids_tails (bl : List Str) : ∀ (l : List Node), (∀ c ∈ l, NLo c.tail) →
    ∀ c ∈ prettifyKids bl l, NLo c.tail := by
  intro l
  induction l with
  | nil => intro _ c hc; simp [prettifyKids] at hc
  | cons a r ih =>
    intro h c hc
    simp only [prettifyKids, List.mem_cons] at hc
    rcases hc with rfl | hc
    · split
      · exact Or.inr (prettifyETree_tail bl (h a List.mem_cons_self))
      · exact h a List.mem_cons_self
    · exact ih (fun x hx => h x (List.mem_cons_of_mem _ hx)) c hc

theorem prettifyETree_rootOK (bl : List Str) {n : Node} (h : RootOK n) : RootOK (prettifyETree bl n) := by
  obtain ⟨tag, attrs, text, ta, children, tail, tla⟩ := n
  obtain ⟨h1, h2, h3⟩ := h
  refine ⟨?_, Or.inr (prettifyETree_tail bl h2), ?_⟩
  · unfold prettifyETree
    dsimp only
    exact NLo_ite _ h1
  · unfold prettifyETree
    dsimp only
    split
    · exact prettifyKids_tails bl children h3
    · exact h3

/-- what `brRule` / `preRule` do to the strings: the text is kept, a tail stays falsy-or-`"\n"`, the children keep
    their tails -/
structure TailRule (f : Node → Node) : Prop where
  text : ∀ n, (f n).text = n.text
  tail : ∀ n, NLo n.tail → NLo (f n).tail
  kids : ∀ n, ∀ x ∈ (f n).children, ∃ y ∈ n.children, x.tail = y.tail

theorem mapKids_mem (f : Node → Node) : ∀ (l : List Node), ∀ x ∈ mapKids f l, ∃ c ∈ l, x = mapTree f c := by
  intro l
  induction l with
  | nil => intro x hx; simp [mapKids] at hx
  | cons a r ih =>
    intro x hx
    simp only [mapKids, List.mem_cons] at hx
    rcases hx with rfl | hx
    · exact ⟨a, List.mem_cons_self, rfl⟩
    · obtain ⟨c, hc, e⟩ := ih x hx
      exact ⟨c, List.mem_cons_of_mem _ hc, e⟩

theorem mapTree_tail {f : Node → Node} (hf : TailRule f) {n : Node} (h : NLo n.tail) : NLo (mapTree f n).tail := by
  obtain ⟨tag, attrs, text, ta, children, tail, tla⟩ := n
  unfold mapTree
  exact hf.tail _ h

theorem mapTree_rootOK {f : Node → Node} (hf : TailRule f) {n : Node} (h : RootOK n) : RootOK (mapTree f n) := by
  refine ⟨?_, mapTree_tail hf h.2.1, ?_⟩
  · obtain ⟨tag, attrs, text, ta, children, tail, tla⟩ := n
    unfold mapTree
    rw [hf.text]; exact h.1
  · obtain ⟨tag, attrs, text, ta, children, tail, tla⟩ := n
    unfold mapTree
    intro x hx
    obtain ⟨y, hy, e⟩ := hf.kids _ x hx
    obtain ⟨c, hc, e'⟩ := mapKids_mem f children y hy
    rw [e, e']
    exact mapTree_tail hf (h.2.2 c hc)

theorem brRule_tailRule : TailRule brRule where
  text n := by
    unfold brRule
    split
    · split <;> rfl
    · rfl
  tail n h := by
    unfold brRule
    split
    · rw [if_pos (blankOrNone_NLo h)]; exact Or.inr rfl
    · exact h
  kids n x hx := by
    refine ⟨x, ?_, rfl⟩
    unfold brRule at hx
    split at hx
    · split at hx <;> exact hx
    · exact hx

theorem preRule_tailRule : TailRule preRule where
  text n := by
    unfold preRule
    split
    · split
      · split
        · split <;> rfl
        · rfl
      · rfl
    · rfl
  tail n h := by
    have : (preRule n).tail = n.tail := by
      unfold preRule
      split
      · split
        · split
          · split <;> rfl
          · rfl
        · rfl
      · rfl
    rw [this]; exact h
  kids n x hx := by
    unfold preRule at hx
    split at hx
    · split at hx
      · rename_i code rest hch
        split at hx
        · split at hx
          · simp only [List.mem_cons] at hx
            rcases hx with rfl | hx
            · exact ⟨code, by rw [hch]; exact List.mem_cons_self, rfl⟩
            · exact ⟨x, by rw [hch]; exact List.mem_cons_of_mem _ hx, rfl⟩
          · exact ⟨x, hx, rfl⟩
        · exact ⟨x, hx, rfl⟩
      · exact ⟨x, hx, rfl⟩
    · exact ⟨x, hx, rfl⟩

theorem RootOK_of_NT {t : Node} (hnt : NT t) (htx : Node.truthy t.text = false) (htl : Node.truthy t.tail = false) :
    RootOK t := ⟨Or.inl htx, Or.inl htl, fun c hc => Or.inl (hnt c hc)⟩

/-- `RootOK` is kept by `prettify` -/
theorem prettify_rootOK' {t : Node} (h : RootOK t) (bl : List Str) : RootOK (prettify t bl) := by
  unfold prettify
  exact mapTree_rootOK preRule_tailRule (mapTree_rootOK brRule_tailRule (prettifyETree_rootOK bl h))

/-- **`PrettifyTreeprocessor`**: from "no top-level child has a truthy tail, the root has no truthy text and tail" to
    `RootOK` -/
theorem prettify_rootOK {t : Node} (hnt : NT t) (htx : Node.truthy t.text = false) (htl : Node.truthy t.tail = false)
    (bl : List Str) : RootOK (prettify t bl) := prettify_rootOK' (RootOK_of_NT hnt htx htl) bl

end Prettify

/-! ### attr_list 8: the root -/

section AttrListS
open AttrList AttrListTree

theorem blockApply_nl : ∀ header hashes : Bool, blockApply header hashes [] ['\n'] = ([], ['\n']) := by decide

theorem inlineMatch_nl : inlineMatch ['\n'] = none := by decide

theorem NLo_truthy {t : Option Str} (h : NLo t) (ht : Node.truthy t = true) : t = some ['\n'] := by
  rcases h with h | h
  · rw [h] at ht; cases ht
  · exact h

/-- `blockRule` on the root `div` without attributes: nothing is assigned -/
theorem blockRule_div_nil {text : Option Str} {children : List Node} (ht : NLo text)
    (hk : ∀ c ∈ children, NLo c.tail) : (blockRule (.name "div".toList) [] text children).1 = [] := by
  have hlast : NLo (children.getLast?.bind (·.tail)) := by
    cases hl : children.getLast? with
    | none => exact Or.inl rfl
    | some c => exact hk c (List.mem_of_getLast? hl)
  have hTail : ∀ (header hashes : Bool) (i : Nat),
      Node.truthy (children.getLast?.bind (·.tail)) = true →
      (if (blockApply header hashes [] ((children.getLast?.bind (·.tail)).getD [])).2 =
            (children.getLast?.bind (·.tail)).getD [] then
          ((blockApply header hashes [] ((children.getLast?.bind (·.tail)).getD [])).1, (none : Option Str),
            (none : Option (Nat × Str)))
        else ((blockApply header hashes [] ((children.getLast?.bind (·.tail)).getD [])).1, none,
            some (i, (blockApply header hashes [] ((children.getLast?.bind (·.tail)).getD [])).2))).1 = [] := by
    intro header hashes i htr
    rw [NLo_truthy hlast htr]
    simp only [Option.getD_some, blockApply_nl, if_true]
  have hText : ∀ (header hashes : Bool),
      (if Node.truthy text = true then
          (if (blockApply header hashes [] (text.getD [])).2 = text.getD [] then
            ((blockApply header hashes [] (text.getD [])).1, (none : Option Str), (none : Option (Nat × Str)))
           else ((blockApply header hashes [] (text.getD [])).1, some (blockApply header hashes [] (text.getD [])).2, none))
        else (([] : Attrs), none, none)).1 = [] := by
    intro header hashes
    split
    · rename_i htr
      rw [NLo_truthy ht htr]
      simp only [Option.getD_some, blockApply_nl, if_true]
    · rfl
  have hli : (Tag.name "div".toList == Tag.name "li".toList) = false := by decide
  unfold blockRule
  dsimp only
  rw [hli]
  simp only [Bool.and_false, Bool.false_eq_true, if_false]
  split
  · rename_i hc
    simp only [Bool.and_eq_true] at hc
    exact hTail _ _ _ hc.2
  · exact hText _ _

/-- **`AttrListTreeprocessor` on the root**: a `div` without attributes whose text, tail and top-level tails are
    falsy or `"\n"` keeps an empty attribute list, whether or not `div` is block level in `bl` -/
theorem attrRun_root_attrs (bl : List Str) {t : Node} (htag : t.tag = .name "div".toList) (hattrs : t.attrs = [])
    (h : RootOK t) : (AttrListTree.run bl t).attrs = [] := by
  obtain ⟨tag, attrs, text, ta, children, tail, tla⟩ := t
  simp only at htag hattrs
  subst htag; subst hattrs
  obtain ⟨h1, h2, h3⟩ := h
  unfold AttrListTree.run attrNode
  dsimp only
  split
  · exact blockRule_div_nil h1 h3
  · split
    · rename_i htr
      have : tail = some ['\n'] := NLo_truthy h2 htr
      subst this
      simp only [Option.getD_some, inlineMatch_nl]
    · rfl

end AttrListS

end MdVerif.VocabXWF
