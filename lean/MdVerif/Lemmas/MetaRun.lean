/-
Lemmas about `Meta.run` (`Model/Ext/Meta.lean`): the four recognisers on the lines of a documented header
(`Spec/MetaHeader.lean`), the loop over a header, the loop on a first line that is no meta data.  Core Lean only.
-/
import MdVerif.Model.Ext.Meta
import MdVerif.Spec.MetaHeader
import MdVerif.Lemmas.PyBasic

namespace MdVerif.MetaRun
open Py Meta MetaSpec

/-! ### character facts -/

theorem ofAscii (P : Char → Prop) (h : ∀ n, n < 128 → P (Char.ofNat n)) (c : Char) (hc : c.toNat < 128) : P c := by
  have := h c.toNat hc
  rwa [Char.ofNat_toNat] at this

theorem isKeyChar_ascii {c : Char} (h : isKeyChar c = true) : c.toNat < 128 := by
  simp only [isKeyChar, isAsciiAlnum, isAsciiAlpha, isAsciiLower, isAsciiUpper, isAsciiDigit, Bool.or_eq_true,
    Bool.and_eq_true, decide_eq_true_eq] at h
  rcases h with ((((h | h) | h) | h) | h)
  · exact Nat.lt_of_le_of_lt (show c.toNat ≤ 'z'.toNat from h.2) (by decide)
  · exact Nat.lt_of_le_of_lt (show c.toNat ≤ 'Z'.toNat from h.2) (by decide)
  · exact Nat.lt_of_le_of_lt (show c.toNat ≤ '9'.toNat from h.2) (by decide)
  · subst h; decide
  · subst h; decide

theorem keyChar_spec : ∀ n, n < 128 → isKeyChar (Char.ofNat n) = true →
    isSpace (Char.ofNat n) = false ∧ Char.ofNat n ≠ ' ' ∧ Char.ofNat n ≠ ':' ∧
    (∀ d ∈ lowerChar (Char.ofNat n), isSpace d = false) := by
  decide

theorem keyChar_facts {c : Char} (h : isKeyChar c = true) :
    isSpace c = false ∧ c ≠ ' ' ∧ c ≠ ':' ∧ (∀ d ∈ lowerChar c, isSpace d = false) :=
  ofAscii (fun c => isKeyChar c = true → isSpace c = false ∧ c ≠ ' ' ∧ c ≠ ':' ∧ (∀ d ∈ lowerChar c, isSpace d = false))
    keyChar_spec c (isKeyChar_ascii h) h

/-- `.strip()` does nothing to a lower-cased keyword -/
theorem strip_lower_key {key : Str} (hk : key.all isKeyChar = true) : strip (lower key) = lower key := by
  have hall : ∀ d ∈ lower key, isSpace d = false := by
    intro d hd
    simp only [lower, List.mem_flatMap] at hd
    obtain ⟨c, hc, hd⟩ := hd
    exact (keyChar_facts (List.all_eq_true.1 hk c hc)).2.2.2 d hd
  exact strip_eq_self (fun c hc => hall c (List.mem_of_mem_head? hc)) (fun c hc => hall c (List.mem_of_mem_getLast? hc))

/-! ### `toEol`, `strip` -/

theorem toEol_of_no_nl {s : Str} (h : '\n' ∉ s) : toEol s = s := by
  unfold toEol
  induction s with
  | nil => rfl
  | cons c s ih =>
    have hc : c ≠ '\n' := fun e => h (e ▸ List.mem_cons_self)
    have ih' := ih (fun hm => h (List.mem_cons_of_mem _ hm))
    rw [List.takeWhile_cons]
    simp only [ne_eq, hc, not_false_eq_true, decide_true, if_true]
    rw [ih']

theorem strip_lstripP {p : Char → Bool} (hp : ∀ c, p c = true → isSpace c = true) (s : Str) :
    strip (lstripP p s) = strip s := by
  obtain ⟨w, hw, hall⟩ := lstripP_decomp p s
  have hb : isBlank w = true := by
    rw [isBlank_iff]; intro c hc; exact hp c (List.all_eq_true.1 hall c hc)
  have := strip_append_of_blank hb (isBlank_nil) (lstripP p s)
  simp only [List.append_nil] at this
  rw [← this, ← hw]

theorem not_mem_suffix {c : Char} {s t : Str} (h : c ∉ s) (ht : t <:+ s) : c ∉ t :=
  fun hm => h (ht.subset hm)

/-- the recorded value of a keyword line -/
theorem strip_toEol_lstrip {raw : Str} (h : '\n' ∉ raw) : strip (toEol (lstrip raw)) = strip raw := by
  rw [toEol_of_no_nl (not_mem_suffix h (lstrip_suffix raw))]
  exact strip_lstripP (fun _ h => h) raw

/-- the recorded value of an additional line -/
theorem strip_toEol_dropSpaces {v : Str} (h : '\n' ∉ v) : strip (toEol (lstripP (· = ' ') v)) = strip v := by
  rw [toEol_of_no_nl (not_mem_suffix h (lstripP_suffix _ v))]
  exact strip_lstripP (fun c hc => by simp at hc; subst hc; decide) v

/-! ### the recognisers on the lines of a header -/

theorem spanLen_replicate_append (p : Char → Bool) (c : Char) (hc : p c = true) (n : Nat) (s : Str) :
    spanLen p (List.replicate n c ++ s) = n + spanLen p s := by
  have := spanLen_append_of_all (p := p) (x := List.replicate n c) (by simp [hc]) s
  simpa using this

theorem spanLen_zero_of_head {p : Char → Bool} {s : Str} (h : ∀ c, s.head? = some c → p c = false) : spanLen p s = 0 := by
  cases s with
  | nil => rfl
  | cons c s => simp [spanLen_cons, h c rfl]

/-- `META_RE` on a keyword line -/
theorem metaMatch_keyLine {i : Nat} {key : Str} (raw : Str) (hi : i ≤ 3) (hne : key ≠ [])
    (hk : key.all isKeyChar = true) :
    metaMatch (List.replicate i ' ' ++ key ++ ':' :: raw) = some (key, toEol (lstrip raw)) := by
  have hsp : spanLen (· = ' ') (key ++ ':' :: raw) = 0 := by
    apply spanLen_zero_of_head
    intro c hc
    cases key with
    | nil => exact absurd rfl hne
    | cons k ks =>
      simp only [List.cons_append, List.head?_cons, Option.some.injEq] at hc
      subst hc
      have := (keyChar_facts (c := k) (by simpa using (List.all_eq_true.1 hk k List.mem_cons_self))).2.1
      simpa using this
  have hcp : countPrefix ' ' (some 3) (List.replicate i ' ' ++ key ++ ':' :: raw) = i := by
    rw [countPrefix_some, List.append_assoc, spanLen_replicate_append _ _ (by simp), hsp]; omega
  have hkl : spanLen isKeyChar (key ++ ':' :: raw) = key.length := by
    rw [spanLen_append_of_all hk, spanLen_cons]; simp [isKeyChar, isAsciiAlnum, isAsciiAlpha, isAsciiLower, isAsciiUpper, isAsciiDigit]
  have hpos : key.length ≠ 0 := by cases key <;> simp_all
  unfold metaMatch
  simp only [hcp]
  have hd : (List.replicate i ' ' ++ key ++ ':' :: raw).drop i = key ++ ':' :: raw := by
    rw [List.append_assoc, List.drop_append]; simp
  rw [hd, hkl]
  simp [hpos]

/-- `META_RE` does not match a line indented by four blanks or more -/
theorem metaMatch_cont {n : Nat} (v : Str) (hn : 4 ≤ n) : metaMatch (List.replicate n ' ' ++ v) = none := by
  obtain ⟨m, rfl⟩ : ∃ m, n = 3 + (1 + m) := ⟨n - 4, by omega⟩
  have hcp : countPrefix ' ' (some 3) (List.replicate (3 + (1 + m)) ' ' ++ v) = 3 := by
    rw [countPrefix_some, spanLen_replicate_append _ _ (by simp)]; omega
  unfold metaMatch
  simp only [hcp]
  have hd : (List.replicate (3 + (1 + m)) ' ' ++ v).drop 3 = ' ' :: (List.replicate m ' ' ++ v) := by
    rw [← List.replicate_append_replicate, List.append_assoc, List.drop_append]
    simp [Nat.add_comm 1 m, List.replicate_succ]
  rw [hd, spanLen_cons]
  simp [isKeyChar, isAsciiAlnum, isAsciiAlpha, isAsciiLower, isAsciiUpper, isAsciiDigit]

/-- `META_MORE_RE` on a line indented by four blanks or more -/
theorem moreMatch_cont {n : Nat} (v : Str) (hn : 4 ≤ n) :
    moreMatch (List.replicate n ' ' ++ v) = some (toEol (lstripP (· = ' ') v)) := by
  unfold moreMatch
  have h1 : spanLen (· = ' ') (List.replicate n ' ' ++ v) = n + spanLen (· = ' ') v :=
    spanLen_replicate_append _ _ (by simp) n v
  have h2 : (List.replicate n ' ' ++ v).drop (n + spanLen (· = ' ') v) = lstripP (· = ' ') v := by
    rw [List.drop_append]; simp [lstripP_eq_drop_spanLen]
  simp only [h1, h2]
  have : ¬ (n + spanLen (fun x => decide (x = ' ')) v < 4) := by omega
  simp [this]

theorem endMatch_of_head {s : Str} (h : ∀ c, s.head? = some c → c ≠ '-' ∧ c ≠ '.') : endMatch s = false := by
  cases s with
  | nil => rfl
  | cons c s =>
    have := h c rfl
    simp [endMatch, startsWith, this.1, this.2]

theorem beginMatch_endMatch {s : Str} (h : beginMatch s = true) : endMatch s = true := by
  simp only [beginMatch, Bool.and_eq_true] at h; simp [endMatch, h.1, h.2]

theorem endMatch_cont {n : Nat} (v : Str) (hn : 4 ≤ n) : endMatch (List.replicate n ' ' ++ v) = false := by
  obtain ⟨m, rfl⟩ : ∃ m, n = m + 1 := ⟨n - 1, by omega⟩
  apply endMatch_of_head
  intro c hc
  simp [List.replicate_succ] at hc
  subst hc; decide

/-- a keyword line is not an end deliminator: after `---` comes a keyword character or the colon, no white space -/
theorem endMatch_keyLine {i : Nat} {key : Str} (raw : Str) (hne : key ≠ []) (hk : key.all isKeyChar = true) :
    endMatch (List.replicate i ' ' ++ key ++ ':' :: raw) = false := by
  cases i with
  | succ m =>
    apply endMatch_of_head
    intro c hc
    simp [List.replicate_succ] at hc
    subst hc; decide
  | zero =>
    have hdot : ∀ c ∈ key, c ≠ '.' ∧ isSpace c = false := by
      intro c hc
      have hk' := List.all_eq_true.1 hk c hc
      exact ⟨fun e => by subst e; exact absurd hk' (by decide), (keyChar_facts hk').1⟩
    simp only [List.replicate_zero, List.nil_append]
    match key, hne, hdot with
    | [a], _, hd =>
      have := (hd a (by simp)).1
      simp [endMatch, startsWith, this]
    | [a, b], _, hd =>
      have := (hd a (by simp)).1
      simp [endMatch, startsWith, this]
    | [a, b, c], _, hd =>
      have := (hd a (by simp)).1
      simp [endMatch, startsWith, this, tailOk, show isSpace ':' = false by decide]
    | a :: b :: c :: d :: r, _, hd =>
      have h1 := (hd a (by simp)).1
      have h2 := (hd d (by simp)).2
      simp [endMatch, startsWith, h1, tailOk, h2]

theorem isBlank_keyLine {i : Nat} {key : Str} (raw : Str) (hne : key ≠ []) (hk : key.all isKeyChar = true) :
    isBlank (List.replicate i ' ' ++ key ++ ':' :: raw) = false := by
  cases key with
  | nil => exact absurd rfl hne
  | cons k ks =>
    have hk' : isKeyChar k = true := List.all_eq_true.1 hk k List.mem_cons_self
    simp [isBlank, (keyChar_facts hk').1]

theorem isBlank_cont {n : Nat} {v : Str} (hv : isBlank v = false) : isBlank (List.replicate n ' ' ++ v) = false := by
  simp [isBlank_append, hv]

/-! ### the dictionary -/

theorem addValue_eq_insertValues (key v : Str) (d : Dict) : addValue key v d = insertValues key [v] d := by
  induction d with
  | nil => rfl
  | cons kv r ih => obtain ⟨k, vs⟩ := kv; simp [addValue, insertValues, ih]

theorem addValue_insertValues (key w : Str) (vals : List Str) (d : Dict) :
    addValue key w (insertValues key vals d) = insertValues key (vals ++ [w]) d := by
  induction d with
  | nil => simp [insertValues, addValue]
  | cons kv r ih =>
    obtain ⟨k, vs⟩ := kv
    by_cases h : k = key
    · simp [insertValues, addValue, h]
    · simp [insertValues, addValue, h, ih]

theorem foldl_addValue (key : Str) (vals ws : List Str) (d : Dict) :
    ws.foldl (fun d w => addValue key w d) (insertValues key vals d) = insertValues key (vals ++ ws) d := by
  induction ws generalizing vals with
  | nil => simp
  | cons w ws ih => rw [List.foldl_cons, addValue_insertValues, ih]; simp

/-! ### the loop over a header -/

theorem loop_cons (line : Str) (rest : List Str) (bg : Bool) (key : Option Str) (d : Dict) :
    loop (line :: rest) bg key d =
      if isBlank line || (endMatch line && (bg || key.isSome)) then (rest, d)
      else match metaMatch line with
        | some (k, v) => loop rest bg (some (strip (lower k))) (addValue (strip (lower k)) (strip v) d)
        | none =>
          match moreMatch line, key with
          | some v, some k => loop rest bg key (addValue k (strip v) d)
          | _, _ => (line :: rest, d) := rfl

theorem loop_keyLine {i : Nat} {key : Str} (raw : Str) (rest : List Str) (bg : Bool) (k0 : Option Str) (d : Dict)
    (hi : i ≤ 3) (hne : key ≠ []) (hk : key.all isKeyChar = true) (hraw : '\n' ∉ raw) :
    loop ((List.replicate i ' ' ++ key ++ ':' :: raw) :: rest) bg k0 d =
      loop rest bg (some (lower key)) (addValue (lower key) (strip raw) d) := by
  rw [loop_cons]
  simp only [isBlank_keyLine raw hne hk, endMatch_keyLine raw hne hk, Bool.false_and, Bool.or_self, Bool.false_eq_true,
    if_false, metaMatch_keyLine raw hi hne hk, strip_lower_key hk, strip_toEol_lstrip hraw]

theorem loop_contLine {n : Nat} {v : Str} (rest : List Str) (bg : Bool) (k : Str) (d : Dict)
    (hn : 4 ≤ n) (hv : isBlank v = false) (hnl : '\n' ∉ v) :
    loop ((List.replicate n ' ' ++ v) :: rest) bg (some k) d = loop rest bg (some k) (addValue k (strip v) d) := by
  rw [loop_cons]
  simp only [isBlank_cont hv, endMatch_cont v hn, Bool.false_and, Bool.or_self, Bool.false_eq_true, if_false,
    metaMatch_cont v hn, moreMatch_cont v hn, strip_toEol_dropSpaces hnl]

theorem loop_conts (conts : List (Nat × Str)) (rest : List Str) (bg : Bool) (k : Str) (d : Dict)
    (h : conts.all (fun c => decide (4 ≤ c.1) && !decide ('\n' ∈ c.2) && !isBlank c.2) = true) :
    loop (conts.map contLine ++ rest) bg (some k) d =
      loop rest bg (some k) ((conts.map (fun c => strip c.2)).foldl (fun d w => addValue k w d) d) := by
  induction conts generalizing d with
  | nil => rfl
  | cons c cs ih =>
    simp only [List.all_cons, Bool.and_eq_true, decide_eq_true_eq, Bool.not_eq_true',
      decide_eq_false_iff_not] at h
    obtain ⟨⟨⟨h1, h2⟩, h3⟩, h4⟩ := h
    simp only [List.map_cons, List.cons_append, contLine, List.foldl_cons]
    rw [loop_contLine _ _ _ _ h1 h3 h2]
    exact ih _ (by simpa [List.all_eq_true] using h4)

theorem loop_entry (e : Entry) (rest : List Str) (bg : Bool) (k0 : Option Str) (d : Dict) (he : e.ok = true) :
    loop (e.lines ++ rest) bg k0 d = loop rest bg (some (lower e.key)) (insertValues (lower e.key) e.values d) := by
  simp only [Entry.ok, Bool.and_eq_true, decide_eq_true_eq, Bool.not_eq_true', List.contains_eq_mem,
    decide_eq_false_iff_not] at he
  obtain ⟨⟨⟨⟨h1, h2⟩, h3⟩, h5⟩, h6⟩ := he
  have hne : e.key ≠ [] := by intro h; simp [h] at h2
  simp only [Entry.lines, List.cons_append]
  rw [loop_keyLine _ _ _ _ _ h1 hne h3 h5, loop_conts _ _ _ _ _ h6, addValue_eq_insertValues, foldl_addValue]
  rfl

/-- the current key after the entries -/
def lastKey (k0 : Option Str) (es : List Entry) : Option Str := es.foldl (fun _ e => some (lower e.key)) k0

theorem lastKey_isSome (k0 : Option Str) (es : List Entry) (h : es ≠ []) : (lastKey k0 es).isSome = true := by
  induction es generalizing k0 with
  | nil => exact absurd rfl h
  | cons e es ih =>
    cases es with
    | nil => rfl
    | cons e' es' => exact ih (some (lower e.key)) (by simp)

theorem loop_entries (es : List Entry) (rest : List Str) (bg : Bool) (k0 : Option Str) (d : Dict)
    (hes : ∀ e ∈ es, e.ok = true) :
    loop (es.flatMap Entry.lines ++ rest) bg k0 d =
      loop rest bg (lastKey k0 es) (es.foldl (fun d e => insertValues (lower e.key) e.values d) d) := by
  induction es generalizing k0 d with
  | nil => rfl
  | cons e es ih =>
    simp only [List.flatMap_cons, List.append_assoc, List.foldl_cons, lastKey]
    rw [loop_entry e _ _ _ _ (hes e List.mem_cons_self)]
    exact ih _ _ (fun e' he' => hes e' (List.mem_cons_of_mem _ he'))

theorem loop_terminator (term : Str) (body : List Str) (bg : Bool) (k : Option Str) (d : Dict)
    (ht : isBlank term = true ∨ (endMatch term = true ∧ (bg = true ∨ k.isSome = true))) :
    loop (term :: body) bg k d = (body, d) := by
  rw [loop_cons]
  have : (isBlank term || (endMatch term && (bg || k.isSome))) = true := by
    rcases ht with h | ⟨h, h' | h'⟩
    · simp [h]
    · simp [h, h']
    · simp [h, h']
  simp [this]

/-- the first line of a well-formed entry does not open a YAML header -/
theorem beginMatch_entry (e : Entry) (rest : List Str) (he : e.ok = true) :
    ∃ l r, e.lines ++ rest = l :: r ∧ beginMatch l = false := by
  simp only [Entry.ok, Bool.and_eq_true, decide_eq_true_eq, Bool.not_eq_true', List.contains_eq_mem,
    decide_eq_false_iff_not] at he
  obtain ⟨⟨⟨⟨_, h2⟩, h3⟩, _⟩, _⟩ := he
  have hne : e.key ≠ [] := by intro h; simp [h] at h2
  refine ⟨_, _, rfl, ?_⟩
  cases hb : beginMatch (List.replicate e.indent ' ' ++ e.key ++ ':' :: e.raw) with
  | false => rfl
  | true => exact absurd (beginMatch_endMatch hb) (by rw [endMatch_keyLine _ hne h3]; decide)

/-- `Meta.run` on a documented header followed by a terminator line and a body -/
theorem run_header (open_ : Option Str) (es : List Entry) (term : Str) (body : List Str)
    (ho : ∀ b, open_ = some b → beginMatch b = true) (hne : es ≠ []) (hes : ∀ e ∈ es, e.ok = true)
    (ht : isBlank term = true ∨ endMatch term = true) :
    run (headerLines open_ es ++ term :: body) = (body, specDict es) := by
  have key : ∀ bg, loop (es.flatMap Entry.lines ++ term :: body) bg none [] = (body, specDict es) := by
    intro bg
    rw [loop_entries es (term :: body) bg none [] hes, loop_terminator _ _ _ _ _
      (ht.imp id (fun h => ⟨h, Or.inr (lastKey_isSome none es hne)⟩))]
    rfl
  cases open_ with
  | some b =>
    simp only [headerLines, Option.toList_some, List.cons_append, List.nil_append, run, ho b rfl, if_true]
    exact key true
  | none =>
    simp only [headerLines, Option.toList_none, List.nil_append]
    cases es with
    | nil => exact absurd rfl hne
    | cons e es' =>
      obtain ⟨l, r, hlr, hb⟩ := beginMatch_entry e (es'.flatMap Entry.lines ++ term :: body) (hes e List.mem_cons_self)
      have hshape : (e :: es').flatMap Entry.lines ++ term :: body = l :: r := by
        simp only [List.flatMap_cons, List.append_assoc]; exact hlr
      have key' := key false
      rw [hshape] at key' ⊢
      simp only [run, hb, Bool.false_eq_true, if_false]
      exact key'

/-! ### a first line that is no meta data -/

/-- the first line is neither blank, nor the opening deliminator (`---` alone or followed by white space), nor a keyword
    line.  (Before the repair of F-C16-3: "nor any line starting with `---` or `...`".) -/
def notMetaStart (l : Str) : Bool := !isBlank l && !beginMatch l && (metaMatch l).isNone

theorem run_inert (l : Str) (r : List Str) (h : notMetaStart l = true) : run (l :: r) = (l :: r, []) := by
  simp only [notMetaStart, Bool.and_eq_true, Bool.not_eq_true', Option.isNone_iff_eq_none] at h
  obtain ⟨⟨h1, hb⟩, h3⟩ := h
  simp only [run, hb, Bool.false_eq_true, if_false]
  rw [loop_cons]
  simp only [h1, Option.isSome_none, Bool.or_self, Bool.and_false, Bool.false_eq_true, if_false, h3]
  cases moreMatch l <;> rfl

/-- no colon, no keyword line -/
theorem metaMatch_none_of_no_colon {l : Str} (h : ':' ∉ l) : metaMatch l = none := by
  unfold metaMatch
  simp only
  split
  · rfl
  · split
    · rename_i v hv
      exfalso
      apply h
      have : ':' ∈ List.drop (spanLen isKeyChar (List.drop (countPrefix ' ' (some 3) l) l))
          (List.drop (countPrefix ' ' (some 3) l) l) := by rw [hv]; exact List.mem_cons_self
      exact List.mem_of_mem_drop (List.mem_of_mem_drop this)
    · rfl

/-! ### the lines returned are always a suffix of the lines given -/

theorem loop_suffix (ls : List Str) (bg : Bool) (k : Option Str) (d : Dict) : (loop ls bg k d).1 <:+ ls := by
  induction ls generalizing k d with
  | nil => exact List.suffix_refl _
  | cons l r ih =>
    rw [loop_cons]
    split
    · exact List.suffix_cons _ _
    · split
      · exact List.IsSuffix.trans (ih _ _) (List.suffix_cons _ _)
      · split
        · exact List.IsSuffix.trans (ih _ _) (List.suffix_cons _ _)
        · exact List.suffix_refl _

theorem run_suffix (ls : List Str) : (run ls).1 <:+ ls := by
  cases ls with
  | nil => exact List.suffix_refl _
  | cons l r =>
    simp only [run]
    split
    · exact List.IsSuffix.trans (loop_suffix _ _ _ _) (List.suffix_cons _ _)
    · exact loop_suffix _ _ _ _

end MdVerif.MetaRun
