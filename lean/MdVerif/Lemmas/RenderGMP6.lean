/-
Helper lemmas for `Props/C16RenderG.lean`, part 33: footnotes with references in several paragraphs — `convertX` end
to end.

Core Lean only.
-/
import MdVerif.Lemmas.RenderGMP5

namespace MdVerif.RenderG
open Py Block BlockExt MdVerif.RenderX Inline InlineX
open MdVerif.Footnotes.Spec (refName)

/-- how often a label is referenced in all the paragraphs -/
def refCountP (ps : List FPara) (id : Str) : Nat := (allIds ps).count id

/-- the rendering -/
def fnRenderP (fmt : Ser.Fmt) (ps : List FPara) (defs : List (Str × Str)) : Str :=
  fnOutP fmt (parasHtml (defs.map (·.1)) ps []) (lisHtml (refCountP ps) entNb entBl defs 1)

theorem singles_join (bs : List Str) : (bs.map (fun b => [b])).map joinLines = bs := by
  induction bs with
  | nil => rfl
  | cons b r ih => simp only [List.map_cons, ih]; rfl

theorem convertX_fnP (x : PipelineX.Exts) (hfo : x.footnotes = true)
    (hf : x.fencedCode = false) (htb : x.tables = false) (hal : x.attrList = false) (htoc : x.toc = false)
    (cfg : Pipeline.Cfg) (hbl : cfg.blockLevel = TreeProc.defaultBlockLevel) (htab : 0 < cfg.tab)
    (p0 : FPara) (pr : List FPara) (defs : List (Str × Str)) (hp : ∀ p ∈ p0 :: pr, FParaOK p) (hd : DefsOK defs)
    (hne : defs ≠ []) (hnd : (defs.map (·.1)).Nodup) (hk : ∀ p ∈ p0 :: pr, ∀ s ∈ p.2, s.1 ∈ defs.map (·.1)) :
    PipelineX.convertX x cfg (fnSrcP p0 pr defs) = .ok (fnRenderP cfg.fmt (p0 :: pr) defs) := by
  -- the front
  have hbl0 : ∀ bl ∈ ((p0 :: pr).map fpLine ++ defBlocks defs).map (fun b => [b]), bl ≠ [] := by
    intro bl h; obtain ⟨b, _, rfl⟩ := List.mem_map.1 h; simp
  have hsrc : fnSrcP p0 pr defs =
      joinLines (chunkLines (((p0 :: pr).map fpLine ++ defBlocks defs).map (fun b => [b]))) := by
    rw [← joinChunks_joinLines _ hbl0, singles_join]; rfl
  obtain ⟨s1, s2, s3, s4, s5⟩ := front_lines cfg.tab
    (chunkLines (((p0 :: pr).map fpLine ++ defBlocks defs).map (fun b => [b])))
    (by
      simp only [List.map_cons, List.cons_append]
      exact chunkLines_ne _ _ (by simp))
    (by
      intro l hl
      rcases mem_chunkLines _ l hl with rfl | ⟨bl, hbl', hlb⟩
      · exact safeLine_nil
      · obtain ⟨b, hb, rfl⟩ := List.mem_map.1 hbl'
        simp only [List.mem_singleton] at hlb
        subst hlb
        rcases List.mem_append.1 hb with h | h
        · obtain ⟨p, hpm, rfl⟩ := List.mem_map.1 h
          exact safeLine_para _ (paraLine_fnPara p.1 p.2 (hp p hpm).text (hp p hpm).segs)
        · obtain ⟨d, hdm, rfl⟩ := List.mem_map.1 h
          exact safeLine_fnLine2 d.1 d.2 (hd.ids d hdm) (hd.notes d hdm))
    (by
      have hL := paraLine_fnPara p0.1 p0.2 (hp p0 List.mem_cons_self).text (hp p0 List.mem_cons_self).segs
      obtain ⟨a, b, hab, ha, hasp⟩ := hL.head
      refine ⟨a, ?_, DocParse.alnum_visible a ha hasp⟩
      rw [← hsrc]
      show a ∈ DocParse.joinChunks ((p0 :: pr).map fpLine ++ defBlocks defs)
      simp only [List.map_cons, List.cons_append]
      have hin : ∀ (L : Str) (r : List Str), a ∈ L → a ∈ DocParse.joinChunks (L :: r) := by
        intro L r h
        cases r with
        | nil => simpa [DocParse.joinChunks] using h
        | cons y ys => simp [DocParse.joinChunks, h]
      apply hin
      rw [show fpLine p0 = fnPara p0.1 p0.2 from rfl, hab]; simp)
  rw [← hsrc] at s1 s2 s3 s4 s5
  -- the block stage and the footnote `div`
  have hblk := parseDocumentXT_fnP x.blockCfg (by simpa [PipelineX.Exts.blockCfg] using hfo) cfg.tab htab p0 pr defs hp hd
  have hfoot := footnotesOf_entries defs hnd
  have hmk := makeDiv_defs x htb cfg htab defs hne (defEntries defs) hd
  have hplace := placeDiv_ps ((p0 :: pr).map fpLine) (fnDivG (lisFrom defs 1)) (by
    intro t ht
    obtain ⟨p, hpm, rfl⟩ := List.mem_map.1 ht
    exact slash_not_mem_para _ (paraLine_fnPara p.1 p.2 (hp p hpm).text (hp p hpm).segs))
  rw [List.map_map] at hplace
  -- the inline stage
  have hpk : ∀ p ∈ p0 :: pr, FParaOK p ∧ ∀ s ∈ p.2, (defs.map (·.1)).contains s.1 = true :=
    fun p hpm => ⟨hp p hpm, fun s hs => List.contains_iff_mem.2 (hk p hpm s hs)⟩
  have hrun := fun (ic : Inline.Cfg) => runX_fnP ic (InlineX.table true x.wikilinks x.nl2br) x.nl2br
    (fnTab_table x.wikilinks x.nl2br) (defs.map (·.1)) (p0 :: pr) defs hpk hd (by simp)
  obtain ⟨hE, hcnt⟩ := procPs_empty (defs.map (·.1)) (p0 :: pr)
  have hcntf : (fun id => Footnotes.lookup (Footnotes.fnref ++ ':' :: id)
      (procPs (defs.map (·.1)) (p0 :: pr) Footnotes.State.empty).2.2.foundRefs) = refCountP (p0 :: pr) := funext hcnt
  have hok := pnodeOK_procPsE (defs.map (·.1)) (p0 :: pr) [] hp
  -- the tree stages
  have hdup := duplicates_fnP (procPs (defs.map (·.1)) (p0 :: pr) Footnotes.State.empty).2.2
    (procPsE (defs.map (·.1)) (p0 :: pr) []) defs hok
  rw [hcntf] at hdup
  have hpre : TreeProc.prettify (rootOf (procPsE (defs.map (·.1)) (p0 :: pr) [] ++
      [fnDivG (lisMid (refCountP (p0 :: pr)) defs 1)])) =
      fnRootFinP (procPsE (defs.map (·.1)) (p0 :: pr) []) (lisFin (refCountP (p0 :: pr)) defs 1) :=
    prettify_fnP _ _ (refCountP (p0 :: pr)) defs hok hne
  have hun := unescapeTree_fnP (procPsE (defs.map (·.1)) (p0 :: pr) []) (refCountP (p0 :: pr)) defs hok hd
  have hser := serialize_fnP cfg.fmt (defs.map (·.1)) (p0 :: pr) (lisFin (refCountP (p0 :: pr)) defs 1) hp
  rw [serializeList_lis cfg.fmt _ defs 1 hd] at hser
  have hfin := finishX_fnP x hfo cfg (defs.map (·.1)) p0 pr (refCountP (p0 :: pr)) defs hp hd
  have habbr : ∀ u, AbbrTree.run [] u = u := fun _ => rfl
  simp only [PipelineX.convertX, s1, s2, PipelineX.Exts.unsupported, Bool.false_eq_true, if_false,
    PipelineX.treeX, PipelineX.prepareX, s3, s4, s5, Bool.and_false, hf, htb, hblk, hfo, if_true, hfoot, hmk,
    hal, htoc]
  simp only [Function.comp_def] at hplace
  simp only [hplace, PipelineX.refsX, Bool.true_or, if_true, refsOf_entries, abbrsOf_entries]
  have hxc : ∀ ic : Inline.Cfg, (InlineX.XCfg.mk ic (InlineX.table true x.wikilinks x.nl2br) (defs.map (·.1))) =
      fnXcG ic (InlineX.table true x.wikilinks x.nl2br) (defs.map (·.1)) := fun _ => rfl
  rw [hxc, hrun, hE]
  cases hab : x.abbr <;>
    simp only [hdup, hbl, hpre, habbr, Bool.false_eq_true, if_false, if_true, hun, hser] <;> exact hfin

end MdVerif.RenderG
