/-
End to end with a raw HTML block (C04): the stages behind the preprocessor on a document whose block tree is a list of
leaves (`Lemmas/DocParse.lean`: rules, paragraphs and headings of escaped one-line text) with ONE paragraph that
consists of the placeholder of a block-level stash entry between them.

1. elements that go through the stages one by one (`Staged`), and the stages on a `<div>` of such elements
   (the list lemmas of `Lemmas/DocParse.lean`, generalised from `Leaf` to `Staged`, with an initial HTML stash);
2. the two kinds of elements: a `Leaf`, and the placeholder paragraph (`phStaged`);
3. the end of `convert` (`finish_with_block`): the `<p>`placeholder`</p>` line becomes the stash entry;
4. the block parser on chunks, the placeholder paragraph as the preprocessor leaves it, more chunks;
5. the composition (`convertH_block`);
6. the restored block is recognised as block-level by `RawHtmlPostprocessor.isblocklevel` (`isBlockLevelHtml_block`);
7. corollaries: flat Markdown documents around the block (`convertH_flat_block`), one paragraph on each side
   (`convertH_para_block`); the generic form `convertH_raw` and units end to end (`convertH_flat_unit`);
9. the raw item first, last or alone in the document (`convertH_gen`, `convertH_flat_block_anywhere`,
   `convertH_flat_unit_anywhere`).
Core Lean only.
-/
import MdVerif.Lemmas.DocParse
import MdVerif.Lemmas.StashAtomic
import MdVerif.Lemmas.HtmlTokDoc
import MdVerif.Lemmas.HtmlTokUnits
import MdVerif.Model.PipelineH

namespace MdVerif.C04E2E
open Py
set_option linter.unusedSimpArgs false
set_option linter.unnecessarySimpa false

section staged
open Inline

/-! ### 1. elements that go through the stages one by one -/

/-- an element of the document with what it is after each stage: as the block parser builds it (`src`), after the
    inline processor (`mid`), after prettify (`pretty`), after unescape (`fin`), serialised (`out`), and the inline
    stash entries its visit adds -/
structure Staged where
  src : Node
  mid : Node
  pretty : Node
  fin : Node
  out : Str
  stash : List StashItem

structure Staged.OK (cfg : Inline.Cfg) (e : Staged) : Prop where
  visit : ∀ v : Visit, visitChild cfg e.src v =
    some (e.mid, [], { v with st := { v.st with stash := v.st.stash ++ e.stash } })
  block : TreeProc.isBlockLevel TreeProc.defaultBlockLevel e.mid.tag = true
  pret : TreeProc.prettifyETree TreeProc.defaultBlockLevel e.mid = e.pretty
  rules : TreeProc.mapTree TreeProc.preRule (TreeProc.mapTree TreeProc.brRule e.pretty) = e.pretty
  unesc : TreeProc.unescapeTree e.pretty = some e.fin
  ser : Ser.serialize .xhtml e.fin = e.out ++ ['\n']

def stashAllS : List Staged → List StashItem
  | [] => []
  | e :: r => e.stash ++ stashAllS r

/-- the outputs, one per line -/
def joinOutS : List Staged → Str
  | [] => []
  | [e] => e.out
  | e :: e' :: r => e.out ++ ['\n'] ++ joinOutS (e' :: r)

theorem withIdx_zip (ns : List Node) (k : Nat) :
    ∃ idx : List (Option Nat), idx.length = ns.length ∧ withIdx ns k = ns.zip idx := by
  induction ns generalizing k with
  | nil => exact ⟨[], rfl, rfl⟩
  | cons n r ih =>
    obtain ⟨idx, h1, h2⟩ := ih (k + 1)
    exact ⟨some k :: idx, by simp [h1], by simp [withIdx, h2]⟩

theorem visitLoop_staged (cfg : Inline.Cfg) (L : List Staged) (hL : ∀ e ∈ L, e.OK cfg) :
    ∀ (idx : List (Option Nat)) (v : Visit) (g : Nat), idx.length = L.length →
      ∃ pm, visitLoop cfg (g + L.length + 1) ((L.map (·.src)).zip idx) v =
        some { done := (L.map (·.mid)).reverse ++ v.done, posmap := pm, pushes := v.pushes,
               st := { v.st with stash := v.st.stash ++ stashAllS L } } := by
  induction L with
  | nil =>
    intro idx v g _
    refine ⟨v.posmap, ?_⟩
    simp [visitLoop, stashAllS]
  | cons l r ih =>
    intro idx v g hidx
    cases idx with
    | nil => simp at hidx
    | cons o idx =>
      have hidx' : idx.length = r.length := by simpa using hidx
      clear hidx
      have hr : ∀ x ∈ r, x.OK cfg := fun x hx => hL x (List.mem_cons_of_mem _ hx)
      have hv := (hL l List.mem_cons_self).visit v
      simp only [List.map_cons, List.zip_cons_cons, List.length_cons]
      rw [show g + (r.length + 1) + 1 = (g + r.length + 1) + 1 by omega]
      cases o with
      | none =>
        simp only [visitLoop, hv, List.map_nil, List.nil_append]
        obtain ⟨pm, hpm⟩ := ih hr idx
          { done := l.mid :: v.done, posmap := v.posmap,
            pushes := v.pushes, st := { v.st with stash := v.st.stash ++ l.stash } } g hidx'
        refine ⟨pm, ?_⟩
        rw [hpm]
        simp [stashAllS, List.append_assoc]
      | some o =>
        simp only [visitLoop, hv, List.map_nil, List.nil_append]
        obtain ⟨pm, hpm⟩ := ih hr idx
          { done := l.mid :: v.done, posmap := (o, v.done.length) :: v.posmap,
            pushes := v.pushes, st := { v.st with stash := v.st.stash ++ l.stash } } g hidx'
        refine ⟨pm, ?_⟩
        rw [hpm]
        simp [stashAllS, List.append_assoc]

/-- **`InlineProcessor.run`** on a `<div>` of staged elements, with the HTML stash the preprocessor left -/
theorem run_staged (cfg : Inline.Cfg) (L : List Staged) (hL : ∀ e ∈ L, e.OK cfg) (html : List Str) :
    Inline.run cfg (DocParse.divOf (L.map (·.src))) html =
      some (DocParse.divOf (L.map (·.mid)), { stash := stashAllS L, html := html }) := by
  have hsz : L.length + 3 ≤ runFuel (DocParse.divOf (L.map (·.src))) := by
    have := DocParse.sizeList_ge_length (L.map (·.src))
    simp only [runFuel, DocParse.divOf, size, List.length_map] at this ⊢
    omega
  obtain ⟨g, hg⟩ : ∃ g, runFuel (DocParse.divOf (L.map (·.src))) = g + L.length + 1 + 2 :=
    ⟨runFuel (DocParse.divOf (L.map (·.src))) - L.length - 3, by omega⟩
  obtain ⟨idx, hidx, hwi⟩ := withIdx_zip (L.map (·.src)) 0
  simp only [List.length_map] at hidx
  obtain ⟨pm, hpm⟩ := visitLoop_staged cfg L hL idx { st := { html := html } } (g + 2) hidx
  simp only [Inline.run]
  rw [hg]
  simp only [runLoop, getAt, DocParse.divOf, hwi]
  rw [show g + L.length + 1 + 2 = (g + 2) + L.length + 1 by omega, hpm]
  simp [setAt, runLoop]

theorem prettifyKids_staged (cfg : Inline.Cfg) (L : List Staged) (hL : ∀ e ∈ L, e.OK cfg) :
    TreeProc.prettifyKids TreeProc.defaultBlockLevel (L.map (·.mid)) = L.map (·.pretty) := by
  induction L with
  | nil => rfl
  | cons l r ih =>
    have hl := hL l List.mem_cons_self
    simp only [List.map_cons, TreeProc.prettifyKids, hl.block, if_true, hl.pret,
      ih (fun x hx => hL x (List.mem_cons_of_mem _ hx))]

theorem prettify_staged (cfg : Inline.Cfg) (L : List Staged) (hne : L ≠ []) (hL : ∀ e ∈ L, e.OK cfg) :
    TreeProc.prettify (DocParse.divOf (L.map (·.mid))) = DocParse.prettyDiv (L.map (·.pretty)) := by
  have h1 : TreeProc.isBlockLevel TreeProc.defaultBlockLevel (.name "div".toList) = true := by decide
  have h3 : (Tag.name "div".toList == Tag.name "code".toList) = false := by decide
  have h4 : (Tag.name "div".toList == Tag.name "pre".toList) = false := by decide
  have h7 : (Tag.name "div".toList == Tag.name "br".toList) = false := by decide
  obtain ⟨l, r, rfl⟩ : ∃ l r, L = l :: r := by
    cases L with
    | nil => exact absurd rfl hne
    | cons l r => exact ⟨l, r, rfl⟩
  have hb := (hL l List.mem_cons_self).block
  have hk := prettifyKids_staged cfg (l :: r) hL
  have hm := DocParse.mapKids_comp TreeProc.preRule TreeProc.brRule ((l :: r).map (·.pretty))
    (by
      intro n hn
      obtain ⟨x, hx, rfl⟩ := List.mem_map.1 hn
      exact (hL x hx).rules)
  simp only [List.map_cons] at hk hm
  simp only [TreeProc.prettify, DocParse.divOf, List.map_cons, TreeProc.prettifyETree, h1, h3, hb, TreeProc.blankOrNone,
    Node.truthy, Bool.not_false, Bool.true_or, Bool.and_self, if_true, hk, TreeProc.mapTree,
    TreeProc.brRule, TreeProc.preRule, TreeProc.tagIs, h7, h4, Bool.false_eq_true, if_false, hm, DocParse.prettyDiv]

theorem unescapeKids_staged (cfg : Inline.Cfg) (L : List Staged) (hL : ∀ e ∈ L, e.OK cfg) :
    TreeProc.unescapeKids (L.map (·.pretty)) = some (L.map (·.fin)) := by
  induction L with
  | nil => rfl
  | cons l r ih =>
    simp only [List.map_cons, TreeProc.unescapeKids, (hL l List.mem_cons_self).unesc,
      ih (fun x hx => hL x (List.mem_cons_of_mem _ hx))]

theorem unescapeTree_staged (cfg : Inline.Cfg) (L : List Staged) (hL : ∀ e ∈ L, e.OK cfg) :
    TreeProc.unescapeTree (DocParse.prettyDiv (L.map (·.pretty))) = some (DocParse.prettyDiv (L.map (·.fin))) := by
  have hnl : TreeProc.unescapeText 0 ['\n'] = some ['\n'] := by decide
  simp [DocParse.prettyDiv, TreeProc.unescapeTree, unescapeKids_staged cfg L hL, TreeProc.unescAttrs, hnl, Node.truthy]

theorem serializeList_staged (cfg : Inline.Cfg) (L : List Staged) (hne : L ≠ []) (hL : ∀ e ∈ L, e.OK cfg) :
    Ser.serializeList .xhtml (L.map (·.fin)) = joinOutS L ++ ['\n'] := by
  induction L with
  | nil => exact absurd rfl hne
  | cons l r ih =>
    have hl := (hL l List.mem_cons_self).ser
    cases r with
    | nil => simp [Ser.serializeList, hl, joinOutS]
    | cons l' r' =>
      have := ih (by simp) (fun x hx => hL x (List.mem_cons_of_mem _ hx))
      simp only [List.map_cons, Ser.serializeList] at this ⊢
      rw [hl, this]
      simp [joinOutS, List.append_assoc]

theorem serialize_staged (cfg : Inline.Cfg) (L : List Staged) (hne : L ≠ []) (hL : ∀ e ∈ L, e.OK cfg) :
    Ser.serialize .xhtml (DocParse.prettyDiv (L.map (·.fin))) =
      "<div>".toList ++ ('\n' :: joinOutS L ++ ['\n']) ++ "</div>\n".toList := by
  have h1 : Ser.isEmptyTag "div".toList = false := by decide
  have h3 : Ser.isRawTextTag "div".toList = false := by decide
  have h5 : Ser.escCdata ['\n'] = ['\n'] := by decide
  simp only [DocParse.prettyDiv, Ser.serialize, Ser.element, Ser.sortAttrs, List.foldr_nil, Ser.writeAttrs, h1, h3, h5,
    Node.truthy, Option.getD_some, Bool.false_eq_true, if_false, if_true, List.append_nil,
    serializeList_staged cfg L hne hL, Bool.and_false]
  simp [List.append_assoc]


/-! ### 2. the two kinds of elements -/

/-- a leaf of `Lemmas/DocParse.lean` (rule, paragraph or heading of escaped one-line text) -/
def ofLeaf (esc : List Char) (l : DocParse.Leaf) : Staged :=
  ⟨l.src esc, l.mid esc, l.pretty esc, l.fin, l.out, l.stash esc⟩

theorem ofLeaf_ok (cfg : Inline.Cfg) (hE : DocParse.EscOK cfg.esc) (l : DocParse.Leaf) (hl : l.ok = true) :
    (ofLeaf cfg.esc l).OK cfg where
  visit := DocParse.visitChild_leaf cfg hE l hl
  block := by
    have hf := DocParse.tagFacts _ (DocParse.leaf_tag_mem hl)
    cases l <;> exact hf.1
  pret := DocParse.prettifyETree_leaf cfg.esc l hl
  rules := DocParse.mapTree_rules_leaf cfg.esc l hl
  unesc := DocParse.unescapeTree_leaf cfg.esc l hl
  ser := DocParse.serialize_leaf l hl

open Probe in
/-- the paragraph that consists of the placeholder of stash entry `i` -/
def phStaged (i : Nat) : Staged :=
  { src := { tag := .name "p".toList, text := some (htmlPlaceholder i) }
    mid := { tag := .name "p".toList, text := some (htmlPlaceholder i) }
    pretty := { tag := .name "p".toList, text := some (htmlPlaceholder i), tail := some ['\n'] }
    fin := { tag := .name "p".toList, text := some (htmlPlaceholder i), tail := some ['\n'] }
    out := pOpen ++ htmlPlaceholder i ++ pClose
    stash := [] }

/-- no character of an HTML placeholder is escapable -/
def PhFree (esc : List Char) : Prop :=
  ∀ c ∈ esc, c ≠ Post.STX ∧ c ≠ Post.ETX ∧ c ≠ ':' ∧ isAsciiAlnum c = false

theorem phFree_generated : PhFree Generated.escapedChars := by
  unfold PhFree; decide

open Probe in
theorem ph_chars (i : Nat) : ∀ c ∈ htmlPlaceholder i, c = Post.STX ∨ c = Post.ETX ∨ c = ':' ∨ isAsciiAlnum c = true := by
  intro c hc
  simp only [htmlPlaceholder, Post.htmlPrefix, List.mem_append, List.mem_cons, List.mem_singleton] at hc
  rcases hc with (hc | hc) | hc
  · rcases hc with rfl | hc
    · exact Or.inl rfl
    · have : c ∈ "wzxhzdk:".toList := hc
      revert this c; decide
  · have := StashAtomic.natToDec_all_digit i
    have hd := List.all_eq_true.1 this c hc
    right; right; right
    simp [isAsciiAlnum, hd]
  · simp at hc; exact Or.inr (Or.inl hc)

theorem not_esc_of_phFree {esc : List Char} (h : PhFree esc) {c : Char}
    (hc : c = Post.STX ∨ c = Post.ETX ∨ c = ':' ∨ isAsciiAlnum c = true) : esc.contains c = false := by
  cases he : esc.contains c with
  | false => rfl
  | true =>
    have := h c (List.contains_iff_mem.1 he)
    rcases hc with h1 | h1 | h1 | h1
    · exact absurd h1 this.1
    · exact absurd h1 this.2.1
    · exact absurd h1 this.2.2.1
    · rw [this.2.2.2] at h1; cases h1

open Escape in
theorem escape_id {esc : List Char} {t : Str} (h : ∀ c ∈ t, esc.contains c = false) (n : Nat) :
    escAll esc t = t ∧ resid esc n t = t ∧ stashOf esc t = [] ∧ coded esc t = t := by
  induction t with
  | nil => exact ⟨rfl, rfl, rfl, rfl⟩
  | cons c r ih =>
    have hc := h c List.mem_cons_self
    have hcm : c ∉ esc := by simpa using hc
    obtain ⟨h1, h2, h3, h4⟩ := ih (fun x hx => h x (List.mem_cons_of_mem _ hx))
    refine ⟨?_, ?_, ?_, ?_⟩
    · rw [escAll_cons_not_mem hcm, h1]
    · simp [resid, hcm, h2]
    · simp [stashOf, hcm, h3]
    · simp [coded, hcm, h4]


open Probe in
theorem ph_no_prefix (i : Nat) : find phPrefix (htmlPlaceholder i) = none := by
  have hrest : Post.STX ∉ "wzxhzdk:".toList ++ natToDec i ++ [Post.ETX] := by
    intro hm
    rcases List.mem_append.1 hm with hm | hm
    · rcases List.mem_append.1 hm with hm | hm
      · revert hm; decide
      · have := List.all_eq_true.1 (StashAtomic.natToDec_all_digit i) _ hm; revert this; decide
    · revert hm; decide
  have he : htmlPlaceholder i = Post.STX :: ("wzxhzdk:".toList ++ natToDec i ++ [Post.ETX]) := by
    simp [htmlPlaceholder, Post.htmlPrefix]
  have hw : "wzxhzdk:".toList = 'w' :: "zxhzdk:".toList := by decide
  have hp : phPrefix = Inline.STX :: 'k' :: "lzzwxh:".toList := by decide
  rw [he, find_cons]
  have h1 : startsWith (Post.STX :: ("wzxhzdk:".toList ++ natToDec i ++ [Post.ETX])) phPrefix = false := by
    rw [hp, hw]
    simp only [List.cons_append, startsWith_cons_cons, show decide ('w' = 'k') = false by decide,
      Bool.false_and, Bool.and_false]
  rw [if_neg (by rw [h1]; simp)]
  have := StashAtomic.find_none_of_not_contains (StashAtomic.no_phPrefix_of_no_stx hrest)
  rw [this]; rfl

open Probe Escape in
theorem visitChild_ph (cfg : Inline.Cfg) (hE : DocParse.EscOK cfg.esc) (hF : PhFree cfg.esc) (i : Nat) (v : Visit) :
    visitChild cfg { tag := .name "p".toList, text := some (htmlPlaceholder i) } v =
      some ({ tag := .name "p".toList, text := some (htmlPlaceholder i) }, [],
        { v with st := { v.st with stash := v.st.stash ++ [] } }) := by
  have hch := ph_chars i
  have hnesc : ∀ c ∈ htmlPlaceholder i, cfg.esc.contains c = false := fun c hc => not_esc_of_phFree hF (hch c hc)
  obtain ⟨e1, e2, e3, e4⟩ := escape_id hnesc v.st.stash.length
  have hamp : '&' ∉ htmlPlaceholder i := by
    intro hm; rcases hch _ hm with h | h | h | h <;> revert h <;> decide
  have hsp : ' ' ∉ htmlPlaceholder i := by
    intro hm; rcases hch _ hm with h | h | h | h <;> revert h <;> decide
  have hbr : find [' ', ' ', '\n'] (htmlPlaceholder i) = none := by
    rw [find_none_iff]; intro pre post e; apply hsp; rw [e]; simp
  have h1 := handleInlineTop_escAll cfg (htmlPlaceholder i) v.st hE.bs hE.tick hE.lbr hE.bang hE.star hE.under hamp hbr
  rw [e1, e2, e3] at h1
  have hne : htmlPlaceholder i ≠ [] := by simp [htmlPlaceholder, Post.htmlPrefix]
  have hemp : (htmlPlaceholder i).isEmpty = false := by
    cases h : htmlPlaceholder i with
    | nil => exact absurd h hne
    | cons a b => rfl
  have h2 : ppTop { v.st with stash := v.st.stash ++ [] } (htmlPlaceholder i) false
      { tag := .name "p".toList } true = some ([], { tag := .name "p".toList, text := some (htmlPlaceholder i) }) := by
    unfold ppTop processPlaceholders
    simp only [hemp, Bool.false_eq_true, if_false]
    unfold ppLoop
    simp [ph_no_prefix i, linkText, hemp, Node.truthy]
  simp only [visitChild, truthy_some hne, Bool.not_false, Bool.and_self, if_true, Option.getD_some, h1]
  rw [h2]
  simp [Node.truthy]

open Probe in
theorem phStaged_ok (cfg : Inline.Cfg) (hE : DocParse.EscOK cfg.esc) (hF : PhFree cfg.esc) (i : Nat) :
    (phStaged i).OK cfg where
  visit := visitChild_ph cfg hE hF i
  block := StashAtomic.bl_p
  pret := by
    have hne : htmlPlaceholder i ≠ [] := by simp [htmlPlaceholder, Post.htmlPrefix]
    obtain ⟨a, b, hab⟩ := List.exists_cons_of_ne_nil hne
    simp only [phStaged, hab]
    simp [TreeProc.prettifyETree, StashAtomic.bl_p, TreeProc.blankOrNone, Node.truthy, TreeProc.prettifyKids]
  rules := by
    simp [phStaged, TreeProc.mapTree, TreeProc.mapKids, TreeProc.brRule, TreeProc.preRule, TreeProc.tagIs]
  unesc := by
    have hnl : TreeProc.unescapeText 0 ['\n'] = some ['\n'] := by decide
    have hu := StashAtomic.unescapeText_ph i [] [] (by simp) (by simp)
    simp only [List.nil_append, List.append_nil] at hu
    have hne : htmlPlaceholder i ≠ [] := by simp [htmlPlaceholder, Post.htmlPrefix]
    obtain ⟨a, b, hab⟩ := List.exists_cons_of_ne_nil hne
    rw [hab] at hu
    simp [phStaged, TreeProc.unescapeTree, TreeProc.unescapeKids, TreeProc.unescAttrs, hnl, Node.truthy, hab, hu]
  ser := by
    have h5 : Ser.escCdata ['\n'] = ['\n'] := by decide
    have e : Ser.escCdata (htmlPlaceholder i) = htmlPlaceholder i := by
      have := StashAtomic.escCdata_ph i [] []
      have n0 : Ser.escCdata [] = [] := by decide
      simpa [n0] using this
    have hne : htmlPlaceholder i ≠ [] := by simp [htmlPlaceholder, Post.htmlPrefix]
    obtain ⟨a, b, hab⟩ := List.exists_cons_of_ne_nil hne
    have he : Ser.isEmptyTag ['p'] = false := by decide
    have hr : Ser.isRawTextTag ['p'] = false := by decide
    rw [hab] at e
    simp [phStaged, hab, Ser.serialize, Ser.serializeList, Ser.element, Ser.sortAttrs, Ser.writeAttrs, he, hr,
      Node.truthy, h5, e, pOpen, pClose, List.append_assoc]


end staged

theorem getLast?_append_ne {α} (a b : List α) (h : b ≠ []) : (a ++ b).getLast? = b.getLast? := by
  rw [List.getLast?_append]
  cases hb : b.getLast? with
  | none => simp [List.getLast?_eq_none_iff] at hb; exact absurd hb h
  | some x => simp

/-! ### 3. the end of `convert` with a block-level stash entry between other elements -/

open Probe StashAtomic Post in
theorem finish_with_block (bl : List Str) (stash : List Str) (i : Nat) (raw A B : Str)
    (hi : stash[i]? = some raw) (hA : Post.STX ∉ A) (hB : Post.STX ∉ B) (hraw : Post.STX ∉ raw)
    (hb : isBlockLevelHtml bl raw = true)
    (hAh : ∀ c, A.head? = some c → isSpace c = false) (hBl : ∀ c, B.getLast? = some c → isSpace c = false)
    (hAne : A ≠ []) (hBne : B ≠ []) :
    finish bl stash ("<div>".toList ++ ('\n' :: (A ++ ['\n'] ++ (pOpen ++ htmlPlaceholder i ++ pClose) ++ ['\n'] ++ B)
        ++ ['\n']) ++ "</div>\n".toList) = some (some (A ++ ['\n'] ++ raw ++ ['\n'] ++ B)) := by
  have hne : stash ≠ [] := by rintro rfl; simp at hi
  have hpre : Post.STX ∉ A ++ ['\n'] := by
    intro hm; rcases List.mem_append.1 hm with h | h
    · exact hA h
    · revert h; decide
  have hpostx : Post.STX ∉ ['\n'] ++ B := by
    intro hm; rcases List.mem_append.1 hm with h | h
    · revert h; decide
    · exact hB h
  have hpost : contains (['\n'] ++ B) Post.htmlPrefix = false := no_prefix_of_no_stx hpostx
  have hall : Post.STX ∉ (A ++ ['\n']) ++ raw ++ (['\n'] ++ B) := by
    intro hm
    rcases List.mem_append.1 hm with h | h
    · rcases List.mem_append.1 h with h | h
      · exact hpre h
      · exact hraw h
    · exact hpostx h
  have h1 := subPass_wrapped bl stash i raw (A ++ ['\n']) (['\n'] ++ B) hi hpre
  rw [hb, subPass_fix bl stash _ hpost] at h1
  simp only [if_true] at h1
  have hr := rawHtml_of_fix bl stash (stash.length + 1) _ _ hne h1
    (by
      have := no_prefix_of_no_stx hall
      simpa [List.append_assoc] using this)
  -- the wrapper
  have hJh : ∀ c, (A ++ ['\n'] ++ (pOpen ++ htmlPlaceholder i ++ pClose) ++ ['\n'] ++ B).head? = some c →
      isSpace c = false := by
    intro c hc
    obtain ⟨a, A', rfl⟩ := List.exists_cons_of_ne_nil hAne
    simp at hc; subst hc; exact hAh _ rfl
  have hJl : ∀ c, (A ++ ['\n'] ++ (pOpen ++ htmlPlaceholder i ++ pClose) ++ ['\n'] ++ B).getLast? = some c →
      isSpace c = false := by
    intro c hc
    rw [getLast?_append_ne _ _ hBne] at hc
    exact hBl c hc
  have hs2 : strip ('\n' :: (A ++ ['\n'] ++ (pOpen ++ htmlPlaceholder i ++ pClose) ++ ['\n'] ++ B) ++ ['\n']) =
      A ++ ['\n'] ++ (pOpen ++ htmlPlaceholder i ++ pClose) ++ ['\n'] ++ B := by
    have := strip_append_of_blank (a := ['\n']) (b := ['\n']) (by decide) (by decide)
      (A ++ ['\n'] ++ (pOpen ++ htmlPlaceholder i ++ pClose) ++ ['\n'] ++ B)
    have e : '\n' :: (A ++ ['\n'] ++ (pOpen ++ htmlPlaceholder i ++ pClose) ++ ['\n'] ++ B) ++ ['\n'] =
        ['\n'] ++ (A ++ ['\n'] ++ (pOpen ++ htmlPlaceholder i ++ pClose) ++ ['\n'] ++ B) ++ ['\n'] := by simp
    rw [e, this, strip_eq_self hJh hJl]
  have hout : strip (A ++ ['\n'] ++ raw ++ ['\n'] ++ B) = A ++ ['\n'] ++ raw ++ ['\n'] ++ B := by
    apply strip_eq_self
    · intro c hc
      obtain ⟨a, A', rfl⟩ := List.exists_cons_of_ne_nil hAne
      simp at hc; subst hc; exact hAh _ rfl
    · intro c hc
      rw [getLast?_append_ne _ _ hBne] at hc
      exact hBl c hc
  have hform : A ++ ['\n'] ++ (pOpen ++ htmlPlaceholder i ++ pClose) ++ ['\n'] ++ B =
      (A ++ ['\n']) ++ (pOpen ++ (htmlPlaceholder i ++ (pClose ++ (['\n'] ++ B)))) := by simp [List.append_assoc]
  unfold finish
  rw [topLevelStrip_div, hs2, hform]
  simp only [post, rawHtmlFuel, hr, Option.map_some]
  have hamp := ampSub_of_no_stx hall
  simp only [List.append_assoc] at hamp hout ⊢
  rw [hamp, hout]


/-! ### 4. the block parser -/

open Block DocParse Escape Probe in
/-- the placeholder paragraph reaches `ParagraphProcessor` -/
theorem produces_ph {esc : List Char} (hE : EscOK esc) (hF : PhFree esc) (tab : Nat) (htab : 0 < tab) (i : Nat) :
    Produces tab (htmlPlaceholder i) { tag := .name "p".toList, text := some (htmlPlaceholder i) } := by
  intro pb refs parent rest
  have hch := ph_chars i
  have hnesc : ∀ c ∈ htmlPlaceholder i, esc.contains c = false := fun c hc => not_esc_of_phFree hF (hch c hc)
  obtain ⟨e1, _, _, _⟩ := escape_id hnesc 0
  obtain ⟨tail, he⟩ : ∃ tail, htmlPlaceholder i = Post.STX :: tail := ⟨_, rfl⟩
  have hcs : isSpace Post.STX = false := by decide
  have hnl : '\n' ∉ htmlPlaceholder i := by
    intro hm; rcases hch _ hm with h | h | h | h <;> revert h <;> decide
  have hg : Guarded esc (htmlPlaceholder i) = true := by
    have := guardedFrom_escAll esc (htmlPlaceholder i) false
    rw [e1] at this; exact this
  have hl : LineStartsOk esc (htmlPlaceholder i) = true := by
    have := lineStartsOk_escAll esc hE.nl (htmlPlaceholder i)
    rw [e1] at this; exact this
  have hs : startOk esc (htmlPlaceholder i) = true := by
    simp only [LineStartsOk, Bool.and_eq_true] at hl; exact hl.1
  have hlstrip : lstrip (htmlPlaceholder i) = htmlPlaceholder i := by
    rw [he]; simp [lstrip, lstripP, hcs]
  have hblank : isBlank (htmlPlaceholder i) = false := by
    rw [he]; simp [isBlank, hcs]
  generalize hb : htmlPlaceholder i = b at *
  have h1 : b.isEmpty = false := by rw [he]; rfl
  have h2 : startsWith b ['\n'] = false := by rw [he]; simp [Post.STX]
  have h3 : startsWith b (spaces tab) = false := by
    rw [he]; obtain ⟨k, rfl⟩ : ∃ k, tab = k + 1 := ⟨tab - 1, by omega⟩
    simp [spaces, List.replicate_succ, Post.STX]
  unfold dispatch
  simp only [h1, h2, h3, Bool.or_self, Bool.false_eq_true, if_false, Bool.false_and,
    hashSearch_eq_none hE.hash _ hl, setextMatch_line b hnl, hrSearch_eq_none hE.dash hE.under hE.star _ hl,
    listItemMatch_eq_none hE.star hE.plus hE.dash hE.dot tab _ _ _ hg hs, Option.isSome_none,
    quoteSearch_eq_none hE.gt _ hl, refSearch_eq_none hE.lbr _ hl]
  simp [paraP, hblank, hlstrip, isstate, mkText, Node.el]


open Block DocParse Escape in
theorem splitS_chunks_gen (bs : List Str) (hne : bs ≠ []) (h : ∀ b ∈ bs, ∃ f, noEmptyLineFrom f b = true) :
    splitS ['\n', '\n'] (joinChunks bs ++ ['\n', '\n']) = bs ++ [[]] := by
  induction bs with
  | nil => exact absurd rfl hne
  | cons b r ih =>
    obtain ⟨f, hf⟩ := h b List.mem_cons_self
    cases r with
    | nil =>
      simp only [joinChunks, splitS]
      rw [splitAux_blocks f b hf]; rfl
    | cons b' r' =>
      have := ih (by simp) (fun x hx => h x (List.mem_cons_of_mem _ hx))
      simp only [joinChunks, splitS, List.append_assoc, List.cons_append, List.nil_append] at this ⊢
      rw [splitAux_chunk f b _ hf, this]

open Block DocParse in
/-- a block that starts with a line feed: `EmptyBlockProcessor` puts the rest back -/
theorem dispatch_nl (tab : Nat) (pb : PB) (st : List BState) (refs : Refs) (parent : Node) (X : Str) (rest : List Str)
    (hX : X ≠ []) (h : ∀ sib, parent.last? = some sib → preCode sib = none) :
    dispatch tab pb st refs parent ('\n' :: X) rest = some (parent, refs, X :: rest) := by
  have hXe : X.isEmpty = false := by cases X <;> simp_all
  cases hl : parent.last? with
  | none => simp [dispatch, emptyP, hl, hXe]
  | some sib => simp [dispatch, emptyP, hl, h sib hl, hXe]

open Block DocParse in
/-- an empty block between other blocks -/
theorem dispatch_empty_mid (tab : Nat) (pb : PB) (st : List BState) (refs : Refs) (parent : Node) (rest : List Str)
    (h : ∀ sib, parent.last? = some sib → preCode sib = none) :
    dispatch tab pb st refs parent [] rest = some (parent, refs, rest) := by
  cases hl : parent.last? with
  | none => simp [dispatch, emptyP, hl]
  | some sib => simp [dispatch, emptyP, hl, h sib hl]

open Probe in
/-- the paragraph holding the placeholder of stash entry `i` -/
def phNode (i : Nat) : Node := { tag := .name "p".toList, text := some (htmlPlaceholder i) }

open Block DocParse Probe Escape in
/-- **the block parser** on chunks, then the placeholder paragraph as the preprocessor leaves it (a line feed in
    front, two blank lines behind), then more chunks -/
theorem parseDocument_with_ph (tab : Nat) (i : Nat) (A B : List (Str × Node))
    (hPh : Produces tab (htmlPlaceholder i) (phNode i))
    (hPA : ∀ c ∈ A, Produces tab c.1 c.2) (hLA : ∀ c ∈ A, noEmptyLineFrom true c.1 = true)
    (hpreA : ∀ c ∈ A, preCode c.2 = none)
    (hPB : ∀ c ∈ B, Produces tab c.1 c.2) (hLB : ∀ c ∈ B, noEmptyLineFrom true c.1 = true)
    (hpreB : ∀ c ∈ B, preCode c.2 = none) :
    parseDocument tab (joinChunks (A.map (·.1) ++ ('\n' :: htmlPlaceholder i) :: [] :: B.map (·.1)) ++ ['\n', '\n']) =
      some (divOf (A.map (·.2) ++ phNode i :: B.map (·.2)), []) := by
  have hphne : htmlPlaceholder i ≠ [] := by simp [htmlPlaceholder, Post.htmlPrefix]
  have hnlph : '\n' ∉ htmlPlaceholder i := by
    intro hm
    simp only [htmlPlaceholder, Post.htmlPrefix, List.mem_append, List.mem_cons, List.mem_singleton] at hm
    rcases hm with (hm | hm) | hm
    · rcases hm with h | hm
      · revert h; decide
      · have : '\n' ∈ "wzxhzdk:".toList := hm
        revert this; decide
    · have := List.all_eq_true.1 (StashAtomic.natToDec_all_digit i) _ hm; revert this; decide
    · simp at hm; revert hm; decide
  have hsplit := splitS_chunks_gen (A.map (·.1) ++ ('\n' :: htmlPlaceholder i) :: [] :: B.map (·.1)) (by simp)
    (by
      intro b hb
      rcases List.mem_append.1 hb with hb | hb
      · obtain ⟨c, hc, rfl⟩ := List.mem_map.1 hb; exact ⟨true, hLA c hc⟩
      · rcases List.mem_cons.1 hb with rfl | hb
        · refine ⟨false, ?_⟩
          simp only [noEmptyLineFrom, if_true, Bool.not_false, Bool.true_and]
          exact nel_line _ hphne hnlph
        · rcases List.mem_cons.1 hb with rfl | hb
          · exact ⟨false, rfl⟩
          · obtain ⟨c, hc, rfl⟩ := List.mem_map.1 hb; exact ⟨true, hLB c hc⟩)
  have hlen := length_joinChunks (A.map (·.1) ++ ('\n' :: htmlPlaceholder i) :: [] :: B.map (·.1))
  simp only [List.length_append, List.length_cons, List.length_map] at hlen
  obtain ⟨g, hg⟩ : ∃ g, fuelFor (joinChunks (A.map (·.1) ++ ('\n' :: htmlPlaceholder i) :: [] :: B.map (·.1)) ++
      ['\n', '\n']).length = ((g + 1) + B.length + 3) + A.length :=
    ⟨fuelFor (joinChunks (A.map (·.1) ++ ('\n' :: htmlPlaceholder i) :: [] :: B.map (·.1)) ++ ['\n', '\n']).length
        - 4 - B.length - A.length, by
      simp only [fuelFor, List.length_append, List.length_cons, List.length_nil]; omega⟩
  simp only [parseDocument, parseDocumentWith, parseChunk, hsplit, hg, List.append_assoc, List.cons_append]
  rw [parseBlocks_chunks tab A hPA ((g + 1) + B.length + 3)]
  -- the state after the chunks of `A`
  have hlastA : ∀ sib, ({ Node.el "div" with children := (Node.el "div").children ++ A.map (·.2) } : Node).last? =
      some sib → preCode sib = none := by
    intro sib hs
    simp only [Node.last?, Node.el, List.nil_append] at hs
    obtain ⟨c, hc, rfl⟩ := List.mem_map.1 (List.mem_of_getLast? hs)
    exact hpreA c hc
  have hlastP : ∀ sib, (Node.append { Node.el "div" with children := (Node.el "div").children ++ A.map (·.2) }
      (phNode i)).last? = some sib → preCode sib = none := by
    intro sib hs
    simp only [Node.last?, Node.append, List.getLast?_append, List.getLast?_singleton, Option.some_or,
      Option.some.injEq] at hs
    subst hs; rfl
  simp only [parseBlocks, dispatch_nl tab _ [] [] _ _ _ hphne hlastA, hPh _ [] _ _,
    dispatch_empty_mid tab _ [] [] _ _ hlastP]
  rw [parseBlocks_chunks tab B hPB (g + 1)]
  have hlastB : ∀ sib, ({ Node.append { Node.el "div" with children := (Node.el "div").children ++ A.map (·.2) }
      (phNode i) with children := (Node.append { Node.el "div" with children := (Node.el "div").children ++ A.map (·.2) }
      (phNode i)).children ++ B.map (·.2) } : Node).last? = some sib → preCode sib = none := by
    intro sib hs
    simp only [Node.last?, Node.el, Node.append, List.nil_append] at hs
    rcases List.mem_append.1 (List.mem_of_getLast? hs) with h | h
    · rcases List.mem_append.1 h with h | h
      · obtain ⟨c, hc, rfl⟩ := List.mem_map.1 h; exact hpreA c hc
      · simp at h; subst h; rfl
    · obtain ⟨c, hc, rfl⟩ := List.mem_map.1 h; exact hpreB c hc
  simp only [parseBlocks, dispatch_empty_block tab _ [] [] _ hlastB]
  simp [divOf, Node.el, Node.append]


/-! ### 5. the composition -/

open DocParse in
/-- source text of a list of pieces: their lines, one empty line between pieces -/
def srcOf (P : List Piece) : Str := joinLines (flatLines (P.map (·.g)))

open DocParse in
theorem joinChunks_append (X Y : List Str) (hX : X ≠ []) (hY : Y ≠ []) :
    joinChunks (X ++ Y) = joinChunks X ++ ['\n', '\n'] ++ joinChunks Y := by
  induction X with
  | nil => exact absurd rfl hX
  | cons x r ih =>
    cases r with
    | nil =>
      obtain ⟨y, Y', rfl⟩ := List.exists_cons_of_ne_nil hY
      simp [joinChunks]
    | cons x' r' =>
      have := ih (by simp)
      simp only [List.cons_append] at this ⊢
      simp only [joinChunks, this, List.append_assoc]

open DocParse in
theorem srcOf_eq (esc : List Char) (tab : Nat) (P : List Piece) (hP : ∀ p ∈ P, PieceOK esc tab p) :
    srcOf P = joinChunks (P.map (fun p => joinLines p.g)) := by
  unfold srcOf
  rw [joinLines_flatLines _ (by
    intro g hg; obtain ⟨p, hp, rfl⟩ := List.mem_map.1 hg; exact (hP p hp).ne), List.map_map]
  rfl

open DocParse in
theorem srcOf_chars (esc : List Char) (tab : Nat) (P : List Piece) (hP : ∀ p ∈ P, PieceOK esc tab p) :
    (∀ l ∈ flatLines (P.map (·.g)), lineSafe l = true ∧ '<' ∉ l ∧ '&' ∉ l) ∧
    (∀ c ∈ srcOf P, c ≠ '<' ∧ c ≠ '&') := by
  have hlines : ∀ l ∈ flatLines (P.map (·.g)), lineSafe l = true ∧ '<' ∉ l ∧ '&' ∉ l := by
    intro l hl
    rcases mem_flatLines hl with rfl | ⟨g, hg, hlg⟩
    · exact ⟨by decide, by simp, by simp⟩
    · obtain ⟨p, hp, rfl⟩ := List.mem_map.1 hg
      exact (hP p hp).safe l hlg
  refine ⟨hlines, ?_⟩
  intro c hc
  rcases mem_joinLines hc with rfl | ⟨l, hl, hcl⟩
  · exact ⟨by decide, by decide⟩
  · exact ⟨fun e => (hlines l hl).2.1 (e ▸ hcl), fun e => (hlines l hl).2.2 (e ▸ hcl)⟩

theorem placeholder_eq (i : Nat) : Extract.placeholder i = Probe.htmlPlaceholder i := by
  simp [Extract.placeholder, Probe.htmlPlaceholder, Extract.phPrefix, Extract.phSuffix, Post.htmlPrefix, Post.STX,
    Post.ETX]

open DocParse in
theorem srcOf_lines (esc : List Char) (tab : Nat) (P : List Piece) (hne : P ≠ []) (hP : ∀ p ∈ P, PieceOK esc tab p) :
    lines (srcOf P) = flatLines (P.map (·.g)) := by
  have hl := (srcOf_chars esc tab P hP).1
  have hfl : flatLines (P.map (·.g)) ≠ [] := by
    obtain ⟨p, r, rfl⟩ := List.exists_cons_of_ne_nil hne
    have := (hP p List.mem_cons_self).ne
    cases r with
    | nil => simpa [flatLines] using this
    | cons a b => simp [flatLines, this]
  exact joinLines_lines hfl (fun l hl' => (lineSafe_facts (hl l hl').1).1)

/-- the lines of `a ¶ b ¶ c` -/
theorem lines_doc (a b c : Str) :
    lines (a ++ ['\n', '\n'] ++ b ++ ['\n', '\n'] ++ c) = lines a ++ [[]] ++ lines b ++ [[]] ++ lines c := by
  have e : a ++ ['\n', '\n'] ++ b ++ ['\n', '\n'] ++ c =
      a ++ '\n' :: ([] ++ '\n' :: (b ++ '\n' :: ([] ++ '\n' :: c))) := by simp
  rw [e]
  simp only [lines, splitC_append_sep]
  simp [splitC]


open DocParse in
theorem joinOutS_leaves (esc : List Char) (L : List Leaf) : joinOutS (L.map (ofLeaf esc)) = joinOut L := by
  induction L with
  | nil => rfl
  | cons l r ih =>
    cases r with
    | nil => rfl
    | cons l' r' =>
      simp only [List.map_cons, joinOutS, joinOut] at ih ⊢
      rw [ih]; rfl

theorem joinOutS_append (X Y : List Staged) (hX : X ≠ []) (hY : Y ≠ []) :
    joinOutS (X ++ Y) = joinOutS X ++ ['\n'] ++ joinOutS Y := by
  induction X with
  | nil => exact absurd rfl hX
  | cons x r ih =>
    cases r with
    | nil =>
      obtain ⟨y, Y', rfl⟩ := List.exists_cons_of_ne_nil hY
      simp [joinOutS]
    | cons x' r' =>
      have := ih (by simp)
      simp only [List.cons_append] at this ⊢
      simp only [joinOutS, this, List.append_assoc]

open DocParse HtmlFrag HtmlTok Extract Probe in
/-- **end to end**: pieces, a raw block, pieces -/
theorem convertH_block (cfg : Pipeline.Cfg) (hE : EscOK cfg.esc) (hF : PhFree cfg.esc)
    (hbl : cfg.blockLevel = TreeProc.defaultBlockLevel) (hfmt : cfg.fmt = .xhtml) (htab : 0 < cfg.tab)
    (A B : List Piece) (hA : A ≠ []) (hB : B ≠ [])
    (hPA : ∀ p ∈ A, PieceOK cfg.esc cfg.tab p) (hPB : ∀ p ∈ B, PieceOK cfg.esc cfg.tab p)
    (name : Str) (attrs : List Attr) (trail : Str) (body : List Tok)
    (hopen : (Tok.open_ name attrs trail).ok = true) (hblock : isBlockLevelTag (lower name) = true)
    (hhr : lower name ≠ hrTag) (hbody : toksOk body = true) (hcl : closesOk (lower name) body = true)
    (hsafe : ∀ l ∈ lines (blockText name attrs trail body), lineSafe l = true)
    (hbh : Post.isBlockLevelHtml TreeProc.defaultBlockLevel (blockText name attrs trail body ++ ['\n']) = true) :
    PipelineH.convertH cfg (srcOf A ++ nn ++ blockText name attrs trail body ++ nn ++ srcOf B) =
      .ok (joinOut (A.map (·.leaf)) ++ ['\n'] ++ (blockText name attrs trail body ++ ['\n']) ++ ['\n'] ++
        joinOut (B.map (·.leaf))) := by
  obtain ⟨hlA, hcA⟩ := srcOf_chars cfg.esc cfg.tab A hPA
  obtain ⟨hlB, hcB⟩ := srcOf_chars cfg.esc cfg.tab B hPB
  generalize hblk : blockText name attrs trail body = block at *
  -- 1. not blank
  have hnb : Normalize.isBlankDoc (srcOf A ++ nn ++ block ++ nn ++ srcOf B) = false := by
    rw [Normalize.isBlankDoc_eq_all]
    obtain ⟨p, r, rfl⟩ := List.exists_cons_of_ne_nil hA
    obtain ⟨c, hc, hcs⟩ := (hPA p List.mem_cons_self).vis
    have hmem : c ∈ srcOf (p :: r) := by
      rw [srcOf_eq cfg.esc cfg.tab _ hPA]
      cases r with
      | nil => simpa [joinChunks] using hc
      | cons a b => simp [joinChunks, hc]
    cases hall : (srcOf (p :: r) ++ nn ++ block ++ nn ++ srcOf B).all isSpace with
    | false => rfl
    | true =>
      have := List.all_eq_true.1 hall c (by simp [hmem])
      rw [hcs] at this; cases this
  -- 2. normalisation
  have hnorm : Normalize.normalize cfg.tab (srcOf A ++ nn ++ block ++ nn ++ srcOf B) =
      srcOf A ++ nn ++ block ++ nn ++ srcOf B ++ nn := by
    have hls : ∀ l ∈ lines (srcOf A ++ nn ++ block ++ nn ++ srcOf B), lineSafe l = true := by
      intro l hl
      rw [show nn = ['\n', '\n'] from rfl, lines_doc, srcOf_lines cfg.esc cfg.tab A hA hPA,
        srcOf_lines cfg.esc cfg.tab B hB hPB] at hl
      simp only [List.mem_append, List.mem_singleton] at hl
      rcases hl with (((h | h) | h) | h) | h
      · exact (hlA l h).1
      · subst h; decide
      · exact hsafe l h
      · subst h; decide
      · exact (hlB l h).1
    have := normalize_lines cfg.tab (lines (srcOf A ++ nn ++ block ++ nn ++ srcOf B))
      (by have := splitC_length_pos '\n' (srcOf A ++ nn ++ block ++ nn ++ srcOf B)
          intro e; unfold lines at e; rw [e] at this; simp at this) hls
    rw [lines_joinLines] at this
    exact this
  -- 3. the preprocessor
  have hpA : plainOk (srcOf A) = true := by
    simp only [plainOk, Bool.and_eq_true, Bool.not_eq_true', List.contains_eq_mem, decide_eq_false_iff_not]
    exact ⟨fun h => (hcA _ h).1 rfl, fun h => (hcA _ h).2 rfl⟩
  have hpB : plainOk (srcOf B ++ nn) = true := by
    simp only [plainOk, Bool.and_eq_true, Bool.not_eq_true', List.contains_eq_mem, decide_eq_false_iff_not,
      List.mem_append, not_or]
    exact ⟨⟨fun h => (hcB _ h).1 rfl, by decide⟩, ⟨fun h => (hcB _ h).2 rfl, by decide⟩⟩
  have hext := extract_block_state (srcOf A) (srcOf B ++ nn) name attrs trail body hpA hpB hopen hblock hhr hbody hcl
  rw [hblk] at hext
  have hdoc : srcOf A ++ nn ++ block ++ nn ++ srcOf B ++ nn = srcOf A ++ nn ++ block ++ nn ++ (srcOf B ++ nn) := by
    simp [List.append_assoc]
  -- the text handed to the block parser
  have htext : cleanText (⟨false, false, [], [],
      [srcOf A ++ nn, ['\n'], placeholder 0, nn, nn ++ (srcOf B ++ nn)], [block ++ ['\n']]⟩ : ExSt) =
      joinChunks (A.map (fun p => joinLines p.g) ++ ('\n' :: htmlPlaceholder 0) :: [] ::
        B.map (fun p => joinLines p.g)) ++ ['\n', '\n'] := by
    rw [joinChunks_append _ _ (by simpa using hA) (by simp), ← srcOf_eq cfg.esc cfg.tab A hPA]
    have : joinChunks (('\n' :: htmlPlaceholder 0) :: [] :: B.map (fun p => joinLines p.g)) =
        ('\n' :: htmlPlaceholder 0) ++ ['\n', '\n'] ++ ([] ++ ['\n', '\n'] ++ srcOf B) := by
      rw [srcOf_eq cfg.esc cfg.tab B hPB]
      obtain ⟨b, B', rfl⟩ := List.exists_cons_of_ne_nil hB
      simp [joinChunks]
    rw [this, placeholder_eq]
    simp [cleanText, nn, List.append_assoc]
  have hnolt : (joinChunks (A.map (fun p => joinLines p.g) ++ ('\n' :: htmlPlaceholder 0) :: [] ::
      B.map (fun p => joinLines p.g)) ++ ['\n', '\n']).contains '<' = false := by
    rw [← htext]
    simp only [cleanText, List.flatten_cons, List.flatten_nil, List.append_nil, List.contains_eq_mem,
      decide_eq_false_iff_not, List.mem_append, not_or]
    refine ⟨⟨fun h => (hcA _ h).1 rfl, by decide⟩, by decide, ?_, by decide, by decide, fun h => (hcB _ h).1 rfl,
      by decide⟩
    rw [placeholder_eq]
    intro hm; rcases ph_chars 0 _ hm with h | h | h | h <;> revert h <;> decide
  -- 4. the block parser
  have hparse := parseDocument_with_ph cfg.tab 0
    (A.map (fun p => (joinLines p.g, p.leaf.src cfg.esc))) (B.map (fun p => (joinLines p.g, p.leaf.src cfg.esc)))
    (produces_ph hE hF cfg.tab htab 0)
    (by intro c hc; obtain ⟨p, hp, rfl⟩ := List.mem_map.1 hc; exact (hPA p hp).prod)
    (by intro c hc; obtain ⟨p, hp, rfl⟩ := List.mem_map.1 hc; exact (hPA p hp).nel)
    (by intro c hc; obtain ⟨p, hp, rfl⟩ := List.mem_map.1 hc; exact preCode_leaf _ _ (hPA p hp).ok)
    (by intro c hc; obtain ⟨p, hp, rfl⟩ := List.mem_map.1 hc; exact (hPB p hp).prod)
    (by intro c hc; obtain ⟨p, hp, rfl⟩ := List.mem_map.1 hc; exact (hPB p hp).nel)
    (by intro c hc; obtain ⟨p, hp, rfl⟩ := List.mem_map.1 hc; exact preCode_leaf _ _ (hPB p hp).ok)
  simp only [List.map_map] at hparse
  have e1 : ((fun c : Str × Node => c.1) ∘ fun p : Piece => (joinLines p.g, p.leaf.src cfg.esc)) =
      fun p => joinLines p.g := rfl
  have e2 : ((fun c : Str × Node => c.2) ∘ fun p : Piece => (joinLines p.g, p.leaf.src cfg.esc)) =
      fun p => p.leaf.src cfg.esc := rfl
  rw [e1, e2] at hparse
  -- 5. the staged elements
  let L : List Staged := A.map (fun p => ofLeaf cfg.esc p.leaf) ++ phStaged 0 :: B.map (fun p => ofLeaf cfg.esc p.leaf)
  have hLok : ∀ e ∈ L, e.OK { esc := cfg.esc, refs := [] } := by
    intro e he
    rcases List.mem_append.1 he with h | h
    · obtain ⟨p, hp, rfl⟩ := List.mem_map.1 h
      exact ofLeaf_ok { esc := cfg.esc, refs := [] } hE _ (hPA p hp).ok
    · rcases List.mem_cons.1 h with rfl | h
      · exact phStaged_ok { esc := cfg.esc, refs := [] } hE hF 0
      · obtain ⟨p, hp, rfl⟩ := List.mem_map.1 h
        exact ofLeaf_ok { esc := cfg.esc, refs := [] } hE _ (hPB p hp).ok
  have hLne : L ≠ [] := by simp [L]
  have hsrc : L.map (·.src) = A.map (fun p => p.leaf.src cfg.esc) ++ phNode 0 :: B.map (fun p => p.leaf.src cfg.esc) := by
    simp [L, ofLeaf, phStaged, phNode, List.map_map, Function.comp_def]
  have h1 := run_staged { esc := cfg.esc, refs := [] } L hLok [block ++ ['\n']]
  have h2 := prettify_staged { esc := cfg.esc, refs := [] } L hLne hLok
  have h3 := unescapeTree_staged { esc := cfg.esc, refs := [] } L hLok
  have h4 := serialize_staged { esc := cfg.esc, refs := [] } L hLne hLok
  rw [hsrc] at h1
  -- 6. the output
  have hjoin : joinOutS L = joinOut (A.map (·.leaf)) ++ ['\n'] ++ (Probe.pOpen ++ htmlPlaceholder 0 ++ Probe.pClose) ++ ['\n'] ++
      joinOut (B.map (·.leaf)) := by
    have hBs : (B.map (fun p => ofLeaf cfg.esc p.leaf)) ≠ [] := by simpa using hB
    have e : L = A.map (fun p => ofLeaf cfg.esc p.leaf) ++ ([phStaged 0] ++ B.map (fun p => ofLeaf cfg.esc p.leaf)) := rfl
    rw [e, joinOutS_append _ _ (by simpa using hA) (by simp), joinOutS_append _ _ (by simp) hBs]
    have ea : A.map (fun p => ofLeaf cfg.esc p.leaf) = (A.map (·.leaf)).map (ofLeaf cfg.esc) := by simp [List.map_map]
    have eb : B.map (fun p => ofLeaf cfg.esc p.leaf) = (B.map (·.leaf)).map (ofLeaf cfg.esc) := by simp [List.map_map]
    rw [ea, eb, joinOutS_leaves, joinOutS_leaves]
    simp [joinOutS, phStaged, List.append_assoc]
  obtain ⟨ja1, ja2, ja3⟩ := joinOut_facts (A.map (·.leaf)) (by simpa using hA)
    (by intro l hl; obtain ⟨p, hp, rfl⟩ := List.mem_map.1 hl; exact (hPA p hp).ok)
  obtain ⟨jb1, jb2, jb3⟩ := joinOut_facts (B.map (·.leaf)) (by simpa using hB)
    (by intro l hl; obtain ⟨p, hp, rfl⟩ := List.mem_map.1 hl; exact (hPB p hp).ok)
  have hrawstx : Post.STX ∉ block ++ ['\n'] := by
    intro hm
    rcases List.mem_append.1 hm with h | h
    · have hj : block = joinLines (lines block) := (lines_joinLines block).symm
      rw [hj] at h
      rcases mem_joinLines h with e | ⟨l, hl, hcl⟩
      · revert e; decide
      · exact ((lineSafe_facts (hsafe l hl)).2.1 _ hcl).1 rfl
    · revert h; decide
  have h5 := finish_with_block cfg.blockLevel [block ++ ['\n']] 0 (block ++ ['\n']) (joinOut (A.map (·.leaf)))
    (joinOut (B.map (·.leaf))) rfl ja1 jb1 hrawstx (by rw [hbl]; exact hbh)
    (fun c hc => by rw [ja2] at hc; cases hc; decide) (fun c hc => by rw [jb3] at hc; cases hc; decide)
    (by intro e; rw [e] at ja2; cases ja2) (by intro e; rw [e] at jb3; cases jb3)
  -- assemble
  unfold PipelineH.convertH PipelineH.prepareH
  simp only [hnb, Bool.false_eq_true, if_false, hnorm, hdoc, hext, Option.map_some, htext, hnolt]
  unfold PipelineH.convertFrom
  simp only [hparse, List.reverse_nil, h1, hbl, h2, h3, hfmt, h4, hjoin]
  rw [hbl] at h5
  simp only [h5]

/-! ### 6. the restored block is recognised as block-level -/

open HtmlFrag in
/-- the character behind the tag name is a space or `>` (not a line feed: `BLOCK_LEVEL_REGEX = ^\<\/?([^ >]+)` would
    take it into the tag name) -/
def firstSepOk : List Attr → Str → Bool
  | [], trail => trail.head? != some '\n'
  | a :: _, _ => a.sep.head? == some ' '

open HtmlFrag HtmlTok in
theorem isBlockLevelHtml_block (name : Str) (attrs : List Attr) (trail X : Str)
    (hopen : (Tok.open_ name attrs trail).ok = true) (hfs : firstSepOk attrs trail = true)
    (hb : Extract.isBlockLevelTag (lower name) = true) :
    Post.isBlockLevelHtml TreeProc.defaultBlockLevel ((Tok.open_ name attrs trail).render ++ X) = true := by
  simp only [Tok.ok, Bool.and_eq_true, Bool.not_eq_true'] at hopen
  obtain ⟨⟨⟨hn, has⟩, htr⟩, _⟩ := hopen
  obtain ⟨c, r, rfl, hc, hr⟩ := nameOk_cons hn
  -- what follows the name starts with a space or `>`
  have hY : ∀ e, (afterName attrs trail ++ '>' :: X).head? = some e → e = ' ' ∨ e = '>' := by
    intro e he
    cases attrs with
    | nil =>
      simp only [afterName] at he
      cases trail with
      | nil => simp at he; exact Or.inr he.symm
      | cons t tr =>
        simp at he; subst he
        simp only [spacesOk, List.all_cons, Bool.and_eq_true] at htr
        rcases spCh_cases htr.1 with h | h
        · exact Or.inl h
        · subst h; simp [firstSepOk] at hfs
    | cons a as =>
      simp only [List.all_cons, Bool.and_eq_true] at has
      obtain ⟨hsne, hsall, _⟩ := sep_facts has.1
      obtain ⟨s0, s', hs⟩ := List.exists_cons_of_ne_nil hsne
      simp only [firstSepOk, hs, List.head?_cons, beq_iff_eq, Option.some.injEq] at hfs
      simp [afterName, Attr.render, hs] at he
      subst he; exact Or.inl hfs
  have hall : (c :: r).all (fun ch => ch != ' ' && ch != '>') = true := by
    simp only [List.all_eq_true]; intro e he
    have : nameCh e = true := by
      rcases List.mem_cons.1 he with rfl | he
      · exact alpha_nameCh _ hc
      · exact List.all_eq_true.1 hr e he
    have := nameCh_facts e this; simp [nameChFacts] at this
    have h1 : e ≠ ' ' := by rintro rfl; exact absurd this.1.1.1.1.1.1.1.1.1.1.1.1.2 (by decide)
    simp [h1, this]
  have hspan : spanLen (fun ch => ch != ' ' && ch != '>') ((c :: r) ++ (afterName attrs trail ++ '>' :: X)) =
      (c :: r).length := by
    apply spanLen_stop hall
    intro e he; rcases hY e he with rfl | rfl <;> simp
  have hcf := nameCh_facts c (alpha_nameCh c hc)
  simp [nameChFacts] at hcf
  have hrender : (Tok.open_ (c :: r) attrs trail).render ++ X =
      '<' :: ((c :: r) ++ (afterName attrs trail ++ '>' :: X)) := by simp [Tok.render]
  have hcne : c ≠ '/' := hcf.1.1.1.1.1.1.1.1.1.1.1.2
  have hgroup : Post.blockLevelGroup ('<' :: ((c :: r) ++ (afterName attrs trail ++ '>' :: X))) = some (c :: r) := by
    unfold Post.blockLevelGroup
    simp only [List.cons_append] at hspan ⊢
    split
    · rename_i heq; simp at heq; exact absurd heq.1 hcne
    · rename_i heq
      simp only [List.cons.injEq, true_and] at heq
      subst heq
      rw [hspan]
      simp only [List.length_cons, Nat.zero_lt_succ, decide_true, if_true]
      have := take_len_add (c :: r) (afterName attrs trail ++ '>' :: X) 0
      simpa using this
    · rename_i h1 h2; exact absurd rfl (h2 _)
  have hlow : lower (lower (c :: r)) = lower (c :: r) := by
    apply lower_idem_of_ascii
    intro e he
    have : nameCh e = true := by
      rcases List.mem_cons.1 he with rfl | he
      · exact alpha_nameCh _ hc
      · exact List.all_eq_true.1 hr e he
    exact nameCh_lt e this
  rw [hrender]
  unfold Post.isBlockLevelHtml
  rw [hgroup]
  have hnot : (c = '!' || c = '?' || c = '@' || c = '%') = false := by
    have : c ≠ '!' ∧ c ≠ '?' ∧ c ≠ '@' ∧ c ≠ '%' := by
      refine ⟨?_, ?_, ?_, ?_⟩ <;> (rintro rfl; exact absurd hc (by decide))
    simp [this]
  simp only [hnot, Bool.false_eq_true, if_false, TreeProc.isBlockLevel, TreeProc.defaultBlockLevel]
  simp only [Extract.isBlockLevelTag, hlow] at hb
  exact hb


/-! ### 7. flat Markdown documents around the block -/

open DocParse DocSpec HtmlFrag in
/-- **end to end**: a flat Markdown document (rules, paragraphs, ATX and Setext headings of words and backslash
    escapes, in any spelling), a raw block, another flat document -/
theorem convertH_flat_block (dA dB : Doc) (spA spB : Spelling)
    (hwfA : WF dA = true) (hflatA : FlatDoc dA = true) (hwfB : WF dB = true) (hflatB : FlatDoc dB = true)
    (name : Str) (attrs : List Attr) (trail : Str) (body : List Tok)
    (hopen : (Tok.open_ name attrs trail).ok = true) (hblock : Extract.isBlockLevelTag (lower name) = true)
    (hhr : lower name ≠ hrTag) (hbody : toksOk body = true) (hcl : closesOk (lower name) body = true)
    (hsafe : ∀ l ∈ lines (blockText name attrs trail body), lineSafe l = true)
    (hfs : firstSepOk attrs trail = true) :
    PipelineH.convertH {} (print dA spA ++ nn ++ blockText name attrs trail body ++ nn ++ print dB spB) =
      .ok (spec dA ++ ['\n'] ++ (blockText name attrs trail body ++ ['\n']) ++ ['\n'] ++ spec dB) := by
  have pieces : ∀ (d : Doc) (sp : Spelling), WF d = true → FlatDoc d = true →
      ∃ ps : List Piece, ps ≠ [] ∧ (∀ p ∈ ps, PieceOK Generated.escapedChars 4 p) ∧
        print d sp = srcOf ps ∧ spec d = joinOut (ps.map (·.leaf)) := by
    intro d sp hwf hflat
    simp only [WF, Bool.and_eq_true, Bool.not_eq_true', List.isEmpty_eq_false_iff] at hwf
    obtain ⟨⟨⟨hne, _⟩, hbl⟩, _⟩ := hwf
    have hf : ∀ b ∈ d, isFlatBlock b = true := by
      simpa [FlatDoc, List.all_eq_true] using hflat
    obtain ⟨ps, st', hps, hdefs, hpsne, hoks, houts⟩ :=
      printBlocks_flat d hne hf (wfBlockList_mem hbl) ⟨sp.choices, 1, []⟩
    refine ⟨ps, hpsne, hoks, ?_, by rw [spec, ← houts]⟩
    simp only [print, hps]
    have : st'.defs = [] := hdefs
    simp [this, joinLines, srcOf]
  obtain ⟨A, hA, hPA, hprA, hspA⟩ := pieces dA spA hwfA hflatA
  obtain ⟨B, hB, hPB, hprB, hspB⟩ := pieces dB spB hwfB hflatB
  have hbh := isBlockLevelHtml_block name attrs trail
    (renderToks (body ++ [Tok.close name]) ++ ['\n']) hopen hfs hblock
  have hbt : (Tok.open_ name attrs trail).render ++ (renderToks (body ++ [Tok.close name]) ++ ['\n']) =
      blockText name attrs trail body ++ ['\n'] := by
    simp [blockText, blockToks, renderToks]
  rw [hbt] at hbh
  rw [hprA, hprB, hspA, hspB]
  exact convertH_block {} escOK_generated phFree_generated rfl rfl (by decide) A B hA hB hPA hPB name attrs trail body
    hopen hblock hhr hbody hcl hsafe hbh

open DocParse HtmlFrag Escape in
/-- **end to end**, the simplest instance: one paragraph before and one after the block -/
theorem convertH_para_block (t1 t2 : Str) (ht1 : lineText t1 = true) (ht2 : lineText t2 = true)
    (name : Str) (attrs : List Attr) (trail : Str) (body : List Tok)
    (hopen : (Tok.open_ name attrs trail).ok = true) (hblock : Extract.isBlockLevelTag (lower name) = true)
    (hhr : lower name ≠ hrTag) (hbody : toksOk body = true) (hcl : closesOk (lower name) body = true)
    (hsafe : ∀ l ∈ lines (blockText name attrs trail body), lineSafe l = true)
    (hfs : firstSepOk attrs trail = true) :
    PipelineH.convertH {} (escAll Generated.escapedChars t1 ++ nn ++ blockText name attrs trail body ++ nn ++
        escAll Generated.escapedChars t2) =
      .ok ("<p>".toList ++ Ser.escCdata t1 ++ "</p>".toList ++ ['\n'] ++ (blockText name attrs trail body ++ ['\n']) ++
        ['\n'] ++ ("<p>".toList ++ Ser.escCdata t2 ++ "</p>".toList)) := by
  have hbh := isBlockLevelHtml_block name attrs trail
    (renderToks (body ++ [Tok.close name]) ++ ['\n']) hopen hfs hblock
  have hbt : (Tok.open_ name attrs trail).render ++ (renderToks (body ++ [Tok.close name]) ++ ['\n']) =
      blockText name attrs trail body ++ ['\n'] := by
    simp [blockText, blockToks, renderToks]
  rw [hbt] at hbh
  have h := convertH_block {} escOK_generated phFree_generated rfl rfl (by decide)
    [⟨[Block.spaces 0 ++ escAll Generated.escapedChars t1], .txt "p".toList t1⟩]
    [⟨[Block.spaces 0 ++ escAll Generated.escapedChars t2], .txt "p".toList t2⟩] (by simp) (by simp)
    (by intro p hp; simp at hp; subst hp; exact pieceOK_para escOK_generated 4 0 (by decide) t1 ht1)
    (by intro p hp; simp at hp; subst hp; exact pieceOK_para escOK_generated 4 0 (by decide) t2 ht2)
    name attrs trail body hopen hblock hhr hbody hcl hsafe hbh
  simpa [srcOf, flatLines, joinLines, join, Block.spaces, joinOut, Leaf.out, List.append_assoc] using h


/-! ### 7b. the same for units (no line feed in front of the placeholder) -/

open Block DocParse Probe Escape in
/-- the same without the line feed in front (what the preprocessor leaves for a comment, a processing instruction,
    a declaration, `<hr>`) -/
theorem parseDocument_with_ph0 (tab : Nat) (i : Nat) (A B : List (Str × Node))
    (hPh : Produces tab (htmlPlaceholder i) (phNode i))
    (hPA : ∀ c ∈ A, Produces tab c.1 c.2) (hLA : ∀ c ∈ A, noEmptyLineFrom true c.1 = true)
    (hpreA : ∀ c ∈ A, preCode c.2 = none)
    (hPB : ∀ c ∈ B, Produces tab c.1 c.2) (hLB : ∀ c ∈ B, noEmptyLineFrom true c.1 = true)
    (hpreB : ∀ c ∈ B, preCode c.2 = none) :
    parseDocument tab (joinChunks (A.map (·.1) ++ htmlPlaceholder i :: [] :: B.map (·.1)) ++ ['\n', '\n']) =
      some (divOf (A.map (·.2) ++ phNode i :: B.map (·.2)), []) := by
  have hphne : htmlPlaceholder i ≠ [] := by simp [htmlPlaceholder, Post.htmlPrefix]
  have hnlph : '\n' ∉ htmlPlaceholder i := by
    intro hm
    simp only [htmlPlaceholder, Post.htmlPrefix, List.mem_append, List.mem_cons, List.mem_singleton] at hm
    rcases hm with (hm | hm) | hm
    · rcases hm with h | hm
      · revert h; decide
      · have : '\n' ∈ "wzxhzdk:".toList := hm
        revert this; decide
    · have := List.all_eq_true.1 (StashAtomic.natToDec_all_digit i) _ hm; revert this; decide
    · simp at hm; revert hm; decide
  have hsplit := splitS_chunks_gen (A.map (·.1) ++ htmlPlaceholder i :: [] :: B.map (·.1)) (by simp)
    (by
      intro b hb
      rcases List.mem_append.1 hb with hb | hb
      · obtain ⟨c, hc, rfl⟩ := List.mem_map.1 hb; exact ⟨true, hLA c hc⟩
      · rcases List.mem_cons.1 hb with rfl | hb
        · exact ⟨true, nel_line _ hphne hnlph⟩
        · rcases List.mem_cons.1 hb with rfl | hb
          · exact ⟨false, rfl⟩
          · obtain ⟨c, hc, rfl⟩ := List.mem_map.1 hb; exact ⟨true, hLB c hc⟩)
  have hlen := length_joinChunks (A.map (·.1) ++ htmlPlaceholder i :: [] :: B.map (·.1))
  simp only [List.length_append, List.length_cons, List.length_map] at hlen
  obtain ⟨g, hg⟩ : ∃ g, fuelFor (joinChunks (A.map (·.1) ++ htmlPlaceholder i :: [] :: B.map (·.1)) ++
      ['\n', '\n']).length = ((g + 1) + B.length + 2) + A.length :=
    ⟨fuelFor (joinChunks (A.map (·.1) ++ htmlPlaceholder i :: [] :: B.map (·.1)) ++ ['\n', '\n']).length
        - 3 - B.length - A.length, by
      simp only [fuelFor, List.length_append, List.length_cons, List.length_nil]; omega⟩
  simp only [parseDocument, parseDocumentWith, parseChunk, hsplit, hg, List.append_assoc, List.cons_append]
  rw [parseBlocks_chunks tab A hPA ((g + 1) + B.length + 2)]
  -- the state after the chunks of `A`
  have hlastA : ∀ sib, ({ Node.el "div" with children := (Node.el "div").children ++ A.map (·.2) } : Node).last? =
      some sib → preCode sib = none := by
    intro sib hs
    simp only [Node.last?, Node.el, List.nil_append] at hs
    obtain ⟨c, hc, rfl⟩ := List.mem_map.1 (List.mem_of_getLast? hs)
    exact hpreA c hc
  have hlastP : ∀ sib, (Node.append { Node.el "div" with children := (Node.el "div").children ++ A.map (·.2) }
      (phNode i)).last? = some sib → preCode sib = none := by
    intro sib hs
    simp only [Node.last?, Node.append, List.getLast?_append, List.getLast?_singleton, Option.some_or,
      Option.some.injEq] at hs
    subst hs; rfl
  simp only [parseBlocks, hPh _ [] _ _,
    dispatch_empty_mid tab _ [] [] _ _ hlastP]
  rw [parseBlocks_chunks tab B hPB (g + 1)]
  have hlastB : ∀ sib, ({ Node.append { Node.el "div" with children := (Node.el "div").children ++ A.map (·.2) }
      (phNode i) with children := (Node.append { Node.el "div" with children := (Node.el "div").children ++ A.map (·.2) }
      (phNode i)).children ++ B.map (·.2) } : Node).last? = some sib → preCode sib = none := by
    intro sib hs
    simp only [Node.last?, Node.el, Node.append, List.nil_append] at hs
    rcases List.mem_append.1 (List.mem_of_getLast? hs) with h | h
    · rcases List.mem_append.1 h with h | h
      · obtain ⟨c, hc, rfl⟩ := List.mem_map.1 h; exact hpreA c hc
      · simp at h; subst h; rfl
    · obtain ⟨c, hc, rfl⟩ := List.mem_map.1 h; exact hpreB c hc
  simp only [parseBlocks, dispatch_empty_block tab _ [] [] _ hlastB]
  simp [divOf, Node.el, Node.append]



open DocParse HtmlFrag HtmlTok Extract Probe in
/-- **end to end**, generic: pieces, a raw item the preprocessor replaces by one placeholder line (`lead`: with a line
    feed in front, as for a block element), pieces -/
theorem convertH_raw (cfg : Pipeline.Cfg) (hE : EscOK cfg.esc) (hF : PhFree cfg.esc)
    (hbl : cfg.blockLevel = TreeProc.defaultBlockLevel) (hfmt : cfg.fmt = .xhtml) (htab : 0 < cfg.tab)
    (A B : List Piece) (hA : A ≠ []) (hB : B ≠ [])
    (hPA : ∀ p ∈ A, PieceOK cfg.esc cfg.tab p) (hPB : ∀ p ∈ B, PieceOK cfg.esc cfg.tab p)
    (block : Str) (lead : Bool)
    (hext : extractText (srcOf A ++ nn ++ block ++ nn ++ (srcOf B ++ nn)) =
      some ⟨false, false, [], [],
        (srcOf A ++ nn) :: ((if lead then [['\n']] else []) ++ [placeholder 0, nn, nn ++ (srcOf B ++ nn)]),
        [block ++ ['\n']]⟩)
    (hsafe : ∀ l ∈ lines block, lineSafe l = true)
    (hbh : Post.isBlockLevelHtml TreeProc.defaultBlockLevel (block ++ ['\n']) = true) :
    PipelineH.convertH cfg (srcOf A ++ nn ++ block ++ nn ++ srcOf B) =
      .ok (joinOut (A.map (·.leaf)) ++ ['\n'] ++ (block ++ ['\n']) ++ ['\n'] ++ joinOut (B.map (·.leaf))) := by
  obtain ⟨hlA, hcA⟩ := srcOf_chars cfg.esc cfg.tab A hPA
  obtain ⟨hlB, hcB⟩ := srcOf_chars cfg.esc cfg.tab B hPB
  -- 1. not blank
  have hnb : Normalize.isBlankDoc (srcOf A ++ nn ++ block ++ nn ++ srcOf B) = false := by
    rw [Normalize.isBlankDoc_eq_all]
    obtain ⟨p, r, rfl⟩ := List.exists_cons_of_ne_nil hA
    obtain ⟨c, hc, hcs⟩ := (hPA p List.mem_cons_self).vis
    have hmem : c ∈ srcOf (p :: r) := by
      rw [srcOf_eq cfg.esc cfg.tab _ hPA]
      cases r with
      | nil => simpa [joinChunks] using hc
      | cons a b => simp [joinChunks, hc]
    cases hall : (srcOf (p :: r) ++ nn ++ block ++ nn ++ srcOf B).all isSpace with
    | false => rfl
    | true =>
      have := List.all_eq_true.1 hall c (by simp [hmem])
      rw [hcs] at this; cases this
  -- 2. normalisation
  have hnorm : Normalize.normalize cfg.tab (srcOf A ++ nn ++ block ++ nn ++ srcOf B) =
      srcOf A ++ nn ++ block ++ nn ++ srcOf B ++ nn := by
    have hls : ∀ l ∈ lines (srcOf A ++ nn ++ block ++ nn ++ srcOf B), lineSafe l = true := by
      intro l hl
      rw [show nn = ['\n', '\n'] from rfl, lines_doc, srcOf_lines cfg.esc cfg.tab A hA hPA,
        srcOf_lines cfg.esc cfg.tab B hB hPB] at hl
      simp only [List.mem_append, List.mem_singleton] at hl
      rcases hl with (((h | h) | h) | h) | h
      · exact (hlA l h).1
      · subst h; decide
      · exact hsafe l h
      · subst h; decide
      · exact (hlB l h).1
    have := normalize_lines cfg.tab (lines (srcOf A ++ nn ++ block ++ nn ++ srcOf B))
      (by have := splitC_length_pos '\n' (srcOf A ++ nn ++ block ++ nn ++ srcOf B)
          intro e; unfold lines at e; rw [e] at this; simp at this) hls
    rw [lines_joinLines] at this
    exact this
  -- 3. the preprocessor: `hext`
  have hdoc : srcOf A ++ nn ++ block ++ nn ++ srcOf B ++ nn = srcOf A ++ nn ++ block ++ nn ++ (srcOf B ++ nn) := by
    simp [List.append_assoc]
  -- the text handed to the block parser
  have htext : cleanText (⟨false, false, [], [],
      (srcOf A ++ nn) :: ((if lead then [['\n']] else []) ++ [placeholder 0, nn, nn ++ (srcOf B ++ nn)]),
      [block ++ ['\n']]⟩ : ExSt) =
      joinChunks (A.map (fun p => joinLines p.g) ++ ((if lead then ['\n'] else []) ++ htmlPlaceholder 0) :: [] ::
        B.map (fun p => joinLines p.g)) ++ ['\n', '\n'] := by
    rw [joinChunks_append _ _ (by simpa using hA) (by simp), ← srcOf_eq cfg.esc cfg.tab A hPA]
    have : joinChunks (((if lead then ['\n'] else []) ++ htmlPlaceholder 0) :: [] :: B.map (fun p => joinLines p.g)) =
        ((if lead then ['\n'] else []) ++ htmlPlaceholder 0) ++ ['\n', '\n'] ++ ([] ++ ['\n', '\n'] ++ srcOf B) := by
      rw [srcOf_eq cfg.esc cfg.tab B hPB]
      obtain ⟨b, B', rfl⟩ := List.exists_cons_of_ne_nil hB
      simp [joinChunks]
    rw [this, placeholder_eq]
    cases lead <;> simp [cleanText, nn, List.append_assoc]
  have hnolt : (joinChunks (A.map (fun p => joinLines p.g) ++ ((if lead then ['\n'] else []) ++ htmlPlaceholder 0) :: [] ::
      B.map (fun p => joinLines p.g)) ++ ['\n', '\n']).contains '<' = false := by
    rw [← htext]
    have hph : '<' ∉ placeholder 0 := by
      rw [placeholder_eq]
      intro hm; rcases ph_chars 0 _ hm with h | h | h | h <;> revert h <;> decide
    have hA' : '<' ∉ srcOf A := fun h => (hcA _ h).1 rfl
    have hB' : '<' ∉ srcOf B := fun h => (hcB _ h).1 rfl
    cases lead <;> simp [cleanText, nn, hph, hA', hB']
  -- 4. the block parser
  have hparse : Block.parseDocument cfg.tab
      (joinChunks ((A.map (fun p => (joinLines p.g, p.leaf.src cfg.esc))).map (·.1) ++
        ((if lead then ['\n'] else []) ++ htmlPlaceholder 0) :: [] ::
        (B.map (fun p => (joinLines p.g, p.leaf.src cfg.esc))).map (·.1)) ++ ['\n', '\n']) =
      some (divOf ((A.map (fun p => (joinLines p.g, p.leaf.src cfg.esc))).map (·.2) ++ phNode 0 ::
        (B.map (fun p => (joinLines p.g, p.leaf.src cfg.esc))).map (·.2)), []) := by
    cases lead
    · exact parseDocument_with_ph0 cfg.tab 0 _ _ (produces_ph hE hF cfg.tab htab 0)
        (by intro c hc; obtain ⟨p, hp, rfl⟩ := List.mem_map.1 hc; exact (hPA p hp).prod)
        (by intro c hc; obtain ⟨p, hp, rfl⟩ := List.mem_map.1 hc; exact (hPA p hp).nel)
        (by intro c hc; obtain ⟨p, hp, rfl⟩ := List.mem_map.1 hc; exact preCode_leaf _ _ (hPA p hp).ok)
        (by intro c hc; obtain ⟨p, hp, rfl⟩ := List.mem_map.1 hc; exact (hPB p hp).prod)
        (by intro c hc; obtain ⟨p, hp, rfl⟩ := List.mem_map.1 hc; exact (hPB p hp).nel)
        (by intro c hc; obtain ⟨p, hp, rfl⟩ := List.mem_map.1 hc; exact preCode_leaf _ _ (hPB p hp).ok)
    · exact parseDocument_with_ph cfg.tab 0 _ _ (produces_ph hE hF cfg.tab htab 0)
        (by intro c hc; obtain ⟨p, hp, rfl⟩ := List.mem_map.1 hc; exact (hPA p hp).prod)
        (by intro c hc; obtain ⟨p, hp, rfl⟩ := List.mem_map.1 hc; exact (hPA p hp).nel)
        (by intro c hc; obtain ⟨p, hp, rfl⟩ := List.mem_map.1 hc; exact preCode_leaf _ _ (hPA p hp).ok)
        (by intro c hc; obtain ⟨p, hp, rfl⟩ := List.mem_map.1 hc; exact (hPB p hp).prod)
        (by intro c hc; obtain ⟨p, hp, rfl⟩ := List.mem_map.1 hc; exact (hPB p hp).nel)
        (by intro c hc; obtain ⟨p, hp, rfl⟩ := List.mem_map.1 hc; exact preCode_leaf _ _ (hPB p hp).ok)
  simp only [List.map_map] at hparse
  have e1 : ((fun c : Str × Node => c.1) ∘ fun p : Piece => (joinLines p.g, p.leaf.src cfg.esc)) =
      fun p => joinLines p.g := rfl
  have e2 : ((fun c : Str × Node => c.2) ∘ fun p : Piece => (joinLines p.g, p.leaf.src cfg.esc)) =
      fun p => p.leaf.src cfg.esc := rfl
  rw [e1, e2] at hparse
  -- 5. the staged elements
  let L : List Staged := A.map (fun p => ofLeaf cfg.esc p.leaf) ++ phStaged 0 :: B.map (fun p => ofLeaf cfg.esc p.leaf)
  have hLok : ∀ e ∈ L, e.OK { esc := cfg.esc, refs := [] } := by
    intro e he
    rcases List.mem_append.1 he with h | h
    · obtain ⟨p, hp, rfl⟩ := List.mem_map.1 h
      exact ofLeaf_ok { esc := cfg.esc, refs := [] } hE _ (hPA p hp).ok
    · rcases List.mem_cons.1 h with rfl | h
      · exact phStaged_ok { esc := cfg.esc, refs := [] } hE hF 0
      · obtain ⟨p, hp, rfl⟩ := List.mem_map.1 h
        exact ofLeaf_ok { esc := cfg.esc, refs := [] } hE _ (hPB p hp).ok
  have hLne : L ≠ [] := by simp [L]
  have hsrc : L.map (·.src) = A.map (fun p => p.leaf.src cfg.esc) ++ phNode 0 :: B.map (fun p => p.leaf.src cfg.esc) := by
    simp [L, ofLeaf, phStaged, phNode, List.map_map, Function.comp_def]
  have h1 := run_staged { esc := cfg.esc, refs := [] } L hLok [block ++ ['\n']]
  have h2 := prettify_staged { esc := cfg.esc, refs := [] } L hLne hLok
  have h3 := unescapeTree_staged { esc := cfg.esc, refs := [] } L hLok
  have h4 := serialize_staged { esc := cfg.esc, refs := [] } L hLne hLok
  rw [hsrc] at h1
  -- 6. the output
  have hjoin : joinOutS L = joinOut (A.map (·.leaf)) ++ ['\n'] ++ (Probe.pOpen ++ htmlPlaceholder 0 ++ Probe.pClose) ++ ['\n'] ++
      joinOut (B.map (·.leaf)) := by
    have hBs : (B.map (fun p => ofLeaf cfg.esc p.leaf)) ≠ [] := by simpa using hB
    have e : L = A.map (fun p => ofLeaf cfg.esc p.leaf) ++ ([phStaged 0] ++ B.map (fun p => ofLeaf cfg.esc p.leaf)) := rfl
    rw [e, joinOutS_append _ _ (by simpa using hA) (by simp), joinOutS_append _ _ (by simp) hBs]
    have ea : A.map (fun p => ofLeaf cfg.esc p.leaf) = (A.map (·.leaf)).map (ofLeaf cfg.esc) := by simp [List.map_map]
    have eb : B.map (fun p => ofLeaf cfg.esc p.leaf) = (B.map (·.leaf)).map (ofLeaf cfg.esc) := by simp [List.map_map]
    rw [ea, eb, joinOutS_leaves, joinOutS_leaves]
    simp [joinOutS, phStaged, List.append_assoc]
  obtain ⟨ja1, ja2, ja3⟩ := joinOut_facts (A.map (·.leaf)) (by simpa using hA)
    (by intro l hl; obtain ⟨p, hp, rfl⟩ := List.mem_map.1 hl; exact (hPA p hp).ok)
  obtain ⟨jb1, jb2, jb3⟩ := joinOut_facts (B.map (·.leaf)) (by simpa using hB)
    (by intro l hl; obtain ⟨p, hp, rfl⟩ := List.mem_map.1 hl; exact (hPB p hp).ok)
  have hrawstx : Post.STX ∉ block ++ ['\n'] := by
    intro hm
    rcases List.mem_append.1 hm with h | h
    · have hj : block = joinLines (lines block) := (lines_joinLines block).symm
      rw [hj] at h
      rcases mem_joinLines h with e | ⟨l, hl, hcl⟩
      · revert e; decide
      · exact ((lineSafe_facts (hsafe l hl)).2.1 _ hcl).1 rfl
    · revert h; decide
  have h5 := finish_with_block cfg.blockLevel [block ++ ['\n']] 0 (block ++ ['\n']) (joinOut (A.map (·.leaf)))
    (joinOut (B.map (·.leaf))) rfl ja1 jb1 hrawstx (by rw [hbl]; exact hbh)
    (fun c hc => by rw [ja2] at hc; cases hc; decide) (fun c hc => by rw [jb3] at hc; cases hc; decide)
    (by intro e; rw [e] at ja2; cases ja2) (by intro e; rw [e] at jb3; cases jb3)
  -- assemble
  unfold PipelineH.convertH PipelineH.prepareH
  simp only [hnb, Bool.false_eq_true, if_false, hnorm, hdoc, hext, Option.map_some, htext, hnolt]
  unfold PipelineH.convertFrom
  simp only [hparse, List.reverse_nil, h1, hbl, h2, h3, hfmt, h4, hjoin]
  rw [hbl] at h5
  simp only [h5]


/-! ### 8. units end to end -/

open DocParse DocSpec in
/-- a well-formed flat document is a list of pieces -/
theorem flat_pieces (d : Doc) (sp : Spelling) (hwf : WF d = true) (hflat : FlatDoc d = true) :
    ∃ ps : List Piece, ps ≠ [] ∧ (∀ p ∈ ps, PieceOK Generated.escapedChars 4 p) ∧
      print d sp = srcOf ps ∧ spec d = joinOut (ps.map (·.leaf)) := by
  simp only [WF, Bool.and_eq_true, Bool.not_eq_true', List.isEmpty_eq_false_iff] at hwf
  obtain ⟨⟨⟨hne, _⟩, hbl⟩, _⟩ := hwf
  have hf : ∀ b ∈ d, isFlatBlock b = true := by
    simpa [FlatDoc, List.all_eq_true] using hflat
  obtain ⟨ps, st', hps, hdefs, hpsne, hoks, houts⟩ :=
    printBlocks_flat d hne hf (wfBlockList_mem hbl) ⟨sp.choices, 1, []⟩
  refine ⟨ps, hpsne, hoks, ?_, by rw [spec, ← houts]⟩
  simp only [print, hps]
  have : st'.defs = [] := hdefs
  simp [this, joinLines, srcOf]

/-- a stash entry that starts with `<!` or `<?` is block-level for `RawHtmlPostprocessor.isblocklevel` -/
theorem isBlockLevelHtml_bang (bl : List Str) (c : Char) (hc : c = '!' ∨ c = '?') (r : Str) :
    Post.isBlockLevelHtml bl ('<' :: c :: r) = true := by
  have hcls : (c != ' ' && c != '>') = true := by rcases hc with rfl | rfl <;> decide
  have hne : c ≠ '/' := by rcases hc with rfl | rfl <;> decide
  have hspan : spanLen (fun ch => ch != ' ' && ch != '>') (c :: r) =
      spanLen (fun ch => ch != ' ' && ch != '>') r + 1 := by
    rw [spanLen_cons]; simp only [hcls, if_true]
  have hg : Post.blockLevelGroup ('<' :: c :: r) =
      some (c :: r.take (spanLen (fun ch => ch != ' ' && ch != '>') r)) := by
    unfold Post.blockLevelGroup
    split
    · rename_i h2; simp at h2; exact absurd h2.1 hne
    · rename_i r' h1 h2
      simp only [List.cons.injEq, true_and] at h2
      subst h2
      simp only [hspan, Nat.zero_lt_succ, decide_true, if_true, List.take_succ_cons]
    · rename_i h1 h2; exact absurd rfl (h2 _)
  unfold Post.isBlockLevelHtml
  rw [hg]
  rcases hc with rfl | rfl <;> simp

open DocParse DocSpec HtmlFrag HtmlTok in
/-- **end to end**: flat Markdown, a unit (comment, processing instruction, declaration, `<hr>`), flat Markdown -/
theorem convertH_flat_unit (u : HtmlTok.Unit) (hu : u.OK) (dA dB : Doc) (spA spB : Spelling)
    (hwfA : WF dA = true) (hflatA : FlatDoc dA = true) (hwfB : WF dB = true) (hflatB : FlatDoc dB = true)
    (hsafe : ∀ l ∈ lines u.text, lineSafe l = true)
    (hbh : Post.isBlockLevelHtml TreeProc.defaultBlockLevel (u.text ++ ['\n']) = true) :
    PipelineH.convertH {} (print dA spA ++ nn ++ u.text ++ nn ++ print dB spB) =
      .ok (spec dA ++ ['\n'] ++ (u.text ++ ['\n']) ++ ['\n'] ++ spec dB) := by
  obtain ⟨A, hA, hPA, hprA, hspA⟩ := flat_pieces dA spA hwfA hflatA
  obtain ⟨B, hB, hPB, hprB, hspB⟩ := flat_pieces dB spB hwfB hflatB
  obtain ⟨_, hcA⟩ := srcOf_chars _ _ A hPA
  obtain ⟨_, hcB⟩ := srcOf_chars _ _ B hPB
  have hpA : plainOk (srcOf A) = true := by
    simp only [plainOk, Bool.and_eq_true, Bool.not_eq_true', List.contains_eq_mem, decide_eq_false_iff_not]
    exact ⟨fun h => (hcA _ h).1 rfl, fun h => (hcA _ h).2 rfl⟩
  have hpB : plainOk (srcOf B ++ nn) = true := by
    simp only [plainOk, Bool.and_eq_true, Bool.not_eq_true', List.contains_eq_mem, decide_eq_false_iff_not,
      List.mem_append, not_or]
    exact ⟨⟨fun h => (hcB _ h).1 rfl, by decide⟩, ⟨fun h => (hcB _ h).2 rfl, by decide⟩⟩
  have hext := extract_unit_state u hu (srcOf A) (srcOf B ++ nn) hpA hpB
  rw [hprA, hprB, hspA, hspB]
  exact convertH_raw {} escOK_generated phFree_generated rfl rfl (by decide) A B hA hB hPA hPB u.text false
    (by simpa using hext) hsafe hbh

end MdVerif.C04E2E


namespace MdVerif.HtmlTok
open Py Extract HtmlFrag

/-- the extractor state after a document `block ¶ p2` (the block is the first thing in the document) -/
theorem extract_block_state0 (p2 name : Str) (attrs : List Attr) (trail : Str) (body : List Tok)
    (hp2 : plainOk p2 = true)
    (hopen : (Tok.open_ name attrs trail).ok = true) (hblock : isBlockLevelTag (lower name) = true)
    (hhr : lower name ≠ hrTag) (hbody : toksOk body = true) (hcl : closesOk (lower name) body = true) :
    extractText (blockText name attrs trail body ++ nn ++ p2) =
      some { inraw := false, intail := false, stack := [], cache := [],
             cleandoc := [['\n'], placeholder 0, nn, nn ++ p2],
             stash := [blockText name attrs trail body ++ ['\n']] } := by
  -- the document as a token sequence
  let toks : List Tok := .open_ name attrs trail :: (body ++ (.close name :: [.text (nn ++ p2)]))
  have hnameok : nameOk name = true := by
    simp only [Tok.ok, Bool.and_eq_true] at hopen; exact hopen.1.1.1
  have hrender : renderToks toks = blockText name attrs trail body ++ nn ++ p2 := by
    simp [toks, renderToks, renderToks_append, blockText, blockToks, Tok.render]
  have ht2 : (Tok.text (nn ++ p2)).ok = true := plain_text_ok _ (plain_append_nn p2 hp2).2 (by simp [nn])
  have htoks : toksOk toks = true := by
    refine toksOk_cons_of hopen ?_ (by intro h; cases h)
    exact toksOk_append_nontext body (.close name) [.text (nn ++ p2)] hbody
      (toksOk_close_text _ _ hnameok ht2) rfl
  have hev := events_of_toks toks htoks
  rw [hrender] at hev
  -- the events
  generalize hdoc : blockText name attrs trail body ++ nn ++ p2 = doc at hev ⊢
  have hals : atLineStart doc (posOf ([] : Str)) = true := atLineStart_nil doc
  -- the prefix in front of the end tag
  have hlook : look doc (posOf (([] : Str) ++ (Tok.open_ name attrs trail).render ++
      renderToks body)) (Tok.close name).render = true := by
    have : doc = (([] : Str) ++ (Tok.open_ name attrs trail).render ++ renderToks body) ++
        ((Tok.close name).render ++ (nn ++ p2)) := by
      rw [← hdoc]; simp [blockText, blockToks, renderToks, renderToks_append, Tok.render]
    rw [this, look_posOf, blankLine_nn]
  obtain ⟨extra, hrun, hnot⟩ := closesOk_spec hcl
  have hcontent := content_of_stackRun doc body
    (([] : Str) ++ (Tok.open_ name attrs trail).render) _ _ hrun
  -- the block's events form a balanced block
  have hbal : BalancedBlock (lower name)
      (tokEvent doc (posOf ([] : Str)) (.open_ name attrs trail) ::
        (toksEvents doc (([] : Str) ++ (Tok.open_ name attrs trail).render) body ++
          [tokEvent doc (posOf (([] : Str) ++ (Tok.open_ name attrs trail).render ++
            renderToks body)) (.close name)])) := by
    have hnhr : ¬ (lower name = ['h', 'r']) := hhr
    simp only [tokEvent, tagEvent, Bool.false_eq_true, if_false, hals, hblock, hnhr, decide_false]
    exact BalancedBlock.mk _ _ _ _ _ extra hcontent hnot
  have hblockText : evsText
      (tokEvent doc (posOf ([] : Str)) (.open_ name attrs trail) ::
        (toksEvents doc (([] : Str) ++ (Tok.open_ name attrs trail).render) body ++
          [tokEvent doc (posOf (([] : Str) ++ (Tok.open_ name attrs trail).render ++
            renderToks body)) (.close name)])) = blockText name attrs trail body := by
    have h1 := tokEvent_text doc (posOf ([] : Str)) _ hopen
    have h2 := evsText_toksEvents doc body
      (([] : Str) ++ (Tok.open_ name attrs trail).render) hbody
    have h3 := tokEvent_text doc (posOf (([] : Str) ++
      (Tok.open_ name attrs trail).render ++ renderToks body)) (.close name) hnameok
    simp only [evsText, List.map_cons, List.map_append, List.flatten_cons, List.flatten_append, List.map_nil,
      List.flatten_nil, List.append_nil] at h2 ⊢
    rw [h1, h2, h3]
    simp [blockText, blockToks, renderToks, renderToks_append]
  have hlast : lastBlankFollows
      (tokEvent doc (posOf ([] : Str)) (.open_ name attrs trail) ::
        (toksEvents doc (([] : Str) ++ (Tok.open_ name attrs trail).render) body ++
          [tokEvent doc (posOf (([] : Str) ++ (Tok.open_ name attrs trail).render ++
            renderToks body)) (.close name)])) = true := by
    rw [← List.cons_append]
    simp only [tokEvent]
    rw [lastBlankFollows_append_end, hlook]
  unfold extractText
  rw [hev]
  simp only [Option.map_some, Option.some.injEq]
  -- run the callbacks
  have hsplit : toksEvents doc [] toks ++ [Event.close []] =
      ((tokEvent doc (posOf ([] : Str)) (.open_ name attrs trail) ::
        (toksEvents doc (([] : Str) ++ (Tok.open_ name attrs trail).render) body ++
          [tokEvent doc (posOf (([] : Str) ++ (Tok.open_ name attrs trail).render ++
            renderToks body)) (.close name)])) ++ [.data (nn ++ p2), .close []]) := by
    simp [toks, toksEvents, toksEvents_append, tokEvent, List.append_assoc]
  rw [hsplit]
  unfold runEvents
  rw [runFrom_append]
  rw [C04_block_once hbal _ rfl rfl rfl rfl, hblockText, hlast]
  simp [runFrom, step, handleData, handleClose, nn, init]


/-- the extractor state after a document `unit ¶ p2` (the unit is the first thing in the document) -/
theorem extract_unit_state0 (u : Unit) (hu : u.OK) (p2 : Str) (hp2 : plainOk p2 = true) :
    extractText (u.text ++ nn ++ p2) =
      some { cleandoc := [placeholder 0, nn, nn ++ p2], stash := [u.text ++ ['\n']] } := by
  obtain ⟨r, hr⟩ := hu.head
  have ht2 : (Tok.text (nn ++ p2)).ok = true := plain_text_ok _ (plain_append_nn p2 hp2).2 (by simp [nn])
  generalize hdoc : u.text ++ nn ++ p2 = doc
  have hsplit : doc = u.text ++ (nn ++ p2) := by rw [← hdoc]; simp
  obtain ⟨f, hf⟩ : ∃ f, doc.length + 1 = ((f + 1) + 1) + 1 := ⟨doc.length - 2, by
    rw [hsplit, hr] at *; simp [nn] at *; omega⟩
  have hals : atLineStart doc (posOf []) = true := atLineStart_nil doc
  have h2 := hu.go doc ((f + 1) + 1) (nn ++ p2) (posOf []) init hals
  have hlook : look doc (posOf []) u.text = true := by
    have : doc = ([] : Str) ++ (u.text ++ (nn ++ p2)) := by rw [hsplit]; simp
    rw [this, look_posOf, blankLine_nn]
  have hd3 : Delim ([] : Str) := by intro c hc; simp at hc
  have h3 := go1_tok doc (f + 1) (.text (nn ++ p2)) [] (updatePos (posOf []) u.text)
    (step init (u.ev true)) ht2 (fun _ => hd3)
  have hgo : go1 doc (doc.length + 1) doc {} init = some ([u.ev true, .data (nn ++ p2)],
      runFrom init [u.ev true, .data (nn ++ p2)], []) := by
    have e : go1 doc (doc.length + 1) doc {} init =
        go1 doc ((f + 1) + 1 + 1) (u.text ++ (nn ++ p2)) (posOf []) init := by
      rw [hf]; congr 1
    rw [e, h2, hlook]
    simp only [List.append_nil, Tok.render] at h3
    rw [h3]
    simp [go1, consEvs, tokEvent, runFrom]
  have hev : events doc = some ([u.ev true, .data (nn ++ p2)] ++ [.close []]) := by
    unfold events
    rw [hgo]
    simp [go2]
  unfold extractText
  rw [hev]
  simp only [Option.map_some, Option.some.injEq]
  unfold runEvents
  simp only [List.cons_append, List.nil_append, runFrom, List.foldl_cons, List.foldl_nil]
  rw [hu.step]
  simp [step, handleData, handleEmpty, handleClose, init, needsNewline, storeAppend, nn, endsWith]

end MdVerif.HtmlTok

namespace MdVerif.C04E2E
open Py

/-! ### 9. the raw item first, last or alone in the document -/

open Probe StashAtomic Post in
/-- the end of `convert`: `P`, the placeholder paragraph, `Q` (either side possibly empty) -/
theorem finish_with_block_gen (bl : List Str) (stash : List Str) (i : Nat) (raw P Q : Str)
    (hi : stash[i]? = some raw) (hP : Post.STX ∉ P) (hQ : Post.STX ∉ Q) (hraw : Post.STX ∉ raw)
    (hb : isBlockLevelHtml bl raw = true)
    (hPh : ∀ c, P.head? = some c → isSpace c = false) (hQl : ∀ c, Q.getLast? = some c → isSpace c = false) :
    finish bl stash ("<div>".toList ++ ('\n' :: (P ++ (pOpen ++ htmlPlaceholder i ++ pClose) ++ Q) ++ ['\n']) ++
        "</div>\n".toList) = some (some (strip (P ++ raw ++ Q))) := by
  have hne : stash ≠ [] := by rintro rfl; simp at hi
  have hpost : contains Q Post.htmlPrefix = false := no_prefix_of_no_stx hQ
  have hall : Post.STX ∉ P ++ raw ++ Q := by
    intro hm
    rcases List.mem_append.1 hm with h | h
    · rcases List.mem_append.1 h with h | h
      · exact hP h
      · exact hraw h
    · exact hQ h
  have h1 := subPass_wrapped bl stash i raw P Q hi hP
  rw [hb, subPass_fix bl stash _ hpost] at h1
  simp only [if_true] at h1
  have hr := rawHtml_of_fix bl stash (stash.length + 1) _ _ hne h1
    (by
      have := no_prefix_of_no_stx hall
      simpa [List.append_assoc] using this)
  have hJh : ∀ c, (P ++ (pOpen ++ htmlPlaceholder i ++ pClose) ++ Q).head? = some c → isSpace c = false := by
    intro c hc
    cases P with
    | nil => simp [pOpen] at hc; subst hc; decide
    | cons a P' => simp at hc; subst hc; exact hPh _ rfl
  have hJl : ∀ c, (P ++ (pOpen ++ htmlPlaceholder i ++ pClose) ++ Q).getLast? = some c → isSpace c = false := by
    intro c hc
    by_cases hq : Q = []
    · subst hq
      simp only [List.append_nil] at hc
      rw [getLast?_append_ne _ _ (by simp [pOpen]), getLast?_append_ne _ _ (by simp [pClose])] at hc
      simp [pClose] at hc; subst hc; decide
    · rw [getLast?_append_ne _ _ hq] at hc
      exact hQl c hc
  have hs2 : strip ('\n' :: (P ++ (pOpen ++ htmlPlaceholder i ++ pClose) ++ Q) ++ ['\n']) =
      P ++ (pOpen ++ htmlPlaceholder i ++ pClose) ++ Q := by
    have := strip_append_of_blank (a := ['\n']) (b := ['\n']) (by decide) (by decide)
      (P ++ (pOpen ++ htmlPlaceholder i ++ pClose) ++ Q)
    have e : '\n' :: (P ++ (pOpen ++ htmlPlaceholder i ++ pClose) ++ Q) ++ ['\n'] =
        ['\n'] ++ (P ++ (pOpen ++ htmlPlaceholder i ++ pClose) ++ Q) ++ ['\n'] := by simp
    rw [e, this, strip_eq_self hJh hJl]
  have hform : P ++ (pOpen ++ htmlPlaceholder i ++ pClose) ++ Q =
      P ++ (pOpen ++ (htmlPlaceholder i ++ (pClose ++ Q))) := by simp [List.append_assoc]
  unfold finish
  rw [topLevelStrip_div, hs2, hform]
  simp only [post, rawHtmlFuel, hr, Option.map_some]
  have hamp := ampSub_of_no_stx hall
  simp only [List.append_assoc] at hamp ⊢
  rw [hamp]

open DocParse HtmlFrag in
/-- source text in front of the raw item: nothing, or pieces and a blank line -/
def preSrc (A : List Piece) : Str := if A.isEmpty then [] else srcOf A ++ nn
open DocParse HtmlFrag in
/-- source text behind the raw item: nothing, or a blank line and pieces -/
def postSrc (B : List Piece) : Str := if B.isEmpty then [] else nn ++ srcOf B
open DocParse HtmlFrag in
/-- what the extractor sees behind the blank line that follows the raw item (after normalisation) -/
def p2Of (B : List Piece) : Str := if B.isEmpty then [] else srcOf B ++ nn
open DocParse in
def preOut (A : List Piece) : Str := if A.isEmpty then [] else joinOut (A.map (·.leaf)) ++ ['\n']
open DocParse in
def postOut (B : List Piece) : Str := if B.isEmpty then [] else ['\n', '\n'] ++ joinOut (B.map (·.leaf))

theorem lines_nn (a b : Str) : lines (a ++ ['\n', '\n'] ++ b) = lines a ++ [[]] ++ lines b := by
  have e : a ++ ['\n', '\n'] ++ b = a ++ '\n' :: ([] ++ '\n' :: b) := by simp
  rw [e]
  simp only [lines, splitC_append_sep]
  simp [splitC]

open DocParse in
theorem joinChunks_mid (X Y : List Str) (m : Str) :
    joinChunks (X ++ m :: [] :: Y) ++ ['\n', '\n'] =
      (if X.isEmpty then [] else joinChunks X ++ ['\n', '\n']) ++ m ++ ['\n', '\n'] ++ ['\n', '\n'] ++
        (if Y.isEmpty then [] else joinChunks Y ++ ['\n', '\n']) := by
  have hY : joinChunks (m :: [] :: Y) = m ++ ['\n', '\n'] ++ (if Y.isEmpty then [] else ['\n', '\n'] ++ joinChunks Y) := by
    cases Y with
    | nil => simp [joinChunks]
    | cons y Y' => simp [joinChunks]
  cases X with
  | nil =>
    simp only [List.nil_append, List.isEmpty_nil, if_true, hY]
    cases Y <;> simp [List.append_assoc]
  | cons x X' =>
    rw [joinChunks_append _ _ (by simp) (by simp), hY]
    cases Y <;> simp [List.append_assoc]

open DocParse in
theorem joinOutS_mid (esc : List Char) (LA LB : List Leaf) (x : Staged) :
    joinOutS (LA.map (ofLeaf esc) ++ x :: LB.map (ofLeaf esc)) =
      (if LA.isEmpty then [] else joinOut LA ++ ['\n']) ++ x.out ++
        (if LB.isEmpty then [] else ['\n'] ++ joinOut LB) := by
  have hright : joinOutS (x :: LB.map (ofLeaf esc)) = x.out ++ (if LB.isEmpty then [] else ['\n'] ++ joinOut LB) := by
    cases LB with
    | nil => simp [joinOutS]
    | cons b LB' =>
      have : (x :: (b :: LB').map (ofLeaf esc)) = [x] ++ (b :: LB').map (ofLeaf esc) := rfl
      rw [this, joinOutS_append _ _ (by simp) (by simp), joinOutS_leaves]
      simp [joinOutS, List.append_assoc]
  cases LA with
  | nil => simpa using hright
  | cons a LA' =>
    rw [joinOutS_append _ _ (by simp) (by simp), hright, joinOutS_leaves]
    simp [List.append_assoc]

open DocParse HtmlFrag HtmlTok Extract Probe in
/-- **end to end**, generic, the raw item anywhere: possibly no pieces before it, possibly none behind it -/
theorem convertH_gen (cfg : Pipeline.Cfg) (hE : EscOK cfg.esc) (hF : PhFree cfg.esc)
    (hbl : cfg.blockLevel = TreeProc.defaultBlockLevel) (hfmt : cfg.fmt = .xhtml) (htab : 0 < cfg.tab)
    (A B : List Piece)
    (hPA : ∀ p ∈ A, PieceOK cfg.esc cfg.tab p) (hPB : ∀ p ∈ B, PieceOK cfg.esc cfg.tab p)
    (block : Str) (lead : Bool)
    (hext : extractText (preSrc A ++ block ++ nn ++ p2Of B) =
      some ⟨false, false, [], [],
        (if A.isEmpty then [] else [srcOf A ++ nn]) ++ ((if lead then [['\n']] else []) ++
          [placeholder 0, nn, nn ++ p2Of B]),
        [block ++ ['\n']]⟩)
    (hsafe : ∀ l ∈ lines block, lineSafe l = true)
    (hbh : Post.isBlockLevelHtml TreeProc.defaultBlockLevel (block ++ ['\n']) = true)
    (hbs : ∃ r, block = '<' :: r) (hbe : block.getLast? = some '>') :
    PipelineH.convertH cfg (preSrc A ++ block ++ postSrc B) = .ok (preOut A ++ block ++ postOut B) := by
  obtain ⟨hlA, hcA⟩ := srcOf_chars cfg.esc cfg.tab A hPA
  obtain ⟨hlB, hcB⟩ := srcOf_chars cfg.esc cfg.tab B hPB
  obtain ⟨br, hbr⟩ := hbs
  have hbne : block ≠ [] := by rw [hbr]; simp
  -- 1. not blank
  have hnb : Normalize.isBlankDoc (preSrc A ++ block ++ postSrc B) = false := by
    rw [Normalize.isBlankDoc_eq_all]
    cases hall : (preSrc A ++ block ++ postSrc B).all isSpace with
    | false => rfl
    | true =>
      have := List.all_eq_true.1 hall '<' (by rw [hbr]; simp)
      revert this; decide
  -- 2. normalisation
  have hnorm : Normalize.normalize cfg.tab (preSrc A ++ block ++ postSrc B) = preSrc A ++ block ++ postSrc B ++ nn := by
    have hls : ∀ l ∈ lines (preSrc A ++ block ++ postSrc B), lineSafe l = true := by
      intro l hl
      have hmem : l = [] ∨ (A.isEmpty = false ∧ l ∈ lines (srcOf A)) ∨ l ∈ lines block ∨
          (B.isEmpty = false ∧ l ∈ lines (srcOf B)) := by
        unfold preSrc postSrc at hl
        cases hae : A.isEmpty <;> cases hbe' : B.isEmpty <;>
          simp only [hae, hbe', Bool.false_eq_true, if_false, if_true, List.nil_append, List.append_nil] at hl
        · rw [show srcOf A ++ nn ++ block ++ (nn ++ srcOf B) = srcOf A ++ ['\n', '\n'] ++ block ++ ['\n', '\n'] ++ srcOf B by
            simp [nn], lines_doc] at hl
          simp only [List.mem_append, List.mem_singleton] at hl
          rcases hl with (((h | h) | h) | h) | h
          · exact Or.inr (Or.inl ⟨rfl, h⟩)
          · exact Or.inl h
          · exact Or.inr (Or.inr (Or.inl h))
          · exact Or.inl h
          · exact Or.inr (Or.inr (Or.inr ⟨rfl, h⟩))
        · rw [show srcOf A ++ nn ++ block = srcOf A ++ ['\n', '\n'] ++ block by simp [nn], lines_nn] at hl
          simp only [List.mem_append, List.mem_singleton] at hl
          rcases hl with (h | h) | h
          · exact Or.inr (Or.inl ⟨rfl, h⟩)
          · exact Or.inl h
          · exact Or.inr (Or.inr (Or.inl h))
        · rw [show block ++ (nn ++ srcOf B) = block ++ ['\n', '\n'] ++ srcOf B by simp [nn], lines_nn] at hl
          simp only [List.mem_append, List.mem_singleton] at hl
          rcases hl with (h | h) | h
          · exact Or.inr (Or.inr (Or.inl h))
          · exact Or.inl h
          · exact Or.inr (Or.inr (Or.inr ⟨rfl, h⟩))
        · exact Or.inr (Or.inr (Or.inl hl))
      rcases hmem with rfl | ⟨hae, h⟩ | h | ⟨hbe', h⟩
      · decide
      · have hA : A ≠ [] := by intro e; rw [e] at hae; cases hae
        rw [srcOf_lines cfg.esc cfg.tab A hA hPA] at h
        exact (hlA l h).1
      · exact hsafe l h
      · have hB : B ≠ [] := by intro e; rw [e] at hbe'; cases hbe'
        rw [srcOf_lines cfg.esc cfg.tab B hB hPB] at h
        exact (hlB l h).1
    have := normalize_lines cfg.tab (lines (preSrc A ++ block ++ postSrc B))
      (by have := splitC_length_pos '\n' (preSrc A ++ block ++ postSrc B)
          intro e; unfold lines at e; rw [e] at this; simp at this) hls
    rw [lines_joinLines] at this
    exact this
  have hdoc : preSrc A ++ block ++ postSrc B ++ nn = preSrc A ++ block ++ nn ++ p2Of B := by
    unfold postSrc p2Of
    cases B.isEmpty <;> simp [List.append_assoc]
  -- 3. the text handed to the block parser
  have htext : cleanText (⟨false, false, [], [],
      (if A.isEmpty then [] else [srcOf A ++ nn]) ++ ((if lead then [['\n']] else []) ++
        [placeholder 0, nn, nn ++ p2Of B]), [block ++ ['\n']]⟩ : ExSt) =
      joinChunks (A.map (fun p => joinLines p.g) ++ ((if lead then ['\n'] else []) ++ htmlPlaceholder 0) :: [] ::
        B.map (fun p => joinLines p.g)) ++ ['\n', '\n'] := by
    rw [joinChunks_mid, ← srcOf_eq cfg.esc cfg.tab A hPA, ← srcOf_eq cfg.esc cfg.tab B hPB, placeholder_eq]
    unfold p2Of
    cases hae : A.isEmpty <;> cases hbe' : B.isEmpty <;> cases lead <;>
      simp [cleanText, nn, List.append_assoc, hae, hbe']
  have hnolt : (joinChunks (A.map (fun p => joinLines p.g) ++ ((if lead then ['\n'] else []) ++ htmlPlaceholder 0) :: [] ::
      B.map (fun p => joinLines p.g)) ++ ['\n', '\n']).contains '<' = false := by
    rw [← htext]
    have hph : '<' ∉ placeholder 0 := by
      rw [placeholder_eq]
      intro hm; rcases ph_chars 0 _ hm with h | h | h | h <;> revert h <;> decide
    have hA' : '<' ∉ srcOf A := fun h => (hcA _ h).1 rfl
    have hB' : '<' ∉ srcOf B := fun h => (hcB _ h).1 rfl
    unfold p2Of
    cases A.isEmpty <;> cases B.isEmpty <;> cases lead <;> simp [cleanText, nn, hph, hA', hB']
  -- 4. the block parser
  have hparse : Block.parseDocument cfg.tab
      (joinChunks ((A.map (fun p => (joinLines p.g, p.leaf.src cfg.esc))).map (·.1) ++
        ((if lead then ['\n'] else []) ++ htmlPlaceholder 0) :: [] ::
        (B.map (fun p => (joinLines p.g, p.leaf.src cfg.esc))).map (·.1)) ++ ['\n', '\n']) =
      some (divOf ((A.map (fun p => (joinLines p.g, p.leaf.src cfg.esc))).map (·.2) ++ phNode 0 ::
        (B.map (fun p => (joinLines p.g, p.leaf.src cfg.esc))).map (·.2)), []) := by
    cases lead
    · exact parseDocument_with_ph0 cfg.tab 0 _ _ (produces_ph hE hF cfg.tab htab 0)
        (by intro c hc; obtain ⟨p, hp, rfl⟩ := List.mem_map.1 hc; exact (hPA p hp).prod)
        (by intro c hc; obtain ⟨p, hp, rfl⟩ := List.mem_map.1 hc; exact (hPA p hp).nel)
        (by intro c hc; obtain ⟨p, hp, rfl⟩ := List.mem_map.1 hc; exact preCode_leaf _ _ (hPA p hp).ok)
        (by intro c hc; obtain ⟨p, hp, rfl⟩ := List.mem_map.1 hc; exact (hPB p hp).prod)
        (by intro c hc; obtain ⟨p, hp, rfl⟩ := List.mem_map.1 hc; exact (hPB p hp).nel)
        (by intro c hc; obtain ⟨p, hp, rfl⟩ := List.mem_map.1 hc; exact preCode_leaf _ _ (hPB p hp).ok)
    · exact parseDocument_with_ph cfg.tab 0 _ _ (produces_ph hE hF cfg.tab htab 0)
        (by intro c hc; obtain ⟨p, hp, rfl⟩ := List.mem_map.1 hc; exact (hPA p hp).prod)
        (by intro c hc; obtain ⟨p, hp, rfl⟩ := List.mem_map.1 hc; exact (hPA p hp).nel)
        (by intro c hc; obtain ⟨p, hp, rfl⟩ := List.mem_map.1 hc; exact preCode_leaf _ _ (hPA p hp).ok)
        (by intro c hc; obtain ⟨p, hp, rfl⟩ := List.mem_map.1 hc; exact (hPB p hp).prod)
        (by intro c hc; obtain ⟨p, hp, rfl⟩ := List.mem_map.1 hc; exact (hPB p hp).nel)
        (by intro c hc; obtain ⟨p, hp, rfl⟩ := List.mem_map.1 hc; exact preCode_leaf _ _ (hPB p hp).ok)
  simp only [List.map_map] at hparse
  have e1 : ((fun c : Str × Node => c.1) ∘ fun p : Piece => (joinLines p.g, p.leaf.src cfg.esc)) =
      fun p => joinLines p.g := rfl
  have e2 : ((fun c : Str × Node => c.2) ∘ fun p : Piece => (joinLines p.g, p.leaf.src cfg.esc)) =
      fun p => p.leaf.src cfg.esc := rfl
  rw [e1, e2] at hparse
  -- 5. the staged elements
  let L : List Staged := A.map (fun p => ofLeaf cfg.esc p.leaf) ++ phStaged 0 :: B.map (fun p => ofLeaf cfg.esc p.leaf)
  have hLok : ∀ e ∈ L, e.OK { esc := cfg.esc, refs := [] } := by
    intro e he
    rcases List.mem_append.1 he with h | h
    · obtain ⟨p, hp, rfl⟩ := List.mem_map.1 h
      exact ofLeaf_ok { esc := cfg.esc, refs := [] } hE _ (hPA p hp).ok
    · rcases List.mem_cons.1 h with rfl | h
      · exact phStaged_ok { esc := cfg.esc, refs := [] } hE hF 0
      · obtain ⟨p, hp, rfl⟩ := List.mem_map.1 h
        exact ofLeaf_ok { esc := cfg.esc, refs := [] } hE _ (hPB p hp).ok
  have hLne : L ≠ [] := by simp [L]
  have hsrc : L.map (·.src) = A.map (fun p => p.leaf.src cfg.esc) ++ phNode 0 :: B.map (fun p => p.leaf.src cfg.esc) := by
    simp [L, ofLeaf, phStaged, phNode, List.map_map, Function.comp_def]
  have h1 := run_staged { esc := cfg.esc, refs := [] } L hLok [block ++ ['\n']]
  have h2 := prettify_staged { esc := cfg.esc, refs := [] } L hLne hLok
  have h3 := unescapeTree_staged { esc := cfg.esc, refs := [] } L hLok
  have h4 := serialize_staged { esc := cfg.esc, refs := [] } L hLne hLok
  rw [hsrc] at h1
  -- 6. the output
  have hjoin : joinOutS L = (if A.isEmpty then [] else joinOut (A.map (·.leaf)) ++ ['\n']) ++
      (Probe.pOpen ++ htmlPlaceholder 0 ++ Probe.pClose) ++
      (if B.isEmpty then [] else ['\n'] ++ joinOut (B.map (·.leaf))) := by
    have ea : A.map (fun p => ofLeaf cfg.esc p.leaf) = (A.map (·.leaf)).map (ofLeaf cfg.esc) := by simp [List.map_map]
    have eb : B.map (fun p => ofLeaf cfg.esc p.leaf) = (B.map (·.leaf)).map (ofLeaf cfg.esc) := by simp [List.map_map]
    have := joinOutS_mid cfg.esc (A.map (·.leaf)) (B.map (·.leaf)) (phStaged 0)
    rw [← ea, ← eb] at this
    have hL : L = A.map (fun p => ofLeaf cfg.esc p.leaf) ++ phStaged 0 :: B.map (fun p => ofLeaf cfg.esc p.leaf) := rfl
    rw [hL, this]
    simp [phStaged, List.isEmpty_map]
  -- facts about the outputs
  have hAout : Post.STX ∉ (if A.isEmpty then [] else joinOut (A.map (·.leaf)) ++ ['\n']) ∧
      (∀ c, (if A.isEmpty then [] else joinOut (A.map (·.leaf)) ++ ['\n'] : Str).head? = some c → isSpace c = false) := by
    cases hA : A with
    | nil => simp
    | cons a A' =>
      obtain ⟨ja1, ja2, ja3⟩ := joinOut_facts ((a :: A').map (·.leaf)) (by simp)
        (by intro l hl; obtain ⟨p, hp, rfl⟩ := List.mem_map.1 hl; exact (hPA p (hA ▸ hp)).ok)
      refine ⟨?_, ?_⟩
      · simp only [List.isEmpty_cons, Bool.false_eq_true, if_false, List.mem_append, not_or]
        exact ⟨ja1, by decide⟩
      · intro c hc
        simp only [List.isEmpty_cons, Bool.false_eq_true, if_false] at hc
        cases hj : joinOut ((a :: A').map (·.leaf)) with
        | nil => rw [hj] at ja2; cases ja2
        | cons x xs => rw [hj] at hc ja2; simp at hc ja2; subst hc; subst ja2; decide
  have hBout : Post.STX ∉ (if B.isEmpty then [] else ['\n'] ++ joinOut (B.map (·.leaf))) ∧
      (∀ c, (if B.isEmpty then [] else ['\n'] ++ joinOut (B.map (·.leaf)) : Str).getLast? = some c →
        isSpace c = false) := by
    cases hB : B with
    | nil => simp
    | cons b B' =>
      obtain ⟨jb1, jb2, jb3⟩ := joinOut_facts ((b :: B').map (·.leaf)) (by simp)
        (by intro l hl; obtain ⟨p, hp, rfl⟩ := List.mem_map.1 hl; exact (hPB p (hB ▸ hp)).ok)
      refine ⟨?_, ?_⟩
      · simp only [List.isEmpty_cons, Bool.false_eq_true, if_false, List.mem_append, not_or]
        exact ⟨by decide, jb1⟩
      · intro c hc
        simp only [List.isEmpty_cons, Bool.false_eq_true, if_false] at hc
        have hne : joinOut ((b :: B').map (·.leaf)) ≠ [] := by intro e; rw [e] at jb3; cases jb3
        rw [getLast?_append_ne _ _ hne, jb3] at hc
        cases hc; decide
  have hrawstx : Post.STX ∉ block ++ ['\n'] := by
    intro hm
    rcases List.mem_append.1 hm with h | h
    · have hj : block = joinLines (lines block) := (lines_joinLines block).symm
      rw [hj] at h
      rcases mem_joinLines h with e | ⟨l, hl, hcl⟩
      · revert e; decide
      · exact ((lineSafe_facts (hsafe l hl)).2.1 _ hcl).1 rfl
    · revert h; decide
  have h5 := finish_with_block_gen cfg.blockLevel [block ++ ['\n']] 0 (block ++ ['\n']) _ _ rfl hAout.1 hBout.1 hrawstx
    (by rw [hbl]; exact hbh) hAout.2 hBout.2
  -- the final strip
  have hstrip : strip ((if A.isEmpty then [] else joinOut (A.map (·.leaf)) ++ ['\n']) ++ (block ++ ['\n']) ++
      (if B.isEmpty then [] else ['\n'] ++ joinOut (B.map (·.leaf)))) = preOut A ++ block ++ postOut B := by
    have hhead : ∀ c, (preOut A ++ block).head? = some c → isSpace c = false := by
      intro c hc
      unfold preOut at hc
      cases hae : A.isEmpty with
      | true => rw [hae] at hc; simp [hbr] at hc; subst hc; decide
      | false =>
        have := hAout.2 c (by
          rw [hae] at hc ⊢
          simp only [Bool.false_eq_true, if_false] at hc ⊢
          cases hj : joinOut (A.map (·.leaf)) ++ ['\n'] with
          | nil => simp at hj
          | cons x xs => rw [hj] at hc; simpa using hc)
        exact this
    unfold postOut
    cases hbe' : B.isEmpty with
    | true =>
      simp only [if_true, List.append_nil]
      have e : (if A.isEmpty then [] else joinOut (A.map (·.leaf)) ++ ['\n']) ++ (block ++ ['\n']) =
          [] ++ (preOut A ++ block) ++ ['\n'] := by unfold preOut; simp [List.append_assoc]
      rw [e, strip_append_of_blank (by decide) (by decide)]
      apply strip_eq_self hhead
      intro c hc
      rw [getLast?_append_ne _ _ hbne, hbe] at hc
      cases hc; decide
    | false =>
      simp only [Bool.false_eq_true, if_false]
      have hB : B ≠ [] := by intro e; rw [e] at hbe'; cases hbe'
      have e : (if A.isEmpty then [] else joinOut (A.map (·.leaf)) ++ ['\n']) ++ (block ++ ['\n']) ++
          (['\n'] ++ joinOut (B.map (·.leaf))) = preOut A ++ block ++ (['\n', '\n'] ++ joinOut (B.map (·.leaf))) := by
        unfold preOut; simp [List.append_assoc]
      rw [e]
      apply strip_eq_self
      · intro c hc
        apply hhead c
        cases hpb : preOut A ++ block with
        | nil => simp [hbne] at hpb
        | cons x xs => rw [List.append_assoc, ← List.append_assoc, hpb] at hc; simpa using hc
      · intro c hc
        have := hBout.2 c (by
          rw [hbe']
          simp only [Bool.false_eq_true, if_false]
          have hne : (['\n'] ++ joinOut (B.map (·.leaf)) : Str) ≠ [] := by simp
          have hne2 : (['\n', '\n'] ++ joinOut (B.map (·.leaf)) : Str) ≠ [] := by simp
          rw [getLast?_append_ne _ _ hne2] at hc
          have hjne : joinOut (B.map (·.leaf)) ≠ [] := by
            obtain ⟨b, B', rfl⟩ := List.exists_cons_of_ne_nil hB
            obtain ⟨_, _, j3⟩ := joinOut_facts ((b :: B').map (·.leaf)) (by simp)
              (by intro l hl; obtain ⟨p, hp, rfl⟩ := List.mem_map.1 hl; exact (hPB p hp).ok)
            intro e; rw [e] at j3; cases j3
          rw [getLast?_append_ne _ _ hjne] at hc ⊢
          exact hc)
        exact this
  -- assemble
  unfold PipelineH.convertH PipelineH.prepareH
  simp only [hnb, Bool.false_eq_true, if_false, hnorm, hdoc, hext, Option.map_some, htext, hnolt]
  unfold PipelineH.convertFrom
  simp only [hparse, List.reverse_nil, h1, hbl, h2, h3, hfmt, h4, hjoin]
  rw [hbl] at h5
  simp only [List.append_assoc] at h5 hstrip ⊢
  simp only [h5, hstrip]

open DocParse HtmlFrag HtmlTok in
/-- a raw block anywhere among pieces -/
theorem convertH_block_anywhere (cfg : Pipeline.Cfg) (hE : EscOK cfg.esc) (hF : PhFree cfg.esc)
    (hbl : cfg.blockLevel = TreeProc.defaultBlockLevel) (hfmt : cfg.fmt = .xhtml) (htab : 0 < cfg.tab)
    (A B : List Piece) (hPA : ∀ p ∈ A, PieceOK cfg.esc cfg.tab p) (hPB : ∀ p ∈ B, PieceOK cfg.esc cfg.tab p)
    (name : Str) (attrs : List Attr) (trail : Str) (body : List Tok)
    (hopen : (Tok.open_ name attrs trail).ok = true) (hblock : Extract.isBlockLevelTag (lower name) = true)
    (hhr : lower name ≠ hrTag) (hbody : toksOk body = true) (hcl : closesOk (lower name) body = true)
    (hsafe : ∀ l ∈ lines (blockText name attrs trail body), lineSafe l = true)
    (hfs : firstSepOk attrs trail = true) :
    PipelineH.convertH cfg (preSrc A ++ blockText name attrs trail body ++ postSrc B) =
      .ok (preOut A ++ blockText name attrs trail body ++ postOut B) := by
  obtain ⟨_, hcA⟩ := srcOf_chars cfg.esc cfg.tab A hPA
  obtain ⟨_, hcB⟩ := srcOf_chars cfg.esc cfg.tab B hPB
  have hpA : plainOk (srcOf A) = true := by
    simp only [plainOk, Bool.and_eq_true, Bool.not_eq_true', List.contains_eq_mem, decide_eq_false_iff_not]
    exact ⟨fun h => (hcA _ h).1 rfl, fun h => (hcA _ h).2 rfl⟩
  have hpB : plainOk (p2Of B) = true := by
    unfold p2Of
    cases B.isEmpty
    · simp only [Bool.false_eq_true, if_false, plainOk, Bool.and_eq_true, Bool.not_eq_true', List.contains_eq_mem,
        decide_eq_false_iff_not, List.mem_append, not_or]
      exact ⟨⟨fun h => (hcB _ h).1 rfl, by decide⟩, ⟨fun h => (hcB _ h).2 rfl, by decide⟩⟩
    · rfl
  have hbh := isBlockLevelHtml_block name attrs trail
    (renderToks (body ++ [Tok.close name]) ++ ['\n']) hopen hfs hblock
  have hbt : (Tok.open_ name attrs trail).render ++ (renderToks (body ++ [Tok.close name]) ++ ['\n']) =
      blockText name attrs trail body ++ ['\n'] := by
    simp [blockText, blockToks, renderToks]
  rw [hbt] at hbh
  have hbs : ∃ r, blockText name attrs trail body = '<' :: r :=
    ⟨name ++ (afterName attrs trail ++ '>' :: renderToks (body ++ [Tok.close name])), by
      simp [blockText, blockToks, renderToks, Tok.render]⟩
  have hbe : (blockText name attrs trail body).getLast? = some '>' := by
    have : blockText name attrs trail body = ((Tok.open_ name attrs trail).render ++ renderToks body ++ '<' :: '/' :: name) ++
        ['>'] := by simp [blockText, blockToks, renderToks, renderToks_append, Tok.render]
    rw [this, List.getLast?_append]; rfl
  refine convertH_gen cfg hE hF hbl hfmt htab A B hPA hPB _ true ?_ hsafe hbh hbs hbe
  unfold preSrc
  cases hae : A.isEmpty
  · have := extract_block_state (srcOf A) (p2Of B) name attrs trail body hpA hpB hopen hblock hhr hbody hcl
    simpa [hae] using this
  · have := extract_block_state0 (p2Of B) name attrs trail body hpB hopen hblock hhr hbody hcl
    simpa [hae] using this

open DocParse HtmlFrag HtmlTok in
/-- a unit anywhere among pieces -/
theorem convertH_unit_anywhere (cfg : Pipeline.Cfg) (hE : EscOK cfg.esc) (hF : PhFree cfg.esc)
    (hbl : cfg.blockLevel = TreeProc.defaultBlockLevel) (hfmt : cfg.fmt = .xhtml) (htab : 0 < cfg.tab)
    (A B : List Piece) (hPA : ∀ p ∈ A, PieceOK cfg.esc cfg.tab p) (hPB : ∀ p ∈ B, PieceOK cfg.esc cfg.tab p)
    (u : HtmlTok.Unit) (hu : u.OK) (hsafe : ∀ l ∈ lines u.text, lineSafe l = true)
    (hbh : Post.isBlockLevelHtml TreeProc.defaultBlockLevel (u.text ++ ['\n']) = true)
    (hbe : u.text.getLast? = some '>') :
    PipelineH.convertH cfg (preSrc A ++ u.text ++ postSrc B) = .ok (preOut A ++ u.text ++ postOut B) := by
  obtain ⟨_, hcA⟩ := srcOf_chars cfg.esc cfg.tab A hPA
  obtain ⟨_, hcB⟩ := srcOf_chars cfg.esc cfg.tab B hPB
  have hpA : plainOk (srcOf A) = true := by
    simp only [plainOk, Bool.and_eq_true, Bool.not_eq_true', List.contains_eq_mem, decide_eq_false_iff_not]
    exact ⟨fun h => (hcA _ h).1 rfl, fun h => (hcA _ h).2 rfl⟩
  have hpB : plainOk (p2Of B) = true := by
    unfold p2Of
    cases B.isEmpty
    · simp only [Bool.false_eq_true, if_false, plainOk, Bool.and_eq_true, Bool.not_eq_true', List.contains_eq_mem,
        decide_eq_false_iff_not, List.mem_append, not_or]
      exact ⟨⟨fun h => (hcB _ h).1 rfl, by decide⟩, ⟨fun h => (hcB _ h).2 rfl, by decide⟩⟩
    · rfl
  refine convertH_gen cfg hE hF hbl hfmt htab A B hPA hPB _ false ?_ hsafe hbh hu.head hbe
  unfold preSrc
  cases hae : A.isEmpty
  · have := extract_unit_state u hu (srcOf A) (p2Of B) hpA hpB
    simpa [hae] using this
  · have := extract_unit_state0 u hu (p2Of B) hpB
    simpa [hae] using this

/-! #### flat Markdown documents, each possibly absent -/

open DocSpec HtmlFrag in
/-- the source in front of the raw item: nothing, or a flat document in some spelling and a blank line -/
def srcBefore : Option (Doc × Spelling) → Str
  | none => []
  | some (d, sp) => print d sp ++ nn
open DocSpec HtmlFrag in
def srcAfter : Option (Doc × Spelling) → Str
  | none => []
  | some (d, sp) => nn ++ print d sp
open DocSpec in
def outBefore : Option (Doc × Spelling) → Str
  | none => []
  | some (d, _) => spec d ++ ['\n']
open DocSpec in
def outAfter : Option (Doc × Spelling) → Str
  | none => []
  | some (d, _) => ['\n', '\n'] ++ spec d
open DocSpec in
/-- well-formed flat document, when there is one -/
def flatOk : Option (Doc × Spelling) → Bool
  | none => true
  | some (d, _) => WF d && FlatDoc d

open DocParse DocSpec in
theorem flat_pieces_opt (o : Option (Doc × Spelling)) (h : flatOk o = true) :
    ∃ ps : List Piece, (∀ p ∈ ps, PieceOK Generated.escapedChars 4 p) ∧
      srcBefore o = preSrc ps ∧ srcAfter o = postSrc ps ∧ outBefore o = preOut ps ∧ outAfter o = postOut ps := by
  cases o with
  | none => exact ⟨[], by simp, rfl, rfl, rfl, rfl⟩
  | some x =>
    obtain ⟨d, sp⟩ := x
    simp only [flatOk, Bool.and_eq_true] at h
    obtain ⟨ps, hne, hok, hpr, hsp⟩ := flat_pieces d sp h.1 h.2
    have he : ps.isEmpty = false := by cases ps <;> simp_all
    exact ⟨ps, hok, by simp [srcBefore, preSrc, he, hpr], by simp [srcAfter, postSrc, he, hpr],
      by simp [outBefore, preOut, he, hsp], by simp [outAfter, postOut, he, hsp]⟩

open DocParse DocSpec HtmlFrag in
/-- **end to end**: the raw block first, last, alone, or between flat Markdown documents -/
theorem convertH_flat_block_anywhere (before after : Option (Doc × Spelling))
    (hb4 : flatOk before = true) (haf : flatOk after = true)
    (name : Str) (attrs : List Attr) (trail : Str) (body : List Tok)
    (hopen : (Tok.open_ name attrs trail).ok = true) (hblock : Extract.isBlockLevelTag (lower name) = true)
    (hhr : lower name ≠ hrTag) (hbody : toksOk body = true) (hcl : closesOk (lower name) body = true)
    (hsafe : ∀ l ∈ lines (blockText name attrs trail body), lineSafe l = true)
    (hfs : firstSepOk attrs trail = true) :
    PipelineH.convertH {} (srcBefore before ++ blockText name attrs trail body ++ srcAfter after) =
      .ok (outBefore before ++ blockText name attrs trail body ++ outAfter after) := by
  obtain ⟨A, hPA, ha1, _, ha3, _⟩ := flat_pieces_opt before hb4
  obtain ⟨B, hPB, _, hb2, _, hb4'⟩ := flat_pieces_opt after haf
  rw [ha1, hb2, ha3, hb4']
  exact convertH_block_anywhere {} escOK_generated phFree_generated rfl rfl (by decide) A B hPA hPB name attrs trail
    body hopen hblock hhr hbody hcl hsafe hfs

open DocParse DocSpec HtmlFrag HtmlTok in
/-- **end to end**: a unit first, last, alone, or between flat Markdown documents -/
theorem convertH_flat_unit_anywhere (before after : Option (Doc × Spelling))
    (hb4 : flatOk before = true) (haf : flatOk after = true)
    (u : HtmlTok.Unit) (hu : u.OK) (hsafe : ∀ l ∈ lines u.text, lineSafe l = true)
    (hbh : Post.isBlockLevelHtml TreeProc.defaultBlockLevel (u.text ++ ['\n']) = true)
    (hbe : u.text.getLast? = some '>') :
    PipelineH.convertH {} (srcBefore before ++ u.text ++ srcAfter after) =
      .ok (outBefore before ++ u.text ++ outAfter after) := by
  obtain ⟨A, hPA, ha1, _, ha3, _⟩ := flat_pieces_opt before hb4
  obtain ⟨B, hPB, _, hb2, _, hb4'⟩ := flat_pieces_opt after haf
  rw [ha1, hb2, ha3, hb4']
  exact convertH_unit_anywhere {} escOK_generated phFree_generated rfl rfl (by decide) A B hPA hPB u hu hsafe hbh hbe

end MdVerif.C04E2E
