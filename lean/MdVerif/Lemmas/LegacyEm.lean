/-
Helper lemmas for the `legacy_em` part of `Props/C16Legacy.lean`: the greedy group of the legacy EMPHASIS pattern.
Core Lean only.
-/
import MdVerif.Model.Ext.LegacyEm

namespace MdVerif.LegacyEm
open Inline Py

theorem legacy_patterns_are_star_shapes : legacyUnderPatterns = starPatterns := rfl

/-- the greedy group `([^_]+)` over a `_`-free `b` followed by `_` -/
theorem greedyLoop_run (k : K) (gs : List Str) : ∀ (b : Str) (prev : Option Char) (rest : Str) (pos L : Nat) (acc : Str),
    '_' ∉ b → 1 ≤ L + b.length →
    k (if b = [] then prev else b.getLast?) ('_' :: rest) (pos + b.length) ((acc.reverse ++ b) :: gs) ≠ none →
    greedyLoop '_' 1 k gs prev (b ++ '_' :: rest) pos L acc =
      k (if b = [] then prev else b.getLast?) ('_' :: rest) (pos + b.length) ((acc.reverse ++ b) :: gs)
  | [], prev, rest, pos, L, acc, _, hL, _ => by
    have : L ≥ 1 := by simpa using hL
    simp [greedyLoop, this]
  | ch :: b, prev, rest, pos, L, acc, hb, _, hk => by
    have hc : ch ≠ '_' := fun e => hb (e ▸ List.mem_cons_self)
    have hb' : '_' ∉ b := fun m => hb (List.mem_cons_of_mem _ m)
    have e1 : (if b = [] then some ch else b.getLast?) = (ch :: b).getLast? := by
      cases b with
      | nil => rfl
      | cons d t => simp [List.getLast?_cons_cons]
    have ih := greedyLoop_run k gs b (some ch) rest (pos + 1) (L + 1) (ch :: acc) hb' (by omega)
    have e2 : (ch :: acc).reverse ++ b = acc.reverse ++ ch :: b := by simp
    have e3 : pos + 1 + b.length = pos + (ch :: b).length := by simp; omega
    rw [e1, e2, e3] at ih
    have hk' : k (ch :: b).getLast? ('_' :: rest) (pos + (ch :: b).length) ((acc.reverse ++ ch :: b) :: gs) ≠ none := by
      simpa using hk
    have ih' := ih hk'
    simp only [List.cons_append, greedyLoop, bne_iff_ne, ne_eq, hc, not_false_eq_true, if_true, ih']
    cases hx : k (ch :: b).getLast? ('_' :: rest) (pos + (ch :: b).length) ((acc.reverse ++ ch :: b) :: gs) with
    | none => exact absurd hx hk'
    | some x =>
      have e5 : (if ch :: b = [] then prev else (ch :: b).getLast?) = (ch :: b).getLast? := by simp
      rw [e5, hx]

/-- **`_connected_words_`, the documented legacy behaviour, for every spelling**: in `a_b_c` (any `a`, any `c`; `b` non-empty
    without `_`) the legacy EMPHASIS pattern matches at the first underscore and captures `b` -/
theorem legacy_emphasis_connected (a b c : Str) (hb : '_' ∉ b) (hne : b ≠ []) :
    legacyMatch 4 (a ++ '_' :: (b ++ '_' :: c)) a.length = some (some (a.length + 1 + b.length + 1, [b])) := by
  have hdrop : (a ++ '_' :: (b ++ '_' :: c)).drop a.length = '_' :: (b ++ '_' :: c) := by simp
  have hlen : ¬ a.length > (a ++ '_' :: (b ++ '_' :: c)).length := by simp
  have hcp2 : countPrefix '_' (some 1) ('_' :: c) = 1 := by simp [countPrefix]
  have hk : ∀ prev, seqGo '_' [Step.lit 1] prev ('_' :: c) (a.length + 1 + b.length) [b] =
      some (a.length + 1 + b.length + 1, [b]) := by
    intro prev
    simp [seqGo, hcp2]
  have step1 : ∀ prev, seqGo '_' [Step.lit 1, Step.greedy 1, Step.lit 1] prev ('_' :: (b ++ '_' :: c)) a.length [] =
      greedyLoop '_' 1 (seqGo '_' [Step.lit 1]) [] (some '_') (b ++ '_' :: c) (a.length + 1) 0 [] := by
    intro prev
    have hcp1 : countPrefix '_' (some 1) ('_' :: (b ++ '_' :: c)) = 1 := by simp [countPrefix]
    rw [seqGo]
    simp only [hcp1, decide_true, Bool.and_self, if_true, List.drop_succ_cons, List.drop_zero, beq_self_eq_true,
      Nat.zero_lt_one, gt_iff_lt]
    rw [seqGo]
  have hg := greedyLoop_run (seqGo '_' [Step.lit 1]) [] b (some '_') c (a.length + 1) 0 [] hb
    (by have : b.length ≥ 1 := List.length_pos_iff.mpr hne; omega)
    (by simp only [List.reverse_nil, List.nil_append]; rw [hk]; simp)
  simp only [List.reverse_nil, List.nil_append] at hg
  rw [hk] at hg
  simp only [legacyMatch, legacyUnderPatterns, List.getElem?_cons_succ, List.getElem?_cons_zero, Option.map_some, seqMatch, hlen,
    if_false, hdrop, step1, hg]

end MdVerif.LegacyEm
