/-
Helper lemmas for `Props/C07X.lean`: the inline tree processor over the pattern TABLE of the extensions
(`InlineX.runX`; core patterns plus footnote 175, wikilink 75, nl 5) on `<div><p>escaped text</p></div>`.
The escape pass is that of `Lemmas/InlineEsc.lean` (patterns 0 and 1 are the first two table entries); every
other table entry finds nothing in the residue — the footnote and wikilink patterns need a `[`, which is gone.
This file: texts without a line feed when `nl2br` is on (`EscXNl.lean` treats the line feeds).  Core Lean only.
-/
import MdVerif.Model.InlineX
import MdVerif.Lemmas.InlineEsc

namespace MdVerif.EscX
open Py Inline InlineX Escape

/-! ### the table -/

/-- the table entries that find nothing in the residue of the escape pass -/
def laterK : PatK → Bool
  | .core i => 2 ≤ i && i < 16
  | _ => true

theorem table_zero (fn wl nl : Bool) : (table fn wl nl)[0]? = some (.core 0) := by
  cases fn <;> cases wl <;> cases nl <;> rfl

theorem table_one (fn wl nl : Bool) : (table fn wl nl)[1]? = some (.core 1) := by
  cases fn <;> cases wl <;> cases nl <;> rfl

theorem table_later (fn wl nl : Bool) : ((table fn wl nl).drop 2).all laterK = true := by
  cases fn <;> cases wl <;> cases nl <;> decide

theorem table_length (fn wl nl : Bool) : 16 ≤ (table fn wl nl).length ∧ (table fn wl nl).length ≤ 19 := by
  cases fn <;> cases wl <;> cases nl <;> decide

theorem table_nl (fn wl : Bool) : PatK.nl ∉ table fn wl false := by
  cases fn <;> cases wl <;> decide

theorem table_get_later (fn wl nl : Bool) (pi : Nat) (h2 : 2 ≤ pi) (k : PatK) (h : (table fn wl nl)[pi]? = some k) :
    laterK k = true ∧ k ∈ table fn wl nl := by
  have hm : k ∈ table fn wl nl := List.mem_of_getElem? h
  refine ⟨?_, hm⟩
  have : k ∈ (table fn wl nl).drop 2 := by
    obtain ⟨j, rfl⟩ : ∃ j, pi = 2 + j := ⟨pi - 2, by omega⟩
    have : ((table fn wl nl).drop 2)[j]? = some k := by rw [List.getElem?_drop]; exact h
    exact List.mem_of_getElem? this
  exact List.all_eq_true.1 (table_later fn wl nl) k this

/-! ### `__applyPattern` on the entries `core 0`, `core 1` -/

theorem applyPatternX_zero_none (xc : XCfg) (hiX : HIX) (pi : Nat) (data : Str) (x : XSt)
    (ht : xc.table[pi]? = some (.core 0)) (h : btFind data 0 = none) :
    applyPatternX xc hiX pi data 0 x = some (data, false, 0, x) := by
  simp [applyPatternX, ht, findX, findMatch, h]

theorem applyPatternX_esc_none (xc : XCfg) (hiX : HIX) (pi : Nat) (A : Str) (x : XSt)
    (ht : xc.table[pi]? = some (.core 1)) (h : '\\' ∉ A) :
    applyPatternX xc hiX pi A 0 x = some (A, false, 0, x) := by
  simp [applyPatternX, ht, findX, findMatch, escScan_noBs A h]

theorem applyPatternX_esc_found (xc : XCfg) (hiX : HIX) (pi : Nat) (A : Str) (x : XSt)
    (ht : xc.table[pi]? = some (.core 1)) (h : '\\' ∉ A) (c : Char) (R : Str) (hc : c ∈ xc.cfg.esc) :
    applyPatternX xc hiX pi (A ++ '\\' :: c :: R) 0 x =
      some (A ++ placeholder x.st.stash.length ++ R, true, 0,
        { x with st := { x.st with stash := x.st.stash ++ [.str (escCode c)] } }) := by
  have hd : pyDrop (A ++ '\\' :: c :: R) ((A.length : Int) + 2) = R := by
    have := pyDrop_append (A ++ ['\\', c]) R
    simpa using this
  simp only [applyPatternX, ht, findX, findMatch, List.drop_zero, escScan_found A h, Nat.zero_add]
  simp [hc, stashX, stashNode, escCode, hd]

theorem hiLoopX_step (count : Nat) (ap : Nat → Str → Nat → XSt → Option (Str × Bool × Nat × XSt)) (g : Nat)
    (data : Str) (pi si : Nat) (x : XSt) (hpi : pi < count) (d : Str) (m : Bool) (si' : Nat) (x' : XSt)
    (h : ap pi data si x = some (d, m, si', x')) :
    hiLoopX count ap (g + 1) data pi si x = hiLoopX count ap g d (if m then pi else pi + 1) si' x' := by
  simp [hiLoopX, hpi, h]

/-- the whole escape pass over the table: every `\c` becomes a placeholder, one iteration of the loop each -/
theorem escape_passX (xc : XCfg) (hiX : HIX) (hlen : 1 < xc.table.length) (ht : xc.table[1]? = some (.core 1))
    (hb : '\\' ∈ xc.cfg.esc) (r : Str) :
    ∀ (A : Str) (x : XSt) (g : Nat), '\\' ∉ A →
      hiLoopX xc.table.length (applyPatternX xc hiX) (g + escCount xc.cfg.esc r + 1) (A ++ escAll xc.cfg.esc r) 1 0 x =
      hiLoopX xc.table.length (applyPatternX xc hiX) g (A ++ resid xc.cfg.esc x.st.stash.length r) 2 0
        { x with st := { x.st with stash := x.st.stash ++ stashOf xc.cfg.esc r } } := by
  induction r with
  | nil =>
    intro A x g hA
    simp only [escAll, resid, stashOf, escCount, List.length_nil, Nat.add_zero, List.append_nil]
    rw [hiLoopX_step _ _ g A 1 0 x hlen _ _ _ _ (applyPatternX_esc_none xc hiX 1 A x ht hA)]
    simp
  | cons c r ih =>
    intro A x g hA
    by_cases h : c ∈ xc.cfg.esc
    · have hcount : escCount xc.cfg.esc (c :: r) = escCount xc.cfg.esc r + 1 := by simp [escCount, stashOf, h]
      rw [escAll_cons_mem h, hcount,
        show g + (escCount xc.cfg.esc r + 1) + 1 = (g + escCount xc.cfg.esc r + 1) + 1 by omega,
        hiLoopX_step _ _ _ _ 1 0 x hlen _ _ _ _ (applyPatternX_esc_found xc hiX 1 A x ht hA c _ h)]
      have hA' : '\\' ∉ A ++ placeholder x.st.stash.length := by
        intro hh; rcases List.mem_append.1 hh with hh | hh
        · exact hA hh
        · exact bs_not_mem_placeholder _ hh
      have := ih (A ++ placeholder x.st.stash.length)
        { x with st := { x.st with stash := x.st.stash ++ [.str (escCode c)] } } g hA'
      simp only [if_true]
      rw [this]
      simp [resid, stashOf, h, List.append_assoc]
    · have hc : c ≠ '\\' := fun e => h (e ▸ hb)
      have hcount : escCount xc.cfg.esc (c :: r) = escCount xc.cfg.esc r := by simp [escCount, stashOf, h]
      have hA' : '\\' ∉ A ++ [c] := by
        intro hh; rcases List.mem_append.1 hh with hh | hh
        · exact hA hh
        · have e : '\\' = c := by simpa using hh
          exact hc e.symm
      have := ih (A ++ [c]) x g hA'
      rw [escAll_cons_not_mem h, hcount]
      simp only [List.append_assoc, List.singleton_append] at this
      rw [this]
      simp [resid, stashOf, h]

/-! ### the later entries find nothing in the residue -/

theorem fnRefScan_none (keys : List Str) : ∀ (s : Str) (k i : Nat), '[' ∉ s → fnRefScan keys k s i = none := by
  intro s
  induction s with
  | nil => intro k i _; cases k <;> rfl
  | cons c r ih =>
    intro k i h
    have hc : c ≠ '[' := fun e => h (e ▸ List.mem_cons_self)
    have hr : '[' ∉ r := fun hh => h (List.mem_cons_of_mem _ hh)
    cases k with
    | succ k => simp only [fnRefScan]; exact ih _ _ hr
    | zero =>
      have : fnRefAt (c :: r) = none := by
        unfold fnRefAt
        split
        · rename_i heq; exact absurd (List.cons.inj heq).1 hc
        · rfl
      simp only [fnRefScan, this]
      exact ih _ _ hr

theorem wikiScan_none : ∀ (s : Str) (i : Nat), '[' ∉ s → wikiScan s i = none := by
  intro s
  induction s with
  | nil => intro i _; rfl
  | cons c r ih =>
    intro i h
    have hc : c ≠ '[' := fun e => h (e ▸ List.mem_cons_self)
    have hr : '[' ∉ r := fun hh => h (List.mem_cons_of_mem _ hh)
    have : wikiAt (c :: r) = none := by
      unfold wikiAt
      split
      · rename_i heq; exact absurd (List.cons.inj heq).1 hc
      · rfl
    simp only [wikiScan, this]
    exact ih _ hr

theorem find_nl_none {s : Str} (h : '\n' ∉ s) : find ['\n'] s = none := by
  induction s with
  | nil => rfl
  | cons c r ih =>
    have hc : c ≠ '\n' := fun e => h (e ▸ List.mem_cons_self)
    rw [find_cons_none_iff]
    exact ⟨by simp [startsWith, hc], ih (fun hh => h (List.mem_cons_of_mem _ hh))⟩

theorem applyPatternX_later (xc : XCfg) (hiX : HIX) (pi : Nat) (k : PatK) (D : Str) (x : XSt)
    (ht : xc.table[pi]? = some k) (hk : laterK k = true) (hD : Inert D)
    (hbr : find [' ', ' ', '\n'] D = none) (hnl : k = .nl → '\n' ∉ D) :
    applyPatternX xc hiX pi D 0 x = some (D, false, 0, x) := by
  have hbk : '[' ∉ D := fun h => (hD _ h).1 rfl
  cases k with
  | core i =>
    simp only [laterK, Bool.and_eq_true, decide_eq_true_eq] at hk
    simp [applyPatternX, ht, findX, findMatch_inert xc.cfg i hk.1 hk.2 D x.st hD hbr]
  | footnote => simp [applyPatternX, ht, findX, fnRefScan_none xc.fnKeys D 0 0 hbk]
  | wikilink => simp [applyPatternX, ht, findX, wikiScan_none D 0 hbk]
  | nl => simp [applyPatternX, ht, findX, find_nl_none (hnl rfl)]

theorem hiLoopX_inert (count : Nat) (ap : Nat → Str → Nat → XSt → Option (Str × Bool × Nat × XSt)) (D : Str)
    (x : XSt) (hap : ∀ pi, 2 ≤ pi → pi < count → ap pi D 0 x = some (D, false, 0, x)) (g : Nat) :
    ∀ (k pi : Nat), pi + k = count → 2 ≤ pi → hiLoopX count ap (g + k + 1) D pi 0 x = some (D, x) := by
  intro k
  induction k with
  | zero =>
    intro pi h _
    have : pi = count := by omega
    subst this
    simp [hiLoopX]
  | succ k ih =>
    intro pi h h2
    rw [show g + (k + 1) + 1 = (g + k + 1) + 1 by omega,
      hiLoopX_step _ _ _ D pi 0 x (by omega) _ _ _ _ (hap pi h2 (by omega))]
    simp only [Bool.false_eq_true, if_false]
    exact ih (pi + 1) (by omega) (by omega)

/-! ### `__handleInline` -/

theorem fuel_bound (a n : Nat) (ha : 2 ≤ a) : a + n + 2 ≤ loopFuelX a n := by
  simp only [loopFuelX]
  have h1 : a * (n + 2) ≤ a * (n + 2) * (n + 2) := Nat.le_mul_of_pos_right _ (by omega)
  have h2 : a * (n + 2) = a * n + a * 2 := Nat.mul_add _ _ _
  have h3 : n ≤ a * n := Nat.le_mul_of_pos_left n (by omega)
  omega

/-- **`__handleInline` over the table, on a fully escaped text** (no line feed in `t` when the `nl` entry is there) -/
theorem handleInlineX_escAll (fn wl nl : Bool) (cfg : Inline.Cfg) (keys : List Str) (f : Nat) (t : Str) (x : XSt)
    (m0 : '\\' ∈ cfg.esc) (mt : '`' ∈ cfg.esc) (m1 : '[' ∈ cfg.esc) (m2 : '!' ∈ cfg.esc) (m3 : '*' ∈ cfg.esc)
    (m4 : '_' ∈ cfg.esc) (hamp : '&' ∉ t) (hbr : find [' ', ' ', '\n'] t = none)
    (hnl : nl = true → '\n' ∉ t) :
    handleInlineX { cfg := cfg, table := table fn wl nl, fnKeys := keys } (f + 1) (escAll cfg.esc t) 0 x =
      some (resid cfg.esc x.st.stash.length t,
        { x with st := { x.st with stash := x.st.stash ++ stashOf cfg.esc t } }) := by
  obtain ⟨hlo, hhi⟩ := table_length fn wl nl
  generalize hxc : ({ cfg := cfg, table := table fn wl nl, fnKeys := keys } : XCfg) = xc
  have hcfg : xc.cfg = cfg := by rw [← hxc]
  have htab : xc.table = table fn wl nl := by rw [← hxc]
  have hle := escCount_le cfg.esc t
  have hfuel : xc.table.length + (escAll cfg.esc t).length + 2 ≤ loopFuelX xc.table.length (escAll cfg.esc t).length :=
    fuel_bound _ _ (by rw [htab]; omega)
  obtain ⟨y, hy⟩ : ∃ y, loopFuelX xc.table.length (escAll cfg.esc t).length =
      ((y + (xc.table.length - 2) + 1) + escCount cfg.esc t + 1) + 1 :=
    ⟨loopFuelX xc.table.length (escAll cfg.esc t).length - escCount cfg.esc t - xc.table.length - 1, by
      rw [htab] at hfuel ⊢; omega⟩
  simp only [handleInlineX]
  rw [hy, hiLoopX_step _ _ _ _ 0 0 x (by rw [htab]; omega) _ _ _ _
    (applyPatternX_zero_none xc _ 0 _ x (by rw [htab]; exact table_zero fn wl nl) (btFind_escAll m0 mt t))]
  simp only [Bool.false_eq_true, if_false, Nat.zero_add]
  have := escape_passX xc (fun d p s => handleInlineX xc f d p s) (by rw [htab]; omega)
    (by rw [htab]; exact table_one fn wl nl) (by rw [hcfg]; exact m0) t [] x (y + (xc.table.length - 2) + 1) (by simp)
  simp only [List.nil_append, hcfg] at this
  rw [this]
  refine hiLoopX_inert _ _ _ _ ?_ y (xc.table.length - 2) 2 (by rw [htab]; omega) (by omega)
  intro pi h2 hlt
  obtain ⟨k, hk⟩ : ∃ k, xc.table[pi]? = some k := ⟨xc.table[pi], List.getElem?_eq_getElem hlt⟩
  have hk' := hk
  rw [htab] at hk'
  obtain ⟨hl, hm⟩ := table_get_later fn wl nl pi h2 k hk'
  have hInert := inert_resid m1 m2 m3 m4 t hamp x.st.stash.length
  refine applyPatternX_later xc _ pi k _ _ hk hl hInert (find_break_resid t hbr _) ?_
  intro e
  subst e
  have hn : nl = true := by
    cases nl with
    | true => rfl
    | false => exact absurd hm (table_nl fn wl)
  intro hmem
  rcases mem_resid hmem with ⟨h1, _⟩ | h1
  · exact hnl hn h1
  · exact (phChar_facts h1).2.2.2.2.2.2.2 rfl

/-! ### `run` -/

theorem visitChildX_paragraph (fn wl nl : Bool) (cfg : Inline.Cfg) (keys : List Str) (t : Str) (ht : t ≠ [])
    (m0 : '\\' ∈ cfg.esc) (mt : '`' ∈ cfg.esc) (m1 : '[' ∈ cfg.esc) (m2 : '!' ∈ cfg.esc) (m3 : '*' ∈ cfg.esc)
    (m4 : '_' ∈ cfg.esc) (hamp : '&' ∉ t) (hbr : find [' ', ' ', '\n'] t = none) (hstx : STX ∉ t)
    (hnl : nl = true → '\n' ∉ t) :
    visitChildX { cfg := cfg, table := table fn wl nl, fnKeys := keys } (Block.mkText "p" (escAll cfg.esc t))
        { x := { st := { html := [] } } } =
      some (Block.mkText "p" (coded cfg.esc t), [],
        { x := { st := { stash := stashOf cfg.esc t, html := [] } } }) := by
  have h1 := handleInlineX_escAll fn wl nl cfg keys
    ((escAll cfg.esc t).length + (table fn wl nl).length + 3) t { st := { html := [] } }
    m0 mt m1 m2 m3 m4 hamp hbr hnl
  simp only [List.length_nil, List.nil_append] at h1
  have h2 := ppTop_resid cfg.esc t hstx [] { Block.mkText "p" (escAll cfg.esc t) with text := none, textAtomic := false }
  simp only [visitChildX, handleInlineTopX, Block.mkText, Node.el, truthy_some (escAll_ne_nil ht), Bool.not_false,
    Bool.and_self, if_true, Option.getD_some, h1] at h2 ⊢
  rw [h2]
  have hcn : (coded cfg.esc t).isEmpty = false := by
    cases hcd : coded cfg.esc t with
    | nil => exact absurd hcd (coded_ne_nil ht)
    | cons a b => rfl
  simp [appendText, hcn, Node.truthy]

/-- **`InlineProcessor.run` with the pattern table of the extensions** on `<div><p>escaped text</p></div>` -/
theorem runX_paragraph (fn wl nl : Bool) (cfg : Inline.Cfg) (keys : List Str) (t : Str) (ht : t ≠ [])
    (m0 : '\\' ∈ cfg.esc) (mt : '`' ∈ cfg.esc) (m1 : '[' ∈ cfg.esc) (m2 : '!' ∈ cfg.esc) (m3 : '*' ∈ cfg.esc)
    (m4 : '_' ∈ cfg.esc) (hamp : '&' ∉ t) (hbr : find [' ', ' ', '\n'] t = none) (hstx : STX ∉ t)
    (hnl : nl = true → '\n' ∉ t) :
    runX { cfg := cfg, table := table fn wl nl, fnKeys := keys }
        ((Node.el "div").append (Block.mkText "p" (escAll cfg.esc t))) [] =
      some ((Node.el "div").append (Block.mkText "p" (coded cfg.esc t)),
        { st := { stash := stashOf cfg.esc t, html := [] } }) := by
  have hv := visitChildX_paragraph fn wl nl cfg keys t ht m0 mt m1 m2 m3 m4 hamp hbr hstx hnl
  obtain ⟨n, hn⟩ : ∃ n, runFuel ((Node.el "div").append (Block.mkText "p" (escAll cfg.esc t))) = n + 2 :=
    ⟨runFuel ((Node.el "div").append (Block.mkText "p" (escAll cfg.esc t))) - 2, by simp only [runFuel]; omega⟩
  simp only [runX, hn]
  simp only [runLoopX, getAt, Node.append, Node.el, List.nil_append, withIdx, visitLoopX]
  rw [hv]
  simp [setAt, visitLoopX, runLoopX]

end MdVerif.EscX
