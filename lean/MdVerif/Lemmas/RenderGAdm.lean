/-
Helper lemmas for `Props/C16RenderG.lean`, part 12: an admonition whose body has several paragraphs (each in its own
indented block), followed by any number of ordinary paragraphs — the printed form and the block stage.

Core Lean only.
-/
import MdVerif.Lemmas.RenderGAll

namespace MdVerif.RenderG
open Py Block BlockExt MdVerif.RenderX

/-! ### paragraphs of plain lines, blocks -/

/-- a paragraph: its first line and its further lines -/
abbrev Para := Str × List Str

def pLines (p : Para) : List Str := p.1 :: p.2

/-- the text of the paragraph -/
def pText (p : Para) : Str := joinLines (p.1 :: p.2)

def ParaOK (p : Para) : Prop := ∀ l ∈ p.1 :: p.2, PlainFacts l

/-- the lines of a document whose blocks (given as lists of lines) are separated by one empty line -/
def chunkLines : List (List Str) → List Str
  | [] => []
  | [b] => b
  | b :: b' :: r => b ++ [] :: chunkLines (b' :: r)

theorem chunkLines_ne (b : List Str) (r : List (List Str)) (hb : b ≠ []) : chunkLines (b :: r) ≠ [] := by
  cases r with
  | nil => simpa [chunkLines] using hb
  | cons b' r' => simp [chunkLines, hb]

theorem joinChunks_joinLines : ∀ (bs : List (List Str)), (∀ b ∈ bs, b ≠ []) →
    DocParse.joinChunks (bs.map joinLines) = joinLines (chunkLines bs) := by
  intro bs
  induction bs with
  | nil => intro _; rfl
  | cons b r ih =>
    intro h
    cases r with
    | nil => rfl
    | cons b' r' =>
      have hb := h b List.mem_cons_self
      have ih' := ih (fun x hx => h x (List.mem_cons_of_mem _ hx))
      have hne : ([] : Str) :: chunkLines (b' :: r') ≠ [] := by simp
      have hne2 := chunkLines_ne b' r' (h b' (by simp))
      simp only [List.map_cons, DocParse.joinChunks, chunkLines] at ih' ⊢
      rw [ih', Block.joinLines_append b _ hb hne]
      obtain ⟨x, y, hxy⟩ : ∃ x y, chunkLines (b' :: r') = x :: y := by
        cases hc : chunkLines (b' :: r') with
        | nil => exact absurd hc hne2
        | cons x y => exact ⟨x, y, rfl⟩
      rw [hxy, Block.joinLines_cons_cons]
      simp

theorem mem_chunkLines : ∀ (bs : List (List Str)) (l : Str), l ∈ chunkLines bs → l = [] ∨ ∃ b ∈ bs, l ∈ b := by
  intro bs
  induction bs with
  | nil => intro l hl; simp [chunkLines] at hl
  | cons b r ih =>
    intro l hl
    cases r with
    | nil => exact Or.inr ⟨b, List.mem_cons_self, by simpa [chunkLines] using hl⟩
    | cons b' r' =>
      simp only [chunkLines, List.mem_append, List.mem_cons] at hl
      rcases hl with hl | rfl | hl
      · exact Or.inr ⟨b, List.mem_cons_self, hl⟩
      · exact Or.inl rfl
      · rcases ih l hl with h | ⟨x, hx, hlx⟩
        · exact Or.inl h
        · exact Or.inr ⟨x, List.mem_cons_of_mem _ hx, hlx⟩

/-- a block of non-empty lines without line feeds has no empty line -/
theorem nel_block (ls : List Str) (hne : ls ≠ []) (h : ∀ l ∈ ls, l ≠ [] ∧ '\n' ∉ l) :
    Escape.noEmptyLineFrom true (joinLines ls) = true := by
  rw [← Escape.lines_all_nonempty, joinLines_lines hne (fun p hp => (h p hp).2), List.all_eq_true]
  intro l hl
  have := (h l hl).1
  cases l <;> simp_all

/-! ### the source -/

/-- the blocks as lists of lines: the header with the first body paragraph, the further body paragraphs (indented),
    the paragraphs after the admonition -/
def admBlockLines (tab : Nat) (kl : Str) (title : Option Str) (b : Para) (bs qs : List Para) : List (List Str) :=
  (admHeader kl title :: CodeLaw.indentLines tab (pLines b)) ::
    (bs.map (fun p => CodeLaw.indentLines tab (pLines p)) ++ qs.map pLines)

/-- an indented body block -/
def bodyBlock (tab : Nat) (p : Para) : Str := joinLines (CodeLaw.indentLines tab (pLines p))

/-- the source -/
def admSrcG (tab : Nat) (kl : Str) (title : Option Str) (b : Para) (bs qs : List Para) : Str :=
  DocParse.joinChunks (admSrc tab kl title (pLines b) :: (bs.map (bodyBlock tab) ++ qs.map pText))

theorem admSrcG_blocks (tab : Nat) (kl : Str) (title : Option Str) (b : Para) (bs qs : List Para) :
    admSrc tab kl title (pLines b) :: (bs.map (bodyBlock tab) ++ qs.map pText) =
      (admBlockLines tab kl title b bs qs).map joinLines := by
  unfold admBlockLines
  simp only [List.map_cons, List.map_append, List.map_map]
  rfl

/-! ### the tree -/

/-- the admonition `div`: the title paragraph (if any), then one paragraph per text -/
def admDivG (kl : Str) (ttl : Option Str) (texts : List Str) : Node :=
  { Node.el "div" with
    attrs := [(strClass, strAdmonition ++ ' ' :: kl)]
    children :=
      (if Node.truthy ttl then
        [{ mkText "p" (ttl.getD []) with attrs := [(strClass, "admonition-title".toList)] }]
       else []) ++ texts.map (mkText "p") }

theorem admDiv_eq (kl : Str) (ttl : Option Str) (body : Str) : admDiv kl ttl body = admDivG kl ttl [body] := by
  unfold admDiv admDivG
  by_cases h : Node.truthy ttl = true
  · simp only [h, if_true]; rfl
  · simp only [h, Bool.false_eq_true, if_false]; rfl

theorem admDivG_append (kl : Str) (ttl : Option Str) (texts : List Str) (t : Str) :
    (admDivG kl ttl texts).append (mkText "p" t) = admDivG kl ttl (texts ++ [t]) := by
  unfold admDivG Node.append
  simp only [List.map_append, List.map_cons, List.map_nil, List.append_assoc]

theorem strAdm_eq : strAdmonition = "admonition".toList := rfl

theorem isAdmDiv_admDivG (kl : Str) (ttl : Option Str) (texts : List Str) : isAdmDiv (admDivG kl ttl texts) = true := by
  have h1 : (admDivG kl ttl texts).isTag "div" = true := by
    unfold admDivG Node.isTag Node.el
    simp only [beq_self_eq_true]
  have h2 : (admDivG kl ttl texts).getAttr "class".toList = some (strAdmonition ++ ' ' :: kl) := by
    unfold admDivG Node.getAttr strClass
    simp only [List.find?_cons, decide_true, Option.map_some]
  have h3 : contains (strAdmonition ++ ' ' :: kl) "admonition".toList = true := by
    rw [contains_iff]
    exact ⟨[], ' ' :: kl, by rw [strAdm_eq]; rfl⟩
  unfold isAdmDiv
  rw [h1, h2]
  simp only [Option.getD_some, h3, Bool.and_self]

/-- the root with its children -/
def rootOf (kids : List Node) : Node := { Node.el "div" with children := kids }

/-! ### the block stage -/

theorem bodyBlock_facts (tab : Nat) (htab : 0 < tab) (p : Para) (hp : ParaOK p) :
    '!' ∉ bodyBlock tab p ∧ startsWith (bodyBlock tab p) (spaces (tab * 2)) = false ∧
    startsWith (bodyBlock tab p) (spaces tab) = true := by
  have hl0 : PlainFacts p.1 := hp p.1 List.mem_cons_self
  obtain ⟨a, t, hat⟩ : ∃ a t, p.1 = a :: t := by
    cases h : p.1 with
    | nil => exact absurd h hl0.ne
    | cons a t => exact ⟨a, t, rfl⟩
  have ha : a ≠ ' ' := hl0.head a (by rw [hat]; rfl)
  have hstart : ∃ Y, bodyBlock tab p = spaces tab ++ (a :: Y) := by
    unfold bodyBlock pLines CodeLaw.indentLines
    simp only [List.map_cons]
    cases h2 : p.2.map (CodeLaw.indentLine tab) with
    | nil => exact ⟨t, by simp [joinLines, join, CodeLaw.indentLine, hat]⟩
    | cons x y =>
      rw [Block.joinLines_cons_cons]
      exact ⟨t ++ '\n' :: joinLines (x :: y), by simp [CodeLaw.indentLine, hat]⟩
  obtain ⟨Y, hY⟩ := hstart
  refine ⟨?_, ?_, ?_⟩
  · intro hm
    unfold bodyBlock at hm
    rcases DocParse.mem_joinLines hm with h | ⟨l, hl, hcl⟩
    · exact absurd h (by decide)
    · obtain ⟨x, hx, rfl⟩ := List.mem_map.1 hl
      unfold CodeLaw.indentLine at hcl
      split at hcl
      · simp at hcl
      · rcases List.mem_append.1 hcl with h | h
        · have : ∀ c ∈ spaces tab, c = ' ' := by intro c hc; simpa [spaces] using (List.mem_replicate.1 hc).2
          exact absurd (this _ h) (by decide)
        · exact absurd ((hp x hx).chars _ h) (by decide)
  · rw [hY]
    have : spaces (tab * 2) = spaces tab ++ spaces tab := by
      simp only [spaces, Nat.mul_two]
      exact (List.replicate_append_replicate).symm
    rw [this]
    rw [Bool.eq_false_iff]
    intro h
    rw [Py.startsWith_iff_prefix] at h
    obtain ⟨Z, hZ⟩ := h
    rw [List.append_assoc] at hZ
    have := List.append_cancel_left hZ
    obtain ⟨m, rfl⟩ : ∃ m, tab = m + 1 := ⟨tab - 1, by omega⟩
    simp [spaces, List.replicate_succ] at this
    exact ha this.1
  · rw [hY]
    exact CodeLaw.startsWith_append_self _ _

/-- a further body block is appended to the admonition by `AdmonitionProcessor` (`parse_content`) -/
theorem dispatch_admBody (cfg : XCfg) (hadm : cfg.admonition = true) (tab : Nat) (htab : 0 < tab) (f : Nat)
    (refs : Refs) (kl : Str) (ttl : Option Str) (texts : List Str) (p : Para) (hp : ParaOK p) (rest : List Str) :
    dispatchXT false cfg tab (parseBlocksXT false cfg tab (f + 1)) [] refs (rootOf [admDivG kl ttl texts])
        (bodyBlock tab p) rest =
      some (rootOf [admDivG kl ttl (texts ++ [pText p])], refs, rest) := by
  obtain ⟨hbang, h2, h3⟩ := bodyBlock_facts tab htab p hp
  have h1 : admSearch (bodyBlock tab p) = none := admSearch_none (contains_false_of_head _ hbang)
  have hlast : (rootOf [admDivG kl ttl texts]).last? = some (admDivG kl ttl texts) := by simp [rootOf, Node.last?]
  have htest : admTest tab (rootOf [admDivG kl ttl texts]) (bodyBlock tab p) = some (.sib 1 tab) := by
    simp only [admTest, h1, admContent, hlast, isAdmDiv_admDivG, if_true, admSibNode_flat tab _ 0 h2, h3]
    simp
  have hdetab : detab tab (bodyBlock tab p) = (pText p, []) :=
    CodeLaw.detab_indent tab (pLines p) (by simp [pLines]) (fun l hl => (hp l hl).noNl)
  have hnode : nodeAt 1 (rootOf [admDivG kl ttl texts]) = admDivG kl ttl texts := by simp [nodeAt, hlast]
  have hli : ((admDivG kl ttl texts).isTag "li" || (admDivG kl ttl texts).isTag "dd") = false := by
    simp only [admDivG, Node.isTag, Node.el]; decide
  have hparse := parseChunkXT_plain cfg tab htab f [] (by decide) refs (admDivG kl ttl texts) p.1 p.2 hp
  simp only [dispatchXT, hadm, if_true, htest, admonitionP, hnode, hdetab, hli, Bool.false_and, Bool.false_eq_true,
    if_false]
  rw [show joinLines (p.1 :: p.2) = pText p from rfl] at hparse
  simp only [hparse, admDivG_append, List.isEmpty_nil, if_true, updPath, hlast]
  simp [rootOf, Node.setLast, Node.el]

/-- the further body blocks, one after the other -/
theorem parse_admBodies (cfg : XCfg) (hadm : cfg.admonition = true) (tab : Nat) (htab : 0 < tab) (kl : Str)
    (ttl : Option Str) :
    ∀ (bs : List Para) (texts : List Str) (refs : Refs) (f : Nat) (REST : List Str), (∀ p ∈ bs, ParaOK p) →
      parseBlocksXT false cfg tab (f + 2 + bs.length) [] refs (rootOf [admDivG kl ttl texts])
          (bs.map (bodyBlock tab) ++ REST) =
        parseBlocksXT false cfg tab (f + 2) [] refs (rootOf [admDivG kl ttl (texts ++ bs.map pText)]) REST := by
  intro bs
  induction bs with
  | nil => intro texts refs f REST _; simp
  | cons p r ih =>
    intro texts refs f REST hp
    have hstep := dispatch_admBody cfg hadm tab htab (f + r.length + 1) refs kl ttl texts p (hp p List.mem_cons_self)
      (r.map (bodyBlock tab) ++ REST)
    rw [show f + 2 + (p :: r).length = (f + r.length + 1 + 1) + 1 by simp; omega]
    simp only [List.map_cons, List.cons_append, parseBlocksXT, hstep]
    rw [show f + r.length + 1 + 1 = f + 2 + r.length by omega, ih _ refs f REST (fun x hx => hp x (List.mem_cons_of_mem _ hx))]
    simp

/-- ordinary paragraphs after it -/
theorem parse_paras (cfg : XCfg) (tab : Nat) (htab : 0 < tab) :
    ∀ (qs : List Para) (kids : List Node) (refs : Refs) (f : Nat) (REST : List Str), (∀ p ∈ qs, ParaOK p) →
      parseBlocksXT false cfg tab (f + qs.length) [] refs (rootOf kids) (qs.map pText ++ REST) =
        parseBlocksXT false cfg tab f [] refs (rootOf (kids ++ qs.map (fun p => mkText "p" (pText p)))) REST := by
  intro qs
  induction qs with
  | nil => intro kids refs f REST _; simp
  | cons p r ih =>
    intro kids refs f REST hp
    have hq := hp p List.mem_cons_self
    rw [show f + (p :: r).length = (f + r.length) + 1 by simp; omega]
    simp only [List.map_cons, List.cons_append, parseBlocksXT]
    rw [show pText p = joinLines (p.1 :: p.2) from rfl,
      dispatchXT_plain cfg tab htab _ [] refs (rootOf kids) p.1 p.2 _ hq, paraP_plain [] (by decide) refs _ p.1 p.2 _ hq]
    simp only []
    rw [show (rootOf kids).append (mkText "p" (joinLines (p.1 :: p.2))) = rootOf (kids ++ [mkText "p" (pText p)]) by
      simp [rootOf, Node.append, pText]]
    rw [ih _ refs f REST (fun x hx => hp x (List.mem_cons_of_mem _ hx))]
    simp [pText]

/-- the final empty block -/
theorem parse_end (cfg : XCfg) (tab : Nat) (htab : 0 < tab) (f : Nat) (refs : Refs) (parent : Node)
    (hlast : ∀ c, parent.last? = some c → preCode c = none) :
    parseBlocksXT false cfg tab (f + 2) [] refs parent [[]] = some (parent, refs) := by
  have h3 : ∀ pb, dispatchXT false cfg tab pb [] refs parent [] [] = some (parent, refs, []) := by
    intro pb
    cases hl : parent.last? with
    | none =>
      simp only [dispatchXT, admTest_plain tab htab _ [] (by simp) (by simp), ite_self, tailEmptyT, List.isEmpty_nil,
        Bool.true_or, if_true, emptyP, hl, List.drop_nil]
    | some c =>
      simp only [dispatchXT, admTest_plain tab htab _ [] (by simp) (by simp), ite_self, tailEmptyT, List.isEmpty_nil,
        Bool.true_or, if_true, emptyP, hl, hlast c hl, List.drop_nil]
  simp only [parseBlocksXT, h3]

end MdVerif.RenderG
