/-
Helper lemmas for C10, part 2: `processPlaceholders` (`linkText`, `ppLoop`, `procNode`) restores every in-range
placeholder of a well-formed string.  Core Lean only.
-/
import MdVerif.Lemmas.PlaceholdersBasic

namespace MdVerif.NoCtl
open Py Inline

/-! ### string slots -/

theorem strW_none (esc : Bool) (k : Nat) : StrW esc k none := ⟨.nil, domS_nil esc⟩

theorem strW_some {esc : Bool} {k : Nat} {s : Str} : StrW esc k (some s) ↔ WF esc k s ∧ DomS esc s := Iff.rfl

theorem StrW.mono {esc : Bool} {k k' : Nat} (hk : k ≤ k') {t : Option Str} (h : StrW esc k t) : StrW esc k' t :=
  ⟨WF.mono hk id h.1, h.2⟩

theorem strW_append {esc : Bool} {k : Nat} {t : Option Str} {s : Str} (ht : StrW esc k t) (hs : WF esc k s)
    (hd : DomS esc s) : StrW esc k (some (t.getD [] ++ s)) :=
  ⟨WF.append ht.1 hs, domS_append.2 ⟨ht.2, hd⟩⟩

/-- the output of `processPlaceholders`: an element of the tree whose own text and tail are clean -/
def Out (esc : Bool) (k : Nat) (n : Node) : Prop := n.Forall (WNode esc k) ∧ Clean esc n

theorem isCode_tail (n : Node) (t : Option Str) (b : Bool) : isCode { n with tail := t, tailAtomic := b } = isCode n := rfl
theorem isCode_text (n : Node) (t : Option Str) (b : Bool) : isCode { n with text := t, textAtomic := b } = isCode n := rfl

theorem WNode.set_tail {esc : Bool} {k : Nat} {n : Node} (h : WNode esc k n) {t : Option Str} (ht : StrW esc k t)
    (b : Bool) : WNode esc k { n with tail := t, tailAtomic := b } :=
  ⟨h.1, h.2.1, ht, h.2.2.2.1, h.2.2.2.2.1, h.2.2.2.2.2⟩

theorem Out.set_tail {esc : Bool} {k : Nat} {n : Node} (h : Out esc k n) {t : Option Str} (ht : StrW esc 0 t)
    (b : Bool) : Out esc k { n with tail := t, tailAtomic := b } := by
  obtain ⟨h1, h2⟩ := h
  unfold Out
  rw [Node.forall_iff] at h1 ⊢
  exact ⟨⟨h1.1.set_tail (ht.mono (Nat.zero_le _)) b, h1.2⟩, ⟨h2.1, ht.1⟩⟩

theorem Out.tail {esc : Bool} {k : Nat} {n : Node} (h : Out esc k n) : StrW esc 0 n.tail := by
  obtain ⟨h1, h2⟩ := h
  rw [Node.forall_iff] at h1
  exact ⟨h2.2, h1.1.2.2.1.2⟩

/-! ### `linkText` -/

def SameFrame (a b : Node) : Prop := a.tag = b.tag ∧ a.attrs = b.attrs ∧ a.children = b.children

theorem SameFrame.refl (a : Node) : SameFrame a a := ⟨rfl, rfl, rfl⟩
theorem SameFrame.trans {a b c : Node} (h1 : SameFrame a b) (h2 : SameFrame b c) : SameFrame a c :=
  ⟨h1.1.trans h2.1, h1.2.1.trans h2.2.1, h1.2.2.trans h2.2.2⟩

/-- the slot that `processPlaceholders(…, isText)` writes to -/
def slot (isText : Bool) (n : Node) : Option Str := if isText then n.text else n.tail

/-- the other slot is not touched -/
def OtherSame (isText : Bool) (a b : Node) : Prop :=
  if isText then b.tail = a.tail ∧ b.tailAtomic = a.tailAtomic else b.text = a.text ∧ b.textAtomic = a.textAtomic

theorem OtherSame.refl (isText : Bool) (a : Node) : OtherSame isText a a := by
  unfold OtherSame; split <;> exact ⟨rfl, rfl⟩

theorem OtherSame.trans {isText : Bool} {a b c : Node} (h1 : OtherSame isText a b) (h2 : OtherSame isText b c) :
    OtherSame isText a c := by
  unfold OtherSame at *
  split <;> simp_all

/-- state of the `while data` loop: the elements produced so far and the parent -/
structure PPInv (esc : Bool) (k : Nat) (isText : Bool) (parent0 : Node) (result : List Node) (parent : Node) : Prop where
  frame : SameFrame parent0 parent
  other : OtherSame isText parent0 parent
  slotOK : StrW esc 0 (slot isText parent)
  res : ∀ n ∈ result, Out esc k n

theorem linkText_spec {esc : Bool} {k : Nat} {isText : Bool} {parent0 parent : Node} {result : List Node}
    (inv : PPInv esc k isText parent0 result parent) {text : Str} (hw : WF esc 0 text) (hd : DomS esc text)
    (atomic : Bool) :
    PPInv esc k isText parent0 (linkText text atomic isText result parent).1
      (linkText text atomic isText result parent).2 := by
  unfold linkText
  split
  · exact inv
  · cases result with
    | nil =>
      cases isText with
      | false =>
        simp only [Bool.not_false, if_true]
        have hs : StrW esc 0 parent.tail := inv.slotOK
        split
        · refine ⟨inv.frame.trans ⟨rfl, rfl, rfl⟩, inv.other.trans ⟨rfl, rfl⟩, ?_, inv.res⟩
          exact strW_append hs hw hd
        · refine ⟨inv.frame.trans ⟨rfl, rfl, rfl⟩, inv.other.trans ⟨rfl, rfl⟩, ?_, inv.res⟩
          exact ⟨hw, hd⟩
      | true =>
        simp only [Bool.not_true, Bool.false_eq_true, if_false]
        have hs : StrW esc 0 parent.text := inv.slotOK
        split
        · refine ⟨inv.frame.trans ⟨rfl, rfl, rfl⟩, inv.other.trans ⟨rfl, rfl⟩, ?_, inv.res⟩
          exact strW_append hs hw hd
        · refine ⟨inv.frame.trans ⟨rfl, rfl, rfl⟩, inv.other.trans ⟨rfl, rfl⟩, ?_, inv.res⟩
          exact ⟨hw, hd⟩
    | cons l r =>
      have hl : Out esc k l := inv.res l (by simp)
      have hr : ∀ n ∈ r, Out esc k n := fun n hn => inv.res n (by simp [hn])
      simp only []
      split
      · refine ⟨inv.frame, inv.other, inv.slotOK, ?_⟩
        intro n hn
        rcases List.mem_cons.1 hn with rfl | hn
        · exact hl.set_tail (strW_append hl.tail hw hd) false
        · exact hr n hn
      · refine ⟨inv.frame, inv.other, inv.slotOK, ?_⟩
        intro n hn
        rcases List.mem_cons.1 hn with rfl | hn
        · exact hl.set_tail (strW_some.2 ⟨hw, hd⟩) atomic
        · exact hr n hn

/-! ### `ppLoop` -/

/-- what `nested` must do with a stashed element -/
def NestedOK (esc : Bool) (stash : List StashItem) (nested : Node → Option Node) : Prop :=
  ∀ (i : Nat) (n n' : Node), stash[i]? = some (StashItem.node n) → nested n = some n' → Out esc stash.length n'

theorem PPInv.reverse {esc : Bool} {k : Nat} {isText : Bool} {p0 p : Node} {r : List Node}
    (h : PPInv esc k isText p0 r p) : PPInv esc k isText p0 r.reverse p :=
  ⟨h.frame, h.other, h.slotOK, fun n hn => h.res n (List.mem_reverse.1 hn)⟩

theorem PPInv.cons {esc : Bool} {k : Nat} {isText : Bool} {p0 p : Node} {r : List Node}
    (h : PPInv esc k isText p0 r p) {n : Node} (hn : Out esc k n) : PPInv esc k isText p0 (n :: r) p :=
  ⟨h.frame, h.other, h.slotOK, fun m hm => by
    rcases List.mem_cons.1 hm with rfl | hm
    · exact hn
    · exact h.res m hm⟩

theorem findPh_placeholder {data : Str} {index i : Nat} {rest : Str} (h : data.drop index = placeholder i ++ rest) :
    findPh data index = (some (pad4 i), index + (placeholder i).length) := by
  have hle : ¬ index > data.length := by
    intro hgt
    have : data.drop index = [] := List.drop_eq_nil_of_le (by omega)
    rw [this] at h
    simp [placeholder] at h
  simp only [findPh, hle, if_false, h, findPhScan_placeholder]

theorem ppLoop_spec {esc : Bool} {stash : List StashItem} {nested : Node → Option Node} {data : Str} {atomic isText : Bool}
    {parent0 : Node} (hst : StOK esc stash) (hn : NestedOK esc stash nested) (hdom : DomS esc data) :
    ∀ (g start : Nat) (result : List Node) (parent : Node) (out : List Node × Node),
      start ≤ data.length → WF esc stash.length (data.drop start) →
      PPInv esc stash.length isText parent0 result parent →
      ppLoop stash nested data atomic isText g start result parent = some out →
      PPInv esc stash.length isText parent0 out.1 out.2 := by
  intro g
  induction g with
  | zero => intro start result parent out _ _ _ h; simp [ppLoop] at h
  | succ g ih =>
    intro start result parent out hle hwf inv h
    have hgt : ¬ start > data.length := by omega
    rw [ppLoop] at h
    simp only [hgt, if_false] at h
    rcases find_ph_wf hwf with ⟨hnone, hw0⟩ | ⟨pre, i, rest, hsplit, hfind, hpre, hi, hrest⟩
    · rw [hnone] at h
      simp only [Option.some.injEq] at h
      subst h
      exact (linkText_spec inv hw0 (hdom.drop _) atomic).reverse
    · rw [hfind] at h
      simp only [] at h
      have hdrop : data.drop (start + pre.length) = placeholder i ++ rest := by
        rw [← List.drop_drop, hsplit, List.drop_left]
      rw [findPh_placeholder hdrop] at h
      simp only [Option.bind_some, stashGet_pad4] at h
      obtain ⟨item, hitem⟩ : ∃ item, stash[i]? = some item := by
        have : i < stash.length := hi
        exact ⟨stash[i], by simp [this]⟩
      rw [hitem] at h
      simp only [] at h
      have hslice : slice data start (start + pre.length) = pre := by
        simp only [slice]
        rw [List.drop_take]
        have : start + pre.length - start = pre.length := by omega
        rw [this, hsplit, List.take_left]
      -- the state after the text in front of the placeholder
      have inv1 : PPInv esc stash.length isText parent0
          (if start + pre.length > 0 then linkText (slice data start (start + pre.length)) false isText result parent
            else (result, parent)).1
          (if start + pre.length > 0 then linkText (slice data start (start + pre.length)) false isText result parent
            else (result, parent)).2 := by
        split
        · rw [hslice]
          exact linkText_spec inv hpre ((hdom.drop start).subset (by rw [hsplit]; intro c hc; simp [hc])) false
        · exact inv
      have hlen : start + pre.length + (placeholder i).length ≤ data.length := by
        have := congrArg List.length hsplit
        simp only [List.length_drop, List.length_append] at this
        omega
      have hrest' : data.drop (start + pre.length + (placeholder i).length) = rest := by
        rw [← List.drop_drop, hdrop, List.drop_left]
      have hitemOK := hst i item hitem
      cases item with
      | node n =>
        simp only [] at h
        cases hnn : nested n with
        | none => simp [hnn] at h
        | some n' =>
          simp only [hnn] at h
          have hout := hn i n n' hitem hnn
          revert h
          generalize (if start + pre.length > 0 then linkText (slice data start (start + pre.length)) false isText result parent
            else (result, parent)) = st1 at inv1
          intro h
          exact ih _ _ _ out hlen (by rw [hrest']; exact hrest) (inv1.cons hout) h
      | str s =>
        simp only [] at h
        revert h
        generalize (if start + pre.length > 0 then linkText (slice data start (start + pre.length)) false isText result parent
            else (result, parent)) = st1 at inv1
        intro h
        have inv2 := linkText_spec inv1 hitemOK.1 hitemOK.2 false
        exact ih _ _ _ out hlen (by rw [hrest']; exact hrest) inv2 h


/-! ### `procNode`, `processPlaceholders` -/

theorem SNode.toW {esc : Bool} {i k : Nat} {n : Node} (h : SNode esc i n) (hik : i ≤ k)
    (hat : n.textAtomic = true → WFO esc 0 n.text) : WNode esc k n := by
  obtain ⟨h1, h2, h3, h4, h5⟩ := h
  refine ⟨h1, h2, h4.mono hik, ?_, ?_, hat⟩
  · split
    · rename_i hc
      have he := h5 hc.1
      subst he
      exact noCtl_of_wf (hat hc.2)
    · exact h3.mono hik
  · intro hc he
    rw [h5 hc] at he; cases he

theorem DNode.toW {esc : Bool} {i k : Nat} {n : Node} (h : DNode esc i n) (hik : i ≤ k) : WNode esc k n :=
  h.1.toW hik (fun ha => by rw [h.2] at ha; cases ha)

theorem forall_DNode_toW {esc : Bool} {i k : Nat} (hik : i ≤ k) {n : Node} (h : n.Forall (DNode esc i)) :
    n.Forall (WNode esc k) :=
  Node.Forall.mono (fun _ hm => hm.toW hik) n h

/-- the contract of `processPlaceholders` -/
def PPSpec (esc : Bool) (stash : List StashItem) (pp : PP) : Prop :=
  ∀ (data : Str) (atomic : Bool) (parent : Node) (isText : Bool) (res : List Node) (parent' : Node),
    WF esc stash.length data → DomS esc data → StrW esc 0 (slot isText parent) →
    pp data atomic parent isText = some (res, parent') →
    PPInv esc stash.length isText parent res parent'

theorem strW_zero_of_not_processed {esc : Bool} {k : Nat} {t : Option Str} (h : StrW esc k t)
    (hb : (Node.truthy t && !blankOpt t) = false) : StrW esc 0 t := by
  refine ⟨?_, h.2⟩
  cases t with
  | none => exact .nil
  | some s =>
    cases s with
    | nil => exact .nil
    | cons c r =>
      simp only [Node.truthy, blankOpt, Option.getD_some, Bool.true_and, Bool.not_eq_false'] at hb
      exact WF.of_noCtl (noCtl_of_isBlank hb)

theorem petTail_spec {esc : Bool} {stash : List StashItem} {pp : PP} (hpp : PPSpec esc stash pp) {c c1 : Node}
    {res : List Node} (ht : StrW esc stash.length c.tail) (h : petTail pp c = some (c1, res)) :
    SameFrame c c1 ∧ c1.text = c.text ∧ c1.textAtomic = c.textAtomic ∧ StrW esc 0 c1.tail ∧
      ∀ n ∈ res, Out esc stash.length n := by
  unfold petTail at h
  split at h
  · cases hp : pp (c.tail.getD []) c.tailAtomic { c with tail := none, tailAtomic := false } false with
    | none => simp [hp] at h
    | some r =>
      obtain ⟨res', c'⟩ := r
      simp only [hp, Option.some.injEq, Prod.mk.injEq] at h
      obtain ⟨rfl, rfl⟩ := h
      have := hpp _ _ { c with tail := none, tailAtomic := false } false _ _ ht.1 ht.2 (strW_none esc 0) hp
      exact ⟨this.frame, this.other.1, this.other.2, this.slotOK, this.res⟩
  · rename_i hb
    simp only [Option.some.injEq, Prod.mk.injEq] at h
    obtain ⟨rfl, rfl⟩ := h
    exact ⟨SameFrame.refl _, rfl, rfl, strW_zero_of_not_processed ht (by simpa using hb), by simp⟩

theorem petText_spec {esc : Bool} {stash : List StashItem} {pp : PP} (hpp : PPSpec esc stash pp) {c c2 : Node}
    (ht : StrW esc stash.length c.text) (h : petText pp c = some c2) :
    c2.tag = c.tag ∧ c2.attrs = c.attrs ∧ c2.tail = c.tail ∧ c2.tailAtomic = c.tailAtomic ∧ StrW esc 0 c2.text ∧
      ∃ res, c2.children = res ++ c.children ∧ ∀ n ∈ res, Out esc stash.length n := by
  unfold petText at h
  split at h
  · cases hp : pp (c.text.getD []) c.textAtomic { c with text := none, textAtomic := false } true with
    | none => simp [hp] at h
    | some r =>
      obtain ⟨res', c'⟩ := r
      simp only [hp, Option.some.injEq] at h
      subst h
      have := hpp _ _ { c with text := none, textAtomic := false } true _ _ ht.1 ht.2 (strW_none esc 0) hp
      exact ⟨this.frame.1.symm, this.frame.2.1.symm, this.other.1, this.other.2, this.slotOK, res',
        by simp [← this.frame.2.2], this.res⟩
  · rename_i hb
    simp only [Option.some.injEq] at h
    subst h
    exact ⟨rfl, rfl, rfl, rfl, strW_zero_of_not_processed ht (by simpa using hb), [], by simp, by simp⟩

/-- tail then text of one element made by a pattern -/
theorem pet_both {esc : Bool} {stash : List StashItem} {pp : PP} (hpp : PPSpec esc stash pp) {i : Nat}
    (hi : i ≤ stash.length) {c c1 c2 : Node} {resT : List Node} (hc : SNode esc i c)
    (h1 : petTail pp c = some (c1, resT)) (h2 : petText pp c1 = some c2) :
    SNode esc 0 c2 ∧ (∀ n ∈ resT, Out esc stash.length n) ∧
      ∃ res, c2.children = res ++ c.children ∧ ∀ n ∈ res, Out esc stash.length n := by
  obtain ⟨t1, t2, t3, t4, t5⟩ := hc
  obtain ⟨f1, e1, e2, s1, r1⟩ := petTail_spec hpp (t4.mono hi) h1
  obtain ⟨g1, g2, g3, g4, s2, res, hres, r2⟩ := petText_spec hpp (c := c1) (by rw [e1]; exact t3.mono hi) h2
  refine ⟨⟨by rw [g1, ← f1.1]; exact t1, by rw [g2, ← f1.2.1]; exact t2, s2, by rw [g3]; exact s1, ?_⟩, r1, res,
    by rw [hres, f1.2.2], r2⟩
  have : isCode c2 = isCode c := by simp only [isCode, g1, ← f1.1]
  rw [this]; exact t5

theorem procKids_spec {esc : Bool} {stash : List StashItem} {pp : PP} (hpp : PPSpec esc stash pp) {i : Nat}
    (hi : i ≤ stash.length) :
    ∀ (kids out : List Node), (∀ c ∈ kids, c.Forall (DNode esc i)) → procKids pp kids = some out →
      ∀ m ∈ out, m.Forall (WNode esc stash.length) := by
  intro kids
  induction kids with
  | nil => intro out _ h; simp [procKids] at h; subst h; simp
  | cons c r ih =>
    intro out hk h
    rw [procKids] at h
    cases h1 : petTail pp c with
    | none => simp [h1] at h
    | some p1 =>
      obtain ⟨c1, resT⟩ := p1
      simp only [h1] at h
      cases h2 : petText pp c1 with
      | none => simp [h2] at h
      | some c2 =>
        simp only [h2] at h
        cases h3 : procKids pp r with
        | none => simp [h3] at h
        | some r' =>
          simp only [h3, Option.some.injEq] at h
          subst h
          have hc := hk c (by simp)
          rw [Node.forall_iff] at hc
          obtain ⟨s2, rT, res, hres, rX⟩ := pet_both hpp hi hc.1.1 h1 h2
          intro m hm
          simp only [List.mem_cons, List.mem_append] at hm
          rcases hm with (rfl | hm) | hm
          · rw [Node.forall_iff]
            refine ⟨s2.toW (Nat.zero_le _) (fun _ => s2.2.2.1.1), ?_⟩
            intro g hg
            rw [hres] at hg
            rcases List.mem_append.1 hg with hg | hg
            · exact (rX g hg).1
            · exact forall_DNode_toW hi (hc.2 g hg)
          · exact (rT m hm).1
          · exact ih r' (fun d hd => hk d (by simp [hd])) h3 m hm

theorem procNode_spec {esc : Bool} {stash : List StashItem} {pp : PP} (hpp : PPSpec esc stash pp) {i : Nat}
    (hi : i ≤ stash.length) {n n' : Node} (hn : ItemOK esc i (.node n)) (h : procNode pp n = some n') :
    Out esc stash.length n' := by
  obtain ⟨hs, hkids⟩ := hn
  unfold procNode at h
  simp only [] at h
  cases h1 : petTail pp { n with children := [] } with
  | none => simp [h1] at h
  | some p1 =>
    obtain ⟨n1, tailRes⟩ := p1
    simp only [h1] at h
    cases h2 : petText pp n1 with
    | none => simp [h2] at h
    | some n2 =>
      simp only [h2] at h
      cases h3 : procKids pp n.children with
      | none => simp [h3] at h
      | some kids =>
        simp only [h3, Option.some.injEq] at h
        subst h
        have hs' : SNode esc i { n with children := [] } := hs
        obtain ⟨s2, rT, res, hres, rX⟩ := pet_both hpp hi hs' h1 h2
        have hk := procKids_spec hpp hi n.children kids hkids h3
        refine ⟨?_, ⟨s2.2.2.1.1, s2.2.2.2.1.1⟩⟩
        rw [Node.forall_iff]
        refine ⟨SNode.toW (i := 0) s2 (Nat.zero_le _) (fun _ => s2.2.2.1.1), ?_⟩
        intro g hg
        simp only [List.mem_append] at hg
        rcases hg with (hg | hg) | hg
        · rw [hres] at hg
          simp only [List.append_nil] at hg
          exact (rX g hg).1
        · exact (rT g hg).1
        · exact hk g hg

theorem processPlaceholders_spec {esc : Bool} {stash : List StashItem} (hst : StOK esc stash) :
    ∀ f, PPSpec esc stash (fun d a p t => processPlaceholders stash f d a p t) := by
  intro f
  induction f with
  | zero => intro data atomic parent isText res parent' _ _ _ h; simp [processPlaceholders] at h
  | succ f ih =>
    intro data atomic parent isText res parent' hw hd hs h
    simp only [processPlaceholders] at h
    split at h
    · simp only [Option.some.injEq, Prod.mk.injEq] at h
      obtain ⟨rfl, rfl⟩ := h
      exact ⟨SameFrame.refl _, OtherSame.refl _ _, hs, by simp⟩
    · have hnest : NestedOK esc stash (procNode (fun d a p t => processPlaceholders stash f d a p t)) := by
        intro i n n' hi hp
        have hlt : i < stash.length := by
          rcases Nat.lt_or_ge i stash.length with h | h
          · exact h
          · rw [List.getElem?_eq_none h] at hi; cases hi
        exact procNode_spec ih (Nat.le_of_lt hlt) (hst i _ hi) hp
      exact ppLoop_spec hst hnest hd _ 0 [] parent (res, parent') (Nat.zero_le _) (by simpa using hw)
        ⟨SameFrame.refl _, OtherSame.refl _ _, hs, by simp⟩ h

theorem ppTop_spec {esc : Bool} {st : St} (hst : StOK esc st.stash) {data : Str} {atomic isText : Bool}
    {parent parent' : Node} {res : List Node} (hw : WF esc st.stash.length data) (hd : DomS esc data)
    (hs : StrW esc 0 (slot isText parent)) (h : ppTop st data atomic parent isText = some (res, parent')) :
    PPInv esc st.stash.length isText parent res parent' :=
  processPlaceholders_spec hst _ data atomic parent isText res parent' hw hd hs h


end MdVerif.NoCtl
