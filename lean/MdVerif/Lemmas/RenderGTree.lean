/-
Helper lemmas for `Props/C16RenderG.lean`, part 5: the references explicitly (`fnref:ID`, `fnref2:ID`, … by the
bookkeeping lemmas of `Lemmas/Footnotes.lean`), and the tree processors after the inline stage — the duplicates
processor (a footnote referenced `c` times gets `c` back-links), prettify, unescape — for any number of references and
footnotes.

Core Lean only.
-/
import MdVerif.Lemmas.RenderGRun
import MdVerif.Lemmas.Footnotes

namespace MdVerif.RenderG
open Py Block BlockExt MdVerif.RenderX Inline InlineX
open MdVerif.Footnotes.Spec (refName)

/-! ### the references, explicitly -/

/-- the `sup` elements with the text after them; `hist` = the labels referenced before -/
def refItemsE (keys : List Str) : List (Str × Str) → List Str → List (Node × Str)
  | [], _ => []
  | s :: r, hist =>
    (supG (refName s.1 (hist.count s.1)) s.1 (natToDec (indexOf keys s.1 + 1)), s.2) :: refItemsE keys r (s.1 :: hist)

theorem refItems_explicit (keys : List Str) : ∀ (segs : List (Str × Str)) (fs : Footnotes.State) (hist : List Str),
    Footnotes.Inv fs hist →
      (refItems keys segs fs).1 = refItemsE keys segs hist ∧
      Footnotes.Inv (refItems keys segs fs).2 ((segs.map (·.1)).reverse ++ hist) := by
  intro segs
  induction segs with
  | nil => intro fs hist h; exact ⟨rfl, by simpa [refItems] using h⟩
  | cons s r ih =>
    intro fs hist h
    obtain ⟨h1, h2⟩ := Footnotes.footnoteRefId_true fs hist h s.1
    obtain ⟨h3, h4⟩ := ih _ _ h2
    refine ⟨?_, ?_⟩
    · simp only [refItems, refItemsE, h3, fnRefNode_eq, h1]
    · simpa [refItems] using h4

/-- how often `id` was referenced -/
def refCount (segs : List (Str × Str)) (id : Str) : Nat := (segs.map (·.1)).count id

theorem refItems_empty (keys : List Str) (segs : List (Str × Str)) :
    (refItems keys segs Footnotes.State.empty).1 = refItemsE keys segs [] ∧
    ∀ id, Footnotes.lookup (Footnotes.fnref ++ ':' :: id) (refItems keys segs Footnotes.State.empty).2.foundRefs =
      refCount segs id := by
  obtain ⟨h1, h2⟩ := refItems_explicit keys segs _ [] Footnotes.Inv.empty
  refine ⟨h1, fun id => ?_⟩
  rw [h2.found id]
  simp [refCount, List.count_reverse]

/-! ### the back-links -/

/-- the title of the back-links of footnote number `index` -/
def titleOf (index : Nat) : Str := "Jump back to footnote ".toList ++ natToDec index ++ " in the text".toList

/-- a back-link of footnote number `index` with the given target -/
def backN (index : Nat) (href : Str) : Node :=
  { tag := .name "a".toList,
    attrs := [("href".toList, href), ("class".toList, "footnote-backref".toList), ("title".toList, titleOf index)],
    text := some FootnotesTree.fnBacklinkText }

theorem backlink_eq (id : Str) (index : Nat) :
    FootnotesTree.backlink id index = backN index ('#' :: (Footnotes.fnref ++ ':' :: id)) := by
  unfold FootnotesTree.backlink backN titleOf FootnotesTree.el
  simp only [Footnotes.footnoteRefId, Footnotes.uniqueRef, Bool.false_eq_true, if_false]

/-- the targets of the back-links of a footnote referenced `c` times: `#fnref:ID`, `#fnref2:ID`, … (one also when it
    is never referenced) -/
def backHrefs (id : Str) (c : Nat) : List Str :=
  ('#' :: (Footnotes.fnref ++ ':' :: id)) ::
    (List.range' 2 (c - 1)).map (fun i => ('#' :: Footnotes.fnref) ++ natToDec i ++ ':' :: id)

/-- the `li` after the duplicates processor -/
def liMid (id note : Str) (index c : Nat) : Node :=
  { tag := .name "li".toList, attrs := [("id".toList, Footnotes.footnoteId id)],
    children := [{ tag := .name "p".toList, text := some (note ++ FootnotesTree.nbspPlaceholder),
                   children := (backHrefs id c).map (backN index) }] }

def lisMid (cnt : Str → Nat) : List (Str × Str) → Nat → List Node
  | [], _ => []
  | d :: r, i => liMid d.1 d.2 i (cnt d.1) :: lisMid cnt r (i + 1)

theorem dupLi_li (fs : Footnotes.State) (id note : Str) (index : Nat) :
    FootnotesTree.dupLi fs (liN id note index) =
      some (liMid id note index (Footnotes.lookup (Footnotes.fnref ++ ':' :: id) fs.foundRefs)) := by
  have hid : (liN id note index).getAttr "id".toList = some (Footnotes.footnoteId id) := by simp [liN, Node.getAttr]
  have hsplit : Footnotes.splitFirst ':' ('#' :: (Footnotes.fnref ++ ':' :: id)) = some ('#' :: Footnotes.fnref, id) :=
    Footnotes.splitFirst_append ':' ('#' :: Footnotes.fnref) id (by decide)
  have hfirst : FootnotesTree.firstBackref (liN id note index) =
      some (backN index ('#' :: (Footnotes.fnref ++ ':' :: id))) := by
    simp [liN, liP, backlink_eq, backN, FootnotesTree.firstBackref, FootnotesTree.firstBackrefKids]
  have hhref : (backN index ('#' :: (Footnotes.fnref ++ ':' :: id))).getAttr "href".toList =
      some ('#' :: (Footnotes.fnref ++ ':' :: id)) := by simp [backN, Node.getAttr]
  have hset : ∀ h, (backN index ('#' :: (Footnotes.fnref ++ ':' :: id))).setAttr "href".toList h = backN index h := by
    intro h; simp [backN, Node.setAttr]
  have hlast : (liN id note index).last? = some (liP id note index) := by simp [liN, Node.last?]
  simp only [FootnotesTree.dupLi, hid, Option.getD_some, splitFirst_fn, Footnotes.numDuplicates_footnoteId]
  by_cases hc : Footnotes.lookup (Footnotes.fnref ++ ':' :: id) fs.foundRefs > 1
  · simp only [hc, if_true, hfirst, hhref, Option.getD_some, hsplit, hlast, Footnotes.duplicateLinks, List.map_map]
    simp [liN, liP, liMid, Node.setLast, backHrefs, backlink_eq, Function.comp_def]
    intro a _ _
    exact hset _
  · have h0 : Footnotes.lookup (Footnotes.fnref ++ ':' :: id) fs.foundRefs - 1 = 0 := by omega
    simp [hc, liN, liP, liMid, backHrefs, backlink_eq, h0]

theorem dupLis_lis (fs : Footnotes.State) : ∀ (defs : List (Str × Str)) (i : Nat),
    FootnotesTree.dupLis fs (lisFrom defs i) =
      some (lisMid (fun id => Footnotes.lookup (Footnotes.fnref ++ ':' :: id) fs.foundRefs) defs i) := by
  intro defs
  induction defs with
  | nil => intro i; rfl
  | cons d r ih => intro i; simp only [lisFrom, FootnotesTree.dupLis, dupLi_li, ih (i + 1), lisMid]

theorem noFnDiv_supKids (items : List (Node × Str)) (h : ItemsOK items) : noFnDivKids (supKids items) = true := by
  induction items with
  | nil => rfl
  | cons it r ih =>
    obtain ⟨refId, id, n, e⟩ := h.sup it List.mem_cons_self
    have hr := ih ⟨fun x hx => h.sup x (List.mem_cons_of_mem _ hx), fun x hx => h.tails x (List.mem_cons_of_mem _ hx)⟩
    simp only [supKids, List.map_cons, noFnDivKids, Bool.and_eq_true]
    refine ⟨?_, hr⟩
    rw [e]
    unfold withTail
    split <;> simp [supG, noFnDiv, noFnDivKids]

theorem noFnDiv_lis : ∀ (defs : List (Str × Str)) (i : Nat), noFnDivKids (lisFrom defs i) = true := by
  intro defs
  induction defs with
  | nil => intro i; rfl
  | cons d r ih =>
    intro i
    simp only [lisFrom, noFnDivKids, Bool.and_eq_true]
    exact ⟨by simp [liN, liP, backlink_eq, backN, noFnDiv, noFnDivKids], ih (i + 1)⟩

/-- the duplicates processor on the document -/
theorem duplicates_fnG (fs : Footnotes.State) (t : Str) (items : List (Node × Str)) (defs : List (Str × Str))
    (hI : ItemsOK items) :
    FootnotesTree.duplicates fs (fnMidG t (supKids items) (lisFrom defs 1)) =
      some (fnMidG t (supKids items)
        (lisMid (fun id => Footnotes.lookup (Footnotes.fnref ++ ':' :: id) fs.foundRefs) defs 1)) := by
  have hp : FootnotesTree.duplicates fs ({ mkText "p" t with children := supKids items } : Node) =
      some { mkText "p" t with children := supKids items } :=
    duplicates_noFn fs _ (by simp [mkText, Node.el, noFnDiv, noFnDiv_supKids items hI])
  have hdiv : FootnotesTree.duplicates fs (fnDivG (lisFrom defs 1)) =
      some (fnDivG (lisMid (fun id => Footnotes.lookup (Footnotes.fnref ++ ':' :: id) fs.foundRefs) defs 1)) := by
    have hol : FootnotesTree.duplicates fs ({ FootnotesTree.el "ol" with children := lisFrom defs 1 } : Node) =
        some { FootnotesTree.el "ol" with children := lisFrom defs 1 } :=
      duplicates_noFn fs _ (by simp [FootnotesTree.el, noFnDiv, noFnDiv_lis])
    have hhr : FootnotesTree.duplicates fs (FootnotesTree.el "hr") = some (FootnotesTree.el "hr") :=
      duplicates_noFn fs _ (by simp [FootnotesTree.el, noFnDiv, noFnDivKids])
    unfold fnDivG
    rw [FootnotesTree.duplicates]
    simp only [FootnotesTree.duplicatesKids, hhr, hol]
    simp [FootnotesTree.el, FootnotesTree.dupFirstOl, FootnotesTree.dupFirstOlKids, dupLis_lis]
  unfold fnMidG
  rw [show ({ Node.el "div" with children := [{ mkText "p" t with children := supKids items }, fnDivG (lisFrom defs 1)] } : Node) =
    ⟨.name "div".toList, [], none, false, [{ mkText "p" t with children := supKids items }, fnDivG (lisFrom defs 1)], none, false⟩
    from rfl]
  rw [FootnotesTree.duplicates]
  simp only [FootnotesTree.duplicatesKids, hp, hdiv]
  simp [Node.el]

end MdVerif.RenderG
