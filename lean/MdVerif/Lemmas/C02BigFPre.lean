/-
Lemmas for `Props/C02Big.lean`, section 8 (fenced_code): `FencedBlockPreprocessor.run` on a text without STX/ETX —
worker fc2's `Lemmas/F/PlaceholdersXTFence.lean` (`finv_step`, `fencedLoopA_inv`, `fencedRunA_own`) WITHOUT the domain of
C10 (no `DomB`, `Adj3`, `Qw`): every placeholder written is a block of its own, the stash entries hold no STX/ETX, and
a text without `&` stays without `&`.  The proofs are those of fc2 with the three domain clauses removed.
Core Lean only.
-/
import MdVerif.Lemmas.F.PlaceholdersXTFence

namespace MdVerif.NoCtlXF.XT
open Py
open MdVerif.NoCtl (STX ETX NoCtl)
open MdVerif.NoCtlF (nn NlOpt BeforeTok AfterTok OwnBlock)
open MdVerif.Fenced

/-- the loop invariant without the domain of C10 (`amp = false`: the text has no `&` either) -/
structure FInv1 (amp : Bool) (text : Str) (index h : Nat) : Prop where
  own : OwnBlock h text
  rest : NoCtl (text.drop index)
  noamp : amp = false → '&' ∉ text

/-- **one replacement keeps the invariant** -/
theorem finv1_step {amp : Bool} {text : Str} {index h : Nat} (hI : FInv1 amp text index h) {m : FenceMatch}
    (hm : fenceFindFrom text index = some m) :
    FInv1 amp (text.take m.start ++ '\n' :: (Fenced.placeholder h ++ '\n' :: text.drop m.stop))
      (m.start + 1 + (Fenced.placeholder h).length) (h + 1) := by
  haveI : NoCtlF.HtmlBound := ⟨0, false, false⟩
  obtain ⟨b1, b2, b3, hls, ⟨c, rD, hD, hc⟩, hle, _, _, _⟩ := fenceFindFrom_shape hm
  have hcn : c ≠ '\n' := by rcases hc with rfl | rfl <;> decide
  have hcph : ∀ n, c ∉ Fenced.placeholder n := by
    intro n
    rcases hc with rfl | rfl <;> exact ph_not_mem n (by decide) (by decide) (by decide)
  -- the pieces
  have hDsuf : text.drop m.start <:+: text.drop index := by
    have : text.drop m.start = (text.drop index).drop (m.start - index) := by
      rw [List.drop_drop]; congr 1; omega
    rw [this]; exact (List.drop_suffix _ _).isInfix
  have hCsuf : text.drop m.stop <:+: text.drop index := by
    have : text.drop m.stop = (text.drop index).drop (m.stop - index) := by
      rw [List.drop_drop]; congr 1; omega
    rw [this]; exact (List.drop_suffix _ _).isInfix
  have hDn : NoCtl (text.drop m.start) := noCtl_suffix hI.rest hDsuf
  have hCn : NoCtl (text.drop m.stop) := noCtl_suffix hI.rest hCsuf
  have htext : text = text.take m.start ++ text.drop m.start := (List.take_append_drop _ _).symm
  have hbody : ∀ d ∈ NoCtlF.htmlBody h, d ≠ STX ∧ d ≠ ETX :=
    fun d hd => NoCtlF.inner_ne (NoCtlF.htmlBody_inner h d hd)
  have hph : Fenced.placeholder h = STX :: (NoCtlF.htmlBody h ++ [ETX]) := by
    rw [placeholder_eq]; simp [NoCtlF.frnToken]
  generalize hA : text.take m.start = A at hls htext
  generalize hDD : text.drop m.start = D at hD hDn htext
  generalize hC : text.drop m.stop = C at hle hCn
  have hAlen : A.length = m.start := by rw [← hA, List.length_take]; omega
  refine ⟨⟨?_, ?_⟩, ?_, ?_⟩
  · -- every STX starts a placeholder block
    intro u w e
    rcases List.append_eq_append_iff.1 e with ⟨y, hy1, hy2⟩ | ⟨y, hy1, hy2⟩
    · -- the new placeholder
      have e2 : ['\n'] ++ STX :: (NoCtlF.htmlBody h ++ ETX :: '\n' :: C) = y ++ STX :: w := by
        rw [← hy2, hph]; simp
      have hnot : STX ∉ NoCtlF.htmlBody h ++ ETX :: '\n' :: C := by
        intro hm'
        simp only [List.mem_append, List.mem_cons] at hm'
        rcases hm' with hm' | hm' | hm' | hm'
        · exact (hbody _ hm').1 rfl
        · revert hm'; decide
        · revert hm'; decide
        · exact hCn.1 hm'
      obtain ⟨rfl, rfl⟩ := unique_occ (x := STX) (p := ['\n']) (by decide) hnot e2
      refine ⟨h, '\n' :: C, by omega, by rw [hph]; simp, ?_, ?_⟩
      · rw [hy1]
        rcases hls with h0 | ⟨x, hx⟩
        · rw [h0]; exact .inr (.inl rfl)
        · rw [hx]; exact .inr (.inr ⟨x, by simp [nn]⟩)
      · rcases hle with h0 | ⟨y, hy⟩
        · rw [h0]; exact .inr (.inl rfl)
        · rw [hy]; exact .inr (.inr ⟨y, by simp [nn]⟩)
    · -- an earlier placeholder
      cases y with
      | nil =>
        exfalso
        simp only [List.nil_append, List.cons.injEq] at hy2
        exact absurd hy2.1 (by decide)
      | cons d y' =>
        simp only [List.cons_append, List.cons.injEq] at hy2
        obtain ⟨rfl, rfl⟩ := hy2
        have eold : text = u ++ STX :: (y' ++ D) := by rw [htext, hy1]; simp
        obtain ⟨n, r, hn, hphn, hbef, haft⟩ := hI.own.1 u (y' ++ D) eold
        -- the placeholder lies inside `A`
        obtain ⟨r1, hr1, hr⟩ : ∃ r1, STX :: y' = Fenced.placeholder n ++ r1 ∧ r = r1 ++ D := by
          have e3 : (STX :: y') ++ D = Fenced.placeholder n ++ r := by rw [← hphn]; rfl
          rcases List.append_eq_append_iff.1 e3 with ⟨z, hz1, hz2⟩ | ⟨z, hz1, hz2⟩
          · cases z with
            | nil => exact ⟨[], by simpa using hz1.symm, by simpa using hz2.symm⟩
            | cons z0 z' =>
              exfalso
              rw [hD] at hz2
              simp only [List.cons_append, List.cons.injEq] at hz2
              apply hcph n
              rw [hz1, hz2.1]; simp
          · exact ⟨z, hz1, hz2⟩
        refine ⟨n, r1 ++ '\n' :: (Fenced.placeholder h ++ '\n' :: C), by omega, ?_, hbef, ?_⟩
        · have : STX :: (y' ++ '\n' :: (Fenced.placeholder h ++ '\n' :: C)) =
              (STX :: y') ++ '\n' :: (Fenced.placeholder h ++ '\n' :: C) := rfl
          rw [this, hr1]; simp
        · exact afterTok_replace hD hcn (hr ▸ haft)
  · -- every ETX ends a placeholder
    intro u w e
    rcases List.append_eq_append_iff.1 e with ⟨y, hy1, hy2⟩ | ⟨y, hy1, hy2⟩
    · have e2 : ('\n' :: STX :: NoCtlF.htmlBody h) ++ ETX :: ('\n' :: C) = y ++ ETX :: w := by
        rw [← hy2, hph]; simp
      have hnot1 : ETX ∉ '\n' :: STX :: NoCtlF.htmlBody h := by
        intro hm'
        simp only [List.mem_cons] at hm'
        rcases hm' with hm' | hm' | hm'
        · revert hm'; decide
        · revert hm'; decide
        · exact (hbody _ hm').2 rfl
      have hnot2 : ETX ∉ '\n' :: C := by
        intro hm'
        simp only [List.mem_cons] at hm'
        rcases hm' with hm' | hm'
        · revert hm'; decide
        · exact hCn.2 hm'
      obtain ⟨rfl, rfl⟩ := unique_occ hnot1 hnot2 e2
      exact ⟨h, A ++ ['\n'], by omega, by rw [hy1, hph]; simp⟩
    · cases y with
      | nil =>
        exfalso
        simp only [List.nil_append, List.cons.injEq] at hy2
        exact absurd hy2.1 (by decide)
      | cons d y' =>
        simp only [List.cons_append, List.cons.injEq] at hy2
        obtain ⟨rfl, rfl⟩ := hy2
        have eold : text = u ++ ETX :: (y' ++ D) := by rw [htext, hy1]; simp
        obtain ⟨n, u', hn, hq⟩ := hI.own.2 u (y' ++ D) eold
        exact ⟨n, u', by omega, hq⟩
  · -- behind the new index
    have : (A ++ '\n' :: (Fenced.placeholder h ++ '\n' :: C)).drop (m.start + 1 + (Fenced.placeholder h).length) =
        '\n' :: C := by
      rw [← hAlen, show A.length + 1 + (Fenced.placeholder h).length =
        A.length + (1 + (Fenced.placeholder h).length) by omega, ← List.drop_drop, List.drop_left]
      rw [show 1 + (Fenced.placeholder h).length = (Fenced.placeholder h).length + 1 by omega,
        List.drop_succ_cons, List.drop_left]
    rw [this]
    exact ⟨by intro hm'; simp only [List.mem_cons] at hm'; rcases hm' with hm' | hm'
              · revert hm'; decide
              · exact hCn.1 hm',
           by intro hm'; simp only [List.mem_cons] at hm'; rcases hm' with hm' | hm'
              · revert hm'; decide
              · exact hCn.2 hm'⟩
  · -- no ampersand
    intro hamp hd
    simp only [List.mem_append, List.mem_cons] at hd
    rcases hd with hd | hd | hd | hd | hd
    · exact hI.noamp hamp (by rw [htext]; exact List.mem_append_left _ hd)
    · revert hd; decide
    · exact ph_not_mem h (by decide) (by decide) (by decide) hd
    · revert hd; decide
    · exact hI.noamp hamp (by rw [← hC] at hd; exact (List.drop_suffix _ _).subset hd)

theorem fencedLoopA_inv1 (amp : Bool) : ∀ (fuel : Nat) (text : Str) (index : Nat) (stash : List Str) (t' : Str)
    (stash' : List Str), Fenced.fencedLoopA fuel text index stash = .ok t' stash' →
    FInv1 amp text index stash.length → (∀ e ∈ stash, NoCtl e) →
    (OwnBlock stash'.length t' ∧ (amp = false → '&' ∉ t')) ∧ ∀ e ∈ stash', NoCtl e := by
  haveI : NoCtlF.HtmlBound := ⟨0, false, false⟩
  intro fuel
  induction fuel with
  | zero => intro text index stash t' stash' h; simp [Fenced.fencedLoopA] at h
  | succ k ih =>
    intro text index stash t' stash' h hI hS
    simp only [Fenced.fencedLoopA] at h
    split at h
    · simp only [Fenced.RunResult.ok.injEq] at h
      obtain ⟨rfl, rfl⟩ := h
      exact ⟨⟨hI.own, hI.noamp⟩, hS⟩
    · rename_i m hm
      obtain ⟨b1, _, _, _, _, _, i1, i2, i3⟩ := fenceFindFrom_shape hm
      have hcode := noCtl_suffix hI.rest i1
      have hattrs := noCtl_suffix hI.rest i2
      have hlang := noCtl_suffix hI.rest i3
      obtain ⟨e1, e2⟩ := entry_noctl hattrs hlang hcode
      have hstep := finv1_step hI hm
      have hS' : ∀ x, NoCtl x → ∀ e ∈ stash ++ [x], NoCtl e := by
        intro x hx e he
        rcases List.mem_append.1 he with he | he
        · exact hS e he
        · simp only [List.mem_singleton] at he; subst he; exact hx
      split at h
      · refine ih _ _ _ _ _ h ?_ (hS' _ e1)
        simpa using hstep
      · split at h
        · refine ih _ _ _ _ _ h ⟨hI.own, ?_, hI.noamp⟩ hS
          have hge : index ≤ Fenced.attrsEnd text m (m.attrs.getD []) := by
            unfold Fenced.attrsEnd; omega
          have : text.drop (Fenced.attrsEnd text m (m.attrs.getD [])) =
              (text.drop index).drop (Fenced.attrsEnd text m (m.attrs.getD []) - index) := by
            rw [List.drop_drop]; congr 1; omega
          rw [this]
          exact noCtl_suffix hI.rest (List.drop_suffix _ _).isInfix
        · refine ih _ _ _ _ _ h ?_ (hS' _ e2)
          simpa using hstep

/-- **`FencedBlockPreprocessor.run` on a text without STX/ETX and without `&`**: in the text handed on every STX/ETX
    belongs to a placeholder `STX wzxhzdk:n ETX`, `n` below the length of the stash, that is a block of its own; the
    text still has no `&` (so the raw-HTML preprocessor leaves it alone); every stash entry is free of STX/ETX -/
theorem fencedRunA_own1 {t t' : Str} {stash : List Str} (h : Fenced.fencedRunA t = .ok t' stash)
    (hn : NoCtl t) (ha : '&' ∉ t) :
    (OwnBlock stash.length t' ∧ '&' ∉ t') ∧ ∀ e ∈ stash, NoCtl e :=
  haveI : NoCtlF.HtmlBound := ⟨0, false, false⟩
  have := fencedLoopA_inv1 false _ _ _ _ _ _ h
    ⟨ownBlock_of_noCtl hn, by simpa using hn, fun _ => ha⟩ (fun e he => by cases he)
  ⟨⟨this.1.1, this.1.2 rfl⟩, this.2⟩

/-- **`FencedBlockPreprocessor.run` on ANY text without STX/ETX**: every placeholder written is a block of its own, no
    stash entry holds STX/ETX -/
theorem fencedRunA_own0 {t t' : Str} {stash : List Str} (h : Fenced.fencedRunA t = .ok t' stash)
    (hn : NoCtl t) : OwnBlock stash.length t' ∧ ∀ e ∈ stash, NoCtl e :=
  haveI : NoCtlF.HtmlBound := ⟨0, false, false⟩
  have := fencedLoopA_inv1 true _ _ _ _ _ _ h
    ⟨ownBlock_of_noCtl hn, by simpa using hn, fun h => by cases h⟩ (fun e he => by cases he)
  ⟨this.1.1, this.2⟩

end MdVerif.NoCtlXF.XT
