/-
`DeepP Ok` of the tree handed to the inline stage (`blockStage_treeP`): block parser and footnote tree processor, for a
`BSep` predicate.  Generalises `Lemmas/PipelineXInertTree4.lean`.  Core Lean only.
-/
import MdVerif.Lemmas.PipelineXInertTreeP3
import MdVerif.Lemmas.PipelineXInertTree4

namespace MdVerif.PipelineX
open Py Pipeline BlockExt InlineX

variable {Ok : Str → Prop} {N : Char → Prop}

theorem addBacklink_treeP (hs : BSep Ok N) {li bl li' : Node} (hli : DeepP Ok li) (hbl : DeepP Ok bl)
    (h : FootnotesTree.addBacklink li bl = some li') : DeepP Ok li' := by
  simp only [FootnotesTree.addBacklink] at h
  split at h
  · injection h with h; exact h ▸ hli
  · rename_i node hnode
    have hnodeD := DeepP_last hli hnode
    split at h
    · split at h
      · rename_i t ht
        injection h with h
        rw [← h]
        apply DeepP_setLast hli
        have h' := (DeepP_iff node).mp hnodeD
        rw [DeepP_iff]
        refine ⟨?_, h'.2.1, ?_⟩
        · intro s hs'; cases hs'
          exact hs.snoc (h'.1 t ht) hs.fn2
        · intro k hk
          simp only [List.mem_append, List.mem_singleton] at hk
          rcases hk with hk | hk
          · exact h'.2.2 k hk
          · exact hk ▸ hbl
      · cases h
    · injection h with h
      rw [← h]
      apply DeepP_append hli
      apply DeepP_children _ (DeepP_el "p")
      intro k hk
      simp only [List.mem_singleton] at hk
      exact hk ▸ hbl

theorem backlink_treeP (hs : BSep Ok N) (id : Str) (index : Nat) : DeepP Ok (FootnotesTree.backlink id index) := by
  exact DeepP_leaf rfl (by
    intro s hs'
    simp only [FootnotesTree.backlink] at hs'
    cases hs'
    exact hs.sep.neut ⟨by decide, hs.fn1⟩) rfl

theorem makeLis_treeP (hs : BSep Ok N) {parse : Block.Refs → Str → Option (Node × Block.Refs)}
    {fc : Block.Refs → Nat} (H : ∀ log text n r, Ok text → parse log text = some (n, r) → DeepP Ok n) :
    ∀ (l : List (Str × Str)) (index : Nat) (log : Block.Refs) {lis : List Node} {log' : Block.Refs},
      (∀ kv ∈ l, Ok kv.2) → FootnotesTree.makeLis parse fc l index log = .ok (lis, log') →
      ∀ li ∈ lis, DeepP Ok li := by
  intro l
  induction l with
  | nil =>
    intro index log lis log' _ h
    simp only [FootnotesTree.makeLis] at h
    injection h with h
    injection h with h _
    rw [← h]; intro li hli; cases hli
  | cons kv l ih =>
    intro index log lis log' hl h
    obtain ⟨id, text⟩ := kv
    simp only [FootnotesTree.makeLis] at h
    split at h
    · cases h
    · rename_i sur log1 hp
      have hsur := H _ _ _ _ (hl (id, text) List.mem_cons_self) hp
      split at h
      · cases h
      · split at h
        · cases h
        · rename_i li' hli'
          have hliD : DeepP Ok li' := by
            apply addBacklink_treeP hs _ (backlink_treeP hs id index) hli'
            rw [DeepP_iff]
            exact ⟨by intro s hs'; simp [FootnotesTree.el] at hs', by intro s hs'; simp [FootnotesTree.el] at hs',
              fun k hk => DeepP_kids hsur k hk⟩
          split at h
          · rename_i lis2 log2 hrec
            injection h with h
            injection h with h _
            rw [← h]
            intro li hli
            rcases List.mem_cons.mp hli with hli | hli
            · exact hli ▸ hliD
            · exact ih _ _ (fun kv hkv => hl kv (List.mem_cons_of_mem _ hkv)) hrec li hli
          · cases h
          · cases h

mutual
theorem placeNode_treeP (div : Node) (hdiv : DeepP Ok div) : ∀ (n : Node) {n' : Node}, DeepP Ok n →
    FootnotesTree.placeNode div n = some n' → DeepP Ok n'
  | ⟨tag, attrs, text, ta, children, tail, tla⟩, n', hn, h => by
    simp only [FootnotesTree.placeNode] at h
    split at h
    · rename_i ks hks
      injection h with h
      rw [← h]
      have h' := (DeepP_iff _).mp hn
      rw [DeepP_iff]
      exact ⟨h'.1, h'.2.1, placeKids_treeP div hdiv children (fun k hk => h'.2.2 k hk) hks⟩
    · cases h
theorem placeKids_treeP (div : Node) (hdiv : DeepP Ok div) : ∀ (l : List Node) {l' : List Node}, (∀ k ∈ l, DeepP Ok k) →
    FootnotesTree.placeKids div l = some l' → ∀ k ∈ l', DeepP Ok k
  | [], l', _, h => by simp [FootnotesTree.placeKids] at h
  | a :: r, l', hl, h => by
    simp only [FootnotesTree.placeKids] at h
    have ha := hl a List.mem_cons_self
    have hr : ∀ k ∈ r, DeepP Ok k := fun k hk => hl k (List.mem_cons_of_mem _ hk)
    split at h
    · injection h with h
      rw [← h]
      intro k hk
      rcases List.mem_cons.mp hk with hk | hk
      · exact hk ▸ hdiv
      · exact hr k hk
    · split at h
      · injection h with h
        rw [← h]
        intro k hk
        rcases List.mem_cons.mp hk with hk | hk
        · exact hk ▸ DeepP_noTail ha
        · rcases List.mem_cons.mp hk with hk | hk
          · exact hk ▸ hdiv
          · exact hr k hk
      · split at h
        · rename_i a' ha'
          injection h with h
          rw [← h]
          intro k hk
          rcases List.mem_cons.mp hk with hk | hk
          · exact hk ▸ placeNode_treeP div hdiv a ha ha'
          · exact hr k hk
        · split at h
          · rename_i r' hr'
            injection h with h
            rw [← h]
            intro k hk
            rcases List.mem_cons.mp hk with hk | hk
            · exact hk ▸ ha
            · exact placeKids_treeP div hdiv r hr hr' k hk
          · cases h
end

/-- on a text without `c`, the tree handed to the inline stage is `c`-free -/
theorem blockStage_treeP (hs : BSep Ok N) (tables footnotes : Bool) (bc : BlockExt.XCfg) (cfg : Cfg) {text : Str}
    (hok : Ok text) {root : Node} {log : Block.Refs} (h : blockStage tables footnotes bc cfg text = .ok (root, log)) :
    DeepP Ok root := by
  have hc := hs.closed
  have hn := parseBlocksXT_treeP hs tables bc cfg.tab
  have hlog := parseBlocksXT_log hc tables bc cfg.tab (logStep_logOk hc bc)
  simp only [blockStage, parseDocumentXT] at h
  split at h
  · cases h
  · rename_i root0 log0 hp
    have hroot0 : DeepP Ok root0 := PSound.chunk hs (hn _) [] [] (Node.el "div") hok (DeepP_el _) root0 log0 hp
    have hlog0 : LogOk (Ok) log0 := (hlog _).chunk hc [] [] (Node.el "div") hok LogOk.nil root0 log0 hp
    cases footnotes with
    | false =>
      simp only [Bool.false_eq_true, if_false] at h
      injection h with h
      injection h with h _
      exact h ▸ hroot0
    | true =>
      simp only [if_true] at h
      cases hm : FootnotesTree.makeDiv (parseChunkB tables bc cfg) fnCount (footnotesOf log0) log0 with
      | oof => rw [hm] at h; cases h
      | ood => rw [hm] at h; cases h
      | ok r =>
        obtain ⟨d, log'⟩ := r
        rw [hm] at h
        cases d with
        | none =>
          injection h with h
          injection h with h _
          exact h ▸ hroot0
        | some div =>
          injection h with h
          injection h with h _
          rw [← h]
          have hdiv : DeepP Ok div := by
            simp only [FootnotesTree.makeDiv] at hm
            split at hm
            · cases hm
            · split at hm
              · rename_i lis log2 hml
                injection hm with hm
                injection hm with hm _
                injection hm with hm
                rw [← hm]
                have hlis := makeLis_treeP hs (parse := parseChunkB tables bc cfg)
                  (fun log text n r ht hp' => PSound.chunk hs (hn _) [] log (Node.el "div") ht (DeepP_el _) n r hp')
                  _ _ _ (footnotesOf_ok hlog0) hml
                rw [DeepP_iff]
                refine ⟨by intro s hs'; simp [FootnotesTree.el] at hs', by intro s hs'; simp [FootnotesTree.el] at hs', ?_⟩
                intro k hk
                simp only [List.mem_cons, List.not_mem_nil, or_false] at hk
                rcases hk with hk | hk
                · rw [hk]
                  exact DeepP_leaf rfl (by intro s hs'; simp [FootnotesTree.el] at hs') rfl
                · rw [hk, DeepP_iff]
                  exact ⟨by intro s hs'; simp [FootnotesTree.el] at hs', by intro s hs'; simp [FootnotesTree.el] at hs',
                    hlis⟩
              · cases hm
              · cases hm
          simp only [FootnotesTree.placeDiv]
          split
          · rename_i r' hr'
            exact placeNode_treeP div hdiv root0 hroot0 hr'
          · exact DeepP_append hroot0 hdiv

end MdVerif.PipelineX
