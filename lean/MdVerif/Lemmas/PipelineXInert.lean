/-
End-to-end non-interference of the bundled extensions on `PipelineX.convertX`: the per-extension lemmas behind
`Props/C16Pipeline.lean`.  Core Lean only.
-/
import MdVerif.Lemmas.PipelineXInertStage
import MdVerif.Lemmas.PipelineXInertFlags
import MdVerif.Props.C16Fenced
import MdVerif.Lemmas.PipelineXInertKeys

namespace MdVerif.PipelineX
open Py Pipeline BlockExt

/-- `convertX` of two settings that agree stage by stage -/
theorem convertX_of_stages (x x' : Exts) (cfg : Cfg) (src : Str)
    (h1 : prepareX x' cfg src = prepareX x cfg src)
    (h2 : ∀ text stash, prepareX x cfg src = .ok (text, stash) →
      blockStage x'.tables x'.footnotes x'.blockCfg cfg text = blockStage x.tables x.footnotes x.blockCfg cfg text)
    (h3 : ∀ text stash root log, prepareX x cfg src = .ok (text, stash) →
      blockStage x.tables x.footnotes x.blockCfg cfg text = .ok (root, log) →
      lateX x' cfg stash root log = lateX x cfg stash root log)
    (h4 : ∀ stash out, finishX x' cfg stash out = finishX x cfg stash out) :
    convertX x' cfg src = convertX x cfg src := by
  have ht : treeX x' cfg src = treeX x cfg src := by
    rw [treeX_stages, treeX_stages, h1]
    cases hp : prepareX x cfg src with
    | oof => rfl
    | ood => rfl
    | ok p =>
      obtain ⟨text, stash⟩ := p
      simp only []
      rw [h2 text stash hp]
      cases hb : blockStage x.tables x.footnotes x.blockCfg cfg text with
      | oof => rfl
      | ood => rfl
      | ok q =>
        obtain ⟨root, log⟩ := q
        simp only []
        rw [h3 text stash root log hp hb]
  simp only [convertX, Exts.unsupported, ht]
  split
  · rfl
  · simp only [Bool.false_eq_true, if_false]
    split
    · rfl
    · cases treeX x cfg src with
      | oof => rfl
      | err => rfl
      | ood => rfl
      | ok u html => exact h4 html _

/-! ### admonition -/

theorem admNonAscii_needs {t : Str} (h : admNonAscii t = true) : trigAdmonition <:+: t := by
  induction t with
  | nil => simp [admNonAscii] at h
  | cons c r ih =>
    simp only [admNonAscii, Bool.or_eq_true, Bool.and_eq_true, decide_eq_true_eq] at h
    rcases h with ⟨hc, hr⟩ | h
    · subst hc
      split at hr
      · rename_i d tail
        exact ⟨[], ' ' :: d :: tail, by simp [trigAdmonition]⟩
      · rename_i d tail _
        exact ⟨[], d :: tail, by simp [trigAdmonition]⟩
      · cases hr
    · exact List.infix_cons (ih h)

theorem admNonAscii_false {t : Str} (h : contains t trigAdmonition = false) : admNonAscii t = false := by
  cases ha : admNonAscii t with
  | false => rfl
  | true =>
    have := (contains_iff_infix t _).mpr (admNonAscii_needs ha)
    simp [this] at h

theorem tableTagsOk_adm : TableTagsOk qtAdm :=
  ⟨by intro a; simp [qtAdm, isAdmDiv, Node.isTag], by intro a; simp [qtAdm, isAdmDiv, Node.isTag],
   by intro a; simp [qtAdm, isAdmDiv, Node.isTag], by intro a; simp [qtAdm, isAdmDiv, Node.isTag],
   by intro a; simp [qtAdm, isAdmDiv, Node.isTag], by intro a; simp [qtAdm, isAdmDiv, Node.isTag]⟩

theorem tableTagsOk_def : TableTagsOk qtDef :=
  ⟨by intro a; simp [qtDef], by intro a; simp [qtDef], by intro a; simp [qtDef], by intro a; simp [qtDef],
   by intro a; simp [qtDef], by intro a; simp [qtDef]⟩

theorem closed_adm : Closed (fun s => contains s trigAdmonition = false) :=
  closed_noSub trigAdmonition (by simp [trigAdmonition]) (by simp [trigAdmonition])

theorem prep_adm : PrepClosed (fun s => contains s trigAdmonition = false) :=
  prepClosed_noSub trigAdmonition (by simp [trigAdmonition]) '!' (by simp [trigAdmonition]) (by decide)

theorem convertX_admonition (x : Exts) (hx : x.admonition = false) (cfg : Cfg) (src : Str)
    (h : contains (Normalize.normalize cfg.tab src) trigAdmonition = false) :
    convertX { x with admonition := true } cfg src = convertX x cfg src := by
  apply convertX_of_stages
  · simp only [prepareX, hx, admNonAscii_false h]
    rfl
  · intro text stash hp
    exact blockStage_congr closed_adm x.tables x.tables x.blockCfg { x.blockCfg with admonition := true } x.footnotes cfg
      (tagsOk_adm x.blockCfg hx) (fun _ => tableTagsOk_adm) (by decide)
      (fun pb st refs p b rest hb hn => dispatchXT_admonition x.tables x.blockCfg cfg.tab pb st refs p b rest hx hb hn)
      (prepareX_ok closed_adm prep_adm x cfg src hp h)
  · intro _ _ _ _ _ _; rfl
  · intro _ _; rfl

/-! ### def_list -/

theorem closed_def : Closed (fun s => contains s trigDefList = false) :=
  closed_noSub trigDefList (by simp [trigDefList]) (by simp [trigDefList])

theorem prep_def : PrepClosed (fun s => contains s trigDefList = false) :=
  prepClosed_noSub trigDefList (by simp [trigDefList]) ' ' (by simp [trigDefList]) (by decide)

theorem convertX_defList (x : Exts) (hx : x.defList = false) (cfg : Cfg) (src : Str)
    (h : contains (Normalize.normalize cfg.tab src) trigDefList = false) :
    convertX { x with defList := true } cfg src = convertX x cfg src := by
  apply convertX_of_stages
  · rfl
  · intro text stash hp
    exact blockStage_congr closed_def x.tables x.tables x.blockCfg { x.blockCfg with defList := true } x.footnotes cfg
      (tagsOk_def x.blockCfg hx) (fun _ => tableTagsOk_def) (by decide)
      (fun pb st refs p b rest hb hn => dispatchXT_defList x.tables x.blockCfg cfg.tab pb st refs p b rest hb hn)
      (prepareX_ok closed_def prep_def x cfg src hp h)
  · intro _ _ _ _ _ _; rfl
  · intro _ _; rfl

/-! ### sane_lists -/

theorem prep_noListMarker : PrepClosed noListMarker :=
  prepClosed_and
    (prepClosed_and (prepClosed_noSub _ (by simp) ' ' (by simp) (by decide))
      (prepClosed_noSub _ (by simp) ' ' (by simp) (by decide)))
    (prepClosed_and (prepClosed_noSub _ (by simp) ' ' (by simp) (by decide))
      (prepClosed_noSub _ (by simp) ' ' (by simp) (by decide)))

theorem convertX_saneLists (x : Exts) (cfg : Cfg) (src : Str)
    (h : noListMarker (Normalize.normalize cfg.tab src)) :
    convertX { x with saneLists := true } cfg src = convertX x cfg src := by
  apply convertX_of_stages
  · rfl
  · intro text stash hp
    exact blockStage_congr (qt := qtTrue) closed_noListMarker x.tables x.tables x.blockCfg
      { x.blockCfg with saneLists := true } x.footnotes cfg
      (tagsOk_true x.blockCfg) (fun _ => tableTagsOk_true) rfl
      (fun pb st refs p b rest hb _ => dispatchXT_saneLists x.tables x.blockCfg cfg.tab pb st refs p b rest hb)
      (prepareX_ok closed_noListMarker prep_noListMarker x cfg src hp h)
  · intro _ _ _ _ _ _; rfl
  · intro _ _; rfl

/-! ### fenced_code -/

theorem convertX_fencedCode (x : Exts) (hx : x.fencedCode = false) (cfg : Cfg) (src : Str)
    (h : Fenced.noFenceLine (Normalize.normalize cfg.tab src) = true) :
    convertX { x with fencedCode := true } cfg src = convertX x cfg src := by
  obtain ⟨h1, _, h3⟩ := Fenced.C16_fenced_inert_linestart _ h
  have hcfgd : fencedHasConfig ((Normalize.normalize cfg.tab src).length + 1) (Normalize.normalize cfg.tab src) 0 0 =
      false := by
    have : Fenced.fenceFindFrom (Normalize.normalize cfg.tab src) 0 = none := h1
    simp only [fencedHasConfig, this]
  apply convertX_of_stages
  · simp only [prepareX, hx, hcfgd, h3]
    simp
  · intro _ _ _; rfl
  · intro _ _ _ _ _ _; rfl
  · intro _ _; rfl

/-! ### log invariants of the block stage -/

theorem makeLis_log {Q : Block.Refs → Prop} {parse : Block.Refs → Str → Option (Node × Block.Refs)}
    {fc : Block.Refs → Nat} (H : ∀ log text n r, Q log → parse log text = some (n, r) → Q r) :
    ∀ (l : List (Str × Str)) (index : Nat) (log : Block.Refs) {lis : List Node} {log' : Block.Refs}, Q log →
      FootnotesTree.makeLis parse fc l index log = .ok (lis, log') → Q log' := by
  intro l
  induction l with
  | nil =>
    intro index log lis log' hq h
    simp only [FootnotesTree.makeLis] at h
    injection h with h
    injection h with _ h
    exact h ▸ hq
  | cons kv l ih =>
    intro index log lis log' hq h
    obtain ⟨id, text⟩ := kv
    simp only [FootnotesTree.makeLis] at h
    split at h
    · cases h
    · rename_i sur log1 hp
      split at h
      · cases h
      · split at h
        · cases h
        · split at h
          · rename_i lis2 log2 hrec
            injection h with h
            injection h with _ h
            exact h ▸ ih _ _ (H _ _ _ _ hq hp) hrec
          · cases h
          · cases h

theorem makeDiv_log {Q : Block.Refs → Prop} {parse : Block.Refs → Str → Option (Node × Block.Refs)}
    {fc : Block.Refs → Nat} (H : ∀ log text n r, Q log → parse log text = some (n, r) → Q r)
    (fns : List (Str × Str)) (log : Block.Refs) {d : Option Node} {log' : Block.Refs} (hq : Q log)
    (h : FootnotesTree.makeDiv parse fc fns log = .ok (d, log')) : Q log' := by
  simp only [FootnotesTree.makeDiv] at h
  split at h
  · injection h with h
    injection h with _ h
    exact h ▸ hq
  · split at h
    · rename_i lis log2 hm
      injection h with h
      injection h with _ h
      exact h ▸ makeLis_log H _ _ _ hq hm
    · cases h
    · cases h

/-- a log invariant that the writing processors keep (whatever the blocks) holds of the log of the block stage -/
theorem blockStage_log {Q : Block.Refs → Prop} (tables footnotes : Bool) (bc : XCfg) (cfg : Cfg) (text : Str)
    (hl : LogStep (fun _ => True) Q bc) (hq0 : Q []) {root : Node} {log : Block.Refs}
    (h : blockStage tables footnotes bc cfg text = .ok (root, log)) : Q log := by
  have hs := parseBlocksXT_log closed_true tables bc cfg.tab hl
  have hall : ∀ bl : List Str, AllOk (fun _ => True) bl := fun _ _ _ => trivial
  simp only [blockStage, parseDocumentXT] at h
  split at h
  · cases h
  · rename_i root0 log0 hp
    have hq1 : Q log0 := hs _ _ _ _ _ (hall _) hq0 root0 log0 hp
    have hparse : ∀ log text n r, Q log → parseChunkB tables bc cfg log text = some (n, r) → Q r :=
      fun log text n r hq hp => hs _ _ _ _ _ (hall _) hq n r hp
    cases footnotes with
    | false =>
      simp only [Bool.false_eq_true, if_false] at h
      injection h with h
      injection h with _ h
      exact h ▸ hq1
    | true =>
      simp only [if_true] at h
      cases hm : FootnotesTree.makeDiv (parseChunkB tables bc cfg) fnCount (footnotesOf log0) log0 with
      | oof => rw [hm] at h; cases h
      | ood => rw [hm] at h; cases h
      | ok r =>
        obtain ⟨d, log'⟩ := r
        have hq2 : Q log' := makeDiv_log hparse _ _ hq1 hm
        rw [hm] at h
        cases d with
        | none =>
          injection h with h
          injection h with _ h
          exact h ▸ hq2
        | some div =>
          injection h with h
          injection h with _ h
          exact h ▸ hq2

/-! ### abbr -/

theorem closed_abbr : Closed (fun s => contains s trigAbbr = false) :=
  closed_noSub trigAbbr (by simp [trigAbbr]) (by simp [trigAbbr])

theorem prep_abbr : PrepClosed (fun s => contains s trigAbbr = false) :=
  prepClosed_noSub trigAbbr (by simp [trigAbbr]) '*' (by simp [trigAbbr]) (by decide)

theorem convertX_abbr (x : Exts) (hx : x.abbr = false) (cfg : Cfg) (src : Str)
    (h : contains (Normalize.normalize cfg.tab src) trigAbbr = false) :
    convertX { x with abbr := true } cfg src = convertX x cfg src := by
  apply convertX_of_stages
  · rfl
  · intro text stash hp
    exact blockStage_congr (qt := qtTrue) closed_abbr x.tables x.tables x.blockCfg { x.blockCfg with abbr := true }
      x.footnotes cfg (tagsOk_true x.blockCfg) (fun _ => tableTagsOk_true) rfl
      (fun pb st refs p b rest hb _ => dispatchXT_abbr x.tables x.blockCfg cfg.tab pb st refs p b rest hb)
      (prepareX_ok closed_abbr prep_abbr x cfg src hp h)
  · intro text stash root log _ hb
    have hnoab : NoAb log := blockStage_log x.tables x.footnotes x.blockCfg cfg text
      (logStep_noAb x.blockCfg hx) (by intro e he; cases he) hb
    have hrefs : refsX { x with abbr := true } log = refsX x log := by
      simp only [refsX, hx, Bool.or_true, Bool.or_false, if_true]
      cases hf : x.footnotes with
      | true => rfl
      | false =>
        have hnofn : NoFn log := blockStage_log x.tables x.footnotes x.blockCfg cfg text
          (logStep_noFn x.blockCfg hf hx) (by intro e he; cases he) hb
        simp only [Bool.false_eq_true, if_false]
        exact refsOf_id hnofn hnoab
    simp only [lateX, hrefs, abbrsOf_noAb hnoab, AbbrTree.run, hx]
    rfl
  · intro _ _; rfl

end MdVerif.PipelineX
