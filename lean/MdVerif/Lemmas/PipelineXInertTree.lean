/-
A character that the block processors do not introduce and that does not occur in the text does not occur in any
text or tail of the block tree (`parseBlocksXT_tree`), nor in what the footnote tree processor adds
(`makeDiv_tree`).  `BlockSafeC c` lists what the processors write themselves: newlines, `None`, the entity
spellings of `code_escape`, lower-cased / capitalised class names (admonition titles), the footnote placeholders.
Core Lean only.
-/
import MdVerif.Lemmas.PipelineXInertLogOk
import MdVerif.Lemmas.InlineXInv
import MdVerif.Model.Ext.FootnotesTree
import MdVerif.Model.BlockExtT

namespace MdVerif.BlockExt
open Py Block InlineX

structure BlockSafeC (c : Char) : Prop where
  nl : c ≠ '\n'
  none_ : c ∉ ['N', 'o', 'n', 'e']
  ent : c ∉ ['&', 'a', 'm', 'p', ';', 'l', 't', 'g']
  lower : ∀ d, d ≠ c → c ∉ lowerChar d
  upper : ∀ d, isAsciiLower d = true → Char.ofNat (d.toNat - 32) ≠ c
  fn1 : c ∉ FootnotesTree.fnBacklinkText
  fn2 : c ∉ FootnotesTree.nbspPlaceholder

variable {c : Char}

/-- the closed predicate "`c` does not occur" -/
def NoC (c : Char) (s : Str) : Prop := c ∉ s

theorem closed_noC (c : Char) (h : c ≠ '\n') : Closed (NoC c) where
  nil := by simp [NoC]
  sub := fun hts hs hm => hs (hts.subset hm)
  joinNl := by
    intro a b ha hb hm
    rcases List.mem_append.mp hm with hm | hm
    · exact ha hm
    · rcases List.mem_cons.mp hm with hm | hm
      · exact h hm
      · exact hb hm

/-! ### strings the processors build -/

theorem blockCodeEscape_notin (hs : BlockSafeC c) {t : Str} (h : c ∉ t) : c ∉ Block.codeEscape t := by
  intro hm
  simp only [Block.codeEscape] at hm
  have hent := hs.ent
  rcases mem_replace hm with hm | hm
  · rcases mem_replace hm with hm | hm
    · rcases mem_replace hm with hm | hm
      · exact h hm
      · simp at hm hent; simp_all
    · simp at hm hent; simp_all
  · simp at hm hent; simp_all

theorem fmtOpt_notin (hs : BlockSafeC c) {t : Option Str} (h : ∀ s, t = some s → c ∉ s) : c ∉ fmtOpt t := by
  cases t with
  | none =>
    have := hs.none_
    simp only [fmtOpt]
    intro hm
    simp at hm this; simp_all
  | some s => exact h s rfl

theorem lower_notin (hs : BlockSafeC c) {s : Str} (h : c ∉ s) : c ∉ lower s := by
  simp only [Py.lower, List.mem_flatMap, not_exists, not_and]
  intro d hd
  exact hs.lower d (fun e => h (e ▸ hd))

theorem collapseSp_sub : ∀ (s : Str), ∀ x ∈ collapseSp s, x ∈ s := by
  intro s
  induction s with
  | nil => intro x hx; simp [collapseSp] at hx
  | cons a r ih =>
    intro x hx
    unfold collapseSp at hx
    split at hx
    · simp only [List.mem_singleton] at hx
      exact hx ▸ List.mem_cons_self
    · split at hx
      · exact List.mem_cons_of_mem _ (ih x hx)
      · rcases List.mem_cons.mp hx with hx | hx
        · exact hx ▸ List.mem_cons_self
        · exact List.mem_cons_of_mem _ (ih x hx)

theorem capitalize_notin (hs : BlockSafeC c) {s : Str} (h : c ∉ s) : c ∉ capitalize s := by
  cases s with
  | nil => simp [capitalize]
  | cons a r =>
    simp only [capitalize]
    intro hm
    rcases List.mem_cons.mp hm with hm | hm
    · split at hm
      · rename_i hl
        exact hs.upper a hl hm.symm
      · exact h (hm ▸ List.mem_cons_self)
    · exact lower_notin hs (fun hr => h (List.mem_cons_of_mem _ hr)) hm

/-! ### what the recognisers return is made of characters of the block -/

theorem hashHeader_sub : ∀ (f : Nat) (s : Str) {hd : Str} {n : Nat}, hashHeader f s = some (hd, n) → ∀ x ∈ hd, x ∈ s := by
  intro f
  induction f with
  | zero => intro s hd n h; simp [hashHeader] at h
  | succ f ih =>
    intro s hd n h
    simp only [hashHeader] at h
    split at h
    · cases h; intro x hx; cases hx
    · split at h
      · cases h
      · rename_i a rr
        split at h
        · split at h
          · rename_i d r'
            split at h
            · cases h
            · split at h
              · rename_i h' n' hrec
                cases h
                intro x hx
                simp only [List.mem_cons] at hx ⊢
                rcases hx with hx | hx | hx
                · exact Or.inl hx
                · exact Or.inr (Or.inl hx)
                · exact Or.inr (Or.inr (ih _ hrec x hx))
              · cases h
          · cases h
        · split at h
          · rename_i h' n' hrec
            cases h
            intro x hx
            rcases List.mem_cons.mp hx with hx | hx
            · exact hx ▸ List.mem_cons_self
            · exact List.mem_cons_of_mem _ (ih _ hrec x hx)
          · cases h

theorem hashAt_sub {s hd : Str} {lv n : Nat} (h : hashAt s = some (lv, hd, n)) : ∀ x ∈ hd, x ∈ s := by
  simp only [hashAt] at h
  obtain ⟨k, hk⟩ := firstDown_some h
  split at hk
  · rename_i hd' n' hrec
    cases hk
    intro x hx
    exact (List.drop_suffix _ s).subset (hashHeader_sub _ _ hrec x hx)
  · cases hk

theorem hashSearchNl_sub : ∀ (s : Str) (i : Nat) {st en lv : Nat} {hd : Str},
    hashSearchNl i s = some (st, en, lv, hd) → ∀ x ∈ hd, x ∈ s := by
  intro s
  induction s with
  | nil => intro i st en lv hd h; simp [hashSearchNl] at h
  | cons a r ih =>
    intro i st en lv hd h
    simp only [hashSearchNl] at h
    split at h
    · split at h
      · rename_i lv' hd' n hat
        cases h
        intro x hx
        exact List.mem_cons_of_mem _ (hashAt_sub hat x hx)
      · intro x hx; exact List.mem_cons_of_mem _ (ih _ h x hx)
    · intro x hx; exact List.mem_cons_of_mem _ (ih _ h x hx)

theorem hashSearch_sub {s hd : Str} {st en lv : Nat} (h : hashSearch s = some (st, en, lv, hd)) : ∀ x ∈ hd, x ∈ s := by
  simp only [hashSearch] at h
  split at h
  · rename_i lv' hd' n hat
    cases h
    exact hashAt_sub hat
  · exact hashSearchNl_sub s 0 h

theorem admAt_groups {s g1 : Str} {g2 : Option Str} {n : Nat} (h : admAt s = some (g1, g2, n)) :
    g1 <:+: s ∧ ∀ t, g2 = some t → t <:+: s := by
  simp only [admAt] at h
  split at h
  · revert h
    generalize (if startsWith (s.drop 3) [' '] = true then 1 else 0) = o
    intro h
    split at h
    · cases h
    · have hg1 : ((s.drop 3).drop o).take (admClassLen ((s.drop 3).drop o)) <:+: s :=
        (List.take_prefix _ _).isInfix.trans ((List.drop_suffix _ _).isInfix.trans (List.drop_suffix _ _).isInfix)
      split at h
      · injection h with h
        injection h with h1 h
        injection h with h2 _
        subst h1; subst h2
        refine ⟨hg1, ?_⟩
        intro t ht
        injection ht with ht
        rw [← ht]
        exact (List.take_prefix _ _).isInfix.trans ((List.drop_suffix _ _).isInfix.trans
          ((List.drop_suffix _ _).isInfix.trans ((List.drop_suffix _ _).isInfix.trans (List.drop_suffix _ _).isInfix)))
      · split at h
        · injection h with h
          injection h with h1 h
          injection h with h2 _
          subst h1; subst h2
          exact ⟨hg1, by intro t ht; cases ht⟩
        · cases h
  · cases h

theorem admSearch_groups {b g1 : Str} {g2 : Option Str} {st en : Nat} (h : admSearch b = some (st, en, g1, g2)) :
    g1 <:+: b ∧ ∀ t, g2 = some t → t <:+: b := by
  simp only [admSearch] at h
  split at h
  · rename_i st' o g1' g2' n hs
    injection h with h
    injection h with _ h
    injection h with _ h
    injection h with h1 h2
    subst h1; subst h2
    obtain ⟨t, ht, hf⟩ := nlSearch_suffix admAt hs
    have := admAt_groups hf
    exact ⟨this.1.trans ht.isInfix, fun t' ht' => (this.2 t' ht').trans ht.isInfix⟩
  · cases h

/-! ### table cells -/

theorem cut_sub : ∀ (ps : List Nat) (pos : Nat) (row : Str), ∀ cell ∈ Tables.cut pos row ps, ∀ x ∈ cell, x ∈ row := by
  intro ps
  induction ps with
  | nil =>
    intro pos row cell hc x hx
    simp only [Tables.cut, List.mem_singleton] at hc
    exact hc ▸ hx
  | cons p ps ih =>
    intro pos row cell hc x hx
    simp only [Tables.cut, List.mem_cons] at hc
    rcases hc with hc | hc
    · exact (List.take_prefix _ _).subset (hc ▸ hx)
    · exact (List.drop_suffix _ _).subset (ih _ _ cell hc x hx)

theorem endBorderSub_sub {row r : Str} (h : Tables.endBorderSub row = some r) : ∀ x ∈ r, x ∈ row := by
  have hrev : ∀ y ∈ row.reverse, y ∈ row := fun y hy => List.mem_reverse.mp hy
  simp only [Tables.endBorderSub] at h
  by_cases hnl : row.reverse.head? = some '\n'
  · simp only [hnl, if_true] at h
    split at h
    · split at h
      · injection h with h
        intro x hx
        rw [← h] at hx
        rcases List.mem_append.mp hx with hx | hx
        · exact hrev x (List.mem_of_mem_tail (List.mem_of_mem_tail (List.mem_reverse.mp hx)))
        · simp only [List.mem_singleton] at hx
          exact hx ▸ hrev _ (List.mem_of_mem_head? (by rw [hnl]; simp))
      · cases h
    · cases h
  · simp only [hnl, if_false] at h
    split at h
    · split at h
      · injection h with h
        intro x hx
        rw [← h] at hx
        simp only [List.append_nil] at hx
        exact hrev x (List.mem_of_mem_tail (List.mem_reverse.mp hx))
      · cases h
    · cases h

theorem splitRow_sub (border : Nat) (row : Str) : ∀ cell ∈ Tables.splitRow border row, ∀ x ∈ cell, x ∈ row := by
  intro cell hc x hx
  simp only [Tables.splitRow] at hc
  split at hc
  · exact cut_sub _ _ _ cell hc x hx
  · have h1 := cut_sub _ _ _ cell hc x hx
    have hrow1 : ∀ y ∈ (if startsWith row ['|'] = true then row.tail else row), y ∈ row := by
      intro y hy
      split at hy
      · exact List.mem_of_mem_tail hy
      · exact hy
    cases he : Tables.endBorderSub (if startsWith row ['|'] = true then row.tail else row) with
    | none => rw [he] at h1; exact hrow1 x h1
    | some r => rw [he] at h1; exact hrow1 x (endBorderSub_sub he x h1)

theorem buildRow_sub (n : Nat) (row : Str) (border : Nat) : ∀ cell ∈ Tables.buildRow n row border, ∀ x ∈ cell, x ∈ row := by
  intro cell hc x hx
  simp only [Tables.buildRow, List.mem_map] at hc
  obtain ⟨i, _, rfl⟩ := hc
  simp only [Tables.cellAt] at hx
  split at hx
  · rename_i cl hcl
    exact splitRow_sub border row cl (List.mem_of_getElem? hcl) x ((stripP_infix _ _).subset hx)
  · cases hx

theorem tableRun_sub (border : Nat) (sep : List Str) (block : Str) :
    (∀ cell ∈ (Tables.tableRun border sep block).head, ∀ x ∈ cell, x ∈ block) ∧
    (∀ row ∈ (Tables.tableRun border sep block).body, ∀ cell ∈ row, ∀ t, cell = some t → ∀ x ∈ t, x ∈ block) := by
  have hline : ∀ l ∈ splitC '\n' block, ∀ x ∈ stripC ' ' l, x ∈ block :=
    fun l hl x hx => (mem_lines_infix hl).subset ((stripP_infix _ _).subset hx)
  simp only [Tables.tableRun]
  refine ⟨?_, ?_⟩
  · intro cell hc x hx
    have := buildRow_sub _ _ _ cell hc x hx
    cases hh : splitC '\n' block with
    | nil => rw [hh] at this; simp [stripC, stripP, rstripP, lstripP] at this
    | cons l r =>
      rw [hh] at this
      exact hline l (hh ▸ List.mem_cons_self) x this
  · intro row hrow cell hcell t ht x hx
    split at hrow
    · simp only [List.mem_singleton] at hrow
      rw [hrow] at hcell
      rw [List.mem_replicate] at hcell
      rw [hcell.2] at ht; cases ht
    · obtain ⟨r, hr, rfl⟩ := List.mem_map.mp hrow
      obtain ⟨cl, hcl, rfl⟩ := List.mem_map.mp hcell
      injection ht with ht
      subst ht
      exact hline r (List.mem_of_mem_drop hr) x (buildRow_sub _ _ _ cl hcl x hx)

/-! ### tree operations -/

theorem DeepC_el (tag : String) : DeepC c (Node.el tag) := by
  rw [DeepC_iff]; refine ⟨?_, ?_, ?_⟩ <;> intro s h <;> cases h

theorem DeepC_mkText (tag : String) {t : Str} (h : c ∉ t) : DeepC c (mkText tag t) := by
  unfold DeepC; rw [deepC_eq]
  simp [mkText, Node.el, optC, deepCs, List.contains_iff_mem, h]

theorem DeepC_last {p k : Node} (hp : DeepC c p) (h : p.last? = some k) : DeepC c k :=
  DeepC_kids hp k (List.mem_of_getLast? h)

theorem DeepC_nodeAt (k : Nat) : ∀ {p : Node}, DeepC c p → DeepC c (nodeAt k p) := by
  induction k with
  | zero => intro p hp; exact hp
  | succ k ih =>
    intro p hp
    simp only [nodeAt]
    split
    · rename_i k' hk'
      exact ih (DeepC_last hp hk')
    · exact hp

theorem DeepC_updPath (f : Node → Node) (hf : ∀ s, DeepC c s → DeepC c (f s)) (k : Nat) :
    ∀ {p : Node}, DeepC c p → DeepC c (updPath f k p) := by
  induction k with
  | zero => intro p hp; exact hf p hp
  | succ k ih =>
    intro p hp
    simp only [updPath]
    split
    · rename_i k' hk'
      exact DeepC_setLast hp (ih (DeepC_last hp hk'))
    · exact hp

theorem DeepC_textToP {li : Node} (h : DeepC c li) : DeepC c (textToP li) := by
  simp only [textToP]
  split
  · have h' := (DeepC_iff li).mp h
    rw [DeepC_iff]
    refine ⟨by intro s hs; cases hs; simp, h'.2.1, ?_⟩
    intro k hk
    simp only [List.mem_cons] at hk
    rcases hk with hk | hk
    · rw [hk, DeepC_iff]
      exact ⟨h'.1, (by intro s hs; simp [Node.el] at hs), (by intro k' hk'; simp [Node.el] at hk')⟩
    · exact h'.2.2 k hk
  · exact h

theorem preCode_deep {sib code : Node} (hs : DeepC c sib) (h : preCode sib = some code) : DeepC c code := by
  simp only [preCode] at h
  split at h
  · split at h
    · rename_i code' r hch
      split at h
      · injection h with h
        exact h ▸ DeepC_kids hs code' (by rw [hch]; exact List.mem_cons_self)
      · cases h
    · cases h
  · cases h

theorem DeepC_setCodeText {parent sib code : Node} {t : Str} (hp : DeepC c parent) (hs : parent.last? = some sib)
    (hcode : DeepC c code) (ht : c ∉ t) : DeepC c (setCodeText parent sib code t) := by
  have hsib := DeepC_last hp hs
  simp only [setCodeText]
  apply DeepC_setLast hp
  have hsib' := (DeepC_iff sib).mp hsib
  rw [DeepC_iff]
  refine ⟨hsib'.1, hsib'.2.1, ?_⟩
  intro k hk
  simp only [List.mem_cons] at hk
  rcases hk with hk | hk
  · rw [hk]
    have hc' := (DeepC_iff code).mp hcode
    rw [DeepC_iff]
    exact ⟨(by intro s hs'; cases hs'; exact ht), hc'.2.1, hc'.2.2⟩
  · exact hsib'.2.2 k ((List.drop_suffix 1 _).subset hk)

end MdVerif.BlockExt
