/-
Helper lemmas for C09 on the extension pipeline (`Props/C09X.lean`), part 3: blank lines behind the document.
The processors of the extended block parser hand the pending blocks back untouched — with one exception: the footnote
processor looks ahead (`detectTabbed`: the following blocks that start with four spaces belong to the footnote); it
stops at an empty block, so *empty* pending blocks are handed back untouched by every processor
(`dispatchXT_rest`).  Hence the loop on `bs ++ extra` is the loop on `bs` followed by the loop on `extra`
(`RunX.append_iff`), and the empty blocks that trailing line feeds add do nothing behind a tree that does not end in a
code block.  Core Lean only.
-/
import MdVerif.Lemmas.C09XLead

namespace MdVerif.C09X
open Py Block BlockExt BlockExt.Fuel NormDoc

/-- blocks that are `''` or `'\n'` -/
def Emptyish (extra : List Str) : Prop := ∀ b ∈ extra, b = [] ∨ b = ['\n']

theorem detectTabbed_rest {extra : List Str} (he : Emptyish extra) : ∀ (rest : List Str),
    detectTabbed (rest ++ extra) = ((detectTabbed rest).1, (detectTabbed rest).2 ++ extra)
  | [] => by
    cases extra with
    | nil => rfl
    | cons b r =>
      have hb : startsWith b (spaces 4) = false := by
        rcases he b (by simp) with rfl | rfl <;> decide
      simp [detectTabbed, hb]
  | b :: r => by
    simp only [List.cons_append, detectTabbed]
    split
    · split
      · simp
      · rw [detectTabbed_rest he r]
    · simp

theorem footnoteP_rest {extra : List Str} (he : Emptyish extra) (refs : Refs) (b : Str) (rest : List Str) :
    footnoteP refs b (rest ++ extra) = (footnoteP refs b rest).map (fun r => (r.1, r.2 ++ extra)) := by
  simp only [footnoteP]
  split
  · rfl
  · rename_i st id g2 n _
    simp only [Option.map_some]
    split
    · split <;> simp
    · rw [detectTabbed_rest he rest]
      split <;> simp

def resRest (extra : List Str) : Res (Refs × List Str) → Res (Refs × List Str)
  | .ok (r, bl) => .ok (r, bl ++ extra)
  | .raised => .raised
  | .declined => .declined

theorem abbrP_rest (refs : Refs) (b : Str) (rest extra : List Str) :
    abbrP refs b (rest ++ extra) = resRest extra (abbrP refs b rest) := by
  simp only [abbrP]
  split
  · rfl
  · rename_i st abbr0 title0 n _
    split
    · rfl
    · by_cases h1 : isBlank (b.drop (st + n)) = true <;> by_cases h2 : isBlank (b.take st) = true <;>
        simp only [h1, h2, if_true, if_false, Bool.false_eq_true] <;>
        (split <;> (try split) <;> simp [resRest])

theorem tableP_rest (refs p b rest extra bs) :
    tableP refs p b (rest ++ extra) bs = addRest extra (tableP refs p b rest bs) := by
  simp [tableP, addRest]

theorem listPX_rest (lp tab pb st refs p b rest extra tag) :
    listPX lp tab pb st refs p b (rest ++ extra) tag = (listPX lp tab pb st refs p b rest tag).map (addRest extra) := by
  simp only [listPX]
  (repeat' split) <;> simp [addRest]

theorem indentPX_rest (isL isI itemTag tab pb st refs p b rest extra) :
    indentPX isL isI itemTag tab pb st refs p b (rest ++ extra) =
      (indentPX isL isI itemTag tab pb st refs p b rest).map (addRest extra) := by
  simp only [indentPX]
  (repeat' split) <;> simp [addRest]

theorem admonitionP_rest (tab pb st refs p b rest extra hit) :
    admonitionP tab pb st refs p b (rest ++ extra) hit = (admonitionP tab pb st refs p b rest hit).map (addRest extra) := by
  cases hit with
  | re s e g1 g2 =>
    simp only [admonitionP]
    (repeat' split) <;> simp [addRest]
  | sib k ind =>
    simp only [admonitionP]
    (repeat' split) <;> simp [addRest]

theorem defListP_rest (tab pb st refs p b rest extra m) :
    defListP tab pb st refs p b (rest ++ extra) m =
      (defListP tab pb st refs p b rest m).map (fun o => o.map (addRest extra)) := by
  obtain ⟨s, e, g⟩ := m
  simp only [defListP]
  (repeat' split) <;> simp [addRest]


/-! ### the dispatcher -/

theorem tailRef_rest (st refs p b rest extra) :
    tailRef st refs p b (rest ++ extra) = (tailRef st refs p b rest).map (addRest extra) := by
  simp only [tailRef]
  split
  · rw [referenceP_rest]; rfl
  · rw [paraP_rest]; rfl

theorem tailAbbr_rest (cfg st refs p b rest extra) :
    tailAbbr cfg st refs p b (rest ++ extra) = (tailAbbr cfg st refs p b rest).map (addRest extra) := by
  simp only [tailAbbr]
  split
  · rw [abbrP_rest]
    cases abbrP refs b rest with
    | ok v => obtain ⟨r, bl⟩ := v; simp [resRest, addRest]
    | raised => simp [resRest]
    | declined => simp only [resRest]; exact tailRef_rest ..
  · exact tailRef_rest ..

theorem tailFootnote_rest {extra : List Str} (he : Emptyish extra) (cfg st refs p b rest) :
    tailFootnote cfg st refs p b (rest ++ extra) = (tailFootnote cfg st refs p b rest).map (addRest extra) := by
  simp only [tailFootnote]
  split
  · rw [footnoteP_rest he]
    cases footnoteP refs b rest with
    | some v => obtain ⟨r, bl⟩ := v; simp [addRest]
    | none => simp only [Option.map_none]; exact tailAbbr_rest ..
  · exact tailAbbr_rest ..

theorem tailQuote_rest {extra : List Str} (he : Emptyish extra) (cfg pb st refs p b rest) :
    tailQuote cfg pb st refs p b (rest ++ extra) = (tailQuote cfg pb st refs p b rest).map (addRest extra) := by
  simp only [tailQuote]
  split
  · exact quoteP_rest ..
  · exact tailFootnote_rest he ..

theorem tailDef_rest {extra : List Str} (he : Emptyish extra) (cfg tab pb st refs p b rest) :
    tailDef cfg tab pb st refs p b (rest ++ extra) = (tailDef cfg tab pb st refs p b rest).map (addRest extra) := by
  simp only [tailDef]
  split
  · split
    · rename_i m _
      rw [defListP_rest]
      cases defListP tab pb st refs p b rest m with
      | some r => simp
      | none => simp only [Option.map_none]; exact tailQuote_rest he ..
    · exact tailQuote_rest he ..
  · exact tailQuote_rest he ..

theorem tailList_rest {extra : List Str} (he : Emptyish extra) (cfg tab pb st refs p b rest) :
    tailList cfg tab pb st refs p b (rest ++ extra) = (tailList cfg tab pb st refs p b rest).map (addRest extra) := by
  simp only [tailList]
  split
  · split
    · exact listPX_rest ..
    · exact listP_rest ..
  · split
    · split
      · exact listPX_rest ..
      · exact listP_rest ..
    · exact tailDef_rest he ..

theorem tailEmptyT_rest {extra : List Str} (he : Emptyish extra) (tables cfg tab pb st refs p b rest) :
    tailEmptyT tables cfg tab pb st refs p b (rest ++ extra) =
      (tailEmptyT tables cfg tab pb st refs p b rest).map (addRest extra) := by
  rw [tailEmptyT_eq, tailEmptyT_eq]
  by_cases h1 : (b.isEmpty || startsWith b ['\n']) = true
  · rw [if_pos h1, if_pos h1, emptyP_rest]; rfl
  · rw [if_neg h1, if_neg h1]
    by_cases h2 : indentTest tab st p b = true
    · rw [if_pos h2, if_pos h2]; exact indentP_rest ..
    · rw [if_neg h2, if_neg h2]
      by_cases h3 : (cfg.defList && indentTestX isListTagD isItemTagD tab st p b) = true
      · rw [if_pos h3, if_pos h3]; exact indentPX_rest ..
      · rw [if_neg h3, if_neg h3]
        by_cases h4 : startsWith b (spaces tab) = true
        · rw [if_pos h4, if_pos h4, codeP_rest]; rfl
        · rw [if_neg h4, if_neg h4]
          cases (if tables then Tables.tableTest b else none) with
          | some bs => simp only [tableP_rest]; rfl
          | none =>
            simp only
            cases hashSearch b with
            | some m => exact hashP_rest ..
            | none =>
              simp only
              by_cases h5 : setextMatch b = true
              · rw [if_pos h5, if_pos h5, setextP_rest]; rfl
              · rw [if_neg h5, if_neg h5]
                cases hrSearch b with
                | some m => exact hrP_rest ..
                | none => exact tailList_rest he ..

/-- **empty pending blocks are handed back untouched** by every processor of the extended parser -/
theorem dispatchXT_rest {extra : List Str} (he : Emptyish extra) (tables cfg tab pb st refs p b rest) :
    dispatchXT tables cfg tab pb st refs p b (rest ++ extra) =
      (dispatchXT tables cfg tab pb st refs p b rest).map (addRest extra) := by
  simp only [dispatchXT]
  split
  · exact admonitionP_rest ..
  · exact tailEmptyT_rest he ..


/-! ### the loop on `bs ++ extra` -/

theorem RunX.nil_iff {tables cfg tab st refs p res} : RunX tables cfg tab st refs p [] res ↔ res = (p, refs) := by
  constructor
  · rintro ⟨f, hf⟩; cases f <;> simp [parseBlocksXT] at hf <;> exact hf.symm
  · rintro rfl; exact ⟨0, rfl⟩

/-- one turn of the loop -/
theorem RunX.cons_iff {tables cfg tab st refs p b rest res} :
    RunX tables cfg tab st refs p (b :: rest) res ↔
      ∃ f p' r' bl, dispatchXT tables cfg tab (parseBlocksXT tables cfg tab f) st refs p b rest = some (p', r', bl) ∧
        RunX tables cfg tab st r' p' bl res := by
  constructor
  · rintro ⟨f, hf⟩
    cases f with
    | zero => simp [parseBlocksXT] at hf
    | succ f =>
      rw [parseBlocksXT] at hf
      split at hf
      · rename_i p' r' bl hd; exact ⟨f, p', r', bl, hd, f, hf⟩
      · cases hf
  · rintro ⟨f, p', r', bl, hd, g, hg⟩
    refine ⟨max f g + 1, ?_⟩
    rw [parseBlocksXT]
    have hd' := dispatchXT_le (le_fuel tables cfg tab (Nat.le_max_left f g)) hd
    rw [hd']
    exact le_fuel tables cfg tab (Nat.le_max_right f g) _ _ _ _ _ hg

/-- the loop on `bs ++ extra` (`extra` empty blocks) is the loop on `bs` followed by the loop on `extra` -/
theorem RunX.append_iff {tables cfg tab st} {extra : List Str} (he : Emptyish extra) : ∀ {bs : List Str} {refs p res},
    RunX tables cfg tab st refs p (bs ++ extra) res ↔
      ∃ p1 r1, RunX tables cfg tab st refs p bs (p1, r1) ∧ RunX tables cfg tab st r1 p1 extra res := by
  have fwd : ∀ f bs refs p res, parseBlocksXT tables cfg tab f st refs p (bs ++ extra) = some res →
      ∃ p1 r1, RunX tables cfg tab st refs p bs (p1, r1) ∧ RunX tables cfg tab st r1 p1 extra res := by
    intro f
    induction f with
    | zero =>
      intro bs refs p res h
      cases bs with
      | nil => exact ⟨p, refs, RunX.nil_iff.2 rfl, 0, by simpa using h⟩
      | cons b rest => simp [parseBlocksXT] at h
    | succ f ih =>
      intro bs refs p res h
      cases bs with
      | nil => exact ⟨p, refs, RunX.nil_iff.2 rfl, f + 1, by simpa using h⟩
      | cons b rest =>
        rw [List.cons_append, parseBlocksXT, dispatchXT_rest he] at h
        cases hd : dispatchXT tables cfg tab (parseBlocksXT tables cfg tab f) st refs p b rest with
        | none => simp [hd] at h
        | some v =>
          obtain ⟨p', r', bl⟩ := v
          rw [hd] at h
          simp only [Option.map_some, addRest] at h
          obtain ⟨p1, r1, ha, hb⟩ := ih _ _ _ _ h
          exact ⟨p1, r1, RunX.cons_iff.2 ⟨f, p', r', bl, hd, ha⟩, hb⟩
  have bwd : ∀ f bs refs p p1 r1 res, parseBlocksXT tables cfg tab f st refs p bs = some (p1, r1) →
      RunX tables cfg tab st r1 p1 extra res → RunX tables cfg tab st refs p (bs ++ extra) res := by
    intro f
    induction f with
    | zero =>
      intro bs refs p p1 r1 res h1 h2
      cases bs with
      | nil => simp [parseBlocksXT] at h1; obtain ⟨rfl, rfl⟩ := h1; simpa using h2
      | cons b rest => simp [parseBlocksXT] at h1
    | succ f ih =>
      intro bs refs p p1 r1 res h1 h2
      cases bs with
      | nil => simp [parseBlocksXT] at h1; obtain ⟨rfl, rfl⟩ := h1; simpa using h2
      | cons b rest =>
        rw [parseBlocksXT] at h1
        split at h1
        · rename_i p' r' bl hd
          rw [List.cons_append, RunX.cons_iff]
          refine ⟨f, p', r', bl ++ extra, ?_, ih _ _ _ _ _ _ h1 h2⟩
          rw [dispatchXT_rest he, hd]; rfl
        · cases h1
  intro bs refs p res
  constructor
  · rintro ⟨f, hf⟩; exact fwd f _ _ _ _ hf
  · rintro ⟨p1, r1, ⟨f, hf⟩, h2⟩; exact bwd f _ _ _ _ _ _ hf h2

/-! ### empty blocks at the end -/

theorem admSibKids_block (tab : Nat) (block : Str) (hb : startsWith block (spaces (tab * 2)) = false) :
    ∀ (l : List Node) (indent : Nat) (k : Nat) (bl : Str) (ind : Nat),
    admSibKids tab block indent l = some (k, bl, ind) → bl = block
  | [], indent, k, bl, ind, h => by
    simp only [admSibKids, Option.some.injEq, Prod.mk.injEq] at h; exact h.2.1.symm
  | [c], indent, k, bl, ind, h => by
    simp only [admSibKids, hb, Bool.false_and, Bool.false_eq_true, if_false, Option.some.injEq, Prod.mk.injEq] at h
    exact h.2.1.symm
  | c :: d :: r, indent, k, bl, ind, h => by
    simp only [admSibKids] at h
    exact admSibKids_block tab block hb (d :: r) indent k bl ind h

theorem admContent_emptyish (tab : Nat) (htab : 0 < tab) (p : Node) {b : Str} (hb : b = [] ∨ b = ['\n']) :
    admContent tab p b = none := by
  have h1 : startsWith b (spaces (tab * 2)) = false := by
    obtain ⟨n, hn⟩ : ∃ n, tab * 2 = n + 1 := ⟨tab * 2 - 1, by omega⟩
    rcases hb with rfl | rfl <;> simp [hn, spaces, List.replicate_succ, startsWith]
  have h2 : startsWith b (spaces tab) = false := by
    obtain ⟨n, hn⟩ : ∃ n, tab = n + 1 := ⟨tab - 1, by omega⟩
    rcases hb with rfl | rfl <;> simp [hn, spaces, List.replicate_succ, startsWith]
  unfold admContent
  split
  · rfl
  · rename_i sib _
    split
    · cases hs : admSibNode tab b 0 sib with
      | none => rfl
      | some v =>
        obtain ⟨k, bl, ind⟩ := v
        have : bl = b := by
          obtain ⟨tag, attrs, text, ta, children, tail, tla⟩ := sib
          simp only [admSibNode] at hs
          exact admSibKids_block tab b h1 children 0 k bl ind hs
        subst this
        simp [h2]
    · rfl

theorem admTest_emptyish (tab : Nat) (htab : 0 < tab) (p : Node) {b : Str} (hb : b = [] ∨ b = ['\n']) :
    admTest tab p b = none := by
  have hs : admSearch b = none := by
    rcases hb with rfl | rfl
    · exact admSearch_nil
    · rcases admSearch_nl_cases [] with ⟨h, _⟩ | ⟨_, _, _, _, h⟩ | ⟨_, _, _, _, _, h⟩
      · exact h
      · rw [admSearch_nil] at h; cases h
      · rw [admSearch_nil] at h; cases h
  simp [admTest, hs, admContent_emptyish tab htab p hb]

/-- the turn on an empty block: the empty-block processor (a filler for a trailing code block, nothing else) -/
theorem RunX.emptyish_iff {tables cfg tab st} (htab : cfg.admonition = true → 0 < tab) :
    ∀ {E : List Str} {refs p res}, Emptyish E →
    (RunX tables cfg tab st refs p E res ↔ res = (fills p E, refs))
  | [], refs, p, res, _ => by rw [RunX.nil_iff]; rfl
  | b :: E, refs, p, res, h => by
    have hb := h b List.mem_cons_self
    have hbe : (b.isEmpty || startsWith b ['\n']) = true := by rcases hb with rfl | rfl <;> rfl
    have hd : ∀ f, dispatchXT tables cfg tab (parseBlocksXT tables cfg tab f) st refs p b E =
        some (fill1 p (filler b), refs, E) := by
      intro f
      have ht : (if cfg.admonition then admTest tab p b else none) = none := by
        split
        · rename_i ha; exact admTest_emptyish tab (htab ha) p hb
        · rfl
      simp only [dispatchXT, ht]
      rw [tailEmptyT_eq, if_pos hbe, emptyP_emptyish refs p hb]
    rw [RunX.cons_iff]
    have ih := RunX.emptyish_iff (tables := tables) (st := st) htab (refs := refs) (p := fill1 p (filler b))
      (res := res) (fun x hx => h x (List.mem_cons_of_mem _ hx))
    constructor
    · rintro ⟨f, p', r', bl, hdd, hr⟩
      rw [hd f] at hdd
      simp only [Option.some.injEq, Prod.mk.injEq] at hdd
      obtain ⟨rfl, rfl, rfl⟩ := hdd
      exact ih.1 hr
    · intro hres
      exact ⟨0, _, _, _, hd 0, ih.2 hres⟩


/-! ### the trees of a text ending in a blank line, without and with more line feeds behind it -/

theorem parseDocumentXT_trailing (tables : Bool) (cfg : XCfg) (tab : Nat) (htab : cfg.admonition = true → 0 < tab)
    (O : Str) (j : Nat) :
    ∃ p1 r1 E0 E1, Emptyish E0 ∧ Emptyish E1 ∧
      parseDocumentXT tables cfg tab (O ++ nn) = some (fills p1 E0, r1) ∧
      parseDocumentXT tables cfg tab (O ++ nn ++ List.replicate j '\n') = some (fills p1 E1, r1) := by
  obtain ⟨w, hw, hwa⟩ := rstripP_decomp (· = '\n') O
  have hV : (rstripC '\n' O).getLast? ≠ some '\n' := by
    intro h
    have := rstripP_getLast (p := (· = '\n')) (s := O) h
    simp at this
  have hw' : w = List.replicate w.length '\n' := by
    apply List.eq_replicate_iff.2
    refine ⟨rfl, fun c hc => ?_⟩
    have := List.all_eq_true.1 hwa c hc
    simpa using this
  generalize hVdef : rstripP (· = '\n') O = V at hw hV
  have hV' : V.getLast? ≠ some '\n' := by rw [← hVdef]; exact hV
  have e0 : O ++ nn = V ++ nn ++ List.replicate w.length '\n' := by
    rw [hw, hw', List.length_replicate]
    have := replicate_nl_append_comm w.length 0
    simp only [List.replicate_zero, List.append_nil, Nat.add_zero] at this
    rw [List.append_assoc, this, List.append_assoc]
  have e1 : O ++ nn ++ List.replicate j '\n' = V ++ nn ++ List.replicate (w.length + j) '\n' := by
    rw [hw, hw', List.length_replicate]
    have := replicate_nl_append_comm w.length j
    rw [List.append_assoc, List.append_assoc, ← List.append_assoc (List.replicate _ _), this, List.append_assoc]
  have ht := parseDocumentXT_total tables cfg tab htab (O ++ nn)
  cases hp : parseDocumentXT tables cfg tab (O ++ nn) with
  | none => rw [hp] at ht; cases ht
  | some res =>
    have hr := (parseDocumentXT_eq_iff tables cfg tab htab _ res).1 hp
    rw [e0] at hr
    change RunX tables cfg tab [] [] (Node.el "div") (blocks _) res at hr
    have hE0 : Emptyish (blocks (List.replicate w.length '\n')) := blocks_replicate_nl w.length
    have hE1 : Emptyish (blocks (List.replicate (w.length + j) '\n')) := blocks_replicate_nl (w.length + j)
    rw [blocks_append_nn V hV', RunX.append_iff hE0] at hr
    obtain ⟨p1, r1, h1, h2⟩ := hr
    rw [RunX.emptyish_iff htab hE0] at h2
    refine ⟨p1, r1, _, _, hE0, hE1, by rw [h2], ?_⟩
    rw [parseDocumentXT_eq_iff tables cfg tab htab, e1]
    change RunX tables cfg tab [] [] (Node.el "div") (blocks _) _
    rw [blocks_append_nn V hV', RunX.append_iff hE1]
    exact ⟨p1, r1, h1, (RunX.emptyish_iff htab hE1).2 rfl⟩

/-- … hence the same tree and log, unless the document ends in a code block -/
theorem parseDocumentXT_trailing_noCode (tables : Bool) (cfg : XCfg) (tab : Nat)
    (htab : cfg.admonition = true → 0 < tab) (O : Str) (j : Nat)
    (h : ∀ root log, parseDocumentXT tables cfg tab (O ++ nn) = some (root, log) → noCodeLast root) :
    parseDocumentXT tables cfg tab (O ++ nn ++ List.replicate j '\n') = parseDocumentXT tables cfg tab (O ++ nn) := by
  obtain ⟨p1, r1, E0, E1, _, _, h0, h1⟩ := parseDocumentXT_trailing tables cfg tab htab O j
  have hn : noCodeLast p1 := (noCodeLast_fills p1 E0).1 (h _ _ h0)
  rw [h0, h1, fills_of_noCode hn, fills_of_noCode hn]

/-! ### the preprocessors and the conversion, without fenced_code -/

open PipelineX

theorem admNonAscii_append_nl (t : Str) (j : Nat) : admNonAscii (t ++ List.replicate j '\n') = admNonAscii t := by
  induction t with
  | nil =>
    induction j with
    | zero => rfl
    | succ j ih =>
      rw [List.replicate_succ, List.nil_append]
      rw [List.nil_append] at ih
      cases j with
      | zero => simp [admNonAscii]
      | succ j => simp [admNonAscii, List.replicate_succ] at ih ⊢; exact ih
  | cons c r ih =>
    rw [List.cons_append]
    unfold admNonAscii
    rw [ih]
    congr 2
    clear ih
    cases j with
    | zero => simp
    | succ j =>
      rw [List.replicate_succ]
      rcases r with _ | ⟨a, _ | ⟨b, _ | ⟨c3, _ | ⟨d, tl⟩⟩⟩⟩
      · simp
      · simp
      · simp only [List.cons_append, List.nil_append]
        split
        · rename_i h; simp at h
        · rename_i h; simp only [List.cons.injEq] at h; obtain ⟨_, _, rfl, _⟩ := h; decide
        · rfl
      · simp only [List.cons_append, List.nil_append]
        split
        · rename_i h; simp only [List.cons.injEq] at h; obtain ⟨rfl, rfl, rfl, rfl, _⟩ := h; decide
        · rename_i h1 h; simp only [List.cons.injEq] at h; obtain ⟨rfl, rfl, rfl, _⟩ := h
          simp
        · rename_i h1 h2
          split
          · rename_i h; simp at h
          · rename_i h3 h; simp only [List.cons.injEq] at h; obtain ⟨rfl, rfl, rfl, _⟩ := h
            exact absurd rfl (h2 _ _)
          · rfl
      · simp only [List.cons_append]
        split
        · rename_i h; simp only [List.cons.injEq] at h; obtain ⟨rfl, rfl, rfl, rfl, _⟩ := h; simp
        · rename_i h1 h; simp only [List.cons.injEq] at h; obtain ⟨rfl, rfl, rfl, rfl⟩ := h
          split
          · rename_i h; simp only [List.cons.injEq] at h; obtain ⟨_, _, rfl, rfl, _⟩ := h
            exact (h1 _ _ rfl rfl).elim
          · rename_i h2 h; simp only [List.cons.injEq] at h; obtain ⟨_, _, rfl, _⟩ := h; rfl
          · rename_i h2 h3; exact absurd rfl (h3 _ _)
        · rename_i h1 h2
          split
          · rename_i h; simp only [List.cons.injEq] at h; obtain ⟨rfl, rfl, rfl, rfl, _⟩ := h
            exact absurd rfl (h1 _ _)
          · rename_i h3 h; simp only [List.cons.injEq] at h; obtain ⟨rfl, rfl, rfl, _⟩ := h
            exact absurd rfl (h2 _ _)
          · rfl

theorem prepareX_nofence (x : Exts) (hf : x.fencedCode = false) (cfg : Pipeline.Cfg) (s : Str) :
    prepareX x cfg s =
      if x.admonition && admNonAscii (Normalize.normalize cfg.tab s) then .ood
      else .ok (Pipeline.prepare cfg s, []) := by
  simp [prepareX, hf, Pipeline.prepare]

/-- **blank lines behind a document that does not end in a code block** (without fenced_code): the same tree -/
theorem treeX_trailing_noCode (x : Exts) (hf : x.fencedCode = false) (cfg : Pipeline.Cfg)
    (htab : x.admonition = true → 0 < cfg.tab) (s : Str) (m : Nat)
    (h : ∀ root log, parseDocumentXT x.tables x.blockCfg cfg.tab (Pipeline.prepare cfg s) = some (root, log) →
      noCodeLast root) :
    treeX x cfg (s ++ List.replicate m '\n') = treeX x cfg s := by
  obtain ⟨O, j, hO, hOj⟩ := prepare_trailing cfg s m
  obtain ⟨j', hj'⟩ := normalize_trailing_any cfg.tab s m
  have ha : admNonAscii (Normalize.normalize cfg.tab (s ++ List.replicate m '\n')) =
      admNonAscii (Normalize.normalize cfg.tab s) := by rw [hj', admNonAscii_append_nl]
  have ht : parseDocumentXT x.tables x.blockCfg cfg.tab (Pipeline.prepare cfg (s ++ List.replicate m '\n')) =
      parseDocumentXT x.tables x.blockCfg cfg.tab (Pipeline.prepare cfg s) := by
    rw [hOj, hO]
    exact parseDocumentXT_trailing_noCode x.tables x.blockCfg cfg.tab htab O j (by rw [← hO]; exact h)
  unfold treeX
  rw [prepareX_nofence x hf, prepareX_nofence x hf, ha]
  by_cases hc : (x.admonition && admNonAscii (Normalize.normalize cfg.tab s)) = true
  · simp only [hc, if_true]
  · simp only [hc, Bool.false_eq_true, if_false, ht]

theorem convertX_trailing_noCode (x : Exts) (hf : x.fencedCode = false) (cfg : Pipeline.Cfg)
    (htab : x.admonition = true → 0 < cfg.tab) (s : Str) (m : Nat)
    (h : ∀ root log, parseDocumentXT x.tables x.blockCfg cfg.tab (Pipeline.prepare cfg s) = some (root, log) →
      noCodeLast root) :
    convertX x cfg (s ++ List.replicate m '\n') = convertX x cfg s := by
  simp only [convertX, trailing_contains, trailing_isBlankDoc, treeX_trailing_noCode x hf cfg htab s m h]

end MdVerif.C09X
