/-
Helper lemmas for C01 on documents with block quotes nested to any depth (`Props/C01c.lean`).  Core Lean only.

A. the four leaf producers of `Lemmas/DocParse.lean` again, in any parser state that is not a list state;
B. the block parser on a quote chunk (`quoteP`): the recognisers before `quote` fail on `>`-lines, the cleaned text is
   the inner text, the children go into a new `blockquote` or into the `blockquote` that is already there;
C. trees of leaves and `blockquote` elements through the inline processor (the stack loop, depth first), prettify,
   unescape, the serializer and the end of `convert`;
D. the shape of `print` on quotes; the composition.
-/
import MdVerif.Model.Pipeline
import MdVerif.Spec.DocQuote
import MdVerif.Lemmas.DocParse
import MdVerif.Lemmas.DocSpec

namespace MdVerif.DocParse
open Py Inline Escape

/-! ### A. the leaf producers in any state that is not a list state -/

section producersS
open Block DocSpec

/-- as `Produces`, for every parser state whose top is not `list` -/
def ProducesS (tab : Nat) (b : Str) (n : Node) : Prop :=
  ∀ (pb : PB) (state : List BState) (refs : Refs) (parent : Node) (rest : List Str), isstate state .list = false →
    dispatch tab pb state refs parent b rest = some (parent.append n, refs, rest)

/-- **A rule**, in every spelling, is claimed by `HRProcessor` and becomes an `hr` element. -/
theorem produces_ruleS (tab : Nat) (htab : 3 < tab) (i ch n g t : Nat) :
    ProducesS tab (ruleLine true i ch n g t) { tag := .name "hr".toList } := by
  intro pb state refs parent rest hst
  obtain ⟨c, r, hc, hr, hs, hnl⟩ := ruleLine_shape i ch n g t
  have hline := hrLine_rule i ch n g t
  generalize ruleLine true i ch n g t = b at *
  have hcsp : c ≠ ' ' := by rcases hc with h | h | h <;> rw [h] <;> decide
  have hcnl : c ≠ '\n' := by rcases hc with h | h | h <;> rw [h] <;> decide
  have hch : c ≠ '#' := by rcases hc with h | h | h <;> rw [h] <;> decide
  have hb : b = spaces (i % 4) ++ c :: (r ++ spaces (t % 3)) := by rw [hs, hr]; simp
  have h1 : b.isEmpty = false := by rw [hb]; cases i % 4 <;> simp [spaces, List.replicate_succ]
  have h2 : startsWith b ['\n'] = false := by
    rw [hb]; cases i % 4 <;> simp [spaces, List.replicate_succ, hcnl]
  have h3 : startsWith b (spaces tab) = false := by
    rw [hb]; exact startsWith_spaces_false _ tab c _ (by omega) hcsp
  have hhead : b.head? ≠ some '#' := by
    rw [hb, head?_spaces_cons]; split <;> simp [hch]
  have h4 := hashSearch_line b hnl hhead
  have h5 := setextMatch_line b hnl
  have h6 : hrSearch b = some (0, b.length) := by
    simp [hrSearch, lines, splitC_noNl b (notNl_of_not_mem hnl), hrSearchLines, hline]
  unfold dispatch
  simp only [h1, h2, h3, h4, h5, h6, Bool.or_self, Bool.false_eq_true, if_false, Bool.false_and]
  simp [hrP, rstripC, rstripP, lstripC, Node.el]

/-- **A paragraph** of escaped one-line text, indented by less than a tab, reaches `ParagraphProcessor` and becomes a
    `p` element whose text is the text without the indentation. -/
theorem produces_paraS {esc : List Char} (hE : EscOK esc) (tab i : Nat) (hi : i < tab) (t : Str)
    (ht : lineText t = true) :
    ProducesS tab (spaces i ++ escAll esc t) { tag := .name "p".toList, text := some (escAll esc t) } := by
  intro pb state refs parent rest hst
  obtain ⟨c, tail, he, hcs, hch, hnl, _⟩ := escLine_facts hE ht
  have hcsp : c ≠ ' ' := by intro e; subst e; exact absurd hcs (by decide)
  have hcnl : c ≠ '\n' := by intro e; subst e; exact absurd hcs (by decide)
  have hg : Guarded esc (spaces i ++ escAll esc t) = true := by
    unfold Guarded; rw [guardedFrom_spaces hE.sp]; exact guardedFrom_escAll esc t false
  have hl : LineStartsOk esc (spaces i ++ escAll esc t) = true := by
    have := lineStartsOk_escAll esc hE.nl t
    simp only [LineStartsOk, Bool.and_eq_true] at this ⊢
    rw [startOk_spaces, startsOkNl_spaces]; exact this
  have hs : startOk esc (spaces i ++ escAll esc t) = true := by
    simp only [LineStartsOk, Bool.and_eq_true] at hl; exact hl.1
  have hnlb : '\n' ∉ spaces i ++ escAll esc t := by
    intro hm; rcases List.mem_append.1 hm with hm | hm
    · exact absurd (List.eq_of_mem_replicate hm) (by decide)
    · exact hnl hm
  have hlstrip := lstrip_indent i _ c tail he hcs
  have hblank : isBlank (spaces i ++ escAll esc t) = false := by
    cases hb : isBlank (spaces i ++ escAll esc t) with
    | false => rfl
    | true =>
      rw [isBlank_iff] at hb
      have := hb c (by rw [he]; simp)
      rw [hcs] at this; cases this
  generalize hb : spaces i ++ escAll esc t = b at *
  have hb' : b = spaces i ++ c :: tail := by rw [← hb, he]
  have h1 : b.isEmpty = false := by rw [hb']; cases i <;> simp [spaces, List.replicate_succ]
  have h2 : startsWith b ['\n'] = false := by
    rw [hb']; cases i <;> simp [spaces, List.replicate_succ, hcnl]
  have h3 : startsWith b (spaces tab) = false := by
    rw [hb']; exact startsWith_spaces_false _ tab c _ hi hcsp
  unfold dispatch
  simp only [h1, h2, h3, Bool.or_self, Bool.false_eq_true, if_false, Bool.false_and,
    hashSearch_eq_none hE.hash _ hl, setextMatch_line b hnlb, hrSearch_eq_none hE.dash hE.under hE.star _ hl,
    listItemMatch_eq_none hE.star hE.plus hE.dash hE.dot tab _ _ _ hg hs, Option.isSome_none,
    quoteSearch_eq_none hE.gt _ hl, refSearch_eq_none hE.lbr _ hl]
  simp [paraP, hblank, hlstrip, hst, mkText, Node.el]

/-- **A Setext heading**: escaped one-line text, indented by less than a tab, over a line of `=` (level 1) or `-`
    (level 2) of any positive length, is claimed by `SetextHeaderProcessor` and becomes `h1` / `h2` with the text
    stripped. -/
theorem produces_setextS {esc : List Char} (hE : EscOK esc) (tab i : Nat) (hi : i < tab) (t : Str)
    (ht : lineText t = true) (lv k : Nat) (hlv : lv = 1 ∨ lv = 2) :
    ProducesS tab (spaces i ++ escAll esc t ++ '\n' :: List.replicate (k + 1) (if lv = 1 then '=' else '-'))
      { tag := .name ('h' :: natToDec lv), text := some (escAll esc t) } := by
  intro pb state refs parent rest hst
  obtain ⟨c, tail, he, hcs, hch, hnl, hlast⟩ := escLine_facts hE ht
  have hcsp : c ≠ ' ' := by intro e; subst e; exact absurd hcs (by decide)
  have hcnl : c ≠ '\n' := by intro e; subst e; exact absurd hcs (by decide)
  generalize hu : (if lv = 1 then '=' else '-') = ch
  have hch2 : ch = '=' ∨ ch = '-' := by rw [← hu]; split <;> simp
  have hl1nl : '\n' ∉ spaces i ++ escAll esc t := by
    intro hm; rcases List.mem_append.1 hm with hm | hm
    · exact absurd (List.eq_of_mem_replicate hm) (by decide)
    · exact hnl hm
  have hunl : '\n' ∉ List.replicate (k + 1) ch := by
    intro hm; have := List.eq_of_mem_replicate hm
    rcases hch2 with h | h <;> rw [h] at this <;> exact absurd this (by decide)
  -- the lines of the chunk
  have hlines : lines (spaces i ++ escAll esc t ++ '\n' :: List.replicate (k + 1) ch) =
      [spaces i ++ escAll esc t, List.replicate (k + 1) ch] := by
    unfold lines
    rw [splitC_append_nl _ _ (notNl_of_not_mem hl1nl), splitC_noNl _ (notNl_of_not_mem hunl)]
  -- no ATX heading
  have h4 : hashSearch (spaces i ++ escAll esc t ++ '\n' :: List.replicate (k + 1) ch) = none := by
    have hh1 : (spaces i ++ escAll esc t ++ '\n' :: List.replicate (k + 1) ch).head? ≠ some '#' := by
      rw [he, List.append_assoc, List.cons_append, head?_spaces_cons]; split <;> simp [hch]
    have hh2 : (List.replicate (k + 1) ch).head? ≠ some '#' := by
      rcases hch2 with h | h <;> simp [List.replicate_succ, h]
    have s1 := hashSearchNl_skip (spaces i ++ escAll esc t) ('\n' :: List.replicate (k + 1) ch) 0
      (notNl_of_not_mem hl1nl)
    have s2 := hashSearchNl_skip (List.replicate (k + 1) ch) [] (0 + (spaces i ++ escAll esc t).length + 1)
      (notNl_of_not_mem hunl)
    simp only [List.append_nil] at s2
    simp only [hashSearch, hashAt_none _ hh1, s1, hashSearchNl, if_true, hashAt_none _ hh2, s2]
  -- the Setext pattern matches
  have h5 : setextMatch (spaces i ++ escAll esc t ++ '\n' :: List.replicate (k + 1) ch) = true := by
    rw [setextMatch_eq]
    simp only [secondLine, hlines, List.getElem?_cons_succ, List.getElem?_cons_zero, setextLine2]
    have hp : (fun c => decide (c = '=') || decide (c = '-')) ch = true := by rcases hch2 with h | h <;> simp [h]
    rw [spanLen_replicate _ _ _ hp]
    simp
  generalize hb : spaces i ++ escAll esc t ++ '\n' :: List.replicate (k + 1) ch = b at *
  have hb' : b = spaces i ++ c :: (tail ++ '\n' :: List.replicate (k + 1) ch) := by rw [← hb, he]; simp
  have h1 : b.isEmpty = false := by rw [hb']; cases i <;> simp [spaces, List.replicate_succ]
  have h2 : startsWith b ['\n'] = false := by
    rw [hb']; cases i <;> simp [spaces, List.replicate_succ, hcnl]
  have h3 : startsWith b (spaces tab) = false := by
    rw [hb']; exact startsWith_spaces_false _ tab c _ hi hcsp
  have hstrip : strip (spaces i ++ escAll esc t) = escAll esc t := by
    have := strip_append_of_blank (a := spaces i) (b := []) (by simp [isBlank, spaces]) (by simp [isBlank])
      (escAll esc t)
    simp only [List.append_nil] at this
    rw [this]
    exact strip_eq_self (fun d hd => by rw [he] at hd; cases hd; exact hcs) hlast
  have hlevel : (if startsWith (List.replicate (k + 1) ch) ['='] = true then 1 else 2) = lv := by
    rcases hlv with h | h
    · subst h; simp only [if_true] at hu; subst hu; simp [List.replicate_succ]
    · subst h; simp only [show (2 : Nat) ≠ 1 by decide, if_false] at hu; subst hu; simp [List.replicate_succ]
  unfold dispatch
  simp only [h1, h2, h3, h4, h5, Bool.or_self, Bool.false_eq_true, if_false, Bool.false_and, if_true]
  simp [setextP, hlines, hstrip, hlevel, hTag]

/-- **An ATX heading**: one to six `#`, a space, escaped one-line text, and a closing sequence (nothing, or a space
    and any number of `#`), is claimed by `HashHeaderProcessor` and becomes `h<level>` with the text alone. -/
theorem produces_atxS {esc : List Char} (hE : EscOK esc) (tab : Nat) (htab : 0 < tab) (t : Str)
    (ht : lineText t = true) (lv : Nat) (h1 : 1 ≤ lv) (h6 : lv ≤ 6) (Y : Str)
    (hY : Y = [] ∨ ∃ m, Y = ' ' :: List.replicate m '#') :
    ProducesS tab (List.replicate lv '#' ++ ' ' :: (escAll esc t ++ Y))
      { tag := .name ('h' :: natToDec lv), text := some (escAll esc t) } := by
  intro pb state refs parent rest hst
  obtain ⟨hne, _, _, _, hnl, _⟩ := lineText_facts ht
  obtain ⟨c, tail, he, hcs, hch, hnle, hlast⟩ := escLine_facts hE ht
  -- what the closing sequence contributes to the header group
  obtain ⟨ys, hys, hclose⟩ : ∃ ys, (ys = [] ∨ ys = [' ']) ∧ ∀ f, hashHeader (f + 2) Y = some (ys, Y.length) := by
    rcases hY with rfl | ⟨m, rfl⟩
    · exact ⟨[], Or.inl rfl, fun f => hashHeader_closing_nil (f + 1)⟩
    · exact ⟨[' '], Or.inr rfl, fun f => by rw [hashHeader_closing]; simp⟩
  generalize hb : List.replicate lv '#' ++ ' ' :: (escAll esc t ++ Y) = b
  have hlen : b.length = lv + 1 + (escAll esc t).length + Y.length := by rw [← hb]; simp; omega
  have hdrop : b.drop lv = escAll esc (' ' :: t) ++ Y := by
    rw [← hb, List.drop_left' (by simp), escAll_cons_not_mem hE.sp]; rfl
  have hcount : countPrefix '#' (some 6) b = lv := by rw [← hb]; exact countHash_level lv 6 h6 _
  have htl := length_le_escAll esc t
  have hnl' : '\n' ∉ ' ' :: t := by
    intro hm; rcases List.mem_cons.1 hm with e | hm
    · exact absurd e (by decide)
    · exact hnl hm
  obtain ⟨f0, hf0⟩ : ∃ f0, b.length + 1 = (f0 + 2) + (' ' :: t).length :=
    ⟨b.length - t.length - 2, by simp only [List.length_cons]; omega⟩
  have hhdr : hashHeader (b.length + 1) (b.drop lv) =
      some (escAll esc (' ' :: t) ++ ys, Y.length + (escAll esc (' ' :: t)).length) := by
    rw [hdrop, hf0, hashHeader_escAll hE (' ' :: t) hnl' Y (f0 + 2), hclose f0]; rfl
  have hat : hashAt b = some (lv, escAll esc (' ' :: t) ++ ys, lv + (Y.length + (escAll esc (' ' :: t)).length)) := by
    unfold hashAt
    rw [hcount]
    apply firstDown_top _ 1 lv _ h1
    simp only [hhdr]
  have hen : lv + (Y.length + (escAll esc (' ' :: t)).length) = b.length := by
    rw [hlen, escAll_cons_not_mem hE.sp]; simp; omega
  have hsearch : hashSearch b = some (0, b.length, lv, escAll esc (' ' :: t) ++ ys) := by
    simp only [hashSearch, hat, hen]
  have hstrip : strip (escAll esc (' ' :: t) ++ ys) = escAll esc t := by
    rw [escAll_cons_not_mem hE.sp]
    have hbl : isBlank ys = true := by rcases hys with rfl | rfl <;> decide
    have := strip_append_of_blank (a := [' ']) (b := ys) (by decide) hbl (escAll esc t)
    simp only [List.singleton_append] at this
    rw [this]
    exact strip_eq_self (fun d hd => by rw [he] at hd; cases hd; exact hcs) hlast
  have hb1 : ∃ r, b = '#' :: r := by
    obtain ⟨l', rfl⟩ : ∃ l', lv = l' + 1 := ⟨lv - 1, by omega⟩
    exact ⟨List.replicate l' '#' ++ ' ' :: (escAll esc t ++ Y), by rw [← hb]; simp [List.replicate_succ]⟩
  obtain ⟨r0, hr0⟩ := hb1
  have g1 : b.isEmpty = false := by rw [hr0]; rfl
  have g2 : startsWith b ['\n'] = false := by rw [hr0]; simp
  have g3 : startsWith b (spaces tab) = false := by
    obtain ⟨tb, rfl⟩ : ∃ tb, tab = tb + 1 := ⟨tab - 1, by omega⟩
    rw [hr0]; simp [spaces, List.replicate_succ]
  unfold dispatch
  simp only [g1, g2, g3, Bool.or_self, Bool.false_eq_true, if_false, Bool.false_and, hsearch]
  simp [hashP, hstrip, hTag]

end producersS

/-! ### B. quote chunks -/

section quoteChunk
open Block DocSpec

/-- a line of a quote: up to three spaces, `>`, and (unless the inner line is empty) a space and the inner line -/
def qline (i : Nat) (l : Str) : Str := spaces i ++ (if l.isEmpty then ['>'] else '>' :: ' ' :: l)

theorem qline_shape (i : Nat) (l : Str) : ∃ r, qline i l = spaces i ++ '>' :: r ∧ ('\n' ∉ l → '\n' ∉ r) := by
  unfold qline
  split
  · exact ⟨[], rfl, fun _ => by simp⟩
  · refine ⟨' ' :: l, rfl, fun h hm => ?_⟩
    rcases List.mem_cons.1 hm with e | hm
    · exact absurd e (by decide)
    · exact h hm

theorem qline_noNl (i : Nat) (l : Str) (h : '\n' ∉ l) : '\n' ∉ qline i l := by
  obtain ⟨r, e, hr⟩ := qline_shape i l
  rw [e]
  intro hm
  rcases List.mem_append.1 hm with hm | hm
  · exact absurd (List.eq_of_mem_replicate hm) (by decide)
  · rcases List.mem_cons.1 hm with e | hm
    · exact absurd e (by decide)
    · exact hr h hm

/-- the markup characters none of which is `>`: for the recogniser lemmas of `Lemmas/BlockEsc.lean` -/
def gtEsc : List Char := ['#', '-', '_', '*']

theorem startOk_gt (i : Nat) (r : Str) : startOk gtEsc (spaces i ++ '>' :: r) = true := by
  rw [startOk_spaces, startOk_cons_of_ne gtEsc (by decide)]; decide

theorem startsOkNl_line (esc : List Char) (l X : Str) (h : '\n' ∉ l) :
    startsOkNl esc (l ++ X) = startsOkNl esc X := by
  induction l with
  | nil => rfl
  | cons c l ih =>
    have hc : c ≠ '\n' := fun e => h (e ▸ List.mem_cons_self)
    simp only [List.cons_append, startsOkNl, ih (fun hh => h (List.mem_cons_of_mem _ hh))]
    simp [hc]

/-- every line of the text is a `>`-line -/
def GtLines (ls : List Str) : Prop := ∀ l ∈ ls, ∃ i r, i ≤ 3 ∧ l = spaces i ++ '>' :: r ∧ '\n' ∉ r

theorem GtLines.noNl {ls : List Str} (h : GtLines ls) : ∀ l ∈ ls, '\n' ∉ l := by
  intro l hl
  obtain ⟨i, r, _, rfl, hr⟩ := h l hl
  intro hm
  rcases List.mem_append.1 hm with hm | hm
  · exact absurd (List.eq_of_mem_replicate hm) (by decide)
  · rcases List.mem_cons.1 hm with e | hm
    · exact absurd e (by decide)
    · exact hr hm

theorem startsOkNl_gt (ls : List Str) (h : GtLines ls) :
    startsOkNl gtEsc (joinLines ls) = true ∧ (ls ≠ [] → startOk gtEsc (joinLines ls) = true) := by
  induction ls with
  | nil => exact ⟨rfl, fun h => absurd rfl h⟩
  | cons a r ih =>
    have ih' := ih (fun l hl => h l (List.mem_cons_of_mem _ hl))
    obtain ⟨i, t, _, rfl, ht⟩ := h a List.mem_cons_self
    have hnl := GtLines.noNl h _ List.mem_cons_self
    cases r with
    | nil =>
      have := startsOkNl_line gtEsc (spaces i ++ '>' :: t) [] hnl
      simp only [List.append_nil] at this
      exact ⟨by rw [joinLines_single, this]; rfl, fun _ => by rw [joinLines_single]; exact startOk_gt i t⟩
    | cons b r' =>
      rw [joinLines_cons_cons]
      refine ⟨?_, fun _ => ?_⟩
      · rw [startsOkNl_line gtEsc _ _ hnl]
        simp only [startsOkNl, bne_self_eq_false, Bool.false_or, Bool.and_eq_true]
        exact ⟨ih'.2 (by simp), ih'.1⟩
      · rw [List.append_assoc, startOk_spaces, List.cons_append, startOk_cons_of_ne gtEsc (by decide)]; decide

theorem lineStartsOk_gt (ls : List Str) (hne : ls ≠ []) (h : GtLines ls) :
    LineStartsOk gtEsc (joinLines ls) = true := by
  have := startsOkNl_gt ls h
  simp [LineStartsOk, this.1, this.2 hne]

/-- the first characters of the chunk -/
theorem gt_head (ls : List Str) (hne : ls ≠ []) (h : GtLines ls) :
    ∃ i tail, i ≤ 3 ∧ joinLines ls = spaces i ++ '>' :: tail := by
  cases ls with
  | nil => exact absurd rfl hne
  | cons a r =>
    obtain ⟨i, t, hi, rfl, _⟩ := h a List.mem_cons_self
    cases r with
    | nil => exact ⟨i, t, hi, rfl⟩
    | cons b r' => exact ⟨i, t ++ '\n' :: joinLines (b :: r'), hi, by rw [joinLines_cons_cons]; simp⟩

theorem setextLine2_gt (i : Nat) (r : Str) : setextLine2 (spaces i ++ '>' :: r) = false := by
  have : spanLen (fun c => decide (c = '=') || decide (c = '-')) (spaces i ++ '>' :: r) = 0 := by
    cases i <;> simp [spaces, List.replicate_succ, spanLen]
  simp [setextLine2, this]

theorem setextMatch_gt (ls : List Str) (h : GtLines ls) : setextMatch (joinLines ls) = false := by
  rw [setextMatch_eq]
  cases ls with
  | nil => rfl
  | cons a r =>
    have hl := lines_joinLines (a :: r) (by simp) (fun l hl => notNl_of_not_mem (GtLines.noNl h l hl))
    cases r with
    | nil => simp [secondLine, hl]
    | cons b r' =>
      obtain ⟨i, t, _, rfl, _⟩ := h b (by simp)
      simp [secondLine, hl, setextLine2_gt]

theorem listItemMatch_gt (ol ul : Bool) (i : Nat) (hi : i ≤ 3) (tail : Str) :
    listItemMatch 4 ol ul (spaces i ++ '>' :: tail) = none := by
  have hcp : countPrefix ' ' (some (4 - 1)) (spaces i ++ '>' :: tail) = i :=
    countPrefix_some_spaces i _ _ (by simp) (by omega)
  have hdrop : (spaces i ++ '>' :: tail).drop i = '>' :: tail := drop_at rfl (by simp [spaces])
  have hol : olMarker ('>' :: tail) = none := by
    have : isDecimal '>' = false := by decide
    simp [olMarker, spanLen, this]
  have hul : ulMarker ('>' :: tail) = none := by simp [ulMarker]
  unfold listItemMatch
  simp only [hcp, hdrop, hol, hul]
  cases ol <;> cases ul <;> simp

theorem quoteSearch_gt (i : Nat) (hi : i ≤ 3) (tail : Str) : quoteSearch (spaces i ++ '>' :: tail) = some 0 := by
  have hcp : countPrefix ' ' (some 3) (spaces i ++ '>' :: tail) = i :=
    countPrefix_some_spaces i _ _ (by simp) hi
  have hdrop : (spaces i ++ '>' :: tail).drop i = '>' :: tail := drop_at rfl (by simp [spaces])
  simp [quoteSearch, quoteLine, hcp, hdrop]

/-! #### `quoteClean` gives the inner lines back -/

theorem visible_filter {l : Str} (h : ∃ c ∈ l, isSpace c = false) : l.filter (fun c => !isSpace c) ≠ [] := by
  obtain ⟨c, hc, hs⟩ := h
  intro e
  have : c ∈ l.filter (fun c => !isSpace c) := List.mem_filter.2 ⟨hc, by simp [hs]⟩
  rw [e] at this; cases this

theorem takeWhile_all (l : Str) (h : l.all notNl = true) : l.takeWhile notNl = l := by
  induction l with
  | nil => rfl
  | cons c r ih =>
    simp only [List.all_cons, Bool.and_eq_true] at h
    simp [h.1, ih h.2]

theorem strip_qline_ne (i : Nat) (l : Str) (hv : ∃ c ∈ l, isSpace c = false) :
    strip (spaces i ++ '>' :: ' ' :: l) ≠ ['>'] := by
  intro e
  obtain ⟨a, b, hs, ha, hb⟩ := stripP_decomp isSpace (spaces i ++ '>' :: ' ' :: l)
  have e' : stripP isSpace (spaces i ++ '>' :: ' ' :: l) = ['>'] := e
  rw [e'] at hs
  have hf := congrArg (List.filter (fun c => !isSpace c)) hs
  have fa : a.filter (fun c => !isSpace c) = [] := by
    rw [List.filter_eq_nil_iff]; intro c hc; simp [List.all_eq_true.1 ha c hc]
  have fb : b.filter (fun c => !isSpace c) = [] := by
    rw [List.filter_eq_nil_iff]; intro c hc; simp [List.all_eq_true.1 hb c hc]
  have fs : (spaces i).filter (fun c => !isSpace c) = [] := by
    rw [List.filter_eq_nil_iff]; intro c hc
    rw [List.eq_of_mem_replicate hc]; decide
  simp only [List.filter_append, fa, fb, fs, List.nil_append, List.append_nil] at hf
  have h1 : (fun c => !isSpace c) '>' = true := by decide
  have h2 : (fun c => !isSpace c) ' ' = false := by decide
  simp only [List.filter_cons, h1, h2, if_true, Bool.false_eq_true, if_false, List.filter_nil] at hf
  exact visible_filter hv (List.cons.inj hf).2

theorem quoteClean_qline (i : Nat) (hi : i ≤ 3) (l : Str) (hnl : '\n' ∉ l)
    (hv : l = [] ∨ ∃ c ∈ l, isSpace c = false) : quoteClean (qline i l) = l := by
  rcases hv with rfl | hv
  · have : strip (spaces i ++ ['>']) = ['>'] := by
      have := strip_append_of_blank (a := spaces i) (b := []) (by simp [isBlank, spaces]) (by simp [isBlank]) ['>']
      simp only [List.append_nil] at this
      rw [this]; decide
    simp [quoteClean, qline, this]
  · have hne : l ≠ [] := by obtain ⟨c, hc, _⟩ := hv; intro e; rw [e] at hc; cases hc
    have hq : qline i l = spaces i ++ '>' :: ' ' :: l := by
      cases l with
      | nil => exact absurd rfl hne
      | cons a b => simp [qline]
    have hcp : countPrefix ' ' (some 3) (spaces i ++ '>' :: ' ' :: l) = i :=
      countPrefix_some_spaces i _ _ (by simp) hi
    have hdrop : (spaces i ++ '>' :: ' ' :: l).drop i = '>' :: ' ' :: l := drop_at rfl (by simp [spaces])
    have htw : l.takeWhile notNl = l := takeWhile_all l (notNl_of_not_mem hnl)
    have hql : quoteLine (spaces i ++ '>' :: ' ' :: l) = some l := by
      simp [quoteLine, hcp, hdrop, htw]
    rw [hq]
    simp [quoteClean, strip_qline_ne i l hv, quoteMatch, hql]

/-- an inner line: empty, or with a visible character; no line feed -/
def InnerLine (l : Str) : Prop := '\n' ∉ l ∧ (l = [] ∨ ∃ c ∈ l, isSpace c = false)

theorem cleaned_qlines (i : Nat) (hi : i ≤ 3) (ls : List Str) (hne : ls ≠ []) (h : ∀ l ∈ ls, InnerLine l) :
    joinLines ((lines (joinLines (ls.map (qline i)))).map quoteClean) = joinLines ls := by
  rw [lines_joinLines _ (by simpa using hne)
    (by intro l hl; obtain ⟨x, hx, rfl⟩ := List.mem_map.1 hl; exact notNl_of_not_mem (qline_noNl i x (h x hx).1))]
  rw [List.map_map]
  congr 1
  rw [List.map_congr_left (g := id)]
  · simp
  · intro l hl
    exact quoteClean_qline i hi l (h l hl).1 (h l hl).2

theorem gtLines_qlines (i : Nat) (hi : i ≤ 3) (ls : List Str) (h : ∀ l ∈ ls, InnerLine l) :
    GtLines (ls.map (qline i)) := by
  intro l hl
  obtain ⟨x, hx, rfl⟩ := List.mem_map.1 hl
  obtain ⟨r, e, hr⟩ := qline_shape i x
  exact ⟨i, r, hi, e, hr (h x hx).1⟩

/-- **a quote chunk reaches `BlockQuoteProcessor`**, whatever the state, with the match at offset 0 -/
theorem dispatch_quote (pb : PB) (state : List BState) (refs : Refs) (parent : Node) (rest : List Str)
    (i : Nat) (hi : i ≤ 3) (ls : List Str) (hne : ls ≠ []) (h : ∀ l ∈ ls, InnerLine l) :
    dispatch 4 pb state refs parent (joinLines (ls.map (qline i))) rest =
      quoteP pb state refs parent (joinLines (ls.map (qline i))) rest 0 := by
  have hg := gtLines_qlines i hi ls h
  have hne' : ls.map (qline i) ≠ [] := by simpa using hne
  obtain ⟨j, tail, hj, hshape⟩ := gt_head _ hne' hg
  have hl := lineStartsOk_gt _ hne' hg
  have h4 := hashSearch_eq_none (esc := gtEsc) (by decide) _ hl
  have h5 := setextMatch_gt _ hg
  have h6 := hrSearch_eq_none (esc := gtEsc) (by decide) (by decide) (by decide) _ hl
  generalize joinLines (ls.map (qline i)) = b at *
  subst hshape
  have h1 : (spaces j ++ '>' :: tail).isEmpty = false := by cases j <;> simp [spaces, List.replicate_succ]
  have h2 : startsWith (spaces j ++ '>' :: tail) ['\n'] = false := by
    cases j <;> simp [spaces, List.replicate_succ]
  have h3 : startsWith (spaces j ++ '>' :: tail) (spaces 4) = false :=
    startsWith_spaces_false j 4 '>' tail (by omega) (by decide)
  unfold dispatch
  simp only [h1, h2, h3, h4, h5, h6, Bool.or_self, Bool.false_eq_true, if_false, Bool.false_and,
    listItemMatch_gt _ _ j hj tail, Option.isSome_none, quoteSearch_gt j hj tail]

end quoteChunk

/-! ### B2. effects of chunks on the parent, with a fuel bound -/

section effects
open Block DocSpec

/-- the loop of `parseBlocks` succeeds with the result `res` within `B` units of fuel -/
def Runs (B : Nat) (st : List BState) (refs : Refs) (parent : Node) (blocks : List Str) (res : Node × Refs) : Prop :=
  ∃ f, f ≤ B ∧ parseBlocks 4 f st refs parent blocks = some res

theorem runs_nil (st : List BState) (refs : Refs) (parent : Node) : Runs 0 st refs parent [] (parent, refs) :=
  ⟨0, Nat.le_refl _, rfl⟩

theorem Runs.mono {B B' : Nat} {st refs parent blocks res} (h : Runs B st refs parent blocks res) (hb : B ≤ B') :
    Runs B' st refs parent blocks res := by
  obtain ⟨f, hf, h⟩ := h
  exact ⟨f, Nat.le_trans hf hb, h⟩

/-- one turn of the loop whose callback needs `f` units -/
theorem runs_step {B f : Nat} {st : List BState} {refs refs' : Refs} {parent p' : Node} {b : Str}
    {rest rest' : List Str} {res : Node × Refs}
    (hd : dispatch 4 (parseBlocks 4 f) st refs parent b rest = some (p', refs', rest'))
    (hr : Runs B st refs' p' rest' res) : Runs (max B f + 1) st refs parent (b :: rest) res := by
  obtain ⟨f1, hf1, h1⟩ := hr
  refine ⟨max f1 f + 1, by omega, ?_⟩
  have hd' := dispatch_mono_ref (parseBlocks_le 4 (Nat.le_max_right f1 f)) 4 st refs parent b rest _ hd
  simp only [parseBlocks, hd']
  exact parseBlocks_le 4 (Nat.le_max_left f1 f) _ _ _ _ _ h1

/-- what the parent's last child must be for the element `n` to be appended after it: not a code block (the empty
    block before a quote would extend it), and not a `blockquote` when `n` is one (they would merge) -/
def ParentOK (prev : Option Node) (n : Node) : Prop :=
  ∀ sib, prev = some sib → preCode sib = none ∧ (n.isTag "blockquote" = true → sib.isTag "blockquote" = false)

/-- the chunks append the element `n`, at a cost of at most `c` units of fuel -/
def Effect (chunks : List Str) (n : Node) (c : Nat) : Prop :=
  ∀ (st : List BState) (refs : Refs) (parent : Node) (rest : List Str) (res : Node × Refs) (B : Nat),
    isstate st .list = false → ParentOK parent.last? n →
    Runs B st refs (parent.append n) rest res → Runs (B + c) st refs parent (chunks ++ rest) res

/-- consecutive elements may follow one another -/
def AdjOK : Option Node → List Node → Prop
  | _, [] => True
  | prev, n :: r => ParentOK prev n ∧ AdjOK (some n) r

/-- the chunks append the elements `ns` in order -/
def EffectL (chunks : List Str) (ns : List Node) (c : Nat) : Prop :=
  ∀ (st : List BState) (refs : Refs) (parent : Node) (rest : List Str) (res : Node × Refs) (B : Nat),
    isstate st .list = false → AdjOK parent.last? ns →
    Runs B st refs { parent with children := parent.children ++ ns } rest res →
    Runs (B + c) st refs parent (chunks ++ rest) res

theorem effect_of_producesS {b : Str} {n : Node} (h : ProducesS 4 b n) : Effect [b] n 1 := by
  intro st refs parent rest res B hst _ hr
  have := runs_step (f := 0) (h (parseBlocks 4 0) st refs parent rest hst) hr
  exact this.mono (by omega)

theorem effectL_nil : EffectL [] [] 0 := by
  intro st refs parent rest res B _ _ hr
  have e : ({ parent with children := parent.children ++ [] } : Node) = parent := by cases parent; simp
  rw [e] at hr
  simpa using hr

theorem last_append (parent n : Node) : (parent.append n).last? = some n := by
  simp [Node.last?, Node.append]

theorem effectL_cons {ch1 chs : List Str} {n1 : Node} {ns : List Node} {c1 c : Nat}
    (h1 : Effect ch1 n1 c1) (h : EffectL chs ns c) : EffectL (ch1 ++ chs) (n1 :: ns) (c1 + c) := by
  intro st refs parent rest res B hst hadj hr
  have e : ({ parent with children := parent.children ++ n1 :: ns } : Node) =
      { parent.append n1 with children := (parent.append n1).children ++ ns } := by
    simp [Node.append, List.append_assoc]
  rw [e] at hr
  have h2 := h st refs (parent.append n1) rest res B hst (by rw [last_append]; exact hadj.2) hr
  have h3 := h1 st refs parent (chs ++ rest) res (B + c) hst hadj.1 h2
  rw [List.append_assoc]
  exact h3.mono (by omega)

/-- the `blockquote` element with these children -/
def bqNode (kids : List Node) : Node := { tag := .name "blockquote".toList, children := kids }

theorem isTag_bqNode (kids : List Node) : (bqNode kids).isTag "blockquote" = true := by
  simp [bqNode, Node.isTag]

theorem preCode_bqNode (kids : List Node) : preCode (bqNode kids) = none := by
  have : (bqNode kids).isTag "pre" = false := by simp only [bqNode, Node.isTag]; decide
  simp [preCode, this]

/-- the empty block that `BlockQuoteProcessor` hands to the parser for the text before the quote -/
theorem parseBlocks_before (f : Nat) (st : List BState) (refs : Refs) (parent : Node)
    (h : ∀ sib, parent.last? = some sib → preCode sib = none) :
    parseBlocks 4 (f + 1) st refs parent [[]] = some (parent, refs) := by
  simp only [parseBlocks, dispatch_empty_block 4 _ st refs parent h]

/-- **a quote chunk that starts a new `blockquote`** -/
theorem effect_quote_new (i : Nat) (hi : i ≤ 3) (L : List Str) (hne : L ≠ []) (hL : ∀ l ∈ L, InnerLine l)
    (ICS : List Str) (hsplit : splitS ['\n', '\n'] (joinLines L) = ICS) (ns : List Node) (c : Nat)
    (hinner : EffectL ICS ns c) (hadj : AdjOK none ns) :
    Effect [joinLines (L.map (qline i))] (bqNode ns) (c + 2) := by
  intro st refs parent rest res B hst hpar hr
  have hst2 : isstate (st ++ [.blockquote]) .list = false := by simp [isstate]
  have hin := hinner (st ++ [.blockquote]) refs (Node.el "blockquote") [] (bqNode ns, refs) 0 hst2
    (by simpa [Node.last?, Node.el] using hadj) (by
      have : ({ Node.el "blockquote" with children := (Node.el "blockquote").children ++ ns } : Node) = bqNode ns := by
        simp [Node.el, bqNode]
      rw [this]; exact runs_nil _ _ _)
  obtain ⟨fi, hfi, hi'⟩ := hin
  simp only [List.append_nil, Nat.zero_add] at hi' hfi
  have hpre : ∀ sib, parent.last? = some sib → preCode sib = none := fun sib hs => (hpar sib hs).1
  have hnotbq : ∀ sib, parent.last? = some sib → sib.isTag "blockquote" = false :=
    fun sib hs => (hpar sib hs).2 (isTag_bqNode ns)
  have hd : dispatch 4 (parseBlocks 4 (fi + 1)) st refs parent (joinLines (L.map (qline i))) rest =
      some (parent.append (bqNode ns), refs, rest) := by
    rw [dispatch_quote _ _ _ _ _ i hi L hne hL]
    have hin' := parseBlocks_le 4 (Nat.le_succ fi) _ _ _ _ _ hi'
    simp only [quoteP, List.take_zero, parseBlocks_before fi st refs parent hpre, List.drop_zero,
      cleaned_qlines i hi L hne hL, parseChunk, hsplit]
    cases hl : parent.last? with
    | none => simp [hin']
    | some sib => simp [hnotbq sib hl, hin']
  have := runs_step hd hr
  exact this.mono (by omega)

/-- **a quote chunk that continues the `blockquote` before it** -/
theorem runs_quote_merge (i : Nat) (hi : i ≤ 3) (L : List Str) (hne : L ≠ []) (hL : ∀ l ∈ L, InnerLine l)
    (ICS : List Str) (hsplit : splitS ['\n', '\n'] (joinLines L) = ICS) (ns : List Node) (c : Nat)
    (hinner : EffectL ICS ns c)
    (st : List BState) (refs : Refs) (parent : Node) (rest : List Str) (res : Node × Refs) (B : Nat)
    (cs : List Node) (hlast : parent.last? = some (bqNode cs))
    (hadj : AdjOK cs.getLast? ns)
    (hr : Runs B st refs (parent.setLast (bqNode (cs ++ ns))) rest res) :
    Runs (B + (c + 2)) st refs parent (joinLines (L.map (qline i)) :: rest) res := by
  have hst2 : isstate (st ++ [.blockquote]) .list = false := by simp [isstate]
  have hin := hinner (st ++ [.blockquote]) refs (bqNode cs) [] (bqNode (cs ++ ns), refs) 0 hst2
    (by simpa [Node.last?, bqNode] using hadj) (by
      have : ({ bqNode cs with children := (bqNode cs).children ++ ns } : Node) = bqNode (cs ++ ns) := by
        simp [bqNode]
      rw [this]; exact runs_nil _ _ _)
  obtain ⟨fi, hfi, hi'⟩ := hin
  simp only [List.append_nil, Nat.zero_add] at hi' hfi
  have hpre : ∀ sib, parent.last? = some sib → preCode sib = none := by
    intro sib hs; rw [hlast] at hs; cases hs; exact preCode_bqNode cs
  have hd : dispatch 4 (parseBlocks 4 (fi + 1)) st refs parent (joinLines (L.map (qline i))) rest =
      some (parent.setLast (bqNode (cs ++ ns)), refs, rest) := by
    rw [dispatch_quote _ _ _ _ _ i hi L hne hL]
    have hin' := parseBlocks_le 4 (Nat.le_succ fi) _ _ _ _ _ hi'
    simp only [quoteP, List.take_zero, parseBlocks_before fi st refs parent hpre, List.drop_zero,
      cleaned_qlines i hi L hne hL, parseChunk, hsplit, hlast, isTag_bqNode, if_true, hin']
  have := runs_step hd hr
  exact this.mono (by omega)

end effects

/-! ### B3. trees of leaves and block quotes; the effect of a printed quote -/

/-- the element tree of a document of flat blocks and quotes -/
inductive QT where
  | leaf (l : Leaf)
  | bq (kids : List QT)

mutual
/-- as the block parser builds it -/
def QT.src (esc : List Char) : QT → Node
  | .leaf l => l.src esc
  | .bq ks => bqNode (QT.srcs esc ks)
def QT.srcs (esc : List Char) : List QT → List Node
  | [] => []
  | t :: r => t.src esc :: QT.srcs esc r
end

mutual
/-- all leaves are well-formed and every quote has a child -/
def QT.ok : QT → Bool
  | .leaf l => l.ok
  | .bq ks => !ks.isEmpty && QT.oks ks
def QT.oks : List QT → Bool
  | [] => true
  | t :: r => t.ok && QT.oks r
end

def QT.isBq : QT → Bool
  | .bq _ => true
  | .leaf _ => false

/-- no two quotes next to each other -/
def noAdjBq : List QT → Bool
  | a :: b :: r => !(a.isBq && b.isBq) && noAdjBq (b :: r)
  | _ => true

section kids
open Block DocSpec

theorem srcs_eq_map (esc : List Char) (ts : List QT) : QT.srcs esc ts = ts.map (QT.src esc) := by
  induction ts with
  | nil => rfl
  | cons t r ih => simp [QT.srcs, ih]

theorem oks_mem {ts : List QT} (h : QT.oks ts = true) : ∀ t ∈ ts, t.ok = true := by
  induction ts with
  | nil => intro t ht; cases ht
  | cons a r ih =>
    simp only [QT.oks, Bool.and_eq_true] at h
    intro t ht
    rcases List.mem_cons.1 ht with rfl | ht
    · exact h.1
    · exact ih h.2 t ht

theorem leaf_not_bq : ∀ tag ∈ "hr".toList :: textTags, tag ≠ ['b', 'l', 'o', 'c', 'k', 'q', 'u', 'o', 't', 'e'] := by
  decide

theorem isTag_bq_src (esc : List Char) (t : QT) (h : t.ok = true) :
    (t.src esc).isTag "blockquote" = t.isBq := by
  cases t with
  | leaf l =>
    have hm := leaf_not_bq _ (leaf_tag_mem h)
    cases l with
    | hr => simp only [QT.src, Leaf.src, Node.isTag, QT.isBq]; decide
    | txt tag t =>
      simp only [Leaf.tag] at hm
      simp [QT.src, Leaf.src, Node.isTag, QT.isBq, hm]
  | bq ks => simp [QT.src, isTag_bqNode, QT.isBq]

theorem preCode_src (esc : List Char) (t : QT) (h : t.ok = true) : preCode (t.src esc) = none := by
  cases t with
  | leaf l => exact preCode_leaf esc l h
  | bq ks => exact preCode_bqNode _

theorem parentOK_src (esc : List Char) (a b : QT) (ha : a.ok = true) (hb : b.ok = true)
    (h : (a.isBq && b.isBq) = false) : ParentOK (some (a.src esc)) (b.src esc) := by
  intro sib hs
  cases hs
  refine ⟨preCode_src esc a ha, fun hbq => ?_⟩
  rw [isTag_bq_src esc b hb] at hbq
  rw [isTag_bq_src esc a ha]
  cases hab : a.isBq with
  | false => rfl
  | true => rw [hab, hbq] at h; cases h

theorem adjOK_srcs (esc : List Char) (ts : List QT) (hok : ∀ t ∈ ts, t.ok = true) (hadj : noAdjBq ts = true)
    (prev : Option Node) (hprev : ∀ t, ts.head? = some t → ParentOK prev (t.src esc)) :
    AdjOK prev (ts.map (QT.src esc)) := by
  induction ts generalizing prev with
  | nil => trivial
  | cons a r ih =>
    refine ⟨hprev a rfl, ?_⟩
    apply ih (fun t ht => hok t (List.mem_cons_of_mem _ ht))
    · cases r with
      | nil => rfl
      | cons b r' => simp only [noAdjBq, Bool.and_eq_true] at hadj; exact hadj.2
    · intro t ht
      cases r with
      | nil => cases ht
      | cons b r' =>
        simp only [List.head?_cons, Option.some.injEq] at ht
        subst ht
        simp only [noAdjBq, Bool.and_eq_true, Bool.not_eq_true'] at hadj
        exact parentOK_src esc a b (hok a List.mem_cons_self) (hok b (by simp)) hadj.1

/-- a line of a group: not empty, safe for the normaliser, without `<` and `&`, with a visible character -/
def GoodLine (l : Str) : Prop :=
  l ≠ [] ∧ lineSafe l = true ∧ '<' ∉ l ∧ '&' ∉ l ∧ ∃ c ∈ l, isSpace c = false

def GoodGroup (g : List Str) : Prop := g ≠ [] ∧ ∀ l ∈ g, GoodLine l

def totalLen (gs : List (List Str)) : Nat := (gs.map (fun g => (g.map List.length).sum)).sum

/-- the printed form of one block: its groups of lines (separated by empty lines in the text), the tree it becomes and
    the fuel it costs -/
structure Kid where
  gs : List (List Str)
  t : QT
  c : Nat

structure KidOK (esc : List Char) (k : Kid) : Prop where
  ne : k.gs ≠ []
  good : ∀ g ∈ k.gs, GoodGroup g
  eff : Effect (k.gs.map joinLines) (k.t.src esc) k.c
  cost : k.c ≤ 2 * totalLen k.gs
  ok : k.t.ok = true

theorem GoodLine.inner {l : Str} (h : GoodLine l) : InnerLine l :=
  ⟨(lineSafe_facts h.2.1).1, Or.inr h.2.2.2.2⟩

theorem innerLine_nil : InnerLine [] := ⟨by simp, Or.inl rfl⟩

theorem innerLine_flatLines (gs : List (List Str)) (h : ∀ g ∈ gs, GoodGroup g) :
    ∀ l ∈ flatLines gs, InnerLine l := by
  intro l hl
  rcases mem_flatLines hl with rfl | ⟨g, hg, hlg⟩
  · exact innerLine_nil
  · exact ((h g hg).2 l hlg).inner

/-! #### splitting the cleaned text of a quote into the chunks of its children -/

theorem splitAux_single (b : Bool) (e : Str) (h : noEmptyLineFrom b e = true) :
    splitAux ['\n', '\n'] 0 e = [e] := by
  induction e generalizing b with
  | nil => rfl
  | cons c r ih =>
    by_cases hc : c = '\n'
    · subst hc
      simp only [noEmptyLineFrom, if_true, Bool.and_eq_true] at h
      have ih' := ih true h.2
      cases r with
      | nil => simp [noEmptyLineFrom] at h
      | cons d r' =>
        have hd : d ≠ '\n' := by
          intro e; subst e; simp [noEmptyLineFrom] at h
        exact splitAux_step _ _ _ (by simp [startsWith, hd]) _ _ ih'
    · simp only [noEmptyLineFrom, hc, if_false] at h
      exact splitAux_step _ _ _ (by simp [startsWith, hc]) _ _ (ih false h)

theorem splitS_joinChunks (bs : List Str) (hne : bs ≠ []) (h : ∀ b ∈ bs, noEmptyLineFrom true b = true) :
    splitS ['\n', '\n'] (joinChunks bs) = bs := by
  induction bs with
  | nil => exact absurd rfl hne
  | cons b r ih =>
    cases r with
    | nil => exact splitAux_single true b (h b List.mem_cons_self)
    | cons b' r' =>
      have := ih (by simp) (fun x hx => h x (List.mem_cons_of_mem _ hx))
      simp only [joinChunks, splitS, List.append_assoc, List.cons_append, List.nil_append] at this ⊢
      rw [splitAux_chunk true b _ (h b List.mem_cons_self), this]

theorem nel_cons_line (l X : Str) (hl : l ≠ []) (hnl : '\n' ∉ l) :
    noEmptyLineFrom true (l ++ '\n' :: X) = noEmptyLineFrom true X := by
  cases l with
  | nil => exact absurd rfl hl
  | cons c r =>
    have hc : c ≠ '\n' := fun e => hnl (e ▸ List.mem_cons_self)
    have := nel_false_line r ('\n' :: X) (fun h => hnl (List.mem_cons_of_mem _ h))
    simp [noEmptyLineFrom, hc, this]

theorem nel_group (g : List Str) (h : GoodGroup g) : noEmptyLineFrom true (joinLines g) = true := by
  obtain ⟨hne, hl⟩ := h
  induction g with
  | nil => exact absurd rfl hne
  | cons l r ih =>
    have h1 := hl l List.mem_cons_self
    have hnl := (lineSafe_facts h1.2.1).1
    cases r with
    | nil => exact nel_line l h1.1 hnl
    | cons l' r' =>
      rw [joinLines_cons_cons, nel_cons_line l _ h1.1 hnl]
      exact ih (by simp) (fun x hx => hl x (List.mem_cons_of_mem _ hx))

/-- the text of the inner lines splits into the chunks of the groups -/
theorem split_flatLines (GS : List (List Str)) (hne : GS ≠ []) (h : ∀ g ∈ GS, GoodGroup g) :
    splitS ['\n', '\n'] (joinLines (flatLines GS)) = GS.map joinLines := by
  rw [joinLines_flatLines GS (fun g hg => (h g hg).1)]
  apply splitS_joinChunks _ (by simpa using hne)
  intro b hb
  obtain ⟨g, hg, rfl⟩ := List.mem_map.1 hb
  exact nel_group g (h g hg)

theorem flatLines_ne_nil (GS : List (List Str)) (hne : GS ≠ []) (h : ∀ g ∈ GS, g ≠ []) : flatLines GS ≠ [] := by
  cases GS with
  | nil => exact absurd rfl hne
  | cons g r =>
    have := h g List.mem_cons_self
    cases r with
    | nil => simpa [flatLines] using this
    | cons a b => simp [flatLines, this]

/-! #### lines of a quote are good lines -/

theorem goodLine_qline (i : Nat) (l : Str) (h : l = [] ∨ GoodLine l) : GoodLine (qline i l) := by
  obtain ⟨r, e, _⟩ := qline_shape i l
  have hchars : ∀ x ∈ qline i l, isPlainChar x = true ∧ x ≠ '\n' := by
    intro x hx
    unfold qline at hx
    rcases List.mem_append.1 hx with hx | hx
    · rw [List.eq_of_mem_replicate hx]; exact ⟨by decide, by decide⟩
    · rcases h with rfl | hg
      · have : x = '>' := by simpa using hx
        subst this; exact ⟨by decide, by decide⟩
      · have hne : l.isEmpty = false := by
          cases l with
          | nil => exact absurd rfl hg.1
          | cons a b => rfl
        simp only [hne, Bool.false_eq_true, if_false, List.mem_cons] at hx
        rcases hx with rfl | rfl | hx
        · exact ⟨by decide, by decide⟩
        · exact ⟨by decide, by decide⟩
        · have hs := lineSafe_facts hg.2.1
          have h1 := hs.2.1 x hx
          refine ⟨?_, fun e => hs.1 (e ▸ hx)⟩
          simp only [isPlainChar, Bool.and_eq_true, bne_iff_ne, ne_eq]
          exact ⟨⟨⟨⟨⟨fun e => hg.2.2.1 (e ▸ hx), fun e => hg.2.2.2.1 (e ▸ hx)⟩, h1.1⟩, h1.2.1⟩, h1.2.2.2⟩, h1.2.2.1⟩
  have hmem : '>' ∈ qline i l := by rw [e]; simp
  have hs := safe_of_plain (qline i l) hchars ⟨'>', hmem, by decide⟩
  have hne : qline i l ≠ [] := by intro e'; rw [e'] at hmem; cases hmem
  exact ⟨hne, hs.1, hs.2.1, hs.2.2, ⟨'>', hmem, by decide⟩⟩

theorem goodGroup_qlines (i : Nat) (L : List Str) (hne : L ≠ []) (h : ∀ l ∈ L, l = [] ∨ GoodLine l) :
    GoodGroup (L.map (qline i)) := by
  refine ⟨by simpa using hne, ?_⟩
  intro l hl
  obtain ⟨x, hx, rfl⟩ := List.mem_map.1 hl
  exact goodLine_qline i x (h x hx)

theorem flatLines_lines (GS : List (List Str)) (h : ∀ g ∈ GS, GoodGroup g) :
    ∀ l ∈ flatLines GS, l = [] ∨ GoodLine l := by
  intro l hl
  rcases mem_flatLines hl with rfl | ⟨g, hg, hlg⟩
  · exact Or.inl rfl
  · exact Or.inr ((h g hg).2 l hlg)

/-! #### lengths -/

theorem totalLen_append (a b : List (List Str)) : totalLen (a ++ b) = totalLen a + totalLen b := by
  simp [totalLen]

theorem sumLen_flatLines (GS : List (List Str)) : ((flatLines GS).map List.length).sum = totalLen GS := by
  induction GS with
  | nil => rfl
  | cons g r ih =>
    cases r with
    | nil => simp [flatLines, totalLen]
    | cons g' r' =>
      simp only [flatLines, List.map_append, List.sum_append, List.map_cons, List.map_nil, List.length_nil,
        List.sum_cons, List.sum_nil] at ih ⊢
      rw [ih]; simp [totalLen]

theorem length_qline (i : Nat) (l : Str) : l.length + 1 ≤ (qline i l).length := by
  unfold qline
  split
  · rename_i h
    have : l = [] := by simpa using h
    subst this; simp
  · simp; omega

theorem sumLen_qlines (i : Nat) (L : List Str) :
    (L.map List.length).sum + L.length ≤ ((L.map (qline i)).map List.length).sum := by
  induction L with
  | nil => simp
  | cons l r ih =>
    have := length_qline i l
    simp only [List.map_cons, List.sum_cons, List.length_cons] at ih ⊢
    omega

/-! #### the two spellings of a quote as a `Kid` -/

def sumC (ks : List Kid) : Nat := (ks.map (·.c)).sum

/-- all groups of the children, in order -/
def allGroups (ks : List Kid) : List (List Str) := ks.flatMap (·.gs)

theorem allGroups_cons (k : Kid) (r : List Kid) : allGroups (k :: r) = k.gs ++ allGroups r := by
  simp [allGroups]

theorem effectL_kids (esc : List Char) (ks : List Kid) (h : ∀ k ∈ ks, KidOK esc k) :
    EffectL ((allGroups ks).map joinLines) (ks.map (fun k => k.t.src esc)) (sumC ks) := by
  induction ks with
  | nil => exact effectL_nil
  | cons k r ih =>
    have := effectL_cons (h k List.mem_cons_self).eff (ih (fun x hx => h x (List.mem_cons_of_mem _ hx)))
    simpa [allGroups_cons, sumC] using this

theorem allGroups_good (esc : List Char) (ks : List Kid) (h : ∀ k ∈ ks, KidOK esc k) :
    ∀ g ∈ allGroups ks, GoodGroup g := by
  intro g hg
  obtain ⟨k, hk, hgk⟩ := List.mem_flatMap.1 hg
  exact (h k hk).good g hgk

theorem allGroups_ne (esc : List Char) (ks : List Kid) (hne : ks ≠ []) (h : ∀ k ∈ ks, KidOK esc k) :
    allGroups ks ≠ [] := by
  cases ks with
  | nil => exact absurd rfl hne
  | cons k r =>
    rw [allGroups_cons]
    intro e
    exact (h k List.mem_cons_self).ne (List.append_eq_nil_iff.1 e).1

theorem sumC_le (esc : List Char) (ks : List Kid) (h : ∀ k ∈ ks, KidOK esc k) :
    sumC ks ≤ 2 * totalLen (allGroups ks) := by
  induction ks with
  | nil => simp [sumC]
  | cons k r ih =>
    have h1 := (h k List.mem_cons_self).cost
    have h2 := ih (fun x hx => h x (List.mem_cons_of_mem _ hx))
    simp only [sumC, List.map_cons, List.sum_cons, allGroups_cons, totalLen_append] at h2 ⊢
    omega

theorem adjOK_kids (esc : List Char) (ks : List Kid) (h : ∀ k ∈ ks, KidOK esc k)
    (hadj : noAdjBq (ks.map (·.t)) = true) : AdjOK none (ks.map (fun k => k.t.src esc)) := by
  have := adjOK_srcs esc (ks.map (·.t))
    (by intro t ht; obtain ⟨k, hk, rfl⟩ := List.mem_map.1 ht; exact (h k hk).ok) hadj none
    (by intro t _ sib hs; cases hs)
  simpa [List.map_map, Function.comp_def] using this

theorem oks_of_kids (esc : List Char) (ks : List Kid) (h : ∀ k ∈ ks, KidOK esc k) :
    QT.oks (ks.map (·.t)) = true := by
  induction ks with
  | nil => rfl
  | cons k r ih =>
    simp [QT.oks, (h k List.mem_cons_self).ok, ih (fun x hx => h x (List.mem_cons_of_mem _ hx))]

/-- **a quote whose children are separated by `>` lines**: one chunk -/
theorem kidOK_quote_tight (esc : List Char) (i : Nat) (hi : i ≤ 3) (ks : List Kid) (hne : ks ≠ [])
    (h : ∀ k ∈ ks, KidOK esc k) (hadj : noAdjBq (ks.map (·.t)) = true) :
    KidOK esc ⟨[(flatLines (allGroups ks)).map (qline i)], .bq (ks.map (·.t)), sumC ks + 2⟩ := by
  have hgood := allGroups_good esc ks h
  have hGne := allGroups_ne esc ks hne h
  have hLne : flatLines (allGroups ks) ≠ [] := flatLines_ne_nil _ hGne (fun g hg => (hgood g hg).1)
  have hLlines := flatLines_lines _ hgood
  refine ⟨by simp, ?_, ?_, ?_, ?_⟩
  · intro g hg
    have : g = (flatLines (allGroups ks)).map (qline i) := by simpa using hg
    subst this
    exact goodGroup_qlines i _ hLne hLlines
  · have he := effect_quote_new i hi (flatLines (allGroups ks)) hLne (innerLine_flatLines _ hgood)
      ((allGroups ks).map joinLines) (split_flatLines _ hGne hgood) (ks.map (fun k => k.t.src esc)) (sumC ks)
      (effectL_kids esc ks h) (adjOK_kids esc ks h hadj)
    simpa [QT.src, srcs_eq_map, List.map_map, Function.comp_def] using he
  · have h1 := sumC_le esc ks h
    have h2 := sumLen_qlines i (flatLines (allGroups ks))
    rw [sumLen_flatLines] at h2
    have h3 : 1 ≤ (flatLines (allGroups ks)).length := by
      cases hx : flatLines (allGroups ks) with
      | nil => exact absurd hx hLne
      | cons a b => simp
    simp only [totalLen, List.map_cons, List.map_nil, List.sum_cons, List.sum_nil, Nat.add_zero] at h1 h2 ⊢
    omega
  · simp [QT.ok, hne, oks_of_kids esc ks h]

theorem setLast_append (parent x y : Node) : (parent.append x).setLast y = parent.append y := by
  simp [Node.setLast, Node.append]

/-- the chunks of a quote whose children are separated by blank lines -/
def looseGroups (i : Nat) (ks : List Kid) : List (List Str) := ks.map (fun k => (flatLines k.gs).map (qline i))

def looseC (ks : List Kid) : Nat := (ks.map (fun k => k.c + 2)).sum

theorem runs_loose_rest (esc : List Char) (i : Nat) (hi : i ≤ 3) (st : List BState) (refs : Refs) (parent : Node)
    (rest : List Str) (res : Node × Refs) (r : List Kid) (h : ∀ k ∈ r, KidOK esc k) :
    ∀ (done : List Node) (B : Nat), AdjOK done.getLast? (r.map (fun k => k.t.src esc)) →
      Runs B st refs (parent.append (bqNode (done ++ r.map (fun k => k.t.src esc)))) rest res →
      Runs (B + looseC r) st refs (parent.append (bqNode done)) ((looseGroups i r).map joinLines ++ rest) res := by
  induction r with
  | nil => intro done B _ hr; simpa [looseC, looseGroups] using hr
  | cons k r' ih =>
    intro done B hadj hr
    have hk := h k List.mem_cons_self
    have ih' := ih (fun x hx => h x (List.mem_cons_of_mem _ hx)) (done ++ [k.t.src esc]) B
      (by simpa using hadj.2) (by simpa [List.append_assoc] using hr)
    have hLne : flatLines k.gs ≠ [] := flatLines_ne_nil _ hk.ne (fun g hg => (hk.good g hg).1)
    have hm := runs_quote_merge i hi (flatLines k.gs) hLne (innerLine_flatLines _ hk.good)
      (k.gs.map joinLines) (split_flatLines _ hk.ne hk.good) [k.t.src esc] k.c
      (by simpa using effectL_cons hk.eff effectL_nil)
      st refs (parent.append (bqNode done)) ((looseGroups i r').map joinLines ++ rest) res (B + looseC r')
      done (last_append _ _) ⟨hadj.1, trivial⟩
      (by rw [setLast_append]; exact ih')
    simp only [looseGroups, List.map_cons, looseC, List.sum_cons, List.cons_append] at hm ⊢
    exact hm.mono (by omega)

/-- **a quote whose children are separated by blank lines**: one chunk per child, the later ones continue the
    `blockquote` of the first -/
theorem kidOK_quote_loose (esc : List Char) (i : Nat) (hi : i ≤ 3) (ks : List Kid) (hne : ks ≠ [])
    (h : ∀ k ∈ ks, KidOK esc k) (hadj : noAdjBq (ks.map (·.t)) = true) :
    KidOK esc ⟨looseGroups i ks, .bq (ks.map (·.t)), looseC ks⟩ := by
  obtain ⟨k, r, rfl⟩ : ∃ k r, ks = k :: r := by
    cases ks with
    | nil => exact absurd rfl hne
    | cons k r => exact ⟨k, r, rfl⟩
  have hk := h k List.mem_cons_self
  have hr : ∀ x ∈ r, KidOK esc x := fun x hx => h x (List.mem_cons_of_mem _ hx)
  refine ⟨by simp [looseGroups], ?_, ?_, ?_, ?_⟩
  · intro g hg
    obtain ⟨x, hx, rfl⟩ := List.mem_map.1 hg
    have hxk := h x hx
    exact goodGroup_qlines i _ (flatLines_ne_nil _ hxk.ne (fun g hg => (hxk.good g hg).1))
      (flatLines_lines _ hxk.good)
  · intro st refs parent rest res B hst hpar hrun
    have hA := adjOK_kids esc (k :: r) h hadj
    simp only [List.map_cons] at hA
    have hrest := runs_loose_rest esc i hi st refs parent rest res r hr [k.t.src esc] B (by simpa using hA.2)
      (by simpa [QT.src, srcs_eq_map, List.map_map, Function.comp_def] using hrun)
    have hLne : flatLines k.gs ≠ [] := flatLines_ne_nil _ hk.ne (fun g hg => (hk.good g hg).1)
    have hnew := effect_quote_new i hi (flatLines k.gs) hLne (innerLine_flatLines _ hk.good)
      (k.gs.map joinLines) (split_flatLines _ hk.ne hk.good) [k.t.src esc] k.c
      (by simpa using effectL_cons hk.eff effectL_nil) ⟨hA.1, trivial⟩
    have hpar' : ParentOK parent.last? (bqNode [k.t.src esc]) := by
      intro sib hs
      have := hpar sib hs
      exact ⟨this.1, fun _ => this.2 (by simp [QT.src, isTag_bqNode])⟩
    have := hnew st refs parent ((looseGroups i r).map joinLines ++ rest) res (B + looseC r) hst hpar' hrest
    simp only [looseGroups, List.map_cons, looseC, List.sum_cons, List.cons_append, List.nil_append] at this ⊢
    exact this.mono (by omega)
  · -- cost
    have : ∀ (ks : List Kid), (∀ k ∈ ks, KidOK esc k) → looseC ks ≤ 2 * totalLen (looseGroups i ks) := by
      intro ks hks
      induction ks with
      | nil => simp [looseC]
      | cons x xs ih =>
        have hx := hks x List.mem_cons_self
        have h1 := hx.cost
        have h2 := sumLen_qlines i (flatLines x.gs)
        rw [sumLen_flatLines] at h2
        have h3 : 1 ≤ (flatLines x.gs).length := by
          have := flatLines_ne_nil _ hx.ne (fun g hg => (hx.good g hg).1)
          cases hxx : flatLines x.gs with
          | nil => exact absurd hxx this
          | cons a b => simp
        have h4 := ih (fun y hy => hks y (List.mem_cons_of_mem _ hy))
        simp only [looseC, looseGroups, List.map_cons, List.sum_cons, totalLen] at h4 ⊢
        omega
    exact this _ h
  · have := oks_of_kids esc (k :: r) h
    simpa [QT.ok] using this

end kids

/-! ### B4. leaf kids; the block stage of a whole document -/

section docBlock
open Block DocSpec

theorem goodLine_of_safe {l : Str} (h : lineSafe l = true ∧ '<' ∉ l ∧ '&' ∉ l) (hv : ∃ c ∈ l, isSpace c = false) :
    GoodLine l := by
  have hne : l ≠ [] := by
    obtain ⟨c, hc, _⟩ := hv
    intro e; rw [e] at hc; cases hc
  exact ⟨hne, h.1, h.2.1, h.2.2, hv⟩

theorem kidOK_leaf1 (esc : List Char) (l : Str) (leaf : Leaf) (hl : GoodLine l) (hp : ProducesS 4 l (leaf.src esc))
    (hok : leaf.ok = true) : KidOK esc ⟨[[l]], .leaf leaf, 1⟩ := by
  refine ⟨by simp, ?_, ?_, ?_, hok⟩
  · intro g hg
    have : g = [l] := by simpa using hg
    subst this
    exact ⟨by simp, fun x hx => by have : x = l := by simpa using hx
                                   subst this; exact hl⟩
  · simpa [QT.src, joinLines_single] using effect_of_producesS hp
  · have : 1 ≤ l.length := by
      cases l with
      | nil => exact absurd rfl hl.1
      | cons a b => simp
    simp [totalLen]; omega

theorem kidOK_rule (esc : List Char) (i ch n g t : Nat) :
    KidOK esc ⟨[[ruleLine true i ch n g t]], .leaf .hr, 1⟩ := by
  have hp := pieceOK_rule (esc := esc) 4 (by omega) i ch n g t
  apply kidOK_leaf1 esc _ .hr _ (produces_ruleS 4 (by omega) i ch n g t) rfl
  exact goodLine_of_safe (hp.safe _ (by simp)) (by simpa [joinLines_single] using hp.vis)

theorem kidOK_para {esc : List Char} (hE : EscOK esc) (i : Nat) (hi : i < 4) (t : Str) (ht : lineText t = true) :
    KidOK esc ⟨[[spaces i ++ escAll esc t]], .leaf (.txt "p".toList t), 1⟩ := by
  have hp := pieceOK_para hE 4 i hi t ht
  apply kidOK_leaf1 esc _ _ _ (produces_paraS hE 4 i hi t ht) hp.ok
  exact goodLine_of_safe (hp.safe _ (by simp)) (by simpa [joinLines_single] using hp.vis)

theorem kidOK_atx {esc : List Char} (hE : EscOK esc) (t : Str) (ht : lineText t = true) (lv : Nat) (h1 : 1 ≤ lv)
    (h6 : lv ≤ 6) (Y : Str) (hY : Y = [] ∨ ∃ m, Y = ' ' :: List.replicate m '#') :
    KidOK esc ⟨[[List.replicate lv '#' ++ ' ' :: (escAll esc t ++ Y)]], .leaf (.txt ('h' :: natToDec lv) t), 1⟩ := by
  have hp := pieceOK_atx hE 4 (by omega) t ht lv h1 h6 Y hY
  apply kidOK_leaf1 esc _ _ _ (produces_atxS hE 4 (by omega) t ht lv h1 h6 Y hY) hp.ok
  exact goodLine_of_safe (hp.safe _ (by simp)) (by simpa [joinLines_single] using hp.vis)

theorem kidOK_setext {esc : List Char} (hE : EscOK esc) (i : Nat) (hi : i < 4) (t : Str) (ht : lineText t = true)
    (lv k : Nat) (hlv : lv = 1 ∨ lv = 2) :
    KidOK esc ⟨[[spaces i ++ escAll esc t, List.replicate (k + 1) (if lv = 1 then '=' else '-')]],
      .leaf (.txt ('h' :: natToDec lv) t), 1⟩ := by
  have hp := pieceOK_setext hE 4 i hi t ht lv k hlv
  obtain ⟨_, _, hvis, _⟩ := indented_facts hE i ht
  have hprod := produces_setextS hE 4 i hi t ht lv k hlv
  have hch2 : (if lv = 1 then '=' else '-') = '=' ∨ (if lv = 1 then '=' else '-') = '-' := by split <;> simp
  generalize (if lv = 1 then '=' else '-') = ch at *
  have hchv : isSpace ch = false := by rcases hch2 with h | h <;> rw [h] <;> decide
  refine ⟨by simp, ?_, ?_, ?_, hp.ok⟩
  · intro g hg
    have : g = [spaces i ++ escAll esc t, List.replicate (k + 1) ch] := by simpa using hg
    subst this
    refine ⟨by simp, ?_⟩
    intro x hx
    simp only [List.mem_cons, List.mem_nil_iff, or_false] at hx
    rcases hx with rfl | rfl
    · exact goodLine_of_safe (hp.safe _ (by simp)) hvis
    · exact goodLine_of_safe (hp.safe (List.replicate (k + 1) ch) (by simp))
        ⟨ch, by simp [List.replicate_succ], hchv⟩
  · have hj : joinLines [spaces i ++ escAll esc t, List.replicate (k + 1) ch] =
        spaces i ++ escAll esc t ++ '\n' :: List.replicate (k + 1) ch := by simp [joinLines, join]
    have := effect_of_producesS hprod
    simpa [QT.src, Leaf.src, hj] using this
  · simp [totalLen]; omega

theorem sumLen_le_joinLines (ls : List Str) : (ls.map List.length).sum ≤ (joinLines ls).length := by
  induction ls with
  | nil => simp [joinLines, join]
  | cons l r ih =>
    cases r with
    | nil => simp [joinLines_single]
    | cons l' r' =>
      rw [joinLines_cons_cons]
      simp only [List.map_cons, List.sum_cons, List.length_append, List.length_cons] at ih ⊢
      omega

/-- **the block stage on a whole document**: the tree of the blocks under a `<div>`, no references -/
theorem parseDocument_kids (esc : List Char) (ks : List Kid) (hne : ks ≠ []) (h : ∀ k ∈ ks, KidOK esc k)
    (hadj : noAdjBq (ks.map (·.t)) = true) :
    parseDocument 4 (joinLines (flatLines (allGroups ks)) ++ ['\n', '\n']) =
      some (divOf (ks.map (fun k => k.t.src esc)), []) := by
  have hgood := allGroups_good esc ks h
  have hGne := allGroups_ne esc ks hne h
  have hchunks : joinLines (flatLines (allGroups ks)) = joinChunks ((allGroups ks).map joinLines) :=
    joinLines_flatLines _ (fun g hg => (hgood g hg).1)
  have hsplit := splitS_chunks ((allGroups ks).map joinLines) (by simpa using hGne)
    (by intro b hb; obtain ⟨g, hg, rfl⟩ := List.mem_map.1 hb; exact nel_group g (hgood g hg))
  -- the loop, from the last block backwards
  have hlast : ∀ sib, (divOf (ks.map (fun k => k.t.src esc))).last? = some sib → preCode sib = none := by
    intro sib hs
    simp only [Node.last?, divOf] at hs
    obtain ⟨k, hk, rfl⟩ := List.mem_map.1 (List.mem_of_getLast? hs)
    exact preCode_src esc k.t (h k hk).ok
  have hbase : Runs 1 [] [] (divOf (ks.map (fun k => k.t.src esc))) [[]]
      (divOf (ks.map (fun k => k.t.src esc)), []) :=
    ⟨1, Nat.le_refl _, parseBlocks_before 0 [] [] _ hlast⟩
  have hdiv : ({ Node.el "div" with children := (Node.el "div").children ++ ks.map (fun k => k.t.src esc) } : Node) =
      divOf (ks.map (fun k => k.t.src esc)) := by simp [Node.el, divOf]
  have hrun := effectL_kids esc ks h [] [] (Node.el "div") [[]] (divOf (ks.map (fun k => k.t.src esc)), []) 1 rfl
    (by simpa [Node.last?, Node.el] using adjOK_kids esc ks h hadj) (by rw [hdiv]; exact hbase)
  obtain ⟨f, hf, hpf⟩ := hrun
  -- enough fuel
  have hc := sumC_le esc ks h
  have hl := sumLen_le_joinLines (flatLines (allGroups ks))
  rw [sumLen_flatLines] at hl
  have hfuel : f ≤ fuelFor (joinLines (flatLines (allGroups ks)) ++ ['\n', '\n']).length := by
    simp only [fuelFor, List.length_append, List.length_cons, List.length_nil]; omega
  simp only [parseDocument, parseDocumentWith, parseChunk]
  rw [hchunks, hsplit]
  rw [hchunks] at hfuel
  exact parseBlocks_le 4 hfuel _ _ _ _ _ hpf

end docBlock

/-! ### C1. the inline processor on trees of leaves and block quotes -/

mutual
/-- after the inline processor -/
def QT.mid (esc : List Char) : QT → Node
  | .leaf l => l.mid esc
  | .bq ks => bqNode (QT.mids esc ks)
def QT.mids (esc : List Char) : List QT → List Node
  | [] => []
  | t :: r => t.mid esc :: QT.mids esc r
end

/-- after the visit of its parent: a leaf is done, a quote is still to be visited -/
def QT.half (esc : List Char) : QT → Node
  | .leaf l => l.mid esc
  | .bq ks => bqNode (QT.srcs esc ks)

mutual
/-- the number of elements that `run` pops below this one -/
def QT.pops : QT → Nat
  | .leaf _ => 0
  | .bq ks => if ks.isEmpty then 0 else 1 + QT.popsL ks
def QT.popsL : List QT → Nat
  | [] => 0
  | t :: r => t.pops + QT.popsL r
end

mutual
def QT.size : QT → Nat
  | .leaf _ => 1
  | .bq ks => 1 + QT.sizeL ks
def QT.sizeL : List QT → Nat
  | [] => 0
  | t :: r => t.size + QT.sizeL r
end

section inlineTree

theorem mids_eq_map (esc : List Char) (ts : List QT) : QT.mids esc ts = ts.map (QT.mid esc) := by
  induction ts with
  | nil => rfl
  | cons t r ih => simp [QT.mids, ih]

/-! paths -/

theorem getAt_cons' (n : Node) (i : Nat) (p : Path) :
    getAt n (i :: p) = match n.children[i]? with | some c => getAt c p | none => none := rfl

theorem getAt_append' {root : Node} {p r : Path} {c : Node} (h : getAt root p = some c) :
    getAt root (p ++ r) = getAt c r := by
  induction p generalizing root with
  | nil => simp only [getAt, Option.some.injEq] at h; subst h; rfl
  | cons i p ih =>
    simp only [List.cons_append, getAt_cons'] at h ⊢
    split at h
    · exact ih h
    · simp at h

theorem setAt_cons' {root c : Node} {i : Nat} (hc : root.children[i]? = some c) (p : Path) (new : Node) :
    setAt root (i :: p) new = { root with children := root.children.set i (setAt c p new) } := by
  simp only [setAt, hc]

theorem getAt_setAt_self {root cur : Node} {p : Path} (h : getAt root p = some cur) (new : Node) :
    getAt (setAt root p new) p = some new := by
  induction p generalizing root with
  | nil => rfl
  | cons i p ih =>
    rw [getAt_cons'] at h
    split at h
    · rename_i c hc
      rw [setAt_cons' hc, getAt_cons']
      have hlt := (List.getElem?_eq_some_iff.1 hc).1
      simp only [List.getElem?_set_self hlt]
      exact ih h
    · simp at h

theorem setAt_setAt_self {root cur : Node} {p : Path} (h : getAt root p = some cur) (a b : Node) :
    setAt (setAt root p a) p b = setAt root p b := by
  induction p generalizing root with
  | nil => rfl
  | cons i p ih =>
    rw [getAt_cons'] at h
    split at h
    · rename_i c hc
      have hlt := (List.getElem?_eq_some_iff.1 hc).1
      rw [setAt_cons' hc, setAt_cons' hc]
      have hc' : ({ root with children := root.children.set i (setAt c p a) } : Node).children[i]? =
          some (setAt c p a) := by simp [List.getElem?_set_self hlt]
      rw [setAt_cons' hc']
      simp [ih h]
    · simp at h

/-- replacing a child of the element at `p` -/
theorem setAt_child {root X : Node} {p : Path} (h : getAt root p = some X) (i : Nat) (c new : Node)
    (hc : X.children[i]? = some c) :
    setAt root (p ++ [i]) new = setAt root p { X with children := X.children.set i new } := by
  induction p generalizing root with
  | nil =>
    simp only [getAt, Option.some.injEq] at h; subst h
    simp [setAt, hc]
  | cons j p ih =>
    rw [getAt_cons'] at h
    split at h
    · rename_i d hd
      rw [List.cons_append, setAt_cons' hd, setAt_cons' hd, ih h]
    · simp at h

/-! `remap` with an identity position map -/

theorem startsWithPath_spec' (q p : Path) (h : remap.startsWithPath q p = true) : q = p ++ q.drop p.length := by
  induction p generalizing q with
  | nil => simp
  | cons b p ih =>
    cases q with
    | nil => simp [remap.startsWithPath] at h
    | cons a q =>
      simp only [remap.startsWithPath, Bool.and_eq_true, decide_eq_true_eq] at h
      obtain ⟨rfl, h⟩ := h
      simp only [List.cons_append, List.length_cons, List.drop_succ_cons]
      rw [← ih q h]

theorem remap_id' (p : Path) (posmap : List (Nat × Nat)) (hid : ∀ x ∈ posmap, x.1 = x.2) (q : Path) :
    remap p posmap q = q := by
  unfold remap
  split
  · rename_i hs
    have hq := startsWithPath_spec' q p hs
    split
    · rename_i j rest hd
      split
      · rename_i a j' hf
        have hm := List.mem_of_find?_eq_some hf
        have hp := List.find?_some hf
        simp only [decide_eq_true_eq] at hp
        have := hid _ hm
        simp only at this hp
        rw [hq, hd, ← this, hp]
      · rfl
    · rfl
  · rfl

/-! the visit of the children of one element -/

/-- the paths pushed for the quotes among the children, the last one first -/
def pushesQ : List QT → Nat → List Path
  | [], _ => []
  | t :: r, i => pushesQ r (i + 1) ++ (match t with | .bq (_ :: _) => [[i]] | _ => [])

theorem visitChild_bq (cfg : Inline.Cfg) (kids : List Node) (v : Visit) :
    visitChild cfg (bqNode kids) v =
      some (bqNode kids, [], { v with pushes := if kids.isEmpty then v.pushes else [v.done.length] :: v.pushes }) := by
  cases kids <;> simp [visitChild, bqNode, Node.truthy]

theorem visitLoop_qt (cfg : Inline.Cfg) (hE : EscOK cfg.esc) (ts : List QT) (hok : QT.oks ts = true) :
    ∀ (i0 : Nat) (v : Visit) (g : Nat), v.done.length = i0 → (∀ x ∈ v.posmap, x.1 = x.2) →
      ∃ v', visitLoop cfg (g + ts.length + 1) (withIdx (ts.map (QT.src cfg.esc)) i0) v = some v' ∧
        v'.done = (ts.map (QT.half cfg.esc)).reverse ++ v.done ∧
        v'.pushes = pushesQ ts i0 ++ v.pushes ∧ (∀ x ∈ v'.posmap, x.1 = x.2) ∧ v'.st.html = v.st.html := by
  induction ts with
  | nil =>
    intro i0 v g _ hpm
    exact ⟨v, by simp [visitLoop, withIdx], by simp, by simp [pushesQ], hpm, rfl⟩
  | cons t r ih =>
    intro i0 v g hlen hpm
    simp only [QT.oks, Bool.and_eq_true] at hok
    rw [show g + (t :: r).length + 1 = (g + r.length + 1) + 1 by simp; omega]
    cases t with
    | leaf l =>
      have hv := visitChild_leaf cfg hE l (by simpa [QT.ok] using hok.1) v
      obtain ⟨v', h1, h2, h3, h4, h5⟩ := ih hok.2 (i0 + 1)
        { done := l.mid cfg.esc :: v.done, posmap := (i0, v.done.length) :: v.posmap, pushes := v.pushes,
          st := { v.st with stash := v.st.stash ++ l.stash cfg.esc } } g (by simp [hlen])
        (by intro x hx; rcases List.mem_cons.1 hx with rfl | hx
            · exact hlen.symm
            · exact hpm x hx)
      refine ⟨v', ?_, ?_, ?_, h4, ?_⟩
      · simp only [List.map_cons, withIdx, visitLoop, QT.src, hv, List.map_nil, List.nil_append]
        exact h1
      · rw [h2]; simp [QT.half]
      · rw [h3]; simp [pushesQ]
      · rw [h5]
    | bq ks =>
      have hv := visitChild_bq cfg (QT.srcs cfg.esc ks) v
      obtain ⟨v', h1, h2, h3, h4, h5⟩ := ih hok.2 (i0 + 1)
        { done := bqNode (QT.srcs cfg.esc ks) :: v.done, posmap := (i0, v.done.length) :: v.posmap,
          pushes := if (QT.srcs cfg.esc ks).isEmpty then v.pushes else [v.done.length] :: v.pushes,
          st := v.st } g (by simp [hlen])
        (by intro x hx; rcases List.mem_cons.1 hx with rfl | hx
            · exact hlen.symm
            · exact hpm x hx)
      refine ⟨v', ?_, ?_, ?_, h4, ?_⟩
      · simp only [List.map_cons, withIdx, visitLoop, QT.src, hv, List.map_nil, List.nil_append]
        exact h1
      · rw [h2]; simp [QT.half]
      · rw [h3]
        cases ks with
        | nil => simp [pushesQ, QT.srcs]
        | cons a b => simp [pushesQ, QT.srcs, hlen]
      · rw [h5]

theorem halves_length (esc : List Char) (ts : List QT) : (ts.map (QT.half esc)).length = ts.length := by simp

/-- one pop of the stack loop at an element whose children are trees still to be processed -/
theorem pop_step (cfg : Inline.Cfg) (hE : EscOK cfg.esc) (g2 : Nat) (root : Node) (q : Path) (cur : Node)
    (ts : List QT) (hcur : getAt root q = some cur) (hch : cur.children = ts.map (QT.src cfg.esc))
    (hok : QT.oks ts = true) (hg2 : ts.length + 1 ≤ g2) (stack : List Path) (st : St) (g : Nat) :
    ∃ st', st'.html = st.html ∧
      runLoop cfg g2 (g + 1) root (q :: stack) st =
        runLoop cfg g2 g (setAt root q { cur with children := ts.map (QT.half cfg.esc) })
          ((pushesQ ts 0).map (q ++ ·) ++ stack) st' := by
  obtain ⟨v', h1, h2, h3, h4, h5⟩ := visitLoop_qt cfg hE ts hok 0 { st := st } (g2 - ts.length - 1) rfl
    (by intro x hx; cases hx)
  rw [show g2 - ts.length - 1 + ts.length + 1 = g2 by omega] at h1
  refine ⟨v'.st, h5, ?_⟩
  simp only [runLoop, hcur, hch, h1, h2, h3, List.append_nil, List.reverse_reverse]
  have hmap : stack.map (remap q v'.posmap) = stack := by
    rw [show remap q v'.posmap = id from funext (remap_id' q _ h4)]; simp
  rw [hmap]

theorem set_at_length (pre : List Node) (a b : Node) (rest : List Node) :
    (pre ++ a :: rest).set pre.length b = pre ++ b :: rest := by
  induction pre with
  | nil => rfl
  | cons x pre ih => simp [ih]

theorem getElem?_at_length (pre : List Node) (a : Node) (rest : List Node) :
    (pre ++ a :: rest)[pre.length]? = some a := by
  induction pre with
  | nil => rfl
  | cons x pre ih => simp

mutual
theorem length_le_sizeL : (ts : List QT) → ts.length ≤ QT.sizeL ts
  | [] => by simp [QT.sizeL]
  | t :: r => by
    have := length_le_sizeL r
    have h1 : 1 ≤ t.size := by cases t <;> simp [QT.size] <;> omega
    simp only [List.length_cons, QT.sizeL]; omega
end

/-- what the stack loop does with a pushed quote -/
def PopsT (cfg : Inline.Cfg) (g2 : Nat) : QT → Prop
  | .leaf _ => True
  | .bq ks => ks ≠ [] → ∀ (root : Node) (q : Path) (stack : List Path) (st : St) (g : Nat),
      getAt root q = some (QT.src cfg.esc (.bq ks)) →
      ∃ st', st'.html = st.html ∧
        runLoop cfg g2 (g + QT.pops (.bq ks)) root (q :: stack) st =
          runLoop cfg g2 g (setAt root q (QT.mid cfg.esc (.bq ks))) stack st'

mutual
theorem popsT (cfg : Inline.Cfg) (hE : EscOK cfg.esc) (g2 : Nat) :
    (t : QT) → t.ok = true → t.size + 1 ≤ g2 → PopsT cfg g2 t
  | .leaf _, _, _ => trivial
  | .bq ks, hok, hsz => by
    intro hne root q stack st g hcur
    simp only [QT.ok, Bool.and_eq_true] at hok
    simp only [QT.size] at hsz
    have hlen := length_le_sizeL ks
    obtain ⟨st1, hs1, e1⟩ := pop_step cfg hE g2 root q (QT.src cfg.esc (.bq ks)) ks hcur
      (by simp [QT.src, bqNode, srcs_eq_map]) hok.2 (by omega) stack st (g + QT.popsL ks)
    obtain ⟨st2, hs2, e2⟩ := popsL cfg hE g2 ks hok.2 (by omega) [] (QT.src cfg.esc (.bq ks)) root q ⟨_, hcur⟩ stack
      st1 g
    refine ⟨st2, by rw [hs2, hs1], ?_⟩
    have hp : QT.pops (.bq ks) = 1 + QT.popsL ks := by
      cases ks with
      | nil => exact absurd rfl hne
      | cons a b => simp [QT.pops]
    rw [hp, show g + (1 + QT.popsL ks) = (g + QT.popsL ks) + 1 by omega, e1]
    simp only [List.nil_append, List.length_nil] at e2
    rw [e2]
    simp [QT.mid, QT.src, bqNode, mids_eq_map]
theorem popsL (cfg : Inline.Cfg) (hE : EscOK cfg.esc) (g2 : Nat) :
    (ts : List QT) → QT.oks ts = true → QT.sizeL ts + 1 ≤ g2 →
    ∀ (pre : List Node) (Xb root : Node) (p : Path), (∃ X0, getAt root p = some X0) →
    ∀ (stack : List Path) (st : St) (g : Nat),
      ∃ st', st'.html = st.html ∧
        runLoop cfg g2 (g + QT.popsL ts)
            (setAt root p { Xb with children := pre ++ ts.map (QT.half cfg.esc) })
            ((pushesQ ts pre.length).map (p ++ ·) ++ stack) st =
          runLoop cfg g2 g (setAt root p { Xb with children := pre ++ ts.map (QT.mid cfg.esc) }) stack st'
  | [], _, _ => by
    intro pre Xb root p _ stack st g
    exact ⟨st, rfl, by simp [QT.popsL, pushesQ]⟩
  | t :: r, hok, hsz => by
    intro pre Xb root p hvalid stack st g
    obtain ⟨X0, hX0⟩ := hvalid
    simp only [QT.oks, Bool.and_eq_true] at hok
    simp only [QT.sizeL] at hsz
    have hrec := popsL cfg hE g2 r hok.2 (by omega)
    -- the later siblings are on top of the stack
    have hpre : pre ++ (t :: r).map (QT.half cfg.esc) = (pre ++ [QT.half cfg.esc t]) ++ r.map (QT.half cfg.esc) := by
      simp
    have hlen : (pre ++ [QT.half cfg.esc t]).length = pre.length + 1 := by simp
    by_cases hpush : ∃ k ks', t = .bq (k :: ks')
    · obtain ⟨k, ks', rfl⟩ := hpush
      have hT := popsT cfg hE g2 (.bq (k :: ks')) hok.1 (by omega) (by simp)
      obtain ⟨st1, hs1, e1⟩ := hrec (pre ++ [QT.half cfg.esc (.bq (k :: ks'))]) Xb root p ⟨X0, hX0⟩
        ((p ++ [pre.length]) :: stack) st (g + QT.pops (.bq (k :: ks')))
      -- then the quote itself, in the tree where the later siblings are done
      have hvalidA := getAt_setAt_self hX0
        { Xb with children := (pre ++ [QT.half cfg.esc (.bq (k :: ks'))]) ++ r.map (QT.mid cfg.esc) }
      have hcurA : getAt (setAt root p
          { Xb with children := (pre ++ [QT.half cfg.esc (.bq (k :: ks'))]) ++ r.map (QT.mid cfg.esc) })
          (p ++ [pre.length]) = some (QT.src cfg.esc (.bq (k :: ks'))) := by
        rw [getAt_append' hvalidA]
        simp only [List.append_assoc, List.singleton_append, getElem?_at_length, getAt, QT.half, QT.src]
      obtain ⟨st2, hs2, e2⟩ := hT _ (p ++ [pre.length]) stack st1 g hcurA
      refine ⟨st2, by rw [hs2, hs1], ?_⟩
      rw [hpre, show g + QT.popsL (.bq (k :: ks') :: r) = (g + QT.pops (.bq (k :: ks'))) + QT.popsL r by
        simp only [QT.popsL]; omega]
      have hpq : (pushesQ (.bq (k :: ks') :: r) pre.length).map (p ++ ·) ++ stack =
          (pushesQ r (pre ++ [QT.half cfg.esc (.bq (k :: ks'))]).length).map (p ++ ·) ++
            ((p ++ [pre.length]) :: stack) := by
        simp [pushesQ, hlen]
      rw [hpq, e1, e2]
      rw [setAt_child hvalidA pre.length (QT.src cfg.esc (.bq (k :: ks'))) _
        (by simp only [List.append_assoc, List.singleton_append, getElem?_at_length, QT.half, QT.src]),
        setAt_setAt_self hX0]
      simp [List.append_assoc]
    · -- nothing is pushed for `t`, and it is already in its final form
      have hnop : (match t with | .bq (_ :: _) => [[pre.length]] | _ => ([] : List Path)) = [] := by
        cases t with
        | leaf l => rfl
        | bq ks =>
          cases ks with
          | nil => rfl
          | cons k ks' => exact absurd ⟨k, ks', rfl⟩ hpush
      have hpops : QT.pops t = 0 := by
        cases t with
        | leaf l => rfl
        | bq ks =>
          cases ks with
          | nil => simp [QT.pops]
          | cons k ks' => exact absurd ⟨k, ks', rfl⟩ hpush
      have hhm : QT.half cfg.esc t = QT.mid cfg.esc t := by
        cases t with
        | leaf l => rfl
        | bq ks =>
          cases ks with
          | nil => simp [QT.half, QT.mid, QT.srcs, QT.mids]
          | cons k ks' => exact absurd ⟨k, ks', rfl⟩ hpush
      obtain ⟨st1, hs1, e1⟩ := hrec (pre ++ [QT.half cfg.esc t]) Xb root p ⟨X0, hX0⟩ stack st g
      refine ⟨st1, hs1, ?_⟩
      rw [hpre, show QT.popsL (t :: r) = QT.popsL r by simp [QT.popsL, hpops]]
      have hpq : pushesQ (t :: r) pre.length = pushesQ r (pre ++ [QT.half cfg.esc t]).length := by
        simp only [pushesQ, hnop, List.append_nil, hlen]
      rw [hpq, e1, hhm]
      simp [List.append_assoc]
end

mutual
theorem pops_le_size : (t : QT) → t.pops ≤ t.size
  | .leaf _ => by simp [QT.pops]
  | .bq ks => by
    have := popsL_le_sizeL ks
    simp only [QT.pops, QT.size]
    split <;> omega
theorem popsL_le_sizeL : (ts : List QT) → QT.popsL ts ≤ QT.sizeL ts
  | [] => by simp [QT.popsL]
  | t :: r => by
    have h1 := pops_le_size t
    have h2 := popsL_le_sizeL r
    simp only [QT.popsL, QT.sizeL]; omega
end

mutual
theorem qsize_le_size (esc : List Char) : (t : QT) → t.size ≤ Inline.size (t.src esc)
  | .leaf l => by
    have := size_pos (Leaf.src esc l)
    simp only [QT.size, QT.src]; omega
  | .bq ks => by
    have := qsizeL_le_size esc ks
    simp only [QT.size, QT.src, bqNode, Inline.size]
    simp only [Option.getD_none, List.length_nil]; omega
theorem qsizeL_le_size (esc : List Char) : (ts : List QT) → QT.sizeL ts ≤ Inline.sizeList (QT.srcs esc ts)
  | [] => by simp [QT.sizeL]
  | t :: r => by
    have h1 := qsize_le_size esc t
    have h2 := qsizeL_le_size esc r
    simp only [QT.sizeL, QT.srcs, Inline.sizeList]; omega
end

/-- **`InlineProcessor.run`** on a `<div>` of leaves and block quotes nested to any depth: every leaf is processed
    where it sits, the quotes keep their shape, the HTML stash stays as it was -/
theorem run_qt (cfg : Inline.Cfg) (hE : EscOK cfg.esc) (ts : List QT) (hok : QT.oks ts = true) (html : List Str) :
    ∃ st', st'.html = html ∧
      Inline.run cfg (divOf (ts.map (QT.src cfg.esc))) html = some (divOf (ts.map (QT.mid cfg.esc)), st') := by
  have hsz := qsizeL_le_size cfg.esc ts
  rw [srcs_eq_map] at hsz
  have hpops := popsL_le_sizeL ts
  have hfuel : QT.sizeL ts + 3 ≤ runFuel (divOf (ts.map (QT.src cfg.esc))) := by
    simp only [runFuel, divOf, Inline.size]; omega
  obtain ⟨g, hg⟩ : ∃ g, runFuel (divOf (ts.map (QT.src cfg.esc))) = ((g + 1) + QT.popsL ts) + 1 :=
    ⟨runFuel (divOf (ts.map (QT.src cfg.esc))) - QT.popsL ts - 2, by omega⟩
  obtain ⟨st1, hs1, e1⟩ := pop_step cfg hE (runFuel (divOf (ts.map (QT.src cfg.esc))))
    (divOf (ts.map (QT.src cfg.esc))) [] (divOf (ts.map (QT.src cfg.esc))) ts rfl rfl hok
    (by have := length_le_sizeL ts; omega) [] { html := html } ((g + 1) + QT.popsL ts)
  obtain ⟨st2, hs2, e2⟩ := popsL cfg hE (runFuel (divOf (ts.map (QT.src cfg.esc)))) ts hok (by omega) []
    (divOf (ts.map (QT.src cfg.esc))) (divOf (ts.map (QT.src cfg.esc))) [] ⟨_, rfl⟩ [] st1 (g + 1)
  refine ⟨st2, by rw [hs2, hs1], ?_⟩
  have e1' : runLoop cfg (runFuel (divOf (ts.map (QT.src cfg.esc)))) (g + 1 + QT.popsL ts + 1)
      (divOf (ts.map (QT.src cfg.esc))) [[]] { html := html } =
      runLoop cfg (runFuel (divOf (ts.map (QT.src cfg.esc)))) (g + 1 + QT.popsL ts)
        (divOf (ts.map (QT.half cfg.esc))) (pushesQ ts 0) st1 := by
    simpa [setAt, divOf] using e1
  have e2' : runLoop cfg (runFuel (divOf (ts.map (QT.src cfg.esc)))) (g + 1 + QT.popsL ts)
        (divOf (ts.map (QT.half cfg.esc))) (pushesQ ts 0) st1 =
      runLoop cfg (runFuel (divOf (ts.map (QT.src cfg.esc)))) (g + 1) (divOf (ts.map (QT.mid cfg.esc))) [] st2 := by
    simpa [setAt, divOf] using e2
  simp only [Inline.run]
  conv => lhs; arg 3; rw [hg]
  rw [e1', e2']
  simp [runLoop]

end inlineTree

/-! ### C2. prettify, unescape, serializer on these trees -/

/-- the `blockquote` element after `prettify` -/
def bqPretty (kids : List Node) : Node :=
  { tag := .name "blockquote".toList, text := some ['\n'], children := kids, tail := some ['\n'] }

mutual
def QT.pretty (esc : List Char) : QT → Node
  | .leaf l => l.pretty esc
  | .bq ks => bqPretty (QT.pretties esc ks)
def QT.pretties (esc : List Char) : List QT → List Node
  | [] => []
  | t :: r => t.pretty esc :: QT.pretties esc r
end

mutual
def QT.fin : QT → Node
  | .leaf l => l.fin
  | .bq ks => bqPretty (QT.fins ks)
def QT.fins : List QT → List Node
  | [] => []
  | t :: r => t.fin :: QT.fins r
end

mutual
/-- serialised (xhtml), without the line feed after it -/
def QT.out : QT → Str
  | .leaf l => l.out
  | .bq ks => "<blockquote>\n".toList ++ join ['\n'] (QT.outs ks) ++ "\n</blockquote>".toList
def QT.outs : List QT → List Str
  | [] => []
  | t :: r => t.out :: QT.outs r
end

section treeStages

theorem bl_bq : TreeProc.isBlockLevel TreeProc.defaultBlockLevel (.name "blockquote".toList) = true := by decide

theorem mid_blockLevel (esc : List Char) (t : QT) (h : t.ok = true) :
    TreeProc.isBlockLevel TreeProc.defaultBlockLevel (t.mid esc).tag = true := by
  cases t with
  | leaf l =>
    have hf := tagFacts _ (leaf_tag_mem h)
    cases l <;> exact hf.1
  | bq ks => exact bl_bq

mutual
theorem prettifyETree_qt (esc : List Char) : (t : QT) → t.ok = true →
    TreeProc.prettifyETree TreeProc.defaultBlockLevel (t.mid esc) = t.pretty esc
  | .leaf l, h => prettifyETree_leaf esc l h
  | .bq ks, h => by
    simp only [QT.ok, Bool.and_eq_true, Bool.not_eq_true', List.isEmpty_eq_false_iff] at h
    have hk := prettifyKids_qt esc ks h.2
    obtain ⟨k, r, rfl⟩ : ∃ k r, ks = k :: r := by
      cases ks with
      | nil => exact absurd rfl h.1
      | cons k r => exact ⟨k, r, rfl⟩
    have hb := mid_blockLevel esc k (by simp only [QT.oks, Bool.and_eq_true] at h; exact h.2.1)
    have h3 : (Tag.name "blockquote".toList == Tag.name "code".toList) = false := by decide
    have h4 : (Tag.name "blockquote".toList == Tag.name "pre".toList) = false := by decide
    simp only [QT.mids] at hk
    simp only [QT.mid, QT.pretty, bqNode, bqPretty, QT.mids, TreeProc.prettifyETree, bl_bq, h3, h4, hb, hk,
      TreeProc.blankOrNone, Node.truthy, Bool.not_false, Bool.true_or, Bool.and_self, if_true]
theorem prettifyKids_qt (esc : List Char) : (ts : List QT) → QT.oks ts = true →
    TreeProc.prettifyKids TreeProc.defaultBlockLevel (QT.mids esc ts) = QT.pretties esc ts
  | [], _ => rfl
  | t :: r, h => by
    simp only [QT.oks, Bool.and_eq_true] at h
    simp only [QT.mids, QT.pretties, TreeProc.prettifyKids, mid_blockLevel esc t h.1, if_true,
      prettifyETree_qt esc t h.1, prettifyKids_qt esc r h.2]
end

theorem brRule_bq (kids : List Node) : TreeProc.brRule (bqPretty kids) = bqPretty kids := by
  have h1 : TreeProc.tagIs (bqPretty kids) "br" = false := by simp only [TreeProc.tagIs, bqPretty]; decide
  simp [TreeProc.brRule, h1]

theorem preRule_bq (kids : List Node) : TreeProc.preRule (bqPretty kids) = bqPretty kids := by
  have h2 : TreeProc.tagIs (bqPretty kids) "pre" = false := by simp only [TreeProc.tagIs, bqPretty]; decide
  simp [TreeProc.preRule, h2]

theorem mapTree_bq (f : Node → Node) (kids : List Node) :
    TreeProc.mapTree f (bqPretty kids) = f (bqPretty (TreeProc.mapKids f kids)) := rfl

mutual
theorem mapTree_br_qt (esc : List Char) : (t : QT) → t.ok = true →
    TreeProc.mapTree TreeProc.brRule (t.pretty esc) = t.pretty esc
  | .leaf l, h => by
    have hf := tagFacts _ (leaf_tag_mem h)
    cases l with
    | hr => simp [QT.pretty, Leaf.pretty, TreeProc.mapTree, TreeProc.mapKids, TreeProc.brRule, TreeProc.tagIs]
    | txt tag t =>
      simp only [Leaf.tag] at hf
      simp [QT.pretty, Leaf.pretty, TreeProc.mapTree, TreeProc.mapKids, TreeProc.brRule, TreeProc.tagIs, hf.2.2.2.1]
  | .bq ks, h => by
    simp only [QT.ok, Bool.and_eq_true] at h
    rw [QT.pretty, mapTree_bq, mapKids_br_qt esc ks h.2, brRule_bq]
theorem mapKids_br_qt (esc : List Char) : (ts : List QT) → QT.oks ts = true →
    TreeProc.mapKids TreeProc.brRule (QT.pretties esc ts) = QT.pretties esc ts
  | [], _ => rfl
  | t :: r, h => by
    simp only [QT.oks, Bool.and_eq_true] at h
    rw [QT.pretties, TreeProc.mapKids, mapTree_br_qt esc t h.1, mapKids_br_qt esc r h.2]
end

mutual
theorem mapTree_pre_qt (esc : List Char) : (t : QT) → t.ok = true →
    TreeProc.mapTree TreeProc.preRule (t.pretty esc) = t.pretty esc
  | .leaf l, h => by
    have hf := tagFacts _ (leaf_tag_mem h)
    cases l with
    | hr => simp [QT.pretty, Leaf.pretty, TreeProc.mapTree, TreeProc.mapKids, TreeProc.preRule, TreeProc.tagIs]
    | txt tag t =>
      simp only [Leaf.tag] at hf
      simp [QT.pretty, Leaf.pretty, TreeProc.mapTree, TreeProc.mapKids, TreeProc.preRule, TreeProc.tagIs, hf.2.2.1]
  | .bq ks, h => by
    simp only [QT.ok, Bool.and_eq_true] at h
    rw [QT.pretty, mapTree_bq, mapKids_pre_qt esc ks h.2, preRule_bq]
theorem mapKids_pre_qt (esc : List Char) : (ts : List QT) → QT.oks ts = true →
    TreeProc.mapKids TreeProc.preRule (QT.pretties esc ts) = QT.pretties esc ts
  | [], _ => rfl
  | t :: r, h => by
    simp only [QT.oks, Bool.and_eq_true] at h
    rw [QT.pretties, TreeProc.mapKids, mapTree_pre_qt esc t h.1, mapKids_pre_qt esc r h.2]
end

theorem prettify_qt (esc : List Char) (ts : List QT) (hne : ts ≠ []) (hok : QT.oks ts = true) :
    TreeProc.prettify (divOf (QT.mids esc ts)) = prettyDiv (QT.pretties esc ts) := by
  have h1 : TreeProc.isBlockLevel TreeProc.defaultBlockLevel (.name "div".toList) = true := by decide
  have h3 : (Tag.name "div".toList == Tag.name "code".toList) = false := by decide
  have h4 : (Tag.name "div".toList == Tag.name "pre".toList) = false := by decide
  have h7 : (Tag.name "div".toList == Tag.name "br".toList) = false := by decide
  obtain ⟨t, r, rfl⟩ : ∃ t r, ts = t :: r := by
    cases ts with
    | nil => exact absurd rfl hne
    | cons t r => exact ⟨t, r, rfl⟩
  have hb := mid_blockLevel esc t (by simp only [QT.oks, Bool.and_eq_true] at hok; exact hok.1)
  have hk := prettifyKids_qt esc (t :: r) hok
  have hbr := mapKids_br_qt esc (t :: r) hok
  have hpre := mapKids_pre_qt esc (t :: r) hok
  simp only [QT.mids] at hk
  simp only [TreeProc.prettify, divOf, QT.mids, TreeProc.prettifyETree, h1, h3, h4, hb, TreeProc.blankOrNone,
    Node.truthy, Bool.not_false, Bool.true_or, Bool.and_self, if_true, hk, TreeProc.mapTree, hbr, hpre,
    TreeProc.brRule, TreeProc.preRule, TreeProc.tagIs, h7, Bool.false_eq_true, if_false, prettyDiv]

mutual
theorem unescapeTree_qt (esc : List Char) : (t : QT) → t.ok = true →
    TreeProc.unescapeTree (t.pretty esc) = some t.fin
  | .leaf l, h => unescapeTree_leaf esc l h
  | .bq ks, h => by
    simp only [QT.ok, Bool.and_eq_true] at h
    have hnl : TreeProc.unescapeText 0 ['\n'] = some ['\n'] := by decide
    have hk := unescapeKids_qt esc ks h.2
    have h3 : (Tag.name "blockquote".toList == Tag.name "code".toList) = false := by decide
    simp [QT.pretty, QT.fin, bqPretty, TreeProc.unescapeTree, hk, TreeProc.unescAttrs, hnl, Node.truthy]
theorem unescapeKids_qt (esc : List Char) : (ts : List QT) → QT.oks ts = true →
    TreeProc.unescapeKids (QT.pretties esc ts) = some (QT.fins ts)
  | [], _ => rfl
  | t :: r, h => by
    simp only [QT.oks, Bool.and_eq_true] at h
    simp only [QT.pretties, QT.fins, TreeProc.unescapeKids, unescapeTree_qt esc t h.1, unescapeKids_qt esc r h.2]
end

theorem unescapeTree_div_qt (esc : List Char) (ts : List QT) (hok : QT.oks ts = true) :
    TreeProc.unescapeTree (prettyDiv (QT.pretties esc ts)) = some (prettyDiv (QT.fins ts)) := by
  have hnl : TreeProc.unescapeText 0 ['\n'] = some ['\n'] := by decide
  simp [prettyDiv, TreeProc.unescapeTree, unescapeKids_qt esc ts hok, TreeProc.unescAttrs, hnl, Node.truthy]

theorem flatMap_nl (L : List Str) (hne : L ≠ []) : L.flatMap (· ++ ['\n']) = join ['\n'] L ++ ['\n'] := by
  induction L with
  | nil => exact absurd rfl hne
  | cons a r ih =>
    cases r with
    | nil => simp [join]
    | cons b r' =>
      have := ih (by simp)
      simp only [List.flatMap_cons] at this ⊢
      rw [this]
      simp [join, List.append_assoc]

theorem outs_ne_nil (ts : List QT) (h : ts ≠ []) : QT.outs ts ≠ [] := by
  cases ts with
  | nil => exact absurd rfl h
  | cons t r => rw [show QT.outs (t :: r) = t.out :: QT.outs r from rfl]; simp

theorem out_bq (ks : List QT) :
    (QT.bq ks).out = "<blockquote>\n".toList ++ join ['\n'] (QT.outs ks) ++ "\n</blockquote>".toList := rfl
theorem out_leaf (l : Leaf) : (QT.leaf l).out = l.out := rfl
theorem fin_bq (ks : List QT) : (QT.bq ks).fin = bqPretty (QT.fins ks) := rfl
theorem outs_cons (t : QT) (r : List QT) : QT.outs (t :: r) = t.out :: QT.outs r := rfl
theorem fins_cons (t : QT) (r : List QT) : QT.fins (t :: r) = t.fin :: QT.fins r := rfl

mutual
theorem serialize_qt : (t : QT) → t.ok = true → Ser.serialize .xhtml t.fin = t.out ++ ['\n']
  | .leaf l, h => serialize_leaf l h
  | .bq ks, h => by
    simp only [QT.ok, Bool.and_eq_true, Bool.not_eq_true', List.isEmpty_eq_false_iff] at h
    have hk := serializeList_qt ks h.2
    rw [flatMap_nl _ (outs_ne_nil ks h.1)] at hk
    have h1 : Ser.isEmptyTag "blockquote".toList = false := by decide
    have h3 : Ser.isRawTextTag "blockquote".toList = false := by decide
    have h5 : Ser.escCdata ['\n'] = ['\n'] := by decide
    rw [fin_bq, out_bq]
    simp only [bqPretty, Ser.serialize, Ser.element, Ser.sortAttrs, List.foldr_nil, Ser.writeAttrs,
      h1, h3, h5, Node.truthy, Option.getD_some, Bool.false_eq_true, if_false, if_true, List.append_nil, hk,
      Bool.and_false]
    simp [List.append_assoc]
theorem serializeList_qt : (ts : List QT) → QT.oks ts = true →
    Ser.serializeList .xhtml (QT.fins ts) = (QT.outs ts).flatMap (· ++ ['\n'])
  | [], _ => rfl
  | t :: r, h => by
    simp only [QT.oks, Bool.and_eq_true] at h
    rw [fins_cons, outs_cons]
    simp only [Ser.serializeList, serialize_qt t h.1, serializeList_qt r h.2, List.flatMap_cons]
end

theorem serialize_div_qt (ts : List QT) (hne : ts ≠ []) (hok : QT.oks ts = true) :
    Ser.serialize .xhtml (prettyDiv (QT.fins ts)) =
      "<div>".toList ++ ('\n' :: join ['\n'] (QT.outs ts) ++ ['\n']) ++ "</div>\n".toList := by
  have h1 : Ser.isEmptyTag "div".toList = false := by decide
  have h3 : Ser.isRawTextTag "div".toList = false := by decide
  have h5 : Ser.escCdata ['\n'] = ['\n'] := by decide
  have hk := serializeList_qt ts hok
  rw [flatMap_nl _ (outs_ne_nil ts hne)] at hk
  simp only [prettyDiv, Ser.serialize, Ser.element, Ser.sortAttrs, List.foldr_nil, Ser.writeAttrs, h1, h3, h5,
    Node.truthy, Option.getD_some, Bool.false_eq_true, if_false, if_true, List.append_nil, hk, Bool.and_false]
  simp [List.append_assoc]

/-- facts about the output of a list of trees joined by line feeds -/
theorem join_facts (L : List Str) (hne : L ≠ [])
    (h : ∀ o ∈ L, Post.STX ∉ o ∧ o.head? = some '<' ∧ o.getLast? = some '>') :
    Post.STX ∉ join ['\n'] L ∧ (join ['\n'] L).head? = some '<' ∧ (join ['\n'] L).getLast? = some '>' := by
  induction L with
  | nil => exact absurd rfl hne
  | cons a r ih =>
    have ha := h a List.mem_cons_self
    cases r with
    | nil => simpa [join] using ha
    | cons b r' =>
      have ih' := ih (by simp) (fun o ho => h o (List.mem_cons_of_mem _ ho))
      refine ⟨?_, ?_, ?_⟩
      · intro hm
        simp only [join, List.mem_append, List.mem_singleton] at hm
        rcases hm with (hm | hm) | hm
        · exact ha.1 hm
        · exact absurd hm (by decide)
        · exact ih'.1 hm
      · simp only [join, List.append_assoc]
        cases hx : a with
        | nil => rw [hx] at ha; simp at ha
        | cons x y => rw [hx] at ha; simpa using ha.2.1
      · simp only [join]
        rw [List.getLast?_append, ih'.2.2]; rfl

mutual
theorem out_facts_qt : (t : QT) → t.ok = true →
    Post.STX ∉ t.out ∧ t.out.head? = some '<' ∧ t.out.getLast? = some '>'
  | .leaf l, h => out_facts l h
  | .bq ks, h => by
    simp only [QT.ok, Bool.and_eq_true, Bool.not_eq_true', List.isEmpty_eq_false_iff] at h
    have hk := join_facts (QT.outs ks) (outs_ne_nil ks h.1) (outs_facts_qt ks h.2)
    refine ⟨?_, rfl, ?_⟩
    · intro hm
      rw [out_bq] at hm
      simp only [List.mem_append] at hm
      rcases hm with (hm | hm) | hm
      · exact absurd hm (by decide)
      · exact hk.1 hm
      · exact absurd hm (by decide)
    · rw [out_bq, List.getLast?_append]; rfl
theorem outs_facts_qt : (ts : List QT) → QT.oks ts = true →
    ∀ o ∈ QT.outs ts, Post.STX ∉ o ∧ o.head? = some '<' ∧ o.getLast? = some '>'
  | [], _ => by intro o ho; cases ho
  | t :: r, h => by
    simp only [QT.oks, Bool.and_eq_true] at h
    intro o ho
    rw [outs_cons] at ho
    simp only [List.mem_cons] at ho
    rcases ho with rfl | ho
    · exact out_facts_qt t h.1
    · exact outs_facts_qt r h.2 o ho
end

/-- **the stages after the block parser** on a `<div>` of leaves and block quotes nested to any depth -/
theorem render_qt (cfg : Pipeline.Cfg) (hE : EscOK cfg.esc) (hbl : cfg.blockLevel = TreeProc.defaultBlockLevel)
    (hfmt : cfg.fmt = .xhtml) (refs : List (Str × Str × Option Str)) (ts : List QT) (hne : ts ≠ [])
    (hok : QT.oks ts = true) :
    Probe.render cfg refs (divOf (ts.map (QT.src cfg.esc))) = .ok (join ['\n'] (QT.outs ts)) := by
  obtain ⟨st', hst, h1⟩ := run_qt { esc := cfg.esc, refs := refs } hE ts hok []
  have h2 := prettify_qt cfg.esc ts hne hok
  have h3 := unescapeTree_div_qt cfg.esc ts hok
  have h4 := serialize_div_qt ts hne hok
  obtain ⟨j1, j2, j3⟩ := join_facts (QT.outs ts) (outs_ne_nil ts hne) (outs_facts_qt ts hok)
  have h5 := finish_wrapped cfg.blockLevel (join ['\n'] (QT.outs ts)) j1
    (fun c hc => by rw [j2] at hc; cases hc; decide) (fun c hc => by rw [j3] at hc; cases hc; decide)
  rw [← mids_eq_map] at h1
  simp only [Probe.render, h1, hbl, h2, h3, hfmt, h4, hst]
  rw [hbl] at h5
  simp only [h5]

end treeStages

/-! ### D. the shape of `print` on documents with quotes; the composition -/

section printingQ
open DocSpec Block

theorem printBlock_quote (top : Bool) (bs : List DocSpec.Block) (st : PSt) : printBlock top (.quote bs) st =
    ((if top then prefixLines (rep ((draw st).1 % 4) ' ')
        (printQuoted ((draw (draw st).2).1 % 2 = 1) bs (draw (draw st).2).2).1
      else (printQuoted ((draw (draw st).2).1 % 2 = 1) bs (draw (draw st).2).2).1),
     (printQuoted ((draw (draw st).2).1 % 2 = 1) bs (draw (draw st).2).2).2) := rfl
theorem printQuoted_one (blank : Bool) (b : DocSpec.Block) (st : PSt) :
    printQuoted blank [b] st = (quoteLines (printBlock false b st).1, (printBlock false b st).2) := rfl
theorem printQuoted_cons2 (blank : Bool) (b b' : DocSpec.Block) (r : List DocSpec.Block) (st : PSt) :
    printQuoted blank (b :: b' :: r) st =
      (quoteLines (printBlock false b st).1 ++ [if blank then [] else ['>']] ++
        (printQuoted blank (b' :: r) (printBlock false b st).2).1,
       (printQuoted blank (b' :: r) (printBlock false b st).2).2) := rfl
theorem specBlock_quote (bs : List DocSpec.Block) :
    specBlock (.quote bs) = S "<blockquote>\n" ++ specBlocks bs ++ S "\n</blockquote>" := rfl
theorem printBlock_para' (top : Bool) (c : List Inline) (st : PSt) : printBlock top (.para c) st =
    (indentTop top (draw st).1 (printContent c (draw st).2).1, (printContent c (draw st).2).2) := rfl
theorem printBlock_atx' (top : Bool) (l : Nat) (c : List Inline) (st : PSt) : printBlock top (.atx l c) st =
    ([atxLine l (printContent c (draw st).2).1 (draw st).1], (printContent c (draw st).2).2) := rfl
theorem printBlock_setext' (top : Bool) (l : Nat) (c : List Inline) (st : PSt) : printBlock top (.setext l c) st =
    (indentTop top (draw st).1 (printContent c (draw (draw st).2).2).1 ++
      [setextUnderline l (draw (draw st).2).1], (printContent c (draw (draw st).2).2).2) := rfl
theorem printBlock_rule' (top : Bool) (st : PSt) : printBlock top .rule st =
    ([ruleLine top (draw st).1 (draw (draw st).2).1 (draw (draw (draw st).2).2).1
        (draw (draw (draw (draw st).2).2).2).1 (draw (draw (draw (draw (draw st).2).2).2).2).1],
      (draw (draw (draw (draw (draw st).2).2).2).2).2) := rfl

theorem quoteLines_eq (ls : List Str) : quoteLines ls = ls.map (qline 0) := by
  simp [quoteLines, qline, spaces]

theorem prefix_qlines (j : Nat) (L : List Str) :
    prefixLines (rep j ' ') (L.map (qline 0)) = L.map (qline j) := by
  simp only [prefixLines, List.map_map]
  apply List.map_congr_left
  intro l _
  have hne : (qline 0 l).isEmpty = false := by
    unfold qline; split <;> simp [spaces]
  simp only [Function.comp, hne, Bool.false_eq_true, if_false]
  simp [qline, spaces, rep]

theorem flatLines_cons2 (g g' : List Str) (r : List (List Str)) :
    flatLines (g :: g' :: r) = g ++ [[]] ++ flatLines (g' :: r) := rfl

theorem flatLines_append (a b : List (List Str)) (ha : a ≠ []) (hb : b ≠ []) :
    flatLines (a ++ b) = flatLines a ++ [[]] ++ flatLines b := by
  induction a with
  | nil => exact absurd rfl ha
  | cons g r ih =>
    cases r with
    | nil =>
      cases b with
      | nil => exact absurd rfl hb
      | cons g' r' => rfl
    | cons g' r' =>
      have := ih (by simp)
      simp only [List.cons_append] at this ⊢
      rw [flatLines_cons2, this, flatLines_cons2]
      simp [List.append_assoc]

theorem prefix_flat_loose (j : Nat) (ks : List Kid) :
    prefixLines (rep j ' ') (flatLines (looseGroups 0 ks)) = flatLines (looseGroups j ks) := by
  induction ks with
  | nil => rfl
  | cons k r ih =>
    cases r with
    | nil =>
      simp only [looseGroups, List.map_cons, List.map_nil, flatLines]
      exact prefix_qlines j _
    | cons k' r' =>
      simp only [looseGroups, List.map_cons] at ih ⊢
      rw [flatLines_cons2, flatLines_cons2]
      have h1 := prefix_qlines j (flatLines k.gs)
      simp only [prefixLines, List.map_append, List.map_cons, List.map_nil] at h1 ih ⊢
      rw [h1, ih]
      simp

/-- the looseness of the children and the trees they become -/
def kidsMatch (ks : List Kid) (bs : List DocSpec.Block) : Prop :=
  (ks.map (fun k => k.t.out)) = bs.map specBlock ∧ (ks.map (fun k => k.t.isBq)) = bs.map isQuote

theorem noAdjBq_of_okNexts (ks : List Kid) (bs : List DocSpec.Block)
    (hm : (ks.map (fun k => k.t.isBq)) = bs.map isQuote) (h : okNexts bs = true) :
    noAdjBq (ks.map (·.t)) = true := by
  induction ks generalizing bs with
  | nil => rfl
  | cons k r ih =>
    cases bs with
    | nil => simp at hm
    | cons b bs' =>
      simp only [List.map_cons, List.cons.injEq] at hm
      cases r with
      | nil => rfl
      | cons k' r' =>
        cases bs' with
        | nil => simp at hm
        | cons b' bs'' =>
          have hm2 := hm.2
          simp only [List.map_cons, List.cons.injEq] at hm2
          simp only [okNexts, Bool.and_eq_true] at h
          have hn : (isQuote b && isQuote b') = false := by
            have := h.1
            simp only [okNext, Bool.and_eq_true, Bool.not_eq_true'] at this
            exact this.2
          simp only [List.map_cons, noAdjBq, Bool.and_eq_true, Bool.not_eq_true']
          refine ⟨by rw [hm.1, hm2.1]; exact hn, ?_⟩
          have := ih (b' :: bs'') (by simpa using hm.2) h.2
          simpa using this

theorem specBlocks_eq_join (bs : List DocSpec.Block) : specBlocks bs = join ['\n'] (bs.map specBlock) := by
  induction bs with
  | nil => rfl
  | cons b r ih =>
    cases r with
    | nil => rw [specBlocks_one]; rfl
    | cons b' r' =>
      rw [specBlocks_cons2, ih]
      simp [S]

theorem outs_eq_map (ts : List QT) : QT.outs ts = ts.map QT.out := by
  induction ts with
  | nil => rfl
  | cons t r ih => rw [outs_cons, ih]; rfl

theorem indentTop_single (top : Bool) (i : Nat) (e : Str) :
    indentTop top i [e] = [spaces (if top then i % 4 else 0) ++ e] := by
  cases top <;> simp [indentTop, indentFirst, rep, spaces]

theorem ruleLine_top (top : Bool) (i ch n g t : Nat) :
    ruleLine top i ch n g t = ruleLine true (if top then i else 0) ch n g t := by
  cases top <;> simp [ruleLine]

theorem wfBlock_quote (bs : List DocSpec.Block) :
    wfBlock none (.quote bs) = (!bs.isEmpty && okNexts bs && wfBlockList none bs) := rfl
theorem wfBlockList_cons (mode : Option Bool) (b : DocSpec.Block) (r : List DocSpec.Block) :
    wfBlockList mode (b :: r) = (wfBlock mode b && wfBlockList mode r) := rfl
theorem isQuoteBlock_quote (bs : List DocSpec.Block) : isQuoteBlock (.quote bs) = isQuoteBlocks bs := rfl
theorem isQuoteBlocks_cons (b : DocSpec.Block) (r : List DocSpec.Block) :
    isQuoteBlocks (b :: r) = (isQuoteBlock b && isQuoteBlocks r) := rfl

theorem flat_of_quoteBlock {b : DocSpec.Block} (h : isQuoteBlock b = true) (hq : isQuote b = false) :
    isFlatBlock b = true := by
  cases b <;> simp_all [isQuoteBlock, isFlatBlock, isQuote]

/-- a flat block printed at the top level or inside a quote -/
theorem printBlock_leaf (b : DocSpec.Block) (top : Bool) (st : PSt) (hf : isFlatBlock b = true)
    (hw : wfBlock none b = true) :
    ∃ (k : Kid) (st' : PSt), printBlock top b st = (flatLines k.gs, st') ∧ st'.defs = st.defs ∧
      KidOK Generated.escapedChars k ∧ k.t.out = specBlock b ∧ k.t.isBq = isQuote b := by
  have hE := escOK_generated
  cases b with
  | rule =>
    refine ⟨⟨[[ruleLine true (if top then (draw st).1 else 0) (draw (draw st).2).1 (draw (draw (draw st).2).2).1
        (draw (draw (draw (draw st).2).2).2).1 (draw (draw (draw (draw (draw st).2).2).2).2).1]], .leaf .hr, 1⟩,
      (draw (draw (draw (draw (draw st).2).2).2).2).2, ?_, by simp [draw_defs], kidOK_rule _ _ _ _ _ _, rfl, rfl⟩
    rw [printBlock_rule', ruleLine_top]; rfl
  | para c =>
    simp only [isFlatBlock] at hf
    simp only [wfBlock] at hw
    have hlt := lineText_plainOf c true hf hw
    refine ⟨⟨[[spaces (if top then (draw st).1 % 4 else 0) ++ escAll Generated.escapedChars (plainOf c)]],
        .leaf (.txt "p".toList (plainOf c)), 1⟩,
      (draw st).2, ?_, draw_defs st, kidOK_para hE _ (by split <;> omega) _ hlt, ?_, rfl⟩
    · rw [printBlock_para', printContent_plain c true hf hw, indentTop_single]; rfl
    · rw [specBlock_para, specContent c true hf hw, out_leaf]
      simp [Leaf.out, S]
  | atx l c =>
    simp only [isFlatBlock] at hf
    simp only [wfBlock, Bool.and_eq_true, decide_eq_true_eq] at hw
    have hlt := lineText_plainOf c false hf hw.2
    have hY : atxClosing (draw st).1 l = [] ∨ ∃ m, atxClosing (draw st).1 l = ' ' :: List.replicate m '#' := by
      unfold atxClosing
      split
      · exact Or.inl rfl
      · split
        · exact Or.inr ⟨1, rfl⟩
        · exact Or.inr ⟨l, rfl⟩
    refine ⟨⟨[[List.replicate l '#' ++ ' ' :: (escAll Generated.escapedChars (plainOf c) ++ atxClosing (draw st).1 l)]],
        .leaf (.txt ('h' :: natToDec l) (plainOf c)), 1⟩,
      (draw st).2, ?_, draw_defs st, kidOK_atx hE _ hlt l hw.1.1 hw.1.2 _ hY, ?_, rfl⟩
    · rw [printBlock_atx', printContent_plain c false hf hw.2]
      simp [atxLine, join, rep, flatLines, List.append_assoc]
    · rw [specBlock_atx, specContent c false hf hw.2, out_leaf]
      simp [Leaf.out, S, List.append_assoc]
  | setext l c =>
    simp only [isFlatBlock] at hf
    simp only [wfBlock, Bool.and_eq_true, Bool.or_eq_true, decide_eq_true_eq] at hw
    have hlt := lineText_plainOf c false hf hw.2
    refine ⟨⟨[[spaces (if top then (draw st).1 % 4 else 0) ++ escAll Generated.escapedChars (plainOf c),
          List.replicate ((draw (draw st).2).1 % 8 + 1) (if l = 1 then '=' else '-')]],
        .leaf (.txt ('h' :: natToDec l) (plainOf c)), 1⟩,
      (draw (draw st).2).2, ?_, by simp [draw_defs],
      kidOK_setext hE _ (by split <;> omega) _ hlt l _ hw.1, ?_, rfl⟩
    · rw [printBlock_setext', printContent_plain c false hf hw.2, indentTop_single]; rfl
    · rw [specBlock_setext, specContent c false hf hw.2, out_leaf]
      simp [Leaf.out, S, List.append_assoc]
  | code _ => simp [isFlatBlock] at hf
  | quote _ => simp [isFlatBlock] at hf
  | ulist _ _ => simp [isFlatBlock] at hf
  | olist _ _ => simp [isFlatBlock] at hf

theorem kidsMatch_cons {k : Kid} {ks : List Kid} {b : DocSpec.Block} {bs : List DocSpec.Block}
    (h1 : k.t.out = specBlock b) (h2 : k.t.isBq = isQuote b) (h : kidsMatch ks bs) :
    kidsMatch (k :: ks) (b :: bs) := by
  exact ⟨by simp [h1, h.1], by simp [h2, h.2]⟩

theorem looseGroups_ne (i : Nat) (ks : List Kid) (h : ks ≠ []) : looseGroups i ks ≠ [] := by
  simpa [looseGroups] using h

mutual
/-- every printed form of a block of the sub-grammar is a `Kid`: groups of good lines whose chunks build the tree
    that `spec` prescribes -/
theorem printBlock_q : (b : DocSpec.Block) → (top : Bool) → (st : PSt) → isQuoteBlock b = true →
    wfBlock none b = true →
    ∃ (k : Kid) (st' : PSt), printBlock top b st = (flatLines k.gs, st') ∧ st'.defs = st.defs ∧
      KidOK Generated.escapedChars k ∧ k.t.out = specBlock b ∧ k.t.isBq = isQuote b
  | .quote bs, top, st, hq, hw => by
    rw [isQuoteBlock_quote] at hq
    rw [wfBlock_quote] at hw
    simp only [Bool.and_eq_true, Bool.not_eq_true', List.isEmpty_eq_false_iff] at hw
    obtain ⟨⟨hne, hnext⟩, hwl⟩ := hw
    obtain ⟨ks, st', hp, hd, hksne, hoks, hmatch⟩ :=
      printQuoted_q bs (decide ((draw (draw st).2).1 % 2 = 1)) (draw (draw st).2).2 hne hq hwl
    have hadj := noAdjBq_of_okNexts ks bs hmatch.2 hnext
    have hdefs : st'.defs = st.defs := by rw [hd, draw_defs, draw_defs]
    have hspec : (QT.bq (ks.map (·.t))).out = specBlock (.quote bs) := by
      rw [out_bq, specBlock_quote, outs_eq_map, List.map_map, specBlocks_eq_join, ← hmatch.1]; rfl
    -- the indentation of every line
    have hj : (if top then (draw st).1 % 4 else 0) ≤ 3 := by split <;> omega
    by_cases hblank : (draw (draw st).2).1 % 2 = 1
    · refine ⟨⟨looseGroups (if top then (draw st).1 % 4 else 0) ks, .bq (ks.map (·.t)), looseC ks⟩, st', ?_, hdefs,
        kidOK_quote_loose _ _ hj ks hksne hoks hadj, hspec, rfl⟩
      rw [printBlock_quote, hp]
      simp only [hblank, decide_true, if_true]
      cases top with
      | true => simp only [if_true]; rw [prefix_flat_loose]
      | false => simp
    · refine ⟨⟨[(flatLines (allGroups ks)).map (qline (if top then (draw st).1 % 4 else 0))], .bq (ks.map (·.t)),
          sumC ks + 2⟩, st', ?_, hdefs, kidOK_quote_tight _ _ hj ks hksne hoks hadj, hspec, rfl⟩
      rw [printBlock_quote, hp]
      simp only [hblank, decide_false, Bool.false_eq_true, if_false]
      cases top with
      | true => simp only [if_true]; rw [prefix_qlines]; rfl
      | false => simp [flatLines]
  | .rule, top, st, _, hw => printBlock_leaf .rule top st rfl hw
  | .para c, top, st, hq, hw => printBlock_leaf (.para c) top st hq hw
  | .atx l c, top, st, hq, hw => printBlock_leaf (.atx l c) top st hq hw
  | .setext l c, top, st, hq, hw => printBlock_leaf (.setext l c) top st hq hw
  | .code _, _, _, hq, _ => by simp [isQuoteBlock] at hq
  | .ulist _ _, _, _, hq, _ => by simp [isQuoteBlock] at hq
  | .olist _ _, _, _, hq, _ => by simp [isQuoteBlock] at hq
/-- the blocks of a quote -/
theorem printQuoted_q : (bs : List DocSpec.Block) → (blank : Bool) → (st : PSt) → bs ≠ [] →
    isQuoteBlocks bs = true → wfBlockList none bs = true →
    ∃ (ks : List Kid) (st' : PSt),
      printQuoted blank bs st =
        ((if blank then flatLines (looseGroups 0 ks) else (flatLines (allGroups ks)).map (qline 0)), st') ∧
      st'.defs = st.defs ∧ ks ≠ [] ∧ (∀ k ∈ ks, KidOK Generated.escapedChars k) ∧ kidsMatch ks bs
  | [], _, _, hne, _, _ => absurd rfl hne
  | [b], blank, st, _, hq, hw => by
    rw [isQuoteBlocks_cons] at hq
    rw [wfBlockList_cons] at hw
    simp only [Bool.and_eq_true] at hq hw
    obtain ⟨k, st', hp, hd, hok, hspec, hbq⟩ := printBlock_q b false st hq.1 hw.1
    refine ⟨[k], st', ?_, hd, by simp, ?_, kidsMatch_cons hspec hbq ⟨rfl, rfl⟩⟩
    · rw [printQuoted_one, hp, quoteLines_eq]
      cases blank <;> simp [looseGroups, allGroups, flatLines]
    · intro x hx
      have : x = k := by simpa using hx
      subst this; exact hok
  | b :: b' :: r, blank, st, _, hq, hw => by
    rw [isQuoteBlocks_cons] at hq
    rw [wfBlockList_cons] at hw
    simp only [Bool.and_eq_true] at hq hw
    obtain ⟨k, st1, hp, hd1, hok, hspec, hbq⟩ := printBlock_q b false st hq.1 hw.1
    obtain ⟨ks, st2, hps, hd2, hksne, hoks, hmatch⟩ := printQuoted_q (b' :: r) blank st1 (by simp) hq.2 hw.2
    refine ⟨k :: ks, st2, ?_, by rw [hd2, hd1], by simp, ?_, kidsMatch_cons hspec hbq hmatch⟩
    · rw [printQuoted_cons2, hp]
      simp only [hps, quoteLines_eq]
      cases blank with
      | true =>
        simp only [if_true]
        obtain ⟨k', r', rfl⟩ : ∃ k' r', ks = k' :: r' := by
          cases ks with
          | nil => exact absurd rfl hksne
          | cons k' r' => exact ⟨k', r', rfl⟩
        simp only [looseGroups, List.map_cons]
        rw [flatLines_cons2]
      | false =>
        simp only [Bool.false_eq_true, if_false]
        rw [allGroups_cons, flatLines_append _ _ hok.ne (allGroups_ne _ ks hksne hoks)]
        simp [qline, spaces]
    · intro x hx
      rcases List.mem_cons.1 hx with rfl | hx
      · exact hok
      · exact hoks x hx
end

/-- the blocks of the document -/
theorem printBlocks_q (d : Doc) (hne : d ≠ []) (hq : isQuoteBlocks d = true) (hw : wfBlockList none d = true) :
    ∀ st : PSt, ∃ (ks : List Kid) (st' : PSt), printBlocks true d st = (flatLines (allGroups ks), st') ∧
      st'.defs = st.defs ∧ ks ≠ [] ∧ (∀ k ∈ ks, KidOK Generated.escapedChars k) ∧ kidsMatch ks d := by
  induction d with
  | nil => exact absurd rfl hne
  | cons b r ih =>
    intro st
    rw [isQuoteBlocks_cons] at hq
    rw [wfBlockList_cons] at hw
    simp only [Bool.and_eq_true] at hq hw
    obtain ⟨k, st1, hp, hd1, hok, hspec, hbq⟩ := printBlock_q b true st hq.1 hw.1
    cases r with
    | nil =>
      refine ⟨[k], st1, ?_, hd1, by simp, ?_, kidsMatch_cons hspec hbq ⟨rfl, rfl⟩⟩
      · rw [printBlocks_one, hp]; simp [allGroups]
      · intro x hx
        have : x = k := by simpa using hx
        subst this; exact hok
    | cons b' r' =>
      obtain ⟨ks, st2, hps, hd2, hksne, hoks, hmatch⟩ := ih (by simp) hq.2 hw.2 st1
      refine ⟨k :: ks, st2, ?_, by rw [hd2, hd1], by simp, ?_, kidsMatch_cons hspec hbq hmatch⟩
      · rw [printBlocks_cons2, hp]
        simp only [hps]
        rw [allGroups_cons, flatLines_append _ _ hok.ne (allGroups_ne _ ks hksne hoks)]
      · intro x hx
        rcases List.mem_cons.1 hx with rfl | hx
        · exact hok
        · exact hoks x hx

theorem mem_joinLines_of_mem {c : Char} {l : Str} {ls : List Str} (hc : c ∈ l) (hl : l ∈ ls) :
    c ∈ joinLines ls := by
  induction ls with
  | nil => cases hl
  | cons a r ih =>
    cases r with
    | nil =>
      have : l = a := by simpa using hl
      subst this; simpa [joinLines_single] using hc
    | cons b r' =>
      rw [joinLines_cons_cons]
      rcases List.mem_cons.1 hl with rfl | hl'
      · exact List.mem_append_left _ hc
      · exact List.mem_append_right _ (List.mem_cons_of_mem _ (ih hl'))

/-- lines of the whole document -/
theorem docLines_facts (ks : List Kid) (h : ∀ k ∈ ks, KidOK Generated.escapedChars k) :
    ∀ l ∈ flatLines (allGroups ks), lineSafe l = true ∧ '<' ∉ l ∧ '&' ∉ l := by
  intro l hl
  rcases flatLines_lines _ (allGroups_good _ ks h) l hl with rfl | hg
  · exact ⟨by decide, by simp, by simp⟩
  · exact ⟨hg.2.1, hg.2.2.1, hg.2.2.2.1⟩

/-- **C01 on documents with block quotes nested to any depth** -/
theorem convert_quote (d : Doc) (sp : Spelling) (hwf : WF d = true) (hq : QuoteDoc d = true) :
    Pipeline.convert {} (print d sp) = .ok (spec d) := by
  have hE := escOK_generated
  simp only [WF, Bool.and_eq_true, Bool.not_eq_true', List.isEmpty_eq_false_iff] at hwf
  obtain ⟨⟨⟨hne, hnext⟩, hbl⟩, _⟩ := hwf
  obtain ⟨ks, st', hps, hdefs, hksne, hoks, hmatch⟩ := printBlocks_q d hne hq hbl ⟨sp.choices, 1, []⟩
  have hadj := noAdjBq_of_okNexts ks d hmatch.2 hnext
  have hprint : print d sp = joinLines (flatLines (allGroups ks)) := by
    simp only [print, hps]
    have : st'.defs = [] := hdefs
    simp [this, joinLines]
  rw [hprint]
  generalize hsrc : joinLines (flatLines (allGroups ks)) = src
  have hlines := docLines_facts ks hoks
  have hfl : flatLines (allGroups ks) ≠ [] :=
    flatLines_ne_nil _ (allGroups_ne _ ks hksne hoks) (fun g hg => (allGroups_good _ ks hoks g hg).1)
  have hchar : ∀ c ∈ src, c ≠ '<' ∧ c ≠ '&' := by
    intro c hc
    rw [← hsrc] at hc
    rcases mem_joinLines hc with rfl | ⟨l, hl, hcl⟩
    · exact ⟨by decide, by decide⟩
    · exact ⟨fun e => (hlines l hl).2.1 (e ▸ hcl), fun e => (hlines l hl).2.2 (e ▸ hcl)⟩
  have h1 : src.contains '<' = false := by
    cases hc : src.contains '<' with
    | false => rfl
    | true => exact absurd rfl (hchar _ (List.contains_iff_mem.1 hc)).1
  have h2 : Normalize.isBlankDoc src = false := by
    rw [Normalize.isBlankDoc_eq_all]
    -- the first line of the first group has a visible character
    obtain ⟨l, hl, c, hc, hcs⟩ : ∃ l ∈ flatLines (allGroups ks), ∃ c ∈ l, isSpace c = false := by
      obtain ⟨k, r, rfl⟩ : ∃ k r, ks = k :: r := by
        cases ks with
        | nil => exact absurd rfl hksne
        | cons k r => exact ⟨k, r, rfl⟩
      have hk := hoks k List.mem_cons_self
      obtain ⟨g, gs, hg⟩ : ∃ g gs, allGroups (k :: r) = g :: gs := by
        cases hx : allGroups (k :: r) with
        | nil => exact absurd hx (allGroups_ne _ _ (by simp) hoks)
        | cons g gs => exact ⟨g, gs, rfl⟩
      have hgg := allGroups_good _ (k :: r) hoks g (by rw [hg]; simp)
      obtain ⟨l, ls, hl⟩ : ∃ l ls, g = l :: ls := by
        cases hx : g with
        | nil => exact absurd hx hgg.1
        | cons l ls => exact ⟨l, ls, rfl⟩
      have hgl := hgg.2 l (by rw [hl]; simp)
      refine ⟨l, ?_, hgl.2.2.2.2⟩
      rw [hg, hl]
      cases gs with
      | nil => simp [flatLines]
      | cons a b => simp [flatLines]
    have hmem : c ∈ src := by rw [← hsrc]; exact mem_joinLines_of_mem hc hl
    cases hall : src.all isSpace with
    | false => rfl
    | true =>
      have := List.all_eq_true.1 hall c hmem
      rw [hcs] at this; cases this
  have h3 : Pipeline.prepare {} src = src ++ ['\n', '\n'] := by
    rw [Pipeline.prepare, ← hsrc, normalize_lines _ _ hfl (fun l hl => (hlines l hl).1), hsrc]
    apply extract_no_amp
    intro hm
    rcases List.mem_append.1 hm with hm | hm
    · exact (hchar _ hm).2 rfl
    · exact absurd hm (by decide)
  have h4 := parseDocument_kids Generated.escapedChars ks hksne hoks hadj
  rw [hsrc] at h4
  have hoksT : QT.oks (ks.map (·.t)) = true := oks_of_kids _ ks hoks
  have h5 := render_qt {} hE rfl rfl [] (ks.map (·.t)) (by simpa using hksne) hoksT
  have hout : join ['\n'] (QT.outs (ks.map (·.t))) = spec d := by
    rw [spec, specBlocks_eq_join, ← hmatch.1, outs_eq_map, List.map_map]; rfl
  rw [Probe.convert_eq_render]
  simp only [h1, h2, Bool.false_eq_true, if_false, h3]
  have h4' : parseDocument ({} : Pipeline.Cfg).tab (src ++ ['\n', '\n']) =
      some (divOf ((ks.map (·.t)).map (QT.src ({} : Pipeline.Cfg).esc)), []) := by
    simpa [List.map_map, Function.comp_def] using h4
  rw [h4']
  simp only [List.reverse_nil, h5, hout]

/-- the block stage alone: the tree of a printed document of the sub-grammar -/
theorem blockStage_quote (d : Doc) (sp : Spelling) (hwf : WF d = true) (hq : QuoteDoc d = true) :
    ∃ ts : List QT, ts ≠ [] ∧ QT.oks ts = true ∧ join ['\n'] (QT.outs ts) = spec d ∧
      parseDocument 4 (print d sp ++ ['\n', '\n']) =
        some (divOf (ts.map (QT.src Generated.escapedChars)), []) := by
  simp only [WF, Bool.and_eq_true, Bool.not_eq_true', List.isEmpty_eq_false_iff] at hwf
  obtain ⟨⟨⟨hne, hnext⟩, hbl⟩, _⟩ := hwf
  obtain ⟨ks, st', hps, hdefs, hksne, hoks, hmatch⟩ := printBlocks_q d hne hq hbl ⟨sp.choices, 1, []⟩
  have hadj := noAdjBq_of_okNexts ks d hmatch.2 hnext
  have hprint : print d sp = joinLines (flatLines (allGroups ks)) := by
    simp only [print, hps]
    have : st'.defs = [] := hdefs
    simp [this, joinLines]
  refine ⟨ks.map (·.t), by simpa using hksne, oks_of_kids _ ks hoks, ?_, ?_⟩
  · rw [spec, specBlocks_eq_join, ← hmatch.1, outs_eq_map, List.map_map]; rfl
  · rw [hprint]
    have := parseDocument_kids Generated.escapedChars ks hksne hoks hadj
    simpa [List.map_map, Function.comp_def] using this

end printingQ

end MdVerif.DocParse
