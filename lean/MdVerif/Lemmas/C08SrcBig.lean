/-
Helper lemmas for `Props/C08Src.lean`: the conversion with a fuel for which termination is PROVED.

The model's `Inline.run` gives the stack loop of `InlineProcessor.run` the linear fuel `runFuel tree = 16·size + 64`;
that this always suffices is open (`C02_run_total_full`), which is why `C08_src` needs the three conversions to succeed.
`runBig` runs the same loop on `bigFuel tree + runFuel tree` turns, for which `C02_run_total_bigfuel` proves
termination, and `convertBig` is `Pipeline.convert` with `runBig` as its inline stage.  Then:
* `convertBig_of_convert`: whenever the model answers `ok out`, so does `convertBig` (more fuel never changes a result);
* `convertBig_total`: on the leak-free domain `convertBig` always answers `ok`;
* `convertBig_compose`: C08 for `convertBig`, from `compose_after` (which is stated for any fuels).
Core Lean only.
-/
import MdVerif.Lemmas.C08SrcEven
import MdVerif.Props.C02Inline

namespace MdVerif.C08Src
open Py Block InlineLocal Inline NoCtl MdVerif.C08

/-- a fuel of the stack loop for which termination is proved, at least the fuel of the model -/
def bigRunFuel (tree : Node) : Nat := Inline.bigFuel tree + Inline.runFuel tree

/-- `InlineProcessor.run(tree)` with the stack loop on `bigRunFuel` -/
def runBig (cfg : Cfg) (tree : Node) : Option (Node × St) :=
  runLoop cfg (runFuel tree) (bigRunFuel tree) tree [[]] { html := [] }

/-- `Markdown.convert` with `runBig` as the inline stage (`after`: everything behind it, `Props/C08Inline.lean`) -/
def convertBig (pc : Pipeline.Cfg) (src : Str) : Pipeline.Outcome :=
  if src.contains '<' then .ood
  else if Normalize.isBlankDoc src then .ok []
  else
    match parseDocument pc.tab (Pipeline.prepare pc src) with
    | none => .oof
    | some (rt, refs) =>
      match runBig { esc := pc.esc, refs := refs.reverse } rt with
      | none => .oof
      | some (t, st) => after pc t st.html

/-- more fuel never changes a result: where the model's `run` answers, `runBig` gives the same answer -/
theorem runBig_of_run {cfg : Cfg} {tree : Node} {r : Node × St} (h : Inline.run cfg tree = some r) :
    runBig cfg tree = some r :=
  C02_run_agrees_with_total cfg tree [] r h (bigRunFuel tree) (by unfold bigRunFuel; omega)

/-- **where the model answers `ok`, `convertBig` gives the same answer** (every source) -/
theorem convertBig_of_convert {pc : Pipeline.Cfg} {src out : Str} (h : Pipeline.convert pc src = .ok out) :
    convertBig pc src = .ok out := by
  unfold convertBig
  cases h1' : src.contains '<' with
  | true => rw [Pipeline.convert, h1'] at h; simp at h
  | false =>
    by_cases h2 : Normalize.isBlankDoc src = true
    · rw [Pipeline.convert, h1'] at h
      simp only [h2, Bool.false_eq_true, if_false, if_true] at h ⊢
      exact h
    · have h2' : Normalize.isBlankDoc src = false := by simpa using h2
      obtain ⟨rt, refs, t, st, hp, hr⟩ := convert_ok_inv h h2'
      rw [C08_convert_eq_after pc src h1' h2' hp hr] at h
      simp only [h2', Bool.false_eq_true, if_false, hp, runBig_of_run hr]
      exact h

theorem convertBig_inv {pc : Pipeline.Cfg} {src out : Str} (h : convertBig pc src = .ok out)
    (h1 : src.contains '<' = false) (h2 : Normalize.isBlankDoc src = false) :
    ∃ rt refs t st, parseDocument pc.tab (Pipeline.prepare pc src) = some (rt, refs) ∧
      runBig { esc := pc.esc, refs := refs.reverse } rt = some (t, st) ∧ after pc t st.html = .ok out := by
  unfold convertBig at h
  simp only [h1, h2, Bool.false_eq_true, if_false] at h
  cases hp : parseDocument pc.tab (Pipeline.prepare pc src) with
  | none => simp [hp] at h
  | some rr =>
    obtain ⟨rt, refs⟩ := rr
    cases hr : runBig { esc := pc.esc, refs := refs.reverse } rt with
    | none => simp [hp, hr] at h
    | some ts =>
      obtain ⟨t, st⟩ := ts
      simp only [hp, hr] at h
      exact ⟨rt, refs, t, st, rfl, hr, h⟩

/-- **`convertBig` always answers `ok` on the leak-free domain**: the block parser terminates, the stack loop
    terminates within `bigRunFuel`, `UnescapeTreeprocessor` does not raise, the postprocessors do not fail -/
theorem convertBig_total (pc : Pipeline.Cfg) (hcfg : EscOK pc.esc) {src : Str} (hd : C10DomainL pc.tab src) :
    ∃ out, convertBig pc src = .ok out := by
  have hlt : src.contains '<' = false := by
    cases hc : src.contains '<' with
    | false => rfl
    | true =>
      have hm : '<' ∈ src := by simpa using hc
      have := hd.1 _ hm
      revert this; decide
  unfold convertBig
  simp only [hlt, Bool.false_eq_true, if_false]
  by_cases h2 : Normalize.isBlankDoc src = true
  · exact ⟨[], by simp [h2]⟩
  · simp only [h2, if_false]
    obtain ⟨rr, hp⟩ := Option.isSome_iff_exists.1 (C02_parseDocument_total_any_tab pc.tab (Pipeline.prepare pc src))
    obtain ⟨rt, refs⟩ := rr
    have hno : TreeNoCtl rt := (C10_block_tree_noctl pc.tab (prepare_noctl pc src) hp).1
    obtain ⟨ts, hr⟩ := Option.isSome_iff_exists.1
      (C02_run_total_bigfuel { esc := pc.esc, refs := refs.reverse } rt [] hno (bigRunFuel rt)
        (by unfold bigRunFuel; omega))
    obtain ⟨t, st⟩ := ts
    have hr' : runBig { esc := pc.esc, refs := refs.reverse } rt = some (t, st) := hr
    simp only [hp, hr']
    have hw := runLoop_result_wnodeB pc hcfg hd hp hr
    have hh := runLoop_result_html pc hcfg hd hp hr
    have hfn : t.Forall FNode := Node.Forall.mono (fun _ hn => fnode_of_wnodeB hn) t hw
    obtain ⟨u, hu⟩ := unescapeTree_fnode_some (prettify_fnode hfn pc.blockLevel)
    have hrt : rt = root rt.children := parse_root hp
    have ht : t = root t.children := by rw [hrt] at hr; exact runLoop_root_shape hr
    rw [hh, ht, after_root]
    rcases render_ok_or_err pc.fmt pc.blockLevel t.children with ⟨o, ho⟩ | he
    · exact ⟨o, ho⟩
    · exfalso
      rw [render_eq] at he
      rw [ht, unescape_prettify_root] at hu
      cases hk : TreeProc.unescapeKids (topKids pc.blockLevel t.children) with
      | none => simp [hk] at hu
      | some us => simp [hk] at he

/-- **C08 for `convertBig`** -/
theorem convertBig_compose (pc : Pipeline.Cfg) (hcfg : EscOK pc.esc)
    (hd : divBlock pc.blockLevel = true) (hbl : blockLevelOk pc.blockLevel = true)
    {A B : Str} (dA : C10DomainL pc.tab A) (dB : C10DomainL pc.tab B)
    (hA : A.all srcOk = true) (hB : B.all srcOk = true)
    (hCR : (Normalize.stripCtl A).getLast? ≠ some '\r') (hvis : hasVisible A = true)
    (hb : startsPHR pc.tab ((splitS nn (Normalize.normalize pc.tab B)).headD []) = true)
    (hstash : ∀ src ∈ [A, B, A ++ nn ++ B], ∀ rt refs t st,
      parseDocument pc.tab (Pipeline.prepare pc src) = some (rt, refs) →
      runBig { esc := pc.esc, refs := refs.reverse } rt = some (t, st) → st.stash.length ≤ 10000)
    {out outA outB : Str} (cAB : convertBig pc (A ++ nn ++ B) = .ok out)
    (cA : convertBig pc A = .ok outA) (cB : convertBig pc B = .ok outB) :
    out = outA ++ ['\n'] ++ outB := by
  have hnA := not_blank_of_visible hvis
  have hnB := not_blank_of_phr hb
  have hnAB := not_blank_compose B hnA
  have hAB := srcOk_compose hA hB
  obtain ⟨ra, fa, tA, sA, pA, eA, oA⟩ := convertBig_inv cA (not_contains_lt hA) hnA
  obtain ⟨rb, fb, tB, sB, pB, eB, oB⟩ := convertBig_inv cB (not_contains_lt hB) hnB
  obtain ⟨rab, fab, tAB, sAB, pAB, eAB, oAB⟩ := convertBig_inv cAB (not_contains_lt hAB) hnAB
  have hNA := hstash A (by simp) _ _ _ _ pA eA
  have hNB := hstash B (by simp) _ _ _ _ pB eB
  have hN := hstash (A ++ nn ++ B) (by simp) _ _ _ _ pAB eAB
  have key := compose_after pc hcfg hd hbl dA dB hA hB hCR hvis hb pA pB pAB eA eB eAB hNA hNB hN
  rw [key, oA, oB] at oAB
  simpa using oAB.symm

end MdVerif.C08Src
