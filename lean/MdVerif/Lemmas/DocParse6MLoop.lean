/-
Helper lemmas for C01 with inline links AND inline images in one line (`Props/C01i.lean`, last part), the pattern
loop: `__handleInline` from pattern 0 on a line `C₀ U₁ C₁ … Uₘ Cₘ` (`gRaw` of `Lemmas/DocParse6MDef.lean`) whose uses
are inline links and inline images in any order.  Merge of `Lemmas/RefTextInlLoop.lean` (links) and
`Lemmas/DocParse6Loop.lean` (images): the reference pattern (2) finds nothing, the link pattern (3) takes the links out
left to right and skips every `![`, the image pattern (4) then takes the images out.  Result: `LoopOKG`.
Core Lean only.
-/
import MdVerif.Lemmas.DocParse6MDef

namespace MdVerif.DocMix
open Py Inline Escape DocSpec CodeLaw DocParse Block DocParse2 RefText DocLink DocImg

/-! ### unfolding the stages -/

theorem gStage_lk (esc : List Char) (lv : Nat) (pe : Bool) (m n0 : Nat) (u : IUse) (r : List GUse) :
    gStage esc lv pe m n0 (.lk u :: r) =
      ['['] ++ (u.T.stage esc lv pe m n0 0 0 ++ (closerI u ++
        (u.C.stage esc lv pe (m + u.T.escs esc) (n0 + u.T.cnt 0) 0 0 ++
          gStage esc lv pe (m + u.T.escs esc + u.C.escs esc) (n0 + u.T.cnt 0 + u.C.cnt 0) r))) := by
  simp [gStage, GUse.head, GUse.C, GUse.tEscs, GUse.tCnt, List.append_assoc]

theorem gStage_im (esc : List Char) (lv : Nat) (pe : Bool) (m n0 : Nat) (u : DocImg.MUse) (r : List GUse) :
    gStage esc lv pe m n0 (.im u :: r) =
      openerM u ++ (u.C.stage esc lv pe m n0 0 0 ++ gStage esc lv pe (m + u.C.escs esc) (n0 + u.C.cnt 0) r) := by
  simp [gStage, GUse.head, GUse.C, GUse.tEscs, GUse.tCnt]

theorem gStage_head (esc : List Char) (lv : Nat) (pe : Bool) (m n0 : Nat) (gs : List GUse) :
    (gStage esc lv pe m n0 gs).head? ≠ some '`' := by
  cases gs with
  | nil => simp [gStage]
  | cons g r =>
    cases g with
    | lk u => simp [gStage, GUse.head]
    | im u => simp [gStage, GUse.head, openerM]

theorem gOK_lk {esc : List Char} {u : IUse} {r : List GUse} (h : ∀ g ∈ GUse.lk u :: r, GUseOK esc g) :
    IUseOK esc u := (h _ List.mem_cons_self).lk u rfl

theorem gOK_im {esc : List Char} {u : DocImg.MUse} {r : List GUse} (h : ∀ g ∈ GUse.im u :: r, GUseOK esc g) :
    DocImg.MUseOK esc u := (h _ List.mem_cons_self).im u rfl

theorem gOK_tl {esc : List Char} {g : GUse} {r : List GUse} (h : ∀ x ∈ g :: r, GUseOK esc x) :
    ∀ x ∈ r, GUseOK esc x := fun x hx => h x (List.mem_cons_of_mem _ hx)

/-- number of links: the turns of the link pass -/
def gLinks : List GUse → Nat
  | [] => 0
  | .lk _ :: r => gLinks r + 1
  | .im _ :: r => gLinks r

/-! ### patterns 0 and 1 -/

/-- **the backtick pass on the uses**: the code spans of all the chunks, left to right -/
theorem code_pass_g (cfg : Inline.Cfg) (hi : HI) (hb : '\\' ∈ cfg.esc) (ht : '`' ∈ cfg.esc) (gs : List GUse) :
    ∀ (A : Str) (m n0 : Nat) (st : St) (g : Nat), BtOK A → (∀ x ∈ gs, GUseOK cfg.esc x) →
      hiLoop (applyPattern cfg hi) (g + gCnt0 gs) (A ++ gStage cfg.esc 0 false m n0 gs) 0 0 st =
        hiLoop (applyPattern cfg hi) g (A ++ gStage cfg.esc 1 false m st.stash.length gs) 0 0
          { st with stash := st.stash ++ gNodes0 gs } ∧
      BtOK (A ++ gStage cfg.esc 1 false m st.stash.length gs) := by
  induction gs with
  | nil => intro A m n0 st g hA _; simp [gStage, gCnt0, gNodes0, hA]
  | cons x r ih =>
    cases x with
    | lk u =>
      intro A m n0 st g hA hus
      have hu := gOK_lk hus
      have hur := gOK_tl hus
      -- the opening bracket
      have hA1 := btOK_item hA (show noTickBs ['['] from fun c hc => by simp at hc; subst hc; exact ⟨by decide, by decide⟩)
      have hA1l := hA1.2 (by simp)
      -- the text
      have e1 := code_pass_chunk cfg hi hb ht
        (closerI u ++ (u.C.stage cfg.esc 0 false (m + u.T.escs cfg.esc) (n0 + u.T.cnt 0) 0 0 ++
          gStage cfg.esc 0 false (m + u.T.escs cfg.esc + u.C.escs cfg.esc) (n0 + u.T.cnt 0 + u.C.cnt 0) r))
        (by simp [closerI]) u.T (A ++ ['[']) m n0 0 0 st (g + gCnt0 r + u.C.cnt 0) hA1.1 hA1l hu.text.ok hu.text.junctions
      have hA2 := btOK_chunk1 hb ht u.T.segs (A ++ ['[']) u.T.t0 (m + escCount cfg.esc u.T.t0) st.stash.length 0 0
        hA1.1 hA1l hu.text.ok
      have hA3 := btOK_item hA2 (noTickBs_closerI hu)
      have hA3l := hA3.2 (by simp [closerI])
      -- the content after the use
      generalize hst1 : ({ st with stash := st.stash ++ nodesOf 0 u.T.segs } : St) = st1 at e1
      have hst1l : st1.stash.length = st.stash.length + u.T.cnt 0 := by rw [← hst1]; simp [Chunk.cnt]
      have e2 := code_pass_chunk cfg hi hb ht
        (gStage cfg.esc 0 false (m + u.T.escs cfg.esc + u.C.escs cfg.esc) (n0 + u.T.cnt 0 + u.C.cnt 0) r)
        (gStage_head _ _ _ _ _ _) u.C
        (A ++ ['['] ++ (escAll cfg.esc u.T.t0 ++ stageM cfg.esc 1 false (m + escCount cfg.esc u.T.t0) st.stash.length 0 0
          u.T.segs) ++ closerI u) (m + u.T.escs cfg.esc) (n0 + u.T.cnt 0) 0 0 st1 (g + gCnt0 r) hA3.1 hA3l
        hu.after.ok hu.after.junctions
      have hA4 := btOK_chunk1 hb ht u.C.segs _ u.C.t0 (m + u.T.escs cfg.esc + escCount cfg.esc u.C.t0) st1.stash.length 0 0
        hA3.1 hA3l hu.after.ok
      generalize hst2 : ({ st1 with stash := st1.stash ++ nodesOf 0 u.C.segs } : St) = st2 at e2
      have hst2l : st2.stash.length = st.stash.length + u.T.cnt 0 + u.C.cnt 0 := by
        rw [← hst2]; simp [Chunk.cnt, hst1l]
      obtain ⟨e3, hA5⟩ := ih (A ++ ['['] ++ (escAll cfg.esc u.T.t0 ++ stageM cfg.esc 1 false (m + escCount cfg.esc u.T.t0)
          st.stash.length 0 0 u.T.segs) ++ closerI u ++ (escAll cfg.esc u.C.t0 ++ stageM cfg.esc 1 false
          (m + u.T.escs cfg.esc + escCount cfg.esc u.C.t0) st1.stash.length 0 0 u.C.segs))
        (m + u.T.escs cfg.esc + u.C.escs cfg.esc) (n0 + u.T.cnt 0 + u.C.cnt 0) st2 g hA4 hur
      have hstage1T : u.T.stage cfg.esc 1 false m st.stash.length 0 0 =
          escAll cfg.esc u.T.t0 ++ stageM cfg.esc 1 false (m + escCount cfg.esc u.T.t0) st.stash.length 0 0 u.T.segs := by
        simp [Chunk.stage]
      have hstage1C : u.C.stage cfg.esc 1 false (m + u.T.escs cfg.esc) st1.stash.length 0 0 =
          escAll cfg.esc u.C.t0 ++ stageM cfg.esc 1 false (m + u.T.escs cfg.esc + escCount cfg.esc u.C.t0)
            st1.stash.length 0 0 u.C.segs := by
        simp [Chunk.stage]
      refine ⟨?_, ?_⟩
      · rw [gStage_lk, gStage_lk]
        rw [show g + gCnt0 (.lk u :: r) = g + gCnt0 r + u.C.cnt 0 + u.T.cnt 0 by
          simp [gCnt0, GUse.tCnt, GUse.C]; omega]
        simp only [List.append_assoc] at e1 e2 e3 ⊢
        rw [e1]
        rw [hstage1T]
        simp only [List.append_assoc]
        rw [e2, hstage1C]
        simp only [List.append_assoc]
        rw [e3, ← hst2, ← hst1]
        simp [gNodes0, List.append_assoc, Chunk.cnt, Chunk.stage, Nat.add_assoc]
      · rw [gStage_lk, hstage1T]
        rw [hst1l] at hstage1C
        rw [hstage1C]
        rw [hst2l] at hA5
        rw [hst1l] at hA5
        simpa only [List.append_assoc] using hA5
    | im u =>
      intro A m n0 st g hA hus
      have hu := gOK_im hus
      have hur := gOK_tl hus
      have hA1 := btOK_item hA (noTickBs_openerM hu)
      have hA1l := hA1.2 (openerM_ne u)
      have e1 := code_pass_chunk cfg hi hb ht
        (gStage cfg.esc 0 false (m + u.C.escs cfg.esc) (n0 + u.C.cnt 0) r) (gStage_head _ _ _ _ _ _) u.C
        (A ++ openerM u) m n0 0 0 st (g + gCnt0 r) hA1.1 hA1l hu.after.ok hu.after.junctions
      have hA2 := btOK_chunk1 hb ht u.C.segs (A ++ openerM u) u.C.t0 (m + escCount cfg.esc u.C.t0) st.stash.length 0 0
        hA1.1 hA1l hu.after.ok
      generalize hst1 : ({ st with stash := st.stash ++ nodesOf 0 u.C.segs } : St) = st1 at e1
      have hst1l : st1.stash.length = st.stash.length + u.C.cnt 0 := by rw [← hst1]; simp [Chunk.cnt]
      have hstage1C : u.C.stage cfg.esc 1 false m st.stash.length 0 0 =
          escAll cfg.esc u.C.t0 ++ stageM cfg.esc 1 false (m + escCount cfg.esc u.C.t0) st.stash.length 0 0 u.C.segs := by
        simp [Chunk.stage]
      rw [← hstage1C] at hA2
      obtain ⟨e3, hA5⟩ := ih (A ++ openerM u ++ u.C.stage cfg.esc 1 false m st.stash.length 0 0)
        (m + u.C.escs cfg.esc) (n0 + u.C.cnt 0) st1 g hA2 hur
      refine ⟨?_, ?_⟩
      · rw [gStage_im, gStage_im]
        rw [show g + gCnt0 (.im u :: r) = g + gCnt0 r + u.C.cnt 0 by simp [gCnt0, GUse.tCnt, GUse.C]; omega]
        simp only [List.append_assoc] at e1 e3 ⊢
        rw [e1, e3, ← hst1]
        simp [gNodes0, List.append_assoc, Chunk.cnt]
      · rw [gStage_im]
        rw [hst1l] at hA5
        simpa only [List.append_assoc] using hA5

/-- **the escape pass on the uses** -/
theorem esc_pass_g (cfg : Inline.Cfg) (hi : HI) (hE : EscOK cfg.esc) (hrb : ']' ∈ cfg.esc) (gs : List GUse) :
    ∀ (A : Str) (m n0 : Nat) (st : St) (g : Nat), '\\' ∉ A → (∀ x ∈ gs, GUseOK cfg.esc x) →
      hiLoop (applyPattern cfg hi) (g + gEscs cfg.esc gs) (A ++ gStage cfg.esc 1 false m n0 gs) 1 0 st =
        hiLoop (applyPattern cfg hi) g (A ++ gStage cfg.esc 1 true st.stash.length n0 gs) 1 0
          { st with stash := st.stash ++ gEscStash cfg.esc gs } := by
  induction gs with
  | nil => intro A m n0 st g _ _; simp [gStage, gEscs, gEscStash]
  | cons x r ih =>
    cases x with
    | lk u =>
      intro A m n0 st g hA hus
      have hu := gOK_lk hus
      have hur := gOK_tl hus
      have hA1 : '\\' ∉ A ++ ['['] := by
        intro h; rcases List.mem_append.1 h with h | h
        · exact hA h
        · simp at h
      have e1 := esc_pass_chunk cfg hi hE.bs 1 (by omega)
        (closerI u ++ (u.C.stage cfg.esc 1 false (m + u.T.escs cfg.esc) (n0 + u.T.cnt 0) 0 0 ++
          gStage cfg.esc 1 false (m + u.T.escs cfg.esc + u.C.escs cfg.esc) (n0 + u.T.cnt 0 + u.C.cnt 0) r))
        u.T (A ++ ['[']) m n0 0 0 st (g + gEscs cfg.esc r + u.C.escs cfg.esc) hA1 hu.text.ok
      generalize hst1 : ({ st with stash := st.stash ++ u.T.escStash cfg.esc } : St) = st1 at e1
      have hst1l : st1.stash.length = st.stash.length + u.T.escs cfg.esc := by
        rw [← hst1]; simp [Chunk.escStash_length]
      have hA2 : '\\' ∉ A ++ ['['] ++ u.T.stage cfg.esc 1 true st.stash.length n0 0 0 ++ closerI u := by
        intro h
        rcases List.mem_append.1 h with h | h
        · rcases List.mem_append.1 h with h | h
          · exact hA1 h
          · exact bs_not_mem_stage hE hrb 1 (by omega) u.T hu.text.ok hu.text.plain _ _ _ _ h
        · exact bs_not_mem_closerI hu h
      have e2 := esc_pass_chunk cfg hi hE.bs 1 (by omega)
        (gStage cfg.esc 1 false (m + u.T.escs cfg.esc + u.C.escs cfg.esc) (n0 + u.T.cnt 0 + u.C.cnt 0) r)
        u.C (A ++ ['['] ++ u.T.stage cfg.esc 1 true st.stash.length n0 0 0 ++ closerI u) (m + u.T.escs cfg.esc)
        (n0 + u.T.cnt 0) 0 0 st1 (g + gEscs cfg.esc r) hA2 hu.after.ok
      generalize hst2 : ({ st1 with stash := st1.stash ++ u.C.escStash cfg.esc } : St) = st2 at e2
      have hst2l : st2.stash.length = st.stash.length + u.T.escs cfg.esc + u.C.escs cfg.esc := by
        rw [← hst2]; simp [Chunk.escStash_length, hst1l]
      have hA3 : '\\' ∉ A ++ ['['] ++ u.T.stage cfg.esc 1 true st.stash.length n0 0 0 ++ closerI u ++
          u.C.stage cfg.esc 1 true st1.stash.length (n0 + u.T.cnt 0) 0 0 := by
        intro h
        rcases List.mem_append.1 h with h | h
        · exact hA2 h
        · exact bs_not_mem_stage hE hrb 1 (by omega) u.C hu.after.ok hu.after.plain _ _ _ _ h
      have e3 := ih _ (m + u.T.escs cfg.esc + u.C.escs cfg.esc) (n0 + u.T.cnt 0 + u.C.cnt 0) st2 g hA3 hur
      rw [gStage_lk, gStage_lk]
      rw [show g + gEscs cfg.esc (.lk u :: r) = g + gEscs cfg.esc r + u.C.escs cfg.esc + u.T.escs cfg.esc by
        simp [gEscs, GUse.tEscs, GUse.C]; omega]
      simp only [List.append_assoc] at e1 e2 e3 ⊢
      rw [e1, e2, e3, ← hst2, ← hst1]
      simp [gEscStash, List.append_assoc, Chunk.escStash_length, Nat.add_assoc]
    | im u =>
      intro A m n0 st g hA hus
      have hu := gOK_im hus
      have hur := gOK_tl hus
      have hA1 : '\\' ∉ A ++ openerM u := by
        intro h; rcases List.mem_append.1 h with h | h
        · exact hA h
        · exact bs_not_mem_openerM hu h
      have e1 := esc_pass_chunk cfg hi hE.bs 1 (by omega)
        (gStage cfg.esc 1 false (m + u.C.escs cfg.esc) (n0 + u.C.cnt 0) r)
        u.C (A ++ openerM u) m n0 0 0 st (g + gEscs cfg.esc r) hA1 hu.after.ok
      generalize hst1 : ({ st with stash := st.stash ++ u.C.escStash cfg.esc } : St) = st1 at e1
      have hst1l : st1.stash.length = st.stash.length + u.C.escs cfg.esc := by
        rw [← hst1]; simp [Chunk.escStash_length]
      have hA2 : '\\' ∉ A ++ openerM u ++ u.C.stage cfg.esc 1 true st.stash.length n0 0 0 := by
        intro h
        rcases List.mem_append.1 h with h | h
        · exact hA1 h
        · exact bs_not_mem_stage hE hrb 1 (by omega) u.C hu.after.ok hu.after.plain _ _ _ _ h
      have e3 := ih _ (m + u.C.escs cfg.esc) (n0 + u.C.cnt 0) st1 g hA2 hur
      rw [gStage_im, gStage_im]
      rw [show g + gEscs cfg.esc (.im u :: r) = g + gEscs cfg.esc r + u.C.escs cfg.esc by
        simp [gEscs, GUse.tEscs, GUse.C]; omega]
      simp only [List.append_assoc] at e1 e3 ⊢
      rw [e1, e3, ← hst1]
      simp [gEscStash, List.append_assoc, Chunk.escStash_length]

/-! ### prefixes the link patterns walk over -/

/-- a prefix a link pattern (not an image pattern) walks over without a match, leaving a previous character other
    than `!` behind -/
def SkipA (A : Str) : Prop :=
  ∀ (cfg : Inline.Cfg) (stash : List StashItem) (pi : Nat), ¬ (pi = 4 ∨ pi = 5 ∨ pi = 7) →
    ∀ (data : Str) (prev : Option Char) (Z : Str) (i : Nat), prev ≠ some '!' →
      ∃ prev', prev' ≠ some '!' ∧
        linkScan cfg stash pi data prev (A ++ Z) i = linkScan cfg stash pi data prev' Z (i + A.length)

theorem skipA_nil : SkipA [] := fun _ _ _ _ _ prev _ _ hp => ⟨prev, hp, by simp⟩

theorem skipA_append {A B : Str} (hA : SkipA A) (hB : SkipA B) : SkipA (A ++ B) := by
  intro cfg stash pi hpi data prev Z i hp
  obtain ⟨p1, hp1, e1⟩ := hA cfg stash pi hpi data prev (B ++ Z) i hp
  obtain ⟨p2, hp2, e2⟩ := hB cfg stash pi hpi data p1 Z (i + A.length) hp1
  exact ⟨p2, hp2, by rw [List.append_assoc, e1, e2, List.length_append, Nat.add_assoc]⟩

theorem skipA_quiet (A : Str) (h1 : '[' ∉ A) (h2 : '!' ∉ A) : SkipA A := by
  intro cfg stash pi hpi data
  have himg : (decide (pi = 4) || decide (pi = 5) || decide (pi = 7)) = false := by
    simp only [not_or] at hpi; simp [hpi.1, hpi.2.1, hpi.2.2]
  induction A with
  | nil => intro prev Z i hp; exact ⟨prev, hp, by simp⟩
  | cons c r ih =>
    intro prev Z i _
    have c1 : c ≠ '[' := fun e => h1 (e ▸ List.mem_cons_self)
    have c2 : c ≠ '!' := fun e => h2 (e ▸ List.mem_cons_self)
    obtain ⟨p', hp', e⟩ := ih (fun hh => h1 (List.mem_cons_of_mem _ hh)) (fun hh => h2 (List.mem_cons_of_mem _ hh))
      (some c) Z (i + 1) (by simpa using c2)
    refine ⟨p', hp', ?_⟩
    simp only [List.cons_append, linkScan, himg, Bool.false_eq_true, if_false, c1, decide_false, Bool.false_and]
    rw [e]
    simp only [List.length_cons]
    have e1 : i + 1 + r.length = i + (r.length + 1) := by omega
    rw [e1]

/-- `![` and what follows up to the next bracket or `!` -/
theorem skipA_bang (R : Str) (h1 : '[' ∉ R) (h2 : '!' ∉ R) : SkipA ('!' :: '[' :: R) := by
  intro cfg stash pi hpi data prev Z i _
  obtain ⟨p', hp', e⟩ := skipA_quiet R h1 h2 cfg stash pi hpi data (some '[') Z (i + 2) (by simp)
  refine ⟨p', hp', ?_⟩
  have := InlineRef.linkScan_skip_bang cfg stash pi hpi data [] (R ++ Z) prev i (by simp)
  simp only [List.nil_append, List.length_nil, Nat.add_zero] at this
  rw [List.cons_append, List.cons_append, this, e]
  simp only [List.length_cons]
  have e1 : i + 2 + R.length = i + (R.length + 1 + 1) := by omega
  rw [e1]

theorem skipA_placeholder (k : Nat) : SkipA (placeholder k) :=
  skipA_quiet _ (InlineRef.not_mem_placeholder (by decide)) (InlineRef.not_mem_placeholder (by decide))

theorem skipA_stage {cfg : Inline.Cfg} (hE : EscOK cfg.esc) (hrb : ']' ∈ cfg.esc) (C : Chunk) (hC : ChunkOK cfg.esc C)
    (m n0 : Nat) : SkipA (C.stage cfg.esc 1 true m n0 0 0) :=
  have h := not_mem_of_charOK (charOK_stage hE hrb 1 (by omega) C hC.ok hC.plain m n0 0 0)
  skipA_quiet _ h.1 h.2.2.1

theorem skipA_openerM {esc : List Char} {u : DocImg.MUse} (hu : DocImg.MUseOK esc u) : SkipA (openerM u) := by
  apply skipA_bang
  · intro h
    rcases List.mem_append.1 h with h | h
    · exact (alnumSp_quiet (hu.alt _ h)).2.2.1 rfl
    · exact (closerM_chars hu _ h).2.2.1 rfl
  · intro h
    rcases List.mem_append.1 h with h | h
    · exact (alnumSp_quiet (hu.alt _ h)).2.2.2.2.1 rfl
    · exact (closerM_chars hu _ h).2.2.2 rfl

/-- at a `[` behind such a prefix the scan calls `handleMatch` -/
theorem linkScan_link_atS (cfg : Inline.Cfg) (stash : List StashItem) (pi : Nat)
    (hpi : ¬ (pi = 4 ∨ pi = 5 ∨ pi = 7)) (data pre rest : Str) (prev0 : Option Char) (i : Nat)
    (hS : SkipA pre) (h3 : prev0 ≠ some '!') :
    linkScan cfg stash pi data prev0 (pre ++ '[' :: rest) i =
      match linkHandle cfg stash pi data (i + pre.length) (i + pre.length + 1) with
      | some f => some f
      | none => linkScan cfg stash pi data (some '[') rest (i + pre.length + 1) := by
  obtain ⟨p', hp', e⟩ := hS cfg stash pi hpi data prev0 ('[' :: rest) i h3
  rw [e]
  have := InlineRef.linkScan_link_at cfg stash pi hpi data [] rest p' (i + pre.length) (by simp) (by simp) hp'
  simp only [List.nil_append, List.length_nil, Nat.add_zero] at this
  exact this

/-! ### pattern 2 finds nothing: every `[text]` is followed by `(`, every other `[` stands behind `!` -/

theorem linkScan2_g (cfg : Inline.Cfg) (hE : EscOK cfg.esc) (hrb : ']' ∈ cfg.esc) (stash : List StashItem)
    (gs : List GUse) : ∀ (P A : Str) (m n0 : Nat) (prev : Option Char), SkipA A → prev ≠ some '!' →
      (∀ x ∈ gs, GUseOK cfg.esc x) →
      linkScan cfg stash 2 (P ++ (A ++ gStage cfg.esc 1 true m n0 gs)) prev (A ++ gStage cfg.esc 1 true m n0 gs)
        P.length = none := by
  induction gs with
  | nil =>
    intro P A m n0 prev hA hprev _
    obtain ⟨p', _, e⟩ := hA cfg stash 2 (by decide) (P ++ (A ++ gStage cfg.esc 1 true m n0 [])) prev [] P.length hprev
    simp only [gStage] at e ⊢
    rw [e]; rfl
  | cons x r ih =>
    cases x with
    | lk u =>
      intro P A m n0 prev hA hprev hus
      have hu := gOK_lk hus
      have hT := not_mem_of_charOK (charOK_stage hE hrb 1 (by omega) u.T hu.text.ok hu.text.plain m n0 0 0)
      have hC := not_mem_of_charOK (charOK_stage hE hrb 1 (by omega) u.C hu.after.ok hu.after.plain
        (m + u.T.escs cfg.esc) (n0 + u.T.cnt 0) 0 0)
      generalize hrest : gStage cfg.esc 1 true (m + u.T.escs cfg.esc + u.C.escs cfg.esc) (n0 + u.T.cnt 0 + u.C.cnt 0) r = R
      have hscan := linkScan_link_atS cfg stash 2 (by decide)
        (P ++ (A ++ gStage cfg.esc 1 true m n0 (.lk u :: r))) A
        (u.T.stage cfg.esc 1 true m n0 0 0 ++ (']' :: '(' :: (destSrc u.url u.dtitle ++ (')' ::
          (u.C.stage cfg.esc 1 true (m + u.T.escs cfg.esc) (n0 + u.T.cnt 0) 0 0 ++ R)))))
        prev P.length hA hprev
      have hdata : P ++ (A ++ gStage cfg.esc 1 true m n0 (.lk u :: r)) =
          (P ++ A ++ ['[']) ++ u.T.stage cfg.esc 1 true m n0 0 0 ++ ']' :: '(' :: (destSrc u.url u.dtitle ++ (')' ::
            (u.C.stage cfg.esc 1 true (m + u.T.escs cfg.esc) (n0 + u.T.cnt 0) 0 0 ++ R))) := by
        rw [gStage_lk, hrest]; simp [closerI, List.append_assoc]
      have hrej := linkHandle_ref_rejectParen cfg stash (P ++ A ++ ['[']) (u.T.stage cfg.esc 1 true m n0 0 0)
        (destSrc u.url u.dtitle ++ (')' :: (u.C.stage cfg.esc 1 true (m + u.T.escs cfg.esc) (n0 + u.T.cnt 0) 0 0 ++ R)))
        (P.length + A.length) hT.1 hT.2.1
      rw [← hdata] at hrej
      have hlen : (P ++ A ++ ['[']).length = P.length + A.length + 1 := by simp; omega
      rw [hlen] at hrej
      have hS : A ++ gStage cfg.esc 1 true m n0 (.lk u :: r) = A ++ '[' :: (u.T.stage cfg.esc 1 true m n0 0 0 ++
          (']' :: '(' :: (destSrc u.url u.dtitle ++ (')' ::
            (u.C.stage cfg.esc 1 true (m + u.T.escs cfg.esc) (n0 + u.T.cnt 0) 0 0 ++ R))))) := by
        rw [gStage_lk, hrest]; simp [closerI, List.append_assoc]
      rw [hS] at hscan ⊢
      rw [hscan, ← hS, hrej]
      simp only
      -- the rest: the text, the closing part and the content have no `[`
      have hA1' : '[' ∉ u.T.stage cfg.esc 1 true m n0 0 0 ++ (closerI u ++
          u.C.stage cfg.esc 1 true (m + u.T.escs cfg.esc) (n0 + u.T.cnt 0) 0 0) := by
        intro h
        rcases List.mem_append.1 h with h | h
        · exact hT.1 h
        · rcases List.mem_append.1 h with h | h
          · exact (closerI_chars hu _ h).2.2.1 rfl
          · exact hC.1 h
      have hA2' : '!' ∉ u.T.stage cfg.esc 1 true m n0 0 0 ++ (closerI u ++
          u.C.stage cfg.esc 1 true (m + u.T.escs cfg.esc) (n0 + u.T.cnt 0) 0 0) := by
        intro h
        rcases List.mem_append.1 h with h | h
        · exact hT.2.2.1 h
        · rcases List.mem_append.1 h with h | h
          · exact (closerI_chars hu _ h).2.2.2 rfl
          · exact hC.2.2.1 h
      have := ih (P ++ A ++ ['[']) (u.T.stage cfg.esc 1 true m n0 0 0 ++ (closerI u ++
          u.C.stage cfg.esc 1 true (m + u.T.escs cfg.esc) (n0 + u.T.cnt 0) 0 0))
        (m + u.T.escs cfg.esc + u.C.escs cfg.esc) (n0 + u.T.cnt 0 + u.C.cnt 0) (some '[')
        (skipA_quiet _ hA1' hA2') (by simp) (gOK_tl hus)
      rw [hrest, hlen] at this
      have e1 : P ++ A ++ ['['] ++ (u.T.stage cfg.esc 1 true m n0 0 0 ++ (closerI u ++
          u.C.stage cfg.esc 1 true (m + u.T.escs cfg.esc) (n0 + u.T.cnt 0) 0 0) ++ R) =
          P ++ (A ++ gStage cfg.esc 1 true m n0 (.lk u :: r)) := by
        rw [gStage_lk, hrest]; simp [closerI, List.append_assoc]
      have e2 : u.T.stage cfg.esc 1 true m n0 0 0 ++ (closerI u ++
          u.C.stage cfg.esc 1 true (m + u.T.escs cfg.esc) (n0 + u.T.cnt 0) 0 0) ++ R =
          u.T.stage cfg.esc 1 true m n0 0 0 ++ (']' :: '(' :: (destSrc u.url u.dtitle ++ (')' ::
            (u.C.stage cfg.esc 1 true (m + u.T.escs cfg.esc) (n0 + u.T.cnt 0) 0 0 ++ R)))) := by
        simp [closerI, List.append_assoc]
      rw [e1, e2] at this
      exact this
    | im u =>
      intro P A m n0 prev hA hprev hus
      have hu := gOK_im hus
      have := ih P (A ++ (openerM u ++ u.C.stage cfg.esc 1 true m n0 0 0)) (m + u.C.escs cfg.esc) (n0 + u.C.cnt 0) prev
        (skipA_append hA (skipA_append (skipA_openerM hu) (skipA_stage hE hrb u.C hu.after m n0))) hprev (gOK_tl hus)
      rw [gStage_im]
      simpa only [List.append_assoc] using this

/-! ### pattern 3: the inline links, left to right; every `![` is skipped -/

/-- pattern 3 finds the inline link behind a prefix the scan walks over -/
theorem findMatch3_atS (cfg : Inline.Cfg) (st : St) (pre text url post : Str) (title : Option (Char × Str))
    (hp : SkipA pre) (h1 : '[' ∉ text) (h2 : ']' ∉ text) (hd : DestOK url title) :
    findMatch cfg 3 (pre ++ '[' :: (text ++ ']' :: '(' :: (destSrc url title ++ ')' :: post))) 0 st =
      some (some ⟨.el (InlineRef.linkEl url (titleOf title) text), pre.length,
            ((((pre ++ ['[']) ++ text ++ [']']).length + 1 + (destSrc url title).length + 1 : Nat) : Int)⟩, st) := by
  have hD : pre ++ '[' :: (text ++ ']' :: '(' :: (destSrc url title ++ ')' :: post)) =
      (pre ++ ['[']) ++ text ++ ']' :: '(' :: (destSrc url title ++ ')' :: post) := by simp [List.append_assoc]
  have hlh := linkHandle_inl cfg st.stash (pre ++ ['[']) text url post title pre.length h1 h2 hd
  have hscan := linkScan_link_atS cfg st.stash 3 (by decide)
    (pre ++ '[' :: (text ++ ']' :: '(' :: (destSrc url title ++ ')' :: post))) pre
    (text ++ ']' :: '(' :: (destSrc url title ++ ')' :: post)) none 0 hp (by simp)
  have hlen : (pre ++ ['[']).length = 0 + pre.length + 1 := by simp
  rw [hlen, ← hD] at hlh
  simp only [Nat.zero_add] at hscan hlh
  rw [hlh] at hscan
  rw [findMatch3_eq, hscan]

/-- **one turn of the pattern loop at an inline link** behind a prefix the scan walks over (as
    `applyPattern_inlAt`) -/
theorem applyPattern_inlAtS (cfg : Inline.Cfg) (hi : HI) (st st1 : St) (pre text text' url post : Str)
    (title : Option (Char × Str)) (hp : SkipA pre) (h1 : '[' ∉ text) (h2 : ']' ∉ text)
    (hd : DestOK url title) (hne : text ≠ []) (hnest : hi text 4 st = some (text', st1)) :
    applyPattern cfg hi 3 (pre ++ '[' :: (text ++ ']' :: '(' :: (destSrc url title ++ ')' :: post))) 0 st =
      some (pre ++ (placeholder st1.stash.length ++ post), true, 0,
        { st1 with stash := st1.stash ++ [.node (InlineRef.linkEl url (titleOf title) text')] }) := by
  have hf := findMatch3_atS cfg st pre text url post title hp h1 h2 hd
  obtain ⟨e1, e2, e3, e4, e5, e6⟩ := InlineRef.linkEl_fields url (titleOf title) text
  have htr : Node.truthy (some text) = true := by
    cases text with
    | nil => exact absurd rfl hne
    | cons a b => rfl
  have htake : (pre ++ '[' :: (text ++ ']' :: '(' :: (destSrc url title ++ ')' :: post))).take pre.length = pre := by simp
  have hdrop : (pre ++ '[' :: (text ++ ']' :: '(' :: (destSrc url title ++ ')' :: post))).drop
      (((pre ++ ['[']) ++ text ++ [']']).length + 1 + (destSrc url title).length + 1) = post := by
    have : pre ++ '[' :: (text ++ ']' :: '(' :: (destSrc url title ++ ')' :: post)) =
        ((pre ++ ['[']) ++ text ++ [']'] ++ ['('] ++ destSrc url title ++ [')']) ++ post := by simp [List.append_assoc]
    rw [this, List.drop_left' (by simp; omega)]
  have hr : hiOpt hi (InlineRef.linkEl url (titleOf title) text).text
      (InlineRef.linkEl url (titleOf title) text).textAtomic (3 + 1) st = some (some text', st1) := by
    rw [e4, e3]
    simp [hiOpt, htr, hnest]
  have hr2 : ∀ b st', hiOpt hi none b 3 st' = some (none, st') := by intro b st'; simp [hiOpt, Node.truthy]
  simp only [applyPattern, hf]
  have hno : ((InlineRef.linkEl url (titleOf title) text).text.isSome &&
      (InlineRef.linkEl url (titleOf title) text).textAtomic) = false := by
    rw [e3]; simp
  simp only [hno, Bool.false_eq_true, if_false, hiNode, hr, e2, hr2, e1, hiNodes, stashNode, InlineRef.pyDrop_nat,
    htake, hdrop]
  rw [← linkEl_text url (titleOf title) text text']
  generalize InlineRef.linkEl url (titleOf title) text = L at e1 e2
  obtain ⟨tag, attrs, tx, ta, ch, tl, tla⟩ := L
  simp only at e1 e2
  subst e1 e2
  simp [List.append_assoc]

/-- **the link pass**: one turn of the pattern loop per inline link; the images stay as they are -/
theorem link_pass_g (cfg : Inline.Cfg) (hE : EscOK cfg.esc) (hrb : ']' ∈ cfg.esc) (f : Nat) (gs : List GUse) :
    ∀ (A : Str) (m n0 : Nat) (st : St) (g : Nat), SkipA A → (∀ x ∈ gs, GUseOK cfg.esc x) →
      hiLoop (applyPattern cfg (fun d p s => handleInline cfg (f + 2) d p s)) (g + gLinks gs)
        (A ++ gStage cfg.esc 1 true m n0 gs) 3 0 st =
      hiLoop (applyPattern cfg (fun d p s => handleInline cfg (f + 2) d p s)) g
        (A ++ gStageL cfg.esc m n0 st.stash.length gs) 3 0
        { st with stash := st.stash ++ gLinkStash cfg.esc m n0 st.stash.length gs } := by
  induction gs with
  | nil => intro A m n0 st g _ _; simp [gStage, gStageL, gLinkStash, gLinks]
  | cons x r ih =>
    cases x with
    | lk u =>
      intro A m n0 st g hA hus
      have hu := gOK_lk hus
      have hur := gOK_tl hus
      have hT := not_mem_of_charOK (charOK_stage hE hrb 1 (by omega) u.T hu.text.ok hu.text.plain m n0 0 0)
      have hnest := handleInline_tail cfg hE hrb f u.T m n0 0 0 st 4 (by omega) hu.text.ok hu.text.plain hu.text.under
      have hstep := applyPattern_inlAtS cfg (fun d p s => handleInline cfg (f + 2) d p s) st
        { st with stash := st.stash ++ (nodesOf 1 u.T.segs ++ nodesOf 2 u.T.segs) } A
        (u.T.stage cfg.esc 1 true m n0 0 0)
        (u.T.stage cfg.esc 3 true m n0 st.stash.length (st.stash.length + u.T.cnt 1)) u.url
        (u.C.stage cfg.esc 1 true (m + u.T.escs cfg.esc) (n0 + u.T.cnt 0) 0 0 ++
          gStage cfg.esc 1 true (m + u.T.escs cfg.esc + u.C.escs cfg.esc) (n0 + u.T.cnt 0 + u.C.cnt 0) r)
        u.dtitle hA hT.1 hT.2.1 hu.dest
        (stage_ne_nil cfg.esc 1 u.T m n0 0 0 hu.text.ok (by omega) hu.textNe) hnest
      have hA' : SkipA (A ++ (placeholder (st.stash.length + u.T.cnt 1 + u.T.cnt 2) ++
          u.C.stage cfg.esc 1 true (m + u.T.escs cfg.esc) (n0 + u.T.cnt 0) 0 0)) :=
        skipA_append hA (skipA_append (skipA_placeholder _) (skipA_stage hE hrb u.C hu.after _ _))
      have e3 := ih _ (m + u.T.escs cfg.esc + u.C.escs cfg.esc) (n0 + u.T.cnt 0 + u.C.cnt 0)
        { st with stash := st.stash ++ (nodesOf 1 u.T.segs ++ nodesOf 2 u.T.segs) ++
          [.node (InlineRef.linkEl u.url (titleOf u.dtitle) (u.T.stage cfg.esc 3 true m n0 st.stash.length
            (st.stash.length + u.T.cnt 1)))] } g hA' hur
      have hlen2 : (st.stash ++ (nodesOf 1 u.T.segs ++ nodesOf 2 u.T.segs)).length =
          st.stash.length + u.T.cnt 1 + u.T.cnt 2 := by simp [Chunk.cnt]; omega
      have hlen3 : (st.stash ++ (nodesOf 1 u.T.segs ++ nodesOf 2 u.T.segs) ++
          [StashItem.node (InlineRef.linkEl u.url (titleOf u.dtitle) (u.T.stage cfg.esc 3 true m n0 st.stash.length
            (st.stash.length + u.T.cnt 1)))]).length = st.stash.length + u.T.cnt 1 + u.T.cnt 2 + 1 := by
        rw [List.length_append, hlen2]; rfl
      simp only [hlen3] at e3
      simp only [hlen2] at hstep
      rw [show g + gLinks (.lk u :: r) = (g + gLinks r) + 1 by simp [gLinks]; omega]
      rw [gStage_lk]
      simp only [gStageL, gLinkStash, closerI]
      simp only [List.append_assoc, List.cons_append, List.nil_append] at hstep e3 ⊢
      rw [hiLoop_step _ _ _ 3 0 st (by omega) _ _ _ _ hstep]
      simp only [if_true]
      rw [e3]
    | im u =>
      intro A m n0 st g hA hus
      have hu := gOK_im hus
      have e3 := ih (A ++ (openerM u ++ u.C.stage cfg.esc 1 true m n0 0 0)) (m + u.C.escs cfg.esc) (n0 + u.C.cnt 0)
        st g (skipA_append hA (skipA_append (skipA_openerM hu) (skipA_stage hE hrb u.C hu.after m n0))) (gOK_tl hus)
      rw [gStage_im]
      simp only [gStageL, gLinkStash, gLinks]
      simp only [List.append_assoc] at e3 ⊢
      exact e3

/-! ### after the link pass pattern 3 finds nothing more: every `[` stands behind a `!` -/

theorem gStageL_lk (esc : List Char) (m n0 s : Nat) (u : IUse) (r : List GUse) :
    gStageL esc m n0 s (.lk u :: r) =
      placeholder (s + u.T.cnt 1 + u.T.cnt 2) ++ (u.C.stage esc 1 true (m + u.T.escs esc) (n0 + u.T.cnt 0) 0 0 ++
        gStageL esc (m + u.T.escs esc + u.C.escs esc) (n0 + u.T.cnt 0 + u.C.cnt 0) (s + u.T.cnt 1 + u.T.cnt 2 + 1) r) :=
  rfl

theorem gStageL_im (esc : List Char) (m n0 s : Nat) (u : DocImg.MUse) (r : List GUse) :
    gStageL esc m n0 s (.im u :: r) =
      openerM u ++ (u.C.stage esc 1 true m n0 0 0 ++ gStageL esc (m + u.C.escs esc) (n0 + u.C.cnt 0) s r) := rfl

theorem linkScan_skip_gL (cfg : Inline.Cfg) (hE : EscOK cfg.esc) (hrb : ']' ∈ cfg.esc) (stash : List StashItem)
    (pi : Nat) (hpi : ¬ (pi = 4 ∨ pi = 5 ∨ pi = 7)) (data : Str) (gs : List GUse) :
    ∀ (A : Str) (m n0 s : Nat) (prev : Option Char) (i : Nat), '[' ∉ A → (∀ x ∈ gs, GUseOK cfg.esc x) →
      linkScan cfg stash pi data prev (A ++ gStageL cfg.esc m n0 s gs) i = none := by
  induction gs with
  | nil =>
    intro A m n0 s prev i hA _
    simp only [gStageL, List.append_nil]
    exact linkScan_nobracket cfg stash pi hpi data A hA _ _
  | cons x r ih =>
    cases x with
    | lk u =>
      intro A m n0 s prev i hA hus
      have hu := gOK_lk hus
      have hC := not_mem_of_charOK (charOK_stage hE hrb 1 (by omega) u.C hu.after.ok hu.after.plain
        (m + u.T.escs cfg.esc) (n0 + u.T.cnt 0) 0 0)
      have hA' : '[' ∉ A ++ (placeholder (s + u.T.cnt 1 + u.T.cnt 2) ++
          u.C.stage cfg.esc 1 true (m + u.T.escs cfg.esc) (n0 + u.T.cnt 0) 0 0) := by
        intro h
        rcases List.mem_append.1 h with h | h
        · exact hA h
        · rcases List.mem_append.1 h with h | h
          · exact InlineRef.not_mem_placeholder (by decide) h
          · exact hC.1 h
      have := ih _ (m + u.T.escs cfg.esc + u.C.escs cfg.esc) (n0 + u.T.cnt 0 + u.C.cnt 0) (s + u.T.cnt 1 + u.T.cnt 2 + 1)
        prev i hA' (gOK_tl hus)
      rw [gStageL_lk]
      simpa only [List.append_assoc] using this
    | im u =>
      intro A m n0 s prev i hA hus
      have hu := gOK_im hus
      have hC := not_mem_of_charOK (charOK_stage hE hrb 1 (by omega) u.C hu.after.ok hu.after.plain m n0 0 0)
      have hA' : '[' ∉ u.alt ++ (closerM u ++ u.C.stage cfg.esc 1 true m n0 0 0) := by
        intro h
        rcases List.mem_append.1 h with h | h
        · exact (alnumSp_quiet (hu.alt _ h)).2.2.1 rfl
        · rcases List.mem_append.1 h with h | h
          · exact (closerM_chars hu _ h).2.2.1 rfl
          · exact hC.1 h
      have e : A ++ gStageL cfg.esc m n0 s (.im u :: r) =
          A ++ '!' :: '[' :: ((u.alt ++ (closerM u ++ u.C.stage cfg.esc 1 true m n0 0 0)) ++
            gStageL cfg.esc (m + u.C.escs cfg.esc) (n0 + u.C.cnt 0) s r) := by
        simp [gStageL, openerM, List.append_assoc]
      rw [e, InlineRef.linkScan_skip_bang cfg stash pi hpi data A _ prev i hA]
      exact ih _ _ _ _ _ _ hA' (gOK_tl hus)

/-! ### pattern 4: the images, left to right -/

/-- **the image pass** on the line the link pass leaves -/
theorem img_pass_g (cfg : Inline.Cfg) (hE : EscOK cfg.esc) (hrb : ']' ∈ cfg.esc) (hi : HI) (gs : List GUse) :
    ∀ (A : Str) (m n0 s : Nat) (st : St) (g : Nat), '!' ∉ A → (∀ x ∈ gs, GUseOK cfg.esc x) →
      hiLoop (applyPattern cfg hi) (g + gImgLen gs) (A ++ gStageL cfg.esc m n0 s gs) 4 0 st =
      hiLoop (applyPattern cfg hi) g (A ++ outStage cfg.esc 1 0 0 (gOuter cfg.esc m n0 s st.stash.length gs)) 4 0
        { st with stash := st.stash ++ gImgs gs } := by
  induction gs with
  | nil => intro A m n0 s st g _ _; simp [gStageL, gOuter, outStage, gImgs, gImgLen]
  | cons x r ih =>
    cases x with
    | lk u =>
      intro A m n0 s st g hA hus
      have hu := gOK_lk hus
      have hC := not_mem_of_charOK (charOK_stage hE hrb 1 (by omega) u.C hu.after.ok hu.after.plain
        (m + u.T.escs cfg.esc) (n0 + u.T.cnt 0) 0 0)
      have hA' : '!' ∉ A ++ (placeholder (s + u.T.cnt 1 + u.T.cnt 2) ++
          u.C.stage cfg.esc 1 true (m + u.T.escs cfg.esc) (n0 + u.T.cnt 0) 0 0) := by
        intro h
        rcases List.mem_append.1 h with h | h
        · exact hA h
        · rcases List.mem_append.1 h with h | h
          · exact InlineRef.not_mem_placeholder (by decide) h
          · exact hC.2.2.1 h
      have e3 := ih _ (m + u.T.escs cfg.esc + u.C.escs cfg.esc) (n0 + u.T.cnt 0 + u.C.cnt 0) (s + u.T.cnt 1 + u.T.cnt 2 + 1)
        st g hA' (gOK_tl hus)
      simp only [gStageL, gOuter, outStage, gImgs, gImgLen]
      simp only [List.append_assoc] at e3 ⊢
      rw [e3, outStage1_indep cfg.esc _ (0 + u.C.cnt 1) (0 + u.C.cnt 2) 0 0]
    | im u =>
      intro A m n0 s st g hA hus
      have hu := gOK_im hus
      have hur := gOK_tl hus
      have hC := not_mem_of_charOK (charOK_stage hE hrb 1 (by omega) u.C hu.after.ok hu.after.plain m n0 0 0)
      have ha1 : '[' ∉ u.alt := fun h => (alnumSp_quiet (hu.alt _ h)).2.2.1 rfl
      have ha2 : ']' ∉ u.alt := fun h => (alnumSp_quiet (hu.alt _ h)).2.2.2.1 rfl
      have ha3 : Inline.STX ∉ u.alt := fun h => (alnumSp_quiet (hu.alt _ h)).2.2.2.2.2 rfl
      have hstep := applyPattern_imgAt cfg hi st A u.alt u.url
        (u.C.stage cfg.esc 1 true m n0 0 0 ++ gStageL cfg.esc (m + u.C.escs cfg.esc) (n0 + u.C.cnt 0) s r)
        u.dtitle hA ha1 ha2 ha3 hu.dest
      have hA' : '!' ∉ A ++ (placeholder st.stash.length ++ u.C.stage cfg.esc 1 true m n0 0 0) := by
        intro h
        rcases List.mem_append.1 h with h | h
        · exact hA h
        · rcases List.mem_append.1 h with h | h
          · exact InlineRef.not_mem_placeholder (by decide) h
          · exact hC.2.2.1 h
      have e3 := ih _ (m + u.C.escs cfg.esc) (n0 + u.C.cnt 0) s
        { st with stash := st.stash ++ [.node (InlineRef.imgEl u.url (titleOf u.dtitle) u.alt)] } g hA' hur
      have hlen2 : (st.stash ++ [StashItem.node (InlineRef.imgEl u.url (titleOf u.dtitle) u.alt)]).length =
          st.stash.length + 1 := by simp
      simp only [hlen2] at e3
      rw [show g + gImgLen (.im u :: r) = (g + gImgLen r) + 1 by simp [gImgLen]; omega]
      simp only [gStageL, gOuter, outStage, gImgs, imgNode, openerM, closerM]
      simp only [List.append_assoc, List.cons_append, List.nil_append] at hstep e3 ⊢
      rw [hiLoop_step _ _ _ 4 0 st (by omega) _ _ _ _ hstep]
      simp only [if_true]
      rw [e3, outStage1_indep cfg.esc _ (0 + u.C.cnt 1) (0 + u.C.cnt 2) 0 0]

/-! ### the whole loop -/

theorem outOK_gOuter {esc : List Char} (gs : List GUse) (h : ∀ x ∈ gs, GUseOK esc x) :
    ∀ (m n0 s t : Nat), OutOK esc (gOuter esc m n0 s t gs) := by
  induction gs with
  | nil => intro _ _ _ _ o ho; simp [gOuter] at ho
  | cons x r ih =>
    cases x with
    | lk u =>
      intro m n0 s t o ho
      simp only [gOuter, List.mem_cons] at ho
      rcases ho with rfl | ho
      · exact (gOK_lk h).after
      · exact ih (gOK_tl h) _ _ _ _ o ho
    | im u =>
      intro m n0 s t o ho
      simp only [gOuter, List.mem_cons] at ho
      rcases ho with rfl | ho
      · exact (gOK_im h).after
      · exact ih (gOK_tl h) _ _ _ _ o ho

theorem outCnt_gOuterL (esc : List Char) (k : Nat) (gs : List GUse) :
    ∀ (m n0 s t : Nat), outCnt k (gOuter esc m n0 s t gs) = gOutCnt k gs := by
  induction gs with
  | nil => intro _ _ _ _; rfl
  | cons x r ih =>
    cases x with
    | lk u => intro m n0 s t; simp only [gOuter, outCnt, gOutCnt, GUse.C, ih]
    | im u => intro m n0 s t; simp only [gOuter, outCnt, gOutCnt, GUse.C, ih]

theorem gNodes0_lengthL (gs : List GUse) : (gNodes0 gs).length = gCnt0 gs := by
  induction gs with
  | nil => rfl
  | cons x r ih =>
    cases x with
    | lk u => simp [gNodes0, gCnt0, GUse.tCnt, GUse.C, ih, Chunk.cnt, Nat.add_assoc]
    | im u => simp [gNodes0, gCnt0, GUse.tCnt, GUse.C, ih, Chunk.cnt]

theorem gEscStash_lengthL (esc : List Char) (gs : List GUse) : (gEscStash esc gs).length = gEscs esc gs := by
  induction gs with
  | nil => rfl
  | cons x r ih =>
    cases x with
    | lk u => simp [gEscStash, gEscs, GUse.tEscs, GUse.C, ih, Chunk.escStash_length, Nat.add_assoc]
    | im u => simp [gEscStash, gEscs, GUse.tEscs, GUse.C, ih, Chunk.escStash_length]

theorem gLinkStash_lengthL (esc : List Char) (gs : List GUse) :
    ∀ (m n0 s : Nat), (gLinkStash esc m n0 s gs).length = gLinkLen gs := by
  induction gs with
  | nil => intro _ _ _; rfl
  | cons x r ih =>
    cases x with
    | lk u => intro m n0 s; simp [gLinkStash, gLinkLen, ih, Chunk.cnt]; omega
    | im u => intro m n0 s; simp [gLinkStash, gLinkLen, ih]

theorem gImgs_lengthL (gs : List GUse) : (gImgs gs).length = gImgLen gs := by
  induction gs with
  | nil => rfl
  | cons x r ih =>
    cases x with
    | lk u => simp [gImgs, gImgLen, ih]
    | im u => simp [gImgs, gImgLen, ih]

theorem gLinks_le (gs : List GUse) : gLinks gs ≤ gLinkLen gs := by
  induction gs with
  | nil => simp [gLinks, gLinkLen]
  | cons x r ih =>
    cases x with
    | lk u => simp only [gLinks, gLinkLen]; omega
    | im u => simp only [gLinks, gLinkLen]; omega

/-- the line is long enough for the fuel of the loop -/
theorem gRaw_length {esc : List Char} (gs : List GUse) (h : ∀ x ∈ gs, GUseOK esc x) : ∀ (m n0 : Nat),
    gEscs esc gs + gCnt0 gs + gLinkLen gs + gImgLen gs + gOutCnt 1 gs + gOutCnt 2 gs ≤
      (gStage esc 0 false m n0 gs).length := by
  induction gs with
  | nil => intro _ _; simp [gEscs, gCnt0, gLinkLen, gImgLen, gOutCnt, gStage]
  | cons x r ih =>
    cases x with
    | lk u =>
      intro m n0
      have hu := gOK_lk h
      have h1 := chunk_raw_length esc u.T hu.text.ok
      have h2 := chunk_raw_length esc u.C hu.after.ok
      have h3 := ih (gOK_tl h) (m + u.T.escs esc + u.C.escs esc) (n0 + u.T.cnt 0 + u.C.cnt 0)
      rw [gStage_lk]
      simp only [gEscs, gCnt0, gLinkLen, gImgLen, gOutCnt, GUse.tEscs, GUse.tCnt, GUse.C, Chunk.stage_raw,
        List.length_cons, List.length_append, List.length_nil]
      omega
    | im u =>
      intro m n0
      have hu := gOK_im h
      have h2 := chunk_raw_length esc u.C hu.after.ok
      have h3 := ih (gOK_tl h) (m + u.C.escs esc) (n0 + u.C.cnt 0)
      rw [gStage_im]
      simp only [gEscs, gCnt0, gLinkLen, gImgLen, gOutCnt, GUse.tEscs, GUse.tCnt, GUse.C, Chunk.stage_raw,
        List.length_cons, List.length_append, openerM]
      omega

theorem bs_not_mem_gStage1 {cfg : Inline.Cfg} (hE : EscOK cfg.esc) (hrb : ']' ∈ cfg.esc) (gs : List GUse)
    (hgs : ∀ x ∈ gs, GUseOK cfg.esc x) : ∀ (m n0 : Nat), '\\' ∉ gStage cfg.esc 1 true m n0 gs := by
  induction gs with
  | nil => intro _ _ h; simp [gStage] at h
  | cons x r ih =>
    cases x with
    | lk u =>
      intro m n0 h
      have hu := gOK_lk hgs
      rw [gStage_lk] at h
      simp only [List.mem_append, List.mem_singleton] at h
      rcases h with h | h | h | h | h
      · exact absurd h (by decide)
      · exact bs_not_mem_stage hE hrb 1 (by omega) u.T hu.text.ok hu.text.plain _ _ _ _ h
      · exact bs_not_mem_closerI hu h
      · exact bs_not_mem_stage hE hrb 1 (by omega) u.C hu.after.ok hu.after.plain _ _ _ _ h
      · exact ih (gOK_tl hgs) _ _ h
    | im u =>
      intro m n0 h
      have hu := gOK_im hgs
      rw [gStage_im] at h
      simp only [List.mem_append] at h
      rcases h with h | h | h
      · exact bs_not_mem_openerM hu h
      · exact bs_not_mem_stage hE hrb 1 (by omega) u.C hu.after.ok hu.after.plain _ _ _ _ h
      · exact ih (gOK_tl hgs) _ _ h

/-- **the pattern loop on the line**: the code spans of all chunks, the escapes of all chunks, the links left to right
    (each with the emphases of its text), the images left to right, the `*` emphases and the `_` emphases of the
    contents outside -/
theorem loopOK_mixed (cfg : Inline.Cfg) (hE : EscOK cfg.esc) (hrb : ']' ∈ cfg.esc) (C0 : Chunk) (gs : List GUse)
    (h0 : ChunkOK cfg.esc C0) (hgs : ∀ g ∈ gs, GUseOK cfg.esc g) : LoopOKG cfg C0 gs := by
  intro st
  generalize hraw : gRaw cfg.esc C0 gs = raw
  have hlen : C0.escs cfg.esc + C0.cnt 0 + C0.cnt 1 + C0.cnt 2 +
      (gEscs cfg.esc gs + gCnt0 gs + gLinkLen gs + gImgLen gs + gOutCnt 1 gs + gOutCnt 2 gs) ≤ raw.length := by
    have h1 := chunk_raw_length cfg.esc C0 h0.ok
    have h2 := gRaw_length gs hgs 0 0
    rw [← hraw, gRaw, List.length_append]; omega
  have hul := gLinks_le gs
  obtain ⟨x, hx⟩ : ∃ x, loopFuel raw.length =
      x + 1 + 1 + gOutCnt 2 gs + C0.cnt 2 + 1 + gOutCnt 1 gs + C0.cnt 1 + 1 + 9 + gImgLen gs + 1 + gLinks gs + 1 + 1 +
        gEscs cfg.esc gs + C0.escs cfg.esc + 1 + gCnt0 gs + C0.cnt 0 :=
    ⟨loopFuel raw.length - (gOutCnt 2 gs + C0.cnt 2 + gOutCnt 1 gs + C0.cnt 1 + gImgLen gs + gLinks gs +
      gEscs cfg.esc gs + C0.escs cfg.esc + gCnt0 gs + C0.cnt 0 + 17), by
      have := CodeLaw.loopFuel_ge raw.length; omega⟩
  unfold handleInlineTop depthFuel
  rw [show raw.length + 20 = ((raw.length + 18) + 1) + 1 from rfl]
  unfold handleInline
  rw [hx]
  generalize hhi : (fun d p s => handleInline cfg ((raw.length + 18) + 1) d p s) = hi
  generalize hs0 : st.stash.length = s0
  rw [← hraw, gRaw, ← Chunk.stage_raw cfg.esc 0 0 0 0 C0]
  -- pattern 0
  have e0 := code_pass_chunk cfg hi hE.bs hE.tick (gStage cfg.esc 0 false 0 0 gs) (gStage_head _ _ _ _ _ _) C0 []
    0 0 0 0 st (x + 1 + 1 + gOutCnt 2 gs + C0.cnt 2 + 1 + gOutCnt 1 gs + C0.cnt 1 + 1 + 9 + gImgLen gs + 1 + gLinks gs + 1 + 1 +
        gEscs cfg.esc gs + C0.escs cfg.esc + 1 + gCnt0 gs) btOK_nil (by simp) h0.ok h0.junctions
  simp only [List.nil_append] at e0
  rw [e0, hs0]
  have hb1 := btOK_chunk1 hE.bs hE.tick C0.segs [] C0.t0 (0 + escCount cfg.esc C0.t0) s0 0 0 btOK_nil (by simp) h0.ok
  simp only [List.nil_append] at hb1
  obtain ⟨e0', hb2⟩ := code_pass_g cfg hi hE.bs hE.tick gs (C0.stage cfg.esc 1 false 0 s0 0 0) 0 0
    { st with stash := st.stash ++ nodesOf 0 C0.segs }
    (x + 1 + 1 + gOutCnt 2 gs + C0.cnt 2 + 1 + gOutCnt 1 gs + C0.cnt 1 + 1 + 9 + gImgLen gs + 1 + gLinks gs + 1 + 1 +
        gEscs cfg.esc gs + C0.escs cfg.esc + 1)
    (by simpa [Chunk.stage] using hb1) hgs
  rw [e0']
  have hl1 : (st.stash ++ nodesOf 0 C0.segs).length = s0 + C0.cnt 0 := by simp [hs0, Chunk.cnt]
  simp only [hl1] at hb2 ⊢
  rw [hiLoop_step _ _ _ 0 0 _ (by omega) _ _ _ _ (applyPattern_zero_none cfg _ _ _ (btFind_of_btOK _ hb2))]
  simp only [Bool.false_eq_true, if_false, Nat.zero_add]
  -- pattern 1
  have e1 := esc_pass_chunk cfg hi hE.bs 1 (by omega) (gStage cfg.esc 1 false 0 (s0 + C0.cnt 0) gs) C0 [] 0 s0 0 0
    { st with stash := st.stash ++ nodesOf 0 C0.segs ++ gNodes0 gs }
    (x + 1 + 1 + gOutCnt 2 gs + C0.cnt 2 + 1 + gOutCnt 1 gs + C0.cnt 1 + 1 + 9 + gImgLen gs + 1 + gLinks gs + 1 + 1 +
        gEscs cfg.esc gs) (by simp) h0.ok
  simp only [List.nil_append] at e1
  rw [e1]
  have hl2 : (st.stash ++ nodesOf 0 C0.segs ++ gNodes0 gs).length = mStartG s0 C0 gs := by
    simp [hs0, Chunk.cnt, mStartG, gNodes0_lengthL, Nat.add_assoc]
  simp only [hl2]
  have hbs0 : '\\' ∉ C0.stage cfg.esc 1 true (mStartG s0 C0 gs) s0 0 0 :=
    bs_not_mem_stage hE hrb 1 (by omega) C0 h0.ok h0.plain _ _ _ _
  have e1' := esc_pass_g cfg hi hE hrb gs (C0.stage cfg.esc 1 true (mStartG s0 C0 gs) s0 0 0) 0 (s0 + C0.cnt 0)
    { st with stash := st.stash ++ nodesOf 0 C0.segs ++ gNodes0 gs ++ C0.escStash cfg.esc }
    (x + 1 + 1 + gOutCnt 2 gs + C0.cnt 2 + 1 + gOutCnt 1 gs + C0.cnt 1 + 1 + 9 + gImgLen gs + 1 + gLinks gs + 1 + 1) hbs0 hgs
  rw [e1']
  have hl3 : (st.stash ++ nodesOf 0 C0.segs ++ gNodes0 gs ++ C0.escStash cfg.esc).length = mStartG s0 C0 gs + C0.escs cfg.esc := by
    rw [List.length_append, hl2, Chunk.escStash_length]
  simp only [hl3]
  have hbsD : '\\' ∉ C0.stage cfg.esc 1 true (mStartG s0 C0 gs) s0 0 0 ++
      gStage cfg.esc 1 true (mStartG s0 C0 gs + C0.escs cfg.esc) (s0 + C0.cnt 0) gs := by
    intro h; rcases List.mem_append.1 h with h | h
    · exact hbs0 h
    · exact bs_not_mem_gStage1 hE hrb gs hgs _ _ h
  rw [hiLoop_step _ _ _ 1 0 _ (by omega) _ _ _ _ (applyPattern_esc_none cfg hi _ _ hbsD)]
  simp only [Bool.false_eq_true, if_false]
  -- pattern 2: the reference pattern finds nothing
  have hc0 := charOK_stage hE hrb 1 (by omega) C0 h0.ok h0.plain (mStartG s0 C0 gs) s0 0 0
  have hn0 := not_mem_of_charOK hc0
  have hsk0 : SkipA (C0.stage cfg.esc 1 true (mStartG s0 C0 gs) s0 0 0) := skipA_quiet _ hn0.1 hn0.2.2.1
  have hscan2 := linkScan2_g cfg hE hrb
    (st.stash ++ nodesOf 0 C0.segs ++ gNodes0 gs ++ C0.escStash cfg.esc ++ gEscStash cfg.esc gs)
    gs [] (C0.stage cfg.esc 1 true (mStartG s0 C0 gs) s0 0 0)
    (mStartG s0 C0 gs + C0.escs cfg.esc) (s0 + C0.cnt 0) none hsk0 (by simp) hgs
  simp only [List.nil_append, List.length_nil] at hscan2
  rw [show (1 : Nat) + 1 = 2 from rfl,
    hiLoop_step _ _ _ 2 0 _ (by omega) _ _ _ _ (InlineRef.applyPattern_none cfg hi 2 _ 0 _ (by
      rw [findMatch2_eq]; simp only [hscan2]))]
  simp only [Bool.false_eq_true, if_false]
  -- pattern 3: the inline links
  have hhi2 : hi = fun d p s => handleInline cfg ((raw.length + 17) + 2) d p s := hhi.symm
  have e2 := link_pass_g cfg hE hrb (raw.length + 17) gs (C0.stage cfg.esc 1 true (mStartG s0 C0 gs) s0 0 0)
    (mStartG s0 C0 gs + C0.escs cfg.esc) (s0 + C0.cnt 0)
    { st with stash := st.stash ++ nodesOf 0 C0.segs ++ gNodes0 gs ++ C0.escStash cfg.esc ++ gEscStash cfg.esc gs }
    (x + 1 + 1 + gOutCnt 2 gs + C0.cnt 2 + 1 + gOutCnt 1 gs + C0.cnt 1 + 1 + 9 + gImgLen gs + 1) hsk0 hgs
  have hl4 : (st.stash ++ nodesOf 0 C0.segs ++ gNodes0 gs ++ C0.escStash cfg.esc ++ gEscStash cfg.esc gs).length = lStartG cfg.esc s0 C0 gs := by
    rw [List.length_append, hl3, gEscStash_lengthL]; rfl
  simp only [hl4] at e2
  rw [show (2 : Nat) + 1 = 3 from rfl, hhi2, e2, ← hhi2]
  have hfold2 : gLinkStash cfg.esc (mStartG s0 C0 gs + C0.escs cfg.esc) (s0 + C0.cnt 0) (lStartG cfg.esc s0 C0 gs) gs =
      lineLinksG cfg.esc s0 C0 gs := rfl
  rw [hfold2]
  -- pattern 3 once more: every `[` left stands behind `!`
  generalize hD2 : C0.stage cfg.esc 1 true (mStartG s0 C0 gs) s0 0 0 ++
      gStageL cfg.esc (mStartG s0 C0 gs + C0.escs cfg.esc) (s0 + C0.cnt 0) (lStartG cfg.esc s0 C0 gs) gs = D2
  have hscan3 : ∀ (stash : List StashItem), linkScan cfg stash 3 D2 none D2 0 = none := by
    intro stash
    have := linkScan_skip_gL cfg hE hrb stash 3 (by decide) D2 gs (C0.stage cfg.esc 1 true (mStartG s0 C0 gs) s0 0 0)
      (mStartG s0 C0 gs + C0.escs cfg.esc) (s0 + C0.cnt 0) (lStartG cfg.esc s0 C0 gs) none 0 hn0.1 hgs
    rw [hD2] at this; exact this
  rw [hiLoop_step _ _ _ 3 0 _ (by omega) _ _ _ _ (InlineRef.applyPattern_none cfg hi 3 _ 0 _ (by
      rw [findMatch3_eq']; simp only [hscan3]))]
  simp only [Bool.false_eq_true, if_false]
  rw [← hD2]
  -- pattern 4: the images
  have e4 := img_pass_g cfg hE hrb hi gs (C0.stage cfg.esc 1 true (mStartG s0 C0 gs) s0 0 0)
    (mStartG s0 C0 gs + C0.escs cfg.esc) (s0 + C0.cnt 0) (lStartG cfg.esc s0 C0 gs)
    { st with stash := st.stash ++ nodesOf 0 C0.segs ++ gNodes0 gs ++ C0.escStash cfg.esc ++ gEscStash cfg.esc gs ++ lineLinksG cfg.esc s0 C0 gs }
    (x + 1 + 1 + gOutCnt 2 gs + C0.cnt 2 + 1 + gOutCnt 1 gs + C0.cnt 1 + 1 + 9) hn0.2.2.1 hgs
  have hl5 : (st.stash ++ nodesOf 0 C0.segs ++ gNodes0 gs ++ C0.escStash cfg.esc ++ gEscStash cfg.esc gs ++ lineLinksG cfg.esc s0 C0 gs).length = iStartG cfg.esc s0 C0 gs := by
    rw [List.length_append, hl4]; simp [lineLinksG, gLinkStash_lengthL, iStartG]
  simp only [hl5] at e4
  rw [show (3 : Nat) + 1 = 4 from rfl, e4]
  have hos : OutOK cfg.esc (lineOuterG cfg.esc s0 C0 gs) := outOK_gOuter gs hgs _ _ _ _
  have hfold : gOuter cfg.esc (mStartG s0 C0 gs + C0.escs cfg.esc) (s0 + C0.cnt 0) (lStartG cfg.esc s0 C0 gs) (iStartG cfg.esc s0 C0 gs) gs =
      lineOuterG cfg.esc s0 C0 gs := rfl
  rw [hfold]
  generalize hos' : lineOuterG cfg.esc s0 C0 gs = os at hos
  -- patterns 4–12
  have hmid : Mid (C0.stage cfg.esc 1 true (mStartG s0 C0 gs) s0 0 0 ++ outStage cfg.esc 1 0 0 os) :=
    Mid.append (mid_of_charOK hc0) (mid_of_charOK (charOK_outStage hE hrb 1 (by omega) os hos 0 0))
  rw [hiLoop_mid cfg hi _ _ hmid _ 9 4 rfl (by omega)]
  -- pattern 13
  have hns : nsFind (C0.stage cfg.esc 1 true (mStartG s0 C0 gs) s0 0 0 ++ outStage cfg.esc 1 0 0 os) 0 = none :=
    nsFind_of_nsSkip _ (nsSkip_append (nsSkip_stage hE.star hE.under 1 (by omega) C0 h0.ok _ _ _ _)
      (nsSkip_outStage hE.star hE.under 1 (by omega) os hos 0 0))
  rw [hiLoop_step _ _ _ 13 0 _ (by omega) _ _ _ _ (applyPattern_13 cfg hi _ _ hns)]
  simp only [Bool.false_eq_true, if_false]
  have hoc : ∀ k, outCnt k os = gOutCnt k gs := by
    intro k; rw [← hos']; exact outCnt_gOuterL cfg.esc k gs _ _ _ _
  -- pattern 14
  have hl5' : (st.stash ++ nodesOf 0 C0.segs ++ gNodes0 gs ++ C0.escStash cfg.esc ++ gEscStash cfg.esc gs ++ lineLinksG cfg.esc s0 C0 gs ++ gImgs gs).length = o1StartG cfg.esc s0 C0 gs := by
    rw [List.length_append, hl5, gImgs_lengthL]; rfl
  have e14 := star_pass_chunk cfg (raw.length + 18) hE.star hE.under (outStage cfg.esc 1 0 0 os) C0 []
    (mStartG s0 C0 gs) s0 0 0
    { st with stash := st.stash ++ nodesOf 0 C0.segs ++ gNodes0 gs ++ C0.escStash cfg.esc ++ gEscStash cfg.esc gs ++ lineLinksG cfg.esc s0 C0 gs ++ gImgs gs } (x + 1 + 1 + gOutCnt 2 gs + C0.cnt 2 + 1 + gOutCnt 1 gs) (by simp) h0.ok
  simp only [List.nil_append, hl5'] at e14
  rw [show 13 + 1 = 14 from rfl, ← hhi, e14]
  have e14' := star_pass_outer cfg (raw.length + 18) hE hrb os
    (C0.stage cfg.esc 2 true (mStartG s0 C0 gs) s0 (o1StartG cfg.esc s0 C0 gs) 0) 0 0
    { st with stash := st.stash ++ nodesOf 0 C0.segs ++ gNodes0 gs ++ C0.escStash cfg.esc ++ gEscStash cfg.esc gs ++ lineLinksG cfg.esc s0 C0 gs ++ gImgs gs ++ nodesOf 1 C0.segs } (x + 1 + 1 + gOutCnt 2 gs + C0.cnt 2 + 1)
    (star_not_mem_stage2 hE hrb C0 h0.ok h0.plain _ _ _ _) hos
  have hl6 : (st.stash ++ nodesOf 0 C0.segs ++ gNodes0 gs ++ C0.escStash cfg.esc ++ gEscStash cfg.esc gs ++ lineLinksG cfg.esc s0 C0 gs ++ gImgs gs ++ nodesOf 1 C0.segs).length = o1StartG cfg.esc s0 C0 gs + C0.cnt 1 := by
    rw [List.length_append, hl5']; rfl
  simp only [hl6, hoc] at e14'
  rw [outStage1_indep cfg.esc os 0 0 (0 + C0.cnt 1) (0 + C0.cnt 2)] at e14
  rw [outStage1_indep cfg.esc os (0 + C0.cnt 1) (0 + C0.cnt 2) 0 0] at e14
  rw [e14']
  have hstar2 : '*' ∉ C0.stage cfg.esc 2 true (mStartG s0 C0 gs) s0 (o1StartG cfg.esc s0 C0 gs) 0 ++
      outStage cfg.esc 2 (o1StartG cfg.esc s0 C0 gs + C0.cnt 1) 0 os := by
    intro h; rcases List.mem_append.1 h with h | h
    · exact star_not_mem_stage2 hE hrb C0 h0.ok h0.plain _ _ _ _ h
    · have := (charOK_outStage hE hrb 2 (by omega) os hos _ _ _ h).2.2.2.2.2.2.2.1 rfl
      omega
  rw [hhi, hiLoop_step _ _ _ 14 0 _ (by omega) _ _ _ _
    (applyPattern_em_none cfg hi 14 (Or.inl rfl) _ _ (by simpa using hstar2))]
  simp only [Bool.false_eq_true, if_false]
  -- pattern 15
  have hl7 : (st.stash ++ nodesOf 0 C0.segs ++ gNodes0 gs ++ C0.escStash cfg.esc ++ gEscStash cfg.esc gs ++ lineLinksG cfg.esc s0 C0 gs ++ gImgs gs ++ nodesOf 1 C0.segs ++ outNodes 1 os).length = o2StartG cfg.esc s0 C0 gs := by
    rw [List.length_append, hl6, outNodes_length, hoc]; simp [o2StartG, Nat.add_assoc]
  have e15 := under_pass_chunk cfg (raw.length + 18) hE.star hE.under
    (outStage cfg.esc 2 (o1StartG cfg.esc s0 C0 gs + C0.cnt 1) 0 os) (outStage_head _ _ _ _ _)
    (noTriple_outStage2 hE.star hE.under os hos _ _) C0 [] (mStartG s0 C0 gs) s0 (o1StartG cfg.esc s0 C0 gs) 0
    { st with stash := st.stash ++ nodesOf 0 C0.segs ++ gNodes0 gs ++ C0.escStash cfg.esc ++ gEscStash cfg.esc gs ++ lineLinksG cfg.esc s0 C0 gs ++ gImgs gs ++ nodesOf 1 C0.segs ++ outNodes 1 os } (x + 1 + 1 + gOutCnt 2 gs) (by simp) h0.ok
    (by
      by_cases ht : C0.t0 = []
      · simp only [ht, if_true]; have := h0.under; rw [ht] at this; simpa [lastOr, isW, lastW] using this
      · simp only [ht, if_false]; exact h0.under)
  simp only [List.nil_append, hl7] at e15
  rw [show 14 + 1 = 15 from rfl, ← hhi, e15]
  have e15' := under_pass_outer cfg (raw.length + 18) hE hrb os
    (C0.stage cfg.esc 3 true (mStartG s0 C0 gs) s0 (o1StartG cfg.esc s0 C0 gs) (o2StartG cfg.esc s0 C0 gs))
    (o1StartG cfg.esc s0 C0 gs + C0.cnt 1) 0
    { st with stash := st.stash ++ nodesOf 0 C0.segs ++ gNodes0 gs ++ C0.escStash cfg.esc ++ gEscStash cfg.esc gs ++ lineLinksG cfg.esc s0 C0 gs ++ gImgs gs ++ nodesOf 1 C0.segs ++ outNodes 1 os ++ nodesOf 2 C0.segs } (x + 1 + 1)
    (under_not_mem_stage3 hE hrb C0 h0.ok h0.plain _ _ _ _) hos
  have hl8 : (st.stash ++ nodesOf 0 C0.segs ++ gNodes0 gs ++ C0.escStash cfg.esc ++ gEscStash cfg.esc gs ++ lineLinksG cfg.esc s0 C0 gs ++ gImgs gs ++ nodesOf 1 C0.segs ++ outNodes 1 os ++ nodesOf 2 C0.segs).length =
      o2StartG cfg.esc s0 C0 gs + C0.cnt 2 := by
    rw [List.length_append, hl7]; rfl
  simp only [hl8, hoc] at e15'
  rw [e15']
  have hund3 : '_' ∉ C0.stage cfg.esc 3 true (mStartG s0 C0 gs) s0 (o1StartG cfg.esc s0 C0 gs) (o2StartG cfg.esc s0 C0 gs) ++
      outStage cfg.esc 3 (o1StartG cfg.esc s0 C0 gs + C0.cnt 1) (o2StartG cfg.esc s0 C0 gs + C0.cnt 2) os := by
    intro h; rcases List.mem_append.1 h with h | h
    · exact under_not_mem_stage3 hE hrb C0 h0.ok h0.plain _ _ _ _ h
    · have := (charOK_outStage hE hrb 3 (by omega) os hos _ _ _ h).2.2.2.2.2.2.2.2 rfl
      omega
  rw [hhi, hiLoop_step _ _ _ 15 0 _ (by omega) _ _ _ _
    (applyPattern_em_none cfg hi 15 (Or.inr rfl) _ _ (by simpa using hund3))]
  simp only [Bool.false_eq_true, if_false]
  simp only [hiLoop, patternCount, show ¬ (15 + 1 < 16) by omega, if_false]
  subst hos'
  simp [gRes, gStash, List.append_assoc]

end MdVerif.DocMix
