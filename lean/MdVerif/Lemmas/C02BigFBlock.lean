/-
Lemmas for `Props/C02Big.lean`, section 8 (fenced_code): the extended block parser on a text in which every STX/ETX
belongs to a raw-HTML placeholder `STX wzxhzdk:n ETX` that is a block of its own (`NoCtlF.OwnBlock`, what
`FencedBlockPreprocessor` writes) — for EVERY such text, no domain of characters.

An instance of worker fc2's generic block-stage invariant (`Lemmas/F/PlaceholdersXTBlock*.lean`, `Dom2`) with the three
string classes
  ordinary blocks      `AllC okc`            (no STX/ETX),
  strings of the tree  `NoPair STX 'k'`      (no STX is followed by `k`: no inline placeholder can be read in it),
  block-list elements  ordinary or one placeholder block;
a placeholder block only ever meets `EmptyBlockProcessor` and `ParagraphProcessor` (`dispatchXT_tokline`), so the
placeholders stay out of the atomic `code` texts, the attributes and the log.  Result (`block_stage_own_q`): every text
and tail of the tree has no `STX k` (atomic texts have no STX at all), the log has no STX/ETX.
Core Lean only.
-/
import MdVerif.Lemmas.F.PlaceholdersXTBlock5
import MdVerif.Lemmas.C02BigX

namespace MdVerif.NoCtlXF.XT
variable [MdVerif.NoCtlF.HtmlBound]
set_option linter.unusedSectionVars false
open Py
open MdVerif.NoCtl (STX ETX NoCtl NoPair Blk.AllC)
open MdVerif.NoCtl.BlkB (PL pl_cons pl_one pl_nil)
open MdVerif.NoCtl.BlkX (TX LogC XInv)
open MdVerif.NoCtl.BlkXT
open MdVerif.NoCtlF (HtmlBound nn NlOpt BeforeTok AfterTok OwnBlock TokBlock)

/-- ordinary blocks: no STX/ETX -/
abbrev Bq : Str → Prop := Blk.AllC NoCtl.Blk.okc

/-- strings of the tree: no STX is followed by `k` -/
abbrev Tq : Str → Prop := NoPair STX 'k'

/-- the elements of a block list: an ordinary block or one live placeholder block -/
def Rq (s : Str) : Prop := Bq s ∨ TokBlock HtmlBound.h s

theorem noCtl_of_bq {s : Str} (h : Bq s) : NoCtl s := NoCtl.allC_okc h

theorem bq_of_noCtl {s : Str} (h : NoCtl s) : Bq s := fun c hc => by
  have := NoCtl.noCtl_iff.1 h c hc
  simp [NoCtl.Blk.okc, this.1, this.2]

theorem tq_of_bq {s : Str} (h : Bq s) : Tq s := NoCtl.noPair_of_not_mem_left (noCtl_of_bq h).1

theorem tq_placeholder (n : Nat) : Tq (Fenced.placeholder n) := by
  have hrest : STX ∉ 'w' :: ("zxhzdk:".toList ++ natToDec n ++ [Char.ofNat 3]) := by
    intro hm
    simp only [List.mem_cons, List.mem_append, List.not_mem_nil, or_false] at hm
    rcases hm with hm | (hm | hm) | hm
    · revert hm; decide
    · revert hm; decide
    · have := natToDec_digits n _ hm
      revert this; decide
    · revert hm; decide
  have e : Fenced.placeholder n = [STX] ++ ('w' :: ("zxhzdk:".toList ++ natToDec n ++ [Char.ofNat 3])) := by
    simp [Fenced.placeholder]; rfl
  rw [e]
  exact NoCtl.noPair_append (NoCtl.noPair_of_not_mem_right (by decide)) (NoCtl.noPair_of_not_mem_left hrest)
    (.inr (by simp))

theorem tq_nlOpt {a : Str} (h : NlOpt a) : Tq a := by
  rcases h with rfl | rfl <;> decide

/-- a placeholder block has one STX, followed by `w` -/
theorem tq_tokBlock {x : Str} (h : TokBlock HtmlBound.h x) : Tq x := by
  obtain ⟨n, a, b, _, ha, hb, rfl⟩ := h
  refine NoCtl.noPair_append (NoCtl.noPair_append (tq_nlOpt ha) (tq_placeholder n) (.inr (by
    obtain ⟨r, hr⟩ := placeholder_cons n
    rw [hr]; simp [STX]; decide))) (tq_nlOpt hb) (.inr ?_)
  rcases hb with rfl | rfl <;> decide

theorem tq_join {a b : Str} (ha : Tq a) (hb : Tq b) : Tq (a ++ '\n' :: b) :=
  NoCtl.noPair_joinNl (by decide) (by decide) ha hb

/-- **the three string classes of the block stage with raw-HTML placeholders, for arbitrary text** -/
theorem dom2_q : Dom2 NoCtl.Blk.okc NoCtl.Blk.okc Bq Tq Rq where
  b := C02BigX.strDomX_okc
  sub := fun _ h => tq_of_bq h
  rOf := fun _ h => .inl h
  rSp := by
    intro s hs hsp
    rcases hs with h | h
    · exact h
    · exfalso
      have hp := (BlockExt.startsWith_iff_prefix _ _).mp hsp
      exact tokBlock_not_mem h (c := ' ') (by decide) (by decide) (by decide) (by decide)
        (hp.subset (by decide))
  join := fun _ _ ha hb => tq_join ha (tq_of_bq hb)
  lstrip := fun s h => h.infix (lstripP_suffix _ s).isInfix
  lines := fun _ h l hl => h.infix (BlockExt.mem_lines_infix hl)

/-! ### a placeholder block in the loop -/

theorem tok_step_q {tables : Bool} {cfg : BlockExt.XCfg} {tab : Nat} (htab : 0 < tab) {pb : Block.PB}
    (_hpb : PresT NoCtl.Blk.okc NoCtl.Blk.okc Bq Tq Rq pb) {state : List Block.BState} {refs : Block.Refs}
    {parent : Node} {b : Str} {rest : List Str} {r : Node × Block.Refs × List Str}
    (hP : TX NoCtl.Blk.okc NoCtl.Blk.okc Tq parent) (hA : parent.textAtomic = false)
    (hR : LogC NoCtl.Blk.okc Bq refs)
    (hb : TokBlock HtmlBound.h b) (hrest : PL Rq rest)
    (hr : BlockExt.dispatchXT tables cfg tab pb state refs parent b rest = some r) :
    ResT NoCtl.Blk.okc NoCtl.Blk.okc Bq Tq Rq r := by
  have hbT := tq_tokBlock hb
  obtain ⟨n, a, e, hn, ha, he, rfl⟩ := hb
  obtain ⟨w, hw⟩ := placeholder_cons n
  have hch := tokCh_placeholder n
  rw [hw] at hch
  rcases ha with rfl | rfl
  · -- the paragraph
    have e1 : [] ++ Fenced.placeholder n ++ e = STX :: w ++ e := by rw [hw]; rfl
    rw [e1] at hr hbT
    rw [dispatchXT_tokline tables cfg tab htab pb state refs parent STX w e rest hch (by decide) (by decide) he] at hr
    cases hr
    refine paraP_gen dom2_q.tnil hP hA hR (fun a' ha' => tq_join ha' hbT) ?_ hrest
    rw [show STX :: w ++ e = STX :: (w ++ e) from rfl, lstrip_of_head (by decide)]
    exact hbT
  · -- the line feed in front
    have e1 : ['\n'] ++ Fenced.placeholder n ++ e = '\n' :: (STX :: w) ++ e := by rw [hw]; rfl
    rw [e1] at hr
    rw [dispatchXT_nl_tokline tables cfg tab htab pb state refs parent (STX :: w) e rest hch he] at hr
    cases hr
    refine emptyP_t dom2_q hP hA hR ?_ hrest
    refine .inr ⟨n, [], e, hn, .inl rfl, he, ?_⟩
    rw [hw]; rfl

/-- **the loop of the extended block parser keeps the invariant on lists of ordinary blocks and placeholder blocks** -/
theorem parseBlocksXT_pres_q (tables : Bool) (cfg : BlockExt.XCfg) {tab : Nat} (htab : 0 < tab) (f : Nat) :
    PresT NoCtl.Blk.okc NoCtl.Blk.okc Bq Tq Rq (BlockExt.parseBlocksXT tables cfg tab f) :=
  parseBlocksXT_pres_of tables cfg tab (fun pb hpb state refs parent b rest r hP hA hR hb hrest hd => by
    rcases hb with hb | hb
    · exact dispatchXT_t dom2_q hpb hP hA hR hb hrest hd
    · exact tok_step_q htab hpb hP hA hR hb hrest hd) f

/-! ### the blocks of a text in which every placeholder is a block of its own -/

/-- **a block of a text in which every placeholder is a block of its own is an ordinary block or a placeholder block** -/
theorem rq_of_piece {s x u v : Str} (e : s = u ++ x ++ v) (hu : u = [] ∨ ∃ u', u = u' ++ nn)
    (hv : v = [] ∨ ∃ v', v = nn ++ v') (hx : ¬ nn <:+: x) (ho : OwnBlock HtmlBound.h s) : Rq x := by
  by_cases hs : STX ∈ x
  · -- a placeholder block
    right
    obtain ⟨x1, x2, rfl⟩ := List.append_of_mem hs
    obtain ⟨n, r, hn, hph, hbef, haft⟩ := ho.1 (u ++ x1) (x2 ++ v) (by rw [e]; simp)
    obtain ⟨x3, h3, hr3⟩ : ∃ x3, STX :: x2 = Fenced.placeholder n ++ x3 ∧ r = x3 ++ v := by
      have e2 : (STX :: x2) ++ v = Fenced.placeholder n ++ r := by rw [← hph]; rfl
      rcases List.append_eq_append_iff.1 e2 with ⟨w, hw1, hw2⟩ | ⟨w, hw1, hw2⟩
      · cases w with
        | nil => exact ⟨[], by simpa using hw1.symm, by simpa using hw2.symm⟩
        | cons c w' =>
          exfalso
          rcases hv with rfl | ⟨v', rfl⟩
          · cases hw2
          · simp only [nn, List.cons_append, List.cons.injEq] at hw2
            apply nl_not_mem_placeholder n
            rw [hw1, ← hw2.1]; simp
      · exact ⟨w, hw1, hw2⟩
    have hx1 : ¬ nn <:+: x1 := fun hi => hx (hi.trans ⟨[], STX :: x2, by simp⟩)
    have hx3 : ¬ nn <:+: x3 := fun hi => hx (hi.trans ⟨x1 ++ Fenced.placeholder n, [], by rw [h3]; simp⟩)
    refine ⟨n, x1, x3, hn, nlOpt_before hbef hx1, nlOpt_after (hr3 ▸ haft) hx3, ?_⟩
    rw [h3]; simp
  · -- an ordinary block
    left
    have he : ETX ∉ x := by
      intro hm
      obtain ⟨x1, x2, rfl⟩ := List.append_of_mem hm
      obtain ⟨n, u', _, hq'⟩ := ho.2 (u ++ x1) (x2 ++ v) (by rw [e]; simp)
      obtain ⟨body, hbody⟩ : ∃ body, Fenced.placeholder n = (STX :: body) ++ [ETX] := ⟨_, rfl⟩
      have hcut : u ++ x1 = u' ++ STX :: body := by
        rw [hbody, ← List.append_assoc] at hq'
        exact (List.append_inj' hq' rfl).1
      have hbm : ∀ c ∈ STX :: body, c ∈ Fenced.placeholder n := by
        intro c hc; rw [hbody]; exact List.mem_append_left _ hc
      have hs1 : STX ∉ x1 := fun h => hs (List.mem_append_left _ h)
      by_cases hlen : (STX :: body).length ≤ x1.length
      · have : (STX :: body) <:+ x1 :=
          List.suffix_of_suffix_length_le (l₃ := u ++ x1) ⟨u', hcut.symm⟩ (List.suffix_append u x1) hlen
        exact hs1 (this.subset (by simp))
      · have hsuf : x1 <:+ STX :: body :=
          List.suffix_of_suffix_length_le (l₃ := u ++ x1) (List.suffix_append u x1) ⟨u', hcut.symm⟩ (by omega)
        obtain ⟨t, ht⟩ := hsuf
        have htne : t ≠ [] := by
          intro h0; subst h0
          simp only [List.nil_append] at ht
          rw [ht] at hlen; exact hlen (Nat.le_refl _)
        have hu' : u = u' ++ t := by
          rw [← ht, ← List.append_assoc] at hcut
          exact List.append_cancel_right hcut
        rcases hu with rfl | ⟨u'', hu2⟩
        · have := congrArg List.length hu'
          simp only [List.length_nil, List.length_append] at this
          exact htne (List.eq_nil_of_length_eq_zero (by omega))
        · have hm := last_of_suffix_nn htne ⟨u', hu'.symm⟩ ⟨u'', hu2.symm⟩
          exact nl_not_mem_placeholder n (hbm _ (by rw [← ht]; exact List.mem_append_left _ hm))
    exact bq_of_noCtl ⟨hs, he⟩

/-- **the block list of a text in which every placeholder is a block of its own** -/
theorem pl_splitS_own_q {s : Str} (ho : OwnBlock HtmlBound.h s) : PL Rq (splitS nn s) := by
  intro x hx
  obtain ⟨u, v, e, hu, hv⟩ := mem_join_decomp (sep := nn) hx
  rw [join_splitS (by simp [nn])] at e
  exact rq_of_piece e hu hv (splitAux_no_sep nn (by simp [nn]) s 0 x hx) ho

/-- **the block stage with fenced_code, for every text in which every placeholder is a block of its own**: the tree
    satisfies fc2's invariant for the classes above, the log has no STX/ETX (`tab_length ≥ 1`) -/
theorem block_stage_own_q (tables : Bool) (xc : BlockExt.XCfg) {tab : Nat} (htab : 0 < tab) {text : Str}
    (ho : OwnBlock HtmlBound.h text) {root : Node} {log : Block.Refs}
    (hr : BlockExt.parseDocumentXT tables xc tab text = some (root, log)) :
    root.Forall (XInv NoCtl.Blk.okc NoCtl.Blk.okc Tq) ∧ LogC NoCtl.Blk.okc Bq log := by
  obtain ⟨o1, _, o3⟩ := parseBlocksXT_pres_q tables xc htab _ _ _ _ _ _
    (NoCtl.BlkX.tx_el dom2_q.tnil "div" (by decide)) rfl NoCtl.BlkX.logC_nil (pl_splitS_own_q ho) hr
  exact ⟨o1, o3⟩

/-- an ordinary text (a footnote body) parsed on an empty surrogate `div` with a given log -/
theorem block_chunk_q (tables : Bool) (xc : BlockExt.XCfg) {tab : Nat} (htab : 0 < tab) (f : Nat)
    {log : Block.Refs} (hl : LogC NoCtl.Blk.okc Bq log) {text : Str} (ht : NoCtl text)
    {root : Node} {log' : Block.Refs}
    (hr : Block.parseChunk (BlockExt.parseBlocksXT tables xc tab f) [] log (Node.el "div") text = some (root, log')) :
    root.Forall (XInv NoCtl.Blk.okc NoCtl.Blk.okc Tq) ∧ LogC NoCtl.Blk.okc Bq log' := by
  have hpl : PL Rq (splitS nn text) := fun x hx => .inl (fun c hc => by
    have hi : x <:+: text := by
      obtain ⟨u, v, e, _, _⟩ := mem_join_decomp (sep := nn) hx
      rw [join_splitS (by simp [nn])] at e
      exact ⟨u, v, e.symm⟩
    have := NoCtl.noCtl_iff.1 ht c (hi.subset hc)
    simp [NoCtl.Blk.okc, this.1, this.2])
  obtain ⟨o1, _, o3⟩ := parseBlocksXT_pres_q tables xc htab f _ _ _ _ _
    (NoCtl.BlkX.tx_el dom2_q.tnil "div" (by decide)) rfl hl hpl hr
  exact ⟨o1, o3⟩

end MdVerif.NoCtlXF.XT
