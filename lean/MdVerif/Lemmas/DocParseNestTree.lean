/-
Helper lemmas for C01 on nested documents (`Props/C01e.lean`), part 1: element trees of any shape whose tags are
`hr p h1…h6 blockquote ul ol li` and whose texts are one-line MIXED texts (escaped words, code spans, one level of
emphasis: `Txt.mix t0 segs`, the vocabulary of `Lemmas/DocParse2.lean`, sections 25–27), through the inline processor,
prettify, unescape, the serializer and the end of `convert`.

This generalises `Lemmas/DocParseListTree.lean` (`GT`: texts of escaped words only).  New here: the inline processor
puts the elements it makes (`code`, `em`, `strong`, each with the text after it as its tail) BEFORE the block children
of the element (`<li>a <em>b</em><ul>…`); when such an element is popped from the stack of `InlineProcessor.run` its
inline children are visited again (their tails hold the coded escapes) and nothing happens to them.  Core Lean only.
-/
import MdVerif.Lemmas.DocParseListDoc
import MdVerif.Lemmas.DocParse2

namespace MdVerif.DocNest
open Py Inline Escape DocParse DocParse2 CodeLaw

/-! ### trees -/

/-- the text of an element: none, the empty string (the first item of a loose list, after its text was moved into a
    `p`), or a mixed line (`t0`: the words before the first item; `segs`: code spans / emphases, each with the words
    after it) -/
inductive Txt where
  | none
  | empty
  | mix (t0 : Str) (segs : List MSeg)

/-- an element `tag` with a text and child elements -/
inductive NT where
  | el (tag : Str) (tx : Txt) (kids : List NT)

/-- the text as the block parser leaves it -/
def Txt.src (esc : List Char) : Txt → Option Str
  | .none => Option.none
  | .empty => some []
  | .mix t0 segs => some (escAll esc t0 ++ rawM esc segs)

/-- the text after the inline processor -/
def Txt.midText (esc : List Char) : Txt → Option Str
  | .none => Option.none
  | .empty => some []
  | .mix t0 _ => optStr (coded esc t0)

def Txt.segs : Txt → List MSeg
  | .mix _ segs => segs
  | _ => []

/-- the elements the inline processor makes of the text -/
def Txt.inl (esc : List Char) (tx : Txt) : List Node := tx.segs.map (tailedM esc)

/-- what the inline stages need of a text -/
structure MixOK (esc : List Char) (t0 : Str) (segs : List MSeg) : Prop where
  hsegs : MSegsOK segs
  junctions : junctionsOK t0 false segs
  under : UnderOKM esc (lastW esc t0) segs
  plain : ∀ c, (c ∈ t0 ∨ ∃ s ∈ segs, c ∈ s.t) → c ≠ '&' ∧ c ≠ '\n' ∧ c ≠ Inline.STX
  clean : ∀ s ∈ segs, s.k.clean
  ne : t0 ≠ [] ∨ segs ≠ []
  first : t0 ≠ [] → startsVisible t0 = true

def Txt.ok (esc : List Char) : Txt → Prop
  | .mix t0 segs => MixOK esc t0 segs
  | _ => True

mutual
def NT.src (esc : List Char) : NT → Node
  | .el tag tx ks => { tag := .name tag, text := tx.src esc, children := NT.srcs esc ks }
def NT.srcs (esc : List Char) : List NT → List Node
  | [] => []
  | t :: r => t.src esc :: NT.srcs esc r
end

mutual
def NT.mid (esc : List Char) : NT → Node
  | .el tag tx ks => { tag := .name tag, text := tx.midText esc, children := tx.inl esc ++ NT.mids esc ks }
def NT.mids (esc : List Char) : List NT → List Node
  | [] => []
  | t :: r => t.mid esc :: NT.mids esc r
end

/-- after the visit of its parent: the own text is done, the block children are still to be visited -/
def NT.half (esc : List Char) : NT → Node
  | .el tag tx ks => { tag := .name tag, text := tx.midText esc, children := tx.inl esc ++ NT.srcs esc ks }

mutual
/-- tags of the family, texts that the inline stages understand, `hr` without text and children -/
def NT.ok (esc : List Char) : NT → Prop
  | .el tag tx ks => tag ∈ gtTags ∧ tx.ok esc ∧ (tag = "hr".toList → tx = .none ∧ ks = []) ∧ NT.oks esc ks
def NT.oks (esc : List Char) : List NT → Prop
  | [] => True
  | t :: r => t.ok esc ∧ NT.oks esc r
end

def NT.kids : NT → List NT
  | .el _ _ ks => ks

def NT.tx : NT → Txt
  | .el _ tx _ => tx

def NT.tag : NT → Str
  | .el tag _ _ => tag

mutual
/-- the number of pops of the stack of `run` that concern this element and the elements below it -/
def NT.pops : NT → Nat
  | .el _ tx ks => (if ks.isEmpty then 0 else 1 + NT.popsL ks) + tx.segs.length
def NT.popsL : List NT → Nat
  | [] => 0
  | t :: r => t.pops + NT.popsL r
end

mutual
def NT.size : NT → Nat
  | .el _ tx ks => 1 + tx.segs.length + NT.sizeL ks
def NT.sizeL : List NT → Nat
  | [] => 0
  | t :: r => t.size + NT.sizeL r
end

section ntInline

theorem nsrcs_eq_map (esc : List Char) (ts : List NT) : NT.srcs esc ts = ts.map (NT.src esc) := by
  induction ts with
  | nil => rfl
  | cons t r ih => simp [NT.srcs, ih]

theorem nmids_eq_map (esc : List Char) (ts : List NT) : NT.mids esc ts = ts.map (NT.mid esc) := by
  induction ts with
  | nil => rfl
  | cons t r ih => simp [NT.mids, ih]

theorem noks_cons {esc : List Char} {t : NT} {r : List NT} : NT.oks esc (t :: r) ↔ t.ok esc ∧ NT.oks esc r := by
  rw [NT.oks]

theorem noks_mem {esc : List Char} {ts : List NT} (h : NT.oks esc ts) : ∀ t ∈ ts, t.ok esc := by
  induction ts with
  | nil => intro t ht; cases ht
  | cons a r ih =>
    rw [noks_cons] at h
    intro t ht
    rcases List.mem_cons.1 ht with rfl | ht
    · exact h.1
    · exact ih h.2 t ht

theorem nok_el {esc : List Char} {tag : Str} {tx : Txt} {ks : List NT} :
    (NT.el tag tx ks).ok esc ↔ tag ∈ gtTags ∧ tx.ok esc ∧ (tag = "hr".toList → tx = .none ∧ ks = []) ∧ NT.oks esc ks := by
  rw [NT.ok]

/-! #### an element made by the inline processor, visited again -/

/-- the coded form of a text has no placeholder prefix: every STX in it is followed by a digit -/
theorem find_phPrefix_coded (esc : List Char) (t : Str) (h : Inline.STX ∉ t) : find phPrefix (coded esc t) = none := by
  induction t with
  | nil => rfl
  | cons a r ih =>
    have hr : Inline.STX ∉ r := fun hm => h (List.mem_cons_of_mem _ hm)
    have ha : a ≠ Inline.STX := fun e => h (e ▸ List.mem_cons_self)
    have i1 := ih hr
    by_cases hm : esc.contains a = true
    · have hcd : coded esc (a :: r) = Inline.STX :: (natToDec a.toNat ++ Inline.ETX :: coded esc r) := by
        simp only [coded, hm, if_true, escCode, List.cons_append, List.append_assoc, List.nil_append]
      rw [hcd]
      have hdig : ∀ x ∈ natToDec a.toNat, isAsciiDigit x = true := natToDec_digits a.toNat
      obtain ⟨d, ds, hd⟩ : ∃ d ds, natToDec a.toNat = d :: ds := by
        cases hx : natToDec a.toNat with
        | nil => exact absurd hx (natToDec_ne_nil _)
        | cons d ds => exact ⟨d, ds, rfl⟩
      have hdk : d ≠ 'k' := by
        intro e; have := hdig d (by rw [hd]; simp); rw [e] at this; revert this; decide
      have walk : ∀ (ds : Str), (∀ x ∈ ds, isAsciiDigit x = true) →
          find phPrefix (ds ++ Inline.ETX :: coded esc r) = none := by
        intro ds
        induction ds with
        | nil =>
          intro _
          rw [List.nil_append, find_cons_none_iff]
          exact ⟨by simp [phPrefix, Inline.ETX, Inline.STX], i1⟩
        | cons x xs ihx =>
          intro hx
          rw [List.cons_append, find_cons_none_iff]
          have hxs : x ≠ Inline.STX := by
            intro e; have := hx x List.mem_cons_self; rw [e] at this; revert this; decide
          exact ⟨by simp [phPrefix, hxs], ihx (fun y hy => hx y (List.mem_cons_of_mem _ hy))⟩
      rw [find_cons_none_iff]
      refine ⟨?_, walk _ hdig⟩
      rw [hd]
      simp [phPrefix, hdk]
    · have hm' : esc.contains a = false := by simpa using hm
      have hcd : coded esc (a :: r) = a :: coded esc r := by
        simp only [coded, hm', Bool.false_eq_true, if_false]
      rw [hcd, find_cons_none_iff]
      exact ⟨by simp [phPrefix, ha], i1⟩

theorem mem_coded {esc : List Char} {t : Str} {c : Char} (h : c ∈ coded esc t) :
    (c ∈ t ∧ c ∉ esc) ∨ c = Inline.STX ∨ c = Inline.ETX ∨ isAsciiDigit c = true := by
  induction t with
  | nil => simp [coded] at h
  | cons a r ih =>
    by_cases hm : esc.contains a = true
    · have hcd : coded esc (a :: r) = Inline.STX :: (natToDec a.toNat ++ Inline.ETX :: coded esc r) := by
        simp only [coded, hm, if_true, escCode, List.cons_append, List.append_assoc, List.nil_append]
      rw [hcd] at h
      rcases List.mem_cons.1 h with e | h
      · exact Or.inr (Or.inl e)
      · rcases List.mem_append.1 h with h | h
        · exact Or.inr (Or.inr (Or.inr (natToDec_digits _ c h)))
        · rcases List.mem_cons.1 h with e | h
          · exact Or.inr (Or.inr (Or.inl e))
          · rcases ih h with ⟨h1, h2⟩ | h'
            · exact Or.inl ⟨List.mem_cons_of_mem _ h1, h2⟩
            · exact Or.inr h'
    · have hm' : esc.contains a = false := by simpa using hm
      have hcd : coded esc (a :: r) = a :: coded esc r := by
        simp only [coded, hm', Bool.false_eq_true, if_false]
      rw [hcd] at h
      rcases List.mem_cons.1 h with e | h
      · subst e
        exact Or.inl ⟨List.mem_cons_self, fun hc => hm (List.contains_iff_mem.2 hc)⟩
      · rcases ih h with ⟨h1, h2⟩ | h'
        · exact Or.inl ⟨List.mem_cons_of_mem _ h1, h2⟩
        · exact Or.inr h'

/-- the coded form of a plain text is quiet: what could start a match is coded -/
theorem quiet_coded {esc : List Char} (hE : EscOK esc) (t : Str) (h : ∀ c ∈ t, c ≠ '&' ∧ c ≠ '\n') :
    Quiet (coded esc t) := by
  intro c hc
  rcases mem_coded hc with ⟨h1, h2⟩ | e | e | e
  · have := h c h1
    exact ⟨fun e => h2 (e ▸ hE.tick), fun e => h2 (e ▸ hE.bs), fun e => h2 (e ▸ hE.lbr), this.2, this.1,
      fun e => h2 (e ▸ hE.star), fun e => h2 (e ▸ hE.under)⟩
  · rw [e]; decide
  · rw [e]; decide
  · refine ⟨?_, ?_, ?_, ?_, ?_, ?_, ?_⟩ <;> (intro e'; subst e'; revert e; decide)

/-- `__processPlaceholders` on a tail in which no placeholder starts: the tail is put back with its flag -/
theorem ppTop_tail_nofind (st : St) (data : Str) (atomic : Bool) (hne : data ≠ []) (hs : find phPrefix data = none) :
    ppTop st data atomic (mkEl "d") false = some ([], { mkEl "d" with tail := some data, tailAtomic := atomic }) := by
  obtain ⟨c, r, rfl⟩ : ∃ c r, data = c :: r := by cases data <;> simp_all
  unfold ppTop
  rw [show st.stash.length + 2 = (st.stash.length + 1) + 1 from rfl]
  unfold processPlaceholders
  simp only [List.isEmpty_cons, Bool.false_eq_true, if_false, List.length_cons]
  rw [show r.length + 1 + 2 = (r.length + 2) + 1 from rfl]
  unfold ppLoop
  simp only [List.drop_zero, hs]
  simp [linkText, Node.truthy, mkEl]

/-- a childless element whose text is atomic or plain words and whose tail is quiet and free of placeholders: visited
    as a child, nothing happens -/
theorem visitChild_still (cfg : Inline.Cfg) (child : Node) (v : Visit) (hk : child.children = [])
    (htext : ∀ s, child.text = some s → child.textAtomic = true ∨ (Quiet s ∧ Inline.STX ∉ s))
    (htail : ∀ s, child.tail = some s → child.tailAtomic = false ∧ Quiet s ∧ find phPrefix s = none) :
    visitChild cfg child v = some (child, [], v) := by
  obtain ⟨tag, attrs, text, ta, children, tail, tla⟩ := child
  simp only at hk htext htail
  subst hk
  have tailFacts : ∀ s, tail = some s → s ≠ [] → tla = false ∧
      handleInlineTop cfg s v.st = some (s, v.st) ∧
      ppTop v.st s false (mkEl "d") false = some ([], { mkEl "d" with tail := some s, tailAtomic := false }) := by
    intro s hs hne
    obtain ⟨h0, h1, h2⟩ := htail s hs
    exact ⟨h0, handleInlineTop_quiet cfg s v.st h1, ppTop_tail_nofind v.st s false hne h2⟩
  have textFacts : ∀ s, text = some s → ta = false → s ≠ [] → ∀ (parent : Node), parent.text = none →
      parent.textAtomic = false →
      handleInlineTop cfg s v.st = some (s, v.st) ∧
      ppTop v.st s false parent true = some ([], { parent with text := some s }) := by
    intro s hs hta hne parent hp1 hp2
    rcases htext s hs with h | ⟨h1, h2⟩
    · rw [hta] at h; cases h
    · exact ⟨handleInlineTop_quiet cfg s v.st h1, ppTop_plain v.st s parent hne h2 hp1 hp2⟩
  have t0 : Node.truthy none = false := rfl
  have tn : Node.truthy (some []) = false := rfl
  unfold visitChild
  cases text with
  | none =>
    cases tail with
    | none => simp [t0]
    | some s' =>
      by_cases hne' : s' = []
      · subst hne'; simp [t0, tn]
      · obtain ⟨f0, f1, f2⟩ := tailFacts s' rfl hne'
        subst f0
        simp [t0, (truthy_some_iff s').2 hne', f1, f2]
  | some s =>
    by_cases hne : s = []
    · subst hne
      cases tail with
      | none => simp [t0, tn]
      | some s' =>
        by_cases hne' : s' = []
        · subst hne'; simp [tn]
        · obtain ⟨f0, f1, f2⟩ := tailFacts s' rfl hne'
          subst f0
          simp [tn, (truthy_some_iff s').2 hne', f1, f2]
    · cases ta with
      | true =>
        cases tail with
        | none => simp [t0]
        | some s' =>
          by_cases hne' : s' = []
          · subst hne'; simp [tn]
          · obtain ⟨f0, f1, f2⟩ := tailFacts s' rfl hne'
            subst f0
            simp [(truthy_some_iff s').2 hne', f1, f2]
      | false =>
        obtain ⟨g1, g2⟩ := textFacts s rfl rfl hne ⟨tag, attrs, none, false, [], tail, tla⟩ rfl rfl
        cases tail with
        | none => simp [(truthy_some_iff s).2 hne, g1, g2, t0]
        | some s' =>
          by_cases hne' : s' = []
          · subst hne'; simp [(truthy_some_iff s).2 hne, g1, g2, tn]
          · obtain ⟨f0, f1, f2⟩ := tailFacts s' rfl hne'
            subst f0
            simp [(truthy_some_iff s).2 hne, (truthy_some_iff s').2 hne', g1, g2, f1, f2]

theorem optStr_some {s x : Str} (h : optStr s = some x) : x = s ∧ s ≠ [] := by
  unfold optStr at h
  split at h
  · cases h
  · rename_i hne
    exact ⟨by simpa using h.symm, by simpa using hne⟩

/-- the element of a code span or an emphasis with its tail, visited again: nothing happens -/
theorem visitChild_tailedM (cfg : Inline.Cfg) (hE : EscOK cfg.esc) (s : MSeg) (hk : MKindOK s.k) (hc : s.k.clean)
    (hp : ∀ c ∈ s.t, c ≠ '&' ∧ c ≠ '\n' ∧ c ≠ Inline.STX) (v : Visit) :
    visitChild cfg (tailedM cfg.esc s) v = some (tailedM cfg.esc s, [], v) := by
  apply visitChild_still
  · exact tailedM_childless cfg.esc s
  · intro x hx
    obtain ⟨k, t⟩ := s
    cases k with
    | code n b => left; rfl
    | em st d w =>
      right
      have : x = w := by simpa [tailedM, MKind.node, emEl, mkEl] using hx.symm
      subst this
      exact ⟨word_quiet hk.2.1, hc⟩
  · intro x hx
    have hx' : optStr (coded cfg.esc s.t) = some x := by
      obtain ⟨k, t⟩ := s
      cases k <;> simpa [tailedM] using hx
    obtain ⟨rfl, _⟩ := optStr_some hx'
    refine ⟨?_, quiet_coded hE s.t (fun c hc' => ⟨(hp c hc').1, (hp c hc').2.1⟩),
      find_phPrefix_coded cfg.esc s.t (fun hm => (hp _ hm).2.2 rfl)⟩
    obtain ⟨k, t⟩ := s
    cases k <;> rfl

/-! #### the visit of an element of the family -/

/-- the paths of the elements that the inline processor made of the text of the element at `q`, last first -/
def inlPaths (q : Path) (n : Nat) : List Path := ((List.range n).map (fun k => q ++ [k])).reverse

/-- what the visit of the element (as the child at `q` of the popped element) pushes: the element itself when it has
    block children, then the new inline elements -/
def NT.pushAt (q : Path) (t : NT) : List Path :=
  (if t.kids.isEmpty then [] else [q]) ++ inlPaths q t.tx.segs.length

theorem inlPaths_map (p q : Path) (n : Nat) : (inlPaths q n).map (p ++ ·) = inlPaths (p ++ q) n := by
  simp [inlPaths, List.map_reverse, List.map_map, Function.comp_def, List.append_assoc]

theorem pushAt_map (p q : Path) (t : NT) : (t.pushAt q).map (p ++ ·) = t.pushAt (p ++ q) := by
  cases t with
  | el tag tx ks =>
    simp only [NT.pushAt, NT.kids, NT.tx, List.map_append, inlPaths_map]
    cases ks <;> simp

theorem rawM_ne_nil' (esc : List Char) (segs : List MSeg) (hok : MSegsOK segs) (hne : segs ≠ []) :
    rawM esc segs ≠ [] := rawM_ne_nil esc segs hok hne

/-- an element with a mixed text and any children, visited as a child: the text is processed, the new elements go
    before the children, which wait -/
theorem visitChild_mix_kids (cfg : Inline.Cfg) (hE : EscOK cfg.esc) (tag t0 : Str) (segs : List MSeg)
    (h : MixOK cfg.esc t0 segs) (kids : List Node) (v : Visit) :
    visitChild cfg { tag := .name tag, text := some (escAll cfg.esc t0 ++ rawM cfg.esc segs), children := kids } v =
      some ({ tag := .name tag, text := optStr (coded cfg.esc t0), children := segs.map (tailedM cfg.esc) ++ kids }, [],
        { v with pushes := (if kids.isEmpty then [] else [[v.done.length]]) ++ inlPaths [v.done.length] segs.length ++
                   v.pushes,
                 st := { v.st with stash := v.st.stash ++ (nodesOf 0 segs ++ (stashOf cfg.esc t0 ++
                   stashOfM cfg.esc segs) ++ nodesOf 1 segs ++ nodesOf 2 segs) } }) := by
  have hraw : escAll cfg.esc t0 ++ rawM cfg.esc segs ≠ [] := by
    rcases h.ne with h' | h'
    · have := escAll_ne_nil (esc := cfg.esc) h'
      cases hx : escAll cfg.esc t0 with
      | nil => exact absurd hx this
      | cons a b => simp
    · intro e
      exact rawM_ne_nil cfg.esc segs h.hsegs h' (List.append_eq_nil_iff.1 e).2
  have h1 := handleInlineTop_mix cfg hE t0 segs v.st h.hsegs h.junctions h.under
    (fun c hc => ⟨(h.plain c hc).1, (h.plain c hc).2.1⟩)
  have h2 := ppTop_mix cfg.esc v.st.stash v.st.html t0 segs
    { tag := .name tag, children := kids } rfl rfl (fun hm => (h.plain _ (Or.inl hm)).2.2 rfl)
    (fun s hs => ⟨fun hm => (h.plain _ (Or.inr ⟨s, hs, hm⟩)).2.2 rfl, h.clean s hs⟩) h.ne
  simp only [visitChild, truthy_some hraw, Bool.not_false, Bool.and_self, if_true, Option.getD_some, h1]
  rw [h2]
  cases kids <;> simp [Node.truthy, inlPaths]

theorem visitChild_nt (cfg : Inline.Cfg) (hE : EscOK cfg.esc) (t : NT) (hok : t.ok cfg.esc) (v : Visit) :
    ∃ st', st'.html = v.st.html ∧
      visitChild cfg (t.src cfg.esc) v =
        some (t.half cfg.esc, [], { v with pushes := t.pushAt [v.done.length] ++ v.pushes, st := st' }) := by
  cases t with
  | el tag tx ks =>
    rw [nok_el] at hok
    have hke : (NT.srcs cfg.esc ks).isEmpty = ks.isEmpty := by cases ks <;> rfl
    cases tx with
    | none =>
      refine ⟨v.st, rfl, ?_⟩
      have := visitChild_bare' cfg (.name tag) (NT.srcs cfg.esc ks) v
      rw [hke] at this
      cases ks <;> simpa [NT.src, NT.half, NT.pushAt, NT.kids, NT.tx, Txt.src, Txt.midText, Txt.inl, Txt.segs, inlPaths]
        using this
    | empty =>
      refine ⟨v.st, rfl, ?_⟩
      have := visitChild_empty' cfg (.name tag) (NT.srcs cfg.esc ks) v
      rw [hke] at this
      cases ks <;> simpa [NT.src, NT.half, NT.pushAt, NT.kids, NT.tx, Txt.src, Txt.midText, Txt.inl, Txt.segs, inlPaths]
        using this
    | mix t0 segs =>
      have := visitChild_mix_kids cfg hE tag t0 segs hok.2.1 (NT.srcs cfg.esc ks) v
      rw [hke] at this
      exact ⟨{ v.st with stash := v.st.stash ++ (nodesOf 0 segs ++ (stashOf cfg.esc t0 ++
          stashOfM cfg.esc segs) ++ nodesOf 1 segs ++ nodesOf 2 segs) }, rfl,
        by simpa [NT.src, NT.half, NT.pushAt, NT.kids, NT.tx, Txt.src, Txt.midText, Txt.inl, Txt.segs,
          List.append_assoc] using this⟩

/-- the paths pushed while the children `ts` (the first one being child number `i`) are visited, last pushed first -/
def pushesN : List NT → Nat → List Path
  | [], _ => []
  | t :: r, i => pushesN r (i + 1) ++ t.pushAt [i]

theorem visitLoop_nt (cfg : Inline.Cfg) (hE : EscOK cfg.esc) (ts : List NT) (hok : NT.oks cfg.esc ts) :
    ∀ (i0 : Nat) (v : Visit) (g : Nat), v.done.length = i0 → (∀ x ∈ v.posmap, x.1 = x.2) →
      ∃ v', visitLoop cfg (g + ts.length + 1) (withIdx (ts.map (NT.src cfg.esc)) i0) v = some v' ∧
        v'.done = (ts.map (NT.half cfg.esc)).reverse ++ v.done ∧
        v'.pushes = pushesN ts i0 ++ v.pushes ∧ (∀ x ∈ v'.posmap, x.1 = x.2) ∧ v'.st.html = v.st.html := by
  induction ts with
  | nil =>
    intro i0 v g _ hpm
    exact ⟨v, by simp [visitLoop, withIdx], by simp, by simp [pushesN], hpm, rfl⟩
  | cons t r ih =>
    intro i0 v g hlen hpm
    rw [noks_cons] at hok
    rw [show g + (t :: r).length + 1 = (g + r.length + 1) + 1 by simp; omega]
    obtain ⟨st1, hs1, hv⟩ := visitChild_nt cfg hE t hok.1 v
    obtain ⟨v', h1, h2, h3, h4, h5⟩ := ih hok.2 (i0 + 1)
      { done := t.half cfg.esc :: v.done, posmap := (i0, v.done.length) :: v.posmap,
        pushes := t.pushAt [v.done.length] ++ v.pushes, st := st1 } g (by simp [hlen])
      (by intro x hx; rcases List.mem_cons.1 hx with rfl | hx
          · exact hlen.symm
          · exact hpm x hx)
    refine ⟨v', ?_, ?_, ?_, h4, ?_⟩
    · simp only [List.map_cons, withIdx, visitLoop, hv, List.map_nil, List.nil_append]
      exact h1
    · rw [h2]; simp
    · rw [h3]; simp [pushesN, hlen, List.append_assoc]
    · rw [h5, hs1]

/-- the visit of children on which nothing happens -/
theorem visitLoop_still (cfg : Inline.Cfg) (L : List Node)
    (hL : ∀ c ∈ L, ∀ v, visitChild cfg c v = some (c, [], v)) :
    ∀ (rest : List Node) (i0 : Nat) (v : Visit) (g : Nat), v.done.length = i0 → (∀ x ∈ v.posmap, x.1 = x.2) →
      ∃ pm, (∀ x ∈ pm, x.1 = x.2) ∧
        visitLoop cfg (g + L.length) (withIdx (L ++ rest) i0) v =
          visitLoop cfg g (withIdx rest (i0 + L.length))
            { done := L.reverse ++ v.done, posmap := pm, pushes := v.pushes, st := v.st } := by
  induction L with
  | nil =>
    intro rest i0 v g _ hpm
    exact ⟨v.posmap, hpm, by simp⟩
  | cons c r ih =>
    intro rest i0 v g hlen hpm
    obtain ⟨pm, hpm', h⟩ := ih (fun x hx => hL x (List.mem_cons_of_mem _ hx)) rest (i0 + 1)
      { done := c :: v.done, posmap := (i0, v.done.length) :: v.posmap, pushes := v.pushes, st := v.st } g
      (by simp [hlen])
      (by intro x hx; rcases List.mem_cons.1 hx with rfl | hx
          · exact hlen.symm
          · exact hpm x hx)
    refine ⟨pm, hpm', ?_⟩
    rw [show g + (c :: r).length = (g + r.length) + 1 by simp; omega]
    simp only [List.cons_append, withIdx, visitLoop, hL c List.mem_cons_self v, List.map_nil, List.nil_append]
    rw [h]
    simp [Nat.add_assoc, Nat.add_comm 1]

/-- the inline elements of a text, visited again -/
theorem still_inl (cfg : Inline.Cfg) (hE : EscOK cfg.esc) (tx : Txt) (hok : tx.ok cfg.esc) :
    ∀ c ∈ tx.inl cfg.esc, ∀ v, visitChild cfg c v = some (c, [], v) := by
  intro c hc v
  cases tx with
  | none => simp [Txt.inl, Txt.segs] at hc
  | empty => simp [Txt.inl, Txt.segs] at hc
  | mix t0 segs =>
    obtain ⟨s, hs, rfl⟩ := List.mem_map.1 hc
    have h : MixOK cfg.esc t0 segs := hok
    exact visitChild_tailedM cfg hE s (h.hsegs s hs) (h.clean s hs)
      (fun x hx => h.plain x (Or.inr ⟨s, hs, hx⟩)) v

/-- one pop of the stack loop at an element whose text is done and whose block children are still to be processed -/
theorem pop_step_nt (cfg : Inline.Cfg) (hE : EscOK cfg.esc) (g2 : Nat) (root : Node) (q : Path) (cur : Node)
    (tx : Txt) (htx : tx.ok cfg.esc) (ts : List NT) (hcur : getAt root q = some cur)
    (hch : cur.children = tx.inl cfg.esc ++ ts.map (NT.src cfg.esc))
    (hok : NT.oks cfg.esc ts) (hg2 : tx.segs.length + ts.length + 1 ≤ g2) (stack : List Path) (st : St) (g : Nat) :
    ∃ st', st'.html = st.html ∧
      runLoop cfg g2 (g + 1) root (q :: stack) st =
        runLoop cfg g2 g (setAt root q { cur with children := tx.inl cfg.esc ++ ts.map (NT.half cfg.esc) })
          ((pushesN ts tx.segs.length).map (q ++ ·) ++ stack) st' := by
  have hlen : (tx.inl cfg.esc).length = tx.segs.length := by simp [Txt.inl]
  obtain ⟨pm, hpm, e1⟩ := visitLoop_still cfg (tx.inl cfg.esc) (still_inl cfg hE tx htx) (ts.map (NT.src cfg.esc)) 0
    { st := st } (g2 - tx.segs.length - ts.length - 1 + ts.length + 1) rfl (by intro x hx; cases hx)
  obtain ⟨v', h1, h2, h3, h4, h5⟩ := visitLoop_nt cfg hE ts hok (0 + (tx.inl cfg.esc).length)
    { done := (tx.inl cfg.esc).reverse ++ [], posmap := pm, pushes := [], st := st }
    (g2 - tx.segs.length - ts.length - 1) (by simp) hpm
  rw [h1] at e1
  rw [hlen, show g2 - tx.segs.length - ts.length - 1 + ts.length + 1 + tx.segs.length = g2 by omega] at e1
  refine ⟨v'.st, h5, ?_⟩
  simp only [runLoop, hcur, hch, e1, h2, h3, List.append_nil, List.reverse_append, List.reverse_reverse, hlen,
    Nat.zero_add]
  have hmap : stack.map (remap q v'.posmap) = stack := by
    rw [show remap q v'.posmap = id from funext (remap_id' q _ h4)]; simp
  rw [hmap]

/-- a pop at a childless element -/
theorem runLoop_skip (cfg : Inline.Cfg) (g2 g : Nat) (root : Node) (q : Path) (cur : Node) (stack : List Path)
    (st : St) (hcur : getAt root q = some cur) (hk : cur.children = []) (hg2 : 1 ≤ g2) :
    runLoop cfg g2 (g + 1) root (q :: stack) st = runLoop cfg g2 g root stack st := by
  obtain ⟨g2', rfl⟩ : ∃ g2', g2 = g2' + 1 := ⟨g2 - 1, by omega⟩
  have hmap : stack.map (remap q []) = stack := by
    rw [show remap q [] = id from funext (remap_id' q _ (by intro x hx; cases hx))]; simp
  have e : ({ cur with children := [] } : Node) = cur := by cases cur; simp_all
  simp only [runLoop, hcur, hk, withIdx, visitLoop, List.reverse_nil, e, setAt_getAt root q cur hcur, List.map_nil,
    List.nil_append, hmap]

theorem runLoop_skips (cfg : Inline.Cfg) (g2 : Nat) (hg2 : 1 ≤ g2) (root : Node) (st : St) (stack : List Path) :
    ∀ (paths : List Path) (g : Nat), (∀ p ∈ paths, ∃ cur, getAt root p = some cur ∧ cur.children = []) →
      runLoop cfg g2 (g + paths.length) root (paths ++ stack) st = runLoop cfg g2 g root stack st := by
  intro paths
  induction paths with
  | nil => intro g _; rfl
  | cons p r ih =>
    intro g h
    obtain ⟨cur, hcur, hk⟩ := h p List.mem_cons_self
    rw [show g + (p :: r).length = (g + r.length) + 1 by simp; omega, List.cons_append,
      runLoop_skip cfg g2 _ root p cur _ st hcur hk hg2]
    exact ih g (fun x hx => h x (List.mem_cons_of_mem _ hx))

theorem tailed_childless' (esc : List Char) (s : MSeg) : (tailedM esc s).children = [] := tailedM_childless esc s

/-- the paths of the inline elements of the element at `q` lead to childless elements -/
theorem inlPaths_childless (esc : List Char) (root : Node) (q : Path) (X : Node) (hX : getAt root q = some X)
    (segs : List MSeg) (more : List Node) (hch : X.children = segs.map (tailedM esc) ++ more) :
    ∀ p ∈ inlPaths q segs.length, ∃ cur, getAt root p = some cur ∧ cur.children = [] := by
  intro p hp
  simp only [inlPaths, List.mem_reverse, List.mem_map, List.mem_range] at hp
  obtain ⟨k, hk, rfl⟩ := hp
  obtain ⟨s, hs⟩ : ∃ s, segs[k]? = some s := by
    cases hx : segs[k]? with
    | none => rw [List.getElem?_eq_none_iff] at hx; omega
    | some s => exact ⟨s, rfl⟩
  refine ⟨tailedM esc s, ?_, tailedM_childless esc s⟩
  rw [getAt_append' hX]
  simp only [getAt, hch]
  rw [List.getElem?_append_left (by simpa using hk)]
  simp [hs]

mutual
theorem nlength_le_sizeL : (ts : List NT) → ts.length ≤ NT.sizeL ts
  | [] => by simp [NT.sizeL]
  | t :: r => by
    have := nlength_le_sizeL r
    have h1 : 1 ≤ t.size := by cases t; simp only [NT.size]; omega
    simp only [List.length_cons, NT.sizeL]; omega
end

theorem half_children (esc : List Char) (tag : Str) (tx : Txt) (ks : List NT) :
    (NT.half esc (.el tag tx ks)).children = tx.inl esc ++ ks.map (NT.src esc) := by
  simp [NT.half, nsrcs_eq_map]

/-- what the stack loop does with the entries pushed for an element -/
def PopsN (cfg : Inline.Cfg) (g2 : Nat) (t : NT) : Prop :=
  ∀ (root : Node) (q : Path) (stack : List Path) (st : St) (g : Nat),
    getAt root q = some (NT.half cfg.esc t) →
    ∃ st', st'.html = st.html ∧
      runLoop cfg g2 (g + t.pops) root (t.pushAt q ++ stack) st =
        runLoop cfg g2 g (setAt root q (NT.mid cfg.esc t)) stack st'

mutual
theorem popsN (cfg : Inline.Cfg) (hE : EscOK cfg.esc) (g2 : Nat) :
    (t : NT) → t.ok cfg.esc → t.size + 1 ≤ g2 → PopsN cfg g2 t
  | .el tag tx ks, hok, hsz => by
    intro root q stack st g hcur
    rw [nok_el] at hok
    simp only [NT.size] at hsz
    have hlen := nlength_le_sizeL ks
    have hsegs : tx.segs.length = (tx.inl cfg.esc).length := by simp [Txt.inl]
    -- the pops of the inline elements, at the end
    have hskip : ∀ (root' : Node) (X : Node), getAt root' q = some X →
        (∃ more, X.children = tx.segs.map (tailedM cfg.esc) ++ more) → ∀ (st1 : St),
        runLoop cfg g2 (g + tx.segs.length) root' (inlPaths q tx.segs.length ++ stack) st1 =
          runLoop cfg g2 g root' stack st1 := by
      intro root' X hX ⟨more, hch⟩ st1
      exact runLoop_skips cfg g2 (by omega) root' st1 stack _ g (by
        have := inlPaths_childless cfg.esc root' q X hX tx.segs more hch
        simpa using this) |> (by simpa [inlPaths] using ·)
    by_cases hk : ks = []
    · subst hk
      have hhm : NT.half cfg.esc (.el tag tx []) = NT.mid cfg.esc (.el tag tx []) := by
        simp [NT.half, NT.mid, NT.srcs, NT.mids]
      refine ⟨st, rfl, ?_⟩
      have hp : NT.pops (.el tag tx []) = tx.segs.length := by simp [NT.pops]
      have hpa : NT.pushAt q (.el tag tx []) = inlPaths q tx.segs.length := by simp [NT.pushAt, NT.kids, NT.tx]
      rw [hp, hpa, ← hhm, setAt_getAt root q _ hcur]
      exact hskip root _ hcur ⟨[], by simp [NT.half, NT.srcs, Txt.inl]⟩ st
    · have hke : ks.isEmpty = false := by cases ks <;> simp_all
      obtain ⟨st1, hs1, e1⟩ := pop_step_nt cfg hE g2 root q (NT.half cfg.esc (.el tag tx ks)) tx hok.2.1 ks hcur
        (half_children cfg.esc tag tx ks) hok.2.2.2 (by omega) (inlPaths q tx.segs.length ++ stack) st
        (g + tx.segs.length + NT.popsL ks)
      obtain ⟨st2, hs2, e2⟩ := popsNL cfg hE g2 ks hok.2.2.2 (by omega) (tx.inl cfg.esc)
        (NT.half cfg.esc (.el tag tx ks)) root q ⟨_, hcur⟩ (inlPaths q tx.segs.length ++ stack) st1
        (g + tx.segs.length)
      refine ⟨st2, by rw [hs2, hs1], ?_⟩
      have hp : NT.pops (.el tag tx ks) = tx.segs.length + NT.popsL ks + 1 := by simp [NT.pops, hke]; omega
      have hpa : NT.pushAt q (.el tag tx ks) = q :: inlPaths q tx.segs.length := by
        simp [NT.pushAt, NT.kids, NT.tx, hke]
      rw [hp, hpa, List.cons_append, show g + (tx.segs.length + NT.popsL ks + 1) =
        (g + tx.segs.length + NT.popsL ks) + 1 by omega, e1]
      rw [← hsegs] at e2
      rw [e2]
      have hmid : ({ NT.half cfg.esc (.el tag tx ks) with children := tx.inl cfg.esc ++ ks.map (NT.mid cfg.esc) } : Node) =
          NT.mid cfg.esc (.el tag tx ks) := by simp [NT.half, NT.mid, nmids_eq_map]
      rw [hmid]
      exact hskip _ _ (getAt_setAt_self hcur _) ⟨ks.map (NT.mid cfg.esc), by simp [NT.mid, nmids_eq_map, Txt.inl]⟩ st2
theorem popsNL (cfg : Inline.Cfg) (hE : EscOK cfg.esc) (g2 : Nat) :
    (ts : List NT) → NT.oks cfg.esc ts → NT.sizeL ts + 1 ≤ g2 →
    ∀ (pre : List Node) (Xb root : Node) (p : Path), (∃ X0, getAt root p = some X0) →
    ∀ (stack : List Path) (st : St) (g : Nat),
      ∃ st', st'.html = st.html ∧
        runLoop cfg g2 (g + NT.popsL ts)
            (setAt root p { Xb with children := pre ++ ts.map (NT.half cfg.esc) })
            ((pushesN ts pre.length).map (p ++ ·) ++ stack) st =
          runLoop cfg g2 g (setAt root p { Xb with children := pre ++ ts.map (NT.mid cfg.esc) }) stack st'
  | [], _, _ => by
    intro pre Xb root p _ stack st g
    exact ⟨st, rfl, by simp [NT.popsL, pushesN]⟩
  | t :: r, hok, hsz => by
    intro pre Xb root p hvalid stack st g
    obtain ⟨X0, hX0⟩ := hvalid
    rw [noks_cons] at hok
    simp only [NT.sizeL] at hsz
    have hrec := popsNL cfg hE g2 r hok.2 (by omega)
    have hpre : pre ++ (t :: r).map (NT.half cfg.esc) = (pre ++ [NT.half cfg.esc t]) ++ r.map (NT.half cfg.esc) := by
      simp
    have hlen : (pre ++ [NT.half cfg.esc t]).length = pre.length + 1 := by simp
    have hT := popsN cfg hE g2 t hok.1 (by omega)
    obtain ⟨st1, hs1, e1⟩ := hrec (pre ++ [NT.half cfg.esc t]) Xb root p ⟨X0, hX0⟩
      (t.pushAt (p ++ [pre.length]) ++ stack) st (g + t.pops)
    have hvalidA := getAt_setAt_self hX0
      { Xb with children := (pre ++ [NT.half cfg.esc t]) ++ r.map (NT.mid cfg.esc) }
    have hcurA : getAt (setAt root p
        { Xb with children := (pre ++ [NT.half cfg.esc t]) ++ r.map (NT.mid cfg.esc) })
        (p ++ [pre.length]) = some (NT.half cfg.esc t) := by
      rw [getAt_append' hvalidA]
      simp only [List.append_assoc, List.singleton_append, getAt, getElem?_at_length]
    obtain ⟨st2, hs2, e2⟩ := hT _ (p ++ [pre.length]) stack st1 g hcurA
    refine ⟨st2, by rw [hs2, hs1], ?_⟩
    rw [hpre, show g + NT.popsL (t :: r) = (g + t.pops) + NT.popsL r by simp only [NT.popsL]; omega]
    have hpq : (pushesN (t :: r) pre.length).map (p ++ ·) ++ stack =
        (pushesN r (pre ++ [NT.half cfg.esc t]).length).map (p ++ ·) ++ (t.pushAt (p ++ [pre.length]) ++ stack) := by
      simp [pushesN, hlen, pushAt_map, List.append_assoc]
    rw [hpq, e1, e2]
    rw [setAt_child hvalidA pre.length (NT.half cfg.esc t) _
      (by simp only [List.append_assoc, List.singleton_append, getElem?_at_length]),
      setAt_setAt_self hX0]
    simp [List.append_assoc]
end

mutual
theorem npops_le_size : (t : NT) → t.pops ≤ t.size
  | .el _ tx ks => by
    have := npopsL_le_sizeL ks
    simp only [NT.pops, NT.size]
    split <;> omega
theorem npopsL_le_sizeL : (ts : List NT) → NT.popsL ts ≤ NT.sizeL ts
  | [] => by simp [NT.popsL]
  | t :: r => by
    have h1 := npops_le_size t
    have h2 := npopsL_le_sizeL r
    simp only [NT.popsL, NT.sizeL]; omega
end

theorem segs_le_src (esc : List Char) (tx : Txt) (h : tx.ok esc) : tx.segs.length ≤ ((tx.src esc).getD []).length := by
  cases tx with
  | none => simp [Txt.segs]
  | empty => simp [Txt.segs]
  | mix t0 segs =>
    have h' : MixOK esc t0 segs := h
    have := rawM_length esc segs h'.hsegs
    simp only [Txt.segs, Txt.src, Option.getD_some, List.length_append]
    omega

mutual
theorem nsize_le_size (esc : List Char) : (t : NT) → t.ok esc → t.size ≤ Inline.size (t.src esc)
  | .el tag tx ks, h => by
    rw [nok_el] at h
    have := nsizeL_le_size esc ks h.2.2.2
    have h2 := segs_le_src esc tx h.2.1
    simp only [NT.size, NT.src, Inline.size]; omega
theorem nsizeL_le_size (esc : List Char) : (ts : List NT) → NT.oks esc ts → NT.sizeL ts ≤ Inline.sizeList (NT.srcs esc ts)
  | [], _ => by simp [NT.sizeL]
  | t :: r, h => by
    rw [noks_cons] at h
    have h1 := nsize_le_size esc t h.1
    have h2 := nsizeL_le_size esc r h.2
    simp only [NT.sizeL, NT.srcs, Inline.sizeList]; omega
end

/-- **`InlineProcessor.run`** on a `<div>` of such trees: every text is processed where it sits, the new inline
    elements stand before the block children, the HTML stash stays as it was -/
theorem run_nt (cfg : Inline.Cfg) (hE : EscOK cfg.esc) (ts : List NT) (hok : NT.oks cfg.esc ts) (html : List Str) :
    ∃ st', st'.html = html ∧
      Inline.run cfg (divOf (ts.map (NT.src cfg.esc))) html = some (divOf (ts.map (NT.mid cfg.esc)), st') := by
  have hsz := nsizeL_le_size cfg.esc ts hok
  rw [nsrcs_eq_map] at hsz
  have hpops := npopsL_le_sizeL ts
  have hfuel : NT.sizeL ts + 3 ≤ runFuel (divOf (ts.map (NT.src cfg.esc))) := by
    simp only [runFuel, divOf, Inline.size]; omega
  obtain ⟨g, hg⟩ : ∃ g, runFuel (divOf (ts.map (NT.src cfg.esc))) = ((g + 1) + NT.popsL ts) + 1 :=
    ⟨runFuel (divOf (ts.map (NT.src cfg.esc))) - NT.popsL ts - 2, by omega⟩
  obtain ⟨st1, hs1, e1⟩ := pop_step_nt cfg hE (runFuel (divOf (ts.map (NT.src cfg.esc))))
    (divOf (ts.map (NT.src cfg.esc))) [] (divOf (ts.map (NT.src cfg.esc))) .none trivial ts rfl
    (by simp [Txt.inl, Txt.segs, divOf]) hok
    (by have := nlength_le_sizeL ts; simp only [Txt.segs, List.length_nil]; omega) [] { html := html }
    ((g + 1) + NT.popsL ts)
  obtain ⟨st2, hs2, e2⟩ := popsNL cfg hE (runFuel (divOf (ts.map (NT.src cfg.esc)))) ts hok (by omega) []
    (divOf (ts.map (NT.src cfg.esc))) (divOf (ts.map (NT.src cfg.esc))) [] ⟨_, rfl⟩ [] st1 (g + 1)
  refine ⟨st2, by rw [hs2, hs1], ?_⟩
  have e1' : runLoop cfg (runFuel (divOf (ts.map (NT.src cfg.esc)))) (g + 1 + NT.popsL ts + 1)
      (divOf (ts.map (NT.src cfg.esc))) [[]] { html := html } =
      runLoop cfg (runFuel (divOf (ts.map (NT.src cfg.esc)))) (g + 1 + NT.popsL ts)
        (divOf (ts.map (NT.half cfg.esc))) (pushesN ts 0) st1 := by
    simpa [setAt, divOf, Txt.inl, Txt.segs] using e1
  have e2' : runLoop cfg (runFuel (divOf (ts.map (NT.src cfg.esc)))) (g + 1 + NT.popsL ts)
        (divOf (ts.map (NT.half cfg.esc))) (pushesN ts 0) st1 =
      runLoop cfg (runFuel (divOf (ts.map (NT.src cfg.esc)))) (g + 1) (divOf (ts.map (NT.mid cfg.esc))) [] st2 := by
    simpa [setAt, divOf] using e2
  simp only [Inline.run]
  conv => lhs; arg 3; rw [hg]
  rw [e1', e2']
  simp [runLoop]

end ntInline

/-! ### prettify, unescape, serializer -/

/-- the text after `prettify`: a line feed when there is no text (or an empty one) but there are children -/
def Txt.prettyText (esc : List Char) (tx : Txt) (noKids : Bool) : Option Str :=
  match tx with
  | .none => if noKids then Option.none else some ['\n']
  | .empty => if noKids then some [] else some ['\n']
  | .mix t0 _ => optStr (coded esc t0)

def Txt.finText (tx : Txt) (noKids : Bool) : Option Str :=
  match tx with
  | .none => if noKids then Option.none else some ['\n']
  | .empty => if noKids then some [] else some ['\n']
  | .mix t0 _ => optStr t0

def Txt.finInl (tx : Txt) : List Node := tx.segs.map tailedFinM

/-- what is written between the start tag and the block children -/
def Txt.out (tx : Txt) (noKids : Bool) : Str :=
  match tx with
  | .mix t0 segs => Ser.escCdata t0 ++ outM segs
  | _ => if noKids then [] else ['\n']

mutual
def NT.pretty (esc : List Char) : NT → Node
  | .el tag tx ks =>
    { tag := .name tag, text := tx.prettyText esc ks.isEmpty, children := tx.inl esc ++ NT.pretties esc ks,
      tail := some ['\n'] }
def NT.pretties (esc : List Char) : List NT → List Node
  | [] => []
  | t :: r => t.pretty esc :: NT.pretties esc r
end

mutual
def NT.fin : NT → Node
  | .el tag tx ks =>
    { tag := .name tag, text := tx.finText ks.isEmpty, children := tx.finInl ++ NT.fins ks, tail := some ['\n'] }
def NT.fins : List NT → List Node
  | [] => []
  | t :: r => t.fin :: NT.fins r
end

mutual
/-- serialised (xhtml), without the line feed after it -/
def NT.out : NT → Str
  | .el tag tx ks =>
    if tag = ['h', 'r'] then ['<', 'h', 'r', ' ', '/', '>']
    else '<' :: tag ++ ['>'] ++ tx.out ks.isEmpty ++ NT.outsNl ks ++ ('<' :: '/' :: tag ++ ['>'])
/-- the children, each followed by a line feed -/
def NT.outsNl : List NT → Str
  | [] => []
  | t :: r => t.out ++ ['\n'] ++ NT.outsNl r
end

def NT.outs : List NT → List Str
  | [] => []
  | t :: r => t.out :: NT.outs r

section ntStages

theorem nt_tag_mem {esc : List Char} {tag : Str} {tx : Txt} {ks : List NT} (h : (NT.el tag tx ks).ok esc) :
    tag ∈ gtTags := (nok_el.1 h).1

theorem mid_blockLevel_nt (esc : List Char) (t : NT) (h : t.ok esc) :
    TreeProc.isBlockLevel TreeProc.defaultBlockLevel (t.mid esc).tag = true := by
  cases t with
  | el tag tx ks => exact (gtTagFacts _ (nt_tag_mem h)).1

theorem prettifyKids_inl_append (esc : List Char) (segs : List MSeg) (rest : List Node) :
    TreeProc.prettifyKids TreeProc.defaultBlockLevel (segs.map (tailedM esc) ++ rest) =
      segs.map (tailedM esc) ++ TreeProc.prettifyKids TreeProc.defaultBlockLevel rest := by
  induction segs with
  | nil => rfl
  | cons s r ih =>
    simp only [List.map_cons, List.cons_append, TreeProc.prettifyKids, bl_tailedM esc s, Bool.false_eq_true,
      if_false, ih]

/-- the coded form of a text that starts with a visible character is not blank -/
theorem coded_not_blank' {esc : List Char} {x : Str} (hne : x ≠ []) (hv : startsVisible x = true) :
    isBlank (coded esc x) = false := by
  cases x with
  | nil => exact absurd rfl hne
  | cons c r =>
    have hc : isSpace c = false := by simpa [startsVisible] using hv
    by_cases hm : c ∈ esc
    · simp [coded, hm, escCode, isBlank, show isSpace Inline.STX = false by decide]
    · simp [coded, hm, isBlank, hc]

theorem blankOrNone_optCoded {esc : List Char} {x : Str} (hne : x ≠ []) (hv : startsVisible x = true) :
    TreeProc.blankOrNone (optStr (coded esc x)) = false := by
  have hb := coded_not_blank' (esc := esc) hne hv
  obtain ⟨a, b, hab⟩ : ∃ a b, coded esc x = a :: b := by
    cases hc : coded esc x with
    | nil => exact absurd hc (coded_ne_nil hne)
    | cons a b => exact ⟨a, b, rfl⟩
  rw [hab] at hb ⊢
  simp [TreeProc.blankOrNone, Node.truthy, hb, optStr]

/-- `_prettifyETree` on an element of the family -/
theorem prettifyETree_node (tag : Str) (hm : tag ∈ gtTags) (text : Option Str) (kids : List Node) :
    TreeProc.prettifyETree TreeProc.defaultBlockLevel { tag := .name tag, text := text, children := kids } =
      { tag := .name tag,
        text := if TreeProc.blankOrNone text &&
          (match kids with | c :: _ => TreeProc.isBlockLevel TreeProc.defaultBlockLevel c.tag | [] => false)
          then some ['\n'] else text,
        children := TreeProc.prettifyKids TreeProc.defaultBlockLevel kids, tail := some ['\n'] } := by
  have hf := gtTagFacts _ hm
  have h1 : (Tag.name tag == Tag.name "code".toList) = false := by simpa using hf.2.1
  have h2 : (Tag.name tag == Tag.name "pre".toList) = false := by simpa using hf.2.2.1
  have h3 : TreeProc.blankOrNone (none : Option Str) = true := rfl
  cases kids with
  | nil =>
    cases hA : TreeProc.blankOrNone text <;>
      simp only [TreeProc.prettifyETree, hf.1, h1, h2, h3, hA, Bool.not_false, Bool.and_self,
        Bool.and_false, if_true, Bool.false_eq_true, if_false]
  | cons c r =>
    cases hA : TreeProc.blankOrNone text <;> cases hB : TreeProc.isBlockLevel TreeProc.defaultBlockLevel c.tag <;>
      simp only [TreeProc.prettifyETree, hf.1, h1, h2, h3, hA, hB, Bool.not_false, Bool.and_self, Bool.and_true,
        Bool.and_false, if_true, Bool.false_eq_true, if_false]

mutual
theorem prettifyETree_nt (esc : List Char) : (t : NT) → t.ok esc →
    TreeProc.prettifyETree TreeProc.defaultBlockLevel (t.mid esc) = t.pretty esc
  | .el tag tx ks, h => by
    have hm := nt_tag_mem h
    rw [nok_el] at h
    have hk := prettifyKids_nt esc ks h.2.2.2
    rw [NT.mid, NT.pretty, prettifyETree_node tag hm, Txt.inl, prettifyKids_inl_append, hk]
    congr 1
    cases tx with
    | none =>
      cases ks with
      | nil => simp [Txt.midText, Txt.prettyText, Txt.segs, NT.mids]
      | cons k r =>
        have hkb := mid_blockLevel_nt esc k (noks_cons.1 h.2.2.2).1
        simp [Txt.midText, Txt.prettyText, Txt.segs, NT.mids, hkb, TreeProc.blankOrNone, Node.truthy]
    | empty =>
      cases ks with
      | nil => simp [Txt.midText, Txt.prettyText, Txt.segs, NT.mids]
      | cons k r =>
        have hkb := mid_blockLevel_nt esc k (noks_cons.1 h.2.2.2).1
        simp [Txt.midText, Txt.prettyText, Txt.segs, NT.mids, hkb, TreeProc.blankOrNone, Node.truthy]
    | mix t0 segs =>
      have hx : MixOK esc t0 segs := h.2.1
      simp only [Txt.midText, Txt.prettyText, Txt.segs]
      cases segs with
      | cons s r => simp [bl_tailedM esc s]
      | nil =>
        have hne : t0 ≠ [] := by
          rcases hx.ne with h' | h'
          · exact h'
          · exact absurd rfl h'
        simp [blankOrNone_optCoded hne (hx.first hne)]
theorem prettifyKids_nt (esc : List Char) : (ts : List NT) → NT.oks esc ts →
    TreeProc.prettifyKids TreeProc.defaultBlockLevel (NT.mids esc ts) = NT.pretties esc ts
  | [], _ => rfl
  | t :: r, h => by
    rw [noks_cons] at h
    simp only [NT.mids, NT.pretties, TreeProc.prettifyKids, mid_blockLevel_nt esc t h.1, if_true,
      prettifyETree_nt esc t h.1, prettifyKids_nt esc r h.2]
end

theorem mapTree_tailedM (esc : List Char) (s : MSeg) :
    TreeProc.mapTree TreeProc.brRule (tailedM esc s) = tailedM esc s ∧
    TreeProc.mapTree TreeProc.preRule (tailedM esc s) = tailedM esc s := by
  obtain ⟨k, t⟩ := s
  cases k with
  | code n b =>
    constructor <;>
      simp [tailedM, MKind.node, codeSpan, Node.el, TreeProc.mapTree, TreeProc.mapKids, TreeProc.brRule,
        TreeProc.preRule, TreeProc.tagIs]
  | em st d w =>
    cases st <;> constructor <;>
      simp [tailedM, MKind.node, emEl, mkEl, TreeProc.mapTree, TreeProc.mapKids, TreeProc.brRule,
        TreeProc.preRule, TreeProc.tagIs]

theorem mapKids_append (f : Node → Node) (a b : List Node) :
    TreeProc.mapKids f (a ++ b) = TreeProc.mapKids f a ++ TreeProc.mapKids f b := by
  simp [mapKids_eq_map]

theorem mapKids_inl (esc : List Char) (tx : Txt) :
    TreeProc.mapKids TreeProc.brRule (tx.inl esc) = tx.inl esc ∧
    TreeProc.mapKids TreeProc.preRule (tx.inl esc) = tx.inl esc := by
  simp only [Txt.inl, mapKids_eq_map, List.map_map]
  constructor
  · rw [List.map_congr_left (g := tailedM esc)]; intro s _; exact (mapTree_tailedM esc s).1
  · rw [List.map_congr_left (g := tailedM esc)]; intro s _; exact (mapTree_tailedM esc s).2

mutual
theorem mapTree_br_nt (esc : List Char) : (t : NT) → t.ok esc →
    TreeProc.mapTree TreeProc.brRule (t.pretty esc) = t.pretty esc
  | .el tag tx ks, h => by
    have hf := gtTagFacts _ (nt_tag_mem h)
    rw [nok_el] at h
    rw [NT.pretty, mapTree_node, mapKids_append, (mapKids_inl esc tx).1, mapKids_br_nt esc ks h.2.2.2]
    exact brRule_tag _ tag rfl hf.2.2.2.1
theorem mapKids_br_nt (esc : List Char) : (ts : List NT) → NT.oks esc ts →
    TreeProc.mapKids TreeProc.brRule (NT.pretties esc ts) = NT.pretties esc ts
  | [], _ => rfl
  | t :: r, h => by
    rw [noks_cons] at h
    rw [NT.pretties, TreeProc.mapKids, mapTree_br_nt esc t h.1, mapKids_br_nt esc r h.2]
end

mutual
theorem mapTree_pre_nt (esc : List Char) : (t : NT) → t.ok esc →
    TreeProc.mapTree TreeProc.preRule (t.pretty esc) = t.pretty esc
  | .el tag tx ks, h => by
    have hf := gtTagFacts _ (nt_tag_mem h)
    rw [nok_el] at h
    rw [NT.pretty, mapTree_node, mapKids_append, (mapKids_inl esc tx).2, mapKids_pre_nt esc ks h.2.2.2]
    exact preRule_tag _ tag rfl hf.2.2.1
theorem mapKids_pre_nt (esc : List Char) : (ts : List NT) → NT.oks esc ts →
    TreeProc.mapKids TreeProc.preRule (NT.pretties esc ts) = NT.pretties esc ts
  | [], _ => rfl
  | t :: r, h => by
    rw [noks_cons] at h
    rw [NT.pretties, TreeProc.mapKids, mapTree_pre_nt esc t h.1, mapKids_pre_nt esc r h.2]
end

theorem prettify_nt (esc : List Char) (ts : List NT) (hne : ts ≠ []) (hok : NT.oks esc ts) :
    TreeProc.prettify (divOf (NT.mids esc ts)) = prettyDiv (NT.pretties esc ts) := by
  have h1 : TreeProc.isBlockLevel TreeProc.defaultBlockLevel (.name "div".toList) = true := by decide
  have h3 : (Tag.name "div".toList == Tag.name "code".toList) = false := by decide
  have h4 : (Tag.name "div".toList == Tag.name "pre".toList) = false := by decide
  have h7 : (Tag.name "div".toList == Tag.name "br".toList) = false := by decide
  obtain ⟨t, r, rfl⟩ : ∃ t r, ts = t :: r := by
    cases ts with
    | nil => exact absurd rfl hne
    | cons t r => exact ⟨t, r, rfl⟩
  have hb := mid_blockLevel_nt esc t (noks_cons.1 hok).1
  have hk := prettifyKids_nt esc (t :: r) hok
  have hbr := mapKids_br_nt esc (t :: r) hok
  have hpre := mapKids_pre_nt esc (t :: r) hok
  simp only [NT.mids] at hk
  simp only [TreeProc.prettify, divOf, NT.mids, TreeProc.prettifyETree, h1, h3, h4, hb, TreeProc.blankOrNone,
    Node.truthy, Bool.not_false, Bool.true_or, Bool.and_self, if_true, hk, TreeProc.mapTree, hbr, hpre,
    TreeProc.brRule, TreeProc.preRule, TreeProc.tagIs, h7, Bool.false_eq_true, if_false, prettyDiv]

theorem unescapeKids_append (a b a' b' : List Node) (ha : TreeProc.unescapeKids a = some a')
    (hb : TreeProc.unescapeKids b = some b') : TreeProc.unescapeKids (a ++ b) = some (a' ++ b') := by
  induction a generalizing a' with
  | nil => simp only [TreeProc.unescapeKids, Option.some.injEq] at ha; subst ha; simpa using hb
  | cons c r ih =>
    simp only [TreeProc.unescapeKids] at ha
    cases hc : TreeProc.unescapeTree c with
    | none => rw [hc] at ha; simp at ha
    | some c' =>
      cases hr : TreeProc.unescapeKids r with
      | none => rw [hc, hr] at ha; simp at ha
      | some r' =>
        rw [hc, hr] at ha
        simp only [Option.some.injEq] at ha
        subst ha
        simp only [List.cons_append, TreeProc.unescapeKids, hc, ih r' hr]

/-- `unescape` on an element of the family whose tail is a line feed -/
theorem unescapeTree_node (tag : Str) (hcode : tag ≠ ['c', 'o', 'd', 'e']) (text text' : Option Str)
    (kids kids' : List Node)
    (ht : (if Node.truthy text = true then (TreeProc.unescapeText 0 (text.getD [])).map some else some text) =
      some text')
    (hk : TreeProc.unescapeKids kids = some kids') :
    TreeProc.unescapeTree { tag := .name tag, text := text, children := kids, tail := some ['\n'] } =
      some { tag := .name tag, text := text', children := kids', tail := some ['\n'] } := by
  have hnl : TreeProc.unescapeText 0 ['\n'] = some ['\n'] := by decide
  have hc : (Tag.name tag == Tag.name "code".toList) = false := by simpa using hcode
  have t1 : Node.truthy (some ['\n']) = true := rfl
  simp only [TreeProc.unescapeTree, hc, Bool.not_false, Bool.and_true, ht, hk, TreeProc.unescAttrs, t1, if_true,
    Option.getD_some, hnl, Option.map_some]
  by_cases htt : Node.truthy text = true <;> simp [htt]

mutual
theorem unescapeTree_nt (esc : List Char) : (t : NT) → t.ok esc →
    TreeProc.unescapeTree (t.pretty esc) = some t.fin
  | .el tag tx ks, h => by
    have hf := gtTagFacts _ (nt_tag_mem h)
    rw [nok_el] at h
    have hk := unescapeKids_nt esc ks h.2.2.2
    rw [NT.pretty, NT.fin]
    have hnl : TreeProc.unescapeText 0 ['\n'] = some ['\n'] := by decide
    cases tx with
    | none =>
      refine unescapeTree_node tag hf.2.1 _ _ _ _ ?_
        (unescapeKids_append _ _ _ _ (by simp [Txt.inl, Txt.finInl, Txt.segs, TreeProc.unescapeKids]) hk)
      cases ks <;> simp [Txt.prettyText, Txt.finText, Node.truthy, hnl]
    | empty =>
      refine unescapeTree_node tag hf.2.1 _ _ _ _ ?_
        (unescapeKids_append _ _ _ _ (by simp [Txt.inl, Txt.finInl, Txt.segs, TreeProc.unescapeKids]) hk)
      cases ks <;> simp [Txt.prettyText, Txt.finText, Node.truthy, hnl]
    | mix t0 segs =>
      have hx : MixOK esc t0 segs := h.2.1
      refine unescapeTree_node tag hf.2.1 _ _ _ _
        (unescOpt_coded esc t0 (fun hm => (hx.plain _ (Or.inl hm)).2.2 rfl))
        (unescapeKids_append _ _ _ _ (unescapeKids_tailedM esc segs
          (fun s hs => ⟨fun hm => (hx.plain _ (Or.inr ⟨s, hs, hm⟩)).2.2 rfl,
            fine_of_ok s.k (hx.hsegs s hs) (hx.clean s hs)⟩)) hk)
theorem unescapeKids_nt (esc : List Char) : (ts : List NT) → NT.oks esc ts →
    TreeProc.unescapeKids (NT.pretties esc ts) = some (NT.fins ts)
  | [], _ => rfl
  | t :: r, h => by
    rw [noks_cons] at h
    simp only [NT.pretties, NT.fins, TreeProc.unescapeKids, unescapeTree_nt esc t h.1, unescapeKids_nt esc r h.2]
end

theorem unescapeTree_div_nt (esc : List Char) (ts : List NT) (hok : NT.oks esc ts) :
    TreeProc.unescapeTree (prettyDiv (NT.pretties esc ts)) = some (prettyDiv (NT.fins ts)) := by
  have hnl : TreeProc.unescapeText 0 ['\n'] = some ['\n'] := by decide
  simp [prettyDiv, TreeProc.unescapeTree, unescapeKids_nt esc ts hok, TreeProc.unescAttrs, hnl, Node.truthy]

theorem nout_el (tag : Str) (tx : Txt) (ks : List NT) :
    (NT.el tag tx ks).out =
      if tag = ['h', 'r'] then ['<', 'h', 'r', ' ', '/', '>']
      else '<' :: tag ++ ['>'] ++ tx.out ks.isEmpty ++ NT.outsNl ks ++ ('<' :: '/' :: tag ++ ['>']) := by
  rw [NT.out]

theorem noutsNl_cons (t : NT) (r : List NT) : NT.outsNl (t :: r) = t.out ++ ['\n'] ++ NT.outsNl r := by
  rw [NT.outsNl]

theorem serializeList_append (fmt : Ser.Fmt) (a b : List Node) :
    Ser.serializeList fmt (a ++ b) = Ser.serializeList fmt a ++ Ser.serializeList fmt b := by
  induction a with
  | nil => simp [Ser.serializeList]
  | cons c r ih => simp [serializeList_cons, ih, List.append_assoc]

mutual
theorem serialize_nt (esc : List Char) : (t : NT) → t.ok esc → Ser.serialize .xhtml t.fin = t.out ++ ['\n']
  | .el tag tx ks, h => by
    have hm := nt_tag_mem h
    rw [nok_el] at h
    have hk := serializeList_nt esc ks h.2.2.2
    rw [NT.fin, nout_el]
    by_cases hhr : tag = ['h', 'r']
    · subst hhr
      obtain ⟨htx, hks⟩ := h.2.2.1 rfl
      subst htx; subst hks
      simp only [Txt.finText, Txt.finInl, Txt.segs, NT.fins, if_true, List.isEmpty_nil, List.map_nil, List.append_nil]
      exact serialize_hr
    · rw [serialize_node tag hm hhr, serializeList_append, hk]
      simp only [hhr, if_false]
      have h5 : Ser.escCdata ['\n'] = ['\n'] := by decide
      cases tx with
      | none =>
        cases ks <;> simp [Txt.finText, Txt.finInl, Txt.segs, Txt.out, Node.truthy, h5, Ser.serializeList,
          List.append_assoc]
      | empty =>
        cases ks <;> simp [Txt.finText, Txt.finInl, Txt.segs, Txt.out, Node.truthy, h5, Ser.serializeList,
          List.append_assoc]
      | mix t0 segs =>
        have hx : MixOK esc t0 segs := h.2.1
        have hsl := serializeList_tailedM segs (fun s hs => fine_of_ok s.k (hx.hsegs s hs) (hx.clean s hs))
        simp only [Txt.finText, Txt.finInl, Txt.segs, Txt.out, hsl]
        cases t0 with
        | nil =>
          have e0 : Ser.escCdata [] = [] := by decide
          simp [optStr, Node.truthy, e0, List.append_assoc]
        | cons a b => simp [optStr, Node.truthy, List.append_assoc]
theorem serializeList_nt (esc : List Char) : (ts : List NT) → NT.oks esc ts →
    Ser.serializeList .xhtml (NT.fins ts) = NT.outsNl ts
  | [], _ => rfl
  | t :: r, h => by
    rw [noks_cons] at h
    rw [NT.fins, noutsNl_cons, Ser.serializeList, serialize_nt esc t h.1, serializeList_nt esc r h.2]
end

theorem nouts_cons (t : NT) (r : List NT) : NT.outs (t :: r) = t.out :: NT.outs r := rfl

theorem noutsNl_eq (ts : List NT) : NT.outsNl ts = (NT.outs ts).flatMap (· ++ ['\n']) := by
  induction ts with
  | nil => rfl
  | cons t r ih => rw [noutsNl_cons, nouts_cons, List.flatMap_cons, ih]

theorem nouts_ne_nil (ts : List NT) (h : ts ≠ []) : NT.outs ts ≠ [] := by
  cases ts with
  | nil => exact absurd rfl h
  | cons t r => rw [nouts_cons]; simp

theorem nouts_eq_map (ts : List NT) : NT.outs ts = ts.map NT.out := by
  induction ts with
  | nil => rfl
  | cons t r ih => rw [nouts_cons, ih]; rfl

theorem serialize_div_nt (esc : List Char) (ts : List NT) (hne : ts ≠ []) (hok : NT.oks esc ts) :
    Ser.serialize .xhtml (prettyDiv (NT.fins ts)) =
      "<div>".toList ++ ('\n' :: join ['\n'] (NT.outs ts) ++ ['\n']) ++ "</div>\n".toList := by
  have h1 : Ser.isEmptyTag "div".toList = false := by decide
  have h3 : Ser.isRawTextTag "div".toList = false := by decide
  have h5 : Ser.escCdata ['\n'] = ['\n'] := by decide
  have hk := serializeList_nt esc ts hok
  rw [noutsNl_eq, flatMap_nl _ (nouts_ne_nil ts hne)] at hk
  simp only [prettyDiv, Ser.serialize, Ser.element, Ser.sortAttrs, List.foldr_nil, Ser.writeAttrs, h1, h3, h5,
    Node.truthy, Option.getD_some, Bool.false_eq_true, if_false, if_true, List.append_nil, hk, Bool.and_false]
  simp [List.append_assoc]

theorem stx_not_mem_txtOut {esc : List Char} (tx : Txt) (h : tx.ok esc) (nk : Bool) : Post.STX ∉ tx.out nk := by
  cases tx with
  | none => simp only [Txt.out]; split <;> decide
  | empty => simp only [Txt.out]; split <;> decide
  | mix t0 segs =>
    have hx : MixOK esc t0 segs := h
    simp only [Txt.out]
    intro hm
    rcases List.mem_append.1 hm with hm | hm
    · exact stx_not_mem_escCdata _ (fun hm' => (hx.plain _ (Or.inl hm')).2.2 rfl) hm
    · exact stx_not_mem_outM segs
        (fun s hs => ⟨fun hm' => (hx.plain _ (Or.inr ⟨s, hs, hm'⟩)).2.2 rfl, hx.clean s hs⟩) hm

mutual
theorem out_facts_nt (esc : List Char) : (t : NT) → t.ok esc →
    Post.STX ∉ t.out ∧ t.out.head? = some '<' ∧ t.out.getLast? = some '>'
  | .el tag tx ks, h => by
    have hf := gtTagFacts _ (nt_tag_mem h)
    rw [nok_el] at h
    have hk := noutsNl_stx esc ks h.2.2.2
    rw [nout_el]
    by_cases hhr : tag = ['h', 'r']
    · simp only [hhr, if_true]; exact ⟨by decide, rfl, rfl⟩
    · simp only [hhr, if_false]
      refine ⟨?_, rfl, ?_⟩
      · intro hm
        have hmid := stx_not_mem_txtOut tx h.2.1 ks.isEmpty
        have d1 : Post.STX ≠ '<' := by decide
        have d2 : Post.STX ≠ '>' := by decide
        have d3 : Post.STX ≠ '/' := by decide
        have h7 := hf.2.2.2.2.2.2
        simp only [List.mem_append, List.mem_cons] at hm
        rcases hm with (((h' | h' | h') | h') | h') | (h' | h' | h' | h') <;> simp_all
      · have : ('<' :: tag ++ ['>'] ++ tx.out ks.isEmpty ++ NT.outsNl ks ++ ('<' :: '/' :: tag ++ ['>'])) =
            ('<' :: tag ++ ['>'] ++ tx.out ks.isEmpty ++ NT.outsNl ks ++ ('<' :: '/' :: tag)) ++ ['>'] := by simp
        rw [this, List.getLast?_append]; rfl
theorem noutsNl_stx (esc : List Char) : (ts : List NT) → NT.oks esc ts → Post.STX ∉ NT.outsNl ts
  | [], _ => by simp [NT.outsNl]
  | t :: r, h => by
    rw [noks_cons] at h
    rw [noutsNl_cons]
    intro hm
    simp only [List.mem_append, List.mem_singleton] at hm
    rcases hm with (hm | hm) | hm
    · exact (out_facts_nt esc t h.1).1 hm
    · exact absurd hm (by decide)
    · exact noutsNl_stx esc r h.2 hm
end

theorem nouts_facts (esc : List Char) (ts : List NT) (hok : NT.oks esc ts) :
    ∀ o ∈ NT.outs ts, Post.STX ∉ o ∧ o.head? = some '<' ∧ o.getLast? = some '>' := by
  induction ts with
  | nil => intro o ho; cases ho
  | cons t r ih =>
    rw [noks_cons] at hok
    intro o ho
    rw [nouts_cons] at ho
    rcases List.mem_cons.1 ho with rfl | ho
    · exact out_facts_nt esc t hok.1
    · exact ih hok.2 o ho

/-- **the stages after the block parser** on a `<div>` of element trees of the family -/
theorem render_nt (cfg : Pipeline.Cfg) (hE : EscOK cfg.esc) (hbl : cfg.blockLevel = TreeProc.defaultBlockLevel)
    (hfmt : cfg.fmt = .xhtml) (refs : List (Str × Str × Option Str)) (ts : List NT) (hne : ts ≠ [])
    (hok : NT.oks cfg.esc ts) :
    Probe.render cfg refs (divOf (ts.map (NT.src cfg.esc))) = .ok (join ['\n'] (NT.outs ts)) := by
  obtain ⟨st', hst, h1⟩ := run_nt { esc := cfg.esc, refs := refs } hE ts hok []
  have h2 := prettify_nt cfg.esc ts hne hok
  have h3 := unescapeTree_div_nt cfg.esc ts hok
  have h4 := serialize_div_nt cfg.esc ts hne hok
  obtain ⟨j1, j2, j3⟩ := join_facts (NT.outs ts) (nouts_ne_nil ts hne) (nouts_facts cfg.esc ts hok)
  have h5 := finish_wrapped cfg.blockLevel (join ['\n'] (NT.outs ts)) j1
    (fun c hc => by rw [j2] at hc; cases hc; decide) (fun c hc => by rw [j3] at hc; cases hc; decide)
  rw [← nmids_eq_map] at h1
  simp only [Probe.render, h1, hbl, h2, h3, hfmt, h4, hst]
  rw [hbl] at h5
  simp only [h5]

end ntStages

end MdVerif.DocNest
