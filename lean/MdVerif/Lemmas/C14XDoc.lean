/-
Helper lemmas for C14 on the extension pipeline (`Props/C14X.lean`), part 5: from the tree to the two documents.
`PipelineX.finishX` (strip of the wrapper `div`, raw-HTML restore with ANY stash, footnote postprocessor,
`AndSubstitutePostprocessor`, `.strip()`) takes the html and the xhtml serialisation of a well-formed tree with a
plain `div` root to two renderings of one marked string (`Lemmas/C14XMark.lean`), hence to two strings that differ
only in spelling (`Ser.Respell`).  Core Lean only.
-/
import MdVerif.Lemmas.C14X
import MdVerif.Lemmas.C14XPost
import MdVerif.Lemmas.C14XSer
import MdVerif.Lemmas.InlineVocab

namespace MdVerif.C14X
open Py Ser PipelineX Pipeline

/-- the root is the wrapper `div` without attributes -/
def rootDiv (u : Node) : Bool := u.tag == .name "div".toList && u.attrs.isEmpty

/-- the content of the wrapper as a marked string -/
def mInner (u : Node) : M := lit (tailS u.text) ++ mList u.children

theorem wfList_children {u : Node} (h : WFTree u = true) : WFList u.children = true := by
  obtain ⟨tag, attrs, text, ta, children, tail, tla⟩ := u
  simp only [WFTree, Bool.and_eq_true] at h
  exact h.2

theorem rH_mInner {u : Node} (h : WFTree u = true) : rH (mInner u) = Vocab2.inner .html u := by
  simp only [mInner, rH_append, rH_lit, rH_mList _ (wfList_children h), Vocab2.inner, tailS]

theorem rX_mInner {u : Node} (h : WFTree u = true) : rX (mInner u) = Vocab2.inner .xhtml u := by
  simp only [mInner, rX_append, rX_lit, rX_mList _ (wfList_children h), Vocab2.inner, tailS]

theorem invA_mInner {u : Node} (h : WFTree u = true) : InvA bad (mInner u) = true :=
  invA_lit_append _ (invA_mList _ (wfList_children h))

theorem serialize_div (fmt : Fmt) (u : Node) (hd : rootDiv u = true) :
    serialize fmt u = "<div>".toList ++ Vocab2.inner fmt u ++ "</div>".toList ++ tailS u.tail := by
  obtain ⟨tag, attrs, text, ta, children, tail, tla⟩ := u
  simp only [rootDiv, Bool.and_eq_true, beq_iff_eq, List.isEmpty_iff] at hd
  obtain ⟨h1, h2⟩ := hd
  subst h1; subst h2
  have e2 : isEmptyTag "div".toList = false := by decide
  have e3 : isRawTextTag "div".toList = false := by decide
  simp only [serialize, element, e2, e3, sortAttrs, writeAttrs, Vocab2.inner, List.foldr_nil, Bool.and_false,
    Bool.false_eq_true, ↓reduceIte, List.append_nil, tailS]
  simp [List.append_assoc]

theorem tailS_no_lt (t : Option Str) : '<' ∉ tailS t := by
  unfold tailS
  split
  · intro h
    rw [onepass_cdata'] at h
    exact (esc1_no_markup' false false _ _ h).1 rfl
  · simp

theorem topLevelStrip_div (fmt : Fmt) (u : Node) (hd : rootDiv u = true) :
    Post.topLevelStrip (serialize fmt u) = some (strip (Vocab2.inner fmt u)) := by
  rw [serialize_div fmt u hd]
  exact Vocab2.topLevelStrip_wrapped _ _ (tailS_no_lt _)

theorem patOK_amp : PatOK Post.ampSubstitute :=
  ⟨by decide, by decide, ⟨[Post.STX, 'a', 'm', 'p'], Post.ETX, rfl, by decide⟩⟩

theorem patOK_backlink : PatOK FootnotesTree.fnBacklinkText :=
  ⟨by decide, by decide, ⟨FootnotesTree.STX :: "zz1337820767766393qq".toList, FootnotesTree.ETX, rfl, by decide⟩⟩

theorem patOK_nbsp : PatOK FootnotesTree.nbspPlaceholder :=
  ⟨by decide, by decide, ⟨FootnotesTree.STX :: "qq3936677670287331zz".toList, FootnotesTree.ETX, rfl, by decide⟩⟩

/-- the postprocessors after the raw-HTML restore, in lockstep -/
theorem postTail_sim (x : Exts) (m : M) (hi : InvA bad m = true) :
    ∃ m', Post.ampSub (if x.footnotes then FootnotesTree.postprocess (rH m) else rH m) = rH m' ∧
      Post.ampSub (if x.footnotes then FootnotesTree.postprocess (rX m) else rX m) = rX m' ∧ InvA bad m' = true := by
  by_cases hf : x.footnotes = true
  · simp only [hf, if_true, FootnotesTree.postprocess, Post.ampSub]
    obtain ⟨m1, a1, b1, c1⟩ := replace_sim patOK_backlink "&#8617;".toList _ m bad (Nat.le_refl _) hi
    obtain ⟨m2, a2, b2, c2⟩ := replace_sim patOK_nbsp "&#160;".toList _ m1 bad (Nat.le_refl _) c1
    obtain ⟨m3, a3, b3, c3⟩ := replace_sim patOK_amp ['&'] _ m2 bad (Nat.le_refl _) c2
    exact ⟨m3, by rw [a1, a2, a3], by rw [b1, b2, b3], c3⟩
  · simp only [hf, Bool.false_eq_true, if_false, Post.ampSub]
    exact replace_sim patOK_amp ['&'] _ m bad (Nat.le_refl _) hi

/-- **the end of `convert` in lockstep.**  The html and the xhtml serialisation of a well-formed tree with a plain
    `div` root, put through strip, raw-HTML restore (any stash), footnote postprocessor, `&` restore and `.strip()`:
    when both answer, the answers differ only in spelling. -/
theorem finishX_respell (x : Exts) (cfgH cfgX : Cfg) (hbl : cfgH.blockLevel = cfgX.blockLevel) (stash : List Str)
    (u : Node) (hd : rootDiv u = true) (hwf : WFTree u = true) (h xo : Str)
    (hh : finishX x cfgH stash (serialize .html u) = .ok h)
    (hx : finishX x cfgX stash (serialize .xhtml u) = .ok xo) : Respell h xo := by
  simp only [finishX, topLevelStrip_div _ u hd, postX] at hh hx
  obtain ⟨m1, a1, b1, c1⟩ := strip_sim (mInner u) (invA_mInner hwf)
  rw [rH_mInner hwf] at a1
  rw [rX_mInner hwf] at b1
  rw [a1] at hh
  rw [b1, ← hbl] at hx
  cases hrH : Post.rawHtml cfgH.blockLevel stash (Post.rawHtmlFuel stash) (rH m1) with
  | none => rw [hrH] at hh; simp at hh
  | some r1 =>
    cases hrX : Post.rawHtml cfgH.blockLevel stash (Post.rawHtmlFuel stash) (rX m1) with
    | none => rw [hrX] at hx; simp at hx
    | some r2 =>
      rw [hrH] at hh; rw [hrX] at hx
      simp only [Option.map_some, Outcome.ok.injEq] at hh hx
      obtain ⟨m2, a2, b2, c2⟩ := rawHtml_sim _ _ _ _ m1 bad r1 r2 c1 hrH hrX
      subst a2; subst b2
      obtain ⟨m3, a3, b3, c3⟩ := postTail_sim x m2 c2
      rw [a3] at hh; rw [b3] at hx
      obtain ⟨m4, a4, b4, c4⟩ := strip_sim m3 c3
      rw [a4] at hh; rw [b4] at hx
      subst hh; subst hx
      exact respell_M m4 bad c4


/-- `convertX`, both formats, same tree and stash -/
theorem convertX_respell (x : Exts) (cfg : Cfg) (src h xo : Str) (u : Node) (html : List Str)
    (hth : treeX x { cfg with fmt := .html } src = .ok u html)
    (htx : treeX x { cfg with fmt := .xhtml } src = .ok u html)
    (hroot : rootDiv u = true) (hwf : WFTree u = true)
    (hh : convertX x { cfg with fmt := .html } src = .ok h)
    (hx : convertX x { cfg with fmt := .xhtml } src = .ok xo) : Respell h xo := by
  unfold convertX at hh hx
  split at hh
  · cases hh
  · split at hh
    · cases hh
    · rename_i hlt _
      simp only [hlt, Bool.false_eq_true, if_false, Exts.unsupported] at hx
      split at hh
      · rename_i hb
        simp only [hb, if_true] at hx
        injection hh with e1; injection hx with e2; subst e1; subst e2
        exact .nil
      · rename_i hb
        simp only [hb, if_false] at hx
        rw [hth] at hh; rw [htx] at hx
        exact finishX_respell x _ _ rfl html u hroot hwf h xo hh hx

/-! ### the core pipeline -/

/-- with every extension off, `treeX` is the core `tree` -/
theorem treeX_core (cfg : Cfg) (src : Str) : treeX {} cfg src =
    match tree cfg src with
    | none => .oof
    | some none => .err
    | some (some (u, html)) => .ok u html := by
  simp only [treeX, tree, prepareX, prepare, Exts.blockCfg, BlockExt.parseDocumentXT, Block.parseDocument,
    Block.parseDocumentWith, BlockExt.parseBlocksXT_false, BlockExt.fuelForX, Block.fuelFor, refsX, escX]
  have hcore : ({ admonition := false, defList := false, footnotes := false, abbr := false, saneLists := false } :
      BlockExt.XCfg) = BlockExt.XCfg.core := rfl
  simp only [Bool.false_eq_true, if_false, Bool.or_self, Bool.false_and, hcore, BlockExt.parseBlocksX_core]
  cases Block.parseChunk (Block.parseBlocks cfg.tab (2 * (Extract.extract (Normalize.normalize cfg.tab src)).length + 10))
      [] [] (Node.el "div") (Extract.extract (Normalize.normalize cfg.tab src)) with
  | none => rfl
  | some r =>
    obtain ⟨root, refs⟩ := r
    simp only [table_core]
    have hx := InlineX.runX_core { esc := cfg.esc, refs := refs.reverse }
      (List.map (fun x => x.fst) (BlockExt.footnotesOf refs)) root []
    simp only [InlineX.xcCore] at hx
    rw [hx]
    cases Inline.run { esc := cfg.esc, refs := refs.reverse } root [] with
    | none => rfl
    | some q =>
      obtain ⟨t, st⟩ := q
      simp only [Option.map_some, InlineX.lift]
      cases TreeProc.unescapeTree (TreeProc.prettify t cfg.blockLevel) with
      | none => rfl
      | some u => rfl

theorem docOk_rootDiv {u : Node} (h : Vocab2.DocOk u = true) : rootDiv u = true := by
  simp only [Vocab2.DocOk, Bool.and_eq_true] at h
  simp only [rootDiv, Bool.and_eq_true]
  exact ⟨h.1.1, h.1.2⟩

theorem docOk_wf {u : Node} (h : Vocab2.DocOk u = true) : WFTree u = true := by
  obtain ⟨tag, attrs, text, ta, children, tail, tla⟩ := u
  simp only [Vocab2.DocOk, Bool.and_eq_true, beq_iff_eq, List.isEmpty_iff] at h
  obtain ⟨⟨h1, h2⟩, h3⟩ := h
  subst h1; subst h2
  have e1 : isName ['d', 'i', 'v'] = true := by decide
  have e2 : isEmptyTag ['d', 'i', 'v'] = false := by decide
  have e3 : isRawTextTag ['d', 'i', 'v'] = false := by decide
  simp [WFTree, Vocab2.good_WFList _ h3, keysNodup]
  simp [e1, e2, e3]

/-- **core pipeline, any stash**: the two outputs of `Pipeline.convert` differ only in spelling -/
theorem convert_respell (cfg : Cfg) (src h xo : Str)
    (hh : convert { cfg with fmt := .html } src = .ok h)
    (hx : convert { cfg with fmt := .xhtml } src = .ok xo) : Respell h xo := by
  rw [← convertX_core] at hh hx
  unfold convertX at hh hx
  split at hh
  · cases hh
  · split at hh
    · cases hh
    · rename_i hlt _
      simp only [hlt, Bool.false_eq_true, if_false, Exts.unsupported] at hx
      split at hh
      · rename_i hb
        simp only [hb, if_true] at hx
        injection hh with e1; injection hx with e2; subst e1; subst e2
        exact .nil
      · rename_i hb
        simp only [hb, if_false] at hx
        have e1 := treeX_core { cfg with fmt := .html } src
        have e2 := treeX_core { cfg with fmt := .xhtml } src
        have t1 : tree { cfg with fmt := .html } src = tree cfg src := rfl
        have t2 : tree { cfg with fmt := .xhtml } src = tree cfg src := rfl
        rw [t1] at e1; rw [t2] at e2
        cases ht : tree cfg src with
        | none => rw [e1, ht] at hh; cases hh
        | some o =>
          cases o with
          | none => rw [e1, ht] at hh; cases hh
          | some p =>
            obtain ⟨u, html⟩ := p
            rw [e1, ht] at hh; rw [e2, ht] at hx
            simp only at hh hx
            have hd := Vocab2.tree_docOk cfg src u html ht
            exact finishX_respell {} _ _ rfl html u (docOk_rootDiv hd) (docOk_wf hd) h xo hh hx

end MdVerif.C14X
