/-
Helper lemmas for C10c: the regions behind `](` and `![` (`Spec/NoCtlC.lean`: `destClose`, `altClose`, `regionsOK`,
`AdjC`, `cutOK`).  Closure of `RegionsOK` under the operations of the inline engine (lax form: prefixes, suffixes,
replacing a match by a placeholder-like string) and of the block parser (strict form: suffixes, cutting off an end
without `)`/`]` before its first line feed, newline-joins).  Core Lean only.
-/
import MdVerif.Lemmas.PlaceholdersBAdj
import MdVerif.Spec.NoCtlC

namespace MdVerif.NoCtl
open Py Inline

/-! ### characters -/

/-- a character that no open region accepts: backtick, backslash, `*`, `_`, `[`, line feed, STX, ETX -/
def breaker (c : Char) : Bool := !altChar c && c != ']'

theorem breaker_iff {c : Char} : breaker c = true ↔
    (c = '`' ∨ c = '\\' ∨ c = '*' ∨ c = '_' ∨ c = '[' ∨ c = '\n' ∨ c = STX ∨ c = ETX) := by
  simp only [breaker, altChar, Bool.and_eq_true, Bool.not_eq_true', bne_iff_ne, ne_eq, Bool.and_eq_false_iff,
    bne_eq_false_iff_eq]
  constructor
  · rintro ⟨h, hb⟩
    rcases h with (((((((h | h) | h) | h) | h) | h) | h) | h) | h
    · exact .inl h
    · exact .inr (.inl h)
    · exact .inr (.inr (.inl h))
    · exact .inr (.inr (.inr (.inl h)))
    · exact .inr (.inr (.inr (.inr (.inl h))))
    · exact absurd h hb
    · exact .inr (.inr (.inr (.inr (.inr (.inl h)))))
    · exact .inr (.inr (.inr (.inr (.inr (.inr (.inl h))))))
    · exact .inr (.inr (.inr (.inr (.inr (.inr (.inr h))))))
  · intro h
    rcases h with rfl | rfl | rfl | rfl | rfl | rfl | rfl | rfl <;> decide

theorem breaker_props {c : Char} (h : breaker c = true) :
    destChar c = false ∧ altChar c = false ∧ c ≠ ')' ∧ c ≠ ']' ∧ c ≠ '"' ∧ c ≠ '\'' ∧ c ≠ ' ' ∧ c ≠ '(' ∧ c ≠ '!' := by
  rcases breaker_iff.1 h with rfl | rfl | rfl | rfl | rfl | rfl | rfl | rfl <;> decide

theorem destChar_altChar {c : Char} (h : destChar c = true) : altChar c = true := by
  simp only [destChar, altChar, Bool.and_eq_true, bne_iff_ne, ne_eq] at h ⊢
  obtain ⟨⟨⟨⟨⟨⟨⟨⟨⟨⟨⟨⟨h1, h2⟩, h3⟩, h4⟩, h5⟩, h6⟩, _⟩, _⟩, _⟩, _⟩, h11⟩, h12⟩, h13⟩ := h
  exact ⟨⟨⟨⟨⟨⟨⟨⟨h1, h2⟩, h3⟩, h4⟩, h5⟩, h6⟩, h11⟩, h12⟩, h13⟩

theorem destChar_noctl {c : Char} (h : destChar c = true) : c ≠ STX ∧ c ≠ ETX := by
  simp only [destChar, Bool.and_eq_true, bne_iff_ne, ne_eq] at h
  exact ⟨h.1.2, h.2⟩

theorem altChar_noctl {c : Char} (h : altChar c = true) : c ≠ STX ∧ c ≠ ETX := by
  simp only [altChar, Bool.and_eq_true, bne_iff_ne, ne_eq] at h
  exact ⟨h.1.2, h.2⟩

/-- some breaker stands in `M` before any `)` or `]` -/
def breaks : Str → Bool
  | [] => false
  | c :: r => if breaker c then true else if c = ')' || c = ']' then false else breaks r

theorem breaks_of_head {c : Char} (h : breaker c = true) (r : Str) : breaks (c :: r) = true := by
  simp [breaks, h]

theorem breaks_ne_nil {M : Str} (h : breaks M = true) : M ≠ [] := by
  rintro rfl; simp [breaks] at h

/-! ### unfolding -/

theorem destClose2_cons (lax : Bool) (c : Char) (r : Str) :
    destClose2 lax (c :: r) = if c = ')' then true else if c = ' ' then destClose2 lax r else false := rfl

theorem destClose1_cons (lax : Bool) (q c : Char) (r : Str) :
    destClose1 lax q (c :: r) = if c = q then destClose2 lax r else if destChar c then destClose1 lax q r else false :=
  rfl

theorem destClose_cons (lax : Bool) (c : Char) (r : Str) :
    destClose lax (c :: r) =
      if c = ')' then true
      else if c = '"' || c = '\'' then destClose1 lax c r
      else if destChar c then destClose lax r else false := rfl

theorem altClose_cons (lax : Bool) (c : Char) (r : Str) :
    altClose lax (c :: r) = if c = ']' then true else if altChar c then altClose lax r else false := rfl

/-- the check that `regionsOK` makes at one character -/
def headOK (lax : Bool) (c : Char) (r : Str) : Bool :=
  match c, r with
  | ']', '(' :: r' => destClose lax r'
  | '!', '[' :: r' => altClose lax r'
  | _, _ => true

theorem regionsOK_cons (lax : Bool) (c : Char) (r : Str) :
    regionsOK lax (c :: r) = (headOK lax c r && regionsOK lax r) := rfl

theorem headOK_of_ne {lax : Bool} {c : Char} (h1 : c ≠ ']') (h2 : c ≠ '!') (r : Str) : headOK lax c r = true := by
  unfold headOK
  split
  · exact absurd rfl h1
  · exact absurd rfl h2
  · rfl

theorem headOK_nil (lax : Bool) (c : Char) : headOK lax c [] = true := by
  unfold headOK
  split <;> first | rfl | (rename_i h; cases h)

theorem headOK_bracket (lax : Bool) (r : Str) : headOK lax ']' ('(' :: r) = destClose lax r := rfl

theorem headOK_bang (lax : Bool) (r : Str) : headOK lax '!' ('[' :: r) = altClose lax r := rfl

theorem headOK_bracket_ne {lax : Bool} {x : Char} (hx : x ≠ '(') (r : Str) : headOK lax ']' (x :: r) = true := by
  unfold headOK
  split
  · rename_i h; injection h with h1 _; exact absurd h1 hx
  · rename_i h _; exact absurd h (by decide)
  · rfl

theorem headOK_bang_ne {lax : Bool} {x : Char} (hx : x ≠ '[') (r : Str) : headOK lax '!' (x :: r) = true := by
  unfold headOK
  split
  · rename_i h _; exact absurd h (by decide)
  · rename_i h; injection h with h1 _; exact absurd h1 hx
  · rfl

/-! ### a region that is closed stays closed when the string goes on -/

theorem destClose2_ext {lax : Bool} : ∀ (a b : Str), destClose2 false a = true → destClose2 lax (a ++ b) = true := by
  intro a
  induction a with
  | nil => intro b h; simp [destClose2] at h
  | cons c r ih =>
    intro b h
    rw [List.cons_append, destClose2_cons] at *
    split at h
    · rename_i hc; simp [hc]
    · rename_i hc
      rw [if_neg hc]
      split at h
      · rename_i hs; rw [if_pos hs]; exact ih b h
      · cases h

theorem destClose1_ext {lax : Bool} (q : Char) : ∀ (a b : Str), destClose1 false q a = true →
    destClose1 lax q (a ++ b) = true := by
  intro a
  induction a with
  | nil => intro b h; simp [destClose1] at h
  | cons c r ih =>
    intro b h
    rw [List.cons_append, destClose1_cons] at *
    split at h
    · rename_i hc; rw [if_pos hc]; exact destClose2_ext r b h
    · rename_i hc
      rw [if_neg hc]
      split at h
      · rename_i hs; rw [if_pos hs]; exact ih b h
      · cases h

theorem destClose_ext {lax : Bool} : ∀ (a b : Str), destClose false a = true → destClose lax (a ++ b) = true := by
  intro a
  induction a with
  | nil => intro b h; simp [destClose] at h
  | cons c r ih =>
    intro b h
    rw [List.cons_append, destClose_cons] at *
    split at h
    · rename_i hc; rw [if_pos hc]
    · rename_i hc
      rw [if_neg hc]
      split at h
      · rename_i hq; rw [if_pos hq]; exact destClose1_ext c r b h
      · rename_i hq
        rw [if_neg hq]
        split at h
        · rename_i hs; rw [if_pos hs]; exact ih b h
        · cases h

theorem altClose_ext {lax : Bool} : ∀ (a b : Str), altClose false a = true → altClose lax (a ++ b) = true := by
  intro a
  induction a with
  | nil => intro b h; simp [altClose] at h
  | cons c r ih =>
    intro b h
    rw [List.cons_append, altClose_cons] at *
    split at h
    · rename_i hc; rw [if_pos hc]
    · rename_i hc
      rw [if_neg hc]
      split at h
      · rename_i hs; rw [if_pos hs]; exact ih b h
      · cases h

/-! ### the lax form accepts every prefix -/

theorem destClose2_prefix {lax : Bool} : ∀ (a b : Str), destClose2 lax (a ++ b) = true → destClose2 true a = true := by
  intro a
  induction a with
  | nil => intro _ _; rfl
  | cons c r ih =>
    intro b h
    rw [List.cons_append, destClose2_cons] at h
    rw [destClose2_cons]
    split at h
    · rename_i hc; rw [if_pos hc]
    · rename_i hc
      rw [if_neg hc]
      split at h
      · rename_i hs; rw [if_pos hs]; exact ih b h
      · cases h

theorem destClose1_prefix {lax : Bool} (q : Char) : ∀ (a b : Str), destClose1 lax q (a ++ b) = true →
    destClose1 true q a = true := by
  intro a
  induction a with
  | nil => intro _ _; rfl
  | cons c r ih =>
    intro b h
    rw [List.cons_append, destClose1_cons] at h
    rw [destClose1_cons]
    split at h
    · rename_i hc; rw [if_pos hc]; exact destClose2_prefix r b h
    · rename_i hc
      rw [if_neg hc]
      split at h
      · rename_i hs; rw [if_pos hs]; exact ih b h
      · cases h

theorem destClose_prefix {lax : Bool} : ∀ (a b : Str), destClose lax (a ++ b) = true → destClose true a = true := by
  intro a
  induction a with
  | nil => intro _ _; rfl
  | cons c r ih =>
    intro b h
    rw [List.cons_append, destClose_cons] at h
    rw [destClose_cons]
    split at h
    · rename_i hc; rw [if_pos hc]
    · rename_i hc
      rw [if_neg hc]
      split at h
      · rename_i hq; rw [if_pos hq]; exact destClose1_prefix c r b h
      · rename_i hq
        rw [if_neg hq]
        split at h
        · rename_i hs; rw [if_pos hs]; exact ih b h
        · cases h

theorem altClose_prefix {lax : Bool} : ∀ (a b : Str), altClose lax (a ++ b) = true → altClose true a = true := by
  intro a
  induction a with
  | nil => intro _ _; rfl
  | cons c r ih =>
    intro b h
    rw [List.cons_append, altClose_cons] at h
    rw [altClose_cons]
    split at h
    · rename_i hc; rw [if_pos hc]
    · rename_i hc
      rw [if_neg hc]
      split at h
      · rename_i hs; rw [if_pos hs]; exact ih b h
      · cases h

/-! ### no open region survives a string that `breaks` -/

theorem destClose2_breaks {lax : Bool} : ∀ (M Y : Str), breaks M = true → destClose2 lax (M ++ Y) = false := by
  intro M
  induction M with
  | nil => intro Y h; simp [breaks] at h
  | cons c r ih =>
    intro Y h
    rw [List.cons_append, destClose2_cons]
    simp only [breaks] at h
    split at h
    · rename_i hb
      obtain ⟨-, -, h3, -, -, -, h7, -, -⟩ := breaker_props hb
      rw [if_neg h3, if_neg h7]
    · split at h
      · cases h
      · rename_i hc
        simp only [Bool.or_eq_true, decide_eq_true_eq, not_or] at hc
        rw [if_neg hc.1]
        split
        · exact ih Y h
        · rfl

theorem destClose1_breaks {lax : Bool} {q : Char} (hq : q = '"' ∨ q = '\'') :
    ∀ (M Y : Str), breaks M = true → destClose1 lax q (M ++ Y) = false := by
  intro M
  induction M with
  | nil => intro Y h; simp [breaks] at h
  | cons c r ih =>
    intro Y h
    rw [List.cons_append, destClose1_cons]
    simp only [breaks] at h
    split at h
    · rename_i hb
      obtain ⟨h1, -, -, -, h5, h6, -, -, -⟩ := breaker_props hb
      have hcq : c ≠ q := by rcases hq with rfl | rfl <;> assumption
      rw [if_neg hcq, h1]
      rfl
    · split at h
      · cases h
      · split
        · exact destClose2_breaks r Y h
        · split
          · exact ih Y h
          · rfl

theorem destClose_breaks {lax : Bool} : ∀ (M Y : Str), breaks M = true → destClose lax (M ++ Y) = false := by
  intro M
  induction M with
  | nil => intro Y h; simp [breaks] at h
  | cons c r ih =>
    intro Y h
    rw [List.cons_append, destClose_cons]
    simp only [breaks] at h
    split at h
    · rename_i hb
      obtain ⟨h1, -, h3, -, h5, h6, -, -, -⟩ := breaker_props hb
      rw [if_neg h3, h1]
      simp [h5, h6]
    · split at h
      · cases h
      · rename_i hc
        simp only [Bool.or_eq_true, decide_eq_true_eq, not_or] at hc
        rw [if_neg hc.1]
        split
        · rename_i hq
          simp only [Bool.or_eq_true, decide_eq_true_eq] at hq
          exact destClose1_breaks hq r Y h
        · split
          · exact ih Y h
          · rfl

theorem altClose_breaks {lax : Bool} : ∀ (M Y : Str), breaks M = true → altClose lax (M ++ Y) = false := by
  intro M
  induction M with
  | nil => intro Y h; simp [breaks] at h
  | cons c r ih =>
    intro Y h
    rw [List.cons_append, altClose_cons]
    simp only [breaks] at h
    split at h
    · rename_i hb
      obtain ⟨-, h2, -, h4, -, -, -, -, -⟩ := breaker_props hb
      rw [if_neg h4, h2]
      rfl
    · split at h
      · cases h
      · rename_i hc
        simp only [Bool.or_eq_true, decide_eq_true_eq, not_or] at hc
        rw [if_neg hc.2]
        split
        · exact ih Y h
        · rfl

/-- a region that is accepted in `a ++ M ++ Y` with `M` breaking is closed inside `a` -/
theorem destClose2_closed {lax : Bool} {M : Str} (hM : breaks M = true) (Y : Str) :
    ∀ (a : Str), destClose2 lax (a ++ (M ++ Y)) = true → destClose2 false a = true := by
  intro a
  induction a with
  | nil => intro h; rw [List.nil_append, destClose2_breaks M Y hM] at h; cases h
  | cons c r ih =>
    intro h
    rw [List.cons_append, destClose2_cons] at h
    rw [destClose2_cons]
    split at h
    · rename_i hc; rw [if_pos hc]
    · rename_i hc
      rw [if_neg hc]
      split at h
      · rename_i hs; rw [if_pos hs]; exact ih h
      · cases h

theorem destClose1_closed {lax : Bool} {q : Char} (hq : q = '"' ∨ q = '\'') {M : Str} (hM : breaks M = true)
    (Y : Str) : ∀ (a : Str), destClose1 lax q (a ++ (M ++ Y)) = true → destClose1 false q a = true := by
  intro a
  induction a with
  | nil => intro h; rw [List.nil_append, destClose1_breaks hq M Y hM] at h; cases h
  | cons c r ih =>
    intro h
    rw [List.cons_append, destClose1_cons] at h
    rw [destClose1_cons]
    split at h
    · rename_i hc; rw [if_pos hc]; exact destClose2_closed hM Y r h
    · rename_i hc
      rw [if_neg hc]
      split at h
      · rename_i hs; rw [if_pos hs]; exact ih h
      · cases h

theorem destClose_closed {lax : Bool} {M : Str} (hM : breaks M = true) (Y : Str) :
    ∀ (a : Str), destClose lax (a ++ (M ++ Y)) = true → destClose false a = true := by
  intro a
  induction a with
  | nil => intro h; rw [List.nil_append, destClose_breaks M Y hM] at h; cases h
  | cons c r ih =>
    intro h
    rw [List.cons_append, destClose_cons] at h
    rw [destClose_cons]
    split at h
    · rename_i hc; rw [if_pos hc]
    · rename_i hc
      rw [if_neg hc]
      split at h
      · rename_i hq
        rw [if_pos hq]
        simp only [Bool.or_eq_true, decide_eq_true_eq] at hq
        exact destClose1_closed hq hM Y r h
      · rename_i hq
        rw [if_neg hq]
        split at h
        · rename_i hs; rw [if_pos hs]; exact ih h
        · cases h

theorem altClose_closed {lax : Bool} {M : Str} (hM : breaks M = true) (Y : Str) :
    ∀ (a : Str), altClose lax (a ++ (M ++ Y)) = true → altClose false a = true := by
  intro a
  induction a with
  | nil => intro h; rw [List.nil_append, altClose_breaks M Y hM] at h; cases h
  | cons c r ih =>
    intro h
    rw [List.cons_append, altClose_cons] at h
    rw [altClose_cons]
    split at h
    · rename_i hc; rw [if_pos hc]
    · rename_i hc
      rw [if_neg hc]
      split at h
      · rename_i hs; rw [if_pos hs]; exact ih h
      · cases h

/-! ### `regionsOK`: suffixes, prefixes, monotony -/

theorem regionsOK_nil (lax : Bool) : regionsOK lax [] = true := rfl

theorem regionsOK_suffix {lax : Bool} : ∀ (x y : Str), regionsOK lax (x ++ y) = true → regionsOK lax y = true := by
  intro x
  induction x with
  | nil => intro y h; exact h
  | cons c r ih =>
    intro y h
    rw [List.cons_append, regionsOK_cons, Bool.and_eq_true] at h
    exact ih y h.2

theorem headOK_prefix {lax : Bool} (c : Char) (a b : Str) (h : headOK lax c (a ++ b) = true) :
    headOK true c a = true := by
  by_cases h1 : c = ']'
  · subst h1
    cases a with
    | nil => exact headOK_nil _ _
    | cons x a' =>
      by_cases hx : x = '('
      · subst hx
        rw [List.cons_append, headOK_bracket] at h
        rw [headOK_bracket]
        exact destClose_prefix a' b h
      · exact headOK_bracket_ne hx _
  · by_cases h2 : c = '!'
    · subst h2
      cases a with
      | nil => exact headOK_nil _ _
      | cons x a' =>
        by_cases hx : x = '['
        · subst hx
          rw [List.cons_append, headOK_bang] at h
          rw [headOK_bang]
          exact altClose_prefix a' b h
        · exact headOK_bang_ne hx _
    · exact headOK_of_ne h1 h2 _

theorem regionsOK_prefix {lax : Bool} : ∀ (x y : Str), regionsOK lax (x ++ y) = true → regionsOK true x = true := by
  intro x
  induction x with
  | nil => intro _ _; rfl
  | cons c r ih =>
    intro y h
    rw [List.cons_append, regionsOK_cons, Bool.and_eq_true] at h
    rw [regionsOK_cons, Bool.and_eq_true]
    exact ⟨headOK_prefix c r y h.1, ih y h.2⟩

theorem regionsOK_lax {s : Str} (h : regionsOK false s = true) : regionsOK true s = true := by
  have := regionsOK_prefix (lax := false) s [] (by simpa using h)
  exact this

theorem RegionsOK.infix {lax : Bool} {s t : Str} (h : RegionsOK lax s) (ht : t <:+: s) : RegionsOK true t := by
  obtain ⟨u, v, rfl⟩ := ht
  unfold RegionsOK at *
  rw [List.append_assoc] at h
  exact regionsOK_prefix t v (regionsOK_suffix u _ h)

/-- a string without `]` and `!` starts no region -/
theorem regionsOK_append_plain {lax : Bool} : ∀ (T Y : Str), ']' ∉ T → '!' ∉ T →
    regionsOK lax (T ++ Y) = regionsOK lax Y := by
  intro T
  induction T with
  | nil => intro _ _ _; rfl
  | cons c r ih =>
    intro Y h1 h2
    rw [List.cons_append, regionsOK_cons, headOK_of_ne (fun e => h1 (by simp [e])) (fun e => h2 (by simp [e])),
      Bool.true_and]
    exact ih Y (fun hm => h1 (List.mem_cons_of_mem _ hm)) (fun hm => h2 (List.mem_cons_of_mem _ hm))

theorem regionsOK_of_plain {lax : Bool} {T : Str} (h1 : ']' ∉ T) (h2 : '!' ∉ T) : regionsOK lax T = true := by
  have := regionsOK_append_plain (lax := lax) T [] h1 h2
  rw [List.append_nil] at this
  exact this.trans rfl

/-! ### replacing a match by a placeholder-like string -/

theorem headOK_replace {c : Char} {X M Y T : Str} (hM : breaks M = true) (hne : T ≠ []) (hp : '(' ∉ T) (hb : '[' ∉ T)
    (h : headOK true c (X ++ (M ++ Y)) = true) : headOK true c (X ++ (T ++ Y)) = true := by
  by_cases h1 : c = ']'
  · subst h1
    cases X with
    | nil =>
      cases T with
      | nil => exact absurd rfl hne
      | cons t T' =>
        rw [List.nil_append, List.cons_append]
        exact headOK_bracket_ne (fun e => hp (by simp [e])) _
    | cons x X' =>
      by_cases hx : x = '('
      · subst hx
        rw [List.cons_append, headOK_bracket] at h
        rw [List.cons_append, headOK_bracket]
        exact destClose_ext X' _ (destClose_closed hM Y X' h)
      · rw [List.cons_append]; exact headOK_bracket_ne hx _
  · by_cases h2 : c = '!'
    · subst h2
      cases X with
      | nil =>
        cases T with
        | nil => exact absurd rfl hne
        | cons t T' =>
          rw [List.nil_append, List.cons_append]
          exact headOK_bang_ne (fun e => hb (by simp [e])) _
      | cons x X' =>
        by_cases hx : x = '['
        · subst hx
          rw [List.cons_append, headOK_bang] at h
          rw [List.cons_append, headOK_bang]
          exact altClose_ext X' _ (altClose_closed hM Y X' h)
        · rw [List.cons_append]; exact headOK_bang_ne hx _
    · exact headOK_of_ne h1 h2 _

/-- **replace**: in a string whose regions are simple, a stretch `M` that contains a breaker before any `)`/`]`
    (every match of an inline pattern does) lies in no region; any non-empty string without `!`, `[`, `]`, `(` may
    stand in its place -/
theorem regionsOK_replace {X M Y T : Str} (h : regionsOK true (X ++ M ++ Y) = true) (hM : breaks M = true)
    (hne : T ≠ []) (h1 : '!' ∉ T) (h2 : '[' ∉ T) (h3 : ']' ∉ T) (h4 : '(' ∉ T) :
    regionsOK true (X ++ T ++ Y) = true := by
  rw [List.append_assoc] at h ⊢
  induction X with
  | nil =>
    rw [List.nil_append] at h ⊢
    rw [regionsOK_append_plain T Y h3 h1]
    exact regionsOK_suffix M Y h
  | cons c r ih =>
    rw [List.cons_append, regionsOK_cons, Bool.and_eq_true] at h
    rw [List.cons_append, regionsOK_cons, Bool.and_eq_true]
    exact ⟨headOK_replace hM hne h4 h2 h.1, ih h.2⟩

/-! ### the strict form: cutting off an end, newline-joins -/

theorem cutOK_cons (c : Char) (r : Str) :
    cutOK (c :: r) = if c = '\n' then true else if c = ')' || c = ']' then false else cutOK r := rfl

theorem destClose2_cut : ∀ (v : Str), cutOK v = true → destClose2 false v = false := by
  intro v
  induction v with
  | nil => intro _; rfl
  | cons c r ih =>
    intro h
    rw [cutOK_cons] at h
    rw [destClose2_cons]
    split at h
    · rename_i hc; subst hc; rfl
    · split at h
      · cases h
      · rename_i hc
        simp only [Bool.or_eq_true, decide_eq_true_eq, not_or] at hc
        rw [if_neg hc.1]
        split
        · exact ih h
        · rfl

theorem destClose1_cut (q : Char) (hq : q = '"' ∨ q = '\'') : ∀ (v : Str), cutOK v = true →
    destClose1 false q v = false := by
  intro v
  induction v with
  | nil => intro _; rfl
  | cons c r ih =>
    intro h
    rw [cutOK_cons] at h
    rw [destClose1_cons]
    split at h
    · rename_i hc; subst hc
      have : ('\n' : Char) ≠ q := by rcases hq with rfl | rfl <;> decide
      rw [if_neg this]; rfl
    · split at h
      · cases h
      · split
        · exact destClose2_cut r h
        · split
          · exact ih h
          · rfl

theorem destClose_cut : ∀ (v : Str), cutOK v = true → destClose false v = false := by
  intro v
  induction v with
  | nil => intro _; rfl
  | cons c r ih =>
    intro h
    rw [cutOK_cons] at h
    rw [destClose_cons]
    split at h
    · rename_i hc; subst hc; rfl
    · split at h
      · cases h
      · rename_i hc
        simp only [Bool.or_eq_true, decide_eq_true_eq, not_or] at hc
        rw [if_neg hc.1]
        split
        · rename_i hq
          simp only [Bool.or_eq_true, decide_eq_true_eq] at hq
          exact destClose1_cut c hq r h
        · split
          · exact ih h
          · rfl

theorem altClose_cut : ∀ (v : Str), cutOK v = true → altClose false v = false := by
  intro v
  induction v with
  | nil => intro _; rfl
  | cons c r ih =>
    intro h
    rw [cutOK_cons] at h
    rw [altClose_cons]
    split at h
    · rename_i hc; subst hc; rfl
    · split at h
      · cases h
      · rename_i hc
        simp only [Bool.or_eq_true, decide_eq_true_eq, not_or] at hc
        rw [if_neg hc.2]
        split
        · exact ih h
        · rfl

theorem destClose2_cutoff {v : Str} (hv : cutOK v = true) : ∀ (a : Str), destClose2 false (a ++ v) = true →
    destClose2 false a = true := by
  intro a
  induction a with
  | nil => intro h; rw [List.nil_append, destClose2_cut v hv] at h; cases h
  | cons c r ih =>
    intro h
    rw [List.cons_append, destClose2_cons] at h
    rw [destClose2_cons]
    split at h
    · rename_i hc; rw [if_pos hc]
    · rename_i hc
      rw [if_neg hc]
      split at h
      · rename_i hs; rw [if_pos hs]; exact ih h
      · cases h

theorem destClose1_cutoff {q : Char} (hq : q = '"' ∨ q = '\'') {v : Str} (hv : cutOK v = true) :
    ∀ (a : Str), destClose1 false q (a ++ v) = true → destClose1 false q a = true := by
  intro a
  induction a with
  | nil => intro h; rw [List.nil_append, destClose1_cut q hq v hv] at h; cases h
  | cons c r ih =>
    intro h
    rw [List.cons_append, destClose1_cons] at h
    rw [destClose1_cons]
    split at h
    · rename_i hc; rw [if_pos hc]; exact destClose2_cutoff hv r h
    · rename_i hc
      rw [if_neg hc]
      split at h
      · rename_i hs; rw [if_pos hs]; exact ih h
      · cases h

theorem destClose_cutoff {v : Str} (hv : cutOK v = true) : ∀ (a : Str), destClose false (a ++ v) = true →
    destClose false a = true := by
  intro a
  induction a with
  | nil => intro h; rw [List.nil_append, destClose_cut v hv] at h; cases h
  | cons c r ih =>
    intro h
    rw [List.cons_append, destClose_cons] at h
    rw [destClose_cons]
    split at h
    · rename_i hc; rw [if_pos hc]
    · rename_i hc
      rw [if_neg hc]
      split at h
      · rename_i hq
        rw [if_pos hq]
        simp only [Bool.or_eq_true, decide_eq_true_eq] at hq
        exact destClose1_cutoff hq hv r h
      · rename_i hq
        rw [if_neg hq]
        split at h
        · rename_i hs; rw [if_pos hs]; exact ih h
        · cases h

theorem altClose_cutoff {v : Str} (hv : cutOK v = true) : ∀ (a : Str), altClose false (a ++ v) = true →
    altClose false a = true := by
  intro a
  induction a with
  | nil => intro h; rw [List.nil_append, altClose_cut v hv] at h; cases h
  | cons c r ih =>
    intro h
    rw [List.cons_append, altClose_cons] at h
    rw [altClose_cons]
    split at h
    · rename_i hc; rw [if_pos hc]
    · rename_i hc
      rw [if_neg hc]
      split at h
      · rename_i hs; rw [if_pos hs]; exact ih h
      · cases h

theorem headOK_cutoff {c : Char} {a v : Str} (hv : cutOK v = true) (h : headOK false c (a ++ v) = true) :
    headOK false c a = true := by
  by_cases h1 : c = ']'
  · subst h1
    cases a with
    | nil => exact headOK_nil _ _
    | cons x a' =>
      by_cases hx : x = '('
      · subst hx
        rw [List.cons_append, headOK_bracket] at h
        rw [headOK_bracket]
        exact destClose_cutoff hv a' h
      · exact headOK_bracket_ne hx _
  · by_cases h2 : c = '!'
    · subst h2
      cases a with
      | nil => exact headOK_nil _ _
      | cons x a' =>
        by_cases hx : x = '['
        · subst hx
          rw [List.cons_append, headOK_bang] at h
          rw [headOK_bang]
          exact altClose_cutoff hv a' h
        · exact headOK_bang_ne hx _
    · exact headOK_of_ne h1 h2 _

theorem regionsOK_cutoff {v : Str} (hv : cutOK v = true) : ∀ (t : Str), regionsOK false (t ++ v) = true →
    regionsOK false t = true := by
  intro t
  induction t with
  | nil => intro _; rfl
  | cons c r ih =>
    intro h
    rw [List.cons_append, regionsOK_cons, Bool.and_eq_true] at h
    rw [regionsOK_cons, Bool.and_eq_true]
    exact ⟨headOK_cutoff hv h.1, ih h.2⟩

/-- **cut** (strict form): dropping a prefix and cutting off an end that has no `)`/`]` before its first line feed -/
theorem regionsOK_cut {u t v : Str} (h : RegionsOK false (u ++ t ++ v)) (hv : cutOK v = true) : RegionsOK false t := by
  unfold RegionsOK at *
  rw [List.append_assoc] at h
  exact regionsOK_cutoff hv t (regionsOK_suffix u _ h)

theorem headOK_joinNl {c : Char} {a b : Str} (h : headOK false c a = true) : headOK false c (a ++ '\n' :: b) = true := by
  by_cases h1 : c = ']'
  · subst h1
    cases a with
    | nil => exact headOK_bracket_ne (by decide) _
    | cons x a' =>
      by_cases hx : x = '('
      · subst hx
        rw [headOK_bracket] at h
        rw [List.cons_append, headOK_bracket]
        exact destClose_ext a' _ h
      · rw [List.cons_append]; exact headOK_bracket_ne hx _
  · by_cases h2 : c = '!'
    · subst h2
      cases a with
      | nil => exact headOK_bang_ne (by decide) _
      | cons x a' =>
        by_cases hx : x = '['
        · subst hx
          rw [headOK_bang] at h
          rw [List.cons_append, headOK_bang]
          exact altClose_ext a' _ h
        · rw [List.cons_append]; exact headOK_bang_ne hx _
    · exact headOK_of_ne h1 h2 _

/-- **newline-join** (strict form) -/
theorem regionsOK_joinNl {a b : Str} (ha : RegionsOK false a) (hb : RegionsOK false b) :
    RegionsOK false (a ++ '\n' :: b) := by
  unfold RegionsOK at *
  induction a with
  | nil =>
    rw [List.nil_append, regionsOK_cons, headOK_of_ne (by decide) (by decide), Bool.true_and]
    exact hb
  | cons c r ih =>
    rw [regionsOK_cons, Bool.and_eq_true] at ha
    rw [List.cons_append, regionsOK_cons, Bool.and_eq_true]
    exact ⟨headOK_joinNl ha.1, ih ha.2⟩

/-- what follows an `](` -/
theorem regionsOK_at_link {lax : Bool} {X rest : Str} (h : RegionsOK lax (X ++ ']' :: '(' :: rest)) :
    destClose lax rest = true := by
  have := regionsOK_suffix X _ h
  rw [regionsOK_cons, Bool.and_eq_true, headOK_bracket] at this
  exact this.1

/-- what follows an `![` -/
theorem regionsOK_at_image {lax : Bool} {X rest : Str} (h : RegionsOK lax (X ++ '!' :: '[' :: rest)) :
    altClose lax rest = true := by
  have := regionsOK_suffix X _ h
  rw [regionsOK_cons, Bool.and_eq_true, headOK_bang] at this
  exact this.1

/-! ### `AdjC` -/

theorem adjC_nil (lax : Bool) : AdjC lax [] := ⟨noPair_nil _ _, rfl⟩

theorem AdjC.lax {s : Str} (h : AdjC false s) : AdjC true s := ⟨h.1, regionsOK_lax h.2⟩

theorem AdjC.infix {lax : Bool} {s t : Str} (h : AdjC lax s) (ht : t <:+: s) : AdjC true t :=
  ⟨NoPair.infix (a := '\\') (b := '`') h.1 ht, h.2.infix ht⟩

/-- without `](` and `![` there is no region at all -/
theorem adjC_of_adj3 {s : Str} (h : Adj3 s) (lax : Bool) : AdjC lax s := by
  refine ⟨h.1, ?_⟩
  obtain ⟨-, h2, h3⟩ := h
  rw [noPair_iff] at h2 h3
  unfold RegionsOK
  induction s with
  | nil => rfl
  | cons c r ih =>
    rw [regionsOK_cons, Bool.and_eq_true]
    refine ⟨?_, ih (fun x y e => h2 (c :: x) y (by rw [e]; rfl)) (fun x y e => h3 (c :: x) y (by rw [e]; rfl))⟩
    by_cases h1 : c = ']'
    · subst h1
      cases r with
      | nil => exact headOK_nil _ _
      | cons x r' =>
        refine headOK_bracket_ne ?_ _
        rintro rfl
        exact h3 [] r' rfl
    · by_cases h1' : c = '!'
      · subst h1'
        cases r with
        | nil => exact headOK_nil _ _
        | cons x r' =>
          refine headOK_bang_ne ?_ _
          rintro rfl
          exact h2 [] r' rfl
      · exact headOK_of_ne h1 h1' _

/-- without brackets there is no region -/
theorem adjC_of_no_bracket {s : Str} (h : NoAdj s) (h1 : '[' ∉ s) (h2 : ']' ∉ s) : AdjC true s :=
  adjC_of_adj3 (adj3_of_no_bracket h h1 h2) true

/-- **replace** for `AdjC` -/
theorem adjC_replace {X M Y T : Str} (h : AdjC true (X ++ M ++ Y)) (hM : breaks M = true) (hT : SepOK3 T) :
    AdjC true (X ++ T ++ Y) := by
  obtain ⟨p1, -, -⟩ := sepOK3_noPair hT
  exact ⟨noPair_replace (a := '\\') (b := '`') h.1 p1 (not_head_of_not_mem hT.1.2.1) (not_last_of_not_mem hT.1.2.2) hT.1.1,
    regionsOK_replace h.2 hM hT.1.1 hT.2.1 hT.2.2.1 hT.2.2.2.1 hT.2.2.2.2⟩


/-! ### the strings that stand for matches -/

theorem breaks_placeholder (i : Nat) : breaks (placeholder i) = true := by
  unfold placeholder phPrefix
  rw [List.cons_append, List.cons_append]
  exact breaks_of_head (by decide) _

theorem breaks_escToken (v : Nat) : breaks (escToken v) = true := by
  unfold escToken
  exact breaks_of_head (by decide) _

end MdVerif.NoCtl
