/-
Helper lemmas for C06 (composition of the block half, the inline half and the serializer into the statement on
`Pipeline.convert`).  The parts are under `Lemmas/C06Compose/`:

* `Trees`  — the visible text of an output string (`visibleText`, `visibleLetters`, through the strict reader); what
  `UnescapeTreeprocessor` leaves in the texts (`outOk`: no `&`, every `STX` followed by a digit; `outTree`);
* `Serial` — `prettify` sets no attribute; the serialisation of such a tree does not contain `STX amp ETX`;
* `Reads`  — what the strict reader returns for the output has the text content of the tree (`visibleLetters_inner`);
* `Front`  — normalisation keeps letters and domain, the raw-HTML preprocessor is the identity, the block tree is
  `treeClean` (character provenance), `Letters.docLetters` and `Flat.docLetters` agree on it.

This file: the two composed statements, `tree_letters` and `convert_letters`.  Core Lean only.
-/
import MdVerif.Lemmas.C06Compose.Front

namespace MdVerif.C06
open Py Flat

/-- what C06 assumes of "is a letter": the assumptions of the block half (`Letters.LetterClass`: not white space, not
    a decimal digit, none of `# = - _ * + . > &`), those of the inline half (`Flat.LetterClass`: not `STX`, `ETX`,
    `` ` ``, `\`), and the escapable characters of the configuration are not letters -/
structure Letter (L : Char → Bool) (esc : List Char) : Prop where
  block : Letters.LetterClass L
  inline : Flat.LetterClass L
  esc : ∀ c ∈ esc, L c = false ∧ c ≠ Inline.STX ∧ c ≠ '&'

variable {L : Char → Bool}

/-- **the tree handed to the serializer has the letters of the source**, the raw-HTML stash is empty, and the tree is
    fit for the serializer -/
theorem tree_letters {cfg : Pipeline.Cfg} (hL : Letter L cfg.esc) {src : Str} (hd : C06DomainWide src = true)
    (hq : blockTreeClean cfg src = true)
    {u : Node} {html : List Str} (ht : Pipeline.tree cfg src = some (some (u, html))) :
    docLetters L u = letters L src ∧ html = [] ∧ outTree u = true ∧ Vocab2.DocOk u = true := by
  have hdoc := Vocab2.tree_docOk cfg src u html ht
  unfold Pipeline.tree at ht
  unfold blockTreeClean at hq
  split at ht
  · cases ht
  · rename_i root refs hparse
    rw [hparse] at hq
    have htc : treeClean root = true := hq
    rw [prepare_eq cfg hd] at hparse
    split at ht
    · cases ht
    · rename_i t st hrun
      split at ht
      · cases ht
      · rename_i u' hun
        simp only [Option.some.injEq, Prod.mk.injEq] at ht
        obtain ⟨e1, e2⟩ := ht
        subst e1
        have hb := Letters.C06_parseDocument_conserves hL.block (normalize_plain cfg.tab hd) hparse
        have hE : EscNotLetter L { esc := cfg.esc, refs := refs.reverse } := hL.esc
        obtain ⟨_, _, r3, r4, r5, r6⟩ := run_spec hL.inline hE htc hrun
        have hrun_letters : docLetters L t = docLetters L root := by
          rw [← r3]
          simp only [lettersN, docLetters]
          rw [nodeFlat_of_ok0 _ r4]
        obtain ⟨p1, p2⟩ := prettify_spec hL.inline cfg.blockLevel t
        have hp0 := p1 r4
        have hun_letters := C06_treeproc_conserve hL.inline cfg.blockLevel r4 hun
        have hbare := prettify_bare cfg.blockLevel t (bare_of_atomOk t r5)
        refine ⟨?_, ?_, outTree_unescape _ _ hp0 hbare hun, hdoc⟩
        · rw [hun_letters, hrun_letters, ← docLetters_bridge root htc, hb]
          exact letters_normalize hL.inline cfg.tab src
        · rw [← e2]; exact r6

theorem not_lt_of_domain {src : Str} (hd : C06DomainWide src = true) : '<' ∉ src := by
  intro hm
  simp only [C06DomainWide, List.all_eq_true] at hd
  have := hd _ hm; revert this; decide

/-- **the output of `convert` is well-formed and its text content has the letters of the source** -/
theorem convert_letters {cfg : Pipeline.Cfg} (hL : Letter L cfg.esc) {src out : Str}
    (hd : C06DomainWide src = true) (hq : blockTreeClean cfg src = true)
    (hc : Pipeline.convert cfg src = .ok out) :
    (Ser.readForest cfg.fmt out).isSome = true ∧ visibleLetters L cfg.fmt out = letters L src := by
  have hlt := not_lt_of_domain hd
  by_cases hb : Normalize.isBlankDoc src = true
  · have : Pipeline.convert cfg src = .ok [] := by
      unfold Pipeline.convert
      simp [hlt, hb]
    rw [this] at hc
    injection hc with e; subst e
    refine ⟨by rw [Vocab2.readForest_nil]; rfl, ?_⟩
    rw [Normalize.isBlankDoc_eq_all] at hb
    have : letters L src = [] := letters_of_all_space hL.inline hb
    rw [this]
    simp [visibleLetters, visibleText, Vocab2.readForest_nil, forestText, letters]
  · have hnb : Normalize.isBlankDoc src = false := by simpa using hb
    have hcon : src.contains '<' = false := by simpa using hlt
    cases htree : Pipeline.tree cfg src with
    | none => simp [Pipeline.convert, hlt, hnb, htree] at hc
    | some r =>
      cases r with
      | none => simp [Pipeline.convert, hlt, hnb, htree] at hc
      | some uh =>
        obtain ⟨u, html⟩ := uh
        obtain ⟨t1, t2, t3, t4⟩ := tree_letters hL hd hq htree
        subst t2
        have hconv := Vocab2.convert_plain cfg src u hcon hnb htree (inner_no_ampSub cfg.fmt t4 t3)
        rw [hconv] at hc
        injection hc with e; subst e
        obtain ⟨v1, v2⟩ := visibleLetters_inner hL.inline cfg.fmt t4 (ampFree_of_outTree u t3)
        exact ⟨v1, by rw [v2, t1]⟩

/-! ### instances -/

theorem letters_block_unicode : Letters.LetterClass isLetterU := by
  refine ⟨?_, ?_, ?_⟩
  · intro c hc
    cases hs : isSpace c with
    | false => rfl
    | true => rw [letterClass_unicode.space c hs] at hc; cases hc
  · intro c hc
    simp only [isLetterU, Bool.and_eq_true, Bool.not_eq_true'] at hc
    exact hc.1.2
  · intro c hc hm
    have : ∀ c ∈ Letters.markupChars, isLetterU c = false := by decide
    rw [this c hm] at hc; cases hc

/-- the Unicode letters (`\w` characters other than decimal digits and `_`) with the default `ESCAPED_CHARS` -/
theorem letter_unicode : Letter isLetterU Generated.escapedChars :=
  ⟨letters_block_unicode, letterClass_unicode, by decide⟩

end MdVerif.C06
