/-
String lemmas for C06 (block-parser half): every string operation of the block processors (`strip`, `lines`, `detab`,
`looseDetab`, `get_items`, the recognisers, `code_escape`, `split`) conserves the letters of its input, in order, and keeps
it `plain`.  Core Lean only.  The tree lemmas and the induction are in `Lemmas/BlockConserve.lean`.
-/
import MdVerif.Spec.Letters

namespace MdVerif.Letters
open Py MdVerif.Block

variable {L : Char → Bool}

/-! ### letters -/

@[simp] theorem letters_nil : letters L [] = [] := rfl

theorem letters_cons (c : Char) (s : Str) :
    letters L (c :: s) = if L c then c :: letters L s else letters L s := by
  simp only [letters, List.filter_cons]

@[simp] theorem letters_append (a b : Str) : letters L (a ++ b) = letters L a ++ letters L b := by
  simp only [letters, List.filter_append]

theorem letters_cons_of_not {c : Char} (h : L c = false) (s : Str) : letters L (c :: s) = letters L s := by
  simp [letters_cons, h]

theorem letters_take_drop (s : Str) (n : Nat) : letters L (s.take n) ++ letters L (s.drop n) = letters L s := by
  rw [← letters_append, List.take_append_drop]

theorem letters_eq_nil {s : Str} (h : ∀ c ∈ s, L c = false) : letters L s = [] := by
  simp only [letters, List.filter_eq_nil_iff]
  intro c hc; simp [h c hc]

theorem letters_reverse (s : Str) : letters L s.reverse = (letters L s).reverse := by
  simp only [letters, List.filter_reverse]

theorem letters_replicate {c : Char} (h : L c = false) (n : Nat) : letters L (List.replicate n c) = [] :=
  letters_eq_nil (fun d hd => by rw [List.eq_of_mem_replicate hd]; exact h)

namespace LetterClass
variable (h : LetterClass L)
include h

theorem of_space {c : Char} (hc : isSpace c = true) : L c = false := by
  cases hl : L c with
  | false => rfl
  | true => have := h.not_space c hl; simp [hc] at this

theorem of_decimal {c : Char} (hc : isDecimal c = true) : L c = false := by
  cases hl : L c with
  | false => rfl
  | true => have := h.not_decimal c hl; simp [hc] at this

theorem of_markup {c : Char} (hc : c ∈ markupChars) : L c = false := by
  cases hl : L c with
  | false => rfl
  | true => exact absurd hc (h.not_markup c hl)

theorem sp : L ' ' = false := h.of_space (by decide)
theorem nl : L '\n' = false := h.of_space (by decide)
theorem hash : L '#' = false := h.of_markup (by decide)
theorem eq : L '=' = false := h.of_markup (by decide)
theorem minus : L '-' = false := h.of_markup (by decide)
theorem under : L '_' = false := h.of_markup (by decide)
theorem star : L '*' = false := h.of_markup (by decide)
theorem plus : L '+' = false := h.of_markup (by decide)
theorem dot : L '.' = false := h.of_markup (by decide)
theorem gt : L '>' = false := h.of_markup (by decide)
theorem amp : L '&' = false := h.of_markup (by decide)

theorem letters_spaces (n : Nat) : letters L (spaces n) = [] := letters_replicate h.sp n

theorem letters_blank {s : Str} (hs : isBlank s = true) : letters L s = [] := by
  apply letters_eq_nil
  intro c hc
  simp only [isBlank, List.all_eq_true] at hs
  exact h.of_space (hs c hc)

end LetterClass

theorem stdLetter_class : LetterClass stdLetter where
  not_space c hc := by simp only [stdLetter, Bool.and_eq_true, Bool.not_eq_true'] at hc; exact hc.1.1
  not_decimal c hc := by simp only [stdLetter, Bool.and_eq_true, Bool.not_eq_true'] at hc; exact hc.1.2
  not_markup c hc := by
    simp only [stdLetter, Bool.and_eq_true, Bool.not_eq_true'] at hc
    intro hm
    have := hc.2
    simp [hm] at this

/-- a smaller class of letters is a class of letters -/
theorem LetterClass.mono {L' : Char → Bool} (h : LetterClass L) (hsub : ∀ c, L' c = true → L c = true) :
    LetterClass L' :=
  ⟨fun c hc => h.not_space c (hsub c hc), fun c hc => h.not_decimal c (hsub c hc),
    fun c hc => h.not_markup c (hsub c hc)⟩

/-- every class of letters is inside `stdLetter` -/
theorem LetterClass.le_std (h : LetterClass L) (c : Char) (hc : L c = true) : stdLetter c = true := by
  simp only [stdLetter, Bool.and_eq_true, Bool.not_eq_true']
  refine ⟨⟨h.not_space c hc, h.not_decimal c hc⟩, ?_⟩
  cases hm : markupChars.contains c with
  | false => rfl
  | true => exact absurd (by simpa using hm) (h.not_markup c hc)

/-! ### strip family -/

theorem letters_lstripP {p : Char → Bool} (hp : ∀ c, p c = true → L c = false) (s : Str) :
    letters L (lstripP p s) = letters L s := by
  induction s with
  | nil => rfl
  | cons c r ih =>
    simp only [lstripP]
    split
    · rename_i hc; rw [ih, letters_cons_of_not (hp c hc)]
    · rfl

theorem letters_rstripP {p : Char → Bool} (hp : ∀ c, p c = true → L c = false) (s : Str) :
    letters L (rstripP p s) = letters L s := by
  simp only [rstripP, letters_reverse, letters_lstripP hp, List.reverse_reverse]

section
variable (h : LetterClass L)
include h
theorem letters_lstrip (s : Str) : letters L (lstrip s) = letters L s := letters_lstripP (fun _ hc => h.of_space hc) s
theorem letters_rstrip (s : Str) : letters L (rstrip s) = letters L s := letters_rstripP (fun _ hc => h.of_space hc) s
theorem letters_strip (s : Str) : letters L (strip s) = letters L s := by
  simp only [strip, stripP]
  rw [letters_rstripP (fun _ hc => h.of_space hc), letters_lstripP (fun _ hc => h.of_space hc)]
theorem letters_lstripNl (s : Str) : letters L (lstripC '\n' s) = letters L s :=
  letters_lstripP (fun c hc => by simp at hc; rw [hc]; exact h.nl) s
theorem letters_rstripNl (s : Str) : letters L (rstripC '\n' s) = letters L s :=
  letters_rstripP (fun c hc => by simp at hc; rw [hc]; exact h.nl) s
end

/-! ### queues, lines -/

@[simp] theorem queueLetters_nil : queueLetters L [] = [] := rfl
@[simp] theorem queueLetters_cons (b : Str) (r : List Str) :
    queueLetters L (b :: r) = letters L b ++ queueLetters L r := rfl

theorem queueLetters_append (a b : List Str) : queueLetters L (a ++ b) = queueLetters L a ++ queueLetters L b := by
  induction a with
  | nil => rfl
  | cons x r ih => simp [ih]

theorem splitC_ne_nil (ch : Char) (s : Str) : splitC ch s ≠ [] := by
  cases s with
  | nil => simp [splitC]
  | cons c r =>
    simp only [splitC]
    split
    · simp
    · split <;> simp

theorem lines_cons (c : Char) (s : Str) :
    ∃ p ps, lines s = p :: ps ∧ lines (c :: s) = if c = '\n' then [] :: p :: ps else (c :: p) :: ps := by
  cases hs : lines s with
  | nil => exact absurd hs (splitC_ne_nil _ _)
  | cons p ps =>
    refine ⟨p, ps, rfl, ?_⟩
    simp only [lines] at hs
    simp only [lines, splitC, hs]

theorem queueLetters_lines (h : LetterClass L) (s : Str) : queueLetters L (lines s) = letters L s := by
  induction s with
  | nil => rfl
  | cons c r ih =>
    obtain ⟨p, ps, h1, h2⟩ := lines_cons c r
    rw [h2]; rw [h1] at ih
    by_cases hc : c = '\n'
    · subst hc
      simp only [if_true, queueLetters_cons, letters_nil, List.nil_append] at ih ⊢
      rw [letters_cons_of_not h.nl, ih]
    · simp only [hc, if_false, queueLetters_cons] at ih ⊢
      simp only [letters_cons, ← ih]
      split <;> simp

theorem letters_joinLines (h : LetterClass L) (l : List Str) : letters L (joinLines l) = queueLetters L l := by
  induction l with
  | nil => rfl
  | cons a r ih =>
    cases r with
    | nil => simp [joinLines, join]
    | cons b r' =>
      simp only [joinLines, join] at ih ⊢
      simp only [letters_append, queueLetters_cons, ih, letters_cons_of_not h.nl, letters_nil, List.nil_append,
        List.append_assoc]

theorem mem_lines_no_nl {s l : Str} (hl : l ∈ lines s) : '\n' ∉ l := by
  induction s generalizing l with
  | nil => simp [lines, splitC] at hl; subst hl; simp
  | cons c r ih =>
    obtain ⟨p, ps, h1, h2⟩ := lines_cons c r
    rw [h2] at hl
    rw [h1] at ih
    by_cases hc : c = '\n'
    · simp only [hc, if_true, List.mem_cons] at hl
      rcases hl with hl | hl | hl
      · subst hl; simp
      · exact ih (by simp [hl])
      · exact ih (by simp [hl])
    · simp only [hc, if_false, List.mem_cons] at hl
      rcases hl with hl | hl
      · subst hl
        have := ih (l := p) (by simp)
        simp only [List.mem_cons, not_or]
        exact ⟨fun e => hc e.symm, this⟩
      · exact ih (by simp [hl])


theorem lines_cons_nl (s : Str) : lines ('\n' :: s) = [] :: lines s := by
  obtain ⟨p, ps, h1, h2⟩ := lines_cons '\n' s
  rw [h2, h1]; simp

theorem lines_cons_ne {c : Char} (hc : c ≠ '\n') (s : Str) :
    lines (c :: s) = (c :: (lines s).headD []) :: (lines s).tail := by
  obtain ⟨p, ps, h1, h2⟩ := lines_cons c s
  rw [h2, h1]; simp [hc]

theorem lines_of_no_nl {a : Str} (h : '\n' ∉ a) : lines a = [a] := by
  induction a with
  | nil => rfl
  | cons c r ih =>
    simp only [List.mem_cons, not_or] at h
    rw [lines_cons_ne (fun e => h.1 e.symm), ih h.2]; rfl

theorem lines_append_nl {a : Str} (h : '\n' ∉ a) (r : Str) : lines (a ++ '\n' :: r) = a :: lines r := by
  induction a with
  | nil => exact lines_cons_nl r
  | cons c a ih =>
    simp only [List.mem_cons, not_or] at h
    rw [List.cons_append, lines_cons_ne (fun e => h.1 e.symm), ih h.2]; rfl

/-- a string is a line, or a line, a newline and a string -/
theorem nl_split (s : Str) : '\n' ∉ s ∨ ∃ a r, '\n' ∉ a ∧ s = a ++ '\n' :: r := by
  induction s with
  | nil => left; simp
  | cons c s ih =>
    by_cases hc : c = '\n'
    · right; exact ⟨[], s, by simp, by simp [hc]⟩
    · rcases ih with ih | ⟨a, r, ha, hs⟩
      · left; simp only [List.mem_cons, not_or]; exact ⟨fun e => hc e.symm, ih⟩
      · right; refine ⟨c :: a, r, ?_, by simp [hs]⟩
        simp only [List.mem_cons, not_or]; exact ⟨fun e => hc e.symm, ha⟩

theorem lines_induction {P : Str → Prop} (h1 : ∀ a, '\n' ∉ a → P a)
    (h2 : ∀ a r, '\n' ∉ a → P r → P (a ++ '\n' :: r)) : ∀ s, P s := by
  have : ∀ n (s : Str), s.length ≤ n → P s := by
    intro n
    induction n with
    | zero =>
      intro s hs
      have : s = [] := List.length_eq_zero_iff.mp (by omega)
      subst this; exact h1 [] (by simp)
    | succ n ih =>
      intro s hs
      rcases nl_split s with hs' | ⟨a, r, ha, hs'⟩
      · exact h1 s hs'
      · subst hs'
        apply h2 a r ha
        apply ih
        simp at hs; omega
  exact fun s => this s.length s (Nat.le_refl _)

theorem takeWhile_notNl_of_no_nl {a : Str} (h : '\n' ∉ a) : a.takeWhile notNl = a := by
  induction a with
  | nil => rfl
  | cons c a ih =>
    simp only [List.mem_cons, not_or] at h
    have hc : notNl c = true := by simp [notNl]; exact fun e => h.1 e.symm
    simp only [List.takeWhile_cons, hc, if_true, ih h.2]

theorem firstLine_append_nl {a : Str} (h : '\n' ∉ a) (r : Str) : firstLine (a ++ '\n' :: r) = a := by
  induction a with
  | nil => simp [firstLine, notNl]
  | cons c a ih =>
    simp only [List.mem_cons, not_or] at h
    have hc : notNl c = true := by simp [notNl]; exact fun e => h.1 e.symm
    simp only [firstLine, List.cons_append, List.takeWhile_cons, hc, if_true] at ih ⊢
    rw [ih h.2]

theorem firstLine_of_no_nl {a : Str} (h : '\n' ∉ a) : firstLine a = a := takeWhile_notNl_of_no_nl h

theorem find_nl_none {a : Str} (h : '\n' ∉ a) : find ['\n'] a = none := by
  induction a with
  | nil => rfl
  | cons c a ih =>
    simp only [List.mem_cons, not_or] at h
    have : (c = '\n') = False := by simp; exact fun e => h.1 e.symm
    simp [find, startsWith, this, ih h.2]

theorem find_nl_append {a : Str} (h : '\n' ∉ a) (r : Str) : find ['\n'] (a ++ '\n' :: r) = some a.length := by
  induction a with
  | nil => simp [find, startsWith]
  | cons c a ih =>
    simp only [List.mem_cons, not_or] at h
    have : (c = '\n') = False := by simp; exact fun e => h.1 e.symm
    simp [find, startsWith, this, ih h.2]


/-! ### prefixes -/

theorem mem_take_countPrefix {ch : Char} {lim : Option Nat} {s : Str} :
    ∀ c ∈ s.take (countPrefix ch lim s), c = ch := by
  induction s generalizing lim with
  | nil => intro c hc; cases lim <;> simp [countPrefix] at hc
  | cons d r ih =>
    intro c hc
    cases lim with
    | none =>
      simp only [countPrefix] at hc
      split at hc
      · rename_i hd
        simp only [List.take_succ_cons, List.mem_cons] at hc
        rcases hc with hc | hc
        · rw [hc, hd]
        · exact ih c hc
      · simp at hc
    | some n =>
      cases n with
      | zero => simp [countPrefix] at hc
      | succ n =>
        simp only [countPrefix] at hc
        split at hc
        · rename_i hd
          simp only [List.take_succ_cons, List.mem_cons] at hc
          rcases hc with hc | hc
          · rw [hc, hd]
          · exact ih c hc
        · simp at hc

theorem mem_take_spanLen {p : Char → Bool} {s : Str} : ∀ c ∈ s.take (spanLen p s), p c = true := by
  induction s with
  | nil => intro c hc; simp [spanLen] at hc
  | cons d r ih =>
    intro c hc
    simp only [spanLen] at hc
    split at hc
    · rename_i hd
      simp only [List.take_succ_cons, List.mem_cons] at hc
      rcases hc with hc | hc
      · rw [hc, hd]
      · exact ih c hc
    · simp at hc

theorem letters_drop_of_take {s : Str} {n : Nat} (h : ∀ c ∈ s.take n, L c = false) :
    letters L (s.drop n) = letters L s := by
  rw [← letters_take_drop s n, letters_eq_nil h, List.nil_append]

theorem mem_take_of_le {s : Str} {m n : Nat} (hmn : m ≤ n) {c : Char} (hc : c ∈ s.take m) : c ∈ s.take n := by
  have : s.take m = (s.take n).take m := by rw [List.take_take]; congr 1; omega
  rw [this] at hc
  exact List.mem_of_mem_take hc

theorem letters_drop_countPrefix {ch : Char} (hch : L ch = false) (lim : Option Nat) (s : Str) :
    letters L (s.drop (countPrefix ch lim s)) = letters L s :=
  letters_drop_of_take (fun c hc => by rw [mem_take_countPrefix c hc]; exact hch)

theorem letters_drop_countSp (h : LetterClass L) (s : Str) : letters L (s.drop (countSp s)) = letters L s :=
  letters_drop_countPrefix h.sp none s

theorem mem_take_succ {s : Str} {k : Nat} {c : Char} (h : c ∈ s.take (k + 1)) :
    c ∈ s.take k ∨ (s.drop k).head? = some c := by
  rw [List.take_add_one] at h
  simp only [List.mem_append, Option.mem_toList] at h
  rcases h with h | h
  · left; exact h
  · right; rw [List.head?_drop]; simpa using h

theorem firstDownFrom_some {α : Type} {f : Nat → Option α} {lo c : Nat} {r : α}
    (h : firstDownFrom f lo c = some r) : ∃ x, lo ≤ x ∧ x < lo + c ∧ f x = some r := by
  induction c with
  | zero => simp [firstDownFrom] at h
  | succ c ih =>
    simp only [firstDownFrom] at h
    split at h
    · rename_i r' hr
      cases h
      exact ⟨lo + c, by omega, by omega, hr⟩
    · obtain ⟨x, h1, h2, h3⟩ := ih h
      exact ⟨x, h1, by omega, h3⟩

theorem firstDown_some {α : Type} {f : Nat → Option α} {lo hi : Nat} {r : α}
    (h : firstDown f lo hi = some r) : ∃ x, lo ≤ x ∧ x ≤ hi ∧ f x = some r := by
  obtain ⟨x, h1, h2, h3⟩ := firstDownFrom_some h
  exact ⟨x, h1, by omega, h3⟩

/-! ### `HashHeaderProcessor.RE` -/

theorem hashClose_take {s : Str} {k : Nat} (h : hashClose s = some k) :
    ∀ c ∈ s.take k, c = '#' ∨ c = '\n' := by
  simp only [hashClose] at h
  split at h
  · rename_i hd
    cases h
    intro c hc; left; exact mem_take_countPrefix c hc
  · rename_i c0 r0 hd
    split at h
    · rename_i hc0
      cases h
      intro c hc
      rcases mem_take_succ hc with hc | hc
      · left; exact mem_take_countPrefix c hc
      · right; rw [hd] at hc; simp at hc; rw [← hc, hc0]
    · cases h

theorem hashHeader_letters (h : LetterClass L) {f : Nat} {s hd : Str} {n : Nat}
    (hh : hashHeader f s = some (hd, n)) : letters L (s.take n) = letters L hd := by
  induction f generalizing s hd n with
  | zero => simp [hashHeader] at hh
  | succ f ih =>
    simp only [hashHeader] at hh
    split at hh
    · rename_i k hk
      cases hh
      apply letters_eq_nil
      intro c hc
      rcases hashClose_take hk c hc with e | e <;> rw [e]
      · exact h.hash
      · exact h.nl
    · split at hh
      · cases hh
      · rename_i c r
        split at hh
        · split at hh
          · rename_i d r'
            split at hh
            · cases hh
            · split at hh
              · rename_i h' n' hrec
                cases hh
                have := ih hrec
                simp only [List.take_succ_cons, letters_cons, this]
              · cases hh
          · cases hh
        · split at hh
          · rename_i h' n' hrec
            cases hh
            have := ih hrec
            simp only [List.take_succ_cons, letters_cons, this]
          · cases hh

theorem hashAt_letters (h : LetterClass L) {s hd : Str} {lv n : Nat}
    (hh : hashAt s = some (lv, hd, n)) : letters L (s.take n) = letters L hd := by
  simp only [hashAt] at hh
  obtain ⟨x, h1, h2, h3⟩ := firstDown_some hh
  split at h3
  · rename_i hd' n' hrec
    cases h3
    have := hashHeader_letters h hrec
    rw [List.take_add, letters_append, this]
    have : letters L (s.take lv) = [] := by
      apply letters_eq_nil
      intro c hc
      rw [mem_take_countPrefix c (mem_take_of_le h2 hc)]
      exact h.hash
    rw [this, List.nil_append]
  · cases h3


theorem hashSearchNl_letters (h : LetterClass L) {s hd : Str} {i st en lv : Nat}
    (hh : hashSearchNl i s = some (st, en, lv, hd)) :
    i ≤ st ∧ st ≤ en ∧
      letters L (s.take (st - i)) ++ letters L hd ++ letters L (s.drop (en - i)) = letters L s := by
  induction s generalizing i st en with
  | nil => simp [hashSearchNl] at hh
  | cons c r ih =>
    simp only [hashSearchNl] at hh
    have hrec : ∀ {st en}, hashSearchNl (i + 1) r = some (st, en, lv, hd) →
        i ≤ st ∧ st ≤ en ∧
          letters L ((c :: r).take (st - i)) ++ letters L hd ++ letters L ((c :: r).drop (en - i)) =
            letters L (c :: r) := by
      intro st en hh'
      obtain ⟨h1, h2, h3⟩ := ih hh'
      refine ⟨by omega, h2, ?_⟩
      have e1 : st - i = (st - (i + 1)) + 1 := by omega
      have e2 : en - i = (en - (i + 1)) + 1 := by omega
      rw [e1, e2, List.take_succ_cons, List.drop_succ_cons]
      simp only [letters_cons]
      split <;> simp [← h3]
    split at hh
    · rename_i hc
      split at hh
      · rename_i lv' hd' n hat
        cases hh
        refine ⟨Nat.le_refl _, by omega, ?_⟩
        have e2 : i + 1 + n - i = n + 1 := by omega
        rw [Nat.sub_self, e2, List.take_zero, List.drop_succ_cons, letters_nil, List.nil_append,
          ← hashAt_letters h hat, letters_take_drop, hc, letters_cons_of_not h.nl]
      · exact hrec hh
    · exact hrec hh

/-- the text around the match and the header have the letters of the block -/
theorem hashSearch_letters (h : LetterClass L) {s hd : Str} {st en lv : Nat}
    (hh : hashSearch s = some (st, en, lv, hd)) :
    letters L (s.take st) ++ letters L hd ++ letters L (s.drop en) = letters L s := by
  simp only [hashSearch] at hh
  split at hh
  · rename_i lv' hd' n hat
    cases hh
    rw [List.take_zero, letters_nil, List.nil_append, ← hashAt_letters h hat, letters_take_drop]
  · obtain ⟨_, _, h3⟩ := hashSearchNl_letters h hh
    simpa using h3

/-! ### `HRProcessor.RE` -/

theorem hrScan_letters {ch : Char} (hch : L ch = false) (hsp : L ' ' = false) (sp cnt : Nat) (s : Str) :
    letters L (hrScan ch sp cnt s).2 = letters L s := by
  induction s generalizing sp cnt with
  | nil => rfl
  | cons c r ih =>
    simp only [hrScan]
    split
    · rename_i hc; rw [ih, hc, letters_cons_of_not hch]
    · split
      · rename_i hc
        simp only [Bool.and_eq_true, decide_eq_true_eq] at hc
        rw [ih, hc.1, letters_cons_of_not hsp]
      · rfl

theorem hrLine_letters (h : LetterClass L) {line : Str} (hl : hrLine line = true) : letters L line = [] := by
  rw [← letters_drop_countPrefix h.sp (some 3) line]
  simp only [hrLine] at hl
  split at hl
  · cases hl
  · rename_i ch r hd
    rw [hd]
    split at hl
    · rename_i hch
      have hch' : L ch = false := by
        simp only [Bool.or_eq_true, decide_eq_true_eq] at hch
        rcases hch with (e | e) | e <;> rw [e]
        · exact h.minus
        · exact h.under
        · exact h.star
      have := hrScan_letters hch' h.sp 0 0 (ch :: r)
      rw [← this]
      simp only [Bool.and_eq_true, List.all_eq_true, decide_eq_true_eq] at hl
      apply letters_eq_nil
      intro c hc
      rw [hl.2 c hc]; exact h.sp
    · cases hl

theorem hrSearchLines_letters (h : LetterClass L) (s : Str) : ∀ {pos st en : Nat},
    hrSearchLines pos (lines s) = some (st, en) →
    pos ≤ st ∧ st ≤ en ∧ letters L (s.take (st - pos)) ++ letters L (s.drop (en - pos)) = letters L s := by
  induction s using lines_induction with
  | h1 a ha =>
    intro pos st en hh
    rw [lines_of_no_nl ha] at hh
    simp only [hrSearchLines] at hh
    split at hh
    · rename_i hl
      cases hh
      refine ⟨Nat.le_refl _, by omega, ?_⟩
      have : pos + a.length - pos = a.length := by omega
      rw [Nat.sub_self, this, List.take_zero, List.drop_length, hrLine_letters h hl]; rfl
    · cases hh
  | h2 a r ha ih =>
    intro pos st en hh
    rw [lines_append_nl ha] at hh
    simp only [hrSearchLines] at hh
    split at hh
    · rename_i hl
      cases hh
      refine ⟨Nat.le_refl _, by omega, ?_⟩
      have : pos + a.length - pos = a.length := by omega
      rw [Nat.sub_self, this, List.take_zero, List.drop_left, letters_append, hrLine_letters h hl]; rfl
    · obtain ⟨h1, h2, h3⟩ := ih hh
      refine ⟨by omega, h2, ?_⟩
      have e1 : st - pos = a.length + ((st - (pos + a.length + 1)) + 1) := by omega
      have e2 : en - pos = a.length + ((en - (pos + a.length + 1)) + 1) := by omega
      rw [e1, e2, List.take_length_add_append, ← List.drop_drop, List.drop_left, List.take_succ_cons,
        List.drop_succ_cons]
      simp only [letters_append, letters_cons_of_not h.nl, List.append_assoc, h3]

theorem hrSearch_letters (h : LetterClass L) {s : Str} {st en : Nat} (hh : hrSearch s = some (st, en)) :
    letters L (s.take st) ++ letters L (s.drop en) = letters L s := by
  obtain ⟨_, _, h3⟩ := hrSearchLines_letters h s hh
  simpa using h3


/-! ### `SetextHeaderProcessor.RE` -/

theorem lines_head (s : Str) : ∃ t, lines s = firstLine s :: t := by
  rcases nl_split s with hs | ⟨a, r, ha, hs⟩
  · exact ⟨[], by rw [lines_of_no_nl hs, firstLine_of_no_nl hs]⟩
  · subst hs; exact ⟨lines r, by rw [lines_append_nl ha, firstLine_append_nl ha]⟩

/-- a block that matches: its second line has no letters -/
theorem setext_lines (h : LetterClass L) {b : Str} (hm : setextMatch b = true) :
    ∃ l0 l1 t, lines b = l0 :: l1 :: t ∧ letters L l1 = [] := by
  simp only [setextMatch] at hm
  rcases nl_split b with hs | ⟨a, r, ha, hs⟩
  · rw [find_nl_none hs] at hm; cases hm
  · subst hs
    rw [find_nl_append ha] at hm
    simp only [Bool.and_eq_true, decide_eq_true_eq] at hm
    have e : (a ++ '\n' :: r).drop (a.length + 1) = r := by
      rw [← List.drop_drop, List.drop_left]; rfl
    rw [e] at hm
    obtain ⟨t, ht⟩ := lines_head r
    refine ⟨a, firstLine r, t, by rw [lines_append_nl ha, ht], ?_⟩
    rw [← letters_take_drop _ (spanLen (fun c => c = '=' || c = '-') (firstLine r))]
    have h1 : letters L ((firstLine r).take (spanLen (fun c => c = '=' || c = '-') (firstLine r))) = [] := by
      apply letters_eq_nil
      intro c hc
      have := mem_take_spanLen c hc
      simp only [Bool.or_eq_true, decide_eq_true_eq] at this
      rcases this with e | e <;> rw [e]
      · exact h.eq
      · exact h.minus
    have h2 : letters L ((firstLine r).drop (spanLen (fun c => c = '=' || c = '-') (firstLine r))) = [] := by
      apply letters_eq_nil
      intro c hc
      have := hm.2
      simp only [List.all_eq_true, decide_eq_true_eq] at this
      rw [this c hc]; exact h.sp
    rw [h1, h2]; rfl


/-! ### list items -/

theorem countPrefix_append_nl {ch : Char} (hch : ch ≠ '\n') (lim : Option Nat) (a rest : Str) :
    countPrefix ch lim (a ++ '\n' :: rest) = countPrefix ch lim a := by
  induction a generalizing lim with
  | nil =>
    have : ('\n' = ch) = False := by simp; exact fun e => hch e.symm
    cases lim with
    | none => simp [countPrefix, this]
    | some n => cases n <;> simp [countPrefix, this]
  | cons c a ih =>
    cases lim with
    | none => simp only [List.cons_append, countPrefix, ih]
    | some n => cases n <;> simp only [List.cons_append, countPrefix, ih]

theorem countPrefix_le (ch : Char) (lim : Option Nat) (s : Str) : countPrefix ch lim s ≤ s.length := by
  induction s generalizing lim with
  | nil => cases lim with
    | none => simp [countPrefix]
    | some n => cases n <;> simp [countPrefix]
  | cons c a ih =>
    cases lim with
    | none => simp only [countPrefix]; split <;> simp; exact ih _
    | some n =>
      cases n with
      | zero => simp [countPrefix]
      | succ n => simp only [countPrefix]; split <;> simp; exact ih _

theorem spanLen_le (p : Char → Bool) (s : Str) : spanLen p s ≤ s.length := by
  induction s with
  | nil => simp [spanLen]
  | cons c a ih => simp only [spanLen]; split <;> simp; exact ih

theorem spanLen_append_stop {p : Char → Bool} {c : Char} (hc : p c = false) (a rest : Str) :
    spanLen p (a ++ c :: rest) = spanLen p a := by
  induction a with
  | nil => simp [spanLen, hc]
  | cons d a ih => simp only [List.cons_append, spanLen, ih]

theorem olMarker_append_nl (a rest : Str) :
    olMarker (a ++ '\n' :: rest) = (olMarker a).map (fun m => (m.1, m.2 ++ '\n' :: rest)) := by
  simp only [olMarker]
  rw [spanLen_append_stop (by decide : isDecimal '\n' = false)]
  have hle := spanLen_le isDecimal a
  by_cases hlt : spanLen isDecimal a < a.length
  · rw [List.getElem?_append_left hlt]
    split
    · rw [List.take_append_of_le_length (by omega), List.drop_append_of_le_length (by omega)]; rfl
    · rfl
  · have e : spanLen isDecimal a = a.length := by omega
    have h1 : (a ++ '\n' :: rest)[spanLen isDecimal a]? = some '\n' := by
      rw [e, List.getElem?_append_right (Nat.le_refl _)]; simp
    have h2 : a[spanLen isDecimal a]? = none := by rw [e]; simp
    rw [h1, h2]; simp

theorem ulMarker_append_nl (a rest : Str) :
    ulMarker (a ++ '\n' :: rest) = (ulMarker a).map (fun m => (m.1, m.2 ++ '\n' :: rest)) := by
  cases a with
  | nil => simp [ulMarker]
  | cons c a => simp only [List.cons_append, ulMarker]; split <;> rfl

theorem listItemMatch_append_nl (tab : Nat) (ol ul : Bool) {a : Str} (ha : '\n' ∉ a) (rest : Str) :
    listItemMatch tab ol ul (a ++ '\n' :: rest) = listItemMatch tab ol ul a := by
  simp only [listItemMatch]
  rw [countPrefix_append_nl (by decide), List.drop_append_of_le_length (countPrefix_le _ _ _),
    olMarker_append_nl, ulMarker_append_nl]
  have hno : '\n' ∉ a.drop (countPrefix ' ' (some (tab - 1)) a) := fun hc => ha (List.mem_of_mem_drop hc)
  generalize a.drop (countPrefix ' ' (some (tab - 1)) a) = a1 at hno
  have key : ∀ (mk r : Str), '\n' ∉ r →
      (let sp := countSp (r ++ '\n' :: rest)
       if sp = 0 then none else some (mk, ((r ++ '\n' :: rest).drop sp).takeWhile notNl)) =
      (let sp := countSp r
       if sp = 0 then none else some (mk, (r.drop sp).takeWhile notNl)) := by
    intro mk r hr
    have e1 : countSp (r ++ '\n' :: rest) = countSp r := countPrefix_append_nl (by decide) _ _ _
    have e2 : (r ++ '\n' :: rest).drop (countSp r) = r.drop (countSp r) ++ '\n' :: rest :=
      List.drop_append_of_le_length (countPrefix_le _ _ _)
    have : '\n' ∉ r.drop (countSp r) := fun hc => hr (List.mem_of_mem_drop hc)
    have e := firstLine_append_nl this rest
    simp only [firstLine] at e
    simp only [e1, e2, e, takeWhile_notNl_of_no_nl this]
  have hol : ∀ mk r, olMarker a1 = some (mk, r) → '\n' ∉ r := by
    intro mk r hm hc
    simp only [olMarker] at hm
    split at hm
    · cases hm; exact hno (List.mem_of_mem_drop hc)
    · cases hm
  have hul : ∀ mk r, ulMarker a1 = some (mk, r) → '\n' ∉ r := by
    intro mk r hm hc
    cases a1 with
    | nil => simp [ulMarker] at hm
    | cons c a1 =>
      simp only [ulMarker] at hm
      split at hm
      · cases hm; exact hno (List.mem_cons_of_mem _ hc)
      · cases hm
  cases hO : olMarker a1 with
  | none =>
    cases hU : ulMarker a1 with
    | none => cases ol <;> cases ul <;> simp
    | some m =>
      obtain ⟨mk, r⟩ := m
      have := key mk r (hul mk r hU)
      cases ol <;> cases ul <;> simp [this]
  | some m =>
    obtain ⟨mk, r⟩ := m
    have := key mk r (hol mk r hO)
    cases hU : ulMarker a1 with
    | none => cases ol <;> cases ul <;> simp [this]
    | some m' =>
      obtain ⟨mk', r'⟩ := m'
      have := key mk' r' (hul mk' r' hU)
      cases ol <;> cases ul <;> simp [*]


theorem listItemMatch_firstLine (tab : Nat) (ol ul : Bool) (s : Str) :
    listItemMatch tab ol ul s = listItemMatch tab ol ul (firstLine s) := by
  rcases nl_split s with hs | ⟨a, r, ha, hs⟩
  · rw [firstLine_of_no_nl hs]
  · subst hs; rw [firstLine_append_nl ha, listItemMatch_append_nl tab ol ul ha]

theorem head_drop_countPrefix (ch : Char) (s : Str) : (s.drop (countPrefix ch none s)).head? ≠ some ch := by
  induction s with
  | nil => simp [countPrefix]
  | cons c r ih =>
    simp only [countPrefix]
    split
    · simpa using ih
    · rename_i hc; simp; exact hc

theorem olMarker_letters (h : LetterClass L) {s mk r : Str} (hm : olMarker s = some (mk, r)) :
    letters L r = letters L s ∧ ∃ d, s.head? = some d ∧ isDecimal d = true := by
  simp only [olMarker] at hm
  split at hm
  · rename_i hc
    simp only [Bool.and_eq_true, decide_eq_true_eq, beq_iff_eq] at hc
    cases hm
    constructor
    · apply letters_drop_of_take
      intro c hc'
      rcases mem_take_succ hc' with hc' | hc'
      · exact h.of_decimal (mem_take_spanLen c hc')
      · rw [List.head?_drop, hc.2] at hc'; cases hc'; exact h.dot
    · cases s with
      | nil => simp [spanLen] at hc
      | cons c s =>
        refine ⟨c, rfl, ?_⟩
        have := hc.1
        simp only [spanLen] at this
        split at this
        · assumption
        · omega
  · cases hm

theorem ulMarker_letters (h : LetterClass L) {s mk r : Str} (hm : ulMarker s = some (mk, r)) :
    letters L r = letters L s ∧ ∃ d, s.head? = some d ∧ (d = '*' ∨ d = '+' ∨ d = '-') := by
  cases s with
  | nil => simp [ulMarker] at hm
  | cons c s =>
    simp only [ulMarker] at hm
    split at hm
    · rename_i hc
      simp only [Bool.or_eq_true, decide_eq_true_eq] at hc
      cases hm
      refine ⟨?_, c, rfl, by rcases hc with (e | e) | e <;> simp [e]⟩
      have : L c = false := by
        rcases hc with (e | e) | e <;> rw [e]
        · exact h.star
        · exact h.plus
        · exact h.minus
      rw [letters_cons_of_not this]
    · cases hm

/-- the content of a list item line: the letters of the line, and it does not start with a space -/
theorem listItemMatch_content (h : LetterClass L) {tab : Nat} {ol ul : Bool} {s mk content : Str} (hs : '\n' ∉ s)
    (hm : listItemMatch tab ol ul s = some (mk, content)) :
    letters L content = letters L s ∧ content.head? ≠ some ' ' ∧ ∀ c ∈ content, c ∈ s := by
  simp only [listItemMatch] at hm
  have e0 := letters_drop_countPrefix (L := L) h.sp (some (tab - 1)) s
  have hno : '\n' ∉ s.drop (countPrefix ' ' (some (tab - 1)) s) := fun hc => hs (List.mem_of_mem_drop hc)
  have hsub0 : ∀ c ∈ s.drop (countPrefix ' ' (some (tab - 1)) s), c ∈ s := fun c hc => List.mem_of_mem_drop hc
  generalize s.drop (countPrefix ' ' (some (tab - 1)) s) = s1 at hm e0 hno hsub0
  have fin : ∀ mk' r, letters L r = letters L s1 → (∀ c ∈ r, c ∈ s1) →
      (let sp := countSp r
       if sp = 0 then none else some (mk', (r.drop sp).takeWhile notNl)) = some (mk, content) →
      letters L content = letters L s ∧ content.head? ≠ some ' ' ∧ ∀ c ∈ content, c ∈ s := by
    intro mk' r hr hsub hx
    simp only at hx
    split at hx
    · cases hx
    · cases hx
      have : '\n' ∉ r.drop (countSp r) := fun hc => hno (hsub _ (List.mem_of_mem_drop hc))
      rw [takeWhile_notNl_of_no_nl this]
      exact ⟨by rw [letters_drop_countSp h, hr, e0], head_drop_countPrefix ' ' r,
        fun c hc => hsub0 c (hsub c (List.mem_of_mem_drop hc))⟩
  split at hm
  · cases hm
  · rename_i marker r hmk
    split at hmk
    · rename_i m hO
      cases hmk
      cases ol with
      | false => simp at hO
      | true =>
        simp only [if_true] at hO
        have hr := (olMarker_letters h hO).1
        refine fin marker r hr ?_ hm
        intro c hc
        simp only [olMarker] at hO
        split at hO
        · cases hO; exact List.mem_of_mem_drop hc
        · cases hO
    · cases ul with
      | false => simp at hmk
      | true =>
        simp only [if_true] at hmk
        have hr := (ulMarker_letters h hmk).1
        refine fin marker r hr ?_ hm
        intro c hc
        cases s1 with
        | nil => simp [ulMarker] at hmk
        | cons c s1 =>
          simp only [ulMarker] at hmk
          split at hmk
          · cases hmk; exact List.mem_cons_of_mem _ hc
          · cases hmk

theorem listItemMatch_both {tab : Nat} {s : Str}
    (hm : (listItemMatch tab true false s).isSome = true ∨ (listItemMatch tab false true s).isSome = true) :
    (listItemMatch tab true true s).isSome = true := by
  simp only [listItemMatch] at hm ⊢
  generalize s.drop (countPrefix ' ' (some (tab - 1)) s) = s1 at hm ⊢
  cases hO : olMarker s1 with
  | none => simpa [hO] using hm
  | some m =>
    cases hU : ulMarker s1 with
    | none => simpa [hO, hU] using hm
    | some m' =>
      exfalso
      obtain ⟨mk, r⟩ := m
      obtain ⟨mk', r'⟩ := m'
      obtain ⟨_, d, hd, hdd⟩ := olMarker_letters stdLetter_class hO
      obtain ⟨_, d', hd', hdd'⟩ := ulMarker_letters stdLetter_class hU
      rw [hd] at hd'; cases hd'
      rcases hdd' with e | e | e <;> rw [e] at hdd <;> revert hdd <;> decide


/-! ### `plain` is kept by the string operations -/

theorem plain_iff {s : Str} : plain s = true ↔ ∀ c ∈ s, plainChar c = true := by
  simp only [plain, List.all_eq_true]

theorem plain_of_subset {a b : Str} (hb : plain b = true) (h : ∀ c ∈ a, c ∈ b) : plain a = true :=
  plain_iff.mpr (fun c hc => plain_iff.mp hb c (h c hc))

theorem plain_nil : plain [] = true := rfl
theorem plain_take {s : Str} (h : plain s = true) (n : Nat) : plain (s.take n) = true :=
  plain_of_subset h (fun _ hc => List.mem_of_mem_take hc)
theorem plain_drop {s : Str} (h : plain s = true) (n : Nat) : plain (s.drop n) = true :=
  plain_of_subset h (fun _ hc => List.mem_of_mem_drop hc)
theorem plain_append {a b : Str} : plain (a ++ b) = true ↔ plain a = true ∧ plain b = true := by
  simp only [plain, List.all_append, Bool.and_eq_true]
theorem plain_cons {c : Char} {s : Str} : plain (c :: s) = true ↔ plainChar c = true ∧ plain s = true := by
  simp only [plain, List.all_cons, Bool.and_eq_true]
theorem plainChar_nl : plainChar '\n' = true := by decide

theorem mem_lstripP {p : Char → Bool} {s : Str} {c : Char} (h : c ∈ lstripP p s) : c ∈ s := by
  induction s with
  | nil => simp [lstripP] at h
  | cons d r ih =>
    simp only [lstripP] at h
    split at h
    · exact List.mem_cons_of_mem _ (ih h)
    · exact h

theorem mem_rstripP {p : Char → Bool} {s : Str} {c : Char} (h : c ∈ rstripP p s) : c ∈ s := by
  simp only [rstripP, List.mem_reverse] at h
  simpa using mem_lstripP h

theorem plain_lstripP {p : Char → Bool} {s : Str} (h : plain s = true) : plain (lstripP p s) = true :=
  plain_of_subset h (fun _ hc => mem_lstripP hc)
theorem plain_rstripP {p : Char → Bool} {s : Str} (h : plain s = true) : plain (rstripP p s) = true :=
  plain_of_subset h (fun _ hc => mem_rstripP hc)

theorem plain_joinLines {ls : List Str} (h : ∀ l ∈ ls, plain l = true) : plain (joinLines ls) = true := by
  induction ls with
  | nil => rfl
  | cons a r ih =>
    cases r with
    | nil => simpa [joinLines, join] using h
    | cons b r' =>
      simp only [joinLines, join] at ih ⊢
      rw [plain_append, plain_append]
      refine ⟨⟨h a (by simp), by simp [plain, plainChar_nl]⟩, ih (fun l hl => h l (List.mem_cons_of_mem _ hl))⟩

theorem mem_of_mem_lines {s l : Str} {c : Char} (hl : l ∈ lines s) (hc : c ∈ l) : c ∈ s := by
  induction s using lines_induction generalizing l with
  | h1 a ha => rw [lines_of_no_nl ha] at hl; simp at hl; subst hl; exact hc
  | h2 a r ha ih =>
    rw [lines_append_nl ha] at hl
    simp only [List.mem_cons] at hl
    rcases hl with hl | hl
    · subst hl; simp [hc]
    · have := ih hl hc; simp [this]

theorem plain_lines {s : Str} (h : plain s = true) : ∀ l ∈ lines s, plain l = true :=
  fun _ hl => plain_of_subset h (fun _ hc => mem_of_mem_lines hl hc)

/-! ### `get_items` -/

theorem modifyLast_of_ne_nil (f : Str → Str) {items : List Str} (hne : items ≠ []) :
    ∃ init l, items = init ++ [l] ∧ modifyLast f items = init ++ [f l] := by
  have := List.dropLast_concat_getLast hne
  refine ⟨items.dropLast, items.getLast hne, this.symm, ?_⟩
  simp only [modifyLast, List.getLast?_eq_some_getLast hne]

/-- the items so far: not empty, the first does not start with a space, all `plain` -/
def ItemsOk (items : List Str) : Prop :=
  (∃ x t, items = x :: t ∧ x.head? ≠ some ' ') ∧ ∀ x ∈ items, plain x = true

theorem itemsOk_append {items : List Str} (hi : ItemsOk items) {y : Str} (hy : plain y = true) :
    ItemsOk (items ++ [y]) := by
  obtain ⟨⟨x, t, e, hx⟩, hp⟩ := hi
  refine ⟨⟨x, t ++ [y], by simp [e], hx⟩, ?_⟩
  intro z hz
  simp only [List.mem_append, List.mem_singleton] at hz
  rcases hz with hz | hz
  · exact hp z hz
  · rw [hz]; exact hy

theorem itemsOk_modifyLast {items : List Str} (hi : ItemsOk items) {line : Str} (hy : plain line = true) :
    ItemsOk (modifyLast (fun l => l ++ '\n' :: line) items) := by
  obtain ⟨⟨x, t, e, hx⟩, hp⟩ := hi
  obtain ⟨init, l, e1, e2⟩ := modifyLast_of_ne_nil (fun l => l ++ '\n' :: line) (items := items) (by simp [e])
  rw [e2]
  constructor
  · cases init with
    | nil =>
      simp only [List.nil_append] at e1 ⊢
      rw [e] at e1; cases e1
      refine ⟨_, [], rfl, ?_⟩
      cases x with
      | nil => simp
      | cons c x => simpa using hx
    | cons i init =>
      rw [e] at e1; simp only [List.cons_append] at e1; cases e1
      exact ⟨_, _, rfl, hx⟩
  · intro z hz
    simp only [List.mem_append, List.mem_singleton] at hz
    rcases hz with hz | hz
    · exact hp z (by rw [e1]; simp [hz])
    · rw [hz, plain_append, plain_cons]
      exact ⟨hp l (by rw [e1]; simp), plainChar_nl, hy⟩

theorem queueLetters_modifyLast (h : LetterClass L) {items : List Str} (hne : items ≠ []) (line : Str) :
    queueLetters L (modifyLast (fun l => l ++ '\n' :: line) items) = queueLetters L items ++ letters L line := by
  obtain ⟨init, l, e1, e2⟩ := modifyLast_of_ne_nil (fun l => l ++ '\n' :: line) hne
  rw [e2, e1]
  simp [queueLetters_append, letters_cons_of_not h.nl]

theorem getItemsStep_spec (h : LetterClass L) (tab : Nat) {items : List Str} (hi : ItemsOk items) {line : Str}
    (hl : '\n' ∉ line) (hp : plain line = true) :
    queueLetters L (getItemsStep tab items line) = queueLetters L items ++ letters L line ∧
      ItemsOk (getItemsStep tab items line) := by
  have hne : items ≠ [] := by obtain ⟨⟨x, t, e, _⟩, _⟩ := hi; simp [e]
  simp only [getItemsStep]
  split
  · rename_i mk content hm
    obtain ⟨h1, _, h3⟩ := listItemMatch_content h hl hm
    exact ⟨by simp [queueLetters_append, h1], itemsOk_append hi (plain_of_subset hp h3)⟩
  · split
    · split
      · split
        · exact ⟨queueLetters_modifyLast h hne line, itemsOk_modifyLast hi hp⟩
        · exact ⟨by simp [queueLetters_append], itemsOk_append hi hp⟩
      · exact ⟨by simp [queueLetters_append], itemsOk_append hi hp⟩
    · exact ⟨queueLetters_modifyLast h hne line, itemsOk_modifyLast hi hp⟩

theorem getItems_fold (h : LetterClass L) (tab : Nat) (ls : List Str) : ∀ {items : List Str}, ItemsOk items →
    (∀ l ∈ ls, '\n' ∉ l ∧ plain l = true) →
    queueLetters L (ls.foldl (getItemsStep tab) items) = queueLetters L items ++ queueLetters L ls ∧
      ItemsOk (ls.foldl (getItemsStep tab) items) := by
  induction ls with
  | nil => intro items hi _; exact ⟨by simp, hi⟩
  | cons l ls ih =>
    intro items hi hls
    obtain ⟨h1, h2⟩ := getItemsStep_spec h tab hi (hls l (by simp)).1 (hls l (by simp)).2
    obtain ⟨h3, h4⟩ := ih h2 (fun l' hl' => hls l' (List.mem_cons_of_mem _ hl'))
    exact ⟨by simp only [List.foldl_cons, h3, h1, queueLetters_cons, List.append_assoc], h4⟩

/-- `get_items` of a block whose first line is a list item: the letters of the block, first item not indented -/
theorem getItems_spec (h : LetterClass L) (tab : Nat) {b : Str} (hp : plain b = true)
    (hm : (listItemMatch tab true true (firstLine b)).isSome = true) :
    queueLetters L (getItems tab b) = letters L b ∧ ItemsOk (getItems tab b) := by
  obtain ⟨t, ht⟩ := lines_head b
  have hmem : ∀ l ∈ lines b, '\n' ∉ l ∧ plain l = true := fun l hl => ⟨mem_lines_no_nl hl, plain_lines hp l hl⟩
  rw [ht] at hmem
  simp only [getItems, ht, List.foldl_cons]
  cases hm' : listItemMatch tab true true (firstLine b) with
  | none => rw [hm'] at hm; cases hm
  | some m =>
    obtain ⟨mk, content⟩ := m
    obtain ⟨h1, h2, h3⟩ := listItemMatch_content h (hmem _ (by simp)).1 hm'
    have hstep : getItemsStep tab [] (firstLine b) = [content] := by simp [getItemsStep, hm']
    have hi : ItemsOk [content] :=
      ⟨⟨content, [], rfl, h2⟩, by
        intro x hx; simp at hx; rw [hx]; exact plain_of_subset (hmem _ (by simp)).2 h3⟩
    obtain ⟨h4, h5⟩ := getItems_fold h tab t hi (fun l hl => hmem l (List.mem_cons_of_mem _ hl))
    rw [hstep]
    refine ⟨?_, h5⟩
    rw [h4, ← queueLetters_lines h b, ht]
    simp [h1]


/-! ### `detab`, `looseDetab` -/

theorem startsWith_eq {s p : Str} (h : startsWith s p = true) : s = p ++ s.drop p.length := by
  induction p generalizing s with
  | nil => simp
  | cons c p ih =>
    cases s with
    | nil => simp [startsWith] at h
    | cons d s =>
      simp only [startsWith, Bool.and_eq_true, decide_eq_true_eq] at h
      simp only [List.length_cons, List.drop_succ_cons, List.cons_append]
      rw [h.1, ← ih h.2]

theorem letters_drop_spaces (h : LetterClass L) {s : Str} {n : Nat} (hs : startsWith s (spaces n) = true) :
    letters L (s.drop n) = letters L s := by
  have := startsWith_eq hs
  simp only [spaces, List.length_replicate] at this
  conv => rhs; rw [this]
  rw [letters_append, letters_replicate h.sp, List.nil_append]

theorem detabLines_spec (h : LetterClass L) (n : Nat) (ls : List Str) :
    queueLetters L (detabLines n ls).1 ++ queueLetters L (detabLines n ls).2 = queueLetters L ls ∧
      ((∀ l ∈ ls, plain l = true) →
        (∀ l ∈ (detabLines n ls).1, plain l = true) ∧ (∀ l ∈ (detabLines n ls).2, plain l = true)) := by
  induction ls with
  | nil => exact ⟨rfl, fun _ => ⟨by simp [detabLines], by simp [detabLines]⟩⟩
  | cons line r ih =>
    obtain ⟨ih1, ih2⟩ := ih
    simp only [detabLines]
    split
    · rename_i hs
      refine ⟨by simp only [queueLetters_cons, letters_drop_spaces h hs, List.append_assoc, ih1], ?_⟩
      intro hp
      obtain ⟨p1, p2⟩ := ih2 (fun l hl => hp l (List.mem_cons_of_mem _ hl))
      refine ⟨?_, p2⟩
      intro l hl
      simp only [List.mem_cons] at hl
      rcases hl with hl | hl
      · rw [hl]; exact plain_drop (hp line (by simp)) n
      · exact p1 l hl
    · split
      · rename_i hb
        refine ⟨by simp only [queueLetters_cons, h.letters_blank hb, letters_nil, List.nil_append, ih1], ?_⟩
        intro hp
        obtain ⟨p1, p2⟩ := ih2 (fun l hl => hp l (List.mem_cons_of_mem _ hl))
        refine ⟨?_, p2⟩
        intro l hl
        simp only [List.mem_cons] at hl
        rcases hl with hl | hl
        · rw [hl]; rfl
        · exact p1 l hl
      · exact ⟨by simp, fun hp => ⟨by simp, hp⟩⟩

theorem detab_spec (h : LetterClass L) (n : Nat) (text : Str) :
    letters L (detab n text).1 ++ letters L (detab n text).2 = letters L text ∧
      (plain text = true → plain (detab n text).1 = true ∧ plain (detab n text).2 = true) := by
  obtain ⟨h1, h2⟩ := detabLines_spec h n (lines text)
  simp only [detab]
  refine ⟨by rw [letters_joinLines h, letters_joinLines h, h1, queueLetters_lines h], ?_⟩
  intro hp
  obtain ⟨p1, p2⟩ := h2 (plain_lines hp)
  exact ⟨plain_joinLines p1, plain_joinLines p2⟩

theorem queueLetters_map {f : Str → Str} {ls : List Str} (hf : ∀ l ∈ ls, letters L (f l) = letters L l) :
    queueLetters L (ls.map f) = queueLetters L ls := by
  induction ls with
  | nil => rfl
  | cons a r ih =>
    simp only [List.map_cons, queueLetters_cons, hf a (by simp), ih (fun l hl => hf l (List.mem_cons_of_mem _ hl))]

theorem looseDetab_spec (h : LetterClass L) (tab : Nat) (text : Str) (level : Nat) :
    letters L (looseDetab tab text level) = letters L text ∧
      (plain text = true → plain (looseDetab tab text level) = true) := by
  simp only [looseDetab]
  constructor
  · rw [letters_joinLines h, queueLetters_map, queueLetters_lines h]
    intro l _
    split
    · rename_i hs; exact letters_drop_spaces h hs
    · rfl
  · intro hp
    apply plain_joinLines
    intro l hl
    simp only [List.mem_map] at hl
    obtain ⟨l', hl', e⟩ := hl
    rw [← e]
    split
    · exact plain_drop (plain_lines hp l' hl') _
    · exact plain_lines hp l' hl'

/-! ### `BlockQuoteProcessor.clean` -/

theorem quoteLine_spec (h : LetterClass L) {s g : Str} (hq : quoteLine s = some g) :
    (∀ c ∈ g, c ∈ s) ∧ ('\n' ∉ s → letters L g = letters L s) := by
  simp only [quoteLine] at hq
  have e0 := letters_drop_countPrefix (L := L) h.sp (some 3) s
  have hsub0 : ∀ c ∈ s.drop (countPrefix ' ' (some 3) s), c ∈ s := fun c hc => List.mem_of_mem_drop hc
  generalize s.drop (countPrefix ' ' (some 3) s) = s1 at hq e0 hsub0
  split at hq
  · rename_i c r
    split at hq
    · rename_i hc
      cases hq
      have key : ∀ x : Str, (∀ c ∈ x, c ∈ r) → letters L x = letters L r →
          (∀ c' ∈ x.takeWhile notNl, c' ∈ s) ∧ ('\n' ∉ s → letters L (x.takeWhile notNl) = letters L s) := by
        intro x hx hlx
        refine ⟨fun c' hc' => hsub0 c' (List.mem_cons_of_mem _ (hx c' ((List.takeWhile_sublist _).subset hc'))), ?_⟩
        intro hs
        have : '\n' ∉ x := fun hc' => hs (hsub0 _ (List.mem_cons_of_mem _ (hx _ hc')))
        rw [takeWhile_notNl_of_no_nl this, hlx, ← e0, hc, letters_cons_of_not h.gt]
      split
      · rename_i d r'
        split
        · rename_i hd
          exact key r' (fun c hc => List.mem_cons_of_mem _ hc) (by rw [hd, letters_cons_of_not h.sp])
        · exact key _ (fun c hc => hc) rfl
      · exact key _ (fun c hc => hc) rfl
    · cases hq
  · cases hq

theorem quoteClean_spec (h : LetterClass L) (line : Str) :
    (∀ c ∈ quoteClean line, c ∈ line) ∧ ('\n' ∉ line → letters L (quoteClean line) = letters L line) := by
  simp only [quoteClean]
  split
  · rename_i hs
    refine ⟨by simp, fun _ => ?_⟩
    rw [← letters_strip h line, hs, letters_cons_of_not h.gt]
  · split
    · rename_i g hg
      simp only [quoteMatch] at hg
      split at hg
      · rename_i g' hq
        cases hg
        exact quoteLine_spec h hq
      · split at hg
        · rename_i c r
          split at hg
          · rename_i hc
            obtain ⟨h1, _⟩ := quoteLine_spec h hg
            exact ⟨fun c' hc' => List.mem_cons_of_mem _ (h1 c' hc'), fun hn => absurd (by simp [hc]) hn⟩
          · cases hg
        · cases hg
    · exact ⟨fun _ hc => hc, fun _ => rfl⟩

/-- the cleaned quote has the letters of the quoted lines -/
theorem quoteBlock_spec (h : LetterClass L) (s : Str) :
    letters L (joinLines ((lines s).map quoteClean)) = letters L s ∧
      (plain s = true → plain (joinLines ((lines s).map quoteClean)) = true) := by
  constructor
  · rw [letters_joinLines h, queueLetters_map, queueLetters_lines h]
    intro l hl
    exact (quoteClean_spec h l).2 (mem_lines_no_nl hl)
  · intro hp
    apply plain_joinLines
    intro l hl
    simp only [List.mem_map] at hl
    obtain ⟨l', hl', e⟩ := hl
    rw [← e]
    exact plain_of_subset (plain_lines hp l' hl') (quoteClean_spec h l').1


/-! ### `code_escape` and escaped text -/

theorem replaceAux_single_none {c : Char} (by' : Str) {t : Str} (h : c ∉ t) : replaceAux [c] by' 0 t = t := by
  induction t with
  | nil => rfl
  | cons d t ih =>
    simp only [List.mem_cons, not_or] at h
    have : (d = c) = False := by simp; exact fun e => h.1 e.symm
    simp [replaceAux, startsWith, this, ih h.2]

theorem codeEscape_plain {t : Str} (hp : plain t = true) : codeEscape t = replaceAux ['>'] ['&', 'g', 't', ';'] 0 t := by
  have h1 : '&' ∉ t := fun hc => by have := plain_iff.mp hp _ hc; revert this; decide
  have h2 : '<' ∉ t := fun hc => by have := plain_iff.mp hp _ hc; revert this; decide
  simp only [codeEscape, replace, List.isEmpty_cons, Bool.false_eq_true, if_false]
  rw [replaceAux_single_none _ h1, replaceAux_single_none _ h2]
  rfl

theorem escape_gt_spec (h : LetterClass L) {t : Str} (hamp : '&' ∉ t) :
    escLetters L false (replaceAux ['>'] ['&', 'g', 't', ';'] 0 t) = letters L t ∧
      escClosed false (replaceAux ['>'] ['&', 'g', 't', ';'] 0 t) = true := by
  induction t with
  | nil => exact ⟨rfl, rfl⟩
  | cons c t ih =>
    simp only [List.mem_cons, not_or] at hamp
    obtain ⟨ih1, ih2⟩ := ih hamp.2
    by_cases hc : c = '>'
    · subst hc
      have e : replaceAux ['>'] ['&', 'g', 't', ';'] 0 ('>' :: t) = '&' :: 'g' :: 't' :: ';' :: replaceAux ['>'] ['&', 'g', 't', ';'] 0 t := by
        simp [replaceAux, startsWith]
      rw [e]
      refine ⟨?_, ?_⟩
      · simp only [escLetters]
        simp [ih1, letters_cons_of_not h.gt]
      · simp only [escClosed]
        simp [ih2]
    · have e : replaceAux ['>'] ['&', 'g', 't', ';'] 0 (c :: t) = c :: replaceAux ['>'] ['&', 'g', 't', ';'] 0 t := by
        simp [replaceAux, startsWith, hc]
      have hca : (c = '&') = False := by simp; exact fun e => hamp.1 e.symm
      rw [e]
      refine ⟨?_, ?_⟩
      · simp only [escLetters, hca, if_false, ih1, letters_cons]
      · simp only [escClosed, hca, if_false, ih2]

/-- escaped code has the letters of the code, and its entity references are closed -/
theorem codeEscape_spec (h : LetterClass L) {t : Str} (hp : plain t = true) :
    escLetters L false (codeEscape t) = letters L t ∧ escClosed false (codeEscape t) = true := by
  rw [codeEscape_plain hp]
  exact escape_gt_spec h (fun hc => by have := plain_iff.mp hp _ hc; revert this; decide)

theorem esc_append {st : Bool} {a : Str} (ha : escClosed st a = true) (b : Str) :
    escLetters L st (a ++ b) = escLetters L st a ++ escLetters L false b ∧
      escClosed st (a ++ b) = escClosed false b := by
  induction a generalizing st with
  | nil => cases st <;> simp_all [escClosed, escLetters]
  | cons c a ih =>
    cases st with
    | true =>
      simp only [escClosed] at ha
      simp only [List.cons_append, escLetters, escClosed]
      split
      · rename_i hc; rw [if_pos hc] at ha; exact ih ha
      · rename_i hc; rw [if_neg hc] at ha; exact ih ha
    | false =>
      simp only [escClosed] at ha
      simp only [List.cons_append, escLetters, escClosed]
      split
      · rename_i hc; rw [if_pos hc] at ha; exact ih ha
      · rename_i hc
        rw [if_neg hc] at ha
        obtain ⟨i1, i2⟩ := ih ha
        refine ⟨?_, i2⟩
        split <;> simp [i1]

theorem esc_noamp {t : Str} (hamp : '&' ∉ t) : escLetters L false t = letters L t ∧ escClosed false t = true := by
  induction t with
  | nil => exact ⟨rfl, rfl⟩
  | cons c t ih =>
    simp only [List.mem_cons, not_or] at hamp
    obtain ⟨ih1, ih2⟩ := ih hamp.2
    have hca : (c = '&') = False := by simp; exact fun e => hamp.1 e.symm
    exact ⟨by simp only [escLetters, hca, if_false, ih1, letters_cons], by simp only [escClosed, hca, if_false, ih2]⟩

/-! ### `text.split('\n\n')` -/

theorem splitNlNl_spec (h : LetterClass L) (s : Str) : ∀ k, (∀ c ∈ s.take k, L c = false) →
    queueLetters L (splitAux ['\n', '\n'] k s) = letters L s ∧
      ∀ p ∈ splitAux ['\n', '\n'] k s, ∀ c ∈ p, c ∈ s := by
  induction s with
  | nil => intro k _; cases k <;> simp [splitAux]
  | cons c s ih =>
    intro k hk
    cases k with
    | succ k =>
      simp only [splitAux]
      obtain ⟨i1, i2⟩ := ih k (fun c' hc' => hk c' (by simp [hc']))
      refine ⟨by rw [i1, letters_cons_of_not (hk c (by simp))], ?_⟩
      intro p hp c' hc'
      exact List.mem_cons_of_mem _ (i2 p hp c' hc')
    | zero =>
      simp only [splitAux]
      split
      · rename_i hs
        have e := startsWith_eq hs
        simp only [List.length_cons, List.length_nil, List.cons_append, List.nil_append] at e
        cases s with
        | nil => simp at e
        | cons d s =>
          simp only [List.cons.injEq] at e
          obtain ⟨i1, i2⟩ := ih 1 (fun c' hc' => by
            simp at hc'; rw [hc', e.2.1]; exact h.nl)
          refine ⟨by simp [i1, e.1, letters_cons_of_not h.nl], ?_⟩
          intro p hp c' hc'
          simp only [List.mem_cons] at hp
          rcases hp with hp | hp
          · subst hp; simp at hc'
          · exact List.mem_cons_of_mem _ (i2 p hp c' hc')
      · obtain ⟨i1, i2⟩ := ih 0 (by simp)
        split
        · rename_i he
          rw [he] at i1
          simp only [queueLetters_nil] at i1
          refine ⟨by simp [letters_cons, ← i1], ?_⟩
          intro p hp c' hc'
          simp at hp; subst hp; simp at hc'; simp [hc']
        · rename_i p ps he
          rw [he] at i1 i2
          refine ⟨by simp only [queueLetters_cons] at i1 ⊢; simp only [letters_cons, ← i1]; split <;> simp, ?_⟩
          intro q hq c' hc'
          simp only [List.mem_cons] at hq
          rcases hq with hq | hq
          · subst hq
            simp only [List.mem_cons] at hc'
            rcases hc' with hc' | hc'
            · simp [hc']
            · exact List.mem_cons_of_mem _ (i2 p (by simp) c' hc')
          · exact List.mem_cons_of_mem _ (i2 q (by simp [hq]) c' hc')

theorem splitChunk_spec (h : LetterClass L) (s : Str) :
    queueLetters L (splitS ['\n', '\n'] s) = letters L s ∧
      (plain s = true → (splitS ['\n', '\n'] s).all plain = true) := by
  obtain ⟨h1, h2⟩ := splitNlNl_spec h s 0 (by simp)
  refine ⟨h1, fun hp => ?_⟩
  simp only [List.all_eq_true]
  intro p hp'
  exact plain_of_subset hp (h2 p hp')

/-! ### no `[`: `ReferenceProcessor` does not fire -/

theorem refSearch_none_of_plain {s : Str} (hp : plain s = true) : refSearch s = none := by
  have hb : '[' ∉ s := fun hc => by have := plain_iff.mp hp _ hc; revert this; decide
  simp only [refSearch, List.findSome?_eq_none_iff]
  intro p _
  have : refMatchAt s p = none := by
    simp only [refMatchAt]
    split
    · rfl
    · rename_i hne
      exfalso
      simp only [bne_iff_ne, ne_eq, Decidable.not_not] at hne
      exact hb (List.mem_of_getElem? hne)
  rw [this]

end MdVerif.Letters
