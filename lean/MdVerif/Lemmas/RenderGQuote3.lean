/-
Helper lemmas for `Props/C16RenderG.lean`, part 23: an admonition inside a block quote — the block stage, the tree
stages, the serializer, `convertX` end to end.

Core Lean only.
-/
import MdVerif.Lemmas.RenderGQuote2

namespace MdVerif.RenderG
open Py Block BlockExt MdVerif.RenderX

def esc6 : List Char := ['#', '-', '_', '*', '+', '.']

/-- a block that reaches the quote processor (table processor off): as `dispatchXT_toQuote`, with the admonition test
    given instead of derived from the absence of `!` -/
theorem dispatchXT_toQuote' (cfg : XCfg) (tab : Nat) (htab : tab > 0) (pb : PB)
    (state : List BState) (refs : Refs) (parent : Node) (b : Str) (rest : List Str)
    (hesc : ∀ c ∈ b, c ∉ esc6) (hvis : Escape.startsVisible b = true)
    (hsecond : (match Escape.secondLine b with | some l => Escape.isEqUnderline l | none => false) = false)
    (hadm : admTest tab parent b = none)
    (hdef : defSearch b = none) (hq : quoteSearch b = some 0) :
    dispatchXT false cfg tab pb state refs parent b rest = quoteP pb state refs parent b rest 0 := by
  have hg : Escape.Guarded esc6 b = true := guardedFrom_of_no_esc _ _ hesc false
  have hl : Escape.LineStartsOk esc6 b = true := by
    simp only [Escape.LineStartsOk, Bool.and_eq_true]
    exact ⟨startOk_of_no_esc _ _ hesc, startsOkNl_of_no_esc _ _ hesc⟩
  have hs : Escape.startOk esc6 b = true := startOk_of_no_esc _ _ hesc
  have hhead : ∀ c, b.head? = some c → c ≠ ' ' := by
    intro c hc e
    subst e
    cases b with
    | nil => simp at hc
    | cons a t =>
      simp only [List.head?_cons, Option.some.injEq] at hc
      subst hc
      simp [Escape.startsVisible, isSpace] at hvis
  have hsp : startsWith b (spaces tab) = false := startsWith_spaces_false_of_head htab hhead
  cases b with
  | nil => simp [Escape.startsVisible] at hvis
  | cons c t =>
    have hc : isSpace c = false := by simpa [Escape.startsVisible] using hvis
    have hc1 : c ≠ '\n' := by intro e; subst e; exact absurd hc (by decide)
    have e1 : ((c :: t).isEmpty || startsWith (c :: t) ['\n']) = false := by simp [startsWith, hc1]
    simp only [dispatchXT, hadm, ite_self, tailEmptyT, e1, hsp, indentTestX, Bool.false_eq_true, if_false,
      Bool.false_and, Bool.and_false,
      Escape.hashSearch_eq_none (esc := esc6) (by decide) _ hl,
      Escape.setextMatch_eq_false (esc := esc6) (by decide) _ hg hsecond,
      Escape.hrSearch_eq_none (esc := esc6) (by decide) (by decide) (by decide) _ hl,
      tailList,
      Escape.listItemMatch_eq_none (esc := esc6) (by decide) (by decide) (by decide) (by decide)
        tab _ _ _ hg hs, Option.isSome_none, tailDef, hdef, ite_self, tailQuote, hq]

/-- a recogniser that fails on `>` finds nothing at the line starts of quoted lines -/
theorem nlSearchAux_gt {α : Type} (f : Str → Option α) (hf : ∀ X, f ('>' :: X) = none) :
    ∀ (ls : List Str), ls ≠ [] → (∀ l ∈ ls, '\n' ∉ l) →
    ∀ i, nlSearchAux f i (joinLines (ls.map qline0)) = none := by
  intro ls
  induction ls with
  | nil => intro h; exact absurd rfl h
  | cons l r ih =>
    intro _ hnl i
    have hl : '\n' ∉ qline0 l := by
      intro hm
      simp only [qline0, List.mem_cons] at hm
      rcases hm with h | h | h
      · exact absurd h (by decide)
      · exact absurd h (by decide)
      · exact hnl l List.mem_cons_self h
    cases r with
    | nil => exact nlSearchAux_noNl f _ i hl
    | cons l' r' =>
      have hR : f (joinLines ((l' :: r').map qline0)) = none := by
        obtain ⟨Y, hY⟩ := joinLines_head (qline0 l') (r'.map qline0)
        rw [show (l' :: r').map qline0 = qline0 l' :: r'.map qline0 from rfl, hY]
        exact hf _
      simp only [List.map_cons] at hR ⊢
      rw [Block.joinLines_cons_cons, nlSearchAux_line f _ _ hl hR]
      exact ih (by simp) (fun x hx => hnl x (List.mem_cons_of_mem _ hx)) _

theorem admAt_gt (X : Str) : admAt ('>' :: X) = none := by
  simp [admAt, startsWith]

/-! ### the first block of an admonition under any parent -/

theorem dispatch_admHeadP (cfg : XCfg) (hadm : cfg.admonition = true) (tab : Nat) (htab : tab > 0) (kl : Str)
    (title ttl : Option Str) (b : Para) (hk : PlainFacts kl)
    (ht : ∀ t, title = some t → ∀ c ∈ t, c ≠ '\n' ∧ c ≠ '"') (hb : ParaOK b)
    (hcl : admClassTitle kl title = (kl, ttl)) (pbf : Nat) (state : List BState) (hst : isstate state .list = false)
    (refs : Refs) (parent : Node) (rest : List Str) :
    dispatchXT false cfg tab (parseBlocksXT false cfg tab (pbf + 1)) state refs parent
        (admSrc tab kl title (pLines b)) rest =
      some (parent.append (admDivG kl ttl [pText b]), refs, rest) := by
  have hat := admAt_header kl title (joinLines (CodeLaw.indentLines tab (b.1 :: b.2))) hk ht
  have htest : ∀ parent, admTest tab parent (admSrc tab kl title (b.1 :: b.2)) =
      some (.re 0 ((admHeader kl title).length + 1) kl title) := by
    intro parent
    simp only [admTest, admSearch, nlSearch, admSrc_eq, hat]
    simp
  have hdrop : (admSrc tab kl title (b.1 :: b.2)).drop ((admHeader kl title).length + 1) =
      joinLines (CodeLaw.indentLines tab (b.1 :: b.2)) := by
    rw [admSrc_eq, show admHeader kl title ++ '\n' :: joinLines (CodeLaw.indentLines tab (b.1 :: b.2)) =
      (admHeader kl title ++ ['\n']) ++ joinLines (CodeLaw.indentLines tab (b.1 :: b.2)) by simp]
    exact List.drop_left' (by simp)
  have hdetab := CodeLaw.detab_indent tab (b.1 :: b.2) (by simp) (fun l hl => (hb l hl).noNl)
  rw [← admDiv_eq]
  show dispatchXT false cfg tab (parseBlocksXT false cfg tab (pbf + 1)) state refs parent
    (admSrc tab kl title (b.1 :: b.2)) rest = _
  simp only [dispatchXT, hadm, if_true, htest, admonitionP, Nat.lt_irrefl, if_false, hdrop, hdetab, hcl]
  have hp := fun (d : Node) => parseChunkXT_plain cfg tab htab pbf state hst refs d b.1 b.2 hb
  by_cases htt : Node.truthy ttl = true
  · simp only [htt, if_true, hp]
    simp [admDiv, htt, pText]
  · simp only [htt, Bool.false_eq_true, if_false, hp]
    simp [admDiv, htt, pText]

/-! ### the quoted admonition -/

/-- the lines: the header, the body lines indented -/
def qaLines (tab : Nat) (kl : Str) (title : Option Str) (b : Para) : List Str :=
  admHeader kl title :: CodeLaw.indentLines tab (pLines b)

/-- the source: every line prefixed with `> ` -/
def qaSrc (tab : Nat) (kl : Str) (title : Option Str) (b : Para) : Str := joinLines ((qaLines tab kl title b).map qline0)

theorem qaLines_facts (tab : Nat) (kl : Str) (title : Option Str) (b : Para) (hk : PlainFacts kl)
    (ht : ∀ t, title = some t → ∀ c ∈ t, DocSpec.isAlnumSp c = true) (hb : ParaOK b) :
    ∀ l ∈ qaLines tab kl title b, l ≠ [] ∧ '\n' ∉ l ∧ (∀ c ∈ l, c = '!' ∨ c = '"' ∨ DocSpec.isAlnumSp c = true) ∧
      ∃ c ∈ l, isSpace c = false := by
  have ht' : ∀ t, title = some t → ∀ c ∈ t, c ≠ '\n' ∧ c ≠ '"' := by
    intro t h c hc
    have f := alnumSp_quiet (ht t h c hc)
    exact ⟨f.2.1, f.2.2.2.2.2.2.1⟩
  intro l hl
  rcases List.mem_cons.1 hl with rfl | hl
  · refine ⟨by simp [admHeader], nl_not_mem_header kl title hk ht', ?_, '!', by simp [admHeader], by decide⟩
    intro c hc
    have hc' : c ∈ ['!', '!', '!', ' '] ++ kl ++ admTitleSrc title := by simpa [admHeader] using hc
    rcases List.mem_append.1 hc' with h | h
    · rcases List.mem_append.1 h with h | h
      · simp only [List.mem_cons, List.mem_nil_iff, or_false] at h
        rcases h with rfl | rfl | rfl | rfl
        · exact Or.inl rfl
        · exact Or.inl rfl
        · exact Or.inl rfl
        · exact Or.inr (Or.inr (by decide))
      · exact Or.inr (Or.inr (hk.chars c h))
    · cases title with
      | none => simp [admTitleSrc] at h
      | some t =>
        have h' : c ∈ [' ', '"'] ++ t ++ ['"'] := by simpa [admTitleSrc] using h
        rcases List.mem_append.1 h' with h | h
        · rcases List.mem_append.1 h with h | h
          · simp only [List.mem_cons, List.mem_nil_iff, or_false] at h
            rcases h with rfl | rfl
            · exact Or.inr (Or.inr (by decide))
            · exact Or.inr (Or.inl rfl)
          · exact Or.inr (Or.inr (ht t rfl c h))
        · simp only [List.mem_singleton] at h
          exact Or.inr (Or.inl h)
  · obtain ⟨y, hy, rfl⟩ := List.mem_map.1 hl
    have hp := hb y hy
    obtain ⟨a, t, rfl⟩ : ∃ a t, y = a :: t := by
      cases y with
      | nil => exact absurd rfl hp.ne
      | cons a t => exact ⟨a, t, rfl⟩
    have e : CodeLaw.indentLine tab (a :: t) = spaces tab ++ (a :: t) := by simp [CodeLaw.indentLine]
    refine ⟨(indentLine_facts tab _ hp).1, (indentLine_facts tab _ hp).2, ?_, a, by rw [e]; simp,
      DocParse.alnum_visible a (hp.chars a List.mem_cons_self) (hp.head a rfl)⟩
    intro c hc
    rw [e] at hc
    rcases List.mem_append.1 hc with h | h
    · have : c = ' ' := by simpa [spaces] using (List.mem_replicate.1 h).2
      exact Or.inr (Or.inr (by rw [this]; decide))
    · exact Or.inr (Or.inr (hp.chars c h))

theorem parseDocumentXT_admQuote (cfg : XCfg) (hadm : cfg.admonition = true) (tab : Nat) (htab : tab > 0) (kl : Str)
    (title ttl : Option Str) (b : Para) (hk : PlainFacts kl)
    (ht : ∀ t, title = some t → ∀ c ∈ t, DocSpec.isAlnumSp c = true) (hb : ParaOK b)
    (hcl : admClassTitle kl title = (kl, ttl)) :
    parseDocumentXT false cfg tab (qaSrc tab kl title b ++ ['\n', '\n']) =
      some (rootOf [bqOf [admDivG kl ttl [pText b]]], []) := by
  have ht' : ∀ t, title = some t → ∀ c ∈ t, c ≠ '\n' ∧ c ≠ '"' := by
    intro t h c hc
    have f := alnumSp_quiet (ht t h c hc)
    exact ⟨f.2.1, f.2.2.2.2.2.2.1⟩
  have hF := qaLines_facts tab kl title b hk ht hb
  have hne : qaLines tab kl title b ≠ [] := by simp [qaLines]
  have hq0 : ∀ l ∈ (qaLines tab kl title b).map qline0, l ≠ [] ∧ '\n' ∉ l := by
    intro l hl
    obtain ⟨x, hx, rfl⟩ := List.mem_map.1 hl
    refine ⟨by simp [qline0], ?_⟩
    intro hm
    simp only [qline0, List.mem_cons] at hm
    rcases hm with h | h | h
    · exact absurd h (by decide)
    · exact absurd h (by decide)
    · exact (hF x hx).2.1 h
  have hnel : Escape.noEmptyLineFrom true (qaSrc tab kl title b) = true := nel_block _ (by simpa using hne) hq0
  have hsplit : splitS ['\n', '\n'] (qaSrc tab kl title b ++ ['\n', '\n']) = [qaSrc tab kl title b, []] := by
    simp only [splitS]; exact Escape.splitAux_blocks true _ hnel
  obtain ⟨tail, htail⟩ : ∃ tail, qaSrc tab kl title b = '>' :: tail := by
    obtain ⟨Y, hY⟩ := joinLines_head (qline0 (admHeader kl title)) ((CodeLaw.indentLines tab (pLines b)).map qline0)
    exact ⟨' ' :: admHeader kl title ++ Y, by
      rw [show qaSrc tab kl title b = joinLines (qline0 (admHeader kl title) ::
        (CodeLaw.indentLines tab (pLines b)).map qline0) from rfl, hY]
      rfl⟩
  have hchars : ∀ c ∈ qaSrc tab kl title b, c = '\n' ∨ c = '>' ∨ c = '!' ∨ c = '"' ∨ DocSpec.isAlnumSp c = true := by
    intro c hc
    rcases DocParse.mem_joinLines hc with rfl | ⟨l, hl, hcl'⟩
    · exact Or.inl rfl
    · obtain ⟨x, hx, rfl⟩ := List.mem_map.1 hl
      simp only [qline0, List.mem_cons] at hcl'
      rcases hcl' with h | h | h
      · exact Or.inr (Or.inl h)
      · exact Or.inr (Or.inr (Or.inr (Or.inr (by rw [h]; decide))))
      · rcases (hF x hx).2.2.1 c h with h' | h' | h'
        · exact Or.inr (Or.inr (Or.inl h'))
        · exact Or.inr (Or.inr (Or.inr (Or.inl h')))
        · exact Or.inr (Or.inr (Or.inr (Or.inr h')))
  have hesc : ∀ c ∈ qaSrc tab kl title b, c ∉ esc6 := by
    intro c hc hm
    have hall : ∀ x ∈ esc6, x ≠ '\n' ∧ x ≠ '>' ∧ x ≠ '!' ∧ x ≠ '"' ∧ DocSpec.isAlnumSp x = false := by decide
    have hx := hall c hm
    rcases hchars c hc with h | h | h | h | h
    · exact hx.1 h
    · exact hx.2.1 h
    · exact hx.2.2.1 h
    · exact hx.2.2.2.1 h
    · rw [h] at hx; exact absurd hx.2.2.2.2 (by decide)
  have hvis : Escape.startsVisible (qaSrc tab kl title b) = true := by rw [htail]; simp [Escape.startsVisible, isSpace]
  have hsecond : (match Escape.secondLine (qaSrc tab kl title b) with
      | some l => Escape.isEqUnderline l | none => false) = false := by
    unfold Escape.secondLine
    have hlines : lines (qaSrc tab kl title b) = (qaLines tab kl title b).map qline0 :=
      joinLines_lines (by simpa using hne) (fun p hp => (hq0 p hp).2)
    rw [hlines, List.getElem?_map]
    cases (qaLines tab kl title b)[1]? with
    | none => rfl
    | some z => exact isEqUnderline_gt _
  have hdefn : defSearch (qaSrc tab kl title b) = none := by
    have h0 : defAt (qaSrc tab kl title b) = none := by rw [htail]; exact defAt_gt _
    simp only [defSearch, nlSearch, h0]
    rw [show qaSrc tab kl title b = joinLines ((qaLines tab kl title b).map qline0) from rfl,
      nlSearchAux_gt defAt defAt_gt _ hne (fun l hl => (hF l hl).2.1) 0]
  have hadmT : admTest tab (Node.el "div") (qaSrc tab kl title b) = none := by
    have h0 : admAt (qaSrc tab kl title b) = none := by rw [htail]; exact admAt_gt _
    have h1 : admSearch (qaSrc tab kl title b) = none := by
      simp only [admSearch, nlSearch, h0]
      rw [show qaSrc tab kl title b = joinLines ((qaLines tab kl title b).map qline0) from rfl,
        nlSearchAux_gt admAt admAt_gt _ hne (fun l hl => (hF l hl).2.1) 0]
    simp [admTest, h1, admContent, Node.last?, Node.el]
  have hqs : quoteSearch (qaSrc tab kl title b) = some 0 := by
    rw [htail]
    exact DocParse.quoteSearch_gt 0 (by omega) tail
  have hinner : ∀ l ∈ qaLines tab kl title b, DocParse.InnerLine l := fun l hl => ⟨(hF l hl).2.1, Or.inr (hF l hl).2.2.2⟩
  have hclean : joinLines ((lines ((qaSrc tab kl title b).drop 0)).map quoteClean) = admSrc tab kl title (pLines b) := by
    have e : qaSrc tab kl title b = joinLines ((qaLines tab kl title b).map (DocParse.qline 0)) := by
      unfold qaSrc
      congr 1
      apply List.map_congr_left
      intro l hl
      exact (qline0_eq l (hF l hl).1).symm
    rw [List.drop_zero, e, DocParse.cleaned_qlines 0 (by omega) _ hne hinner]
    rfl
  obtain ⟨g, hg⟩ : ∃ g, fuelForX (qaSrc tab kl title b ++ ['\n', '\n']).length = (g + 1 + 1) + 1 := by
    refine ⟨fuelForX (qaSrc tab kl title b ++ ['\n', '\n']).length - 3, ?_⟩
    simp only [fuelForX]
    omega
  -- the admonition inside the blockquote
  have hnel2 : Escape.noEmptyLineFrom true (admSrc tab kl title (pLines b)) = true := by
    apply nel_block _ (by simp)
    intro l hl
    exact ⟨(hF l hl).1, (hF l hl).2.1⟩
  have hsplit2 : splitS ['\n', '\n'] (admSrc tab kl title (pLines b)) = [admSrc tab kl title (pLines b)] := by
    simp only [splitS]
    exact DocParse.splitAux_single true _ hnel2
  have hinside : parseChunk (parseBlocksXT false cfg tab (g + 1 + 1)) ([] ++ [.blockquote]) []
      (Node.el "blockquote") (admSrc tab kl title (pLines b)) = some (bqOf [admDivG kl ttl [pText b]], []) := by
    simp only [parseChunk, hsplit2]
    have h1 := dispatch_admHeadP cfg hadm tab htab kl title ttl b hk ht' hb hcl g ([] ++ [.blockquote]) (by decide) []
      (Node.el "blockquote") []
    simp only [parseBlocksXT, h1]
    simp [bqOf, Node.append, Node.el]
  have hquote : dispatchXT false cfg tab (parseBlocksXT false cfg tab (g + 1 + 1)) [] [] (Node.el "div")
      (qaSrc tab kl title b) [[]] = some (rootOf [bqOf [admDivG kl ttl [pText b]]], [], [[]]) := by
    rw [dispatchXT_toQuote' cfg tab htab _ [] [] (Node.el "div") _ [[]] hesc hvis hsecond hadmT hdefn hqs]
    have hpre : parseBlocksXT false cfg tab (g + 1 + 1) [] [] (Node.el "div") [List.take 0 (qaSrc tab kl title b)] =
        some (Node.el "div", []) := by
      rw [List.take_zero]
      exact parse_end' cfg tab htab _ [] [] _ (by intro c hc; simp [Node.last?, Node.el] at hc)
    simp only [quoteP, hpre, hclean, hinside]
    simp [Node.last?, Node.el, rootOf, Node.append]
  simp only [parseDocumentXT, parseChunk, hsplit]
  rw [hg]
  simp only [parseBlocksXT, hquote]
  exact parse_end' cfg tab htab (g + 1) [] [] (rootOf [bqOf [admDivG kl ttl [pText b]]]) (by
    intro c hc
    simp only [rootOf, Node.last?, Node.el, List.getLast?_singleton, Option.some.injEq] at hc
    subst hc
    have : (bqOf [admDivG kl ttl [pText b]]).isTag "pre" = false := by
      simp only [bqOf, Node.isTag, Node.el]; decide
    simp [preCode, this])

end MdVerif.RenderG
