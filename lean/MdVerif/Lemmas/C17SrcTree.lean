/-
Helper lemmas for `Props/C17Src.lean`, part 1: a forest of element trees whose serialisation is EXACTLY the output
`fnRender` of `convertX` on a paragraph with footnote references followed by footnote definitions
(`Props/C16RenderG.lean`, `C16_footnotes_anywhere`) — the tree the serializer saw, with the two placeholders that the
footnote postprocessor replaces (`NBSP_PLACEHOLDER`, `FN_BACKLINK_TEXT`) already spelled as the entities `&#160;`,
`&#8617;`, and without the `div` wrapper that `Markdown.convert` strips.  Every node is well formed (`Ser.WFList`), so
the round-trip theorem of C14 (`Ser.reads_list`) tells what the strict reader returns for that output.

Core Lean only.
-/
import MdVerif.Lemmas.RenderGAll
import MdVerif.Lemmas.SerializerTree

namespace MdVerif.C17Src
open Py MdVerif.RenderX MdVerif.RenderG
open MdVerif.Footnotes.Spec (refName)

/-! ### the forest -/

/-- a back-link as the output shows it -/
def backO (index : Nat) (href : Str) : Node :=
  { tag := .name "a".toList,
    attrs := [("href".toList, href), ("class".toList, "footnote-backref".toList), ("title".toList, titleOf index)],
    text := some entBl }

/-- the paragraph of a footnote -/
def liPO (id note : Str) (index c : Nat) : Node :=
  { tag := .name "p".toList, text := some (note ++ entNb), children := (backHrefs id c).map (backO index),
    tail := some ['\n'] }

/-- a footnote -/
def liO (id note : Str) (index c : Nat) : Node :=
  { tag := .name "li".toList, attrs := [("id".toList, Footnotes.footnoteId id)], text := some ['\n'], tail := some ['\n'],
    children := [liPO id note index c] }

def lisO (cnt : Str → Nat) : List (Str × Str) → Nat → List Node
  | [], _ => []
  | d :: r, i => liO d.1 d.2 i (cnt d.1) :: lisO cnt r (i + 1)

/-- the paragraph with the references -/
def paraO (t : Str) (sups : List Node) : Node :=
  { tag := .name "p".toList, text := some t, children := sups, tail := some ['\n'] }

def olO (lis : List Node) : Node := { tag := .name "ol".toList, text := some ['\n'], tail := some ['\n'], children := lis }

def hrO : Node := { tag := .name "hr".toList, tail := some ['\n'] }

/-- `div.footnote` -/
def divO (lis : List Node) : Node :=
  { tag := .name "div".toList, attrs := [("class".toList, "footnote".toList)], text := some ['\n'],
    children := [hrO, olO lis] }

/-- the references of the paragraph -/
def supsO (keys : List Str) (segs : List (Str × Str)) (hist : List Str) : List Node := supKids (refItemsE keys segs hist)

/-- the output as a forest -/
def outForest (t : Str) (segs defs : List (Str × Str)) : List Node :=
  [paraO t (supsO (defs.map (·.1)) segs []), divO (lisO (refCount segs) defs 1)]

/-! ### its serialisation -/

theorem ec_entBl : Ser.escCdata entBl = entBl := by decide +kernel
theorem truthy_entBl : Node.truthy (some entBl) = true := by decide +kernel
theorem esc1_entNb : Ser.esc1 false false entNb = entNb := by decide +kernel

theorem plain_of_alnumSp {c : Char} (h : DocSpec.isAlnumSp c = true) : Ser.plain c = true := by
  have : c ≠ '&' ∧ c ≠ '<' ∧ c ≠ '>' ∧ c ≠ '"' ∧ c ≠ '\n' := by
    refine ⟨?_, ?_, ?_, ?_, ?_⟩ <;> (intro e; subst e; exact absurd h (by decide))
  simp [Ser.plain, this]

theorem ec_note (note : Str) (hn : PlainFacts note) : Ser.escCdata (note ++ entNb) = note ++ entNb := by
  rw [Ser.onepass_cdata', Ser.esc1_body false false note entNb (fun c hc => plain_of_alnumSp (hn.chars c hc)), esc1_entNb]

theorem serialize_backO (fmt : Ser.Fmt) (index : Nat) (href : Str) (h : ∀ c ∈ href, AttrCh c)
    (hne : "href".toList ≠ href) :
    Ser.serialize fmt (backO index href) = backHtml index entBl href := by
  unfold backO
  rw [serialize_elA fmt "a".toList
    [("href".toList, href), ("class".toList, "footnote-backref".toList), ("title".toList, titleOf index)]
    [("class".toList, "footnote-backref".toList), ("href".toList, href), ("title".toList, titleOf index)]
    _ _ _ _ _ (by simp [Ser.sortAttrs, Ser.insAttr, Ser.strLt]) et_a.1 et_a.2
    (by
      intro kv hkv
      simp only [List.mem_cons, List.mem_nil_iff, or_false] at hkv
      rcases hkv with rfl | rfl | rfl
      · exact ⟨kv_class_backref, ea_backref⟩
      · exact ⟨hne, escAttr_of_attrCh h⟩
      · exact ⟨title_ne index, escAttr_of_attrCh (attrCh_title index)⟩)]
  rw [ifText_some _ ec_entBl, ifText_none]
  unfold backHtml backPre lA1 lA2 lA3 lA4
  generalize entBl = BL
  generalize titleOf index = TT
  simp only [attrStr, Ser.serializeList]
  simp only [String.reduceToList]
  simp only [List.cons_append, List.append_assoc, List.nil_append, List.append_nil]

theorem serializeList_backsO (fmt : Ser.Fmt) (index : Nat) : ∀ (hs : List Str), (∀ h ∈ hs, ∀ c ∈ h, AttrCh c) →
    (∀ h ∈ hs, "href".toList ≠ h) →
    Ser.serializeList fmt (hs.map (backO index)) = backsHtml index entBl hs := by
  intro hs
  induction hs with
  | nil => intro _ _; rfl
  | cons h r ih =>
    intro h1 h2
    simp only [List.map_cons, Ser.serializeList, backsHtml,
      serialize_backO fmt index h (h1 h List.mem_cons_self) (h2 h List.mem_cons_self),
      ih (fun x hx => h1 x (List.mem_cons_of_mem _ hx)) (fun x hx => h2 x (List.mem_cons_of_mem _ hx))]

theorem serialize_liO (fmt : Ser.Fmt) (id note : Str) (index c : Nat) (hid : WordFacts id) (hn : PlainFacts note) :
    Ser.serialize fmt (liO id note index c) = liHtml id note index c entNb entBl := by
  unfold liO liPO
  rw [serialize_elA fmt "li".toList [("id".toList, Footnotes.footnoteId id)] [("id".toList, Footnotes.footnoteId id)] _ _ _ _ _
    (by simp [Ser.sortAttrs, Ser.insAttr])
    et_li.1 et_li.2 (by intro kv hkv; simp at hkv; subst hkv; exact ⟨id_ne_fn _, escAttr_of_attrCh (attrCh_fnId id hid)⟩)]
  simp only [Ser.serializeList]
  rw [CodeLaw.serialize_plain fmt _ _ _ _ _ _ et_p.1 et_p.2,
    serializeList_backsO fmt index _ (attrCh_backHrefs id hid c) (href_ne_back id c)]
  simp only [ifText_some _ (ec_note note hn), ifText_some _ ec_nl]
  unfold liHtml liPre lL1 lL2 lL3 Footnotes.footnoteId
  generalize backsHtml index entBl (backHrefs id c) = BK
  generalize entNb = NB
  simp only [attrStr]
  simp only [String.reduceToList]
  simp only [List.cons_append, List.append_assoc, List.nil_append, List.append_nil]

theorem serializeList_lisO (fmt : Ser.Fmt) (cnt : Str → Nat) : ∀ (defs : List (Str × Str)) (i : Nat), DefsOK defs →
    Ser.serializeList fmt (lisO cnt defs i) = lisHtml cnt entNb entBl defs i := by
  intro defs
  induction defs with
  | nil => intro i _; rfl
  | cons d r ih =>
    intro i hd
    simp only [lisO, Ser.serializeList, lisHtml, serialize_liO fmt d.1 d.2 i (cnt d.1) (hd.ids d List.mem_cons_self)
      (hd.notes d List.mem_cons_self), ih (i + 1) hd.tail]

theorem serialize_forest (fmt : Ser.Fmt) (t : Str) (sups lis : List Node) (ht : PlainFacts t) :
    Ser.serializeList fmt [paraO t sups, divO lis] =
      fnOutG fmt t (Ser.serializeList fmt sups) (Ser.serializeList fmt lis) := by
  have et : Ser.escCdata t = t := CodeLaw.escCdata_plain _ ht.noMarkup
  unfold paraO divO olO hrO
  simp only [Ser.serializeList]
  rw [CodeLaw.serialize_plain fmt _ _ _ _ _ _ et_p.1 et_p.2]
  rw [serialize_elA fmt "div".toList [("class".toList, "footnote".toList)] [("class".toList, "footnote".toList)] _ _ _ _ _
    (by simp [Ser.sortAttrs, Ser.insAttr])
    et_div.1 et_div.2 (by intro kv hkv; simp at hkv; subst hkv; exact ⟨kv_class_footnote, ea_footnote⟩)]
  simp only [Ser.serializeList]
  rw [serialize_hrG fmt, CodeLaw.serialize_plain fmt _ _ _ _ _ _ et_ol.1 et_ol.2]
  simp only [ifText_some _ ec_nl, ifText_some _ et, ifText_none]
  unfold fnOutG docPre lD1 lD2 lD3 lD4
  generalize Ser.serializeList fmt sups = S1
  generalize Ser.serializeList fmt lis = S2
  generalize hrTag fmt = HR
  simp only [attrStr]
  simp only [String.reduceToList]
  simp only [List.cons_append, List.append_assoc, List.nil_append, List.append_nil]

/-- **the forest serialises to the output** -/
theorem serialize_outForest (fmt : Ser.Fmt) (t : Str) (segs defs : List (Str × Str)) (ht : PlainFacts t)
    (hs : SegsOK segs) (hd : DefsOK defs) :
    Ser.serializeList fmt (outForest t segs defs) = fnRender fmt t segs defs := by
  unfold outForest fnRender supsO
  rw [serialize_forest fmt t _ _ ht, serializeList_sups fmt _ segs [] hs, serializeList_lisO fmt _ defs 1 hd]

end MdVerif.C17Src
