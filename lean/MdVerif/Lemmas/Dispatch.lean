import MdVerif.Model.Dispatch

namespace MdVerif.Dispatch
variable {X R : Type}

theorem dispatch_append_declined (pre : List (Proc X R)) (rest : List (Proc X R)) (x : X)
    (h : ∀ q ∈ pre, q.test x = false ∨ q.run x = none) : dispatch (pre ++ rest) x = dispatch rest x := by
  induction pre with
  | nil => rfl
  | cons q qs ih =>
    have hq := h q (by simp)
    have ih' := ih (fun q' hq' => h q' (by simp [hq']))
    simp only [List.cons_append, dispatch]
    rcases hq with hq | hq
    · simp [hq, ih']
    · simp [hq, ih']

end MdVerif.Dispatch
