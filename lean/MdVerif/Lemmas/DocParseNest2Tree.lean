/-
Helper lemmas for C01 on nested documents with two levels of emphasis (`Props/C01f.lean`), part 1: element trees of any
shape whose tags are `hr p h1…h6 blockquote ul ol li` and whose texts are one-line texts of the vocabulary of
`Lemmas/DocParse3.lean` (`Txt.mix t0 segs`, `segs : List Seg2`: escaped words, code spans, emphasis around words,
escapes, code spans and again emphasis around these), through the inline processor, prettify, unescape, the serializer
and the end of `convert`.

This is `Lemmas/DocParseNestTree.lean` (texts with one level of emphasis around words) carried over to the richer
texts.  New here: the elements the inline processor makes of a text have children themselves (two levels); each of them
is pushed on the stack of `InlineProcessor.run` when it is made, and once more — when it has children — every time its
parent is popped; popping it visits its children again, and theirs, and nothing happens (`StillBelow`,
`runLoop_skipStill`).  Core Lean only.
-/
import MdVerif.Lemmas.DocParseListDoc
import MdVerif.Lemmas.DocParse3

namespace MdVerif.DocNest2
open Py Inline Escape DocParse DocParse2 CodeLaw

/-! ### trees -/

/-- the text of an element: none, the empty string (the first item of a loose list, after its text was moved into a
    `p`), or a line (`t0`: the words before the first item; `segs`: code spans / emphases, each with the words after
    it) -/
inductive Txt where
  | none
  | empty
  | mix (t0 : Str) (segs : List Seg2)

/-- an element `tag` with a text and child elements -/
inductive NT where
  | el (tag : Str) (tx : Txt) (kids : List NT)

/-- the text as the block parser leaves it -/
def Txt.src (esc : List Char) : Txt → Option Str
  | .none => Option.none
  | .empty => some []
  | .mix t0 segs => some (escAll esc t0 ++ rawF esc (flatten2 segs))

/-- the text after the inline processor -/
def Txt.midText (esc : List Char) : Txt → Option Str
  | .none => Option.none
  | .empty => some []
  | .mix t0 _ => optStr (coded esc t0)

def Txt.segs : Txt → List Seg2
  | .mix _ segs => segs
  | _ => []

/-- the elements the inline processor makes of the text -/
def Txt.inl (esc : List Char) (tx : Txt) : List Node := tx.segs.map (tailed2 esc)

/-- what the inline stages need of a text -/
structure MixOK (esc : List Char) (t0 : Str) (segs : List Seg2) : Prop where
  hsegs : Segs2OK esc segs
  flat : FSegsOK (flatten2 segs)
  junctions : junctionsF t0 false (flatten2 segs)
  under : UnderOK2 esc (lastW esc t0) segs
  tplain : ∀ c, (c ∈ t0 ∨ ∃ s ∈ segs, c ∈ s.t) → plainCh c
  clean : ∀ s ∈ segs, s.k.clean
  ne : t0 ≠ [] ∨ segs ≠ []
  first : t0 ≠ [] → startsVisible t0 = true
  nostx : NoStx2 segs

theorem MixOK.plain {esc : List Char} {t0 : Str} {segs : List Seg2} (h : MixOK esc t0 segs) :
    ∀ c, (c ∈ t0 ∨ ∃ s ∈ segs, c ∈ s.t) → c ≠ '&' ∧ c ≠ '\n' ∧ c ≠ Inline.STX := by
  intro c hc
  obtain ⟨_, a2, a3, _, a5⟩ := plainCh_facts (h.tplain c hc); exact ⟨a3, a2, a5⟩

def Txt.ok (esc : List Char) : Txt → Prop
  | .mix t0 segs => MixOK esc t0 segs
  | _ => True

mutual
def NT.src (esc : List Char) : NT → Node
  | .el tag tx ks => { tag := .name tag, text := tx.src esc, children := NT.srcs esc ks }
def NT.srcs (esc : List Char) : List NT → List Node
  | [] => []
  | t :: r => t.src esc :: NT.srcs esc r
end

mutual
def NT.mid (esc : List Char) : NT → Node
  | .el tag tx ks => { tag := .name tag, text := tx.midText esc, children := tx.inl esc ++ NT.mids esc ks }
def NT.mids (esc : List Char) : List NT → List Node
  | [] => []
  | t :: r => t.mid esc :: NT.mids esc r
end

/-- after the visit of its parent: the own text is done, the block children are still to be visited -/
def NT.half (esc : List Char) : NT → Node
  | .el tag tx ks => { tag := .name tag, text := tx.midText esc, children := tx.inl esc ++ NT.srcs esc ks }

mutual
/-- tags of the family, texts that the inline stages understand, `hr` without text and children -/
def NT.ok (esc : List Char) : NT → Prop
  | .el tag tx ks => tag ∈ gtTags ∧ tx.ok esc ∧ (tag = "hr".toList → tx = .none ∧ ks = []) ∧ NT.oks esc ks
def NT.oks (esc : List Char) : List NT → Prop
  | [] => True
  | t :: r => t.ok esc ∧ NT.oks esc r
end

def NT.kids : NT → List NT
  | .el _ _ ks => ks

def NT.tx : NT → Txt
  | .el _ tx _ => tx

def NT.tag : NT → Str
  | .el tag _ _ => tag

/-- the weight of the elements the inline processor makes of a text: each with what is below it -/
def Txt.w1 (esc : List Char) (tx : Txt) : Nat := ((tx.inl esc).map (fun c => 1 + below c)).sum

mutual
/-- a bound on the number of pops of the stack of `run` that concern this element and the elements below it -/
def NT.pops (esc : List Char) : NT → Nat
  | .el _ tx ks => (if ks.isEmpty then 0 else 1 + NT.popsL esc ks + tx.w1 esc) + tx.w1 esc
def NT.popsL (esc : List Char) : List NT → Nat
  | [] => 0
  | t :: r => t.pops esc + NT.popsL esc r
end

/-- the number of tokens of the flat view of a text -/
def Txt.wd (tx : Txt) : Nat := (flatten2 tx.segs).length

mutual
def NT.size : NT → Nat
  | .el _ tx ks => 1 + tx.wd + NT.sizeL ks
def NT.sizeL : List NT → Nat
  | [] => 0
  | t :: r => t.size + NT.sizeL r
end

section ntInline

theorem nsrcs_eq_map (esc : List Char) (ts : List NT) : NT.srcs esc ts = ts.map (NT.src esc) := by
  induction ts with
  | nil => rfl
  | cons t r ih => simp [NT.srcs, ih]

theorem nmids_eq_map (esc : List Char) (ts : List NT) : NT.mids esc ts = ts.map (NT.mid esc) := by
  induction ts with
  | nil => rfl
  | cons t r ih => simp [NT.mids, ih]

theorem noks_cons {esc : List Char} {t : NT} {r : List NT} : NT.oks esc (t :: r) ↔ t.ok esc ∧ NT.oks esc r := by
  rw [NT.oks]

theorem noks_mem {esc : List Char} {ts : List NT} (h : NT.oks esc ts) : ∀ t ∈ ts, t.ok esc := by
  induction ts with
  | nil => intro t ht; cases ht
  | cons a r ih =>
    rw [noks_cons] at h
    intro t ht
    rcases List.mem_cons.1 ht with rfl | ht
    · exact h.1
    · exact ih h.2 t ht

theorem nok_el {esc : List Char} {tag : Str} {tx : Txt} {ks : List NT} :
    (NT.el tag tx ks).ok esc ↔ tag ∈ gtTags ∧ tx.ok esc ∧ (tag = "hr".toList → tx = .none ∧ ks = []) ∧ NT.oks esc ks := by
  rw [NT.ok]

/-! #### the elements made by the inline processor, visited again -/

/-- an item's element, with its tail, is left alone when it is visited as a child -/
theorem still_tailed2 {cfg : Inline.Cfg} (hs : EscSup cfg.esc) (s : Seg2) (hk : K2OK cfg.esc s.k)
    (ht : ∀ x ∈ s.t, plainCh x) : Still cfg (tailed2 cfg.esc s) := by
  obtain ⟨k, t⟩ := s
  have hq : ∀ u : Str, (∀ x ∈ u, plainCh x) → Quiet (coded cfg.esc u) ∧ find phPrefix (coded cfg.esc u) = none :=
    fun u hu => ⟨DocParse2.quiet_coded hs u hu,
      DocParse2.find_phPrefix_coded cfg.esc u (fun hm => (plainCh_facts (hu _ hm)).2.2.2.2 rfl)⟩
  cases k with
  | code n b => exact still_tailed hs ⟨n, b, t⟩ ht
  | em st d β =>
    apply still_quiet cfg _ rfl rfl
    · intro u hu
      have hu' : optStr (coded cfg.esc β.u0) = some u := hu
      rw [DocParse2.optStr_some hu']
      exact hq β.u0 (fun x hx => hk.2.plain x (Or.inl hx))
    · intro u hu
      have hu' : optStr (coded cfg.esc t) = some u := hu
      rw [DocParse2.optStr_some hu']
      exact hq t ht

/-- the number of children of the elements of a text, at any depth, is bounded by the length of the flat view -/
theorem kids2_le (esc : List Char) (segs : List Seg2) (s : Seg2) (hs : s ∈ segs) :
    (tailed2 esc s).children.length ≤ (flatten2 segs).length ∧
      ∀ c ∈ (tailed2 esc s).children, c.children.length ≤ (flatten2 segs).length := by
  rw [tailed2_children]
  cases hkk : s.k with
  | code n b => exact ⟨by simp, fun c hc => by cases hc⟩
  | em st d β =>
    have h1 := flatten1_le_flatten2 segs s hs st d β hkk
    have h3 := flatten1_length β.segs
    refine ⟨by simp only [List.length_map]; omega, ?_⟩
    intro c hc
    obtain ⟨x, hx, rfl⟩ := List.mem_map.1 hc
    have := kids_le_flatten1 esc β.segs x hx
    omega

/-- the facts about the elements of a text that the stack loop uses -/
theorem inl_still (cfg : Inline.Cfg) (hs : EscSup cfg.esc) (t0 : Str) (segs : List Seg2) (h : MixOK cfg.esc t0 segs) :
    ∀ c ∈ segs.map (tailed2 cfg.esc), Still cfg c ∧ StillBelow cfg (flatten2 segs).length c := by
  intro c hc
  obtain ⟨s, hs', rfl⟩ := List.mem_map.1 hc
  obtain ⟨k1, k2⟩ := kids2_le cfg.esc segs s hs'
  exact ⟨still_tailed2 hs s (h.hsegs s hs') (fun x hx => h.tplain x (Or.inr ⟨s, hs', hx⟩)),
    stillBelow_tailed2 hs _ s (h.hsegs s hs') k1 k2⟩

/-! #### the visit of an element of the family -/

/-- the paths of the elements that the inline processor made of the text of the element at `q`, last first -/
def inlPaths (q : Path) (n : Nat) : List Path := ((List.range n).map (fun k => q ++ [k])).reverse

/-- what the visit of the element (as the child at `q` of the popped element) pushes: the element itself when it has
    block children, then the new inline elements -/
def NT.pushAt (q : Path) (t : NT) : List Path :=
  (if t.kids.isEmpty then [] else [q]) ++ inlPaths q t.tx.segs.length

theorem inlPaths_map (p q : Path) (n : Nat) : (inlPaths q n).map (p ++ ·) = inlPaths (p ++ q) n := by
  simp [inlPaths, List.map_reverse, List.map_map, Function.comp_def, List.append_assoc]

theorem pushAt_map (p q : Path) (t : NT) : (t.pushAt q).map (p ++ ·) = t.pushAt (p ++ q) := by
  cases t with
  | el tag tx ks =>
    simp only [NT.pushAt, NT.kids, NT.tx, List.map_append, inlPaths_map]
    cases ks <;> simp

theorem mixOK_l2 {esc : List Char} {t0 : Str} {segs : List Seg2} (h : MixOK esc t0 segs) (tag : Str)
    (htag : textTags.contains tag = true) : L2TxtOK esc tag t0 segs :=
  ⟨htag, h.hsegs, h.flat, h.junctions, h.under, h.plain, h.clean, h.ne⟩

/-- an element with such a text and any children, visited as a child: the text is processed, the new elements go
    before the children, which wait -/
theorem visitChild_mix_kids (cfg : Inline.Cfg) (hE : EscOK cfg.esc) (hs : EscSup cfg.esc) (tag t0 : Str)
    (segs : List Seg2) (h : MixOK cfg.esc t0 segs) (kids : List Node) (v : Visit) :
    ∃ st', st'.html = v.st.html ∧
    visitChild cfg
        { tag := .name tag, text := some (escAll cfg.esc t0 ++ rawF cfg.esc (flatten2 segs)), children := kids } v =
      some ({ tag := .name tag, text := optStr (coded cfg.esc t0), children := segs.map (tailed2 cfg.esc) ++ kids }, [],
        { v with pushes := (if kids.isEmpty then [] else [[v.done.length]]) ++ inlPaths [v.done.length] segs.length ++
                   v.pushes,
                 st := st' }) := by
  have hraw : escAll cfg.esc t0 ++ stageF cfg.esc false false 0 0 (flatten2 segs) ≠ [] := by
    rcases h.ne with h' | h'
    · have := escAll_ne_nil (esc := cfg.esc) h'
      cases hx : escAll cfg.esc t0 with
      | nil => exact absurd hx this
      | cons a b => simp
    · intro e
      exact stageF_raw_ne2 cfg.esc segs h.flat h' (List.append_eq_nil_iff.1 e).2
  obtain ⟨hc1, hc2⟩ := flat2_codes_escs cfg.esc segs
  have hlenE : escCountF cfg.esc (flatten2 segs) = (escs2 cfg.esc segs).length := by
    rw [← stashOfF_length, hc2]
  have h1 := handleInlineTop_L2 cfg hE hs t0 segs v.st h.hsegs h.flat h.junctions h.under
    (fun c hc => ⟨(h.plain c hc).1, (h.plain c hc).2.1⟩)
  rw [hc1, hc2, hlenE] at h1
  have h2 := ppTop_L2 cfg.esc hs v.st.stash v.st.html t0 segs
    { tag := .name tag, children := kids } rfl rfl (fun hm => (h.plain _ (Or.inl hm)).2.2 rfl)
    (fun s hs' hm => (h.plain _ (Or.inr ⟨s, hs', hm⟩)).2.2 rfl) h.hsegs h.clean h.ne
  refine ⟨{ v.st with stash := v.st.stash ++ l2Items cfg.esc t0 segs v.st.stash.length }, rfl, ?_⟩
  rw [← stageF_raw cfg.esc (flatten2 segs) 0 0]
  simp only [visitChild, truthy_some hraw, Bool.not_false, Bool.and_self, if_true, Option.getD_some, h1]
  rw [h2]
  cases kids <;> simp [Node.truthy, inlPaths, l2Items]

theorem visitChild_nt (cfg : Inline.Cfg) (hE : EscOK cfg.esc) (hs : EscSup cfg.esc) (t : NT) (hok : t.ok cfg.esc)
    (v : Visit) :
    ∃ st', st'.html = v.st.html ∧
      visitChild cfg (t.src cfg.esc) v =
        some (t.half cfg.esc, [], { v with pushes := t.pushAt [v.done.length] ++ v.pushes, st := st' }) := by
  cases t with
  | el tag tx ks =>
    rw [nok_el] at hok
    have hke : (NT.srcs cfg.esc ks).isEmpty = ks.isEmpty := by cases ks <;> rfl
    cases tx with
    | none =>
      refine ⟨v.st, rfl, ?_⟩
      have := visitChild_bare' cfg (.name tag) (NT.srcs cfg.esc ks) v
      rw [hke] at this
      cases ks <;> simpa [NT.src, NT.half, NT.pushAt, NT.kids, NT.tx, Txt.src, Txt.midText, Txt.inl, Txt.segs, inlPaths]
        using this
    | empty =>
      refine ⟨v.st, rfl, ?_⟩
      have := visitChild_empty' cfg (.name tag) (NT.srcs cfg.esc ks) v
      rw [hke] at this
      cases ks <;> simpa [NT.src, NT.half, NT.pushAt, NT.kids, NT.tx, Txt.src, Txt.midText, Txt.inl, Txt.segs, inlPaths]
        using this
    | mix t0 segs =>
      obtain ⟨st', hst', this⟩ := visitChild_mix_kids cfg hE hs tag t0 segs hok.2.1 (NT.srcs cfg.esc ks) v
      rw [hke] at this
      exact ⟨st', hst',
        by simpa [NT.src, NT.half, NT.pushAt, NT.kids, NT.tx, Txt.src, Txt.midText, Txt.inl, Txt.segs,
          List.append_assoc] using this⟩

/-- the paths pushed while the children `ts` (the first one being child number `i`) are visited, last pushed first -/
def pushesN : List NT → Nat → List Path
  | [], _ => []
  | t :: r, i => pushesN r (i + 1) ++ t.pushAt [i]

theorem visitLoop_nt (cfg : Inline.Cfg) (hE : EscOK cfg.esc) (hs : EscSup cfg.esc) (ts : List NT)
    (hok : NT.oks cfg.esc ts) :
    ∀ (i0 : Nat) (v : Visit) (g : Nat), v.done.length = i0 → (∀ x ∈ v.posmap, x.1 = x.2) →
      ∃ v', visitLoop cfg (g + ts.length + 1) (withIdx (ts.map (NT.src cfg.esc)) i0) v = some v' ∧
        v'.done = (ts.map (NT.half cfg.esc)).reverse ++ v.done ∧
        v'.pushes = pushesN ts i0 ++ v.pushes ∧ (∀ x ∈ v'.posmap, x.1 = x.2) ∧ v'.st.html = v.st.html := by
  induction ts with
  | nil =>
    intro i0 v g _ hpm
    exact ⟨v, by simp [visitLoop, withIdx], by simp, by simp [pushesN], hpm, rfl⟩
  | cons t r ih =>
    intro i0 v g hlen hpm
    rw [noks_cons] at hok
    rw [show g + (t :: r).length + 1 = (g + r.length + 1) + 1 by simp; omega]
    obtain ⟨st1, hs1, hv⟩ := visitChild_nt cfg hE hs t hok.1 v
    obtain ⟨v', h1, h2, h3, h4, h5⟩ := ih hok.2 (i0 + 1)
      { done := t.half cfg.esc :: v.done, posmap := (i0, v.done.length) :: v.posmap,
        pushes := t.pushAt [v.done.length] ++ v.pushes, st := st1 } g (by simp [hlen])
      (by intro x hx; rcases List.mem_cons.1 hx with rfl | hx
          · exact hlen.symm
          · exact hpm x hx)
    refine ⟨v', ?_, ?_, ?_, h4, ?_⟩
    · simp only [List.map_cons, withIdx, visitLoop, hv, List.map_nil, List.nil_append]
      exact h1
    · rw [h2]; simp
    · rw [h3]; simp [pushesN, hlen, List.append_assoc]
    · rw [h5, hs1]

/-- the visit of children that are left alone: those with children are pushed -/
theorem visitLoop_stillP (cfg : Inline.Cfg) (L : List Node) (hL : ∀ c ∈ L, Still cfg c) :
    ∀ (rest : List Node) (i0 : Nat) (v : Visit) (g : Nat), v.done.length = i0 → (∀ x ∈ v.posmap, x.1 = x.2) →
      ∃ pm, (∀ x ∈ pm, x.1 = x.2) ∧
        visitLoop cfg (g + L.length) (withIdx (L ++ rest) i0) v =
          visitLoop cfg g (withIdx rest (i0 + L.length))
            { done := L.reverse ++ v.done, posmap := pm, pushes := pushesRev L i0 ++ v.pushes, st := v.st } := by
  induction L with
  | nil =>
    intro rest i0 v g _ hpm
    exact ⟨v.posmap, hpm, by simp [pushesRev]⟩
  | cons c r ih =>
    intro rest i0 v g hlen hpm
    obtain ⟨pm, hpm', h⟩ := ih (fun x hx => hL x (List.mem_cons_of_mem _ hx)) rest (i0 + 1)
      { done := c :: v.done, posmap := (i0, v.done.length) :: v.posmap,
        pushes := if c.children.isEmpty then v.pushes else [v.done.length] :: v.pushes, st := v.st } g
      (by simp [hlen])
      (by intro x hx; rcases List.mem_cons.1 hx with rfl | hx
          · exact hlen.symm
          · exact hpm x hx)
    refine ⟨pm, hpm', ?_⟩
    rw [show g + (c :: r).length = (g + r.length) + 1 by simp; omega]
    simp only [List.cons_append, withIdx, visitLoop, hL c List.mem_cons_self v, List.map_nil, List.nil_append]
    rw [h]
    congr 1
    · simp [Nat.add_assoc, Nat.add_comm 1]
    · simp only [pushesRev, hlen]
      split <;> simp [List.append_assoc]

/-- the stack loop at paths below which every element is left alone: they are popped, their children visited, and
    nothing changes; the cost is at most their weight -/
theorem runLoop_skipStill (cfg : Inline.Cfg) (g2 : Nat) (root : Node) (stack : List Path) (st : St) :
    ∀ (n : Nat) (pre : List Path), mStack root pre ≤ n →
      (∀ q ∈ pre, ∀ cur, getAt root q = some cur → ∃ b, b + 1 ≤ g2 ∧ StillBelow cfg b cur) →
      ∃ k, k ≤ n ∧ ∀ g, runLoop cfg g2 (g + k) root (pre ++ stack) st = runLoop cfg g2 g root stack st := by
  intro n
  induction n with
  | zero =>
    intro pre h _
    cases pre with
    | nil => exact ⟨0, Nat.le_refl _, fun g => rfl⟩
    | cons p r =>
      rw [mStack_cons] at h
      have : 1 ≤ wPath root p := by unfold wPath; split <;> omega
      omega
  | succ n ih =>
    intro pre h hs'
    cases pre with
    | nil => exact ⟨0, Nat.zero_le _, fun g => rfl⟩
    | cons p pre' =>
      rw [mStack_cons] at h
      have hsr : ∀ q ∈ pre', ∀ cur, getAt root q = some cur → ∃ b, b + 1 ≤ g2 ∧ StillBelow cfg b cur :=
        fun q hq => hs' q (List.mem_cons_of_mem _ hq)
      cases hcur : getAt root p with
      | none =>
        have hw : wPath root p = 1 := by simp [wPath, hcur]
        obtain ⟨k, hk, e⟩ := ih pre' (by omega) hsr
        refine ⟨k + 1, by omega, fun g => ?_⟩
        rw [show g + (k + 1) = (g + k) + 1 from rfl]
        simp only [List.cons_append, runLoop, hcur]
        exact e g
      | some cur =>
        obtain ⟨b, hb, hsb⟩ := hs' p List.mem_cons_self cur hcur
        obtain ⟨hlen, hkids⟩ := hsb [] cur rfl
        have hvl := DocParse2.visitLoop_still cfg cur.children 0 { st := st } g2 hkids rfl (by omega)
        obtain ⟨v1, v2, v3, v4⟩ := vl_spec cur.children 0 { st := st }
        have hw : wPath root p = 1 + below cur := by simp [wPath, hcur]
        have hpush := mStack_pushes root p cur hcur cur.children 0 (fun j c hj => by simpa using hj)
        rw [← below_eq cur] at hpush
        obtain ⟨k, hk, e⟩ := ih ((pushesRev cur.children 0).map (p ++ ·) ++ pre')
          (by rw [mStack_append]; omega)
          (by
            intro q hq cur' hq'
            rcases List.mem_append.1 hq with hq | hq
            · obtain ⟨x, hx, rfl⟩ := List.mem_map.1 hq
              obtain ⟨j, c, hxe, hc⟩ := mem_pushesRev cur.children 0 x hx
              rw [hxe, Nat.zero_add, getAt_append root p cur j hcur, hc] at hq'
              have : c = cur' := by simpa using hq'
              subst this
              exact ⟨b, hb, stillBelow_child cfg b cur c j hsb hc⟩
            · exact hsr q hq cur' hq')
        refine ⟨k + 1, by omega, fun g => ?_⟩
        rw [show g + (k + 1) = (g + k) + 1 from rfl]
        have hroot : setAt root p cur = root := setAt_getAt root p cur hcur
        have ecur : (⟨cur.tag, cur.attrs, cur.text, cur.textAtomic, cur.children, cur.tail, cur.tailAtomic⟩ : Node) =
            cur := by cases cur; rfl
        have hmap : (pre' ++ stack).map (remap p (vl cur.children 0 { st := st }).posmap) = pre' ++ stack := by
          have hid := v4 (by simp)
          rw [show remap p (vl cur.children 0 { st := st }).posmap = id from funext (remap_id p _ hid)]
          simp
        simp only [List.cons_append, runLoop, hcur, hvl, v1, v2, v3, List.append_nil, List.reverse_reverse, ecur,
          hroot, hmap]
        rw [← List.append_assoc]
        exact e g

theorem w1_le_wd (esc : List Char) (tx : Txt) : tx.w1 esc ≤ tx.wd := by
  simp only [Txt.w1, Txt.wd, Txt.inl]
  exact weight_flatten2 esc tx.segs

theorem segs_le_wd (tx : Txt) : tx.segs.length ≤ tx.wd := flatten2_length tx.segs

/-- the elements of a text, visited again -/
theorem still_inl (cfg : Inline.Cfg) (hs : EscSup cfg.esc) (tx : Txt) (hok : tx.ok cfg.esc) :
    ∀ c ∈ tx.inl cfg.esc, Still cfg c ∧ StillBelow cfg tx.wd c := by
  cases tx with
  | none => intro c hc; simp [Txt.inl, Txt.segs] at hc
  | empty => intro c hc; simp [Txt.inl, Txt.segs] at hc
  | mix t0 segs => exact inl_still cfg hs t0 segs hok

/-- one pop of the stack loop at an element whose text is done and whose block children are still to be processed -/
theorem pop_step_nt (cfg : Inline.Cfg) (hE : EscOK cfg.esc) (hs : EscSup cfg.esc) (g2 : Nat) (root : Node) (q : Path)
    (cur : Node) (tx : Txt) (htx : tx.ok cfg.esc) (ts : List NT) (hcur : getAt root q = some cur)
    (hch : cur.children = tx.inl cfg.esc ++ ts.map (NT.src cfg.esc))
    (hok : NT.oks cfg.esc ts) (hg2 : tx.segs.length + ts.length + 1 ≤ g2) (stack : List Path) (st : St) :
    ∃ st', st'.html = st.html ∧ ∀ g,
      runLoop cfg g2 (g + 1) root (q :: stack) st =
        runLoop cfg g2 g (setAt root q { cur with children := tx.inl cfg.esc ++ ts.map (NT.half cfg.esc) })
          ((pushesN ts tx.segs.length).map (q ++ ·) ++ ((pushesRev (tx.inl cfg.esc) 0).map (q ++ ·) ++ stack)) st' := by
  have hlen : (tx.inl cfg.esc).length = tx.segs.length := by simp [Txt.inl]
  obtain ⟨pm, hpm, e1⟩ := visitLoop_stillP cfg (tx.inl cfg.esc) (fun c hc => (still_inl cfg hs tx htx c hc).1)
    (ts.map (NT.src cfg.esc)) 0
    { st := st } (g2 - tx.segs.length - ts.length - 1 + ts.length + 1) rfl (by intro x hx; cases hx)
  obtain ⟨v', h1, h2, h3, h4, h5⟩ := visitLoop_nt cfg hE hs ts hok (0 + (tx.inl cfg.esc).length)
    { done := (tx.inl cfg.esc).reverse ++ [], posmap := pm, pushes := pushesRev (tx.inl cfg.esc) 0 ++ [], st := st }
    (g2 - tx.segs.length - ts.length - 1) (by simp) hpm
  rw [h1] at e1
  rw [hlen, show g2 - tx.segs.length - ts.length - 1 + ts.length + 1 + tx.segs.length = g2 by omega] at e1
  refine ⟨v'.st, h5, fun g => ?_⟩
  simp only [runLoop, hcur, hch, e1, h2, h3, List.append_nil, List.reverse_append, List.reverse_reverse, hlen,
    Nat.zero_add, List.map_append]
  have hmap : stack.map (remap q v'.posmap) = stack := by
    rw [show remap q v'.posmap = id from funext (remap_id' q _ h4)]; simp
  rw [hmap, List.append_assoc]

mutual
theorem nlength_le_sizeL : (ts : List NT) → ts.length ≤ NT.sizeL ts
  | [] => by simp [NT.sizeL]
  | t :: r => by
    have := nlength_le_sizeL r
    have h1 : 1 ≤ t.size := by cases t; simp only [NT.size]; omega
    simp only [List.length_cons, NT.sizeL]; omega
end

theorem half_children (esc : List Char) (tag : Str) (tx : Txt) (ks : List NT) :
    (NT.half esc (.el tag tx ks)).children = tx.inl esc ++ ks.map (NT.src esc) := by
  simp [NT.half, nsrcs_eq_map]

/-- the weight of the paths of the elements made of the text of the element at `q` -/
theorem mStack_inlPaths (root X : Node) (q : Path) (hX : getAt root q = some X) :
    ∀ n, n ≤ X.children.length →
      mStack root (inlPaths q n) = ((X.children.take n).map (fun c => 1 + below c)).sum := by
  intro n
  induction n with
  | zero => intro _; simp [mStack, inlPaths]
  | succ n ih =>
    intro hn
    have ihn := ih (by omega)
    obtain ⟨c, hc⟩ : ∃ c, X.children[n]? = some c := by
      cases hx : X.children[n]? with
      | none => rw [List.getElem?_eq_none_iff] at hx; omega
      | some c => exact ⟨c, rfl⟩
    have htake : X.children.take (n + 1) = X.children.take n ++ [c] := by
      rw [List.take_add_one, hc]; rfl
    have hw : wPath root (q ++ [n]) = 1 + below c := by simp [wPath, getAt_append root q X n hX, hc]
    simp only [inlPaths, List.range_succ, List.map_append, List.map_cons, List.map_nil, List.reverse_append,
      List.reverse_cons, List.reverse_nil, List.nil_append, List.singleton_append] at ihn ⊢
    rw [mStack_cons, ihn, htake, hw]
    simp only [List.map_append, List.map_cons, List.map_nil, List.sum_append, List.sum_cons, List.sum_nil]
    omega

/-- what the stack loop does with the entries pushed for an element: at a cost of at most `t.pops` -/
def PopsN (cfg : Inline.Cfg) (g2 : Nat) (t : NT) : Prop :=
  ∀ (root : Node) (q : Path) (stack : List Path) (st : St),
    getAt root q = some (NT.half cfg.esc t) →
    ∃ k st', k ≤ t.pops cfg.esc ∧ st'.html = st.html ∧
      ∀ g, runLoop cfg g2 (g + k) root (t.pushAt q ++ stack) st =
        runLoop cfg g2 g (setAt root q (NT.mid cfg.esc t)) stack st'

mutual
theorem popsN (cfg : Inline.Cfg) (hE : EscOK cfg.esc) (hs : EscSup cfg.esc) (g2 : Nat) :
    (t : NT) → t.ok cfg.esc → t.size + 1 ≤ g2 → PopsN cfg g2 t
  | .el tag tx ks, hok, hsz => by
    intro root q stack st hcur
    rw [nok_el] at hok
    simp only [NT.size] at hsz
    have hlen := nlength_le_sizeL ks
    have hsegs : tx.segs.length = (tx.inl cfg.esc).length := by simp [Txt.inl]
    have hsw := segs_le_wd tx
    -- the pops of the inline elements: wherever the element at `q` has them as its first children
    have hskip : ∀ (root' : Node) (X : Node), getAt root' q = some X →
        (∃ more, X.children = tx.inl cfg.esc ++ more) → ∀ (pre : List Path) (stack' : List Path) (st1 : St),
        (pre = inlPaths q tx.segs.length ∨ pre = (pushesRev (tx.inl cfg.esc) 0).map (q ++ ·)) →
        ∃ k, k ≤ tx.w1 cfg.esc ∧ ∀ g, runLoop cfg g2 (g + k) root' (pre ++ stack') st1 =
          runLoop cfg g2 g root' stack' st1 := by
      intro root' X hX ⟨more, hch⟩ pre stack' st1 hpre
      have hkid : ∀ (j : Nat) (c : Node), (tx.inl cfg.esc)[j]? = some c → X.children[j]? = some c := by
        intro j c hj
        obtain ⟨hlt, _⟩ := List.getElem?_eq_some_iff.1 hj
        rw [hch, List.getElem?_append_left hlt]
        exact hj
      apply runLoop_skipStill cfg g2 root' stack' st1 (tx.w1 cfg.esc) pre
      · rcases hpre with rfl | rfl
        · rw [mStack_inlPaths root' X q hX _ (by rw [hch, List.length_append]; omega), hsegs, hch,
            List.take_left' rfl]
          exact Nat.le_refl _
        · have := mStack_pushes root' q X hX (tx.inl cfg.esc) 0 (fun j c hj => by simpa using hkid j c hj)
          rw [belowKids_sum] at this
          exact this
      · intro p hp cur' hp'
        have key : ∀ j, j < tx.segs.length → getAt root' (q ++ [j]) = some cur' →
            ∃ b, b + 1 ≤ g2 ∧ StillBelow cfg b cur' := by
          intro j hj hget
          obtain ⟨c, hc⟩ : ∃ c, (tx.inl cfg.esc)[j]? = some c := by
            cases hx : (tx.inl cfg.esc)[j]? with
            | none => rw [List.getElem?_eq_none_iff] at hx; omega
            | some c => exact ⟨c, rfl⟩
          rw [getAt_append root' q X j hX, hkid j c hc] at hget
          have : c = cur' := by simpa using hget
          subst this
          exact ⟨tx.wd, by omega, (still_inl cfg hs tx hok.2.1 c (List.mem_of_getElem? hc)).2⟩
        rcases hpre with rfl | rfl
        · simp only [inlPaths, List.mem_reverse, List.mem_map, List.mem_range] at hp
          obtain ⟨j, hj, rfl⟩ := hp
          exact key j hj hp'
        · obtain ⟨x, hx, rfl⟩ := List.mem_map.1 hp
          obtain ⟨j, c, hxe, hc⟩ := mem_pushesRev (tx.inl cfg.esc) 0 x hx
          rw [hxe, Nat.zero_add] at hp'
          exact key j (by rw [hsegs]; exact (List.getElem?_eq_some_iff.1 hc).1) hp'
    by_cases hk : ks = []
    · subst hk
      have hhm : NT.half cfg.esc (.el tag tx []) = NT.mid cfg.esc (.el tag tx []) := by
        simp [NT.half, NT.mid, NT.srcs, NT.mids]
      have hpa : NT.pushAt q (.el tag tx []) = inlPaths q tx.segs.length := by simp [NT.pushAt, NT.kids, NT.tx]
      obtain ⟨k, hk, e⟩ := hskip root _ hcur ⟨[], by simp [NT.half, NT.srcs]⟩ _ stack st (Or.inl rfl)
      refine ⟨k, st, by simp only [NT.pops, List.isEmpty_nil, if_true]; omega, rfl, fun g => ?_⟩
      rw [hpa, ← hhm, setAt_getAt root q _ hcur]
      exact e g
    · have hke : ks.isEmpty = false := by cases ks <;> simp_all
      have hpa : NT.pushAt q (.el tag tx ks) = q :: inlPaths q tx.segs.length := by
        simp [NT.pushAt, NT.kids, NT.tx, hke]
      obtain ⟨st1, hs1, e1⟩ := pop_step_nt cfg hE hs g2 root q (NT.half cfg.esc (.el tag tx ks)) tx hok.2.1 ks hcur
        (half_children cfg.esc tag tx ks) hok.2.2.2 (by omega) (inlPaths q tx.segs.length ++ stack) st
      obtain ⟨k2, st2, hk2, hs2, e2⟩ := popsNL cfg hE hs g2 ks hok.2.2.2 (by omega) (tx.inl cfg.esc)
        (NT.half cfg.esc (.el tag tx ks)) root q ⟨_, hcur⟩
        ((pushesRev (tx.inl cfg.esc) 0).map (q ++ ·) ++ (inlPaths q tx.segs.length ++ stack)) st1
      have hmid : ({ NT.half cfg.esc (.el tag tx ks) with children := tx.inl cfg.esc ++ ks.map (NT.mid cfg.esc) } : Node) =
          NT.mid cfg.esc (.el tag tx ks) := by simp [NT.half, NT.mid, nmids_eq_map]
      have hX := getAt_setAt_self hcur (NT.mid cfg.esc (.el tag tx ks))
      have hmore : ∃ more, (NT.mid cfg.esc (.el tag tx ks)).children = tx.inl cfg.esc ++ more :=
        ⟨ks.map (NT.mid cfg.esc), by simp [NT.mid, nmids_eq_map]⟩
      obtain ⟨k3, hk3, e3⟩ := hskip _ _ hX hmore _ (inlPaths q tx.segs.length ++ stack) st2 (Or.inr rfl)
      obtain ⟨k4, hk4, e4⟩ := hskip _ _ hX hmore _ stack st2 (Or.inl rfl)
      refine ⟨k4 + k3 + k2 + 1, st2, ?_, by rw [hs2, hs1], fun g => ?_⟩
      · simp only [NT.pops, hke, Bool.false_eq_true, if_false]; omega
      · rw [hpa, List.cons_append, show g + (k4 + k3 + k2 + 1) = ((g + k4 + k3) + k2) + 1 by omega, e1 _]
        rw [← hsegs] at e2
        rw [e2 _, hmid, e3 _, e4 _]
theorem popsNL (cfg : Inline.Cfg) (hE : EscOK cfg.esc) (hs : EscSup cfg.esc) (g2 : Nat) :
    (ts : List NT) → NT.oks cfg.esc ts → NT.sizeL ts + 1 ≤ g2 →
    ∀ (pre : List Node) (Xb root : Node) (p : Path), (∃ X0, getAt root p = some X0) →
    ∀ (stack : List Path) (st : St),
      ∃ k st', k ≤ NT.popsL cfg.esc ts ∧ st'.html = st.html ∧
        ∀ g, runLoop cfg g2 (g + k)
            (setAt root p { Xb with children := pre ++ ts.map (NT.half cfg.esc) })
            ((pushesN ts pre.length).map (p ++ ·) ++ stack) st =
          runLoop cfg g2 g (setAt root p { Xb with children := pre ++ ts.map (NT.mid cfg.esc) }) stack st'
  | [], _, _ => by
    intro pre Xb root p _ stack st
    exact ⟨0, st, by simp [NT.popsL], rfl, fun g => by simp [pushesN]⟩
  | t :: r, hok, hsz => by
    intro pre Xb root p hvalid stack st
    obtain ⟨X0, hX0⟩ := hvalid
    rw [noks_cons] at hok
    simp only [NT.sizeL] at hsz
    have hrec := popsNL cfg hE hs g2 r hok.2 (by omega)
    have hpre : pre ++ (t :: r).map (NT.half cfg.esc) = (pre ++ [NT.half cfg.esc t]) ++ r.map (NT.half cfg.esc) := by
      simp
    have hlen : (pre ++ [NT.half cfg.esc t]).length = pre.length + 1 := by simp
    have hT := popsN cfg hE hs g2 t hok.1 (by omega)
    obtain ⟨k1, st1, hk1, hs1, e1⟩ := hrec (pre ++ [NT.half cfg.esc t]) Xb root p ⟨X0, hX0⟩
      (t.pushAt (p ++ [pre.length]) ++ stack) st
    have hvalidA := getAt_setAt_self hX0
      { Xb with children := (pre ++ [NT.half cfg.esc t]) ++ r.map (NT.mid cfg.esc) }
    have hcurA : getAt (setAt root p
        { Xb with children := (pre ++ [NT.half cfg.esc t]) ++ r.map (NT.mid cfg.esc) })
        (p ++ [pre.length]) = some (NT.half cfg.esc t) := by
      rw [getAt_append' hvalidA]
      simp only [List.append_assoc, List.singleton_append, getAt, getElem?_at_length]
    obtain ⟨k2, st2, hk2, hs2, e2⟩ := hT _ (p ++ [pre.length]) stack st1 hcurA
    refine ⟨k2 + k1, st2, by simp only [NT.popsL]; omega, by rw [hs2, hs1], fun g => ?_⟩
    rw [hpre, show g + (k2 + k1) = (g + k2) + k1 by omega]
    have hpq : (pushesN (t :: r) pre.length).map (p ++ ·) ++ stack =
        (pushesN r (pre ++ [NT.half cfg.esc t]).length).map (p ++ ·) ++ (t.pushAt (p ++ [pre.length]) ++ stack) := by
      simp [pushesN, hlen, pushAt_map, List.append_assoc]
    rw [hpq, e1 _, e2 _]
    rw [setAt_child hvalidA pre.length (NT.half cfg.esc t) _
      (by simp only [List.append_assoc, List.singleton_append, getElem?_at_length]),
      setAt_setAt_self hX0]
    simp [List.append_assoc]
end

mutual
theorem npops_le_size (esc : List Char) : (t : NT) → t.pops esc ≤ 2 * t.size
  | .el _ tx ks => by
    have := npopsL_le_sizeL esc ks
    have hw := w1_le_wd esc tx
    simp only [NT.pops, NT.size]
    split <;> omega
theorem npopsL_le_sizeL (esc : List Char) : (ts : List NT) → NT.popsL esc ts ≤ 2 * NT.sizeL ts
  | [] => by simp [NT.popsL]
  | t :: r => by
    have h1 := npops_le_size esc t
    have h2 := npopsL_le_sizeL esc r
    simp only [NT.popsL, NT.sizeL]; omega
end

theorem wd_le_src (esc : List Char) (tx : Txt) (h : tx.ok esc) : tx.wd ≤ ((tx.src esc).getD []).length := by
  cases tx with
  | none => simp [Txt.wd, Txt.segs, flatten2]
  | empty => simp [Txt.wd, Txt.segs, flatten2]
  | mix t0 segs =>
    have h' : MixOK esc t0 segs := h
    have := stageF_length esc (flatten2 segs) h'.flat 0 0
    rw [stageF_raw] at this
    simp only [Txt.wd, Txt.segs, Txt.src, Option.getD_some, List.length_append]
    omega

mutual
theorem nsize_le_size (esc : List Char) : (t : NT) → t.ok esc → t.size ≤ Inline.size (t.src esc)
  | .el tag tx ks, h => by
    rw [nok_el] at h
    have := nsizeL_le_size esc ks h.2.2.2
    have h2 := wd_le_src esc tx h.2.1
    simp only [NT.size, NT.src, Inline.size]; omega
theorem nsizeL_le_size (esc : List Char) : (ts : List NT) → NT.oks esc ts → NT.sizeL ts ≤ Inline.sizeList (NT.srcs esc ts)
  | [], _ => by simp [NT.sizeL]
  | t :: r, h => by
    rw [noks_cons] at h
    have h1 := nsize_le_size esc t h.1
    have h2 := nsizeL_le_size esc r h.2
    simp only [NT.sizeL, NT.srcs, Inline.sizeList]; omega
end

/-- **`InlineProcessor.run`** on a `<div>` of such trees: every text is processed where it sits, the new inline
    elements stand before the block children, the HTML stash stays as it was -/
theorem run_nt (cfg : Inline.Cfg) (hE : EscOK cfg.esc) (hs : EscSup cfg.esc) (ts : List NT) (hok : NT.oks cfg.esc ts)
    (html : List Str) :
    ∃ st', st'.html = html ∧
      Inline.run cfg (divOf (ts.map (NT.src cfg.esc))) html = some (divOf (ts.map (NT.mid cfg.esc)), st') := by
  have hsz := nsizeL_le_size cfg.esc ts hok
  rw [nsrcs_eq_map] at hsz
  have hpops := npopsL_le_sizeL cfg.esc ts
  have hfuel : 2 * NT.sizeL ts + 3 ≤ runFuel (divOf (ts.map (NT.src cfg.esc))) := by
    simp only [runFuel, divOf, Inline.size]; omega
  obtain ⟨st1, hs1, e1⟩ := pop_step_nt cfg hE hs (runFuel (divOf (ts.map (NT.src cfg.esc))))
    (divOf (ts.map (NT.src cfg.esc))) [] (divOf (ts.map (NT.src cfg.esc))) .none trivial ts rfl
    (by simp [Txt.inl, Txt.segs, divOf]) hok
    (by have := nlength_le_sizeL ts; simp only [Txt.segs, List.length_nil]; omega) [] { html := html }
  obtain ⟨k2, st2, hk2, hs2, e2⟩ := popsNL cfg hE hs (runFuel (divOf (ts.map (NT.src cfg.esc)))) ts hok (by omega) []
    (divOf (ts.map (NT.src cfg.esc))) (divOf (ts.map (NT.src cfg.esc))) [] ⟨_, rfl⟩ [] st1
  refine ⟨st2, by rw [hs2, hs1], ?_⟩
  obtain ⟨g, hg⟩ : ∃ g, runFuel (divOf (ts.map (NT.src cfg.esc))) = ((g + 1) + k2) + 1 :=
    ⟨runFuel (divOf (ts.map (NT.src cfg.esc))) - k2 - 2, by omega⟩
  have e1' : runLoop cfg (runFuel (divOf (ts.map (NT.src cfg.esc)))) (g + 1 + k2 + 1)
      (divOf (ts.map (NT.src cfg.esc))) [[]] { html := html } =
      runLoop cfg (runFuel (divOf (ts.map (NT.src cfg.esc)))) (g + 1 + k2)
        (divOf (ts.map (NT.half cfg.esc))) (pushesN ts 0) st1 := by
    simpa [setAt, divOf, Txt.inl, Txt.segs, pushesRev] using e1 (g + 1 + k2)
  have e2' : runLoop cfg (runFuel (divOf (ts.map (NT.src cfg.esc)))) (g + 1 + k2)
        (divOf (ts.map (NT.half cfg.esc))) (pushesN ts 0) st1 =
      runLoop cfg (runFuel (divOf (ts.map (NT.src cfg.esc)))) (g + 1) (divOf (ts.map (NT.mid cfg.esc))) [] st2 := by
    simpa [setAt, divOf] using e2 (g + 1)
  simp only [Inline.run]
  conv => lhs; arg 3; rw [hg]
  rw [e1', e2']
  simp [runLoop]

end ntInline

/-! ### prettify, unescape, serializer -/

/-- the text after `prettify`: a line feed when there is no text (or an empty one) but there are children -/
def Txt.prettyText (esc : List Char) (tx : Txt) (noKids : Bool) : Option Str :=
  match tx with
  | .none => if noKids then Option.none else some ['\n']
  | .empty => if noKids then some [] else some ['\n']
  | .mix t0 _ => optStr (coded esc t0)

def Txt.finText (tx : Txt) (noKids : Bool) : Option Str :=
  match tx with
  | .none => if noKids then Option.none else some ['\n']
  | .empty => if noKids then some [] else some ['\n']
  | .mix t0 _ => optStr t0

def Txt.finInl (tx : Txt) : List Node := tx.segs.map fin2

/-- what is written between the start tag and the block children -/
def Txt.out (tx : Txt) (noKids : Bool) : Str :=
  match tx with
  | .mix t0 segs => Ser.escCdata t0 ++ out2 segs
  | _ => if noKids then [] else ['\n']

mutual
def NT.pretty (esc : List Char) : NT → Node
  | .el tag tx ks =>
    { tag := .name tag, text := tx.prettyText esc ks.isEmpty, children := tx.inl esc ++ NT.pretties esc ks,
      tail := some ['\n'] }
def NT.pretties (esc : List Char) : List NT → List Node
  | [] => []
  | t :: r => t.pretty esc :: NT.pretties esc r
end

mutual
def NT.fin : NT → Node
  | .el tag tx ks =>
    { tag := .name tag, text := tx.finText ks.isEmpty, children := tx.finInl ++ NT.fins ks, tail := some ['\n'] }
def NT.fins : List NT → List Node
  | [] => []
  | t :: r => t.fin :: NT.fins r
end

mutual
/-- serialised (xhtml), without the line feed after it -/
def NT.out : NT → Str
  | .el tag tx ks =>
    if tag = ['h', 'r'] then ['<', 'h', 'r', ' ', '/', '>']
    else '<' :: tag ++ ['>'] ++ tx.out ks.isEmpty ++ NT.outsNl ks ++ ('<' :: '/' :: tag ++ ['>'])
/-- the children, each followed by a line feed -/
def NT.outsNl : List NT → Str
  | [] => []
  | t :: r => t.out ++ ['\n'] ++ NT.outsNl r
end

def NT.outs : List NT → List Str
  | [] => []
  | t :: r => t.out :: NT.outs r

section ntStages

theorem nt_tag_mem {esc : List Char} {tag : Str} {tx : Txt} {ks : List NT} (h : (NT.el tag tx ks).ok esc) :
    tag ∈ gtTags := (nok_el.1 h).1

theorem mid_blockLevel_nt (esc : List Char) (t : NT) (h : t.ok esc) :
    TreeProc.isBlockLevel TreeProc.defaultBlockLevel (t.mid esc).tag = true := by
  cases t with
  | el tag tx ks => exact (gtTagFacts _ (nt_tag_mem h)).1

theorem prettifyKids_inl_append (esc : List Char) (segs : List Seg2) (rest : List Node) :
    TreeProc.prettifyKids TreeProc.defaultBlockLevel (segs.map (tailed2 esc) ++ rest) =
      segs.map (tailed2 esc) ++ TreeProc.prettifyKids TreeProc.defaultBlockLevel rest := by
  induction segs with
  | nil => rfl
  | cons s r ih =>
    simp only [List.map_cons, List.cons_append, TreeProc.prettifyKids, bl_tailed2 esc s, Bool.false_eq_true,
      if_false, ih]

/-- the coded form of a text that starts with a visible character is not blank -/
theorem coded_not_blank' {esc : List Char} {x : Str} (hne : x ≠ []) (hv : startsVisible x = true) :
    isBlank (coded esc x) = false := by
  cases x with
  | nil => exact absurd rfl hne
  | cons c r =>
    have hc : isSpace c = false := by simpa [startsVisible] using hv
    by_cases hm : c ∈ esc
    · simp [coded, hm, escCode, isBlank, show isSpace Inline.STX = false by decide]
    · simp [coded, hm, isBlank, hc]

theorem blankOrNone_optCoded {esc : List Char} {x : Str} (hne : x ≠ []) (hv : startsVisible x = true) :
    TreeProc.blankOrNone (optStr (coded esc x)) = false := by
  have hb := coded_not_blank' (esc := esc) hne hv
  obtain ⟨a, b, hab⟩ : ∃ a b, coded esc x = a :: b := by
    cases hc : coded esc x with
    | nil => exact absurd hc (coded_ne_nil hne)
    | cons a b => exact ⟨a, b, rfl⟩
  rw [hab] at hb ⊢
  simp [TreeProc.blankOrNone, Node.truthy, hb, optStr]

/-- `_prettifyETree` on an element of the family -/
theorem prettifyETree_node (tag : Str) (hm : tag ∈ gtTags) (text : Option Str) (kids : List Node) :
    TreeProc.prettifyETree TreeProc.defaultBlockLevel { tag := .name tag, text := text, children := kids } =
      { tag := .name tag,
        text := if TreeProc.blankOrNone text &&
          (match kids with | c :: _ => TreeProc.isBlockLevel TreeProc.defaultBlockLevel c.tag | [] => false)
          then some ['\n'] else text,
        children := TreeProc.prettifyKids TreeProc.defaultBlockLevel kids, tail := some ['\n'] } := by
  have hf := gtTagFacts _ hm
  have h1 : (Tag.name tag == Tag.name "code".toList) = false := by simpa using hf.2.1
  have h2 : (Tag.name tag == Tag.name "pre".toList) = false := by simpa using hf.2.2.1
  have h3 : TreeProc.blankOrNone (none : Option Str) = true := rfl
  cases kids with
  | nil =>
    cases hA : TreeProc.blankOrNone text <;>
      simp only [TreeProc.prettifyETree, hf.1, h1, h2, h3, hA, Bool.not_false, Bool.and_self,
        Bool.and_false, if_true, Bool.false_eq_true, if_false]
  | cons c r =>
    cases hA : TreeProc.blankOrNone text <;> cases hB : TreeProc.isBlockLevel TreeProc.defaultBlockLevel c.tag <;>
      simp only [TreeProc.prettifyETree, hf.1, h1, h2, h3, hA, hB, Bool.not_false, Bool.and_self, Bool.and_true,
        Bool.and_false, if_true, Bool.false_eq_true, if_false]

mutual
theorem prettifyETree_nt (esc : List Char) : (t : NT) → t.ok esc →
    TreeProc.prettifyETree TreeProc.defaultBlockLevel (t.mid esc) = t.pretty esc
  | .el tag tx ks, h => by
    have hm := nt_tag_mem h
    rw [nok_el] at h
    have hk := prettifyKids_nt esc ks h.2.2.2
    rw [NT.mid, NT.pretty, prettifyETree_node tag hm, Txt.inl, prettifyKids_inl_append, hk]
    congr 1
    cases tx with
    | none =>
      cases ks with
      | nil => simp [Txt.midText, Txt.prettyText, Txt.segs, NT.mids]
      | cons k r =>
        have hkb := mid_blockLevel_nt esc k (noks_cons.1 h.2.2.2).1
        simp [Txt.midText, Txt.prettyText, Txt.segs, NT.mids, hkb, TreeProc.blankOrNone, Node.truthy]
    | empty =>
      cases ks with
      | nil => simp [Txt.midText, Txt.prettyText, Txt.segs, NT.mids]
      | cons k r =>
        have hkb := mid_blockLevel_nt esc k (noks_cons.1 h.2.2.2).1
        simp [Txt.midText, Txt.prettyText, Txt.segs, NT.mids, hkb, TreeProc.blankOrNone, Node.truthy]
    | mix t0 segs =>
      have hx : MixOK esc t0 segs := h.2.1
      simp only [Txt.midText, Txt.prettyText, Txt.segs]
      cases segs with
      | cons s r => simp [bl_tailed2 esc s]
      | nil =>
        have hne : t0 ≠ [] := by
          rcases hx.ne with h' | h'
          · exact h'
          · exact absurd rfl h'
        simp [blankOrNone_optCoded hne (hx.first hne)]
theorem prettifyKids_nt (esc : List Char) : (ts : List NT) → NT.oks esc ts →
    TreeProc.prettifyKids TreeProc.defaultBlockLevel (NT.mids esc ts) = NT.pretties esc ts
  | [], _ => rfl
  | t :: r, h => by
    rw [noks_cons] at h
    simp only [NT.mids, NT.pretties, TreeProc.prettifyKids, mid_blockLevel_nt esc t h.1, if_true,
      prettifyETree_nt esc t h.1, prettifyKids_nt esc r h.2]
end

theorem brRule_em (st : Bool) (n : Node) (hn : n.tag = (emEl st []).tag) : TreeProc.brRule n = n := by
  have : TreeProc.tagIs n "br" = false := by simp only [TreeProc.tagIs, hn]; cases st <;> decide
  unfold TreeProc.brRule; rw [this]; simp

theorem preRule_em (st : Bool) (n : Node) (hn : n.tag = (emEl st []).tag) : TreeProc.preRule n = n := by
  have : TreeProc.tagIs n "pre" = false := by simp only [TreeProc.tagIs, hn]; cases st <;> decide
  unfold TreeProc.preRule; rw [this]; simp

theorem mapTree_em_gen (f : Node → Node) (st : Bool) (hf : ∀ n : Node, n.tag = (emEl st []).tag → f n = n)
    (text : Option Str) (kids : List Node) (tail : Option Str) (hk : TreeProc.mapKids f kids = kids) :
    TreeProc.mapTree f ⟨(emEl st []).tag, [], text, false, kids, tail, false⟩ =
      ⟨(emEl st []).tag, [], text, false, kids, tail, false⟩ := by
  rw [TreeProc.mapTree, hk]; exact hf _ rfl

theorem mapTree_tailed_sep (esc : List Char) (s : SpanSeg) :
    TreeProc.mapTree TreeProc.brRule (tailed esc s) = tailed esc s ∧
    TreeProc.mapTree TreeProc.preRule (tailed esc s) = tailed esc s := by
  constructor <;>
    simp [tailed, codeSpan, Node.el, TreeProc.mapTree, TreeProc.mapKids, TreeProc.brRule,
      TreeProc.preRule, TreeProc.tagIs]

theorem mapKids_id_of (f : Node → Node) (L : List Node) (h : ∀ c ∈ L, TreeProc.mapTree f c = c) :
    TreeProc.mapKids f L = L := by
  rw [mapKids_eq_map]
  conv => rhs; rw [← List.map_id L]
  exact List.map_congr_left (fun c hc => by simpa using h c hc)

theorem mapTree_tailed1_sep (esc : List Char) (s : Seg1) :
    TreeProc.mapTree TreeProc.brRule (tailed1 esc s) = tailed1 esc s ∧
    TreeProc.mapTree TreeProc.preRule (tailed1 esc s) = tailed1 esc s := by
  obtain ⟨k, t⟩ := s
  cases k with
  | code n b => exact mapTree_tailed_sep esc ⟨n, b, t⟩
  | em st d β =>
    have e : tailed1 esc ⟨.em st d β, t⟩ =
        ⟨(emEl st []).tag, [], optStr (coded esc β.u0), false, β.spans.map (tailed esc), optStr (coded esc t), false⟩ := rfl
    rw [e]
    exact ⟨mapTree_em_gen _ st (brRule_em st) _ _ _ (mapKids_id_of _ _ (fun c hc => by
        obtain ⟨x, _, rfl⟩ := List.mem_map.1 hc; exact (mapTree_tailed_sep esc x).1)),
      mapTree_em_gen _ st (preRule_em st) _ _ _ (mapKids_id_of _ _ (fun c hc => by
        obtain ⟨x, _, rfl⟩ := List.mem_map.1 hc; exact (mapTree_tailed_sep esc x).2))⟩

theorem mapTree_tailedM (esc : List Char) (s : Seg2) :
    TreeProc.mapTree TreeProc.brRule (tailed2 esc s) = tailed2 esc s ∧
    TreeProc.mapTree TreeProc.preRule (tailed2 esc s) = tailed2 esc s := by
  obtain ⟨k, t⟩ := s
  cases k with
  | code n b => exact mapTree_tailed_sep esc ⟨n, b, t⟩
  | em st d β =>
    have e : tailed2 esc ⟨.em st d β, t⟩ =
        ⟨(emEl st []).tag, [], optStr (coded esc β.u0), false, β.segs.map (tailed1 esc), optStr (coded esc t), false⟩ := rfl
    rw [e]
    exact ⟨mapTree_em_gen _ st (brRule_em st) _ _ _ (mapKids_id_of _ _ (fun c hc => by
        obtain ⟨x, _, rfl⟩ := List.mem_map.1 hc; exact (mapTree_tailed1_sep esc x).1)),
      mapTree_em_gen _ st (preRule_em st) _ _ _ (mapKids_id_of _ _ (fun c hc => by
        obtain ⟨x, _, rfl⟩ := List.mem_map.1 hc; exact (mapTree_tailed1_sep esc x).2))⟩

theorem mapKids_append (f : Node → Node) (a b : List Node) :
    TreeProc.mapKids f (a ++ b) = TreeProc.mapKids f a ++ TreeProc.mapKids f b := by
  simp [mapKids_eq_map]

theorem mapKids_inl (esc : List Char) (tx : Txt) :
    TreeProc.mapKids TreeProc.brRule (tx.inl esc) = tx.inl esc ∧
    TreeProc.mapKids TreeProc.preRule (tx.inl esc) = tx.inl esc := by
  simp only [Txt.inl, mapKids_eq_map, List.map_map]
  constructor
  · rw [List.map_congr_left (g := tailed2 esc)]; intro s _; exact (mapTree_tailedM esc s).1
  · rw [List.map_congr_left (g := tailed2 esc)]; intro s _; exact (mapTree_tailedM esc s).2

mutual
theorem mapTree_br_nt (esc : List Char) : (t : NT) → t.ok esc →
    TreeProc.mapTree TreeProc.brRule (t.pretty esc) = t.pretty esc
  | .el tag tx ks, h => by
    have hf := gtTagFacts _ (nt_tag_mem h)
    rw [nok_el] at h
    rw [NT.pretty, mapTree_node, mapKids_append, (mapKids_inl esc tx).1, mapKids_br_nt esc ks h.2.2.2]
    exact brRule_tag _ tag rfl hf.2.2.2.1
theorem mapKids_br_nt (esc : List Char) : (ts : List NT) → NT.oks esc ts →
    TreeProc.mapKids TreeProc.brRule (NT.pretties esc ts) = NT.pretties esc ts
  | [], _ => rfl
  | t :: r, h => by
    rw [noks_cons] at h
    rw [NT.pretties, TreeProc.mapKids, mapTree_br_nt esc t h.1, mapKids_br_nt esc r h.2]
end

mutual
theorem mapTree_pre_nt (esc : List Char) : (t : NT) → t.ok esc →
    TreeProc.mapTree TreeProc.preRule (t.pretty esc) = t.pretty esc
  | .el tag tx ks, h => by
    have hf := gtTagFacts _ (nt_tag_mem h)
    rw [nok_el] at h
    rw [NT.pretty, mapTree_node, mapKids_append, (mapKids_inl esc tx).2, mapKids_pre_nt esc ks h.2.2.2]
    exact preRule_tag _ tag rfl hf.2.2.1
theorem mapKids_pre_nt (esc : List Char) : (ts : List NT) → NT.oks esc ts →
    TreeProc.mapKids TreeProc.preRule (NT.pretties esc ts) = NT.pretties esc ts
  | [], _ => rfl
  | t :: r, h => by
    rw [noks_cons] at h
    rw [NT.pretties, TreeProc.mapKids, mapTree_pre_nt esc t h.1, mapKids_pre_nt esc r h.2]
end

theorem prettify_nt (esc : List Char) (ts : List NT) (hne : ts ≠ []) (hok : NT.oks esc ts) :
    TreeProc.prettify (divOf (NT.mids esc ts)) = prettyDiv (NT.pretties esc ts) := by
  have h1 : TreeProc.isBlockLevel TreeProc.defaultBlockLevel (.name "div".toList) = true := by decide
  have h3 : (Tag.name "div".toList == Tag.name "code".toList) = false := by decide
  have h4 : (Tag.name "div".toList == Tag.name "pre".toList) = false := by decide
  have h7 : (Tag.name "div".toList == Tag.name "br".toList) = false := by decide
  obtain ⟨t, r, rfl⟩ : ∃ t r, ts = t :: r := by
    cases ts with
    | nil => exact absurd rfl hne
    | cons t r => exact ⟨t, r, rfl⟩
  have hb := mid_blockLevel_nt esc t (noks_cons.1 hok).1
  have hk := prettifyKids_nt esc (t :: r) hok
  have hbr := mapKids_br_nt esc (t :: r) hok
  have hpre := mapKids_pre_nt esc (t :: r) hok
  simp only [NT.mids] at hk
  simp only [TreeProc.prettify, divOf, NT.mids, TreeProc.prettifyETree, h1, h3, h4, hb, TreeProc.blankOrNone,
    Node.truthy, Bool.not_false, Bool.true_or, Bool.and_self, if_true, hk, TreeProc.mapTree, hbr, hpre,
    TreeProc.brRule, TreeProc.preRule, TreeProc.tagIs, h7, Bool.false_eq_true, if_false, prettyDiv]

theorem unescapeKids_append (a b a' b' : List Node) (ha : TreeProc.unescapeKids a = some a')
    (hb : TreeProc.unescapeKids b = some b') : TreeProc.unescapeKids (a ++ b) = some (a' ++ b') := by
  induction a generalizing a' with
  | nil => simp only [TreeProc.unescapeKids, Option.some.injEq] at ha; subst ha; simpa using hb
  | cons c r ih =>
    simp only [TreeProc.unescapeKids] at ha
    cases hc : TreeProc.unescapeTree c with
    | none => rw [hc] at ha; simp at ha
    | some c' =>
      cases hr : TreeProc.unescapeKids r with
      | none => rw [hc, hr] at ha; simp at ha
      | some r' =>
        rw [hc, hr] at ha
        simp only [Option.some.injEq] at ha
        subst ha
        simp only [List.cons_append, TreeProc.unescapeKids, hc, ih r' hr]

/-- `unescape` on an element of the family whose tail is a line feed -/
theorem unescapeTree_node (tag : Str) (hcode : tag ≠ ['c', 'o', 'd', 'e']) (text text' : Option Str)
    (kids kids' : List Node)
    (ht : (if Node.truthy text = true then (TreeProc.unescapeText 0 (text.getD [])).map some else some text) =
      some text')
    (hk : TreeProc.unescapeKids kids = some kids') :
    TreeProc.unescapeTree { tag := .name tag, text := text, children := kids, tail := some ['\n'] } =
      some { tag := .name tag, text := text', children := kids', tail := some ['\n'] } := by
  have hnl : TreeProc.unescapeText 0 ['\n'] = some ['\n'] := by decide
  have hc : (Tag.name tag == Tag.name "code".toList) = false := by simpa using hcode
  have t1 : Node.truthy (some ['\n']) = true := rfl
  simp only [TreeProc.unescapeTree, hc, Bool.not_false, Bool.and_true, ht, hk, TreeProc.unescAttrs, t1, if_true,
    Option.getD_some, hnl, Option.map_some]
  by_cases htt : Node.truthy text = true <;> simp [htt]

mutual
theorem unescapeTree_nt (esc : List Char) : (t : NT) → t.ok esc →
    TreeProc.unescapeTree (t.pretty esc) = some t.fin
  | .el tag tx ks, h => by
    have hf := gtTagFacts _ (nt_tag_mem h)
    rw [nok_el] at h
    have hk := unescapeKids_nt esc ks h.2.2.2
    rw [NT.pretty, NT.fin]
    have hnl : TreeProc.unescapeText 0 ['\n'] = some ['\n'] := by decide
    cases tx with
    | none =>
      refine unescapeTree_node tag hf.2.1 _ _ _ _ ?_
        (unescapeKids_append _ _ _ _ (by simp [Txt.inl, Txt.finInl, Txt.segs, TreeProc.unescapeKids]) hk)
      cases ks <;> simp [Txt.prettyText, Txt.finText, Node.truthy, hnl]
    | empty =>
      refine unescapeTree_node tag hf.2.1 _ _ _ _ ?_
        (unescapeKids_append _ _ _ _ (by simp [Txt.inl, Txt.finInl, Txt.segs, TreeProc.unescapeKids]) hk)
      cases ks <;> simp [Txt.prettyText, Txt.finText, Node.truthy, hnl]
    | mix t0 segs =>
      have hx : MixOK esc t0 segs := h.2.1
      refine unescapeTree_node tag hf.2.1 _ _ _ _
        (unescOpt_coded esc t0 (fun hm => (hx.plain _ (Or.inl hm)).2.2 rfl))
        (unescapeKids_append _ _ _ _ (unescapeKids_tailed2 esc segs hx.nostx) hk)
theorem unescapeKids_nt (esc : List Char) : (ts : List NT) → NT.oks esc ts →
    TreeProc.unescapeKids (NT.pretties esc ts) = some (NT.fins ts)
  | [], _ => rfl
  | t :: r, h => by
    rw [noks_cons] at h
    simp only [NT.pretties, NT.fins, TreeProc.unescapeKids, unescapeTree_nt esc t h.1, unescapeKids_nt esc r h.2]
end

theorem unescapeTree_div_nt (esc : List Char) (ts : List NT) (hok : NT.oks esc ts) :
    TreeProc.unescapeTree (prettyDiv (NT.pretties esc ts)) = some (prettyDiv (NT.fins ts)) := by
  have hnl : TreeProc.unescapeText 0 ['\n'] = some ['\n'] := by decide
  simp [prettyDiv, TreeProc.unescapeTree, unescapeKids_nt esc ts hok, TreeProc.unescAttrs, hnl, Node.truthy]

theorem nout_el (tag : Str) (tx : Txt) (ks : List NT) :
    (NT.el tag tx ks).out =
      if tag = ['h', 'r'] then ['<', 'h', 'r', ' ', '/', '>']
      else '<' :: tag ++ ['>'] ++ tx.out ks.isEmpty ++ NT.outsNl ks ++ ('<' :: '/' :: tag ++ ['>']) := by
  rw [NT.out]

theorem noutsNl_cons (t : NT) (r : List NT) : NT.outsNl (t :: r) = t.out ++ ['\n'] ++ NT.outsNl r := by
  rw [NT.outsNl]

theorem serializeList_append (fmt : Ser.Fmt) (a b : List Node) :
    Ser.serializeList fmt (a ++ b) = Ser.serializeList fmt a ++ Ser.serializeList fmt b := by
  induction a with
  | nil => simp [Ser.serializeList]
  | cons c r ih => simp [serializeList_cons, ih, List.append_assoc]

mutual
theorem serialize_nt (esc : List Char) : (t : NT) → t.ok esc → Ser.serialize .xhtml t.fin = t.out ++ ['\n']
  | .el tag tx ks, h => by
    have hm := nt_tag_mem h
    rw [nok_el] at h
    have hk := serializeList_nt esc ks h.2.2.2
    rw [NT.fin, nout_el]
    by_cases hhr : tag = ['h', 'r']
    · subst hhr
      obtain ⟨htx, hks⟩ := h.2.2.1 rfl
      subst htx; subst hks
      simp only [Txt.finText, Txt.finInl, Txt.segs, NT.fins, if_true, List.isEmpty_nil, List.map_nil, List.append_nil]
      exact serialize_hr
    · rw [serialize_node tag hm hhr, serializeList_append, hk]
      simp only [hhr, if_false]
      have h5 : Ser.escCdata ['\n'] = ['\n'] := by decide
      cases tx with
      | none =>
        cases ks <;> simp [Txt.finText, Txt.finInl, Txt.segs, Txt.out, Node.truthy, h5, Ser.serializeList,
          List.append_assoc]
      | empty =>
        cases ks <;> simp [Txt.finText, Txt.finInl, Txt.segs, Txt.out, Node.truthy, h5, Ser.serializeList,
          List.append_assoc]
      | mix t0 segs =>
        have hx : MixOK esc t0 segs := h.2.1
        have hsl := serializeList_fin2 segs
        simp only [Txt.finText, Txt.finInl, Txt.segs, Txt.out, hsl]
        cases t0 with
        | nil =>
          have e0 : Ser.escCdata [] = [] := by decide
          simp [optStr, Node.truthy, e0, List.append_assoc]
        | cons a b => simp [optStr, Node.truthy, List.append_assoc]
theorem serializeList_nt (esc : List Char) : (ts : List NT) → NT.oks esc ts →
    Ser.serializeList .xhtml (NT.fins ts) = NT.outsNl ts
  | [], _ => rfl
  | t :: r, h => by
    rw [noks_cons] at h
    rw [NT.fins, noutsNl_cons, Ser.serializeList, serialize_nt esc t h.1, serializeList_nt esc r h.2]
end

theorem nouts_cons (t : NT) (r : List NT) : NT.outs (t :: r) = t.out :: NT.outs r := rfl

theorem noutsNl_eq (ts : List NT) : NT.outsNl ts = (NT.outs ts).flatMap (· ++ ['\n']) := by
  induction ts with
  | nil => rfl
  | cons t r ih => rw [noutsNl_cons, nouts_cons, List.flatMap_cons, ih]

theorem nouts_ne_nil (ts : List NT) (h : ts ≠ []) : NT.outs ts ≠ [] := by
  cases ts with
  | nil => exact absurd rfl h
  | cons t r => rw [nouts_cons]; simp

theorem nouts_eq_map (ts : List NT) : NT.outs ts = ts.map NT.out := by
  induction ts with
  | nil => rfl
  | cons t r ih => rw [nouts_cons, ih]; rfl

theorem serialize_div_nt (esc : List Char) (ts : List NT) (hne : ts ≠ []) (hok : NT.oks esc ts) :
    Ser.serialize .xhtml (prettyDiv (NT.fins ts)) =
      "<div>".toList ++ ('\n' :: join ['\n'] (NT.outs ts) ++ ['\n']) ++ "</div>\n".toList := by
  have h1 : Ser.isEmptyTag "div".toList = false := by decide
  have h3 : Ser.isRawTextTag "div".toList = false := by decide
  have h5 : Ser.escCdata ['\n'] = ['\n'] := by decide
  have hk := serializeList_nt esc ts hok
  rw [noutsNl_eq, flatMap_nl _ (nouts_ne_nil ts hne)] at hk
  simp only [prettyDiv, Ser.serialize, Ser.element, Ser.sortAttrs, List.foldr_nil, Ser.writeAttrs, h1, h3, h5,
    Node.truthy, Option.getD_some, Bool.false_eq_true, if_false, if_true, List.append_nil, hk, Bool.and_false]
  simp [List.append_assoc]

theorem stx_not_mem_txtOut {esc : List Char} (tx : Txt) (h : tx.ok esc) (nk : Bool) : Post.STX ∉ tx.out nk := by
  cases tx with
  | none => simp only [Txt.out]; split <;> decide
  | empty => simp only [Txt.out]; split <;> decide
  | mix t0 segs =>
    have hx : MixOK esc t0 segs := h
    simp only [Txt.out]
    intro hm
    rcases List.mem_append.1 hm with hm | hm
    · exact stx_not_mem_escCdata _ (fun hm' => (hx.plain _ (Or.inl hm')).2.2 rfl) hm
    · exact stx_not_mem_out2 esc segs hx.hsegs hx.clean
        (fun s hs hm' => (hx.plain _ (Or.inr ⟨s, hs, hm'⟩)).2.2 rfl) hm

mutual
theorem out_facts_nt (esc : List Char) : (t : NT) → t.ok esc →
    Post.STX ∉ t.out ∧ t.out.head? = some '<' ∧ t.out.getLast? = some '>'
  | .el tag tx ks, h => by
    have hf := gtTagFacts _ (nt_tag_mem h)
    rw [nok_el] at h
    have hk := noutsNl_stx esc ks h.2.2.2
    rw [nout_el]
    by_cases hhr : tag = ['h', 'r']
    · simp only [hhr, if_true]; exact ⟨by decide, rfl, rfl⟩
    · simp only [hhr, if_false]
      refine ⟨?_, rfl, ?_⟩
      · intro hm
        have hmid := stx_not_mem_txtOut tx h.2.1 ks.isEmpty
        have d1 : Post.STX ≠ '<' := by decide
        have d2 : Post.STX ≠ '>' := by decide
        have d3 : Post.STX ≠ '/' := by decide
        have h7 := hf.2.2.2.2.2.2
        simp only [List.mem_append, List.mem_cons] at hm
        rcases hm with (((h' | h' | h') | h') | h') | (h' | h' | h' | h') <;> simp_all
      · have : ('<' :: tag ++ ['>'] ++ tx.out ks.isEmpty ++ NT.outsNl ks ++ ('<' :: '/' :: tag ++ ['>'])) =
            ('<' :: tag ++ ['>'] ++ tx.out ks.isEmpty ++ NT.outsNl ks ++ ('<' :: '/' :: tag)) ++ ['>'] := by simp
        rw [this, List.getLast?_append]; rfl
theorem noutsNl_stx (esc : List Char) : (ts : List NT) → NT.oks esc ts → Post.STX ∉ NT.outsNl ts
  | [], _ => by simp [NT.outsNl]
  | t :: r, h => by
    rw [noks_cons] at h
    rw [noutsNl_cons]
    intro hm
    simp only [List.mem_append, List.mem_singleton] at hm
    rcases hm with (hm | hm) | hm
    · exact (out_facts_nt esc t h.1).1 hm
    · exact absurd hm (by decide)
    · exact noutsNl_stx esc r h.2 hm
end

theorem nouts_facts (esc : List Char) (ts : List NT) (hok : NT.oks esc ts) :
    ∀ o ∈ NT.outs ts, Post.STX ∉ o ∧ o.head? = some '<' ∧ o.getLast? = some '>' := by
  induction ts with
  | nil => intro o ho; cases ho
  | cons t r ih =>
    rw [noks_cons] at hok
    intro o ho
    rw [nouts_cons] at ho
    rcases List.mem_cons.1 ho with rfl | ho
    · exact out_facts_nt esc t hok.1
    · exact ih hok.2 o ho

/-- **the stages after the block parser** on a `<div>` of element trees of the family -/
theorem render_nt (cfg : Pipeline.Cfg) (hE : EscOK cfg.esc) (hs : EscSup cfg.esc) (hbl : cfg.blockLevel = TreeProc.defaultBlockLevel)
    (hfmt : cfg.fmt = .xhtml) (refs : List (Str × Str × Option Str)) (ts : List NT) (hne : ts ≠ [])
    (hok : NT.oks cfg.esc ts) :
    Probe.render cfg refs (divOf (ts.map (NT.src cfg.esc))) = .ok (join ['\n'] (NT.outs ts)) := by
  obtain ⟨st', hst, h1⟩ := run_nt { esc := cfg.esc, refs := refs } hE hs ts hok []
  have h2 := prettify_nt cfg.esc ts hne hok
  have h3 := unescapeTree_div_nt cfg.esc ts hok
  have h4 := serialize_div_nt cfg.esc ts hne hok
  obtain ⟨j1, j2, j3⟩ := join_facts (NT.outs ts) (nouts_ne_nil ts hne) (nouts_facts cfg.esc ts hok)
  have h5 := finish_wrapped cfg.blockLevel (join ['\n'] (NT.outs ts)) j1
    (fun c hc => by rw [j2] at hc; cases hc; decide) (fun c hc => by rw [j3] at hc; cases hc; decide)
  rw [← nmids_eq_map] at h1
  simp only [Probe.render, h1, hbl, h2, h3, hfmt, h4, hst]
  rw [hbl] at h5
  simp only [h5]

end ntStages


end MdVerif.DocNest2
