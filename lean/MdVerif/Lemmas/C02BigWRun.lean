/-
Lemmas for `Props/C02Big.lean`, section 9 (wikilinks): the two loops of `InlineX.runX` over ANY pattern table — the
wikilink pattern included — terminate on a tree in whose texts no `[` is followed by a blank (`DeepP OkW`) and which holds
no inline placeholder: the contract `VisitOKX` of `Lemmas/C02BigNRun.lean` for the invariant "`SOK` and the class `OkW`".
Core Lean only.
-/
import MdVerif.Lemmas.C02BigWHI

namespace MdVerif.InlineN
open MdVerif.Inline
open Py
open NoCtl hiding STX ETX
open InlineX

theorem handleInlineTopX_specW (xc : XCfg) {data : Str} {x : XSt} {d : Str} {x' : XSt}
    (h : handleInlineTopX xc data x = some (d, x')) (hs : SOK x.st.stash) (hd : IdsLt x.st.stash.length data)
    (ho : OkW data) (hp : StW x) :
    SOK x'.st.stash ∧ IdsLt x'.st.stash.length d ∧ x.st.stash <+: x'.st.stash ∧ nuS x'.st d ≤ nuS x.st data :=
  handleInlineX_specW xc _ _ _ _ _ _ h hs hd ho hp

/-- the text half of a visit answers -/
theorem textStepX_someW (xc : XCfg) (hc : 0 < xc.table.length) (child : Node) (x : XSt)
    (hs : SOK x.st.stash) (ht : IdsLt x.st.stash.length (child.text.getD [])) (ho : OkW (child.text.getD [])) (hp : StW x) :
    ∃ r, textStepX xc child x = some r := by
  unfold textStepX
  split
  · have htot := handleInlineTopX_totalW xc hc (child.text.getD []) x ho hp
    cases hh : handleInlineTopX xc (child.text.getD []) x with
    | none => rw [hh] at htot; cases htot
    | some p =>
      obtain ⟨data, x1⟩ := p
      obtain ⟨a1, _, _, _⟩ := handleInlineTopX_specW xc hh hs ht ho hp
      obtain ⟨res, p', hp⟩ := ppTop_some x1.st a1 data false { child with text := none, textAtomic := false } true
      simp only [hp]
      exact ⟨_, rfl⟩
  · exact ⟨_, rfl⟩

/-- the tail half of a visit answers -/
theorem tailStepX_someW (xc : XCfg) (hc : 0 < xc.table.length) (c1 : Node) (x1 : XSt)
    (hs : SOK x1.st.stash) (ht : IdsLt x1.st.stash.length (c1.tail.getD [])) (ho : OkW (c1.tail.getD [])) (hp : StW x1) :
    ∃ r, tailStepX xc c1 x1 = some r := by
  unfold tailStepX
  split
  · simp only
    by_cases hat : c1.tailAtomic = true
    · simp only [hat, if_true]
      obtain ⟨res, p', hp⟩ := ppTop_some x1.st hs (c1.tail.getD []) true (mkEl "d") false
      simp only [hp]
      exact ⟨_, rfl⟩
    · simp only [hat]
      have htot := handleInlineTopX_totalW xc hc (c1.tail.getD []) x1 ho hp
      cases hh : handleInlineTopX xc (c1.tail.getD []) x1 with
      | none => rw [hh] at htot; cases htot
      | some p =>
        obtain ⟨data, x2⟩ := p
        obtain ⟨a1, _, _, _⟩ := handleInlineTopX_specW xc hh hs ht ho hp
        obtain ⟨res, p', hp⟩ := ppTop_some x2.st a1 data false (mkEl "d") false
        simp only [Bool.false_eq_true, if_false, hp]
        exact ⟨_, rfl⟩
  · exact ⟨_, rfl⟩

/-- the text half of a visit -/
theorem textStepX_accW (xc : XCfg) {child : Node} {x : XSt} {c1 : Node} {lst : List Node} {x1 : XSt}
    (h : textStepX xc child x = some (c1, lst, x1)) (hs : SOK x.st.stash)
    (ht : IdsLt x.st.stash.length (child.text.getD [])) (ho : OkW (child.text.getD [])) (hp : StW x) :
    SOK x1.st.stash ∧ x.st.stash <+: x1.st.stash ∧ c1.tail = child.tail ∧ c1.children = child.children ∧
      (∀ n ∈ lst, Deep (IdsLt x1.st.stash.length) n) ∧ IdsLt x1.st.stash.length (c1.text.getD []) ∧
      lpot (ownW (wts x1.st.stash)) lst + nuS x1.st (c1.text.getD []) ≤ nuS x.st (child.text.getD []) := by
  unfold textStepX at h
  split at h
  · split at h
    · cases h
    · next data xa hh =>
      obtain ⟨a1, a2, a3, a4⟩ := handleInlineTopX_specW xc hh hs ht ho hp
      split at h
      · cases h
      · next lst' c1' hp =>
        cases h
        obtain ⟨o1, o2, o3, o4⟩ := ppTop_acc x1.st a1 hp a2 (show slot true _ = [] from rfl)
        refine ⟨a1, a3, o4.2.1 rfl, o4.2.2, o2, by simpa [slot] using o3, ?_⟩
        simp only [slot, if_true, nuS] at o1 a4 ⊢
        omega
  · cases h
    exact ⟨hs, List.prefix_refl _, rfl, rfl, (by intro n hn; cases hn), ht, by simp⟩

/-- the tail half of a visit -/
theorem tailStepX_accW (xc : XCfg) {c1 : Node} {x1 : XSt} {c2 : Node} {tr : List Node} {x2 : XSt}
    (h : tailStepX xc c1 x1 = some (c2, tr, x2)) (hs : SOK x1.st.stash)
    (ht : IdsLt x1.st.stash.length (c1.tail.getD [])) (ho : OkW (c1.tail.getD [])) (hp : StW x1) :
    SOK x2.st.stash ∧ x1.st.stash <+: x2.st.stash ∧ c2.text = c1.text ∧ c2.children = c1.children ∧
      (∀ n ∈ tr, Deep (IdsLt x2.st.stash.length) n) ∧ IdsLt x2.st.stash.length (c2.tail.getD []) ∧
      lpot (ownW (wts x2.st.stash)) tr + nuS x2.st (c2.tail.getD []) ≤ nuS x1.st (c1.tail.getD []) := by
  -- the element that receives the tail: what is left in the dummy goes back to the child
  have hback : ∀ (dumby : Node),
      ((if Node.truthy dumby.tail then { c1 with tail := dumby.tail, tailAtomic := dumby.tailAtomic }
        else { c1 with tail := none, tailAtomic := false } : Node).tail.getD []) = dumby.tail.getD [] := by
    intro dumby
    split
    · rfl
    · next hnt =>
      cases hdt : dumby.tail with
      | none => rfl
      | some x =>
        cases x with
        | nil => rfl
        | cons c r => simp [Node.truthy, hdt] at hnt
  unfold tailStepX at h
  split at h
  · simp only at h
    by_cases hat : c1.tailAtomic = true
    · simp only [hat, if_true] at h
      split at h
      · cases h
      · next tr' dumby hp =>
        cases h
        obtain ⟨o1, o2, o3, o4⟩ := ppTop_acc x1.st hs hp ht (show slot false (mkEl "d") = [] from rfl)
        refine ⟨hs, List.prefix_refl _, by split <;> rfl, by split <;> rfl, o2, ?_, ?_⟩
        · rw [hback]; simpa [slot] using o3
        · rw [hback]; simpa [slot, nuS] using o1
    · simp only [hat] at h
      split at h
      · cases h
      · next data xb hh =>
        simp only [Bool.false_eq_true, if_false] at hh
        obtain ⟨a1, a2, a3, a4⟩ := handleInlineTopX_specW xc hh hs ht ho hp
        split at h
        · cases h
        · next tr' dumby hp =>
          cases h
          obtain ⟨o1, o2, o3, o4⟩ := ppTop_acc x2.st a1 hp a2 (show slot false (mkEl "d") = [] from rfl)
          refine ⟨a1, a3, by split <;> rfl, by split <;> rfl, o2, ?_, ?_⟩
          · rw [hback]; simpa [slot] using o3
          · rw [hback]
            simp only [slot, nuS, Bool.false_eq_true, if_false] at o1 a4 ⊢
            omega
  · cases h
    exact ⟨hs, List.prefix_refl _, rfl, rfl, (by intro n hn; cases hn), ht, by simp⟩


/-! ### the contract -/

/-- text and tail of an element are of the class -/
def NodeW (n : Node) : Prop := OptP OkW n.text ∧ OptP OkW n.tail

mutual
theorem deepP_of_forall : (n : Node) → n.Forall NodeW → DeepP OkW n
  | ⟨tag, attrs, text, ta, children, tail, tla⟩, h => by
    unfold Node.Forall at h
    rw [DeepP_iff]
    exact ⟨h.1.1, h.1.2, fun k hk => deepPs_of_forallL children h.2 k hk⟩
theorem deepPs_of_forallL : (l : List Node) → Node.ForallL NodeW l → ∀ k ∈ l, DeepP OkW k
  | [], _ => by intro k hk; cases hk
  | c :: r, h => by
    unfold Node.ForallL at h
    intro k hk
    rcases List.mem_cons.1 hk with e | hk
    · rw [e]; exact deepP_of_forall c h.1
    · exact deepPs_of_forallL r h.2 k hk
end

mutual
theorem forall_of_deepP : (n : Node) → DeepP OkW n → n.Forall NodeW
  | ⟨tag, attrs, text, ta, children, tail, tla⟩, h => by
    have h' := (DeepP_iff _).1 h
    unfold Node.Forall
    exact ⟨⟨h'.1, h'.2.1⟩, forallL_of_deepPs children h'.2.2⟩
theorem forallL_of_deepPs : (l : List Node) → (∀ k ∈ l, DeepP OkW k) → Node.ForallL NodeW l
  | [], _ => by unfold Node.ForallL; trivial
  | c :: r, h => by
    unfold Node.ForallL
    exact ⟨forall_of_deepP c (h c List.mem_cons_self), forallL_of_deepPs r (fun k hk => h k (List.mem_cons_of_mem _ hk))⟩
end

mutual
theorem forall_and_mk {P Q : Node → Prop} : (n : Node) → n.Forall P → n.Forall Q → n.Forall (fun m => P m ∧ Q m)
  | ⟨tag, attrs, text, ta, children, tail, tla⟩, h1, h2 => by
    unfold Node.Forall at h1 h2 ⊢
    exact ⟨⟨h1.1, h2.1⟩, forallL_and_mk children h1.2 h2.2⟩
theorem forallL_and_mk {P Q : Node → Prop} : (l : List Node) → Node.ForallL P l → Node.ForallL Q l →
    Node.ForallL (fun m => P m ∧ Q m) l
  | [], _, _ => by unfold Node.ForallL; trivial
  | c :: r, h1, h2 => by
    unfold Node.ForallL at h1 h2 ⊢
    exact ⟨forall_and_mk c h1.1 h2.1, forallL_and_mk r h1.2 h2.2⟩
end

theorem forall_and {P Q : Node → Prop} {n : Node} : n.Forall (fun m => P m ∧ Q m) ↔ n.Forall P ∧ n.Forall Q := by
  constructor
  · intro h
    exact ⟨Node.Forall.mono (fun _ hm => hm.1) n h, Node.Forall.mono (fun _ hm => hm.2) n h⟩
  · rintro ⟨h1, h2⟩
    exact forall_and_mk n h1 h2

/-- invariant of an element: ids of existing entries, texts of the class -/
def okStW (st : St) (n : Node) : Prop := TopQ (IdsLt st.stash.length) n ∧ NodeW n
/-- invariant of the state -/
def sokStW (st : St) : Prop := SOK st.stash ∧ StashP OkW NW st.stash

theorem textStepX_eq_stage (xc : XCfg) (child : Node) (x : XSt) : textStepX xc child x = textStageX xc child x := rfl

/-- **one visit of a child satisfies the contract**, for every pattern table, on trees of the class -/
theorem visitOKW (xc : XCfg) (hc : 0 < xc.table.length) : VisitOKX xc ownSt okStW sokStW extSt where
  own_pos := by intro st n; simp only [ownSt, ownW]; omega
  own_children := by intro st n l; rfl
  ok_children := by intro st n l h; exact h
  ext_refl := fun st => List.prefix_refl _
  ext_trans := fun a b c h1 h2 => h1.trans h2
  frame := by
    intro st st' n he hok
    exact ⟨⟨topQ_mono he.length_le hok.1, hok.2⟩, ownS_frame he hok.1⟩
  visit := by
    intro child v hs hok
    obtain ⟨hokD, hokW⟩ := forall_and.1 hok
    have hdeep : Deep (IdsLt v.x.st.stash.length) child := hokD
    have hchP : DeepP OkW child := deepP_of_forall child hokW
    have hchP' := (DeepP_iff child).1 hchP
    have hdc := (deep_iff _ _).1 hdeep
    obtain ⟨hs', hp⟩ := hs
    have hotext : OkW (child.text.getD []) := by
      cases ht : child.text with
      | none => exact sep_w.nil
      | some t => exact hchP'.1 t ht
    obtain ⟨⟨c1, lst, x1⟩, h1⟩ := textStepX_someW xc hc child v.x hs' (optQ_getD (IdsLt.nil _) hdc.1.1) hotext hp
    obtain ⟨a1, a2, a3, a4, a5, a6, a7⟩ := textStepX_accW xc h1 hs' (optQ_getD (IdsLt.nil _) hdc.1.1) hotext hp
    obtain ⟨p1, p2, p3⟩ := textStageX_PW sep_w xc (findP_w xc) child v.x hchP hp (by rw [← textStepX_eq_stage]; exact h1)
    have htl : IdsLt x1.st.stash.length (c1.tail.getD []) := by
      rw [a3]; exact (optQ_getD (IdsLt.nil _) hdc.1.2).mono a2.length_le
    have hotail : OkW (c1.tail.getD []) := by
      rw [a3]
      cases ht : child.tail with
      | none => exact sep_w.nil
      | some t => exact hchP'.2.1 t ht
    obtain ⟨⟨c2, tr, x2⟩, h2⟩ := tailStepX_someW xc hc c1 x1 a1 htl hotail p3
    obtain ⟨b1, b2, b3, b4, b5, b6, b7⟩ := tailStepX_accW xc h2 a1 htl hotail p3
    have hkids1 : ∀ d ∈ child.children, Deep (IdsLt v.x.st.stash.length) d := hdc.2
    have hv : visitChildX xc child v = some ({ c2 with children := lst ++ c2.children }, tr,
        { v with
          pushes := (if child.children.isEmpty then
              ((List.range lst.length).map (fun k => [v.done.length, k])).reverse ++ v.pushes
            else [v.done.length] :: (((List.range lst.length).map (fun k => [v.done.length, k])).reverse ++ v.pushes)),
          x := x2 }) := by
      rw [visitChildX_eq, h1]; simp only [h2]
    obtain ⟨q1, q2, q3, _⟩ := visitChildX_PW sep_w xc (findP_w xc) child v hchP hp hv
    have hdeepc : Deep (IdsLt x2.st.stash.length) ({ c2 with children := lst ++ c2.children } : Node) := by
      rw [deep_iff]
      refine ⟨⟨?_, ?_⟩, ?_⟩
      · intro s hs''
        have : c2.text = some s := hs''
        rw [b3] at this
        have h6 := a6; rw [this] at h6
        exact h6.mono b2.length_le
      · intro s hs''
        have : c2.tail = some s := hs''
        rw [this] at b6; exact b6
      · intro d hd
        simp only [b4, a4] at hd
        rcases List.mem_append.1 hd with hd | hd
        · exact deep_mono b2.length_le (a5 d hd)
        · exact deep_mono (a2.trans b2).length_le (hkids1 d hd)
    refine ⟨_, _, _, hv, ⟨b1, q3⟩, a2.trans b2, ?_, ?_, ?_⟩
    · exact forall_and.2 ⟨hdeepc, forall_of_deepP _ q1⟩
    · intro t ht
      exact forall_and.2 ⟨b5 t ht, forall_of_deepP _ (q2 t ht)⟩
    · -- the potential
      have f1 := nuS_frame b2 a6
      have f2 := lpotS_frame b2 lst a5
      have f3 := lpotS_frame (a2.trans b2) child.children hkids1
      have f4 := nuS_frame a2 (optQ_getD (IdsLt.nil _) hdc.1.2)
      have e2 : ownSt x2.st = ownW (wts x2.st.stash) := rfl
      have e0 : ownSt v.x.st = ownW (wts v.x.st.stash) := rfl
      simp only
      rw [e2, e0]
      rw [npot_def (ownW (wts x2.st.stash)), npot_def (ownW (wts v.x.st.stash)) child]
      simp only [b4, a4, lpot_append, f2, f3]
      simp only [ownW, b3]
      simp only [nuS] at f1 f4 a7 b7
      rw [a3] at b7
      omega

/-- **the two loops of `runX` terminate for EVERY pattern table** (wikilink pattern included) on a tree without inline
    placeholders in whose texts no `[` is followed by a blank -/
theorem runX_total_bigW (xc : XCfg) (hc : 0 < xc.table.length) (tree : Node) (x : XSt)
    (hx : x.st.stash = []) (h : Deep (IdsLt 0) tree) (hw : DeepP OkW tree) (g2 : Nat) (hg2 : size tree < g2) (g : Nat)
    (hg : Inline.bigFuel tree ≤ g) : (runLoopX xc g2 g tree [[]] x).isSome = true := by
  apply runLoopX_total (visitOKW xc hc) (size tree) g2 hg2 g tree [[]] x
  · show SOK x.st.stash ∧ StashP OkW NW x.st.stash
    rw [hx]; exact ⟨sok_nil, by intro it hit; cases hit⟩
  · show tree.Forall (fun n => TopQ (IdsLt x.st.stash.length) n ∧ NodeW n)
    rw [hx]; exact forall_and.2 ⟨h, forall_of_deepP tree hw⟩
  · show npot (ownW (wts x.st.stash)) tree ≤ size tree
    rw [hx]; exact npot_le_size tree
  · intro q hq; simp only [List.mem_singleton] at hq; subst hq; simp
  · simp only [phi, List.length_nil, Nat.sub_zero, Nat.add_zero]
    unfold Inline.bigFuel at hg; omega

end MdVerif.InlineN
