/-
Helper lemmas for `Props/C16RenderX.lean`, part 3: plain lines (`DocSpec.wfLabel`: ASCII letters, digits and single
spaces, no space at either end) through the front of `PipelineX.convertX` (normalisation, raw-HTML extractor, the
paragraph processor of the block parser) and through its end (`finishX`).

Core Lean only.
-/
import MdVerif.Lemmas.RenderX
import MdVerif.Lemmas.DocParse
import MdVerif.Spec.Doc

namespace MdVerif.RenderX
open Py Inline InlineX DocSpec

/-! ### plain lines -/

/-- a plain line: non-empty, ASCII letters / digits / single spaces, no space at either end -/
abbrev PlainLine (l : Str) : Prop := wfLabel l = true

theorem alnumSp_quiet {c : Char} (h : isAlnumSp c = true) :
    quietCh c = true ∧ c ≠ '\n' ∧ c ≠ STX ∧ c ≠ '&' ∧ c ≠ '<' ∧ c ≠ '>' ∧ c ≠ '"' ∧ c ∉ Generated.escapedChars ∧
    c.toNat < 128 := by
  have h9 := DocParse.alnumSp_lt c h
  have hesc : ∀ e ∈ Generated.escapedChars, isAlnumSp e = false := by decide
  refine ⟨?_, ?_, ?_, ?_, ?_, ?_, ?_, fun hm => (by rw [hesc c hm] at h; cases h), h9⟩
  · simp only [quietCh, Bool.and_eq_true, bne_iff_ne, ne_eq]
    refine ⟨⟨⟨⟨⟨⟨?_, ?_⟩, ?_⟩, ?_⟩, ?_⟩, ?_⟩, ?_⟩ <;> (intro e; subst e; exact absurd h (by decide))
  all_goals (intro e; subst e; exact absurd h (by decide))

structure PlainFacts (l : Str) : Prop where
  ne : l ≠ []
  chars : ∀ c ∈ l, isAlnumSp c = true
  head : ∀ c, l.head? = some c → c ≠ ' '
  last : ∀ c, l.getLast? = some c → c ≠ ' '
  nds : noDoubleSpace l = true

theorem plainLine_facts {l : Str} (h : PlainLine l) : PlainFacts l := by
  have h : wfLabel l = true := h
  simp only [wfLabel, wfWords, Bool.and_eq_true, Bool.not_eq_true', List.all_eq_true, bne_iff_ne, ne_eq] at h
  obtain ⟨⟨⟨⟨h1, h2⟩, h3⟩, h4⟩, h5⟩ := h
  refine ⟨?_, h2, ?_, ?_, h3⟩
  · intro e; subst e; simp at h1
  · intro c hc e; subst e; exact h4 hc
  · intro c hc e; subst e; exact h5 hc

theorem PlainFacts.visible {l : Str} (h : PlainFacts l) : Escape.startsVisible l = true := by
  obtain ⟨a, b, rfl⟩ : ∃ a b, l = a :: b := by
    cases l with
    | nil => exact absurd rfl h.ne
    | cons a b => exact ⟨a, b, rfl⟩
  have := DocParse.alnum_visible a (h.chars a List.mem_cons_self) (h.head a rfl)
  simp [Escape.startsVisible, this]

theorem PlainFacts.noNl {l : Str} (h : PlainFacts l) : '\n' ∉ l :=
  fun hm => (alnumSp_quiet (h.chars _ hm)).2.1 rfl

theorem PlainFacts.noStx {l : Str} (h : PlainFacts l) : STX ∉ l :=
  fun hm => (alnumSp_quiet (h.chars _ hm)).2.2.1 rfl

theorem PlainFacts.noMarkup {l : Str} (h : PlainFacts l) : ∀ c ∈ l, c ≠ '&' ∧ c ≠ '<' ∧ c ≠ '>' :=
  fun c hc => let f := alnumSp_quiet (h.chars c hc); ⟨f.2.2.2.1, f.2.2.2.2.1, f.2.2.2.2.2.1⟩

theorem PlainFacts.lastVisible {l : Str} (h : PlainFacts l) : ∀ c, l.getLast? = some c → isSpace c = false := by
  intro c hc
  exact DocParse.alnum_visible c (h.chars c (List.mem_of_getLast? hc)) (h.last c hc)

theorem PlainFacts.safe {l : Str} (h : PlainFacts l) : DocParse.lineSafe l = true ∧ '<' ∉ l ∧ '&' ∉ l := by
  refine DocParse.safe_of_plain l (fun x hx => ?_) ?_
  · have := DocParse.alnumSp_facts (h.chars x hx)
    exact ⟨this.2.1, this.2.2⟩
  · obtain ⟨a, b, rfl⟩ : ∃ a b, l = a :: b := by
      cases l with
      | nil => exact absurd rfl h.ne
      | cons a b => exact ⟨a, b, rfl⟩
    exact ⟨a, List.mem_cons_self, h.head a rfl⟩

/-! ### a paragraph of plain lines: characters, hard breaks -/

/-- the characters of a text of plain lines -/
theorem mem_joinLines_plain {ls : List Str} (h : ∀ l ∈ ls, PlainFacts l) {c : Char} (hc : c ∈ joinLines ls) :
    c = '\n' ∨ isAlnumSp c = true := by
  rcases DocParse.mem_joinLines hc with rfl | ⟨l, hl, hcl⟩
  · exact Or.inl rfl
  · exact Or.inr ((h l hl).chars c hcl)

theorem find_brk_line (l Y : Str) (hne : l ≠ []) (hnl : '\n' ∉ l) (hlast : ∀ c, l.getLast? = some c → c ≠ ' ')
    (hY : find [' ', ' ', '\n'] Y = none) : find [' ', ' ', '\n'] (l ++ Y) = none := by
  induction l with
  | nil => exact absurd rfl hne
  | cons c l ih =>
    have hc : c ≠ '\n' := fun e => hnl (e ▸ List.mem_cons_self)
    cases l with
    | nil =>
      have hcs : c ≠ ' ' := hlast c rfl
      simp only [List.cons_append, List.nil_append]
      rw [Escape.find_cons_none_iff]
      exact ⟨by simp [startsWith, hcs], hY⟩
    | cons d t =>
      have ih' := ih (by simp) (fun hm => hnl (List.mem_cons_of_mem _ hm))
        (fun x hx => hlast x (by simpa [List.getLast?_cons_cons] using hx))
      simp only [List.cons_append] at ih' ⊢
      rw [Escape.find_cons_none_iff]
      refine ⟨?_, ih'⟩
      cases t with
      | nil =>
        have hds : d ≠ ' ' := hlast d (by simp [List.getLast?_cons_cons])
        simp [startsWith, hds]
      | cons e t' =>
        have he : e ≠ '\n' := fun h => hnl (by simp [h])
        simp [startsWith, he]

theorem find_brk_lines (l0 : Str) (r : List Str) (h : ∀ l ∈ l0 :: r, PlainFacts l) :
    find [' ', ' ', '\n'] (joinLines (l0 :: r)) = none := by
  induction r generalizing l0 with
  | nil =>
    have h0 := h l0 List.mem_cons_self
    have := find_brk_line l0 [] h0.ne h0.noNl h0.last (by simp [find])
    simpa [joinLines, join] using this
  | cons l1 r ih =>
    have h0 := h l0 List.mem_cons_self
    rw [Block.joinLines_cons_cons]
    apply find_brk_line l0 _ h0.ne h0.noNl h0.last
    rw [Escape.find_cons_none_iff]
    exact ⟨by simp [startsWith], ih l1 (fun l hl => h l (List.mem_cons_of_mem _ hl))⟩

/-- a text of plain lines is quiet -/
theorem quietX_lines (l0 : Str) (r : List Str) (h : ∀ l ∈ l0 :: r, PlainFacts l) : QuietX (joinLines (l0 :: r)) := by
  have hch : ∀ c ∈ joinLines (l0 :: r), quietCh c = true := by
    intro c hc
    rcases mem_joinLines_plain h hc with rfl | hc
    · decide
    · exact (alnumSp_quiet hc).1
  have hq : ∀ c ∈ joinLines (l0 :: r), c ≠ '`' ∧ c ≠ '\\' ∧ c ≠ '[' ∧ c ≠ '!' ∧ c ≠ '&' ∧ c ≠ '*' ∧ c ≠ '_' := by
    intro c hc
    have := hch c hc
    simp only [quietCh, Bool.and_eq_true, bne_iff_ne, ne_eq] at this
    obtain ⟨⟨⟨⟨⟨⟨a, b⟩, c'⟩, d⟩, e⟩, f⟩, g⟩ := this
    exact ⟨a, b, c', d, e, f, g⟩
  refine ⟨fun hm => (hq _ hm).1 rfl, fun hm => (hq _ hm).2.1 rfl, ?_, find_brk_lines l0 r h⟩
  intro c hc
  have := hq c hc
  exact ⟨this.2.2.1, this.2.2.2.1, this.2.2.2.2.1, this.2.2.2.2.2.1, this.2.2.2.2.2.2⟩

/-! ### the front of `convertX` -/

/-- characters of the source -/
theorem src_facts (l0 : Str) (r : List Str) (h : ∀ l ∈ l0 :: r, PlainFacts l) :
    (joinLines (l0 :: r)).contains '<' = false ∧ Normalize.isBlankDoc (joinLines (l0 :: r)) = false ∧
    PipelineX.admNonAscii (joinLines (l0 :: r) ++ ['\n', '\n']) = false ∧
    Extract.extract (joinLines (l0 :: r) ++ ['\n', '\n']) = joinLines (l0 :: r) ++ ['\n', '\n'] := by
  have hchar : ∀ c ∈ joinLines (l0 :: r), c ≠ '<' ∧ c ≠ '&' ∧ c ≠ '!' := by
    intro c hc
    rcases mem_joinLines_plain h hc with rfl | hc
    · decide
    · have := alnumSp_quiet hc
      refine ⟨this.2.2.2.2.1, this.2.2.2.1, ?_⟩
      intro e; subst e; exact absurd hc (by decide)
  refine ⟨?_, ?_, ?_, ?_⟩
  · cases hc : (joinLines (l0 :: r)).contains '<' with
    | false => rfl
    | true => exact absurd rfl (hchar _ (List.contains_iff_mem.1 hc)).1
  · rw [Normalize.isBlankDoc_eq_all]
    have h0 := h l0 List.mem_cons_self
    obtain ⟨a, b, rfl⟩ : ∃ a b, l0 = a :: b := by
      cases l0 with
      | nil => exact absurd rfl h0.ne
      | cons a b => exact ⟨a, b, rfl⟩
    have ha : isSpace a = false := by simpa [Escape.startsVisible] using h0.visible
    have hmem : a ∈ joinLines ((a :: b) :: r) := by
      cases r with
      | nil => simp [joinLines, join]
      | cons x y => rw [Block.joinLines_cons_cons]; simp
    cases hall : (joinLines ((a :: b) :: r)).all isSpace with
    | false => rfl
    | true =>
      have := List.all_eq_true.1 hall a hmem
      rw [ha] at this; cases this
  · have : ∀ s : Str, '!' ∉ s → PipelineX.admNonAscii s = false := by
      intro s
      induction s with
      | nil => intro _; rfl
      | cons c s ih =>
        intro hs
        have hc : c ≠ '!' := fun e => hs (e ▸ List.mem_cons_self)
        simp [PipelineX.admNonAscii, hc, ih (fun hm => hs (List.mem_cons_of_mem _ hm))]
    apply this
    intro hm
    rcases List.mem_append.1 hm with hm | hm
    · exact (hchar _ hm).2.2 rfl
    · exact absurd hm (by decide)
  · apply Escape.extract_no_amp
    intro hm
    rcases List.mem_append.1 hm with hm | hm
    · exact (hchar _ hm).2.1 rfl
    · exact absurd hm (by decide)

theorem normalize_plain_lines (tab : Nat) (l0 : Str) (r : List Str) (h : ∀ l ∈ l0 :: r, PlainFacts l) :
    Normalize.normalize tab (joinLines (l0 :: r)) = joinLines (l0 :: r) ++ ['\n', '\n'] :=
  DocParse.normalize_lines tab (l0 :: r) (by simp) (fun l hl => (h l hl).safe.1)

/-! ### the block parser on a block of plain lines -/

theorem guardedFrom_of_no_esc (esc : List Char) (s : Str) (h : ∀ c ∈ s, c ∉ esc) (b : Bool) :
    Escape.guardedFrom esc b s = true := by
  induction s generalizing b with
  | nil => rfl
  | cons c s ih =>
    have hc : esc.contains c = false := by
      cases hh : esc.contains c with
      | false => rfl
      | true => exact absurd (List.contains_iff_mem.1 hh) (h c List.mem_cons_self)
    simp [Escape.guardedFrom, h c List.mem_cons_self, ih (fun d hd => h d (List.mem_cons_of_mem _ hd))]

theorem startOk_of_no_esc (esc : List Char) (s : Str) (h : ∀ c ∈ s, c ∉ esc) : Escape.startOk esc s = true := by
  unfold Escape.startOk
  cases hd : s.dropWhile (· == ' ') with
  | nil => rfl
  | cons c t =>
    have hmem : c ∈ s := by
      have : c ∈ s.dropWhile (· == ' ') := by rw [hd]; exact List.mem_cons_self
      exact (List.dropWhile_sublist _).subset this
    simp [h c hmem]

theorem startsOkNl_of_no_esc (esc : List Char) (s : Str) (h : ∀ c ∈ s, c ∉ esc) : Escape.startsOkNl esc s = true := by
  induction s with
  | nil => rfl
  | cons c s ih =>
    have hs : ∀ d ∈ s, d ∉ esc := fun d hd => h d (List.mem_cons_of_mem _ hd)
    simp [Escape.startsOkNl, startOk_of_no_esc esc s hs, ih hs]

/-- the facts about a block of plain lines that the core block recognisers depend on -/
theorem block_facts (l0 : Str) (r : List Str) (h : ∀ l ∈ l0 :: r, PlainFacts l) :
    Escape.Guarded Generated.escapedChars (joinLines (l0 :: r)) = true ∧
    Escape.LineStartsOk Generated.escapedChars (joinLines (l0 :: r)) = true ∧
    Escape.startsVisible (joinLines (l0 :: r)) = true ∧
    Escape.noEmptyLineFrom true (joinLines (l0 :: r)) = true ∧
    (match Escape.secondLine (joinLines (l0 :: r)) with | some l => Escape.isEqUnderline l | none => false) = false := by
  have hesc : ∀ c ∈ joinLines (l0 :: r), c ∉ Generated.escapedChars := by
    intro c hc
    rcases mem_joinLines_plain h hc with rfl | hc
    · decide
    · exact (alnumSp_quiet hc).2.2.2.2.2.2.2.1
  have hlines : lines (joinLines (l0 :: r)) = l0 :: r := joinLines_lines (by simp) (fun p hp => (h p hp).noNl)
  refine ⟨guardedFrom_of_no_esc _ _ hesc false, ?_, ?_, ?_, ?_⟩
  · simp only [Escape.LineStartsOk, Bool.and_eq_true]
    exact ⟨startOk_of_no_esc _ _ hesc, startsOkNl_of_no_esc _ _ hesc⟩
  · have h0 := h l0 List.mem_cons_self
    obtain ⟨a, b, rfl⟩ : ∃ a b, l0 = a :: b := by
      cases l0 with
      | nil => exact absurd rfl h0.ne
      | cons a b => exact ⟨a, b, rfl⟩
    have ha : isSpace a = false := by simpa [Escape.startsVisible] using h0.visible
    cases r with
    | nil => simp [joinLines, join, Escape.startsVisible, ha]
    | cons x y => rw [Block.joinLines_cons_cons]; simp [Escape.startsVisible, ha]
  · rw [← Escape.lines_all_nonempty, hlines, List.all_eq_true]
    intro l hl
    have := (h l hl).ne
    cases l with
    | nil => exact absurd rfl this
    | cons a b => rfl
  · unfold Escape.secondLine
    rw [hlines]
    cases r with
    | nil => rfl
    | cons l1 r' =>
      have h1 := h l1 (by simp)
      obtain ⟨a, b, rfl⟩ : ∃ a b, l1 = a :: b := by
        cases l1 with
        | nil => exact absurd rfl h1.ne
        | cons a b => exact ⟨a, b, rfl⟩
      have ha : a ≠ '=' := by
        intro e; subst e
        exact absurd (h1.chars '=' List.mem_cons_self) (by decide)
      simp [Escape.isEqUnderline, spanLen, ha]

/-- a block of plain lines goes to `ParagraphProcessor` (core dispatcher) -/
theorem dispatch_plain (tab : Nat) (htab : tab > 0) (pb : Block.PB) (state : List Block.BState) (refs : Block.Refs)
    (parent : Node) (l0 : Str) (r : List Str) (rest : List Str) (h : ∀ l ∈ l0 :: r, PlainFacts l) :
    Block.dispatch tab pb state refs parent (joinLines (l0 :: r)) rest =
      some (Block.paraP state refs parent (joinLines (l0 :: r)) rest) := by
  obtain ⟨hg, hl, hv, _, h2⟩ := block_facts l0 r h
  exact Escape.dispatch_paragraph (esc := Generated.escapedChars) (by decide) (by decide) (by decide) (by decide)
    (by decide) (by decide) (by decide) (by decide) tab htab pb state refs parent _ rest hg hl hv h2

/-- the extended block parser without block extensions is the core parser -/
theorem parseDocumentXT_core (tab : Nat) (text : Str) :
    BlockExt.parseDocumentXT false BlockExt.XCfg.core tab text = Block.parseDocument tab text := by
  simp only [BlockExt.parseDocumentXT, Block.parseDocument, Block.parseDocumentWith, BlockExt.parseBlocksXT_false,
    BlockExt.fuelForX, Block.fuelFor, BlockExt.parseBlocksX_core]

/-- the block stage on a document that is one paragraph of plain lines -/
theorem parseDocument_plain (tab : Nat) (htab : tab > 0) (l0 : Str) (r : List Str) (h : ∀ l ∈ l0 :: r, PlainFacts l) :
    Block.parseDocument tab (joinLines (l0 :: r) ++ ['\n', '\n']) =
      some ((Node.el "div").append (Block.mkText "p" (joinLines (l0 :: r))), []) := by
  obtain ⟨_, _, hv, hne, _⟩ := block_facts l0 r h
  exact Escape.parseDocument_paragraph tab _ hv hne
    (fun pb rest => dispatch_plain tab htab pb [] [] _ l0 r rest h)

/-! ### the end of `convertX` -/

/-- the end of `convertX` on `<div>\nJ\n</div>\n` when nothing is in the HTML stash and footnotes are off -/
theorem finishX_wrapped (x : PipelineX.Exts) (cfg : Pipeline.Cfg) (hfn : x.footnotes = false) (J : Str)
    (hstx : Post.STX ∉ J) (hh : ∀ c, J.head? = some c → isSpace c = false)
    (hl : ∀ c, J.getLast? = some c → isSpace c = false) :
    PipelineX.finishX x cfg [] ("<div>".toList ++ ('\n' :: J ++ ['\n']) ++ "</div>\n".toList) = .ok J := by
  have hs : strip J = J := strip_eq_self hh hl
  have hs2 : strip ('\n' :: J ++ ['\n']) = J := by
    have := strip_append_of_blank (a := ['\n']) (b := ['\n']) (by decide) (by decide) J
    have e : '\n' :: J ++ ['\n'] = ['\n'] ++ J ++ ['\n'] := by simp
    rw [e, this, hs]
  simp only [PipelineX.finishX, Escape.topLevelStrip_div, hs2, PipelineX.postX, Post.rawHtmlFuel, List.length_nil,
    Post.rawHtml, List.isEmpty_nil, if_true, Option.map_some, hfn, Bool.false_eq_true, if_false,
    Escape.ampSub_id _ hstx, hs]

/-! ### the front of `convertX`, for any text of safe ASCII lines -/

theorem admNonAscii_ascii (s : Str) (h : ∀ c ∈ s, c.toNat < 128) : PipelineX.admNonAscii s = false := by
  induction s with
  | nil => rfl
  | cons c s ih =>
    have ih' := ih (fun d hd => h d (List.mem_cons_of_mem _ hd))
    unfold PipelineX.admNonAscii
    rw [ih', Bool.or_false]
    by_cases hc : c = '!'
    · have hs : ∀ d ∈ s, d.toNat < 128 := fun d hd => h d (List.mem_cons_of_mem _ hd)
      simp only [hc, decide_true, Bool.true_and]
      split
      all_goals first
        | rfl
        | (simp only [ge_iff_le, decide_eq_false_iff_not, Nat.not_le]
           apply hs
           simp)
    · simp [hc]

/-- what the front of `convertX` needs of the source lines -/
structure SafeLine (l : Str) : Prop where
  safe : DocParse.lineSafe l = true
  ascii : ∀ c ∈ l, c.toNat < 128 ∧ c ≠ '<' ∧ c ≠ '&'

theorem front_lines (tab : Nat) (ls : List Str) (hne : ls ≠ []) (h : ∀ l ∈ ls, SafeLine l)
    (hv : ∃ c ∈ joinLines ls, isSpace c = false) :
    (joinLines ls).contains '<' = false ∧ Normalize.isBlankDoc (joinLines ls) = false ∧
    Normalize.normalize tab (joinLines ls) = joinLines ls ++ ['\n', '\n'] ∧
    PipelineX.admNonAscii (joinLines ls ++ ['\n', '\n']) = false ∧
    Extract.extract (joinLines ls ++ ['\n', '\n']) = joinLines ls ++ ['\n', '\n'] := by
  have hchar : ∀ c ∈ joinLines ls, c.toNat < 128 ∧ c ≠ '<' ∧ c ≠ '&' := by
    intro c hc
    rcases DocParse.mem_joinLines hc with rfl | ⟨l, hl, hcl⟩
    · decide
    · exact (h l hl).ascii c hcl
  refine ⟨?_, ?_, DocParse.normalize_lines tab ls hne (fun l hl => (h l hl).safe), ?_, ?_⟩
  · cases hc : (joinLines ls).contains '<' with
    | false => rfl
    | true => exact absurd rfl (hchar _ (List.contains_iff_mem.1 hc)).2.1
  · rw [Normalize.isBlankDoc_eq_all]
    obtain ⟨c, hc, hcs⟩ := hv
    cases hall : (joinLines ls).all isSpace with
    | false => rfl
    | true =>
      have := List.all_eq_true.1 hall c hc
      rw [hcs] at this; cases this
  · apply admNonAscii_ascii
    intro c hc
    rcases List.mem_append.1 hc with hc | hc
    · exact (hchar c hc).1
    · have : c = '\n' := by simpa using hc
      subst this; decide
  · apply Escape.extract_no_amp
    intro hm
    rcases List.mem_append.1 hm with hm | hm
    · exact (hchar _ hm).2.2 rfl
    · exact absurd hm (by decide)

theorem PlainFacts.safeLine {l : Str} (h : PlainFacts l) : SafeLine l :=
  ⟨h.safe.1, fun c hc => let f := alnumSp_quiet (h.chars c hc); ⟨f.2.2.2.2.2.2.2.2, f.2.2.2.2.1, f.2.2.2.1⟩⟩

end MdVerif.RenderX
