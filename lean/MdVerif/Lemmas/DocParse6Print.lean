/-
Helper lemmas for C01 with inline images (`Props/C01i.lean`): the printer and the specification side of a line of
words, escapes, code spans, emphasised words and inline images `![alt](dest "title")` — as sections 1, 2, 3, 4, 6, 9,
11, 12 of `Lemmas/DocParse5.lean` for inline links.  The definitions of the stages are in `Lemmas/DocParse6Def.lean`.
Core Lean only.
-/
import MdVerif.Lemmas.DocParse6Def
import MdVerif.Spec.DocFlat3

namespace MdVerif.DocImg
open Py Inline Escape DocSpec CodeLaw DocParse Block DocParse2 RefText DocLink

/-! ### 1. content with images: the content before the first image, and per image what follows it -/

structure ImgIt where
  alt : Str
  dest : Str
  title : Option Str
  after : List DocSpec.Inline

def isImgI : DocSpec.Inline → Bool
  | .image _ _ _ => true
  | _ => false

def imgSplit : List DocSpec.Inline → List DocSpec.Inline × List ImgIt
  | [] => ([], [])
  | x :: r =>
    match x with
    | .image a d t => ([], ⟨a, d, t, (imgSplit r).1⟩ :: (imgSplit r).2)
    | _ => (x :: (imgSplit r).1, (imgSplit r).2)

def joinImgs (A : List DocSpec.Inline) : List ImgIt → List DocSpec.Inline
  | [] => A
  | l :: r => A ++ .image l.alt l.dest l.title :: joinImgs l.after r

theorem imgSplit_image (a : Str) (d : Str) (t : Option Str) (r : List DocSpec.Inline) :
    imgSplit (.image a d t :: r) = ([], ⟨a, d, t, (imgSplit r).1⟩ :: (imgSplit r).2) := by rw [imgSplit]

theorem imgSplit_other (x : DocSpec.Inline) (r : List DocSpec.Inline) (hx : isImgI x = false) :
    imgSplit (x :: r) = (x :: (imgSplit r).1, (imgSplit r).2) := by
  cases x <;> simp_all [isImgI, imgSplit]

theorem joinImgs_split (c : List DocSpec.Inline) : joinImgs (imgSplit c).1 (imgSplit c).2 = c := by
  induction c with
  | nil => rfl
  | cons x r ih =>
    by_cases hx : isImgI x = true
    · obtain ⟨c', d, t, rfl⟩ : ∃ c' d t, x = .image c' d t := by cases x <;> simp_all [isImgI]
      rw [imgSplit_image]; simp [joinImgs, ih]
    · have hx' : isImgI x = false := by simpa using hx
      rw [imgSplit_other x r hx']
      cases h2 : (imgSplit r).2 with
      | nil => rw [h2] at ih; simpa [joinImgs] using ih
      | cons l ls => rw [h2] at ih; simp only [joinImgs] at ih ⊢; rw [List.cons_append, ih]

theorem imgSplit_prefix (c : List DocSpec.Inline) : ∃ T, c = (imgSplit c).1 ++ T := by
  induction c with
  | nil => exact ⟨[], rfl⟩
  | cons x r ih =>
    by_cases hx : isImgI x = true
    · obtain ⟨c', d, t, rfl⟩ : ∃ c' d t, x = .image c' d t := by cases x <;> simp_all [isImgI]
      rw [imgSplit_image]; exact ⟨_, rfl⟩
    · have hx' : isImgI x = false := by simpa using hx
      obtain ⟨T, hT⟩ := ih
      rw [imgSplit_other x r hx']
      exact ⟨T, by simp only [List.cons_append]; rw [← hT]⟩

theorem noImgs_of_split (c : List DocSpec.Inline) (h : (imgSplit c).2 = []) : ∀ x ∈ c, isImgI x = false := by
  induction c with
  | nil => intro x hx; cases hx
  | cons a r ih =>
    by_cases ha : isImgI a = true
    · obtain ⟨t, d, ti, rfl⟩ : ∃ t d ti, a = .image t d ti := by cases a <;> simp_all [isImgI]
      rw [imgSplit_image] at h; simp at h
    · have ha' : isImgI a = false := by simpa using ha
      rw [imgSplit_other a r ha'] at h
      intro x hx
      rcases List.mem_cons.1 hx with rfl | hx
      · exact ha'
      · exact ih h x hx

/-! ### 2. `printInlines` on content followed by an image -/

theorem printInline_image (pd : Option Char) (a b sf : Bool) (al : Str) (d : Str) (t : Option Str) (st : PSt) :
    printInline pd a b sf (.image al d t) st =
      ('!' :: '[' :: al ++ [']'] ++ (linkTail (some al) sf d t st).1, (linkTail (some al) sf d t st).2) := by
  rw [printInline]

/-- the parts of the printed form: the content, `![`, the alt text, `]`, the tail, the rest -/
theorem printInlines_joinImgs_cons (A : List DocSpec.Inline) (hA : mixItemsOK A = true) (l : ImgIt)
    (r : List ImgIt) (pB : Bool) (st : PSt) (sa : Str) (st1 : PSt)
    (ha : printInlines none pB true A st = (sa, st1)) (tl : Str) (st3 : PSt)
    (htl : linkTail (some l.alt) (safeAfterRef (joinImgs l.after r)) l.dest l.title st1 = (tl, st3))
    (sr : Str) (st4 : PSt)
    (hr : printInlines none (afterBoundary (afterBoundary pB sa) ('!' :: '[' :: l.alt ++ [']'] ++ tl)) true
      (joinImgs l.after r) st3 = (sr, st4)) :
    printInlines none pB true (joinImgs A (l :: r)) st = (sa ++ (('!' :: '[' :: l.alt ++ [']'] ++ tl) ++ sr), st4) := by
  have hnb : nextBoundary true (DocSpec.Inline.image l.alt l.dest l.title :: joinImgs l.after r) = true := rfl
  rw [joinImgs, printInlines_append_plain none _ A (plain_of_mix A hA), hnb, ha]
  simp only [printInlines_cons', printInline_image, htl, hr]

/-- what the domain says of an image and the content after it -/
structure ImgOK (l : ImgIt) : Prop where
  alt : ∀ c ∈ l.alt, isAlnumSp c = true
  after : mixOK l.after = true
  dest : ∀ q, DestOK l.dest (dtitleOf q l.title)
  plainD : ∀ c ∈ l.dest, AttrPlain c
  plainT : ∀ t, l.title = some t → ∀ c ∈ t, AttrPlain c

/-- the definitions only grow, whatever the styles -/
theorem printImgs_defs : ∀ (ls : List ImgIt) (A : List DocSpec.Inline) (pB : Bool) (st : PSt),
    mixItemsOK A = true → (∀ l ∈ ls, ImgOK l) →
    ∃ e, (printInlines none pB true (joinImgs A ls) st).2.defs = st.defs ++ e := by
  intro ls
  induction ls with
  | nil =>
    intro A pB st hA _
    obtain ⟨segs, st', hp, hd, _⟩ := printInlines_mix A hA pB true st
    exact ⟨[], by simp [joinImgs, hp, hd]⟩
  | cons l r ih =>
    intro A pB st hA hls
    have hl := hls l List.mem_cons_self
    have hCi : mixItemsOK l.after = true := by
      have := hl.after; simp only [mixOK, Bool.and_eq_true] at this; exact this.1.1
    obtain ⟨segs, st1, hp, hd, _⟩ := printInlines_mix A hA pB true st
    obtain ⟨e1, he1⟩ := linkTail_defs (some l.alt) (safeAfterRef (joinImgs l.after r)) l.dest l.title st1
    generalize htl : linkTail (some l.alt) (safeAfterRef (joinImgs l.after r)) l.dest l.title st1 = tlp at he1
    obtain ⟨tl, st3⟩ := tlp
    obtain ⟨e2, he2⟩ := ih l.after
      (afterBoundary (afterBoundary pB (escAll ESC (splitMix A).1 ++ rawM ESC segs))
        ('!' :: '[' :: l.alt ++ [']'] ++ tl)) st3 hCi
      (fun x hx => hls x (List.mem_cons_of_mem _ hx))
    generalize hr : printInlines none (afterBoundary (afterBoundary pB (escAll ESC (splitMix A).1 ++ rawM ESC segs))
        ('!' :: '[' :: l.alt ++ [']'] ++ tl)) true (joinImgs l.after r) st3 =
      rp at he2
    obtain ⟨sr, st4⟩ := rp
    rw [printInlines_joinImgs_cons A hA l r pB st _ _ hp _ _ htl _ _ hr]
    simp only at he1 he2 ⊢
    exact ⟨e1 ++ e2, by rw [he2, he1, hd, List.append_assoc]⟩

/-! ### 3. the printed form of content with images -/

/-- an image as printed in the inline style, with the content after it -/
structure ImgW (l : ImgIt) (u : MUse) : Prop where
  alt : u.alt = l.alt
  altCh : ∀ c ∈ l.alt, isAlnumSp c = true
  C : ChunkW l.after u.C
  url : u.url = l.dest
  dtitle : ∃ q, u.dtitle = dtitleOf q l.title
  dest : DestOK u.url u.dtitle
  plainD : ∀ c ∈ l.dest, AttrPlain c
  plainT : ∀ t, l.title = some t → ∀ c ∈ t, AttrPlain c

def ImgsW : List ImgIt → List MUse → Prop
  | [], [] => True
  | l :: ls, u :: us => ImgW l u ∧ ImgsW ls us
  | _, _ => False

/-- **the printed form of content with images.**  The definitions grow by `extra`; when they do not grow and no `<`
    is printed, every image is printed in the inline style: the line is a chunk followed by the images
    `![alt](dest "title")content`. -/
theorem printImgs_rel : ∀ (ls : List ImgIt) (A : List DocSpec.Inline) (st : PSt), mixOK A = true →
    (∀ l ∈ ls, ImgOK l) →
    ∃ (s : Str) (st' : PSt) (extra : List Str), printInlines none true true (joinImgs A ls) st = (s, st') ∧
      st'.defs = st.defs ++ extra ∧
      (extra = [] → '<' ∉ s → ∃ (C0 : Chunk) (is : List MUse),
        (∀ m n0, s = C0.raw ESC ++ imStage ESC 0 false m n0 is) ∧ ChunkW A C0 ∧ ImgsW ls is) := by
  intro ls
  induction ls with
  | nil =>
    intro A st hA _
    obtain ⟨C0, st', hp, hd, hW⟩ := chunkW_of A hA st
    exact ⟨C0.raw ESC, st', [], by simpa [joinImgs] using hp, by simp [hd],
      fun _ _ => ⟨C0, [], fun _ _ => by simp [imStage], hW, trivial⟩⟩
  | cons l r ih =>
    intro A st hA hls
    have hl := hls l List.mem_cons_self
    have hAi : mixItemsOK A = true := by
      have := hA; simp only [mixOK, Bool.and_eq_true] at this; exact this.1.1
    have hCi : mixItemsOK l.after = true := by
      have := hl.after; simp only [mixOK, Bool.and_eq_true] at this; exact this.1.1
    obtain ⟨C0, st1, hp, hd, hW⟩ := chunkW_of A hA st
    generalize htl : linkTail (some l.alt) (safeAfterRef (joinImgs l.after r)) l.dest l.title st1 = tlp
    obtain ⟨tl, st3⟩ := tlp
    have hcases := linkTail_cases (some l.alt) (safeAfterRef (joinImgs l.after r)) l.dest l.title st1
    rw [htl] at hcases
    simp only at hcases
    rcases hcases with ⟨htail, hd3⟩ | ⟨hlt, _⟩ | ⟨x, hx⟩
    · -- the inline style
      have hab : afterBoundary (afterBoundary true (C0.raw ESC)) ('!' :: '[' :: l.alt ++ [']'] ++ tl) = true := by
        rw [htail, inlineTail_eq]
        have : '!' :: '[' :: l.alt ++ [']'] ++ '(' :: (destSrc l.dest (dtitleOf (draw (draw st1).2).1 l.title) ++ [')']) =
            ('!' :: '[' :: l.alt ++ [']'] ++ '(' :: destSrc l.dest (dtitleOf (draw (draw st1).2).1 l.title)) ++ [')'] := by
          simp [List.append_assoc]
        rw [this, afterBoundary_paren]
      obtain ⟨sr, st4, extra, hpr, hdr, hrest⟩ := ih l.after st3 hl.after (fun x hx => hls x (List.mem_cons_of_mem _ hx))
      refine ⟨C0.raw ESC ++ (('!' :: '[' :: l.alt ++ [']'] ++ tl) ++ sr), st4, extra,
        printInlines_joinImgs_cons A hAi l r true st _ _ hp _ _ htl _ _ (by rw [hab]; exact hpr),
        by rw [hdr, hd3, hd], ?_⟩
      intro hex hlts
      have hltr : '<' ∉ sr := fun hm => hlts (by simp [hm])
      obtain ⟨Cr, isr, hsr, hWr, hLr⟩ := hrest hex hltr
      refine ⟨C0, ⟨l.alt, l.dest, dtitleOf (draw (draw st1).2).1 l.title, Cr⟩ :: isr, ?_, hW,
        ⟨⟨rfl, hl.alt, hWr, rfl, ⟨_, rfl⟩, hl.dest _, hl.plainD, hl.plainT⟩, hLr⟩⟩
      intro m n0
      rw [htail, inlineTail_eq, hsr (m + Cr.escs ESC) (n0 + Cr.cnt 0)]
      simp [imStage, Chunk.stage_raw, List.append_assoc]
    · -- angle brackets
      obtain ⟨e1, he1⟩ := linkTail_defs (some l.alt) (safeAfterRef (joinImgs l.after r)) l.dest l.title st1
      rw [htl] at he1
      obtain ⟨e2, he2⟩ := printImgs_defs r l.after
        (afterBoundary (afterBoundary true (C0.raw ESC)) ('!' :: '[' :: l.alt ++ [']'] ++ tl)) st3 hCi
        (fun x hx => hls x (List.mem_cons_of_mem _ hx))
      refine ⟨_, _, e1 ++ e2,
        printInlines_joinImgs_cons A hAi l r true st _ _ hp _ _ htl _ _ rfl,
        by rw [he2, he1, hd, List.append_assoc], ?_⟩
      intro _ hlts
      exact absurd (by simp [hlt]) hlts
    · -- a reference style
      obtain ⟨e2, he2⟩ := printImgs_defs r l.after
        (afterBoundary (afterBoundary true (C0.raw ESC)) ('!' :: '[' :: l.alt ++ [']'] ++ tl)) st3 hCi
        (fun x hx => hls x (List.mem_cons_of_mem _ hx))
      refine ⟨_, _, [x] ++ e2,
        printInlines_joinImgs_cons A hAi l r true st _ _ hp _ _ htl _ _ rfl,
        by rw [he2, hx, hd, List.append_assoc], ?_⟩
      intro hex _
      simp at hex

/-! ### 4. the printed line: characters, references, start -/

theorem museOK_of {l : ImgIt} {u : MUse} (h : ImgW l u) : MUseOK ESC u :=
  ⟨fun c hc => h.altCh c (by rw [← h.alt]; exact hc), h.C.ok, h.dest⟩

theorem imgsW_cons {l : ImgIt} {ls : List ImgIt} {u : MUse} {us : List MUse} :
    ImgsW (l :: ls) (u :: us) = (ImgW l u ∧ ImgsW ls us) := rfl

theorem imgsW_length : ∀ (ls : List ImgIt) (is : List MUse), ImgsW ls is → is.length = ls.length := by
  intro ls
  induction ls with
  | nil => intro is h; cases is with
    | nil => rfl
    | cons _ _ => exact absurd h (by simp [ImgsW])
  | cons l r ih => intro is h; cases is with
    | nil => exact absurd h (by simp [ImgsW])
    | cons u us => rw [imgsW_cons] at h; simp [ih us h.2]

theorem imgsW_mem : ∀ (ls : List ImgIt) (is : List MUse), ImgsW ls is → ∀ u ∈ is, ∃ l ∈ ls, ImgW l u := by
  intro ls
  induction ls with
  | nil => intro is h u hu; cases is with
    | nil => cases hu
    | cons _ _ => exact absurd h (by simp [ImgsW])
  | cons l r ih => intro is h u hu; cases is with
    | nil => cases hu
    | cons a us =>
      rw [imgsW_cons] at h
      rcases List.mem_cons.1 hu with rfl | hu
      · exact ⟨l, List.mem_cons_self, h.1⟩
      · obtain ⟨l', hl', hw⟩ := ih us h.2 u hu
        exact ⟨l', List.mem_cons_of_mem _ hl', hw⟩

theorem ImgW.amp {l : ImgIt} {u : MUse} (h : ImgW l u) : '&' ∉ destSrc u.url u.dtitle := by
  obtain ⟨q, hq⟩ := h.dtitle
  rw [hq, h.url]
  intro hm
  simp only [destSrc, List.mem_append] at hm
  rcases hm with hm | hm
  · exact (h.plainD _ hm).1 rfl
  · cases ht : l.title with
    | none => simp [ht, dtitleOf] at hm
    | some t =>
      simp only [ht, dtitleOf, List.mem_cons, List.mem_append, List.not_mem_nil, or_false] at hm
      have hqc : ('&' : Char) ≠ qChar q := by unfold qChar; split <;> decide
      rcases hm with hm | hm | hm | hm
      · exact absurd hm (by decide)
      · exact hqc hm
      · exact (h.plainT t ht _ hm).1 rfl
      · exact hqc hm

theorem okCh_alnumSp {c : Char} (h : isAlnumSp c = true) : DocParse2.okCh c :=
  okCh_plain (plainCh_facts (Or.inl h)).1 (plainCh_facts (Or.inl h)).2.1

theorem ImgW.altAmp {l : ImgIt} {u : MUse} (h : ImgW l u) : '&' ∉ u.alt := by
  rw [h.alt]
  intro hm
  exact (plainCh_facts (Or.inl (h.altCh _ hm))).2.2.1 rfl

theorem okCh_bang : DocParse2.okCh '!' := ⟨by decide, by decide, by decide, by decide, by decide, by decide⟩

/-- the pieces of an image with what follows -/
theorem imStage0_cons (m n0 : Nat) (u : MUse) (us : List MUse) :
    imStage ESC 0 false m n0 (u :: us) =
      ['!', '['] ++ (u.alt ++ ([']', '('] ++ (destSrc u.url u.dtitle ++ ([')'] ++ (u.C.raw ESC ++
        imStage ESC 0 false (m + u.C.escs ESC) (n0 + u.C.cnt 0) us))))) := by
  simp [imStage, Chunk.stage_raw]

/-- the characters of the images, and their numeric references -/
theorem imgs_chars : ∀ (ls : List ImgIt) (is : List MUse), ImgsW ls is → ∀ (m n0 : Nat),
    ('<' ∉ imStage ESC 0 false m n0 is → ∀ ch ∈ imStage ESC 0 false m n0 is, DocParse2.okCh ch) ∧
      refsClosed (imStage ESC 0 false m n0 is) = true := by
  intro ls
  induction ls with
  | nil =>
    intro is h m n0
    cases is with
    | nil => exact ⟨fun _ ch hch => by simp [imStage] at hch, rfl⟩
    | cons _ _ => exact absurd h (by simp [ImgsW])
  | cons l r ih =>
    intro is h m n0
    cases is with
    | nil => exact absurd h (by simp [ImgsW])
    | cons u us =>
      rw [imgsW_cons] at h
      obtain ⟨hu, hr⟩ := h
      obtain ⟨i1, i2⟩ := ih us hr (m + u.C.escs ESC) (n0 + u.C.cnt 0)
      rw [imStage0_cons]
      constructor
      · intro hlt ch hch
        simp only [List.mem_append, List.mem_cons, List.not_mem_nil, or_false] at hch hlt
        rcases hch with (rfl | rfl) | hch | (rfl | rfl) | hch | rfl | hch | hch
        · exact okCh_bang
        · exact okCh_lit _ (Or.inl rfl)
        · exact okCh_alnumSp (hu.altCh ch (by rw [← hu.alt]; exact hch))
        · exact okCh_lit _ (Or.inr (Or.inl rfl))
        · exact okCh_lit _ (Or.inr (Or.inr (Or.inl rfl)))
        · exact destSrc_chars hu.dest ch hch (fun e => hlt (by subst e; simp [hch]))
        · exact okCh_lit _ (Or.inr (Or.inr (Or.inr rfl)))
        · exact hu.C.chars ch hch
        · exact i1 (fun hm => hlt (by simp [hm])) ch hch
      · apply refsClosed_noamp_append _ _ (by decide)
        apply refsClosed_noamp_append _ _ hu.altAmp
        apply refsClosed_noamp_append _ _ (by decide)
        apply refsClosed_noamp_append _ _ hu.amp
        apply refsClosed_noamp_append _ _ (by decide)
        exact hu.C.refs _ i2

/-- everything the block stage and the preprocessors need of the printed line -/
theorem img_line_facts (A : List DocSpec.Inline) (ls : List ImgIt) (C0 : Chunk) (is : List MUse) (hW : ChunkW A C0)
    (hL : ImgsW ls is) (hne : ls ≠ []) (hst : startsOk (joinImgs A ls) = true) (hlt : '<' ∉ imgRaw ESC C0 is) :
    (∀ ch ∈ imgRaw ESC C0 is, DocParse2.okCh ch) ∧ refsClosed (imgRaw ESC C0 is) = true ∧
      LineStart (imgRaw ESC C0 is) ∧ olMarker (imgRaw ESC C0 is) = none := by
  obtain ⟨u1, u2⟩ := imgs_chars ls is hL 0 0
  have hltu : '<' ∉ imStage ESC 0 false 0 0 is := fun hm => hlt (by simp [imgRaw, hm])
  obtain ⟨l, r, rfl⟩ : ∃ l r, ls = l :: r := by
    cases ls with
    | nil => exact absurd rfl hne
    | cons l r => exact ⟨l, r, rfl⟩
  obtain ⟨u, us, rfl⟩ : ∃ u us, is = u :: us := by
    cases is with
    | nil => exact absurd hL (by simp [ImgsW])
    | cons u us => exact ⟨u, us, rfl⟩
  rw [imgsW_cons] at hL
  have hhead : ∀ ch, (imStage ESC 0 false 0 0 (u :: us)).head? = some ch → isDecimal ch = false ∧ ch ≠ '.' := by
    intro ch hch
    simp [imStage] at hch
    subst hch; exact ⟨by decide, by decide⟩
  refine ⟨?_, ?_, ?_, ?_⟩
  · intro ch hch
    rcases List.mem_append.1 hch with hch | hch
    · exact hW.chars ch hch
    · exact u1 hltu ch hch
  · exact hW.refs _ u2
  · cases A with
    | nil =>
      have hr := chunkW_nil hW
      refine ⟨'!', '[' :: (u.alt ++ (']' :: '(' :: (destSrc u.url u.dtitle ++ (')' ::
        (u.C.stage ESC 0 false 0 0 0 0 ++ imStage ESC 0 false (0 + u.C.escs ESC) (0 + u.C.cnt 0) us))))), ?_,
        by decide, by decide, Or.inl (by decide)⟩
      simp [imgRaw, hr, imStage]
    | cons a A' =>
      have hst' : startsOk (a :: A') = true := by
        cases r <;> cases a <;> simp_all [joinImgs, startsOk]
      exact hW.start hst' _
  · exact hW.ol _ hhead

/-! ### 5. the specification side -/

theorem specInline_image (a d : Str) (t : Option Str) :
    specInline (.image a d t) =
      S "<img alt=\"" ++ attrEsc a ++ S "\" src=\"" ++ attrEsc d ++ S "\"" ++ DocSpec.titleAttr t ++ S " />" := rfl

theorem img_spec {l : ImgIt} {u : MUse} (h : ImgW l u) : imgHtml u = specInline (.image l.alt l.dest l.title) := by
  obtain ⟨q, hq⟩ := h.dtitle
  have hpa : ∀ c ∈ l.alt, AttrPlain c := fun c hc => attrPlain_alnumSp (h.altCh c hc)
  have hurl : Ser.escAttrHtml u.url = attrEsc l.dest := by
    rw [h.url, escAttrHtml_plain _ h.plainD, attrEsc_plain _ h.plainD]
  have halt : Ser.escAttrHtml u.alt = attrEsc l.alt := by
    rw [h.alt, escAttrHtml_plain _ hpa, attrEsc_plain _ hpa]
  have hq' : titleOf u.dtitle = l.title := by
    rw [hq]; cases l.title <;> rfl
  have hne : ∀ t, l.title = some t → t ≠ [] := by
    intro t ht
    have hd := h.dest
    rw [hq, ht] at hd
    exact hd.2.2.2.2.2.1
  have hpt := h.plainT
  have htitle : (if Node.truthy (titleOf u.dtitle) then
      InlineRef.attrHtml .xhtml "title".toList ((titleOf u.dtitle).getD []) else []) = DocSpec.titleAttr l.title := by
    rw [hq']
    generalize l.title = ti at hne hpt
    cases ti with
    | none =>
      have htr : Node.truthy (none : Option Str) = false := rfl
      rw [titleAttr_none]
      simp only [htr, Bool.false_eq_true, if_false]
    | some t =>
      have htr : Node.truthy (some t) = true := (truthy_some_iff t).2 (hne t rfl)
      rw [titleAttr_some]
      simp only [InlineRef.attrHtml, htr, if_true, Option.getD_some,
        escAttrHtml_plain _ (hpt t rfl), attrEsc_plain _ (hpt t rfl), S]
      simp
  rw [specInline_image, ← hurl, ← halt, ← htitle]
  unfold imgHtml InlineRef.imgHtmlF
  simp [InlineRef.attrHtml, S, List.append_assoc]

theorem imOut_spec : ∀ (ls : List ImgIt) (is : List MUse), ImgsW ls is → ∀ (A : List DocSpec.Inline) (C0 : Chunk),
    ChunkW A C0 → C0.out ++ imOut is = specInlines (joinImgs A ls) := by
  intro ls
  induction ls with
  | nil =>
    intro is h A C0 hW
    cases is with
    | nil => simp [imOut_nil, joinImgs, hW.out]
    | cons _ _ => exact absurd h (by simp [ImgsW])
  | cons l r ih =>
    intro is h A C0 hW
    cases is with
    | nil => exact absurd h (by simp [ImgsW])
    | cons u us =>
      rw [imgsW_cons] at h
      have ihr := ih us h.2 l.after u.C h.1.C
      have hl := img_spec h.1
      rw [joinImgs, specInlines_append, specInlines_cons, ← ihr, ← hl, hW.out, imOut_cons]

/-! ### 6. from the grammar and well-formedness to the conditions on the parts -/

/-- the conditions on an item -/
def ItemOKM : DocSpec.Inline → Prop
  | .image al d ti => (∀ c ∈ al, isAlnumSp c = true) ∧ (∀ q, DestOK d (dtitleOf q ti)) ∧ (∀ c ∈ d, AttrPlain c) ∧
      ∀ t', ti = some t' → ∀ c ∈ t', AttrPlain c
  | x => mixItemsOK [x] = true

theorem itemOKM_of_wf (x : DocSpec.Inline) (brOk : Bool) (hp : isImgItem x = true)
    (hw : wfInline false .none brOk x = true) : ItemOKM x := by
  cases x with
  | image al d ti =>
    simp only [isImgItem] at hp
    simp only [wfInline, Bool.and_eq_true] at hw
    obtain ⟨⟨hal, hd⟩, hti⟩ := hw
    obtain ⟨d1, d2, d3⟩ := dest_of_wf d ti hd hti hp
    simp only [wfLabel, wfWords, Bool.and_eq_true, List.all_eq_true] at hal
    exact ⟨hal.1.1.1.2, d1, d2, d3⟩
  | text w => exact mixItemsOK_of_wfL [.text w] false brOk (by simp [isMixItem]) (by simp [wfInlineList, hw])
  | esc c => exact mixItemsOK_of_wfL [.esc c] false brOk (by simp [isMixItem]) (by simp [wfInlineList, hw])
  | code b =>
    exact mixItemsOK_of_wfL [.code b] false brOk (by simpa [isImgItem] using hp) (by simp [wfInlineList, hw])
  | em l =>
    exact mixItemsOK_of_wfL [.em l] false brOk (by simpa [isImgItem] using hp) (by simp [wfInlineList, hw])
  | strong l =>
    exact mixItemsOK_of_wfL [.strong l] false brOk (by simpa [isImgItem] using hp) (by simp [wfInlineList, hw])
  | link _ _ _ => simp [isImgItem, isMixItem] at hp
  | autolink _ => simp [isImgItem, isMixItem] at hp
  | br => simp [isImgItem, isMixItem] at hp

/-- the parts of content whose items are fine -/
theorem split_factsM (c : List DocSpec.Inline) :
    (∀ x ∈ c, ItemOKM x) → okAdjacents c = true → noBsBeforeCode c = true →
      mixOK (imgSplit c).1 = true ∧ ∀ l ∈ (imgSplit c).2, ImgOK l := by
  induction c with
  | nil => intro _ _ _; exact ⟨rfl, fun l hl => by cases hl⟩
  | cons x r ih =>
    intro hit hadj hnb
    obtain ⟨i1, i2⟩ := ih (fun y hy => hit y (List.mem_cons_of_mem _ hy)) (okAdjacents_tail hadj) (noBs_tail hnb)
    have hx := hit x List.mem_cons_self
    by_cases hl : isImgI x = true
    · obtain ⟨t, d, ti, rfl⟩ : ∃ t d ti, x = .image t d ti := by cases x <;> simp_all [isImgI]
      rw [imgSplit_image]
      obtain ⟨h1, h3, h4, h5⟩ := hx
      refine ⟨rfl, fun l hl' => ?_⟩
      rcases List.mem_cons.1 hl' with rfl | hl'
      · exact ⟨h1, i1, h3, h4, h5⟩
      · exact i2 l hl'
    · have hl' : isImgI x = false := by simpa using hl
      rw [imgSplit_other x r hl']
      refine ⟨?_, i2⟩
      obtain ⟨T, hT⟩ := imgSplit_prefix r
      have hxi : mixItemsOK [x] = true := by
        cases x <;> first | exact hx | simp [isImgI] at hl'
      have e : x :: r = (x :: (imgSplit r).1) ++ T := by rw [List.cons_append, ← hT]
      have ha := okAdjacents_prefix _ _ (e ▸ hadj)
      have hn := noBs_prefix _ _ (e ▸ hnb)
      simp only [mixOK, Bool.and_eq_true] at i1 ⊢
      exact ⟨⟨by rw [mixItemsOK_cons, hxi, i1.1.1]; rfl, ha⟩, hn⟩

theorem brItem_of_imgItem (x : DocSpec.Inline) (h : isImgItem x = true) (hl : isImgI x = false) :
    isBrItem x = true := by
  cases x with
  | image _ _ _ => simp [isImgI] at hl
  | em l =>
    rcases l with _ | ⟨y, _ | ⟨z, l'⟩⟩
    · simp [isImgItem, isMixItem] at h
    · cases y <;> simp_all [isImgItem, isMixItem, isBrItem, isDeep2Item, isDeepItem, noBsBeforeCode]
    · cases y <;> simp [isImgItem, isMixItem] at h
  | strong l =>
    rcases l with _ | ⟨y, _ | ⟨z, l'⟩⟩
    · simp [isImgItem, isMixItem] at h
    · cases y <;> simp_all [isImgItem, isMixItem, isBrItem, isDeep2Item, isDeepItem, noBsBeforeCode]
    · cases y <;> simp [isImgItem, isMixItem] at h
  | _ => simp_all [isImgItem, isMixItem, isBrItem, isDeep2Item]

/-! ### 7. the printed line inside a heading: `hashHeader` walks over it, and it does not end with a space -/

theorem chunkW_kinds {c : List DocSpec.Inline} {C : Chunk} (h : ChunkW c C) :
    ∀ s ∈ C.segs, MKindOK s.k ∧ '\n' ∉ s.k.src ∧ '\n' ∉ s.t := fun s hs =>
  ⟨(kindOK_of s.k (h.q s hs) (h.printed s hs)).1, (kindOK_of s.k (h.q s hs) (h.printed s hs)).2.2,
    fun hm => (plainCh_facts (h.plain _ (Or.inr ⟨s, hs, hm⟩))).2.1 rfl⟩

theorem chunkW_walk {c : List DocSpec.Inline} {C : Chunk} (h : ChunkW c C) : DocParse2.Walk (C.raw ESC) := by
  have h0 : '\n' ∉ C.t0 := fun hm => (plainCh_facts (h.plain _ (Or.inl hm))).2.1 rfl
  exact walk_append (walk_escAll escOK_generated C.t0 h0) (walk_rawM escOK_generated C.segs (chunkW_kinds h))

/-- `![alt](dest "title")` -/
def imgSrc (u : MUse) : Str := '!' :: '[' :: (u.alt ++ closerM u)

theorem imgSrc_last (u : MUse) : (imgSrc u).getLast? = some ')' := by
  have : imgSrc u = ('!' :: '[' :: (u.alt ++ ']' :: '(' :: destSrc u.url u.dtitle)) ++ [')'] := by
    simp [imgSrc, closerM, List.append_assoc]
  rw [this, List.getLast?_append]; rfl

theorem imgSrc_nl {l : ImgIt} {u : MUse} (h : ImgW l u) : '\n' ∉ imgSrc u := by
  intro hm
  simp only [imgSrc, closerM, List.mem_append, List.mem_cons, List.not_mem_nil, or_false] at hm
  rcases hm with hm | hm | hm | hm | hm | hm | hm
  · exact absurd hm (by decide)
  · exact absurd hm (by decide)
  · exact (okCh_alnumSp (h.altCh _ (by rw [← h.alt]; exact hm))).1 rfl
  · exact absurd hm (by decide)
  · exact absurd hm (by decide)
  · exact (destSrc_chars h.dest _ hm (by decide)).1 rfl
  · exact absurd hm (by decide)

theorem walk_imgSrc {l : ImgIt} {u : MUse} (h : ImgW l u) : DocParse2.Walk (imgSrc u) := by
  apply hashHeader_walk _ _ (Nat.le_refl _) (by simp [imgSrc]) (imgSrc_nl h)
  intro z hz
  rw [imgSrc_last] at hz
  have : ')' = z := by simpa using hz
  subst this; exact ⟨by decide, by decide⟩

theorem imStage0_cons' (m n0 : Nat) (u : MUse) (us : List MUse) :
    imStage ESC 0 false m n0 (u :: us) =
      imgSrc u ++ (u.C.raw ESC ++ imStage ESC 0 false (m + u.C.escs ESC) (n0 + u.C.cnt 0) us) := by
  simp [imStage, imgSrc, closerM, Chunk.stage_raw]

theorem walk_imStage : ∀ (ls : List ImgIt) (is : List MUse), ImgsW ls is → ∀ (m n0 : Nat),
    DocParse2.Walk (imStage ESC 0 false m n0 is) := by
  intro ls
  induction ls with
  | nil =>
    intro is h m n0
    cases is with
    | nil => exact walk_nil
    | cons _ _ => exact absurd h (by simp [ImgsW])
  | cons l r ih =>
    intro is h m n0
    cases is with
    | nil => exact absurd h (by simp [ImgsW])
    | cons u us =>
      rw [imgsW_cons] at h
      rw [imStage0_cons']
      exact walk_append (walk_imgSrc h.1) (walk_append (chunkW_walk h.1.C) (ih us h.2 _ _))

/-- **`hashHeader` walks over the printed line** -/
theorem walk_imgRaw (A : List DocSpec.Inline) (ls : List ImgIt) (C0 : Chunk) (is : List MUse) (hW : ChunkW A C0)
    (hL : ImgsW ls is) : DocParse2.Walk (imgRaw ESC C0 is) :=
  walk_append (chunkW_walk hW) (walk_imStage ls is hL 0 0)

theorem chunkW_last {c : List DocSpec.Inline} {C : Chunk} (h : ChunkW c C) (hen : endsOk c = true) :
    ∀ d, (C.raw ESC).getLast? = some d → isSpace d = false := by
  apply mix_raw_last ESC C.segs C.t0 h.ok.ok
  intro z hz
  rw [lastTextM_eq, h.smap, h.t0eq] at hz
  exact splitMix_last c h.items hen z hz

theorem endsOk_suffix (A : List DocSpec.Inline) (x : DocSpec.Inline) (B : List DocSpec.Inline) (hB : B ≠ [])
    (h : endsOk (A ++ x :: B) = true) : endsOk B = true := by
  induction A with
  | nil => exact endsOk_cons_ne hB h
  | cons a r ih => exact ih (endsOk_cons_ne (by simp) h)

theorem joinImgs_nil_iff (A : List DocSpec.Inline) (ls : List ImgIt) : joinImgs A ls = [] ↔ A = [] ∧ ls = [] := by
  cases ls with
  | nil => simp [joinImgs]
  | cons l r => simp [joinImgs]

theorem imgs_last : ∀ (ls : List ImgIt) (is : List MUse), ImgsW ls is → ∀ (A : List DocSpec.Inline) (C0 : Chunk)
    (m n0 : Nat), ChunkW A C0 → (joinImgs A ls ≠ [] → endsOk (joinImgs A ls) = true) →
    ∀ d, (C0.raw ESC ++ imStage ESC 0 false m n0 is).getLast? = some d → isSpace d = false := by
  intro ls
  induction ls with
  | nil =>
    intro is h A C0 m n0 hW hen d hd
    cases is with
    | cons _ _ => exact absurd h (by simp [ImgsW])
    | nil =>
      simp only [imStage, List.append_nil] at hd
      cases A with
      | nil => rw [chunkW_nil hW] at hd; cases hd
      | cons a A' => exact chunkW_last hW (hen (by simp [joinImgs])) d hd
  | cons l r ih =>
    intro is h A C0 m n0 hW hen d hd
    cases is with
    | nil => exact absurd h (by simp [ImgsW])
    | cons u us =>
      rw [imgsW_cons] at h
      have hen' : endsOk (A ++ .image l.alt l.dest l.title :: joinImgs l.after r) = true :=
        hen (by simp [joinImgs])
      have ihr := ih us h.2 l.after u.C (m + u.C.escs ESC) (n0 + u.C.cnt 0) h.1.C
        (fun hne => endsOk_suffix A _ _ hne hen')
      rw [imStage0_cons'] at hd
      generalize u.C.raw ESC ++ imStage ESC 0 false (m + u.C.escs ESC) (n0 + u.C.cnt 0) us = R at ihr hd
      have e : C0.raw ESC ++ (imgSrc u ++ R) = (C0.raw ESC ++ imgSrc u) ++ R := by rw [List.append_assoc]
      rw [e, List.getLast?_append] at hd
      cases hR : R.getLast? with
      | some z =>
        rw [hR] at hd
        have : z = d := by simpa using hd
        subst this; exact ihr z hR
      | none =>
        rw [hR, List.getLast?_append, imgSrc_last] at hd
        have : ')' = d := by simpa using hd
        subst this; decide

/-- **the printed line does not end with a space** -/
theorem imgRaw_last (A : List DocSpec.Inline) (ls : List ImgIt) (C0 : Chunk) (is : List MUse) (hW : ChunkW A C0)
    (hL : ImgsW ls is) (hen : endsOk (joinImgs A ls) = true) :
    ∀ d, (imgRaw ESC C0 is).getLast? = some d → isSpace d = false :=
  imgs_last ls is hL A C0 0 0 hW (fun _ => hen)

/-- everything a heading needs of the printed line -/
theorem imgRaw_rawOK (A : List DocSpec.Inline) (ls : List ImgIt) (C0 : Chunk) (is : List MUse) (hW : ChunkW A C0)
    (hL : ImgsW ls is) (hne : ls ≠ []) (hst : startsOk (joinImgs A ls) = true)
    (hen : endsOk (joinImgs A ls) = true) (hlt : '<' ∉ imgRaw ESC C0 is) : RawOK (imgRaw ESC C0 is) := by
  obtain ⟨hch, _, ⟨c, tail, e, hcs, _, hsh⟩, hol⟩ := img_line_facts A ls C0 is hW hL hne hst hlt
  exact ⟨⟨c, tail, e, hcs, hsh⟩, fun hm => (hch _ hm).1 rfl, imgRaw_last A ls C0 is hW hL hen, hol,
    walk_imgRaw A ls C0 is hW hL⟩

end MdVerif.DocImg
